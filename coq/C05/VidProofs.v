(* C05 / C06 — the visible-id layer (Vid.v) is transparent as long as the id counter has not
   wrapped: on every history that fits the 63-bit counter, the machine under the layer
   gives exactly the outputs of the bare machine of Model.v, so every theorem about
   [run] is a theorem about what the application sees. *)
From Coq Require Import ZArith List Bool Lia ZifyBool.
From FV Require Import Generated.Consts C05.Model C05.Spec C05.WheelInv C05.ListFacts C05.Refine C05.Machine C05.Vid.
Import ListNotations.
Open Scope Z_scope.

Fixpoint vrun {S : Type} (stepf : S -> op -> S * out) (refer_of : S -> list Z) (w : vw S) (ops : list op)
  : vw S * list out :=
  match ops with
  | [] => (w, [])
  | o :: r => let '(w1, x) := vstep stepf refer_of w o in
              let '(w2, xs) := vrun stepf refer_of w1 r in (w2, x :: xs)
  end.

Definition ident (l : list (Z * Z)) : Prop := forall p, In p l -> fst p = snd p.

Definition vok (w : vw st) : Prop :=
  vnext w = snext (vin w) /\ ident (vsched w) /\ ident (vall w) /\
  (forall k, In k (srefer (vin w)) -> In (k, k) (vsched w)).

Lemma prune_ident r sc : ident sc -> ident (v_prune r sc).
Proof. intros H p Hp. apply filter_In in Hp. apply H. tauto. Qed.

Lemma prune_cover r sc : (forall k, In k r -> In (k, k) sc) -> forall k, In k r -> In (k, k) (v_prune r sc).
Proof. intros H k Hk. apply filter_In. split; [apply H; exact Hk|]. cbn. apply mem_In. exact Hk. Qed.

Lemma prune_in r sc p : In p (v_prune r sc) -> In p sc /\ In (snd p) r.
Proof. intros H. apply filter_In in H. destruct H as [H1 H2]. split; [exact H1|apply mem_In; exact H2]. Qed.

Lemma v_key_ident sc vid :
  ident sc -> (In (vid, vid) sc -> v_key sc vid = vid) /\ (~ In (vid, vid) sc -> v_key sc vid = 0).
Proof.
  intros Hi. unfold v_key. destruct (find (fun p => fst p =? vid) sc) as [p|] eqn:E.
  - apply find_some in E. destruct E as [Hp E]. apply Z.eqb_eq in E. pose proof (Hi p Hp) as Hq.
    split; [intros _; lia|]. intros Hn. exfalso. apply Hn. destruct p as [a b]. cbn in *. subst. exact Hp.
  - split; [|reflexivity]. intros Hin. pose proof (find_none _ _ E _ Hin) as Hf. cbn in Hf. rewrite Z.eqb_refl in Hf. discriminate.
Qed.

Lemma v_vid_ident all key : ident all -> v_vid all key = key.
Proof.
  intros Hi. unfold v_vid. destruct (find (fun p => fst p =? key) all) as [p|] eqn:E; [|reflexivity].
  apply find_some in E. destruct E as [Hp E]. apply Z.eqb_eq in E. rewrite <- (Hi p Hp). exact E.
Qed.

Lemma map_deliv_ident all (l : list deliv) : ident all -> map (fun d => (v_vid all (fst d), snd d)) l = l.
Proof.
  intros Hi. induction l as [|[a b] r IH]; cbn; [reflexivity|]. rewrite v_vid_ident by exact Hi. rewrite IH. reflexivity.
Qed.

Lemma map_row_ident all l : ident all -> map (v_row all) l = l.
Proof.
  intros Hi. induction l as [|x r IH]; cbn; [reflexivity|]. rewrite IH. f_equal.
  unfold v_row. rewrite v_vid_ident by exact Hi. destruct x as [lv sl [i d p]]. reflexivity.
Qed.

(* a tick only takes ids out of the refer list *)
Lemma tick_refer_incl m : minv m -> incl (srefer (fst (step m Tick))) (srefer m).
Proof.
  intros Hm. cbn [step]. unfold core_tick. pose proof (mi_core m Hm) as Hcore.
  destruct (score m) as [w|h] eqn:Ec.
  - unfold wupdate.
    assert (G : forall k w r o, let '(w', r', o') := N.iter k wtick_acc (w, r, o) in winv w -> incl r' r).
    { clear. induction k as [|k IH] using N.peano_ind; intros w r o.
      - cbn. intros _. apply incl_refl.
      - rewrite N.iter_succ. specialize (IH w r o). destruct (N.iter k wtick_acc (w, r, o)) as [[w1 r1] o1] eqn:E1.
        unfold wtick_acc. destruct (wtick w1 r1) as [[w2 r2] o2] eqn:E2. intros Hi.
        destruct (wtick_acc_ids k _ _ _ _ _ _ Hi E1) as [Hi1 _].
        destruct (wtick_spec w1 r1 Hi1) as [w3 [N3 [E3 _]]]. cbn zeta in E3. rewrite E2 in E3. inversion E3; subst.
        eapply incl_tran; [|apply IH; exact Hi].
        unfold phase. cbn [fst snd]. rewrite !unrefer_fold. intros y Hy.
        apply filter_In in Hy. destruct Hy as [Hy _]. apply filter_In in Hy. tauto. }
    specialize (G (Z.to_N (sclock m - wtt w)) w (srefer m) []).
    destruct (N.iter (Z.to_N (sclock m - wtt w)) wtick_acc (w, srefer m, [])) as [[w' r'] o'].
    cbn [fst srefer]. apply G. exact Hcore.
  - unfold htick. set (due := hsort _). set (rest := filter _ h).
    assert (G : forall D h0 r o, incl (snd (fst (fold_left (hexpire_one (sclock m)) D (h0, r, o)))) r).
    { clear. induction D as [|n D IH]; intros h0 r o; cbn [fold_left]; [cbn; apply incl_refl|].
      rewrite hexpire_one_eq. destruct (alive r n); [destruct (periodic n)|]; try apply IH.
      eapply incl_tran; [apply IH|]. unfold unrefer. intros y Hy. apply filter_In in Hy. tauto. }
    specialize (G due rest (srefer m) []).
    destruct (fold_left (hexpire_one (sclock m)) due (rest, srefer m, [])) as [[h' r'] o'].
    cbn [fst snd srefer] in *. apply G.
Qed.

(* one step *)
Lemma vstep_transparent w o :
  vok w -> minv (vin w) -> snext (vin w) + 1 < 2 ^ 63 ->
  let '(w', x) := vstep step srefer w o in
  vin w' = fst (step (vin w) o) /\ x = snd (step (vin w) o) /\ vok w'.
Proof.
  intros [Hn [Hs [Ha Hc]]] Hm Hroom.
  set (m := vin w) in *. set (sc := v_prune (srefer m) (vsched w)).
  assert (Hsi : ident sc) by (apply prune_ident; exact Hs).
  assert (Hsc : forall k, In k (srefer m) -> In (k, k) sc) by (apply prune_cover; exact Hc).
  assert (Hkey : forall vid, v_key sc vid = vid /\ In vid (srefer m) \/ v_key sc vid = 0 /\ ~ In vid (srefer m)).
  { intros vid. destruct (v_key_ident sc vid Hsi) as [K1 K2].
    destruct (in_dec Z.eq_dec vid (srefer m)) as [Hin|Hnin]; [left; split; [apply K1, Hsc, Hin|exact Hin]|right].
    split; [|exact Hnin]. apply K2. intros Hp. apply prune_in in Hp. cbn in Hp. tauto. }
  assert (H0 : mem 0 (srefer m) = false).
  { apply not_true_is_false. intros H. apply mem_In in H. pose proof (mi_refer m Hm) as Mr. rewrite Forall_forall in Mr. specialize (Mr _ H). lia. }
  (* steps that do not change the refer list upward keep the invariant *)
  assert (Hkeep : forall m' : st, snext m' = snext m -> incl (srefer m') (srefer m) ->
                  vok (mkV m' (vnext w) (v_prune (srefer m') sc) (vall w))).
  { intros m' En Hsub. split; [cbn; lia|]. split; [apply prune_ident; exact Hsi|]. split; [exact Ha|].
    cbn [vin vsched]. apply prune_cover. intros k Hk. apply Hsc. apply Hsub. exact Hk. }
  pose proof (next_id_eq m Hm Hroom) as Hid.
  unfold vstep. fold m sc. destruct o.
  - (* Start *)
    cbn [step]. unfold schedule. rewrite Hid. cbn [fst snd].
    assert (Hal : alloc_id (vnext w) (v_in_use sc) = snext m + 1).
    { rewrite Hn. apply alloc_fresh; [exact (mi_next m Hm)|exact Hroom|].
      apply Forall_forall. intros x Hx. unfold v_in_use in Hx. apply in_map_iff in Hx. destruct Hx as [p [<- Hp]].
      pose proof (Hsi p Hp) as E. apply prune_in in Hp. destruct Hp as [_ Hr].
      pose proof (mi_refer m Hm) as Mr. rewrite Forall_forall in Mr. specialize (Mr _ Hr). lia. }
    rewrite Hal. split; [reflexivity|split; [reflexivity|]].
    split; [reflexivity|]. cbn [vin vsched vall srefer]. split; [|split].
    + apply prune_ident. intros p Hp. apply in_app_iff in Hp. destruct Hp as [Hp|[<-|[]]]; [apply Hsi; exact Hp|reflexivity].
    + intros p [<-|Hp]; [reflexivity|apply Ha; exact Hp].
    + apply prune_cover. intros k Hk. apply in_app_iff in Hk. apply in_app_iff.
      destruct Hk as [Hk|[<-|[]]]; [left; apply Hsc; exact Hk|right; left; reflexivity].
  - (* Every *)
    cbn [step]. unfold schedule. rewrite Hid. cbn [fst snd].
    assert (Hal : alloc_id (vnext w) (v_in_use sc) = snext m + 1).
    { rewrite Hn. apply alloc_fresh; [exact (mi_next m Hm)|exact Hroom|].
      apply Forall_forall. intros x Hx. unfold v_in_use in Hx. apply in_map_iff in Hx. destruct Hx as [q [<- Hq]].
      pose proof (Hsi q Hq) as E. apply prune_in in Hq. destruct Hq as [_ Hr].
      pose proof (mi_refer m Hm) as Mr. rewrite Forall_forall in Mr. specialize (Mr _ Hr). lia. }
    rewrite Hal. split; [reflexivity|split; [reflexivity|]].
    split; [reflexivity|]. cbn [vin vsched vall srefer]. split; [|split].
    + apply prune_ident. intros q Hq. apply in_app_iff in Hq. destruct Hq as [Hq|[<-|[]]]; [apply Hsi; exact Hq|reflexivity].
    + intros q [<-|Hq]; [reflexivity|apply Ha; exact Hq].
    + apply prune_cover. intros k Hk. apply in_app_iff in Hk. apply in_app_iff.
      destruct Hk as [Hk|[<-|[]]]; [left; apply Hsc; exact Hk|right; left; reflexivity].
  - (* Cancel *)
    destruct (Hkey id) as [[-> Hin]|[-> Hnin]].
    + destruct (step m (Cancel id)) as [m' x] eqn:E. cbn [fst snd]. split; [reflexivity|split; [reflexivity|]].
      assert (E' : m' = fst (step m (Cancel id))) by (rewrite E; reflexivity).
      apply Hkeep; [rewrite E'; cbn [step]; destruct (mem id (srefer m)); reflexivity|].
      rewrite E'. cbn [step]. destruct (mem id (srefer m)); cbn [fst srefer]; [|apply incl_refl].
      intros y Hy. unfold unrefer in Hy. apply filter_In in Hy. tauto.
    + assert (Hf : mem id (srefer m) = false) by (apply not_true_is_false; intros H; apply Hnin; apply mem_In; exact H).
      cbn [step]. rewrite H0, Hf. cbn [fst snd]. split; [reflexivity|split; [reflexivity|]].
      apply Hkeep; [reflexivity|apply incl_refl].
  - (* Size *)
    cbn [step fst snd]. split; [reflexivity|split; [reflexivity|]]. apply Hkeep; [reflexivity|apply incl_refl].
  - (* IsSched *)
    destruct (Hkey id) as [[-> Hin]|[-> Hnin]].
    + cbn [step fst snd]. split; [reflexivity|split; [reflexivity|]].
      split; [exact Hn|split; [exact Hsi|split; [exact Ha|exact Hsc]]].
    + assert (Hf : mem id (srefer m) = false) by (apply not_true_is_false; intros H; apply Hnin; apply mem_In; exact H).
      cbn [step fst snd]. rewrite H0, Hf. split; [reflexivity|split; [reflexivity|]].
      split; [exact Hn|split; [exact Hsi|split; [exact Ha|exact Hsc]]].
  - (* HandleAdd *)
    destruct (step m HandleAdd) as [m' x] eqn:E. cbn [fst snd].
    assert (E' : m' = fst (step m HandleAdd) /\ x = snd (step m HandleAdd)) by (rewrite E; split; reflexivity).
    destruct E' as [E1 E2]. split; [reflexivity|]. split; [rewrite E2; cbn [step]; destruct (spadd m); reflexivity|].
    apply Hkeep; rewrite E1; cbn [step]; destruct (spadd m); cbn; try reflexivity; apply incl_refl.
  - (* HandleDel *)
    destruct (step m HandleDel) as [m' x] eqn:E. cbn [fst snd].
    assert (E' : m' = fst (step m HandleDel) /\ x = snd (step m HandleDel)) by (rewrite E; split; reflexivity).
    destruct E' as [E1 E2]. split; [reflexivity|]. split; [rewrite E2; cbn [step]; destruct (spdel m); reflexivity|].
    apply Hkeep; rewrite E1; cbn [step]; destruct (spdel m); cbn; try reflexivity; apply incl_refl.
  - (* Pass *)
    cbn [step fst snd]. split; [reflexivity|split; [reflexivity|]]. apply Hkeep; [reflexivity|apply incl_refl].
  - (* Tick *)
    destruct (step m Tick) as [m' x] eqn:E. cbn [fst snd].
    assert (E1 : m' = fst (step m Tick)) by (rewrite E; reflexivity).
    assert (E2 : x = snd (step m Tick)) by (rewrite E; reflexivity).
    split; [reflexivity|]. split.
    + rewrite E2. cbn [step]. destruct (core_tick (score m) (srefer m) (sclock m)) as [[c r] o]. cbn [snd].
      rewrite map_deliv_ident by exact Ha. reflexivity.
    + apply Hkeep.
      * rewrite E1. cbn [step]. destruct (core_tick (score m) (srefer m) (sclock m)) as [[c r] o]. reflexivity.
      * rewrite E1. apply tick_refer_incl. exact Hm.
  - (* Probe *)
    cbn [step fst snd]. split; [reflexivity|split; [rewrite map_row_ident by exact Ha; reflexivity|]].
    apply Hkeep; [reflexivity|apply incl_refl].
Qed.

(* every history that fits the counter *)
Theorem vrun_transparent ops : forall w,
  vok w -> minv (vin w) -> (exists z, rel (vin w) z) -> fits (vin w) ops ->
  snd (vrun step srefer w ops) = snd (run (vin w) ops).
Proof.
  induction ops as [|o ops IH]; intros w Hv Hm [z Hr] Hf; cbn [vrun run]; [reflexivity|].
  unfold fits in Hf. cbn [length] in Hf. assert (Hroom : snext (vin w) + 1 < 2 ^ 63) by lia.
  pose proof (vstep_transparent w o Hv Hm Hroom) as Ht.
  destruct (step_sim (vin w) z o Hm Hr Hroom) as [Hm1 [Hr1 _]].
  pose proof (step_next_le (vin w) o Hm Hroom) as Hn.
  destruct (vstep step srefer w o) as [w1 x]. destruct Ht as [E1 [E2 Hv1]].
  destruct (step (vin w) o) as [m1 y]. cbn [fst snd] in *. subst x.
  specialize (IH w1 Hv1). rewrite E1 in IH.
  destruct (vrun step srefer w1 ops) as [w2 xs]. destruct (run m1 ops) as [m2 ys]. cbn [fst snd] in *.
  f_equal. apply IH; [exact Hm1|eexists; exact Hr1|unfold fits; lia].
Qed.

Corollary vrun_wheel ops cur tt :
  0 <= cur -> short ops ->
  snd (vrun step srefer (vinit (init_wheel cur tt)) ops) = snd (run (init_wheel cur tt) ops).
Proof.
  intros Hc Hs. apply vrun_transparent.
  - split; [reflexivity|]. split; [intros p []|split; [intros p []|intros k []]].
  - apply minv_init_wheel. exact Hc.
  - eexists. apply rel_init_wheel.
  - unfold short, fits in *. cbn. lia.
Qed.

Corollary vrun_heap ops now :
  short ops ->
  snd (vrun step srefer (vinit (init_heap now)) ops) = snd (run (init_heap now) ops).
Proof.
  intros Hs. apply vrun_transparent.
  - split; [reflexivity|]. split; [intros p []|split; [intros p []|intros k []]].
  - apply minv_init_heap.
  - eexists. apply rel_init_heap.
  - unfold short, fits in *. cbn. lia.
Qed.

Lemma vrun_both ops :
  short ops ->
  (forall cur tt, 0 <= cur ->
     snd (vrun step srefer (vinit (init_wheel cur tt)) ops) = snd (run (init_wheel cur tt) ops)) /\
  (forall now, snd (vrun step srefer (vinit (init_heap now)) ops) = snd (run (init_heap now) ops)).
Proof. intros Hs. split; [intros cur tt Hc; apply vrun_wheel; assumption|intros now; apply vrun_heap; exact Hs]. Qed.
