(* C05 — one tick of the wheel refines one tick of the pending-multiset specification. *)
From Coq Require Import ZArith List Bool Lia ZifyBool Permutation Sorted.
From FV Require Import C05.Model C05.Spec C05.WheelInv C05.ListFacts.
Import ListNotations.
Open Scope Z_scope.

(* equal up to the order among deliveries with the same due time *)
Definition deq (a b : list deliv) : Prop := Permutation a b /\ map snd a = map snd b.

Lemma deq_app a a' b b' : deq a a' -> deq b b' -> deq (a ++ b) (a' ++ b').
Proof.
  intros [P1 E1] [P2 E2]. split; [apply Permutation_app; assumption|].
  rewrite !map_app. f_equal; [exact E1|exact E2].
Qed.

Lemma deq_refl a : deq a a.
Proof. split; reflexivity. Qed.

Lemma map_snd_deliv l : map snd (map deliv_of l) = map ndl l.
Proof. induction l as [|x r IH]; cbn; [reflexivity|]. f_equal. exact IH. Qed.

Lemma filter_all {A} (f : A -> bool) l : (forall x, In x l -> f x = true) -> filter f l = l.
Proof.
  induction l as [|x r IH]; cbn; intros H; [reflexivity|].
  rewrite (H x (or_introl eq_refl)). f_equal. apply IH. intros y Hy. apply H. right. exact Hy.
Qed.

Lemma filter_none {A} (f : A -> bool) l : (forall x, In x l -> f x = false) -> filter f l = [].
Proof.
  induction l as [|x r IH]; cbn; intros H; [reflexivity|].
  rewrite (H x (or_introl eq_refl)). apply IH. intros y Hy. apply H. right. exact Hy.
Qed.

Lemma sorted_const (u : Z) l : (forall x, In x l -> x = u) -> StronglySorted Z.le l.
Proof.
  induction l as [|x r IH]; intros H; constructor.
  - apply IH. intros y Hy. apply H. right. exact Hy.
  - apply Forall_forall. intros y Hy. rewrite (H x (or_introl eq_refl)), (H y (or_intror Hy)). lia.
Qed.

Lemma sorted_two_blocks (u v : Z) a b :
  (forall x, In x a -> x = u) -> (forall x, In x b -> x = v) -> u <= v ->
  StronglySorted Z.le (a ++ b).
Proof.
  induction a as [|x r IH]; cbn; intros Ha Hb Huv.
  - eapply sorted_const. exact Hb.
  - constructor; [apply IH; [intros y Hy; apply Ha; right; exact Hy|exact Hb|exact Huv]|].
    apply Forall_forall. intros y Hy. rewrite (Ha x (or_introl eq_refl)).
    apply in_app_iff in Hy. destruct Hy as [Hy|Hy]; [rewrite (Ha y (or_intror Hy)); lia|rewrite (Hb y Hy); lia].
Qed.

(* phase 1 of a tick never meets a periodic node *)
Lemma phase1_simpl t r N :
  per_ok t N ->
  phase t r N =
  (filter (fun n => negb (due_at t n)) N,
   fold_left unrefer (map nid (filter (alive r) (filter (due_at t) N))) r,
   map deliv_of (filter (alive r) (filter (due_at t) N))).
Proof.
  intros Hper. unfold phase.
  assert (Hnp : forall n, In n (filter (due_at t) N) -> periodic n = false).
  { intros n Hn. apply filter_In in Hn. destruct Hn as [Hn Hd]. unfold per_ok in Hper.
    rewrite Forall_forall in Hper. specialize (Hper n Hn). unfold due_at in Hd. apply Z.eqb_eq in Hd.
    unfold periodic. destruct (Z.ltb_spec 0 (nper n)); [lia|reflexivity]. }
  rewrite (filter_none (fun n => alive r n && periodic n))
    by (intros n Hn; rewrite (Hnp n Hn); apply andb_false_r).
  rewrite (filter_ext_in' (fun n => alive r n && negb (periodic n)) (alive r))
    by (intros n Hn; rewrite (Hnp n Hn); apply andb_true_r).
  cbn [map]. rewrite app_nil_r. reflexivity.
Qed.

Section TwoPhase.
  Variables (t : Z) (r : list Z) (N N3 P : list node).
  Hypothesis Hdl : Forall (fun n => t <= ndl n) N.
  Hypothesis Hper : per_ok t N.
  Hypothesis Hnd : NoDup (map nid N).
  Let p1 := phase t r N.
  Hypothesis HN3 : Permutation N3 (fst (fst p1)).
  Let r1 := snd (fst p1).
  Let p2 := phase (t + 1) r1 N3.
  Hypothesis HP : Permutation P (filter (alive r) N).

  Let At := filter (alive r) (filter (due_at t) N).

  Lemma tp_p1 : p1 = (filter (fun n => negb (due_at t n)) N, fold_left unrefer (map nid At) r, map deliv_of At).
  Proof. unfold p1. apply phase1_simpl. exact Hper. Qed.

  Lemma tp_r1 : r1 = filter (fun x => negb (mem x (map nid At))) r.
  Proof. unfold r1. rewrite tp_p1. cbn [fst snd]. apply unrefer_fold. Qed.

  Lemma tp_in_N3 n : In n N3 <-> In n N /\ ndl n <> t.
  Proof.
    split.
    - intros H. apply (Permutation_in _ HN3) in H. rewrite tp_p1 in H. cbn [fst] in H.
      apply filter_In in H. destruct H as [H Hd]. split; [exact H|].
      unfold due_at in Hd. apply negb_true_iff, Z.eqb_neq in Hd. exact Hd.
    - intros [H Hd]. apply (Permutation_in _ (Permutation_sym HN3)). rewrite tp_p1. cbn [fst].
      apply filter_In. split; [exact H|]. unfold due_at. apply negb_true_iff, Z.eqb_neq. exact Hd.
  Qed.

  Lemma tp_nd3 : NoDup (map nid N3).
  Proof.
    eapply Permutation_NoDup; [apply Permutation_map, Permutation_sym; exact HN3|].
    apply phase_nodup. exact Hnd.
  Qed.

  Lemma tp_in_At n : In n At <-> In n N /\ ndl n = t /\ alive r n = true.
  Proof.
    unfold At. rewrite !filter_In. unfold due_at. rewrite Z.eqb_eq. tauto.
  Qed.

  (* a node that is not delivered in phase 1 keeps its status *)
  Lemma tp_alive1 n : In n N -> ndl n <> t -> alive r1 n = alive r n.
  Proof.
    intros Hn Hd. unfold alive. rewrite tp_r1, mem_filter.
    destruct (mem (nid n) (map nid At)) eqn:Hm; [|apply andb_true_r].
    exfalso. apply mem_In in Hm. apply in_map_iff in Hm. destruct Hm as [a [Ea Ha]].
    apply tp_in_At in Ha. destruct Ha as [Ha [Hda _]].
    assert (a = n) by (eapply nodup_ids_inj; eassumption). subst a. contradiction.
  Qed.

  Let D2 := filter (due_at (t + 1)) N3.
  Let A2 := filter (alive r1) D2.

  Lemma tp_in_A2 n : In n A2 <-> In n N /\ ndl n = t + 1 /\ alive r n = true.
  Proof.
    unfold A2, D2. rewrite !filter_In, tp_in_N3. unfold due_at. rewrite Z.eqb_eq. split.
    - intros [[[Hn Hd] Hd2] Ha]. rewrite tp_alive1 in Ha by assumption. tauto.
    - intros [Hn [Hd Ha]]. assert (ndl n <> t) by lia. rewrite tp_alive1 by assumption. tauto.
  Qed.

  Lemma tp_p2 :
    p2 = (filter (fun n => negb (due_at (t + 1) n)) N3
            ++ map (rearm (t + 1)) (filter (fun n => alive r1 n && periodic n) D2),
          fold_left unrefer (map nid (filter (fun n => alive r1 n && negb (periodic n)) D2)) r1,
          map deliv_of A2).
  Proof. reflexivity. Qed.

  (* the specification's tick *)
  Let due := dsort (filter (is_due (t + 1)) P).

  Lemma tp_in_P n : In n P <-> In n N /\ alive r n = true.
  Proof.
    split.
    - intros H. apply (Permutation_in _ HP) in H. apply filter_In in H. exact H.
    - intros H. apply (Permutation_in _ (Permutation_sym HP)). apply filter_In. exact H.
  Qed.

  Lemma tp_ndP : NoDup P.
  Proof.
    eapply Permutation_NoDup; [apply Permutation_sym; exact HP|].
    apply NoDup_filter. apply nodup_nodes. exact Hnd.
  Qed.

  Lemma tp_in_due n : In n due <-> In n N /\ alive r n = true /\ (ndl n = t \/ ndl n = t + 1).
  Proof.
    unfold due. split.
    - intros H. apply (Permutation_in _ (dsort_perm _)) in H. apply filter_In in H.
      destruct H as [H Hd]. apply tp_in_P in H. destruct H as [Hn Ha].
      rewrite Forall_forall in Hdl. specialize (Hdl n Hn). unfold is_due in Hd.
      split; [exact Hn|split; [exact Ha|lia]].
    - intros [Hn [Ha Hd]]. apply (Permutation_in _ (Permutation_sym (dsort_perm _))).
      apply filter_In. split; [apply tp_in_P; tauto|]. unfold is_due. lia.
  Qed.

  Lemma tp_nd_due : NoDup due.
  Proof.
    eapply Permutation_NoDup; [apply Permutation_sym, dsort_perm|]. apply NoDup_filter. exact tp_ndP.
  Qed.

  Lemma tp_nd_At : NoDup At.
  Proof. unfold At. apply NoDup_filter, NoDup_filter, nodup_nodes. exact Hnd. Qed.

  Lemma tp_nd_A2 : NoDup A2.
  Proof. unfold A2, D2. apply NoDup_filter, NoDup_filter, nodup_nodes. exact tp_nd3. Qed.

  Lemma tp_due_perm : Permutation (At ++ A2) due.
  Proof.
    apply NoDup_Permutation.
    - apply nodup_app_intro; [exact tp_nd_At|exact tp_nd_A2|].
      intros x Hx Hy. apply tp_in_At in Hx. apply tp_in_A2 in Hy. lia.
    - exact tp_nd_due.
    - intros n. rewrite in_app_iff, tp_in_At, tp_in_A2, tp_in_due. tauto.
  Qed.

  (* deliveries *)
  Lemma tp_out : deq (snd p1 ++ snd p2) (map deliv_of due).
  Proof.
    rewrite tp_p1, tp_p2. cbn [snd]. rewrite <- map_app. split.
    - apply Permutation_map. exact tp_due_perm.
    - rewrite !map_snd_deliv. apply sorted_perm_eq.
      + rewrite map_app. apply (sorted_two_blocks t (t + 1)); [| |lia].
        * intros x Hx. apply in_map_iff in Hx. destruct Hx as [n [<- Hn]]. apply tp_in_At in Hn. tauto.
        * intros x Hx. apply in_map_iff in Hx. destruct Hx as [n [<- Hn]]. apply tp_in_A2 in Hn. tauto.
      + apply dsort_sorted.
      + apply Permutation_map. exact tp_due_perm.
  Qed.
  (* scheduled ids *)
  Lemma tp_At_oneshot n : In n At -> periodic n = false.
  Proof.
    intros H. apply tp_in_At in H. destruct H as [Hn [Hd _]].
    unfold per_ok in Hper. rewrite Forall_forall in Hper. specialize (Hper n Hn).
    unfold periodic. destruct (Z.ltb_spec 0 (nper n)); [lia|reflexivity].
  Qed.

  Let ids1 := map nid At.
  Let ids2 := map nid (filter (fun n => alive r1 n && negb (periodic n)) D2).
  Let ids' := map nid (filter (fun n => negb (periodic n)) due).

  Lemma tp_in_ids2 x : In x ids2 <-> exists n, In n A2 /\ periodic n = false /\ nid n = x.
  Proof.
    unfold ids2. rewrite in_map_iff. split.
    - intros [n [E H]]. exists n. apply filter_In in H. destruct H as [H Hb].
      apply andb_true_iff in Hb. destruct Hb as [Ha Hp]. apply negb_true_iff in Hp.
      split; [unfold A2; apply filter_In; tauto|tauto].
    - intros [n [H [Hp E]]]. exists n. split; [exact E|]. unfold A2 in H. apply filter_In in H.
      apply filter_In. split; [tauto|]. destruct H as [_ ->]. rewrite Hp. reflexivity.
  Qed.

  Lemma tp_ids x : In x ids' <-> In x (ids1 ++ ids2).
  Proof.
    rewrite in_app_iff, tp_in_ids2. unfold ids', ids1. rewrite !in_map_iff. split.
    - intros [n [E H]]. apply filter_In in H. destruct H as [H Hp]. apply negb_true_iff in Hp.
      apply tp_in_due in H. destruct H as [Hn [Ha [Hd|Hd]]].
      + left. exists n. split; [exact E|]. apply tp_in_At. tauto.
      + right. exists n. split; [apply tp_in_A2; tauto|tauto].
    - intros [[n [E H]]|[n [H [Hp E]]]]; exists n; (split; [exact E|]); apply filter_In.
      + split; [apply tp_in_due; apply tp_in_At in H; tauto|].
        rewrite (tp_At_oneshot n H). reflexivity.
      + split; [apply tp_in_due; apply tp_in_A2 in H; tauto|]. rewrite Hp. reflexivity.
  Qed.

  Lemma mem_app x a b : mem x (a ++ b) = mem x a || mem x b.
  Proof. unfold mem. apply existsb_app. Qed.

  Lemma tp_r2 : snd (fst p2) = filter (fun x => negb (mem x (ids1 ++ ids2))) r.
  Proof.
    rewrite tp_p2. cbn [fst snd]. rewrite unrefer_fold. fold ids2.
    transitivity (filter (fun x => negb (mem x ids2)) (filter (fun x => negb (mem x ids1)) r)).
    { f_equal. exact tp_r1. }
    rewrite filter_filter'. apply filter_ext. intros x. rewrite mem_app, negb_orb. reflexivity.
  Qed.

  Lemma tp_refer :
    snd (fst p2) = fold_left unrefer (map nid (filter (fun n => negb (periodic n)) due)) r.
  Proof.
    rewrite tp_r2, unrefer_fold. apply filter_ext. intros x. fold ids'.
    rewrite (mem_ext _ _ tp_ids x). reflexivity.
  Qed.

  (* status of a node after the tick *)
  Lemma tp_alive2 n :
    alive (snd (fst p2)) n = alive r n && negb (mem (nid n) ids1) && negb (mem (nid n) ids2).
  Proof.
    unfold alive. rewrite tp_r2, mem_filter, mem_app, negb_orb, andb_assoc. reflexivity.
  Qed.

  Lemma tp_not_ids1 n : In n N -> ndl n <> t -> mem (nid n) ids1 = false.
  Proof.
    intros Hn Hd. apply not_true_is_false. intros Hm. apply mem_In in Hm. unfold ids1 in Hm.
    apply in_map_iff in Hm. destruct Hm as [a [Ea Ha]]. apply tp_in_At in Ha. destruct Ha as [Ha [Hda _]].
    assert (a = n) by (eapply nodup_ids_inj; eassumption). subst a. contradiction.
  Qed.

  Lemma tp_not_ids2 n : In n N -> (ndl n <> t + 1 \/ periodic n = true) -> mem (nid n) ids2 = false.
  Proof.
    intros Hn Hd. apply not_true_is_false. intros Hm. apply mem_In in Hm.
    apply tp_in_ids2 in Hm. destruct Hm as [a [Ha [Hp Ea]]]. apply tp_in_A2 in Ha. destruct Ha as [Ha [Hda _]].
    assert (a = n) by (eapply nodup_ids_inj; eassumption). subst a. destruct Hd; [contradiction|congruence].
  Qed.

  (* pending timers *)
  Lemma tp_pending :
    Permutation (filter (fun n => negb (is_due (t + 1) n)) P ++ map (rearm (t + 1)) (filter periodic due))
                (filter (alive (snd (fst p2))) (fst (fst p2))).
  Proof.
    rewrite tp_p2 at 2. cbn [fst]. rewrite filter_app. apply Permutation_app.
    - apply NoDup_Permutation.
      + apply NoDup_filter. exact tp_ndP.
      + apply NoDup_filter, NoDup_filter, nodup_nodes. exact tp_nd3.
      + intros n. rewrite !filter_In, tp_in_P, tp_in_N3. unfold is_due, due_at. split.
        * intros [[Hn Ha] Hd]. rewrite Forall_forall in Hdl. specialize (Hdl n Hn).
          assert (ndl n <> t) by lia. assert (ndl n <> t + 1) by lia.
          split; [split; [tauto|lia]|].
          rewrite tp_alive2, Ha, tp_not_ids1, tp_not_ids2 by tauto. reflexivity.
        * intros [[[Hn Hd] Hd2] Ha]. rewrite Forall_forall in Hdl. specialize (Hdl n Hn).
          rewrite tp_alive2 in Ha. apply andb_true_iff in Ha. destruct Ha as [Ha _].
          apply andb_true_iff in Ha. destruct Ha as [Ha _].
          split; [tauto|lia].
    - set (L := filter (fun n => alive r1 n && periodic n) D2).
      assert (HL : forall n, In n L <-> In n N /\ ndl n = t + 1 /\ alive r n = true /\ periodic n = true).
      { intros n. unfold L. rewrite filter_In, andb_true_iff. split.
        - intros [Hd [Ha Hp]]. assert (In n A2) by (unfold A2; apply filter_In; tauto).
          apply tp_in_A2 in H. tauto.
        - intros [Hn [Hd [Ha Hp]]]. assert (In n A2) by (apply tp_in_A2; tauto).
          unfold A2 in H. apply filter_In in H. tauto. }
      rewrite (filter_all (alive (snd (fst p2)))).
      + apply Permutation_map. apply NoDup_Permutation.
        * apply NoDup_filter. exact tp_nd_due.
        * unfold L, D2. apply NoDup_filter, NoDup_filter, nodup_nodes. exact tp_nd3.
        * intros n. rewrite filter_In, tp_in_due, HL. split.
          -- intros [[Hn [Ha [Hd|Hd]]] Hp]; [|tauto].
             assert (In n At) by (apply tp_in_At; tauto). rewrite (tp_At_oneshot n H) in Hp. discriminate.
          -- tauto.
      + intros m Hm. apply in_map_iff in Hm. destruct Hm as [n [<- Hn]]. apply HL in Hn.
        destruct Hn as [Hn [Hd [Ha Hp]]].
        replace (alive (snd (fst p2)) (rearm (t + 1) n)) with (alive (snd (fst p2)) n) by reflexivity.
        rewrite tp_alive2, Ha, tp_not_ids1, tp_not_ids2 by (try tauto; lia). reflexivity.
  Qed.
End TwoPhase.

(* ------------------------------------------------------------------------------------ *)
(* one tick of the wheel against one tick of the specification *)

Lemma winv_dl w : winv w -> Forall (fun n => wtt w <= ndl n) (wcontent w).
Proof.
  intros [Hc [Hall _]]. unfold wcontent. apply Forall_forall. intros n Hn.
  apply in_map_iff in Hn. destruct Hn as [x [<- Hx]]. rewrite Forall_forall in Hall.
  eapply nok_dl; [|apply Hall; exact Hx]. lia.
Qed.

Lemma wtick_refines w r P :
  winv w -> Permutation P (filter (alive r) (wcontent w)) ->
  exists w' r' o P' o',
    wtick w r = (w', r', o) /\ spec_tick (wtt w + 1) P r = (P', r', o') /\
    winv w' /\ wcur w' = wcur w + 1 /\ wtt w' = wtt w + 1 /\
    Permutation P' (filter (alive r') (wcontent w')) /\ deq o o'.
Proof.
  intros Hi HP. destruct (wtick_spec w r Hi) as [w' [N3 [E [HN3 [EN [Hc [Ht Hi']]]]]]].
  cbn zeta in *. pose proof (winv_dl w Hi) as Hdl. destruct Hi as [_ [_ [Hnd Hper]]].
  set (t := wtt w) in *. set (N := wcontent w) in *.
  pose proof (tp_refer t r N N3 P Hdl Hper Hnd HN3 HP) as Hr.
  pose proof (tp_pending t r N N3 P Hdl Hper Hnd HN3 HP) as Hp.
  pose proof (tp_out t r N N3 P Hdl Hper Hnd HN3 HP) as Ho.
  set (p2 := phase (t + 1) (snd (fst (phase t r N))) N3) in *.
  exists w', (snd (fst p2)), (snd (phase t r N) ++ snd p2),
    (fst (fst (spec_tick (t + 1) P r))), (snd (spec_tick (t + 1) P r)).
  split; [exact E|]. split; [|split; [exact Hi'|split; [exact Hc|split; [exact Ht|split]]]].
  - unfold spec_tick. cbn [fst snd]. rewrite Hr. reflexivity.
  - rewrite EN. unfold spec_tick. cbn [fst snd]. exact Hp.
  - unfold spec_tick. cbn [fst snd]. exact Ho.
Qed.

(* a burst of ticks *)
Definition racc (delta : Z) (a : wheel * list Z * list deliv) (b : Z * list node * list Z * list deliv) : Prop :=
  let '(w, r, o) := a in
  let '(t, P, r', o') := b in
  winv w /\ wtt w = t /\ wcur w = t + delta /\ r = r' /\
  Permutation P (filter (alive r) (wcontent w)) /\ deq o o'.

Lemma racc_step delta a b : racc delta a b -> racc delta (wtick_acc a) (ticks_acc b).
Proof.
  destruct a as [[w r] o]. destruct b as [[[t P] r'] o']. unfold racc.
  intros [Hi [Ht [Hc [<- [HP Ho]]]]]. subst t.
  destruct (wtick_refines w r P Hi HP) as [w2 [r2 [o2 [P2 [o2' [E [E' [Hi2 [Hc2 [Ht2 [HP2 Ho2]]]]]]]]]]].
  unfold wtick_acc, ticks_acc. rewrite E, E'.
  split; [exact Hi2|split; [exact Ht2|split; [lia|split; [reflexivity|split; [exact HP2|]]]]].
  apply deq_app; [exact Ho|exact Ho2].
Qed.

Lemma racc_iter delta k a b : racc delta a b -> racc delta (N.iter k wtick_acc a) (N.iter k ticks_acc b).
Proof.
  intros H. induction k as [|k IH] using N.peano_ind; [exact H|].
  rewrite !N.iter_succ. apply racc_step. exact IH.
Qed.

Lemma iter_ticks_time k : forall t P r o,
  fst (fst (fst (N.iter k ticks_acc (t, P, r, o)))) = t + Z.of_N k.
Proof.
  induction k as [|k IH] using N.peano_ind; intros t P r o; [cbn; lia|].
  rewrite N.iter_succ. specialize (IH t P r o).
  destruct (N.iter k ticks_acc (t, P, r, o)) as [[[t1 P1] r1] o1]. cbn [fst] in IH. subst t1.
  unfold ticks_acc. destruct (spec_tick (t + Z.of_N k + 1) P1 r1) as [[P2 r2] o2]. cbn [fst]. lia.
Qed.

(* ------------------------------------------------------------------------------------ *)
(* the heap's tick against one tick of the specification *)

Lemma hexpire_one_eq now h r o n :
  hexpire_one now (h, r, o) n =
  if alive r n then
    if periodic n then (h ++ [rearm now n], r, o ++ [deliv_of n])
    else (h, unrefer r (nid n), o ++ [deliv_of n])
  else (h, r, o).
Proof. reflexivity. Qed.

Lemma hexpire_fold now D : forall h r o,
  NoDup (map nid D) ->
  fold_left (hexpire_one now) D (h, r, o) =
  (h ++ map (rearm now) (filter (fun n => alive r n && periodic n) D),
   fold_left unrefer (map nid (filter (fun n => alive r n && negb (periodic n)) D)) r,
   o ++ map deliv_of (filter (alive r) D)).
Proof.
  induction D as [|n rest IH]; intros h r o Hnd; cbn [fold_left map filter].
  - rewrite !app_nil_r. reflexivity.
  - inversion Hnd as [|? ? Hnotin Hnd']; subst.
    rewrite hexpire_one_eq. destruct (alive r n) eqn:Ha; cbn [andb].
    + destruct (periodic n) eqn:Hp; cbn [negb].
      * rewrite IH by exact Hnd'. cbn [map fold_left]. rewrite <- !app_assoc. reflexivity.
      * rewrite IH by exact Hnd'. cbn [map fold_left].
        assert (Hf : forall g : node -> bool,
                   filter (fun m => alive (unrefer r (nid n)) m && g m) rest
                   = filter (fun m => alive r m && g m) rest).
        { intros g. apply filter_ext_in'. intros m Hm. rewrite alive_unrefer_other; [reflexivity|].
          intros He. apply Hnotin. rewrite <- He. apply in_map. exact Hm. }
        rewrite !Hf.
        assert (Hf2 : filter (alive (unrefer r (nid n))) rest = filter (alive r) rest).
        { apply filter_ext_in'. intros m Hm. apply alive_unrefer_other.
          intros He. apply Hnotin. rewrite <- He. apply in_map. exact Hm. }
        rewrite Hf2. rewrite <- !app_assoc. reflexivity.
    + apply IH. exact Hnd'.
Qed.

Lemma sorted_map_filter {A} (f : A -> Z) (g : A -> bool) l :
  StronglySorted Z.le (map f l) -> StronglySorted Z.le (map f (filter g l)).
Proof.
  induction l as [|x r IH]; cbn; intros H; [constructor|].
  inversion H as [|? ? Hr Hx]; subst. destruct (g x); cbn; [|apply IH; exact Hr].
  constructor; [apply IH; exact Hr|].
  apply Forall_forall. intros y Hy. apply in_map_iff in Hy. destruct Hy as [m [<- Hm]].
  apply filter_In in Hm. rewrite Forall_forall in Hx. apply Hx. apply in_map. tauto.
Qed.

Section HeapTick.
  Variables (now : Z) (r : list Z) (h P : list node).
  Hypothesis Hnd : NoDup (map nid h).
  Hypothesis HP : Permutation P (filter (alive r) h).

  Let D := hsort (filter (is_due now) h).
  Let rest := filter (fun n => negb (is_due now n)) h.
  Let due := dsort (filter (is_due now) P).

  Lemma ht_eq :
    htick h r now =
    (rest ++ map (rearm now) (filter (fun n => alive r n && periodic n) D),
     fold_left unrefer (map nid (filter (fun n => alive r n && negb (periodic n)) D)) r,
     map deliv_of (filter (alive r) D)).
  Proof.
    unfold htick. fold (is_due now). fold D.
    rewrite (filter_ext (fun n => now <? ndl n) (fun n => negb (is_due now n)))
      by (intros n; unfold is_due; lia).
    fold rest. rewrite hexpire_fold; [reflexivity|].
    eapply Permutation_NoDup; [apply Permutation_map, Permutation_sym, hsort_perm|].
    apply NoDup_map_filter. exact Hnd.
  Qed.

  Lemma ht_in_D n : In n D <-> In n h /\ is_due now n = true.
  Proof.
    unfold D. split.
    - intros H. apply (Permutation_in _ (hsort_perm _)) in H. apply filter_In in H. exact H.
    - intros H. apply (Permutation_in _ (Permutation_sym (hsort_perm _))). apply filter_In. exact H.
  Qed.

  Lemma ht_in_P n : In n P <-> In n h /\ alive r n = true.
  Proof.
    split.
    - intros H. apply (Permutation_in _ HP) in H. apply filter_In in H. exact H.
    - intros H. apply (Permutation_in _ (Permutation_sym HP)). apply filter_In. exact H.
  Qed.

  Lemma ht_in_due n : In n due <-> In n h /\ alive r n = true /\ is_due now n = true.
  Proof.
    unfold due. split.
    - intros H. apply (Permutation_in _ (dsort_perm _)) in H. apply filter_In in H.
      rewrite ht_in_P in H. tauto.
    - intros H. apply (Permutation_in _ (Permutation_sym (dsort_perm _))). apply filter_In.
      rewrite ht_in_P. tauto.
  Qed.

  Lemma ht_ndh : NoDup h.
  Proof. apply nodup_nodes. exact Hnd. Qed.

  Lemma ht_ndP : NoDup P.
  Proof. eapply Permutation_NoDup; [apply Permutation_sym; exact HP|]. apply NoDup_filter. exact ht_ndh. Qed.

  Lemma ht_ndD : NoDup D.
  Proof. eapply Permutation_NoDup; [apply Permutation_sym, hsort_perm|]. apply NoDup_filter. exact ht_ndh. Qed.

  Lemma ht_nd_due : NoDup due.
  Proof. eapply Permutation_NoDup; [apply Permutation_sym, dsort_perm|]. apply NoDup_filter. exact ht_ndP. Qed.

  Lemma ht_due_perm : Permutation (filter (alive r) D) due.
  Proof.
    apply NoDup_Permutation; [apply NoDup_filter; exact ht_ndD|exact ht_nd_due|].
    intros n. rewrite filter_In, ht_in_D, ht_in_due. tauto.
  Qed.

  Lemma ht_out : deq (snd (htick h r now)) (map deliv_of due).
  Proof.
    rewrite ht_eq. cbn [snd]. split.
    - apply Permutation_map. exact ht_due_perm.
    - rewrite !map_snd_deliv. apply sorted_perm_eq.
      + apply sorted_map_filter. apply hsort_sorted.
      + apply dsort_sorted.
      + apply Permutation_map. exact ht_due_perm.
  Qed.

  Let idsh := map nid (filter (fun n => alive r n && negb (periodic n)) D).

  Lemma ht_in_idsh x : In x idsh <-> exists n, In n h /\ is_due now n = true /\ alive r n = true /\ periodic n = false /\ nid n = x.
  Proof.
    unfold idsh. rewrite in_map_iff. split.
    - intros [n [E H]]. exists n. apply filter_In in H. rewrite ht_in_D in H.
      destruct H as [H Hb]. apply andb_true_iff in Hb. destruct Hb as [Ha Hp]. apply negb_true_iff in Hp. tauto.
    - intros [n [Hn [Hd [Ha [Hp E]]]]]. exists n. split; [exact E|]. apply filter_In.
      rewrite ht_in_D, Ha, Hp. tauto.
  Qed.

  Lemma ht_r2 : snd (fst (htick h r now)) = filter (fun x => negb (mem x idsh)) r.
  Proof. rewrite ht_eq. cbn [fst snd]. apply unrefer_fold. Qed.

  Lemma ht_refer :
    snd (fst (htick h r now)) = fold_left unrefer (map nid (filter (fun n => negb (periodic n)) due)) r.
  Proof.
    rewrite ht_r2, unrefer_fold. apply filter_ext. intros x. f_equal. apply mem_ext. clear x. intros x.
    rewrite ht_in_idsh, in_map_iff. split.
    - intros [n [Hn [Hd [Ha [Hp E]]]]]. exists n. split; [exact E|]. apply filter_In.
      rewrite ht_in_due, Hp. tauto.
    - intros [n [E H]]. exists n. apply filter_In in H. rewrite ht_in_due in H.
      destruct H as [H Hp]. apply negb_true_iff in Hp. tauto.
  Qed.

  Lemma ht_alive2 n : alive (snd (fst (htick h r now))) n = alive r n && negb (mem (nid n) idsh).
  Proof. unfold alive. rewrite ht_r2, mem_filter. reflexivity. Qed.

  Lemma ht_not_idsh n : In n h -> (is_due now n = false \/ periodic n = true) -> mem (nid n) idsh = false.
  Proof.
    intros Hn Hd. apply not_true_is_false. intros Hm. apply mem_In, ht_in_idsh in Hm.
    destruct Hm as [a [Ha [Hda [_ [Hp E]]]]].
    assert (a = n) by (eapply nodup_ids_inj; eassumption). subst a. destruct Hd; congruence.
  Qed.

  Lemma ht_pending :
    Permutation (filter (fun n => negb (is_due now n)) P ++ map (rearm now) (filter periodic due))
                (filter (alive (snd (fst (htick h r now)))) (fst (fst (htick h r now)))).
  Proof.
    rewrite ht_eq at 2. cbn [fst]. rewrite filter_app. apply Permutation_app.
    - apply NoDup_Permutation.
      + apply NoDup_filter. exact ht_ndP.
      + unfold rest. apply NoDup_filter, NoDup_filter. exact ht_ndh.
      + intros n. unfold rest. rewrite !filter_In, ht_in_P. split.
        * intros [[Hn Ha] Hd]. apply negb_true_iff in Hd. split; [split; [exact Hn|rewrite Hd; reflexivity]|].
          rewrite ht_alive2, Ha, ht_not_idsh by tauto. reflexivity.
        * intros [[Hn Hd] Ha]. rewrite ht_alive2 in Ha. apply andb_true_iff in Ha. tauto.
    - set (L := filter (fun n => alive r n && periodic n) D).
      assert (HL : forall n, In n L <-> In n h /\ is_due now n = true /\ alive r n = true /\ periodic n = true).
      { intros n. unfold L. rewrite filter_In, andb_true_iff, ht_in_D. tauto. }
      rewrite (filter_all (alive (snd (fst (htick h r now))))).
      + apply Permutation_map. apply NoDup_Permutation.
        * apply NoDup_filter. exact ht_nd_due.
        * unfold L. apply NoDup_filter. exact ht_ndD.
        * intros n. rewrite filter_In, ht_in_due, HL. tauto.
      + intros m Hm. apply in_map_iff in Hm. destruct Hm as [n [<- Hn]]. apply HL in Hn.
        destruct Hn as [Hn [Hd [Ha Hp]]].
        replace (alive (snd (fst (htick h r now))) (rearm now n)) with (alive (snd (fst (htick h r now))) n) by reflexivity.
        rewrite ht_alive2, Ha, ht_not_idsh by tauto. reflexivity.
  Qed.

  Lemma ht_nodup : NoDup (map nid (fst (fst (htick h r now)))).
  Proof.
    rewrite ht_eq. cbn [fst]. rewrite map_app, map_nid_rearm. apply nodup_app_intro.
    - unfold rest. apply NoDup_map_filter. exact Hnd.
    - apply NoDup_map_filter. eapply Permutation_NoDup; [apply Permutation_map, Permutation_sym, hsort_perm|].
      apply NoDup_map_filter. exact Hnd.
    - intros x Hx Hy. apply in_map_iff in Hx. destruct Hx as [a [Ea Ha]].
      apply in_map_iff in Hy. destruct Hy as [b [Eb Hb]].
      unfold rest in Ha. apply filter_In in Ha. destruct Ha as [Ha Hda]. apply negb_true_iff in Hda.
      apply filter_In in Hb. destruct Hb as [Hb _]. apply ht_in_D in Hb. destruct Hb as [Hb Hdb].
      assert (a = b) by (eapply nodup_ids_inj; try eassumption; congruence). subst b. congruence.
  Qed.
End HeapTick.

Lemma htick_refines h r now P :
  NoDup (map nid h) -> Permutation P (filter (alive r) h) ->
  exists h' r' o P' o',
    htick h r now = (h', r', o) /\ spec_tick now P r = (P', r', o') /\
    NoDup (map nid h') /\ Permutation P' (filter (alive r') h') /\ deq o o'.
Proof.
  intros Hnd HP.
  pose proof (ht_refer now r h P Hnd HP) as Hr.
  pose proof (ht_pending now r h P Hnd HP) as Hp.
  pose proof (ht_out now r h P Hnd HP) as Ho.
  pose proof (ht_nodup now r h Hnd) as Hn.
  destruct (htick h r now) as [[h' r'] o] eqn:E. cbn [fst snd] in *.
  exists h', r', o, (fst (fst (spec_tick now P r))), (snd (spec_tick now P r)).
  split; [reflexivity|]. split; [|split; [exact Hn|split]].
  - unfold spec_tick. cbn [fst snd]. rewrite Hr. reflexivity.
  - unfold spec_tick. cbn [fst snd]. exact Hp.
  - unfold spec_tick. cbn [fst snd]. exact Ho.
Qed.
