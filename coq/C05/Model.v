(* C05 / C06 — the two timer schedulers (sched/hhwheel_timer.go, sched/timerqueue.go).
   Executable model; nothing is proved in this file.

   One machine for both properties: the timer core (hashed hierarchical wheel, or binary
   heap) plus the API side (id -> node map `refer` and id counter under the mutex, the two
   request channels).  A history is a list of [op]: API calls and worker steps; a worker
   step whose input is not ready is a no-op, so every list is a history.

   Conventions
   - time is in time units; one wheel tick = one time unit (update() ticks once per unit);
   - [wcur] is the unbounded tick count, the code's uint32 currTick is [wcur mod 2^32];
   - a bucket of the wheel is the sub-list of [wnodes] carrying that (level, slot) tag, in
     list order: addNode appends at the tail of the bucket's linked list (the pointer
     surgery itself is modelled, and probed by the harness);
   - the heap array behind container/heap is modelled abstractly as a list; its order
     `Less` (deadline, then larger id first) is total and strict, so the array layout is
     unobservable (probed by the harness);
   - a node is named by a key that is never reused ([nid]; this machine's own counter
     counts start calls), so `refer[id] == node` of the code is [alive refer n] here.  The
     ids the application sees — which nextID() may hand out again after its counter
     wrapped, while an old cancelled node that carried the id is still linked or queued —
     are the layer of Vid.v on top (transparent until the counter wraps: VidProofs.v);
   - geometry constants come from Generated/Consts.v. *)
From Coq Require Import ZArith List Bool.
From FV Require Import Generated.Consts.
Import ListNotations.
Open Scope Z_scope.

Record node := mkNode { nid : Z; ndl : Z; nper : Z }.   (* id, deadline, period *)

Definition mem (x : Z) (l : list Z) : bool := existsb (Z.eqb x) l.
Definition alive (refer : list Z) (n : node) : bool := mem (nid n) refer.
Definition unrefer (refer : list Z) (id : Z) : list Z := filter (fun x => negb (x =? id)) refer.

(* ------------------------------------------------------------------------------------ *)
(* the wheel *)

Record wnode := mkW { wlvl : Z; wslot : Z; wn : node }.  (* level 0 = near, k+1 = tvec[k] *)
Record wheel := mkWheel { wcur : Z; wtt : Z; wnodes : list wnode }.

Definition u32 (z : Z) : Z := z mod 2 ^ 32.
Definition max_u32 : Z := 2 ^ 32 - 1.

(* shift of outer level k (tvec[k]) *)
Definition level_shift (k : Z) : Z := sched_TVR_BITS + k * sched_TVN_BITS.
Definition tvn_index (expires k : Z) : Z := Z.land (Z.shiftr expires (level_shift k)) sched_TVN_MASK.

(* addNode: level from the remaining ticks, slot from the wrapping absolute expiry *)
Definition bucket_of (cur tt : Z) (n : node) : Z * Z :=
  let ticks := Z.min (Z.max 0 (ndl n - tt)) max_u32 in
  let expires := u32 (u32 cur + ticks) in
  if ticks <? sched_TVR_SIZE then (0, Z.land expires sched_TVR_MASK)
  else if ticks <? Z.shiftl 1 (level_shift 1) then (1, tvn_index expires 0)
  else if ticks <? Z.shiftl 1 (level_shift 2) then (2, tvn_index expires 1)
  else if ticks <? Z.shiftl 1 (level_shift 3) then (3, tvn_index expires 2)
  else (4, tvn_index expires 3).

Definition set_nodes (w : wheel) (l : list wnode) : wheel := mkWheel (wcur w) (wtt w) l.

Definition add_node (w : wheel) (n : node) : wheel :=
  let '(l, s) := bucket_of (wcur w) (wtt w) n in
  set_nodes w (wnodes w ++ [mkW l s n]).

Definition in_bucket (l s : Z) (x : wnode) : bool := (wlvl x =? l) && (wslot x =? s).

(* cascade(level, idx): detach the bucket, re-add its nodes in list order *)
Definition cascade (k idx : Z) (w : wheel) : wheel :=
  let (b, rest) := partition (in_bucket (k + 1) idx) (wnodes w) in
  fold_left add_node (map wn b) (set_nodes w rest).

(* shiftWheels: when the near index wrapped, cascade tvec[i][index_i] for i = 0, 1, ... and
   stop after the first level whose index is not zero *)
Fixpoint shift_loop (fuel : nat) (i ticks : Z) (w : wheel) : wheel :=
  match fuel with
  | O => w
  | S f =>
      let idx := Z.land ticks sched_TVN_MASK in
      let w' := cascade i idx w in
      if idx =? 0 then shift_loop f (i + 1) (Z.shiftr ticks sched_TVN_BITS) w' else w'
  end.

Definition shift_wheels (w : wheel) : wheel :=
  let ct := u32 (wcur w) in
  if Z.land ct sched_TVR_MASK =? 0
  then shift_loop (Z.to_nat sched_WHEEL_LEVEL) 0 (Z.shiftr ct sched_TVR_BITS) w
  else w.

(* a delivery: (id, due time of this delivery) *)
Definition deliv := (Z * Z)%type.

(* expireNear, one node: decided under the mutex; a node no longer referred is dropped *)
Definition expire_one (acc : wheel * list Z * list deliv) (n : node) : wheel * list Z * list deliv :=
  let '(w, refer, out) := acc in
  if alive refer n then
    if 0 <? nper n
    then (add_node w (mkNode (nid n) (wtt w + nper n) (nper n)), refer, out ++ [(nid n, ndl n)])
    else (w, unrefer refer (nid n), out ++ [(nid n, ndl n)])
  else (w, refer, out).

Definition expire_near (w : wheel) (refer : list Z) : wheel * list Z * list deliv :=
  let idx := Z.land (u32 (wcur w)) sched_TVR_MASK in
  let (b, rest) := partition (in_bucket 0 idx) (wnodes w) in
  fold_left expire_one (map wn b) (set_nodes w rest, refer, []).

(* tick(): expireNear; currTick++, tickTime++; shiftWheels; expireNear *)
Definition wtick (w : wheel) (refer : list Z) : wheel * list Z * list deliv :=
  let '(w1, r1, o1) := expire_near w refer in
  let w2 := mkWheel (wcur w1 + 1) (wtt w1 + 1) (wnodes w1) in
  let w3 := shift_wheels w2 in
  let '(w4, r2, o2) := expire_near w3 r1 in
  (w4, r2, o1 ++ o2).

Definition wtick_acc (acc : wheel * list Z * list deliv) : wheel * list Z * list deliv :=
  let '(w, r, o) := acc in
  let '(w', r', o') := wtick w r in (w', r', o ++ o').

(* update(current): one tick per elapsed unit *)
Definition wupdate (w : wheel) (refer : list Z) (current : Z) : wheel * list Z * list deliv :=
  N.iter (Z.to_N (current - wtt w)) wtick_acc (w, refer, []).

(* worker's pendingDel arm: unlink the node if it is linked *)
Definition wdel (w : wheel) (id : Z) : wheel :=
  set_nodes w (filter (fun x => negb (nid (wn x) =? id)) (wnodes w)).

(* ------------------------------------------------------------------------------------ *)
(* the heap *)

(* timerHeap.Less *)
Definition hless (a b : node) : bool :=
  if ndl a =? ndl b then nid b <? nid a else ndl a <? ndl b.

Fixpoint hinsert (n : node) (l : list node) : list node :=
  match l with
  | [] => [n]
  | x :: r => if hless x n then x :: hinsert n r else n :: l
  end.
Definition hsort (l : list node) : list node := fold_right hinsert [] l.

(* trigger(now) + tick: pop while the root is due; a dead root is dropped, a periodic one
   is re-armed in place at now + period (and cannot be due again in this call) *)
Definition hexpire_one (now : Z) (acc : list node * list Z * list deliv) (n : node)
  : list node * list Z * list deliv :=
  let '(h, refer, out) := acc in
  if alive refer n then
    if 0 <? nper n
    then (h ++ [mkNode (nid n) (now + nper n) (nper n)], refer, out ++ [(nid n, ndl n)])
    else (h, unrefer refer (nid n), out ++ [(nid n, ndl n)])
  else (h, refer, out).

Definition htick (h : list node) (refer : list Z) (now : Z) : list node * list Z * list deliv :=
  let due := hsort (filter (fun n => ndl n <=? now) h) in
  let rest := filter (fun n => now <? ndl n) h in
  fold_left (hexpire_one now) due (rest, refer, []).

Definition hdel (h : list node) (id : Z) : list node := filter (fun n => negb (nid n =? id)) h.

(* ------------------------------------------------------------------------------------ *)
(* the scheduler: core + API side *)

Inductive core := CWheel (w : wheel) | CHeap (h : list node).

Record st := mkSt {
  score : core;
  sclock : Z;             (* virtual time *)
  srefer : list Z;        (* keys of the refer map *)
  snext : Z;              (* nextId *)
  spadd : list node;      (* pendingAdd channel followed by its blocked senders, FIFO *)
  spdel : list Z          (* pendingDel channel (nodes by id) followed by blocked senders *)
}.

Inductive op :=
| Start (d : Z)        (* RunAfter(d) *)
| Every (p : Z)        (* RunEvery(p) *)
| Cancel (id : Z)
| Size
| IsSched (id : Z)
| HandleAdd            (* worker: pendingAdd arm *)
| HandleDel            (* worker: pendingDel arm *)
| Pass (n : Z)         (* n time units pass (negative: the clock is set back) *)
| Tick                 (* worker: ticker arm with the current time *)
| Probe.

Inductive out :=
| OId (blocked : bool) (id : Z)       (* Start / Every; blocked: the request channel was full *)
| OBool (blocked : bool) (b : bool)   (* Cancel *)
| ONum (n : Z)                        (* Size *)
| OFlag (b : bool)                    (* IsScheduled; HandleAdd / HandleDel: input was ready *)
| ODeliv (l : list deliv)             (* Tick: what appeared on Chan(), in order *)
| OProbe (l : list wnode)             (* structure, canonical order *)
| ONone.

(* nextID(): nextId+1 — a Go int, which wraps to the negative range after MaxInt64 — then
   len(refer)+1 attempts: a non-positive candidate restarts at 1, a candidate still in the
   refer map is skipped *)
Definition wrap64 (z : Z) : Z := if 2 ^ 63 <=? z then z - 2 ^ 64 else z.

Fixpoint next_id_loop (fuel : nat) (newId : Z) (refer : list Z) : Z :=
  match fuel with
  | O => newId
  | S f =>
      let newId := if newId <=? 0 then 1 else newId in
      if mem newId refer then next_id_loop f (wrap64 (newId + 1)) refer else newId
  end.
Definition alloc_id (next : Z) (refer : list Z) : Z :=
  next_id_loop (S (length refer)) (wrap64 (next + 1)) refer.
Definition next_id (s : st) : Z := alloc_id (snext s) (srefer s).

Definition tick_time (s : st) : Z :=
  match score s with CWheel w => wtt w | CHeap _ => sclock s end.

(* the node a start request carries: the wheel stores the delay and resolves it against
   tickTime when the worker accepts it; the heap reads the clock at once *)
Definition request (s : st) (id d p : Z) : node :=
  match score s with
  | CWheel _ => mkNode id d p
  | CHeap _ => mkNode id (sclock s + d + p) p
  end.

Definition schedule (s : st) (d p : Z) : st * out :=
  let id := next_id s in
  let blocked := sched_PendingQueueCapacity <=? Z.of_nat (length (spadd s)) in
  (mkSt (score s) (sclock s) (srefer s ++ [id]) id (spadd s ++ [request s id d p]) (spdel s),
   OId blocked id).

Definition core_add (c : core) (n : node) : core :=
  match c with
  | CWheel w => CWheel (add_node w (mkNode (nid n) (ndl n + wtt w + nper n) (nper n)))
  | CHeap h => CHeap (h ++ [n])
  end.

Definition core_del (c : core) (id : Z) : core :=
  match c with
  | CWheel w => CWheel (wdel w id)
  | CHeap h => CHeap (hdel h id)
  end.

Definition core_tick (c : core) (refer : list Z) (now : Z) : core * list Z * list deliv :=
  match c with
  | CWheel w => let '(w', r, o) := wupdate w refer now in (CWheel w', r, o)
  | CHeap h => let '(h', r, o) := htick h refer now in (CHeap h', r, o)
  end.

(* canonical listing of the structure: wheel buckets in (level, slot) order, each in list
   order (stable: fold_right inserts earlier nodes in front of equal keys); heap in Less
   order *)
Fixpoint pinsert (x : wnode) (l : list wnode) : list wnode :=
  match l with
  | [] => [x]
  | y :: r =>
      if (wlvl x <? wlvl y) || ((wlvl x =? wlvl y) && (wslot x <=? wslot y))
      then x :: l else y :: pinsert x r
  end.
Definition core_probe (c : core) : list wnode :=
  match c with
  | CWheel w => fold_right pinsert [] (wnodes w)
  | CHeap h => map (mkW 0 0) (hsort h)
  end.

(* update(current) with current < lastTime ("time gone backwards"): the wheel takes the
   earlier reading as its new lastTime without ticking.  The model keeps lastTime = wtt and
   its clock relative to it, so the same event moves the model's clock up to wtt. *)
Definition tick_clock (s : st) : Z :=
  match score s with CWheel w => Z.max (sclock s) (wtt w) | CHeap _ => sclock s end.

Definition step (s : st) (o : op) : st * out :=
  match o with
  | Start d => schedule s (Z.max d 0) 0
  | Every p => schedule s 0 (if p <? 0 then 1 else p)
  | Cancel id =>
      if mem id (srefer s)
      then (mkSt (score s) (sclock s) (unrefer (srefer s) id) (snext s) (spadd s) (spdel s ++ [id]),
            OBool (sched_PendingQueueCapacity <=? Z.of_nat (length (spdel s))) true)
      else (s, OBool false false)
  | Size => (s, ONum (Z.of_nat (length (srefer s))))
  | IsSched id => (s, OFlag (mem id (srefer s)))
  | HandleAdd =>
      match spadd s with
      | [] => (s, OFlag false)
      | n :: q =>
          let c := if alive (srefer s) n then core_add (score s) n else score s in
          (mkSt c (sclock s) (srefer s) (snext s) q (spdel s), OFlag true)
      end
  | HandleDel =>
      match spdel s with
      | [] => (s, OFlag false)
      | id :: q =>
          (mkSt (core_del (score s) id) (sclock s) (srefer s) (snext s) (spadd s) q, OFlag true)
      end
  | Pass n => (mkSt (score s) (sclock s + n) (srefer s) (snext s) (spadd s) (spdel s), ONone)
  | Tick =>
      let '(c, r, o) := core_tick (score s) (srefer s) (sclock s) in
      (mkSt c (tick_clock s) r (snext s) (spadd s) (spdel s), ODeliv o)
  | Probe => (s, OProbe (core_probe (score s)))
  end.

Definition init_wheel (cur tt : Z) : st := mkSt (CWheel (mkWheel cur tt [])) tt [] 0 [] [].
Definition init_heap (now : Z) : st := mkSt (CHeap []) now [] 0 [] [].

Fixpoint run (s : st) (ops : list op) : st * list out :=
  match ops with
  | [] => (s, [])
  | o :: r => let '(s1, x) := step s o in let '(s2, xs) := run s1 r in (s2, x :: xs)
  end.
