(* C05 — the arithmetic at the head of HHWheelTimer.addNode and HHWheelTimer.shiftWheels,
   regenerated from sched/hhwheel_timer.go by tools/gofunc as fragments (Generated/Wheel.v,
   "F#prefix": the statements in front of the pointer manipulation; Returned = the early
   return, Reached = the variables handed on), is the model's:
     addNode:      ticks = deadline - tickTime clamped to [0, MaxUint32],
                   expires = currTick + uint32(ticks) in uint32 arithmetic
                   (Model.bucket_of's `ticks` and `expires`, from which level and slot follow);
     shiftWheels:  nothing happens unless currTick & TVR_MASK == 0, and the cascade loop starts
                   from currTick >> TVR_BITS (Model.shift_wheels).
   The constants 255 / 8 the translator folded in are Generated/Consts.v's TVR_MASK / TVR_BITS. *)
From Coq Require Import ZArith List Bool Lia ZifyBool.
From FV Require Import Generated.Consts Generated.Wheel Lib.GoSem C05.Model.
Open Scope Z_scope.

Ltac Zify.zify_post_hook ::= Z.div_mod_to_equations.

Lemma wrap64 x : - 9223372036854775808 <= x < 9223372036854775808 ->
  (x + 9223372036854775808) mod 18446744073709551616 - 9223372036854775808 = x.
Proof. intros H. lia. Qed.

(* the two let-bound quantities of Model.bucket_of *)
Definition model_ticks (tt : Z) (n : node) : Z := Z.min (Z.max 0 (ndl n - tt)) max_u32.
Definition model_expires (cur tt : Z) (n : node) : Z := u32 (u32 cur + model_ticks tt n).

Lemma bucket_of_unfold cur tt n :
  bucket_of cur tt n =
  let ticks := model_ticks tt n in
  let expires := model_expires cur tt n in
  if ticks <? sched_TVR_SIZE then (0, Z.land expires sched_TVR_MASK)
  else if ticks <? Z.shiftl 1 (level_shift 1) then (1, tvn_index expires 0)
  else if ticks <? Z.shiftl 1 (level_shift 2) then (2, tvn_index expires 1)
  else if ticks <? Z.shiftl 1 (level_shift 3) then (3, tvn_index expires 2)
  else (4, tvn_index expires 3).
Proof. reflexivity. Qed.

Lemma src_add_node cur tt n :
  0 <= cur < 2 ^ 32 -> - 2 ^ 62 < tt < 2 ^ 62 -> - 2 ^ 62 < ndl n < 2 ^ 62 ->
  go_HHWheelTimer_addNode_prefix tt cur (ndl n) = Reached (model_ticks tt n, model_expires cur tt n).
Proof.
  intros Hc Ht Hd. unfold go_HHWheelTimer_addNode_prefix, model_expires, model_ticks, max_u32, u32.
  change (2 ^ 32) with 4294967296 in *. change (2 ^ 62) with 4611686018427387904 in *. cbv zeta.
  rewrite (wrap64 (ndl n - tt)) by lia.
  destruct (ndl n - tt <? 0) eqn:E1; [|destruct (ndl n - tt >? 4294967295) eqn:E2]; do 2 f_equal; lia.
Qed.

Lemma src_shift_wheels w : 0 <= wcur w < 2 ^ 32 ->
  shift_wheels w =
  match go_HHWheelTimer_shiftWheels_prefix (wcur w) with
  | Returned _ _ => w
  | Reached (ct, ticks) => shift_loop (Z.to_nat sched_WHEEL_LEVEL) 0 ticks w
  end.
Proof.
  intros Hc. unfold shift_wheels, go_HHWheelTimer_shiftWheels_prefix, u32. cbv zeta.
  rewrite (Z.mod_small (wcur w)) by lia.
  change sched_TVR_MASK with 255. change sched_TVR_BITS with 8.
  destruct (Z.land (wcur w) 255 =? 0); reflexivity.
Qed.
