(* C05 — the array heap: container/heap's up / down / Push / Pop / Remove / Fix on the
   repository's timerHeap keep (1) the heap order, (2) node.index = position, (3) the
   set of nodes (Remove(i) takes out exactly node i, Pop the minimum). *)
From Coq Require Import ZArith List Bool Arith Lia ZifyBool ZifyNat Permutation.
From FV Require Import C05.Model C05.HeapArr.
Import ListNotations.
Ltac Zify.zify_post_hook ::= Z.div_mod_to_equations.

(* ------------------------------------------------------------------------------------ *)
(* arrays *)

Lemma hupd_length l : forall k x, length (hupd l k x) = length l.
Proof. induction l as [|y r IH]; intros [|k] x; cbn; try reflexivity. rewrite IH. reflexivity. Qed.

Lemma hget_hupd_eq l : forall k x, (k < length l)%nat -> hget (hupd l k x) k = x.
Proof.
  unfold hget. induction l as [|y r IH]; intros [|k] x H; cbn in *; try lia; [reflexivity|].
  apply IH. lia.
Qed.

Lemma hget_hupd_neq l : forall k k' x, k <> k' -> hget (hupd l k x) k' = hget l k'.
Proof.
  unfold hget. induction l as [|y r IH]; intros [|k] [|k'] x H; cbn; try reflexivity; try lia.
  apply IH. lia.
Qed.

Lemma hswap_length l i j : length (hswap l i j) = length l.
Proof. unfold hswap. rewrite !hupd_length. reflexivity. Qed.

Lemma hget_hswap l i j k :
  (i < length l)%nat -> (j < length l)%nat ->
  hget (hswap l i j) k =
  if (k =? j)%nat then setidx j (hget l i) else if (k =? i)%nat then setidx i (hget l j) else hget l k.
Proof.
  intros Hi Hj. unfold hswap.
  destruct (Nat.eqb_spec k j) as [->|Hkj].
  - apply hget_hupd_eq. rewrite hupd_length. exact Hj.
  - rewrite hget_hupd_neq by lia. destruct (Nat.eqb_spec k i) as [->|Hki].
    + apply hget_hupd_eq. exact Hi.
    + apply hget_hupd_neq. lia.
Qed.

(* ------------------------------------------------------------------------------------ *)
(* the order *)

Definition hle (a b : hnode) : Prop := hlt b a = false.

Lemma hless_spec a b :
  hless a b = true <-> (ndl a < ndl b \/ (ndl a = ndl b /\ nid b < nid a))%Z.
Proof. unfold hless. destruct (Z.eqb_spec (ndl a) (ndl b)); lia. Qed.

Lemma hle_spec a b :
  hle a b <-> (ndl (hn a) < ndl (hn b) \/ (ndl (hn a) = ndl (hn b) /\ nid (hn b) <= nid (hn a)))%Z.
Proof.
  unfold hle, hlt. pose proof (hless_spec (hn b) (hn a)) as H.
  destruct (hless (hn b) (hn a)).
  - split; [discriminate|]. intros H1. assert (H2 : true = true) by reflexivity. apply H in H2. lia.
  - split; [|reflexivity]. intros _.
    destruct (Z_lt_ge_dec (ndl (hn a)) (ndl (hn b))); [lia|].
    destruct (Z.eq_dec (ndl (hn a)) (ndl (hn b))); [|exfalso; assert (false = true); [apply H; lia|discriminate]].
    destruct (Z_le_gt_dec (nid (hn b)) (nid (hn a))); [lia|]. exfalso. assert (false = true); [apply H; lia|discriminate].
Qed.

Lemma hle_trans a b c : hle a b -> hle b c -> hle a c.
Proof. rewrite !hle_spec. lia. Qed.

Lemma hle_total a b : hlt a b = true -> hle a b.
Proof. intros H. apply hle_spec. unfold hlt in H. apply hless_spec in H. lia. Qed.

Lemma hle_refl a : hle a a.
Proof. apply hle_spec. lia. Qed.

Lemma hle_setidx_l k a b : hle (setidx k a) b <-> hle a b.
Proof. unfold hle, hlt, setidx. cbn. tauto. Qed.
Lemma hle_setidx_r k a b : hle a (setidx k b) <-> hle a b.
Proof. unfold hle, hlt, setidx. cbn. tauto. Qed.

(* heap order on the prefix of length n *)
Definition par (k : nat) : nat := ((k - 1) / 2)%nat.
Definition hp (l : list hnode) (n : nat) : Prop :=
  forall k, (0 < k < n)%nat -> hle (hget l (par k)) (hget l k).

(* heap except at j (going up): every other edge is fine, and j's children are not
   smaller than j's parent *)
Definition upre (l : list hnode) (n j : nat) : Prop :=
  (forall k, (0 < k < n)%nat -> k <> j -> hle (hget l (par k)) (hget l k)) /\
  (forall k, (0 < k < n)%nat -> par k = j -> (0 < j)%nat -> hle (hget l (par j)) (hget l k)).

(* heap except for the edges at i (above and below), and i's children are not smaller
   than i's parent *)
Definition dpre (l : list hnode) (n i : nat) : Prop :=
  (forall k, (0 < k < n)%nat -> k <> i -> par k <> i -> hle (hget l (par k)) (hget l k)) /\
  (forall k, (0 < k < n)%nat -> par k = i -> (0 < i)%nat -> hle (hget l (par i)) (hget l k)).

Lemma up_spec fuel : forall l n j,
  (j < fuel)%nat -> (j < n)%nat -> (n <= length l)%nat -> upre l n j -> hp (up fuel l j) n.
Proof.
  induction fuel as [|f IH]; intros l n j Hf Hj Hn [H1 H2]; [lia|].
  cbn [up]. fold (par j).
  destruct (Nat.eqb_spec (par j) j) as [Ej|Ej]; cbn [orb].
  { (* j = 0 *) assert (j = 0)%nat by (unfold par in Ej; lia). subst j.
    intros k Hk. apply H1; lia. }
  destruct (hlt (hget l j) (hget l (par j))) eqn:Hlt; cbn [negb].
  2:{ intros k Hk. destruct (Nat.eq_dec k j) as [->|Hne]; [exact Hlt|apply H1; assumption]. }
  assert (Hpj : (par j < j)%nat) by (unfold par in *; lia).
  apply IH; [lia|lia|rewrite hswap_length; exact Hn|].
  assert (Hi' : (par j < length l)%nat) by lia. assert (Hj' : (j < length l)%nat) by lia.
  split.
  - intros k Hk Hne. rewrite !(hget_hswap l (par j) j) by assumption.
    destruct (Nat.eqb_spec k j) as [->|Hkj].
    + (* edge (par j, j): new l[par j] = old l[j] <= old l[par j] = new l[j] *)
      rewrite Nat.eqb_refl. destruct (Nat.eqb_spec (par j) j); [lia|].
      apply hle_setidx_l, hle_setidx_r. apply hle_total. exact Hlt.
    + destruct (Nat.eqb_spec k (par j)); [lia|].
      destruct (Nat.eqb_spec (par k) j) as [Epk|Epk].
      * (* k is a child of j: new l[j] = old l[par j] <= old l[k] *)
        apply hle_setidx_l. apply H2; [lia|exact Epk|lia].
      * destruct (Nat.eqb_spec (par k) (par j)) as [Epp|Epp].
        -- (* sibling of j: new l[par j] = old l[j] < old l[par j] <= old l[k] *)
           apply hle_setidx_l. eapply hle_trans; [apply hle_total; exact Hlt|].
           rewrite <- Epp. apply H1; [lia|exact Hkj].
        -- apply H1; [lia|exact Hkj].
  - intros k Hk Epk Hpos. rewrite !(hget_hswap l (par j) j) by assumption.
    (* k child of par j; grandparent = par (par j) *)
    destruct (Nat.eqb_spec (par (par j)) j); [unfold par in *; lia|].
    destruct (Nat.eqb_spec (par (par j)) (par j)); [unfold par in *; lia|].
    destruct (Nat.eqb_spec k j) as [->|Hkj].
    + apply hle_setidx_r. apply H1; [unfold par in *; lia|unfold par in *; lia].
    + destruct (Nat.eqb_spec k (par j)); [unfold par in *; lia|].
      eapply hle_trans; [apply (H1 (par j)); [unfold par in *; lia|lia]|].
      rewrite <- Epk. apply H1; [lia|exact Hkj].
Qed.

(* the child down() compares with *)
Definition pick (l : list hnode) (i n : nat) : nat :=
  if ((2 * i + 1 + 1 <? n)%nat && hlt (hget l (2 * i + 1 + 1)) (hget l (2 * i + 1)))%bool
  then (2 * i + 1 + 1)%nat else (2 * i + 1)%nat.

Lemma pick_child l i n :
  (2 * i + 1 < n)%nat ->
  let j := pick l i n in
  (j < n)%nat /\ par j = i /\ (i < j)%nat /\
  (forall k, (0 < k < n)%nat -> par k = i -> hle (hget l j) (hget l k)).
Proof.
  intros Hn. unfold pick.
  destruct (Nat.ltb_spec (2 * i + 1 + 1) n) as [H2|H2]; cbn [andb].
  - destruct (hlt (hget l (2 * i + 1 + 1)) (hget l (2 * i + 1))) eqn:Hlt.
    + repeat split; try (unfold par; lia). intros k Hk Hp.
      assert (k = 2 * i + 1 \/ k = 2 * i + 1 + 1)%nat as [-> | ->] by (unfold par in Hp; lia);
        [apply hle_total; exact Hlt|apply hle_refl].
    + repeat split; try (unfold par; lia). intros k Hk Hp.
      assert (k = 2 * i + 1 \/ k = 2 * i + 1 + 1)%nat as [-> | ->] by (unfold par in Hp; lia);
        [apply hle_refl|exact Hlt].
  - repeat split; try (unfold par; lia). intros k Hk Hp.
    assert (k = 2 * i + 1)%nat as -> by (unfold par in Hp; lia). apply hle_refl.
Qed.

Lemma down_unfold f l i n :
  down (S f) l i n =
  if (n <=? 2 * i + 1)%nat then (l, i)
  else if negb (hlt (hget l (pick l i n)) (hget l i)) then (l, i)
       else down f (hswap l i (pick l i n)) (pick l i n) n.
Proof. reflexivity. Qed.

Lemma down_step_pre l n i :
  (n <= length l)%nat -> (2 * i + 1 < n)%nat -> dpre l n i ->
  hlt (hget l (pick l i n)) (hget l i) = true ->
  let j := pick l i n in
  dpre (hswap l i j) n j /\ hle (hget (hswap l i j) (par j)) (hget (hswap l i j) j).
Proof.
  intros Hlen Hn [D1 D2] Hlt j.
  destruct (pick_child l i n Hn) as [Hjn [Hpj [Hij Hmin]]]. fold j in Hjn, Hpj, Hij, Hmin, Hlt.
  assert (Hi' : (i < length l)%nat) by lia. assert (Hj' : (j < length l)%nat) by lia.
  split; [split|].
  - intros k Hk Hkj Hpkj. rewrite !(hget_hswap l i j) by assumption.
    destruct (Nat.eqb_spec k j); [lia|]. destruct (Nat.eqb_spec (par k) j); [lia|].
    destruct (Nat.eqb_spec k i) as [->|Hki].
    + (* edge (par i, i): new l[i] = old l[j] *)
      destruct (Nat.eqb_spec (par i) i); [unfold par in *; lia|].
      apply hle_setidx_r. apply D2; [lia|exact Hpj|lia].
    + destruct (Nat.eqb_spec (par k) i) as [Epk|Epk].
      * (* the other child of i *)
        apply hle_setidx_l. apply Hmin; [lia|exact Epk].
      * apply D1; assumption.
  - intros k Hk Epk Hpos. rewrite Hpj. rewrite !(hget_hswap l i j) by assumption.
    destruct (Nat.eqb_spec i j); [lia|]. rewrite Nat.eqb_refl.
    destruct (Nat.eqb_spec k j); [unfold par in *; lia|]. destruct (Nat.eqb_spec k i); [unfold par in *; lia|].
    apply hle_setidx_l. rewrite <- Epk. apply D1; [lia|unfold par in *; lia|unfold par in *; lia].
  - rewrite Hpj. rewrite !(hget_hswap l i j) by assumption.
    destruct (Nat.eqb_spec i j); [lia|]. rewrite !Nat.eqb_refl.
    apply hle_setidx_l, hle_setidx_r. apply hle_total. exact Hlt.
Qed.

Lemma down_stop_children l n i :
  (2 * i + 1 < n)%nat -> hlt (hget l (pick l i n)) (hget l i) = false ->
  forall k, (0 < k < n)%nat -> par k = i -> hle (hget l i) (hget l k).
Proof.
  intros Hn Hlt k Hk Hp. destruct (pick_child l i n Hn) as [_ [_ [_ Hmin]]].
  eapply hle_trans; [exact Hlt|apply Hmin; assumption].
Qed.

Lemma down_strict fuel : forall l n i,
  (n <= fuel + i)%nat -> (n <= length l)%nat -> dpre l n i ->
  ((0 < i)%nat -> (i < n)%nat -> hle (hget l (par i)) (hget l i)) ->
  hp (fst (down fuel l i n)) n.
Proof.
  induction fuel as [|f IH]; intros l n i Hf Hlen [D1 D2] Hs.
  - cbn. intros k Hk. apply D1; [exact Hk|lia|unfold par; lia].
  - rewrite down_unfold. destruct (Nat.leb_spec n (2 * i + 1)) as [Hn|Hn].
    + cbn [fst]. intros k Hk. destruct (Nat.eq_dec k i) as [->|Hki]; [apply Hs; lia|].
      apply D1; [exact Hk|exact Hki|unfold par; lia].
    + destruct (hlt (hget l (pick l i n)) (hget l i)) eqn:Hlt; cbn [negb].
      * destruct (down_step_pre l n i Hlen Hn (conj D1 D2) Hlt) as [Hd Hst].
        destruct (pick_child l i n Hn) as [Hjn [Hpj [Hij _]]].
        apply IH; [lia|rewrite hswap_length; exact Hlen|exact Hd|intros _ _; exact Hst].
      * cbn [fst]. intros k Hk. destruct (Nat.eq_dec k i) as [->|Hki]; [apply Hs; lia|].
        destruct (Nat.eq_dec (par k) i) as [Epk|Epk].
        -- rewrite Epk. eapply down_stop_children; eassumption.
        -- apply D1; assumption.
Qed.

Lemma down_ge fuel : forall l i n, (i <= snd (down fuel l i n))%nat.
Proof.
  induction fuel as [|f IH]; intros l i n; [cbn; lia|]. rewrite down_unfold.
  destruct (n <=? 2 * i + 1)%nat eqn:E; [cbn; lia|].
  destruct (negb (hlt (hget l (pick l i n)) (hget l i))); [cbn; lia|].
  apply Nat.leb_gt in E. destruct (pick_child l i n E) as [_ [_ [Hij _]]].
  specialize (IH (hswap l i (pick l i n)) (pick l i n) n). lia.
Qed.

(* down from the general situation of Fix / Remove: either it does not move (array
   untouched, i not larger than its children) or it ends with a heap *)
Lemma down_spec fuel l n i :
  (n <= fuel + i)%nat -> (n <= length l)%nat -> dpre l n i ->
  (snd (down fuel l i n) = i /\ fst (down fuel l i n) = l /\
   (forall k, (0 < k < n)%nat -> par k = i -> hle (hget l i) (hget l k)))
  \/ ((i < snd (down fuel l i n))%nat /\ hp (fst (down fuel l i n)) n).
Proof.
  intros Hf Hlen Hd. destruct fuel as [|f].
  - left. cbn [down fst snd]. repeat split. intros k Hk Hp. exfalso. unfold par in Hp. lia.
  - rewrite down_unfold. destruct (Nat.leb_spec n (2 * i + 1)) as [Hn|Hn].
    + left. cbn [fst snd]. repeat split. intros k Hk Hp. exfalso. unfold par in Hp. lia.
    + destruct (hlt (hget l (pick l i n)) (hget l i)) eqn:Hlt; cbn [negb].
      * right. destruct (down_step_pre l n i Hlen Hn Hd Hlt) as [Hd' Hst].
        destruct (pick_child l i n Hn) as [Hjn [Hpj [Hij _]]].
        split; [pose proof (down_ge f (hswap l i (pick l i n)) (pick l i n) n); lia|].
        apply down_strict; [lia|rewrite hswap_length; exact Hlen|exact Hd'|intros _ _; exact Hst].
      * left. cbn [fst snd]. repeat split. apply down_stop_children; assumption.
Qed.

(* ------------------------------------------------------------------------------------ *)
(* index fields, the set of nodes, untouched positions *)

Definition idx_ok (l : list hnode) : Prop :=
  forall k, (k < length l)%nat -> hidx (hget l k) = Z.of_nat k.

Lemma hswap_idx l i j : (i < length l)%nat -> (j < length l)%nat -> idx_ok l -> idx_ok (hswap l i j).
Proof.
  intros Hi Hj H k Hk. rewrite hswap_length in Hk. rewrite hget_hswap by assumption.
  destruct (Nat.eqb_spec k j) as [->|]; [reflexivity|]. destruct (Nat.eqb_spec k i) as [->|]; [reflexivity|].
  apply H. exact Hk.
Qed.

Lemma hn_hget_map l k : nth k (map hn l) (hn hdflt) = hn (hget l k).
Proof. unfold hget. apply map_nth. Qed.

Lemma hswap_perm l i j :
  (i < length l)%nat -> (j < length l)%nat -> Permutation (map hn (hswap l i j)) (map hn l).
Proof.
  intros Hi Hj. apply Permutation_sym. apply (Permutation_nth _ _ (hn hdflt)).
  split; [rewrite !map_length, hswap_length; reflexivity|].
  exists (fun x => if (x =? j)%nat then i else if (x =? i)%nat then j else x).
  rewrite map_length. split; [|split].
  - intros x Hx. destruct (x =? j)%nat; [exact Hi|]. destruct (x =? i)%nat; [exact Hj|exact Hx].
  - intros x y Hx Hy.
    destruct (Nat.eqb_spec x j), (Nat.eqb_spec y j), (Nat.eqb_spec x i), (Nat.eqb_spec y i); lia.
  - intros x Hx. rewrite !hn_hget_map, hget_hswap by assumption.
    destruct (x =? j)%nat; [reflexivity|]. destruct (x =? i)%nat; reflexivity.
Qed.

Lemma up_props fuel : forall l j,
  (j < length l)%nat ->
  length (up fuel l j) = length l /\ Permutation (map hn (up fuel l j)) (map hn l) /\
  (idx_ok l -> idx_ok (up fuel l j)) /\
  (forall k, (j < k)%nat -> hget (up fuel l j) k = hget l k).
Proof.
  induction fuel as [|f IH]; intros l j Hj; cbn [up].
  - repeat split; auto.
  - fold (par j). destruct ((par j =? j)%nat || negb (hlt (hget l j) (hget l (par j)))) eqn:E.
    + repeat split; auto.
    + apply orb_false_iff in E. destruct E as [E _]. apply Nat.eqb_neq in E.
      assert (Hp : (par j < j)%nat) by (unfold par in *; lia).
      destruct (IH (hswap l (par j) j) (par j)) as [H1 [H2 [H3 H4]]]; [rewrite hswap_length; lia|].
      rewrite hswap_length in H1. split; [exact H1|]. split; [|split].
      * etransitivity; [exact H2|apply hswap_perm; lia].
      * intros Hi. apply H3. apply hswap_idx; [lia|lia|exact Hi].
      * intros k Hk. rewrite H4 by lia. rewrite hget_hswap by lia.
        destruct (Nat.eqb_spec k j); [lia|]. destruct (Nat.eqb_spec k (par j)); [lia|reflexivity].
Qed.

Lemma down_props fuel : forall l i n,
  (n <= length l)%nat ->
  length (fst (down fuel l i n)) = length l /\
  Permutation (map hn (fst (down fuel l i n))) (map hn l) /\
  (idx_ok l -> idx_ok (fst (down fuel l i n))) /\
  (forall k, (n <= k)%nat \/ (k < i)%nat -> hget (fst (down fuel l i n)) k = hget l k).
Proof.
  induction fuel as [|f IH]; intros l i n Hn.
  - cbn. repeat split; auto.
  - rewrite down_unfold. destruct (Nat.leb_spec n (2 * i + 1)) as [Hc|Hc]; [cbn; repeat split; auto|].
    destruct (negb (hlt (hget l (pick l i n)) (hget l i))); [cbn; repeat split; auto|].
    destruct (pick_child l i n Hc) as [Hjn [Hpj [Hij _]]].
    destruct (IH (hswap l i (pick l i n)) (pick l i n) n) as [H1 [H2 [H3 H4]]]; [rewrite hswap_length; exact Hn|].
    rewrite hswap_length in H1. split; [exact H1|]. split; [|split].
    + etransitivity; [exact H2|apply hswap_perm; lia].
    + intros Hi. apply H3. apply hswap_idx; [lia|lia|exact Hi].
    + intros k Hk. rewrite H4 by lia. rewrite hget_hswap by lia.
      destruct (Nat.eqb_spec k (pick l i n)); [lia|]. destruct (Nat.eqb_spec k i); [lia|reflexivity].
Qed.

(* the root of a heap is its minimum *)
Lemma hp_root_min l n : hp l n -> forall k, (k < n)%nat -> hle (hget l 0) (hget l k).
Proof.
  intros H k. induction k as [k IH] using lt_wf_ind. intros Hk.
  destruct k as [|k]; [apply hle_refl|].
  apply (hle_trans _ (hget l (par (S k)))); [apply IH; unfold par; lia|]. apply (H (S k)). lia.
Qed.

(* ------------------------------------------------------------------------------------ *)
(* the operations *)

(* down, then up if down did not move: the common part of heap.Fix and heap.Remove *)
Definition sift (l : list hnode) (i n : nat) : list hnode :=
  let '(l2, i') := down (length l) l i n in
  if (i <? i')%nat then l2 else up (length l) l2 i.

Lemma sift_spec l n i :
  (n <= length l)%nat -> (i < n)%nat -> dpre l n i ->
  hp (sift l i n) n /\ length (sift l i n) = length l /\
  Permutation (map hn (sift l i n)) (map hn l) /\
  (idx_ok l -> idx_ok (sift l i n)) /\
  (forall k, (n <= k)%nat -> hget (sift l i n) k = hget l k).
Proof.
  intros Hn Hi Hd. unfold sift.
  destruct (down_props (length l) l i n Hn) as [D1 [D2 [D3 D4]]].
  destruct (down_spec (length l) l n i ltac:(lia) Hn Hd) as [[E1 [E2 Hch]]|[Hmv Hhp]];
    destruct (down (length l) l i n) as [l2 i'] eqn:Ed; cbn [fst snd] in *.
  - subst i' l2. rewrite Nat.ltb_irrefl.
    destruct (up_props (length l) l i ltac:(lia)) as [U1 [U2 [U3 U4]]].
    split; [|split; [exact U1|split; [exact U2|split; [exact U3|]]]].
    + apply up_spec; [lia|exact Hi|exact Hn|]. destruct Hd as [H1 H2]. split.
      * intros k Hk Hne. destruct (Nat.eq_dec (par k) i) as [E|E]; [rewrite E; apply Hch; assumption|apply H1; assumption].
      * exact H2.
    + intros k Hk. apply U4. lia.
  - destruct (Nat.ltb_spec i i'); [|lia].
    split; [exact Hhp|split; [exact D1|split; [exact D2|split; [exact D3|]]]].
    intros k Hk. apply D4. left. exact Hk.
Qed.

Lemma hget_app1 l x k : (k < length l)%nat -> hget (l ++ [x]) k = hget l k.
Proof. intros H. unfold hget. apply app_nth1. exact H. Qed.
Lemma hget_app2 l x : hget (l ++ [x]) (length l) = x.
Proof. unfold hget. rewrite app_nth2 by lia. rewrite Nat.sub_diag. reflexivity. Qed.

Lemma hget_removelast l k : (k + 1 < length l)%nat -> hget (removelast l) k = hget l k.
Proof.
  unfold hget. revert k. induction l as [|x r IH]; intros k H; [cbn in H; lia|].
  destruct r as [|y r']; [cbn in H; lia|]. destruct k as [|k]; [reflexivity|].
  change (removelast (x :: y :: r')) with (x :: removelast (y :: r')). cbn [nth]. apply IH. cbn in *. lia.
Qed.
Lemma length_removelast (l : list hnode) : length (removelast l) = (length l - 1)%nat.
Proof.
  induction l as [|x r IH]; [reflexivity|]. destruct r as [|y r']; [reflexivity|].
  change (removelast (x :: y :: r')) with (x :: removelast (y :: r')). cbn [length] in *. lia.
Qed.
Lemma hget_last l : l <> [] -> last l hdflt = hget l (length l - 1).
Proof.
  unfold hget. induction l as [|x r IH]; intros H; [contradiction|].
  destruct r as [|y r']; [reflexivity|]. change (last (x :: y :: r') hdflt) with (last (y :: r') hdflt).
  rewrite IH by discriminate.
  replace (length (x :: y :: r') - 1)%nat with (S (length r')) by (cbn [length]; lia).
  replace (length (y :: r') - 1)%nat with (length r') by (cbn [length]; lia).
  reflexivity.
Qed.

Definition harr_ok (l : list hnode) : Prop := hp l (length l) /\ idx_ok l.

(* heap.Push *)
Lemma heap_push_spec l x :
  harr_ok l ->
  harr_ok (heap_push l x) /\ Permutation (map hn (heap_push l x)) (x :: map hn l) /\
  length (heap_push l x) = S (length l).
Proof.
  intros [Hh Hi]. unfold heap_push, repo_push. set (l1 := l ++ [mkH x (Z.of_nat (length l))]).
  assert (Hlen : length l1 = S (length l)) by (unfold l1; rewrite app_length; cbn; lia).
  rewrite Hlen. replace (S (length l) - 1)%nat with (length l) by lia.
  destruct (up_props (S (length l)) l1 (length l) ltac:(lia)) as [U1 [U2 [U3 _]]].
  assert (Hi1 : idx_ok l1).
  { intros k Hk. rewrite Hlen in Hk. destruct (Nat.eq_dec k (length l)) as [->|Hne].
    - unfold l1. rewrite hget_app2. reflexivity.
    - unfold l1. rewrite hget_app1 by lia. apply Hi. lia. }
  split; [split|split].
  - rewrite U1, Hlen. apply up_spec; [lia|lia|lia|]. split.
    + intros k Hk Hne. unfold l1. rewrite !hget_app1 by (unfold par; lia). apply Hh. lia.
    + intros k Hk Hp. unfold par in Hp. lia.
  - apply U3. exact Hi1.
  - etransitivity; [exact U2|]. unfold l1. rewrite map_app. cbn [map hn].
    apply Permutation_sym, Permutation_cons_append.
  - rewrite U1. exact Hlen.
Qed.

(* heap.Remove(h, i): takes out exactly the node at position i, keeps order and indices *)
Lemma heap_remove_spec l i :
  harr_ok l -> (i < length l)%nat ->
  let '(l', x) := heap_remove l i in
  harr_ok l' /\ hn x = hn (hget l i) /\ hidx x = (-1)%Z /\
  Permutation (map hn l) (hn x :: map hn l') /\ length l' = (length l - 1)%nat.
Proof.
  intros [Hh Hi] Hlt. unfold heap_remove. set (n := (length l - 1)%nat).
  assert (Hne : l <> []) by (destruct l; [cbn in Hlt; lia|discriminate]).
  (* the array before h.Pop(): heap on the prefix n, indices fine, node i at position n *)
  set (l1 := if (n =? i)%nat then l else
             let l1 := hswap l i n in
             let '(l2, i') := down (length l) l1 i n in if (i <? i')%nat then l2 else up (length l) l2 i).
  assert (H1 : hp l1 n /\ length l1 = length l /\ Permutation (map hn l1) (map hn l) /\ idx_ok l1 /\
               hn (hget l1 n) = hn (hget l i)).
  { unfold l1. destruct (Nat.eqb_spec n i) as [E|E].
    - subst i. split; [intros k Hk; apply Hh; lia|]. repeat split; auto.
    - assert (Hin : (i < n)%nat) by lia.
      pose proof (sift_spec (hswap l i n) n i) as S. unfold sift in S. rewrite hswap_length in S.
      destruct S as [S1 [S2 [S3 [S4 S5]]]]; [lia|exact Hin| |].
      + split.
        * intros k Hk Hki Hpk. rewrite !hget_hswap by lia.
          destruct (Nat.eqb_spec k n); [lia|]. destruct (Nat.eqb_spec k i); [lia|].
          destruct (Nat.eqb_spec (par k) n); [unfold par in *; lia|]. destruct (Nat.eqb_spec (par k) i); [lia|].
          apply Hh. lia.
        * intros k Hk Hpk Hpos. rewrite !hget_hswap by lia.
          destruct (Nat.eqb_spec k n); [lia|]. destruct (Nat.eqb_spec k i); [unfold par in *; lia|].
          destruct (Nat.eqb_spec (par i) n); [unfold par in *; lia|]. destruct (Nat.eqb_spec (par i) i); [unfold par in *; lia|].
          apply (hle_trans _ (hget l i)); [apply Hh; lia|]. rewrite <- Hpk. apply Hh. lia.
      + destruct (down (length l) (hswap l i n) i n) as [l2 i'].
        split; [exact S1|]. split; [exact S2|]. split; [etransitivity; [exact S3|apply hswap_perm; lia]|].
        split; [apply S4; apply hswap_idx; [lia|lia|exact Hi]|].
        rewrite S5 by lia. rewrite hget_hswap by lia. rewrite Nat.eqb_refl. reflexivity. }
  fold l1. destruct H1 as [Hp1 [Hl1 [Hperm [Hi1 Hx]]]].
  assert (Hne1 : l1 <> []) by (intros E; rewrite E in Hl1; cbn in Hl1; destruct l; [contradiction|discriminate]).
  unfold repo_pop. cbn [hn hidx].
  rewrite (hget_last l1 Hne1), Hl1. fold n.
  split; [split|split; [exact Hx|split; [reflexivity|split]]].
  - rewrite length_removelast, Hl1. fold n. intros k Hk. rewrite !hget_removelast by (unfold par; lia). apply Hp1. exact Hk.
  - intros k Hk. rewrite length_removelast in Hk. rewrite hget_removelast by lia. apply Hi1. lia.
  - rewrite <- Hperm. rewrite (app_removelast_last hdflt Hne1) at 1. rewrite map_app. cbn [map].
    rewrite (hget_last l1 Hne1), Hl1. fold n. apply Permutation_sym, Permutation_cons_append.
  - rewrite length_removelast, Hl1. reflexivity.
Qed.

(* heap.Pop(h): takes out the root *)
Lemma heap_pop_spec l :
  harr_ok l -> l <> [] ->
  let '(l', x) := heap_pop l in
  harr_ok l' /\ hn x = hn (hget l 0) /\ hidx x = (-1)%Z /\
  Permutation (map hn l) (hn x :: map hn l') /\ length l' = (length l - 1)%nat.
Proof.
  intros [Hh Hi] Hne. unfold heap_pop. set (n := (length l - 1)%nat).
  assert (Hlen : (0 < length l)%nat) by (destruct l; [contradiction|cbn; lia]).
  set (l1 := hswap l 0 n).
  assert (Hd : dpre l1 n 0).
  { split; [|intros; lia]. intros k Hk Hk0 Hpk. unfold l1. rewrite !hget_hswap by lia.
    destruct (Nat.eqb_spec k n); [lia|]. destruct (Nat.eqb_spec k 0); [lia|].
    destruct (Nat.eqb_spec (par k) n); [unfold par in *; lia|]. destruct (Nat.eqb_spec (par k) 0); [lia|].
    apply Hh. lia. }
  assert (Hl1 : length l1 = length l) by (unfold l1; apply hswap_length).
  pose proof (down_strict (length l) l1 n 0 ltac:(lia) ltac:(lia) Hd ltac:(intros; lia)) as Hp2.
  destruct (down_props (length l) l1 0 n ltac:(lia)) as [D1 [D2 [D3 D4]]].
  set (l2 := fst (down (length l) l1 0 n)) in *.
  assert (Hne2 : l2 <> []) by (intros E; rewrite E in D1; cbn in D1; lia).
  unfold repo_pop. cbn [hn hidx]. rewrite (hget_last l2 Hne2), D1, Hl1. fold n.
  assert (Hx : hn (hget l2 n) = hn (hget l 0)).
  { rewrite D4 by (left; lia). unfold l1. rewrite hget_hswap by lia. rewrite Nat.eqb_refl. reflexivity. }
  split; [split|split; [exact Hx|split; [reflexivity|split]]].
  - rewrite length_removelast, D1, Hl1. fold n. intros k Hk. rewrite !hget_removelast by (unfold par; lia). apply Hp2. exact Hk.
  - intros k Hk. rewrite length_removelast in Hk. rewrite hget_removelast by lia.
    apply D3; [unfold l1; apply hswap_idx; [lia|lia|exact Hi]|lia].
  - transitivity (map hn l2); [apply Permutation_sym; etransitivity; [exact D2|unfold l1; apply hswap_perm; lia]|].
    rewrite (app_removelast_last hdflt Hne2) at 1. rewrite map_app. cbn [map].
    rewrite (hget_last l2 Hne2), D1, Hl1. fold n. apply Permutation_sym, Permutation_cons_append.
  - rewrite length_removelast, D1, Hl1. reflexivity.
Qed.

(* heap.Fix(h, 0) after the root's key grew (trigger re-arms a periodic timer in place) *)
Lemma heap_fix_root_spec l x :
  harr_ok l -> l <> [] -> hidx x = 0%Z ->
  harr_ok (heap_fix (hupd l 0 x) 0) /\
  Permutation (map hn (heap_fix (hupd l 0 x) 0)) (hn x :: tl (map hn l)) /\
  length (heap_fix (hupd l 0 x) 0) = length l.
Proof.
  intros [Hh Hi] Hne Hx.
  assert (Hlen : (0 < length l)%nat) by (destruct l; [contradiction|cbn; lia]).
  set (l1 := hupd l 0 x). assert (Hl1 : length l1 = length l) by (unfold l1; apply hupd_length).
  assert (Hd : dpre l1 (length l1) 0).
  { split; [|intros; lia]. intros k Hk Hk0 Hpk. unfold l1. rewrite !hget_hupd_neq by lia. apply Hh. lia. }
  pose proof (sift_spec l1 (length l1) 0 ltac:(lia) ltac:(lia) Hd) as [S1 [S2 [S3 [S4 _]]]].
  change (heap_fix l1 0) with (sift l1 0 (length l1)).
  split; [split|split].
  - rewrite S2. exact S1.
  - apply S4. intros k Hk. rewrite Hl1 in Hk. destruct k as [|k].
    + unfold l1. rewrite hget_hupd_eq by lia. exact Hx.
    + unfold l1. rewrite hget_hupd_neq by lia. apply Hi. exact Hk.
  - etransitivity; [exact S3|]. unfold l1. destruct l as [|y r]; [contradiction|]. reflexivity.
  - rewrite S2. exact Hl1.
Qed.
