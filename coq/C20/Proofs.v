From Coq Require Import ZArith List Bool Lia.
From FV Require Import Generated.Consts Lib.Bits Lib.Hex C20.Model.
Import ListNotations.
Open Scope Z_scope.

Definition in_range (s i : Z) : Prop := 0 <= s < 256 /\ 0 <= i < 65536.

Lemma make_node_arith s i : in_range s i -> make_node s i = s * 65536 + i.
Proof.
  intros [Hs Hi]. unfold make_node, u32, root_NodeServiceShift.
  rewrite Z.shiftl_mul_pow2 by lia.
  rewrite Z.mod_small by lia.
  rewrite <- Z.shiftl_mul_pow2 by lia.
  rewrite lor_shiftl_add by lia. reflexivity.
Qed.

Lemma service_make s i : in_range s i -> service (make_node s i) = s.
Proof.
  intros H. rewrite make_node_arith by assumption. destruct H as [Hs Hi].
  unfold service, u8, root_NodeServiceShift. rewrite shiftr_div by lia.
  change (2 ^ 16) with 65536. rewrite Z.div_add_l by lia.
  rewrite Z.div_small by lia. rewrite Z.add_0_r. apply Z.mod_small. lia.
Qed.

Lemma instance_make s i : in_range s i -> instance (make_node s i) = i.
Proof.
  intros H. rewrite make_node_arith by assumption. destruct H as [Hs Hi].
  unfold instance, u16. change (2 ^ 16) with 65536.
  rewrite Z.add_comm, Z.mod_add by lia. apply Z.mod_small. lia.
Qed.

Lemma backend_make s i : in_range s i -> is_backend (make_node s i) = true.
Proof.
  intros H. rewrite make_node_arith by assumption. destruct H as [Hs Hi].
  unfold is_backend, root_NodeTypeShift. rewrite Z.shiftl_1_l.
  rewrite land_pow2_small by lia. reflexivity.
Qed.

Lemma make_injective s1 i1 s2 i2 :
  in_range s1 i1 -> in_range s2 i2 -> make_node s1 i1 = make_node s2 i2 -> s1 = s2 /\ i1 = i2.
Proof.
  intros H1 H2 E. rewrite !make_node_arith in E by assumption.
  destruct H1, H2. lia.
Qed.

Lemma hex_min_small w n : 0 <= n < 16 ^ Z.of_nat w -> hex_min 16 w n = hex_fixed w n.
Proof.
  intros H. cbn [hex_min]. destruct (n <? 16 ^ Z.of_nat w) eqn:E; [reflexivity|].
  apply Z.ltb_ge in E. lia.
Qed.

Lemma to_string_make s i : in_range s i ->
  to_string (make_node s i) = hex_fixed 2 s ++ hex_fixed 4 i.
Proof.
  intros H. unfold to_string. rewrite service_make, instance_make by assumption.
  destruct H as [Hs Hi].
  rewrite !hex_min_small; [reflexivity | change (16 ^ Z.of_nat 4) with 65536; lia
                          | change (16 ^ Z.of_nat 2) with 256; lia].
Qed.

Lemma print_is_hex s i : in_range s i ->
  length (to_string (make_node s i)) = 6%nat /\
  forallb is_lower_hex (to_string (make_node s i)) = true.
Proof.
  intros H. rewrite to_string_make by assumption. split.
  - rewrite app_length, !hex_fixed_length. reflexivity.
  - rewrite forallb_app, !hex_fixed_lower. reflexivity.
Qed.

Lemma print_parse s i : in_range s i ->
  parse_node (to_string (make_node s i)) = Some (make_node s i).
Proof.
  intros H. rewrite to_string_make by assumption. rewrite make_node_arith by assumption.
  destruct H as [Hs Hi].
  unfold parse_node, parse_hex.
  destruct (hex_fixed 2 s ++ hex_fixed 4 i) eqn:E.
  - apply (f_equal (@length Z)) in E. rewrite app_length, !hex_fixed_length in E. discriminate.
  - rewrite <- E. rewrite parse_hex_acc_app, parse_hex_acc_fixed by lia.
    rewrite parse_hex_acc_fixed by lia.
    change (16 ^ Z.of_nat 2) with 256. change (16 ^ Z.of_nat 4) with 65536.
    rewrite !Z.mod_small by lia.
    replace (0 * 256 + s) with s by lia.
    destruct (s * 65536 + i <? 2 ^ 32) eqn:L; [reflexivity|].
    apply Z.ltb_ge in L. lia.
Qed.
