(* C20 (extension) — NodeIDSet = collections.OrderedIDSet (nodeid.go:67, collections/idset.go):
   a sorted slice of int32 used as a set of node ids.  Executable model, reference set and
   proofs that, for every sequence of Insert/Delete from the empty set, the slice is strictly
   sorted (hence duplicate-free), Has/Find answer like a mathematical set, and Insert/Delete
   change membership of exactly the given id.
   sort.Search (standard library, modelled) returns the first index whose element is >= id
   on a sorted slice; [find] is that specification. *)
From Coq Require Import ZArith List Bool Lia Sorting.Sorted.
Import ListNotations.
Open Scope Z_scope.

(* ---------- model (transcribes idset.go) ---------- *)

(* (s OrderedIDSet) Find(id): smallest i with s[i] >= id, len(s) if none *)
Fixpoint find (id : Z) (s : list Z) : nat :=
  match s with
  | [] => O
  | x :: r => if x >=? id then O else S (find id r)
  end.

Definition has (id : Z) (s : list Z) : bool :=
  match nth_error s (find id s) with
  | Some x => x =? id
  | None => false
  end.

(* Insert: no-op if present; append if beyond the end; else shift right and store *)
Definition insert (id : Z) (s : list Z) : list Z :=
  let i := find id s in
  match nth_error s i with
  | Some x => if x =? id then s else firstn i s ++ id :: skipn i s
  | None => s ++ [id]
  end.

(* Delete: remove the first element equal to id (linear scan) *)
Fixpoint delete (id : Z) (s : list Z) : list Z :=
  match s with
  | [] => []
  | x :: r => if x =? id then r else x :: delete id r
  end.

Inductive op := Insert (id : Z) | Delete (id : Z).

Definition step (s : list Z) (o : op) : list Z :=
  match o with Insert id => insert id s | Delete id => delete id s end.

Definition run (ops : list op) : list Z := fold_left step ops [].

(* ---------- proofs ---------- *)

Definition sorted (s : list Z) : Prop := StronglySorted Z.lt s.

Lemma find_le id s : (find id s <= length s)%nat.
Proof. induction s as [|x r IH]; cbn [find length]; [lia|]. destruct (x >=? id); lia. Qed.

(* everything before the found position is smaller, the found element (if any) is >= id *)
Lemma find_spec id s :
  Forall (fun x => x < id) (firstn (find id s) s) /\
  match nth_error s (find id s) with Some x => id <= x | None => True end.
Proof.
  induction s as [|x r IH]; cbn [find]; [split; constructor|].
  destruct (Z.geb_spec x id) as [G|G].
  - cbn. split; [constructor | lia].
  - cbn [firstn nth_error]. destruct IH as [A B]. split; [constructor; [lia | exact A] | exact B].
Qed.

Lemma find_none_all_smaller id s : nth_error s (find id s) = None -> Forall (fun x => x < id) s.
Proof.
  intros H. pose proof (find_spec id s) as [A _].
  apply nth_error_None in H. rewrite firstn_all2 in A by exact H. exact A.
Qed.

Lemma sorted_tail_ge x r y : sorted (x :: r) -> In y r -> x < y.
Proof. intros S H. inversion S as [|? ? _ F]; subst. rewrite Forall_forall in F. exact (F y H). Qed.

(* on a sorted slice, membership is decided at the found position *)
Lemma has_iff id s : sorted s -> (has id s = true <-> In id s).
Proof.
  unfold has. induction s as [|x r IH]; intros S; cbn [find].
  - cbn. split; [discriminate | tauto].
  - inversion S as [|? ? S' F]; subst. destruct (Z.geb_spec x id) as [G|G]; cbn [nth_error].
    + split.
      * intros E. apply Z.eqb_eq in E. left. exact E.
      * intros [E|H]; [apply Z.eqb_eq; exact E|].
        rewrite Forall_forall in F. specialize (F id H). lia.
    + rewrite (IH S'). split; [intros H; right; exact H|].
      intros [E|H]; [lia | exact H].
Qed.

Lemma insert_in id s x : In x (insert id s) <-> x = id \/ In x s.
Proof.
  unfold insert. destruct (nth_error s (find id s)) as [y|] eqn:E.
  - destruct (Z.eqb_spec y id) as [->|N].
    + split; [tauto|]. intros [->|H]; [|exact H]. eapply nth_error_In; exact E.
    + assert (H : In x s <-> In x (firstn (find id s) s) \/ In x (skipn (find id s) s))
        by (rewrite <- in_app_iff, firstn_skipn; tauto).
      rewrite in_app_iff. cbn [In]. rewrite H. intuition congruence.
  - rewrite in_app_iff. cbn [In]. intuition congruence.
Qed.

Lemma sorted_app_cons a id b :
  sorted a -> sorted b -> Forall (fun x => x < id) a -> Forall (fun x => id < x) b -> sorted (a ++ id :: b).
Proof.
  induction a as [|x a IH]; intros Sa Sb Fa Fb; cbn [app].
  - constructor; assumption.
  - inversion Sa as [|? ? Sa' Fx]; subst. inversion Fa as [|? ? Hx Fa']; subst.
    constructor; [apply IH; assumption|].
    apply Forall_app. split; [exact Fx|]. constructor; [exact Hx|].
    eapply Forall_impl; [|exact Fb]. cbn. intros y Hy. lia.
Qed.

Lemma sorted_firstn n s : sorted s -> sorted (firstn n s).
Proof.
  revert n; induction s as [|x r IH]; intros n S; destruct n; cbn [firstn]; try constructor.
  - inversion S as [|? ? S' F]; subst. exact (IH n S').
  - inversion S as [|? ? S' F]; subst. rewrite Forall_forall in *. intros y Hy.
    apply F. eapply (In_nth_error) in Hy. destruct Hy as [k Hk].
    assert (In y (firstn n r)) by (eapply nth_error_In; exact Hk).
    clear -H. revert n H. induction r as [|z r IHr]; intros n H; destruct n; cbn in *; try tauto.
    destruct H as [->|H]; [left; reflexivity | right; exact (IHr n H)].
Qed.

Lemma sorted_skipn n s : sorted s -> sorted (skipn n s).
Proof.
  revert n; induction s as [|x r IH]; intros n S; destruct n; cbn [skipn]; try assumption; try constructor.
  inversion S as [|? ? S' F]; subst. exact (IH n S').
Qed.

Lemma skipn_ge_found id s y :
  sorted s -> nth_error s (find id s) = Some y -> y <> id -> Forall (fun x => id < x) (skipn (find id s) s).
Proof.
  induction s as [|x r IH]; cbn [find]; intros S E N.
  - constructor.
  - inversion S as [|? ? S' F]; subst. destruct (Z.geb_spec x id) as [G|G].
    + cbn [nth_error] in E. injection E as ->. cbn [skipn].
      constructor; [lia|]. eapply Forall_impl; [|exact F]. cbn. intros w Hw. lia.
    + cbn [nth_error] in E. cbn [skipn]. exact (IH S' E N).
Qed.

Lemma insert_sorted id s : sorted s -> sorted (insert id s).
Proof.
  intros S. unfold insert. destruct (nth_error s (find id s)) as [y|] eqn:E.
  - destruct (Z.eqb_spec y id) as [->|N]; [exact S|].
    apply sorted_app_cons.
    + apply sorted_firstn; exact S.
    + apply sorted_skipn; exact S.
    + exact (proj1 (find_spec id s)).
    + exact (skipn_ge_found id s y S E N).
  - pose proof (find_none_all_smaller id s E) as F.
    apply sorted_app_cons; [exact S | constructor | exact F | constructor].
Qed.

Lemma delete_incl id s x : In x (delete id s) -> In x s.
Proof.
  induction s as [|y r IH]; cbn [delete]; [tauto|].
  destruct (y =? id); cbn [In]; tauto.
Qed.

Lemma delete_sorted id s : sorted s -> sorted (delete id s).
Proof.
  induction s as [|y r IH]; cbn [delete]; intros S; [constructor|].
  inversion S as [|? ? S' F]; subst. destruct (y =? id); [exact S'|].
  constructor; [exact (IH S')|]. rewrite Forall_forall in *. intros x Hx. apply F.
  exact (delete_incl id r x Hx).
Qed.

Lemma delete_in id s x : sorted s -> (In x (delete id s) <-> x <> id /\ In x s).
Proof.
  induction s as [|y r IH]; cbn [delete]; intros S; [cbn; tauto|].
  inversion S as [|? ? S' F]; subst. rewrite Forall_forall in F.
  destruct (Z.eqb_spec y id) as [->|N].
  - cbn [In]. split.
    + intros H. split; [|right; exact H]. specialize (F x H). lia.
    + intros [Hn [E|H]]; [congruence | exact H].
  - cbn [In]. rewrite (IH S'). split.
    + intros [->|[Hn H]]; [split; [exact N | left; reflexivity] | split; [exact Hn | right; exact H]].
    + intros [Hn [E|H]]; [left; exact E | right; split; assumption].
Qed.

Lemma step_sorted s o : sorted s -> sorted (step s o).
Proof. destruct o; cbn [step]; [apply insert_sorted | apply delete_sorted]. Qed.

Lemma run_sorted_from ops : forall s, sorted s -> sorted (fold_left step ops s).
Proof. induction ops as [|o r IH]; intros s S; cbn [fold_left]; [exact S | apply IH, step_sorted, S]. Qed.

Lemma run_sorted ops : sorted (run ops).
Proof. apply run_sorted_from. constructor. Qed.

(* reference: a set as a membership predicate built from the history *)
Fixpoint member (x : Z) (ops : list op) (init : bool) : bool :=
  match ops with
  | [] => init
  | Insert id :: r => member x r (if id =? x then true else init)
  | Delete id :: r => member x r (if id =? x then false else init)
  end.

Lemma run_member_from ops : forall s x, sorted s ->
  (In x (fold_left step ops s) <-> member x ops (has x s) = true).
Proof.
  induction ops as [|o r IH]; intros s x S; cbn [fold_left member].
  - symmetry. apply has_iff. exact S.
  - rewrite (IH (step s o) x (step_sorted s o S)).
    assert (E : has x (step s o) = match o with
                                    | Insert id => if id =? x then true else has x s
                                    | Delete id => if id =? x then false else has x s end).
    { destruct o as [id|id]; cbn [step].
      - destruct (Z.eqb_spec id x) as [->|N].
        + apply has_iff; [apply insert_sorted; exact S|]. apply insert_in. left. reflexivity.
        + destruct (has x s) eqn:H.
          * apply has_iff; [apply insert_sorted; exact S|]. apply insert_in. right.
            apply has_iff; assumption.
          * destruct (has x (insert id s)) eqn:H2; [|reflexivity].
            apply has_iff in H2; [|apply insert_sorted; exact S]. apply insert_in in H2.
            destruct H2 as [->|H2]; [congruence|]. apply (has_iff x s S) in H2. congruence.
      - destruct (Z.eqb_spec id x) as [->|N].
        + destruct (has x (delete x s)) eqn:H2; [|reflexivity].
          apply has_iff in H2; [|apply delete_sorted; exact S]. apply (delete_in x s x S) in H2. tauto.
        + destruct (has x s) eqn:H.
          * apply has_iff; [apply delete_sorted; exact S|]. apply (delete_in id s x S).
            split; [congruence|]. apply has_iff; assumption.
          * destruct (has x (delete id s)) eqn:H2; [|reflexivity].
            apply has_iff in H2; [|apply delete_sorted; exact S]. apply (delete_in id s x S) in H2.
            destruct H2 as [_ H2]. apply (has_iff x s S) in H2. congruence. }
    rewrite E. destruct o; reflexivity.
Qed.

Lemma run_member ops x : In x (run ops) <-> member x ops false = true.
Proof. unfold run. rewrite (run_member_from ops [] x ltac:(constructor)). reflexivity. Qed.
