(* C20 — correspondence: decode a case written by the Go harness, run the model on the
   same inputs, compare with what the implementation returned, and evaluate the
   property's executable form on the implementation's own outputs.
   case = ((service instance) (id svc inst backend str parsed_ok parsed)) *)
From Coq Require Import ZArith List Bool.
From FV Require Import Lib.Sx Lib.Hex C20.Model C20.IdSet.
Import ListNotations.
Open Scope Z_scope.

Definition zlist_eqb := list_eqb Z.eqb.

(* ---- NodeIDSet (collections.OrderedIDSet) histories:
   case = (((op id) ...)) ((slice result) ...)   op: 0 Insert, 1 Delete, 2 Has, 3 Find;
   result: Has 0/1, Find index, otherwise -1.  Mismatch codes 11 (slice) 12 (result);
   property codes 11 (not strictly sorted), 12 (membership differs from the set of ids
   inserted and not deleted), 13 (Has), 14 (Find is not the number of smaller elements) *)
Fixpoint strictly_sorted (l : list Z) : bool :=
  match l with
  | x :: ((y :: _) as r) => (x <? y) && strictly_sorted r
  | _ => true
  end.

Definition mem (x : Z) (l : list Z) : bool := existsb (Z.eqb x) l.

(* reference set: ids inserted and not deleted, as an unordered duplicate-free list *)
Definition ref_step (set : list Z) (code id : Z) : list Z :=
  if code =? 0 then (if mem id set then set else id :: set)
  else if code =? 1 then filter (fun y => negb (y =? id)) set
  else set.

Definition same_members (ids set slice : list Z) : bool :=
  forallb (fun x => Bool.eqb (mem x set) (mem x slice)) ids && (Nat.eqb (length set) (length slice)).

Fixpoint idset_walk (ids : list Z) (m : list Z) (set : list Z) (ops : list (Z * Z)) (obs : list (list Z * Z)) : verdict :=
  match ops, obs with
  | [], [] => VOk
  | (code, id) :: ops', (slice, res) :: obs' =>
      let m1 := if code =? 0 then IdSet.insert id m else if code =? 1 then IdSet.delete id m else m in
      let mres := if code =? 2 then (if IdSet.has id m then 1 else 0)
                  else if code =? 3 then Z.of_nat (IdSet.find id m) else -1 in
      let set1 := ref_step set code id in
      let v :=
        vjoin (check_that (strictly_sorted slice) (VPropFail 11))
       (vjoin (check_that (same_members ids set1 slice) (VPropFail 12))
       (vjoin (check_that (if code =? 2 then res =? (if mem id set then 1 else 0) else true) (VPropFail 13))
       (vjoin (check_that (if code =? 3 then res =? Z.of_nat (length (filter (fun y => y <? id) slice)) else true) (VPropFail 14))
       (vjoin (check_that (list_eqb Z.eqb m1 slice) (VMismatch 11))
              (check_that (mres =? res) (VMismatch 12)))))) in
      match v with
      | VOk => idset_walk ids m1 set1 ops' obs'
      | _ => v
      end
  | _, _ => VBad
  end.

Definition dec_pair (s : sx) : option (Z * Z) :=
  match s with SList [SInt a; SInt b] => Some (a, b) | _ => None end.
Definition dec_obs (s : sx) : option (list Z * Z) :=
  match s with
  | SList [l; SInt r] => match sx_ints l with Some l' => Some (l', r) | None => None end
  | _ => None
  end.

Definition check_idset (ops obs : list sx) : verdict :=
  match map_opt dec_pair ops, map_opt dec_obs obs with
  | Some ops', Some obs' => idset_walk (map snd ops') [] [] ops' obs'
  | _, _ => VBad
  end.

Definition check (c : sx) : verdict :=
  match c with
  | SList [SList [SList ops]; SList obs] => check_idset ops obs
  (* (s i 1): the same calls made as the first thing in a fresh process (package-level state in its
     initial condition); nothing changes for the model *)
  | SList [SList [SInt s; SInt i; SInt _];
           SList [SInt id; SInt svc; SInt inst; SInt backend; SBytes str;
                  SInt parsed_ok; SInt parsed]]
  | SList [SList [SInt s; SInt i];
           SList [SInt id; SInt svc; SInt inst; SInt backend; SBytes str;
                  SInt parsed_ok; SInt parsed]] =>
      let str := map Z.of_N str in
      let m_id := make_node s i in
      (* model = implementation *)
      let corr :=
        vjoin (check_that (m_id =? id) (VMismatch 1))
       (vjoin (check_that (service id =? svc) (VMismatch 2))
       (vjoin (check_that (instance id =? inst) (VMismatch 3))
       (vjoin (check_that (Bool.eqb (is_backend id) (backend =? 1)) (VMismatch 4))
       (vjoin (check_that (zlist_eqb (to_string id) str) (VMismatch 5))
              (check_that (match parse_node str with
                           | Some v => (parsed_ok =? 1) && (v =? parsed)
                           | None => parsed_ok =? 0 end) (VMismatch 6)))))) in
      (* the property on the implementation's outputs *)
      let prop :=
        vjoin (check_that ((svc =? s) && (inst =? i)) (VPropFail 1))
       (vjoin (check_that (backend =? 1) (VPropFail 2))
       (vjoin (check_that (forallb is_lower_hex str && negb (Nat.eqb (length str) 0)) (VPropFail 3))
              (check_that ((parsed_ok =? 1) && (parsed =? id)) (VPropFail 4)))) in
      vjoin prop corr
  | _ => VBad
  end.
