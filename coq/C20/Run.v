(* C20 — correspondence: decode a case written by the Go harness, run the model on the
   same inputs, compare with what the implementation returned, and evaluate the
   property's executable form on the implementation's own outputs.
   case = ((service instance) (id svc inst backend str parsed_ok parsed)) *)
From Coq Require Import ZArith List Bool.
From FV Require Import Lib.Sx Lib.Hex C20.Model.
Import ListNotations.
Open Scope Z_scope.

Definition zlist_eqb := list_eqb Z.eqb.

Definition check (c : sx) : verdict :=
  match c with
  | SList [SList [SInt s; SInt i];
           SList [SInt id; SInt svc; SInt inst; SInt backend; SBytes str;
                  SInt parsed_ok; SInt parsed]] =>
      let str := map Z.of_N str in
      let m_id := make_node s i in
      (* model = implementation *)
      let corr :=
        vjoin (check_that (m_id =? id) (VMismatch 1))
       (vjoin (check_that (service id =? svc) (VMismatch 2))
       (vjoin (check_that (instance id =? inst) (VMismatch 3))
       (vjoin (check_that (Bool.eqb (is_backend id) (backend =? 1)) (VMismatch 4))
       (vjoin (check_that (zlist_eqb (to_string id) str) (VMismatch 5))
              (check_that (match parse_node str with
                           | Some v => (parsed_ok =? 1) && (v =? parsed)
                           | None => parsed_ok =? 0 end) (VMismatch 6)))))) in
      (* the property on the implementation's outputs *)
      let prop :=
        vjoin (check_that ((svc =? s) && (inst =? i)) (VPropFail 1))
       (vjoin (check_that (backend =? 1) (VPropFail 2))
       (vjoin (check_that (forallb is_lower_hex str && negb (Nat.eqb (length str) 0)) (VPropFail 3))
              (check_that ((parsed_ok =? 1) && (parsed =? id)) (VPropFail 4)))) in
      vjoin prop corr
  | _ => VBad
  end.
