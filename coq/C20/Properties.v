(* C20 — Node ids pack, unpack and print/parse losslessly for every service and instance.
   This file holds only the property theorems; each is closed by an exact lemma and
   followed by Print Assumptions. *)
From Coq Require Import ZArith List Bool.
From FV Require Import Generated.NodeID Lib.Hex C20.Model C20.Proofs C20.Source C20.IdSet.
Import ListNotations.
Open Scope Z_scope.

(* "the node id built from them yields the same service and instance when taken apart" *)
Theorem c20_unpack : forall s i, 0 <= s < 256 /\ 0 <= i < 65536 ->
  service (make_node s i) = s /\ instance (make_node s i) = i.
Proof. intros s i H; split; [exact (service_make s i H) | exact (instance_make s i H)]. Qed.
Print Assumptions c20_unpack.

(* "is classified as a backend (not a client session) id" *)
Theorem c20_backend : forall s i, 0 <= s < 256 /\ 0 <= i < 65536 ->
  is_backend (make_node s i) = true.
Proof. exact backend_make. Qed.
Print Assumptions c20_backend.

(* "its printed form is a plain hexadecimal string ..." *)
Theorem c20_print_is_hex : forall s i, 0 <= s < 256 /\ 0 <= i < 65536 ->
  length (to_string (make_node s i)) = 6%nat /\
  forallb is_lower_hex (to_string (make_node s i)) = true.
Proof. exact print_is_hex. Qed.
Print Assumptions c20_print_is_hex.

(* "... that parses back to the same id" *)
Theorem c20_print_parse : forall s i, 0 <= s < 256 /\ 0 <= i < 65536 ->
  parse_node (to_string (make_node s i)) = Some (make_node s i).
Proof. exact print_parse. Qed.
Print Assumptions c20_print_parse.

(* "Distinct (service, instance) pairs give distinct ids" *)
Theorem c20_injective : forall s1 i1 s2 i2,
  0 <= s1 < 256 /\ 0 <= i1 < 65536 -> 0 <= s2 < 256 /\ 0 <= i2 < 65536 ->
  make_node s1 i1 = make_node s2 i2 -> s1 = s2 /\ i1 = i2.
Proof. exact make_injective. Qed.
Print Assumptions c20_injective.

(* The same statements about the Gallina definitions that tools/gofunc regenerates from
   nodeid.go on every run (Generated/NodeID.v): if MakeNodeID, Service, Instance or
   IsTypeBackend change in the source, these are the obligations that are re-checked. *)
Theorem c20_src_unpack : forall s i, 0 <= s < 256 /\ 0 <= i < 65536 ->
  go_NodeID_Service (go_MakeNodeID s i) = s /\ go_NodeID_Instance (go_MakeNodeID s i) = i.
Proof. exact src_unpack. Qed.
Print Assumptions c20_src_unpack.

Theorem c20_src_backend : forall s i, 0 <= s < 256 /\ 0 <= i < 65536 ->
  go_NodeID_IsTypeBackend (go_MakeNodeID s i) = true.
Proof. exact src_is_backend. Qed.
Print Assumptions c20_src_backend.

Theorem c20_src_injective : forall s1 i1 s2 i2,
  0 <= s1 < 256 /\ 0 <= i1 < 65536 -> 0 <= s2 < 256 /\ 0 <= i2 < 65536 ->
  go_MakeNodeID s1 i1 = go_MakeNodeID s2 i2 -> s1 = s2 /\ i1 = i2.
Proof. exact src_injective. Qed.
Print Assumptions c20_src_injective.

(* the hand-written model used by the print/parse theorems is the translated source *)
Theorem c20_src_is_model : forall s i, 0 <= s < 256 /\ 0 <= i < 65536 ->
  go_MakeNodeID s i = make_node s i /\
  go_NodeID_Service (make_node s i) = service (make_node s i) /\
  go_NodeID_Instance (make_node s i) = instance (make_node s i) /\
  go_NodeID_IsTypeBackend (make_node s i) = is_backend (make_node s i).
Proof.
  intros s i H. repeat split; [exact (src_make s i H) | exact (src_backend _ (make_node_range s i H))].
Qed.
Print Assumptions c20_src_is_model.

(* ---- extension: NodeIDSet (nodeid.go:67 = collections.OrderedIDSet), the set of node ids
   kept as a sorted slice.  For every sequence of Insert/Delete from the empty set: *)

(* the slice is strictly increasing (so every id is present at most once) *)
Theorem c20_idset_sorted : forall ops, Sorted.StronglySorted Z.lt (IdSet.run ops).
Proof. exact IdSet.run_sorted. Qed.
Print Assumptions c20_idset_sorted.

(* an id is in the slice iff it was inserted and not deleted since *)
Theorem c20_idset_is_set : forall ops x, In x (IdSet.run ops) <-> IdSet.member x ops false = true.
Proof. exact IdSet.run_member. Qed.
Print Assumptions c20_idset_is_set.

(* Has (binary search) answers membership on every reachable slice *)
Theorem c20_idset_has : forall ops x, IdSet.has x (IdSet.run ops) = true <-> In x (IdSet.run ops).
Proof. intros ops x. apply IdSet.has_iff. apply IdSet.run_sorted. Qed.
Print Assumptions c20_idset_has.

(* non-vacuity: the hypotheses are met by a non-trivial pair, and the model computes *)
Example c20_example :
  (0 <= 200 < 256 /\ 0 <= 4660 < 65536) /\
  to_string (make_node 200 4660) = [99; 56; 49; 50; 51; 52]%list /\
  parse_node [99; 56; 49; 50; 51; 52]%list = Some (make_node 200 4660).
Proof. repeat split; try reflexivity; vm_compute; discriminate. Qed.
