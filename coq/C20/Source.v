(* C20 — the definitions regenerated from nodeid.go by tools/gofunc (Generated/NodeID.v)
   coincide with the hand-written model on every uint8 service / uint16 instance / uint32 id,
   so the property theorems hold of the translated source itself. *)
From Coq Require Import ZArith List Bool Lia.
From FV Require Import Generated.Consts Generated.NodeID Lib.Bits Lib.Hex C20.Model C20.Proofs.
Open Scope Z_scope.

Lemma src_make s i : in_range s i -> go_MakeNodeID s i = make_node s i.
Proof.
  intros H. rewrite make_node_arith by assumption. destruct H as [Hs Hi].
  unfold go_MakeNodeID.
  rewrite (Z.mod_small s) by lia. rewrite (Z.mod_small i) by lia.
  rewrite Z.shiftl_mul_pow2 by lia. rewrite (Z.mod_small (s * 2 ^ 16)) by lia.
  rewrite <- Z.shiftl_mul_pow2 by lia. rewrite lor_shiftl_add by lia.
  apply Z.mod_small. lia.
Qed.

Lemma src_service n : go_NodeID_Service n = service n.
Proof. reflexivity. Qed.

Lemma src_instance n : go_NodeID_Instance n = instance n.
Proof. reflexivity. Qed.

Lemma src_backend n : 0 <= n < 2 ^ 32 -> go_NodeID_IsTypeBackend n = is_backend n.
Proof. intros H. unfold go_NodeID_IsTypeBackend, is_backend. rewrite Z.mod_small by lia. reflexivity. Qed.

Lemma make_node_range s i : in_range s i -> 0 <= make_node s i < 2 ^ 32.
Proof. intros H. rewrite make_node_arith by assumption. destruct H. lia. Qed.

Lemma src_unpack s i : in_range s i ->
  go_NodeID_Service (go_MakeNodeID s i) = s /\ go_NodeID_Instance (go_MakeNodeID s i) = i.
Proof.
  intros H. rewrite src_make, src_service, src_instance by assumption.
  split; [apply service_make | apply instance_make]; assumption.
Qed.

Lemma src_is_backend s i : in_range s i -> go_NodeID_IsTypeBackend (go_MakeNodeID s i) = true.
Proof.
  intros H. rewrite src_make by assumption. rewrite src_backend by (apply make_node_range; assumption).
  apply backend_make. assumption.
Qed.

Lemma src_injective s1 i1 s2 i2 : in_range s1 i1 -> in_range s2 i2 ->
  go_MakeNodeID s1 i1 = go_MakeNodeID s2 i2 -> s1 = s2 /\ i1 = i2.
Proof. intros H1 H2. rewrite !src_make by assumption. apply make_injective; assumption. Qed.
