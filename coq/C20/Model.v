(* C20 — node ids (nodeid.go).  Executable model; nothing is proved in this file.
   Shifts and masks come from Generated/Consts.v (regenerated from the Go source). *)
From Coq Require Import ZArith List Bool.
From FV Require Import Generated.Consts Lib.Hex.
Import ListNotations.
Open Scope Z_scope.

Definition u32 (z : Z) : Z := z mod 2 ^ 32.
Definition u16 (z : Z) : Z := z mod 2 ^ 16.
Definition u8 (z : Z) : Z := z mod 2 ^ 8.

(* MakeNodeID(service uint8, instance uint16) NodeID *)
Definition make_node (service instance : Z) : Z :=
  Z.lor (u32 (Z.shiftl service root_NodeServiceShift)) instance.

(* (n NodeID) Service() uint8 ; Instance() uint16 ; IsTypeBackend() bool *)
Definition service (n : Z) : Z := u8 (Z.shiftr n root_NodeServiceShift).
Definition instance (n : Z) : Z := u16 n.
Definition is_backend (n : Z) : bool := Z.land n (Z.shiftl 1 root_NodeTypeShift) =? 0.

(* (n NodeID) String() string  =  fmt.Sprintf("%02x%04x", n.Service(), n.Instance()) *)
Definition to_string (n : Z) : list Z :=
  hex_min 16 2 (service n) ++ hex_min 16 4 (instance n).

(* MustParseNodeID(s): None = panic *)
Definition parse_node (s : list Z) : option Z := parse_hex 32 s.
