(* C15 — proofs about the RPC client model (all histories = all lists of operations). *)
From Coq Require Import ZArith List Bool Lia.
From FV Require Import Generated.Consts C15.Model.
Import ListNotations.
Open Scope Z_scope.

Lemma bump_nonzero c : bump c <> 0.
Proof. unfold bump. destruct ((c + 1) mod 65536 =? 0) eqn:E; [lia | apply Z.eqb_neq in E; exact E]. Qed.
