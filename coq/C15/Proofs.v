(* C15 — proofs about the RPC client model.
   All histories = all lists of operations; all counter positions 0 <= c0 < 65536 (incl. the wrap). *)
From Coq Require Import ZArith List Bool Lia Permutation.
From FV Require Import Generated.Consts C15.Model.
Import ListNotations.
Open Scope Z_scope.

Ltac Zify.zify_post_hook ::= Z.div_mod_to_equations.

Definition keys (p : list (Z * ctx)) : list Z := map fst p.
Definition u16 (c : Z) : Prop := 0 <= c < 65536.
Definition seqnum (k : Z) : Prop := 0 < k < 65536.

(* ------------------------------------------------------------------ the association list *)

Lemma lookup_In k p c : lookup k p = Some c -> In (k, c) p.
Proof.
  induction p as [|[k' v] p IH]; simpl; [discriminate|].
  destruct (k =? k') eqn:E; [apply Z.eqb_eq in E; intros H; inversion H; subst; left; reflexivity|].
  intros H. right. apply IH. exact H.
Qed.

Lemma lookup_None k p : lookup k p = None <-> ~ In k (keys p).
Proof.
  induction p as [|[k' v] p IH]; simpl; [tauto|].
  destruct (k =? k') eqn:E.
  - apply Z.eqb_eq in E. subst. split; [discriminate | intros H; exfalso; apply H; left; reflexivity].
  - apply Z.eqb_neq in E. rewrite IH. split; [intros H [H1|H1]; [congruence | tauto] | tauto].
Qed.

Lemma has_false k p : has k p = false <-> ~ In k (keys p).
Proof. unfold has. rewrite <- lookup_None. destruct (lookup k p); split; congruence. Qed.

Lemma In_lookup k c p : NoDup (keys p) -> In (k, c) p -> lookup k p = Some c.
Proof.
  induction p as [|[k' v] p IH]; simpl; [tauto|]. intros N H. inversion N; subst.
  destruct H as [H|H].
  - inversion H; subst. rewrite Z.eqb_refl. reflexivity.
  - destruct (k =? k') eqn:E; [|apply IH; assumption].
    apply Z.eqb_eq in E. subst. exfalso. apply H2. unfold keys. apply (in_map fst) in H. exact H.
Qed.

Lemma remove_keys k p : keys (remove k p) = filter (fun x => negb (x =? k)) (keys p).
Proof.
  induction p as [|[k' v] p IH]; simpl; [reflexivity|].
  rewrite (Z.eqb_sym k' k). destruct (k =? k'); simpl; rewrite IH; reflexivity.
Qed.

Lemma remove_In k p e : In e (remove k p) -> In e p /\ fst e <> k.
Proof.
  induction p as [|[k' v] p IH]; simpl; [tauto|].
  destruct (k =? k') eqn:E.
  - intros H. destruct (IH H). split; [right|]; assumption.
  - apply Z.eqb_neq in E. intros [H|H]; [subst; simpl; split; [left; reflexivity | congruence]|].
    destruct (IH H). split; [right|]; assumption.
Qed.

Lemma NoDup_filter {A} (f : A -> bool) l : NoDup l -> NoDup (filter f l).
Proof.
  induction 1 as [|x l Hx N IH]; simpl; [constructor|].
  destruct (f x); [constructor; [rewrite filter_In; tauto | exact IH] | exact IH].
Qed.

Lemma remove_absent k p : ~ In k (keys p) -> remove k p = p.
Proof.
  induction p as [|[k' v] p IH]; simpl; [reflexivity|]. intros H.
  destruct (k =? k') eqn:E; [apply Z.eqb_eq in E; subst; tauto|].
  rewrite IH; [reflexivity | tauto].
Qed.

Lemma lookup_remove_same k p : lookup k (remove k p) = None.
Proof. apply lookup_None. rewrite remove_keys, filter_In. rewrite Z.eqb_refl. simpl. intros [_ H]; discriminate. Qed.

Lemma lookup_remove_other k k' p : k' <> k -> lookup k' (remove k p) = lookup k' p.
Proof.
  intros Hne. induction p as [|[a v] p IH]; simpl; [reflexivity|].
  destruct (k =? a) eqn:E.
  - apply Z.eqb_eq in E. subst. destruct (k' =? a) eqn:E2; [apply Z.eqb_eq in E2; congruence | exact IH].
  - simpl. rewrite IH. reflexivity.
Qed.

Lemma remove_split k c p : NoDup (keys p) -> lookup k p = Some c ->
  exists l1 l2, p = l1 ++ (k, c) :: l2 /\ remove k p = l1 ++ l2.
Proof.
  induction p as [|[k' v] p IH]; simpl; [discriminate|]. intros N H. inversion N; subst.
  destruct (k =? k') eqn:E.
  - apply Z.eqb_eq in E. subst. inversion H; subst. exists [], p. split; [reflexivity|].
    simpl. apply remove_absent. exact H2.
  - destruct (IH H3 H) as [l1 [l2 [E1 E2]]]. exists ((k', v) :: l1), l2. subst p. split; [reflexivity|].
    simpl. rewrite E2. reflexivity.
Qed.

(* ------------------------------------------------------------------ the counter *)

Lemma bump_range c : u16 c -> seqnum (bump c).
Proof.
  unfold u16, seqnum, bump. intros H.
  destruct ((c + 1) mod 65536 =? 0) eqn:E; [lia|]. apply Z.eqb_neq in E. lia.
Qed.

Lemma bump_nonzero c : bump c <> 0.
Proof. unfold bump. destruct ((c + 1) mod 65536 =? 0) eqn:E; [lia | apply Z.eqb_neq in E; exact E]. Qed.

Lemma probe_some fuel : forall c p seq, u16 c -> probe fuel c p = Some seq ->
  seqnum seq /\ ~ In seq (keys p).
Proof.
  induction fuel as [|f IH]; intros c p seq Hc H; simpl in H; [discriminate|].
  destruct (has (bump c) p) eqn:E.
  - apply (IH (bump c)); [|exact H]. pose proof (bump_range c Hc). unfold seqnum, u16 in *. lia.
  - inversion H; subst. split; [apply bump_range; exact Hc | apply has_false; exact E].
Qed.

(* the probe visits bump c, bump (bump c), ...; these are all of 1..65535 *)
Fixpoint iter_bump (i : nat) (c : Z) : Z := match i with O => c | S j => bump (iter_bump j c) end.

Lemma iter_bump_closed i c : u16 c -> iter_bump (S i) c = (c - 1 + Z.of_nat (S i)) mod 65535 + 1.
Proof.
  intros Hc. induction i as [|i IH].
  - simpl iter_bump. unfold bump, u16 in *. change (Z.of_nat 1) with 1.
    destruct ((c + 1) mod 65536 =? 0) eqn:E; [apply Z.eqb_eq in E | apply Z.eqb_neq in E]; lia.
  - change (iter_bump (S (S i)) c) with (bump (iter_bump (S i) c)). rewrite IH.
    rewrite (Nat2Z.inj_succ (S i)). generalize (Z.of_nat (S i)). intros m.
    unfold bump, u16 in *.
    destruct (((c - 1 + m) mod 65535 + 1 + 1) mod 65536 =? 0) eqn:E;
      [apply Z.eqb_eq in E | apply Z.eqb_neq in E]; lia.
Qed.

Lemma iter_bump_shift i c : iter_bump i (bump c) = iter_bump (S i) c.
Proof. induction i as [|i IH]; [reflexivity|]. simpl. rewrite IH. reflexivity. Qed.

Lemma probe_none fuel : forall c p, probe fuel c p = None ->
  forall i, (1 <= i <= fuel)%nat -> In (iter_bump i c) (keys p).
Proof.
  induction fuel as [|f IH]; intros c p H i Hi; [lia|]. simpl in H.
  destruct (has (bump c) p) eqn:E; [|discriminate].
  destruct i as [|[|i]]; [lia | |].
  - simpl. destruct (in_dec Z.eq_dec (bump c) (keys p)) as [Hin|Hn]; [exact Hin|].
    apply has_false in Hn. congruence.
  - rewrite <- iter_bump_shift. apply IH; [exact H | lia].
Qed.

Lemma probe_none_full c p : u16 c -> probe fuel16 c p = None ->
  forall k, seqnum k -> In k (keys p).
Proof.
  intros Hc H k Hk. unfold seqnum, u16 in *.
  set (d := (k - c) mod 65535).
  set (i := if d =? 0 then 65535 else d).
  assert (Hi : 1 <= i <= 65535) by (unfold i, d; destruct ((k - c) mod 65535 =? 0) eqn:E;
                                    [lia | apply Z.eqb_neq in E; lia]).
  pose proof (probe_none fuel16 c p H (Z.to_nat i)) as P.
  assert (Hr : (1 <= Z.to_nat i <= fuel16)%nat) by (unfold fuel16; lia).
  specialize (P Hr). replace (Z.to_nat i) with (S (Z.to_nat (i - 1))) in P by lia.
  rewrite iter_bump_closed in P by exact Hc.
  replace (Z.of_nat (S (Z.to_nat (i - 1)))) with i in P by lia.
  replace ((c - 1 + i) mod 65535 + 1) with k in P; [exact P|].
  unfold i, d. destruct ((k - c) mod 65535 =? 0) eqn:E; [apply Z.eqb_eq in E | apply Z.eqb_neq in E]; lia.
Qed.

Opaque fuel16.   (* keep simpl/cbn from unfolding a 65535-deep unary numeral *)

(* ------------------------------------------------------------------ the invariant *)

Definition cids (l : list ctx) : list Z := map cid l.
(* the calls that are still to be completed: in the table, on the expired list, or stripped by a
   Dispatch / ReapTimeout whose completion has not run yet *)
Definition live (s : st) : list Z :=
  cids (map snd (pending s)) ++ cids (expired s) ++ cids (map fst (inflight s)).

Record Inv (s : st) : Prop := mkInv {
  i_nodup : NoDup (keys (pending s));
  i_keys : forall k, In k (keys (pending s)) -> seqnum k;
  i_counter : u16 (counter s);
  i_live : NoDup (live s);
  i_bound : forall x, In x (live s) -> 0 <= x < ncalls s;
  i_ncalls : 0 <= ncalls s
}.

Lemma Inv_init c0 : u16 c0 -> Inv (init c0).
Proof.
  intros H. constructor; simpl; try (constructor; fail); try tauto; try exact H; try lia.
  all: unfold live; simpl; try constructor; try tauto.
Qed.

Lemma complete_cid c r : kcid (complete c r) = cid c.
Proof. unfold complete. destruct (csync c); [reflexivity|]. destruct (0 <? rerr r); [reflexivity|]. destruct (rdec r); reflexivity. Qed.

Lemma filter_perm {A} (f : A -> bool) l : Permutation (filter f l ++ filter (fun x => negb (f x)) l) l.
Proof.
  induction l as [|x l IH]; simpl; [constructor|].
  destruct (f x); simpl; [constructor; exact IH|].
  rewrite <- Permutation_middle. constructor. exact IH.
Qed.

Lemma keys_filter_sub (f : Z * ctx -> bool) p k : In k (keys (filter f p)) -> In k (keys p).
Proof.
  unfold keys. rewrite !in_map_iff. intros [e [E H]]. apply filter_In in H. exists e. tauto.
Qed.

Lemma keys_filter_nodup (f : Z * ctx -> bool) p : NoDup (keys p) -> NoDup (keys (filter f p)).
Proof.
  induction p as [|e p IH]; simpl; [constructor|]. intros N. inversion N; subst.
  destruct (f e); simpl; [|apply IH; assumption].
  constructor; [|apply IH; assumption]. intros H. apply H1. eapply keys_filter_sub; eauto.
Qed.

Lemma nth_error_split {A} (l : list A) k x : nth_error l k = Some x ->
  l = firstn k l ++ x :: skipn (S k) l.
Proof.
  revert k; induction l as [|a l IH]; intros [|k] H; simpl in *; try discriminate.
  - inversion H; reflexivity.
  - f_equal. apply IH. exact H.
Qed.

Lemma map_kcid_complete r l : map kcid (map (fun c => complete c r) l) = map cid l.
Proof. rewrite map_map. apply map_ext. intros c. apply complete_cid. Qed.

Lemma map_cid_pair (r : resp) l : map cid (map fst (map (fun c => (c, r)) l)) = map cid l.
Proof. rewrite !map_map. apply map_ext. intros c. reflexivity. Qed.

Ltac permz :=
  apply (proj2 (Permutation_count_occ Z.eq_dec _ _)); intros ?z;
  repeat first [rewrite count_occ_app | rewrite map_app | progress simpl];
  repeat match goal with |- context [Z.eq_dec ?a ?b] => destruct (Z.eq_dec a b) end; lia.

Lemma count_filter_split (f : Z * ctx -> bool) l z :
  count_occ Z.eq_dec (map cid (map snd l)) z =
  (count_occ Z.eq_dec (map cid (map snd (filter f l))) z +
   count_occ Z.eq_dec (map cid (map snd (filter (fun e => negb (f e)) l))) z)%nat.
Proof.
  induction l as [|e l IH]; simpl; [reflexivity|].
  destruct (f e); simpl; destruct (Z.eq_dec (cid (snd e)) z); lia.
Qed.

(* what an operation does to the identities of the calls: the completed ones leave [live],
   a new call enters it (or, refused, is completed at once) *)
Lemma step_cids s o s' x : Inv s -> step s o = (s', x) ->
  exists fresh, (fresh = [] \/ fresh = [ncalls s]) /\ ncalls s' = ncalls s + Z.of_nat (length fresh) /\
                Permutation (live s' ++ map kcid (ocomps x)) (fresh ++ live s).
Proof.
  intros I H. destruct o as [sync dl|r|now| |r| |k]; cbn [step] in H.
  - destruct (probe fuel16 (counter s) (pending s)) as [seq|] eqn:P.
    + destruct (probe_some _ _ _ _ (i_counter _ I) P) as [_ Hn].
      unfold call_with in H. inversion H; subst; clear H. exists [ncalls s]. split; [right; reflexivity|].
      split; [simpl; lia|]. unfold live, cids. simpl. rewrite remove_absent by exact Hn. permz.
    + unfold call_refused in H. inversion H; subst; clear H. exists [ncalls s]. split; [right; reflexivity|].
      split; [simpl; lia|]. unfold live, cids. simpl. rewrite complete_cid. simpl. permz.
  - destruct (lookup (rseq r) (pending s)) as [c|] eqn:L.
    + inversion H; subst; clear H. exists []. split; [left; reflexivity|]. split; [simpl; lia|].
      destruct (remove_split _ _ _ (i_nodup _ I) L) as [l1 [l2 [E1 E2]]].
      unfold live, cids. simpl. rewrite E2, E1. rewrite complete_cid. permz.
    + inversion H; subst; clear H. exists []. split; [left; reflexivity|]. split; [simpl; lia|].
      simpl. rewrite app_nil_r. reflexivity.
  - inversion H; subst; clear H. exists []. split; [left; reflexivity|]. split; [simpl; lia|].
    unfold live, cids. simpl.
    apply (proj2 (Permutation_count_occ Z.eq_dec _ _)); intros z.
    repeat first [rewrite count_occ_app | rewrite map_app | progress simpl].
    rewrite (count_filter_split (overdue now) (pending s) z). lia.
  - inversion H; subst; clear H. exists []. split; [left; reflexivity|]. split; [simpl; lia|].
    unfold live, cids. cbn [pending expired inflight ocomps]. rewrite map_kcid_complete. permz.
  - destruct (lookup (rseq r) (pending s)) as [c|] eqn:L.
    + inversion H; subst; clear H. exists []. split; [left; reflexivity|]. split; [simpl; lia|].
      destruct (remove_split _ _ _ (i_nodup _ I) L) as [l1 [l2 [E1 E2]]].
      unfold live, cids. simpl. rewrite E2, E1. permz.
    + inversion H; subst; clear H. exists []. split; [left; reflexivity|]. split; [simpl; lia|].
      simpl. rewrite app_nil_r. reflexivity.
  - inversion H; subst; clear H. exists []. split; [left; reflexivity|]. split; [simpl; lia|].
    unfold live, cids. cbn [pending expired inflight ocomps]. rewrite !map_app, map_cid_pair. permz.
  - destruct (nth_error (inflight s) k) as [[c r]|] eqn:N.
    + inversion H; subst; clear H. exists []. split; [left; reflexivity|]. split; [simpl; lia|].
      unfold live, cids. simpl. rewrite complete_cid.
      rewrite (nth_error_split _ _ _ N) at 3. permz.
    + inversion H; subst; clear H. exists []. split; [left; reflexivity|]. split; [simpl; lia|].
      simpl. rewrite app_nil_r. reflexivity.
Qed.

Lemma live_sub_perm s s' x fresh : Permutation (live s' ++ map kcid (ocomps x)) (fresh ++ live s) ->
  forall y, In y (live s') -> In y (fresh ++ live s).
Proof. intros P y Hy. apply (Permutation_in y P). apply in_or_app. left. exact Hy. Qed.

Lemma NoDup_app_l {A} (a b : list A) : NoDup (a ++ b) -> NoDup a.
Proof.
  induction a as [|x a IH]; simpl; intros H; [constructor|].
  inversion H; subst. constructor; [|apply IH; assumption].
  intros Hin. apply H2. apply in_or_app. left. exact Hin.
Qed.

Lemma step_Inv s o s' x : Inv s -> step s o = (s', x) -> Inv s'.
Proof.
  intros I H. destruct (step_cids _ _ _ _ I H) as [fresh [Hf [Hn P]]].
  assert (NL : NoDup (fresh ++ live s)).
  { destruct Hf as [->| ->]; simpl; [apply (i_live _ I)|]. constructor; [|apply (i_live _ I)].
    intros Hin. pose proof (i_bound _ I _ Hin). lia. }
  assert (BL : forall y, In y (fresh ++ live s) -> 0 <= y < ncalls s').
  { intros y Hy. apply in_app_or in Hy. destruct Hy as [Hy|Hy].
    - destruct Hf as [->| ->]; simpl in Hy; [tauto|]. destruct Hy as [<-|[]]. pose proof (i_ncalls _ I). simpl in Hn. lia.
    - pose proof (i_bound _ I _ Hy). lia. }
  assert (N' : NoDup (live s')).
  { apply (Permutation_NoDup (Permutation_sym P)) in NL. apply NoDup_app_l in NL. exact NL. }
  assert (B' : forall y, In y (live s') -> 0 <= y < ncalls s').
  { intros y Hy. apply BL. eapply live_sub_perm; eauto. }
  assert (C' : 0 <= ncalls s') by (pose proof (i_ncalls _ I); lia).
  clear P NL BL Hf Hn.
  destruct o as [sync dl|r|now| |r| |k]; cbn [step] in H.
  - destruct (probe fuel16 (counter s) (pending s)) as [seq|] eqn:Pr.
    + destruct (probe_some _ _ _ _ (i_counter _ I) Pr) as [Hs Hni].
      unfold call_with in H. inversion H; subst; clear H. constructor; simpl; try assumption.
      * rewrite remove_absent by exact Hni. constructor; [exact Hni | apply (i_nodup _ I)].
      * rewrite remove_absent by exact Hni. intros k [<-|Hk]; [exact Hs | apply (i_keys _ I); exact Hk].
      * unfold u16, seqnum in *. lia.
    + unfold call_refused in H. inversion H; subst; clear H. constructor; simpl; try assumption;
      [apply (i_nodup _ I) | apply (i_keys _ I) | apply (i_counter _ I)].
  - destruct (lookup (rseq r) (pending s)) as [c|] eqn:L; inversion H; subst; clear H;
    constructor; simpl; try assumption; try (apply (i_nodup _ I)); try (apply (i_keys _ I)); try (apply (i_counter _ I)).
    + rewrite remove_keys. apply NoDup_filter. apply (i_nodup _ I).
    + intros k Hk. rewrite remove_keys in Hk. apply filter_In in Hk. apply (i_keys _ I). tauto.
  - inversion H; subst; clear H. constructor; simpl; try assumption; try (apply (i_counter _ I)).
    + apply keys_filter_nodup. apply (i_nodup _ I).
    + intros k Hk. apply (i_keys _ I). eapply keys_filter_sub; eauto.
  - inversion H; subst; clear H. constructor; simpl; try assumption;
    [apply (i_nodup _ I) | apply (i_keys _ I) | apply (i_counter _ I)].
  - destruct (lookup (rseq r) (pending s)) as [c|] eqn:L; inversion H; subst; clear H;
    constructor; simpl; try assumption; try (apply (i_nodup _ I)); try (apply (i_keys _ I)); try (apply (i_counter _ I)).
    + rewrite remove_keys. apply NoDup_filter. apply (i_nodup _ I).
    + intros k Hk. rewrite remove_keys in Hk. apply filter_In in Hk. apply (i_keys _ I). tauto.
  - inversion H; subst; clear H. constructor; simpl; try assumption;
    [apply (i_nodup _ I) | apply (i_keys _ I) | apply (i_counter _ I)].
  - destruct (nth_error (inflight s) k) as [[c r]|] eqn:N; inversion H; subst; clear H;
    constructor; simpl; try assumption; try (apply (i_nodup _ I)); try (apply (i_keys _ I)); try (apply (i_counter _ I)).
Qed.

Lemma run_Inv ops : forall s s' xs, Inv s -> run s ops = (s', xs) -> Inv s'.
Proof.
  induction ops as [|o ops IH]; intros s s' xs I H; simpl in H; [inversion H; subst; exact I|].
  destruct (step s o) as [s1 x] eqn:E1. destruct (run s1 ops) as [s2 xs2] eqn:E2.
  inversion H; subst. eapply IH; [eapply step_Inv; eauto | exact E2].
Qed.

Theorem reach_Inv c0 ops : u16 c0 -> Inv (fst (run (init c0) ops)).
Proof.
  intros H. destruct (run (init c0) ops) as [s xs] eqn:E. simpl.
  eapply run_Inv; [apply Inv_init; exact H | exact E].
Qed.

(* ------------------------------------------------------------------ the operations *)

Theorem call_spec s sync dl : Inv s ->
  forall s' x, step s (OCall sync dl) = (s', x) ->
  (seqnum (oseq x) /\ ~ In (oseq x) (keys (pending s)) /\
   lookup (oseq x) (pending s') = Some (mkctx (ncalls s) sync dl) /\
   (forall k, k <> oseq x -> lookup k (pending s') = lookup k (pending s)) /\
   ocomps x = [] /\ expired s' = expired s)
  \/
  (oseq x = 0 /\ (forall k, seqnum k -> In k (keys (pending s))) /\
   pending s' = pending s /\ expired s' = expired s /\
   ocomps x = [complete (mkctx (ncalls s) sync dl) (errpkt codes_ResourceExhausted)]).
Proof.
  intros I s' x H. cbn [step] in H.
  destruct (probe fuel16 (counter s) (pending s)) as [seq|] eqn:P.
  - left. destruct (probe_some _ _ _ _ (i_counter _ I) P) as [Hs Hn].
    unfold call_with in H. inversion H; subst; clear H. simpl.
    rewrite remove_absent by exact Hn. rewrite Z.eqb_refl.
    split; [exact Hs|]. split; [exact Hn|]. split; [reflexivity|].
    split; [|split; reflexivity].
    intros k Hk. apply Z.eqb_neq in Hk. rewrite Hk. reflexivity.
  - right. unfold call_refused in H. inversion H; subst; clear H. simpl.
    split; [reflexivity|]. split; [apply (probe_none_full _ _ (i_counter _ I) P)|].
    split; [reflexivity|]. split; reflexivity.
Qed.

Theorem dispatch_spec s r c : Inv s -> lookup (rseq r) (pending s) = Some c ->
  forall s' x, step s (ODispatch r) = (s', x) ->
  ocomps x = [complete c r] /\ ores x = 0 /\
  lookup (rseq r) (pending s') = None /\
  (forall k, k <> rseq r -> lookup k (pending s') = lookup k (pending s)) /\
  expired s' = expired s.
Proof.
  intros I L s' x H. cbn [step] in H. rewrite L in H. inversion H; subst; clear H. simpl.
  split; [reflexivity|]. split; [reflexivity|]. split; [apply lookup_remove_same|].
  split; [intros k Hk; apply lookup_remove_other; exact Hk | reflexivity].
Qed.

Theorem unmatched_spec s r : lookup (rseq r) (pending s) = None ->
  step s (ODispatch r) = (s, mkout 0 1 []).
Proof. intros L. cbn [step]. rewrite L. reflexivity. Qed.

(* what a completion is: the waiter is released with the response packet itself; the callback
   gets the decoded reply, or the reply's error code, or InternalError if it does not decode *)
Theorem complete_spec c r :
  (csync c = true -> complete c r = mkcomp (cid c) 0 (rerr r) (rid r)) /\
  (csync c = false -> 0 < rerr r -> complete c r = mkcomp (cid c) 1 (rerr r) (-1)) /\
  (csync c = false -> rerr r <= 0 -> rdec r = true -> complete c r = mkcomp (cid c) 1 0 (rid r)) /\
  (csync c = false -> rerr r <= 0 -> rdec r = false -> complete c r = mkcomp (cid c) 1 codes_InternalError (-1)).
Proof.
  unfold complete. repeat split; intros; repeat match goal with H : _ = _ |- _ => rewrite H end;
  try reflexivity;
  destruct (0 <? rerr r) eqn:E; try reflexivity; try (apply Z.ltb_lt in E; lia); try (apply Z.ltb_ge in E; lia).
Qed.

Lemma count_cid_nodup (l : list ctx) c f : NoDup (cids l) -> In c l -> (forall c', kcid (f c') = cid c') ->
  length (filter (fun k => kcid k =? cid c) (map f l)) = 1%nat.
Proof.
  intros N Hin Hf. induction l as [|a l IH]; simpl in *; [tauto|]. inversion N; subst.
  rewrite Hf. destruct Hin as [->|Hin].
  - rewrite Z.eqb_refl. simpl. f_equal.
    assert (E : filter (fun k => kcid k =? cid c) (map f l) = []).
    { clear -H1 Hf. induction l as [|b l IH]; simpl; [reflexivity|]. rewrite Hf.
      destruct (cid b =? cid c) eqn:E; [apply Z.eqb_eq in E; exfalso; apply H1; simpl; left; exact E|].
      apply IH. intros H. apply H1. right. exact H. }
    rewrite E. reflexivity.
  - destruct (cid a =? cid c) eqn:E.
    + apply Z.eqb_eq in E. exfalso. apply H1. unfold cids. rewrite E. apply in_map. exact Hin.
    + apply IH; assumption.
Qed.

Theorem sweep_spec s now : Inv s ->
  forall s' x, step s (OSweep now) = (s', x) ->
  ocomps x = [] /\
  (forall k c, In (k, c) (pending s) -> cdl c < now -> In c (expired s') /\ lookup k (pending s') = None) /\
  (forall k c, In (k, c) (pending s) -> now <= cdl c -> lookup k (pending s') = Some c) /\
  (forall c, In c (expired s) -> In c (expired s')).
Proof.
  intros I s' x H. cbn [step] in H. inversion H; subst; clear H. simpl.
  split; [reflexivity|]. split; [|split].
  - intros k c Hin Hd. split.
    + apply in_or_app. right. apply in_map_iff. exists (k, c). split; [reflexivity|].
      apply filter_In. split; [exact Hin|]. unfold overdue. simpl. apply Z.ltb_lt. exact Hd.
    + apply lookup_None. intros Hk. unfold keys in Hk. apply in_map_iff in Hk. destruct Hk as [[k' c'] [Ek Hf]].
      simpl in Ek. subst k'. apply filter_In in Hf. destruct Hf as [Hin' Hov].
      pose proof (In_lookup _ _ _ (i_nodup _ I) Hin) as L1. pose proof (In_lookup _ _ _ (i_nodup _ I) Hin') as L2.
      assert (c' = c) by congruence. subst c'. unfold overdue in Hov. simpl in Hov.
      apply negb_true_iff in Hov. apply Z.ltb_ge in Hov. lia.
  - intros k c Hin Hd. apply In_lookup; [apply keys_filter_nodup; apply (i_nodup _ I)|].
    apply filter_In. split; [exact Hin|]. unfold overdue. simpl. apply negb_true_iff. apply Z.ltb_ge. exact Hd.
  - intros c Hin. apply in_or_app. left. exact Hin.
Qed.

Theorem reap_spec s c : Inv s -> In c (expired s) ->
  forall s' x, step s OReap = (s', x) ->
  expired s' = [] /\ pending s' = pending s /\ ores x = Z.of_nat (length (expired s)) /\
  In (complete c (errpkt codes_RequestTimeout)) (ocomps x) /\
  length (filter (fun k => kcid k =? cid c) (ocomps x)) = 1%nat.
Proof.
  intros I Hin s' x H. cbn [step] in H. inversion H; subst; clear H. simpl.
  split; [reflexivity|]. split; [reflexivity|]. split; [reflexivity|]. split.
  - apply (in_map (fun c0 => complete c0 (errpkt codes_RequestTimeout))). exact Hin.
  - apply count_cid_nodup; [|exact Hin | intros c'; apply complete_cid].
    pose proof (i_live _ I) as N. unfold live in N. clear -N.
    induction (cids (map snd (pending s))) as [|a l IH]; simpl in N; [apply NoDup_app_l in N; exact N|].
    inversion N; subst. apply IH. assumption.
Qed.

Theorem timeout_complete_spec c :
  complete c (errpkt codes_RequestTimeout) =
  mkcomp (cid c) (if csync c then 0 else 1) codes_RequestTimeout (-1).
Proof. unfold complete, errpkt, codes_RequestTimeout. simpl. destruct (csync c); reflexivity. Qed.

(* a response arriving after its call timed out matches nothing *)
Theorem late_spec s now k c r : Inv s -> In (k, c) (pending s) -> cdl c < now -> rseq r = k ->
  forall s1 x1, step s (OSweep now) = (s1, x1) ->
  step s1 (ODispatch r) = (s1, mkout 0 1 []).
Proof.
  intros I Hin Hd Hr s1 x1 H. apply unmatched_spec.
  destruct (sweep_spec _ _ I _ _ H) as [_ [P _]]. rewrite Hr. apply (P k c Hin Hd).
Qed.

(* ------------------------------------------------------------------ at most once, over whole histories *)

Lemma run_cids ops : forall s s' xs done, Inv s -> run s ops = (s', xs) ->
  NoDup (live s ++ done) -> (forall y, In y done -> 0 <= y < ncalls s) ->
  NoDup (live s' ++ map kcid (completions xs) ++ done).
Proof.
  induction ops as [|o ops IH]; intros s s' xs done I H N B; simpl in H.
  - inversion H; subst. simpl. exact N.
  - destruct (step s o) as [s1 x] eqn:E1. destruct (run s1 ops) as [s2 xs2] eqn:E2. inversion H; subst s' xs; clear H.
    destruct (step_cids _ _ _ _ I E1) as [fresh [Hf [Hn P]]].
    assert (N1 : NoDup (live s1 ++ map kcid (ocomps x) ++ done)).
    { rewrite app_assoc. apply (Permutation_NoDup (l := (fresh ++ live s) ++ done)).
      - apply Permutation_app_tail. symmetry. exact P.
      - destruct Hf as [->| ->]; simpl; [exact N|]. constructor; [|exact N].
        intros Hin. apply in_app_or in Hin. destruct Hin as [Hin|Hin];
        [pose proof (i_bound _ I _ Hin) | pose proof (B _ Hin)]; lia. }
    assert (B1 : forall y, In y (map kcid (ocomps x) ++ done) -> 0 <= y < ncalls s1).
    { intros y Hy. apply in_app_or in Hy. destruct Hy as [Hy|Hy].
      - assert (Hy' : In y (fresh ++ live s)) by (apply (Permutation_in y P); apply in_or_app; right; exact Hy).
        apply in_app_or in Hy'. destruct Hy' as [Hy'|Hy'].
        + destruct Hf as [->| ->]; simpl in Hy'; [tauto|]. destruct Hy' as [<-|[]].
          pose proof (i_ncalls _ I). simpl in Hn. lia.
        + pose proof (i_bound _ I _ Hy'). lia.
      - pose proof (B _ Hy). lia. }
    pose proof (IH s1 s2 xs2 _ (step_Inv _ _ _ _ I E1) E2 N1 B1) as R.
    unfold completions in *. simpl. rewrite map_app.
    apply (Permutation_NoDup (l := live s2 ++ map kcid (flat_map ocomps xs2) ++ map kcid (ocomps x) ++ done)); [|exact R].
    apply Permutation_app_head. rewrite !app_assoc. apply Permutation_app_tail. apply Permutation_app_comm.
Qed.

Theorem at_most_once c0 ops : u16 c0 ->
  NoDup (map kcid (completions (snd (run (init c0) ops)))).
Proof.
  intros H. destruct (run (init c0) ops) as [s xs] eqn:E. simpl.
  pose proof (run_cids ops (init c0) s xs [] (Inv_init c0 H) E) as R.
  assert (N0 : NoDup (live (init c0) ++ [])) by (unfold live; simpl; constructor).
  specialize (R N0 (fun y Hy => match Hy with end)).
  rewrite app_nil_r in R.
  clear -R. induction (live s) as [|a l IH]; simpl in R; [exact R|]. inversion R; subst. apply IH. assumption.
Qed.

(* sequence numbers over whole histories *)
Theorem seq_unique c0 ops : u16 c0 ->
  let s := fst (run (init c0) ops) in
  NoDup (keys (pending s)) /\ (forall k, In k (keys (pending s)) -> seqnum k).
Proof. intros H s. pose proof (reach_Inv c0 ops H) as I. split; [apply (i_nodup _ I) | apply (i_keys _ I)]. Qed.

(* ------------------------------------------------------------------ the two-phase operations *)

Theorem strip_spec s r : Inv s ->
  forall s' x, step s (OStrip r) = (s', x) ->
  ocomps x = [] /\ expired s' = expired s /\
  match lookup (rseq r) (pending s) with
  | Some c => ores x = 0 /\ inflight s' = inflight s ++ [(c, r)] /\
              lookup (rseq r) (pending s') = None /\
              (forall k, k <> rseq r -> lookup k (pending s') = lookup k (pending s))
  | None => ores x = 1 /\ s' = s
  end.
Proof.
  intros I s' x H. cbn [step] in H. destruct (lookup (rseq r) (pending s)) as [c|] eqn:L;
  inversion H; subst; clear H; simpl.
  - split; [reflexivity|]. split; [reflexivity|]. split; [reflexivity|]. split; [reflexivity|].
    split; [apply lookup_remove_same | intros k Hk; apply lookup_remove_other; exact Hk].
  - split; [reflexivity|]. split; [reflexivity|]. split; reflexivity.
Qed.

Theorem strip_reap_spec s :
  forall s' x, step s OStripReap = (s', x) ->
  ocomps x = [] /\ expired s' = [] /\ pending s' = pending s /\ ores x = Z.of_nat (length (expired s)) /\
  inflight s' = inflight s ++ map (fun c => (c, errpkt codes_RequestTimeout)) (expired s).
Proof. intros s' x H. cbn [step] in H. inversion H; subst; clear H. simpl. repeat split. Qed.

Theorem run_spec s k c r : nth_error (inflight s) k = Some (c, r) ->
  forall s' x, step s (ORun k) = (s', x) ->
  ocomps x = [complete c r] /\ pending s' = pending s /\ expired s' = expired s /\ counter s' = counter s /\
  inflight s' = firstn k (inflight s) ++ skipn (S k) (inflight s).
Proof. intros N s' x H. cbn [step] in H. rewrite N in H. inversion H; subst; clear H. simpl. repeat split. Qed.

(* the atomic Dispatch is "strip, then run" with nothing in between *)
Theorem dispatch_two_phase s r c : lookup (rseq r) (pending s) = Some c ->
  forall s1 x1 s2 x2,
  step s (OStrip r) = (s1, x1) -> step s1 (ORun (length (inflight s))) = (s2, x2) ->
  step s (ODispatch r) = (s2, mkout 0 0 (ocomps x1 ++ ocomps x2)).
Proof.
  intros L s1 x1 s2 x2 H1 H2. cbn [step] in *. rewrite L in *. inversion H1; subst; clear H1.
  cbn [inflight] in H2. rewrite nth_error_app2 in H2 by lia. rewrite Nat.sub_diag in H2. cbn [nth_error] in H2.
  assert (F : firstn (length (inflight s)) (inflight s ++ [(c, r)]) = inflight s).
  { rewrite firstn_app, firstn_all, Nat.sub_diag. simpl. apply app_nil_r. }
  assert (K : skipn (S (length (inflight s))) (inflight s ++ [(c, r)]) = []).
  { apply skipn_all2. rewrite app_length. simpl. lia. }
  rewrite F, K, app_nil_r in H2. inversion H2; subst; clear H2. reflexivity.
Qed.

(* ------------------------------------------------------------------ exactly once: the accounting *)

Definition ids (n : Z) : list Z := map Z.of_nat (seq 0 (Z.to_nat n)).

Lemma ids_succ n : 0 <= n -> ids (n + 1) = ids n ++ [n].
Proof.
  intros H. unfold ids. replace (Z.to_nat (n + 1)) with (S (Z.to_nat n)) by lia.
  rewrite seq_S, map_app. simpl. rewrite Z2Nat.id by exact H. reflexivity.
Qed.

Lemma ids_nodup n : NoDup (ids n).
Proof. unfold ids. apply FinFun.Injective_map_NoDup; [intros a b E; lia | apply seq_NoDup]. Qed.

Lemma run_account ops : forall s s' xs done, Inv s -> run s ops = (s', xs) ->
  Permutation (live s ++ done) (ids (ncalls s)) ->
  Permutation (live s' ++ map kcid (completions xs) ++ done) (ids (ncalls s')).
Proof.
  induction ops as [|o ops IH]; intros s s' xs done I H A; simpl in H.
  - inversion H; subst. simpl. exact A.
  - destruct (step s o) as [s1 x] eqn:E1. destruct (run s1 ops) as [s2 xs2] eqn:E2. inversion H; subst s' xs; clear H.
    destruct (step_cids _ _ _ _ I E1) as [fresh [Hf [Hn P]]].
    assert (A1 : Permutation (live s1 ++ (map kcid (ocomps x) ++ done)) (ids (ncalls s1))).
    { rewrite app_assoc. rewrite P. rewrite <- app_assoc. rewrite A.
      destruct Hf as [->| ->]; simpl in *.
      - replace (ncalls s1) with (ncalls s) by lia. reflexivity.
      - rewrite Hn. rewrite ids_succ by (apply (i_ncalls _ I)). apply Permutation_cons_append. }
    pose proof (IH s1 s2 xs2 _ (step_Inv _ _ _ _ I E1) E2 A1) as R.
    rewrite <- R. unfold completions. simpl. permz.
Qed.

(* every call ever made is, at any moment, either still to be completed (in the table, expired,
   or stripped with its completion pending) or has been completed — exactly once *)
Theorem exactly_once_accounting c0 ops : u16 c0 ->
  Permutation (live (fst (run (init c0) ops)) ++ map kcid (completions (snd (run (init c0) ops))))
              (ids (ncalls (fst (run (init c0) ops)))).
Proof.
  intros H. destruct (run (init c0) ops) as [s xs] eqn:E. simpl.
  pose proof (run_account ops (init c0) s xs [] (Inv_init c0 H) E) as R.
  rewrite !app_nil_r in R. apply R. unfold live, ids. simpl. constructor.
Qed.

Theorem all_completed_once c0 ops : u16 c0 ->
  let s := fst (run (init c0) ops) in
  pending s = [] -> expired s = [] -> inflight s = [] ->
  Permutation (map kcid (completions (snd (run (init c0) ops)))) (ids (ncalls s)).
Proof.
  intros H s Hp He Hi. pose proof (exactly_once_accounting c0 ops H) as R. fold s in R.
  unfold live in R. rewrite Hp, He, Hi in R. simpl in R. exact R.
Qed.

(* ------------------------------------------------------------------ late responses *)

Definition is_call (o : op) : bool := match o with OCall _ _ => true | _ => false end.

(* no call made during [ops] is given the sequence number k *)
Fixpoint avoids (k : Z) (s : st) (ops : list op) : Prop :=
  match ops with
  | [] => True
  | o :: r => (is_call o = true -> oseq (snd (step s o)) <> k) /\ avoids k (fst (step s o)) r
  end.

Lemma lookup_filter_none (f : Z * ctx -> bool) k p : lookup k p = None -> lookup k (filter f p) = None.
Proof. rewrite !lookup_None. intros H Hin. apply H. eapply keys_filter_sub; eauto. Qed.

Lemma lookup_remove_none j k p : lookup k p = None -> lookup k (remove j p) = None.
Proof.
  intros H. destruct (Z.eq_dec k j) as [->|Hne]; [apply lookup_remove_same|].
  rewrite lookup_remove_other by exact Hne. exact H.
Qed.

(* a number that is not in the table stays out of it as long as no call is given that number *)
Lemma unmatched_step s o k : lookup k (pending s) = None ->
  (is_call o = true -> oseq (snd (step s o)) <> k) -> lookup k (pending (fst (step s o))) = None.
Proof.
  intros L A. destruct o as [sync dl|r|now| |r| |n]; cbn [step] in *.
  - destruct (probe fuel16 (counter s) (pending s)) as [seq|] eqn:P; simpl in *.
    + specialize (A eq_refl). destruct (k =? seq) eqn:E; [apply Z.eqb_eq in E; congruence|].
      apply lookup_remove_none. exact L.
    + exact L.
  - destruct (lookup (rseq r) (pending s)); simpl; [apply lookup_remove_none|]; exact L.
  - simpl. apply lookup_filter_none. exact L.
  - exact L.
  - destruct (lookup (rseq r) (pending s)); simpl; [apply lookup_remove_none|]; exact L.
  - exact L.
  - destruct (nth_error (inflight s) n) as [[c r]|]; simpl; exact L.
Qed.

Lemma unmatched_run ops : forall s k, lookup k (pending s) = None -> avoids k s ops ->
  lookup k (pending (fst (run s ops))) = None.
Proof.
  induction ops as [|o ops IH]; intros s k L A; simpl; [exact L|].
  destruct A as [A1 A2]. pose proof (unmatched_step s o k L A1) as L1.
  destruct (step s o) as [s1 x] eqn:E1. simpl in *. specialize (IH s1 k L1 A2).
  destruct (run s1 ops) as [s2 xs]. simpl in *. exact IH.
Qed.

(* "a response arriving after that is treated as unmatched": from the sweep that found the call
   overdue onwards — while the call sits on the expired list, after ReapTimeout has completed it,
   whatever else happens in between — as long as no newer call has been given the same number *)
Theorem late_unmatched_general s now k c : Inv s -> In (k, c) (pending s) -> cdl c < now ->
  forall ops, avoids k (fst (step s (OSweep now))) ops ->
  forall r, rseq r = k ->
  let s2 := fst (run (fst (step s (OSweep now))) ops) in
  step s2 (ODispatch r) = (s2, mkout 0 1 []) /\ step s2 (OStrip r) = (s2, mkout 0 1 []).
Proof.
  intros I Hin Hd ops A r Hr s2.
  assert (L1 : lookup k (pending (fst (step s (OSweep now)))) = None).
  { destruct (step s (OSweep now)) as [s1 x1] eqn:E. destruct (sweep_spec _ _ I _ _ E) as [_ [P _]].
    simpl. apply (P k c Hin Hd). }
  pose proof (unmatched_run ops _ k L1 A) as L2. fold s2 in L2.
  cbn [step]. rewrite Hr, L2. split; reflexivity.
Qed.

(* ... and the limit of it: once a newer call HAS been given the number (possible only after the
   16-bit counter has gone round: 65535 further calls), the late response completes that newer call *)
Theorem late_hits_reissued s sync dl : Inv s ->
  forall s' x, step s (OCall sync dl) = (s', x) -> oseq x <> 0 ->
  forall r, rseq r = oseq x ->
  ocomps (snd (step s' (ODispatch r))) = [complete (mkctx (ncalls s) sync dl) r].
Proof.
  intros I s' x H Hz r Hr.
  destruct (call_spec s sync dl I s' x H) as [[_ [_ [L _]]]|[Z0 _]]; [|congruence].
  cbn [step]. rewrite Hr, L. reflexivity.
Qed.


(* ------------------------------------------------------------------ no time-out before the time-to-live is over *)

(* a call gets onto the expired list (and from there is completed with RequestTimeout) only by a
   sweep whose instant lies after the call's deadline *)
Definition swept_overdue (ops : list op) (c : ctx) : Prop := exists now, In (OSweep now) ops /\ cdl c < now.

Definition timed_out (s : st) : list ctx :=
  expired s ++ map fst (filter (fun e => (rid (snd e) =? -1) && (rerr (snd e) =? codes_RequestTimeout)) (inflight s)).

Lemma step_expired_origin s o c : In c (expired (fst (step s o))) ->
  In c (expired s) \/ exists now, o = OSweep now /\ cdl c < now.
Proof.
  destruct o as [sync dl|r|now| |r| |n]; cbn [step].
  - destruct (probe fuel16 (counter s) (pending s)); simpl; auto.
  - destruct (lookup (rseq r) (pending s)); simpl; auto.
  - simpl. intros H. apply in_app_or in H. destruct H as [H|H]; [left; exact H|].
    right. exists now. split; [reflexivity|].
    apply in_map_iff in H. destruct H as [[k c'] [E H]]. simpl in E. subst c'.
    apply filter_In in H. destruct H as [_ H]. unfold overdue in H. simpl in H. apply Z.ltb_lt in H. exact H.
  - simpl. tauto.
  - destruct (lookup (rseq r) (pending s)); simpl; auto.
  - simpl. tauto.
  - destruct (nth_error (inflight s) n) as [[c' r]|]; simpl; auto.
Qed.

Theorem expired_only_overdue ops : forall s c,
  In c (expired (fst (run s ops))) -> In c (expired s) \/ swept_overdue ops c.
Proof.
  induction ops as [|o ops IH]; intros s c H; simpl in H; [left; exact H|].
  destruct (step s o) as [s1 x] eqn:E1. destruct (run s1 ops) as [s2 xs] eqn:E2. simpl in H.
  assert (H2 : In c (expired (fst (run s1 ops)))) by (rewrite E2; exact H).
  destruct (IH s1 c H2) as [H1|[now [Hin Hd]]].
  - assert (H1' : In c (expired (fst (step s o)))) by (rewrite E1; exact H1).
    destruct (step_expired_origin s o c H1') as [H0|[now [-> Hd]]]; [left; exact H0|].
    right. exists now. split; [left; reflexivity | exact Hd].
  - right. exists now. split; [right; exact Hin | exact Hd].
Qed.

(* ... in particular from a fresh client: whatever ReapTimeout completes with the time-out code was
   found overdue by a sweep of this very history *)
Theorem timeout_only_when_overdue c0 ops c :
  In c (expired (fst (run (init c0) ops))) -> swept_overdue ops c.
Proof. intros H. destruct (expired_only_overdue ops (init c0) c H) as [H0|H0]; [simpl in H0; contradiction | exact H0]. Qed.
