(* C15 — correspondence.
   case     = ((c0 (op ...)) ((a b ((cid how code rid) ...)) ...))     one observation per op
   op       = (1 seq rid err dec (nested-op ...)) / (3 k (nested-op ...)): as (1 ...) / (3) below, and the
              harness issues the nested ops (Dispatch / sweep / ReapTimeout) from INSIDE the first / the
              k-th completion callback this op causes - events landing while a completion is in flight
              (another dispatcher thread, the reaper goroutine's sweep).  Their observations follow the
              op's own; (-9 0 ()) = not run because no such callback fired; (-8 0 comps) = the owner
              thread dead-locked inside this op (established from a goroutine dump).
            | (0 sync adj)          Call (sync = 1, on its own goroutine) / AsyncCall; adj = 0: the deadline
                                    the code computes (now + 60 s = 60000 in ms since the start of the
                                    history), else the deadline is placed at adj ms through the hook
            | (1 seq rid err dec)   Dispatch of response packet number rid: sequence number, error code
                                    (0 = a reply body), dec = 0 its command id is no registered message,
                                    1 the body is the marshalled reply, 2 the body is the reply object
                                    itself; the same (seq, rid) again = the same packet object again
            | (2 now)               the expiry sweep at start + now ms (hook VerifSweep)
            | (3)                   ReapTimeout()
            | (4 n)                 n times: AsyncCall, then Dispatch of a good reply to it (a macro: the
                                    model executes the 2n primitive operations)
   observed : a = sequence number of the request put on PendingQueue (call; last one for (4 n)),
              b = Dispatch: 0 nil / 1 error / 3 the error the completed call's callback returned;  ReapTimeout: its result;  (4 n): number of anomalies seen
              inside (a call not completed exactly once with its own reply, a zero or busy number),
              then the completions that happened during the op, sorted by call.
   A case ((c0) (-2 k what)) is the table-full scenario, evaluated by the harness itself: 65535 calls
   outstanding (all numbers distinct and non-zero), one more call is refused and completed once with
   ResourceExhausted, after one answer the freed number is the one chosen; k = 0 iff all of it held.
   A case ((2 ncallers per seed) (-3 k what)) is a concurrent run (callers on several goroutines, one
   owner answering / sweeping / reaping), also evaluated by the harness: k = 0 iff every call was
   completed exactly once, answered calls with their own reply, the others with RequestTimeout, and no
   two outstanding requests ever carried the same or a zero sequence number.
   Two walks over the history:
   - the model ([step], choosing sequence numbers itself) against the observations  -> VMismatch
   - the property: the same operations, but every call takes the sequence number the
     implementation was OBSERVED to use; the number must be non-zero and free, and from there
     on every observation must be what the statement demands                         -> VPropFail *)
From Coq Require Import ZArith List Bool.
From FV Require Import Lib.Sx Generated.Consts C15.Model.
Import ListNotations.
Open Scope Z_scope.

(* an op of the history: a primitive op, possibly with ops that the harness issues from inside the
   k-th completion callback this op causes (events landing while a completion is in flight) *)
Inductive hop := HPrim (o : op) (k : Z) (nested : list op) | HBurst (n : Z).

Definition natural_dl : Z := 60000.

Definition prim_of (s : sx) : option op :=
  match s with
  | SList [SInt 0; SInt sy; SInt adj] => Some (OCall (sy =? 1) (if adj =? 0 then natural_dl else adj))
  | SList [SInt 1; SInt seq; SInt rid; SInt err; SInt dec] => Some (ODispatch (mkresp seq rid err (negb (dec =? 0))))
  | SList [SInt 2; SInt now] => Some (OSweep now)
  | SList [SInt 3] => Some OReap
  | _ => None
  end.

Definition hop_of (s : sx) : option hop :=
  match s with
  | SList [SInt 1; SInt seq; SInt rid; SInt err; SInt dec; SList nested] =>
      match map_opt prim_of nested with
      | Some l => Some (HPrim (ODispatch (mkresp seq rid err (negb (dec =? 0)))) 1 l)
      | None => None
      end
  | SList [SInt 3; SInt k; SList nested] =>
      match map_opt prim_of nested with Some l => Some (HPrim OReap k l) | None => None end
  | SList [SInt 4; SInt n] => Some (HBurst n)
  | _ => match prim_of s with Some o => Some (HPrim o 0 []) | None => None end
  end.

Definition comp_of (s : sx) : option comp :=
  match s with
  | SList [SInt a; SInt b; SInt c; SInt d] => Some (mkcomp a b c d)
  | _ => None
  end.

Record obs := mkobs { oa : Z; ob : Z; oc : list comp }.
Definition obs_of (s : sx) : option obs :=
  match s with
  | SList [SInt a; SInt b; SList cs] =>
      match map_opt comp_of cs with Some cs => Some (mkobs a b cs) | None => None end
  | _ => None
  end.

Definition comp_eqb (x y : comp) : bool :=
  (kcid x =? kcid y) && (khow x =? khow y) && (kcode x =? kcode y) && (krid x =? krid y).
Fixpoint cinsert (x : comp) (l : list comp) : list comp :=
  match l with
  | [] => [x]
  | y :: r => if kcid x <=? kcid y then x :: l else y :: cinsert x r
  end.
Definition csort (l : list comp) : list comp := fold_right cinsert [] l.
Definition comps_eqb (a b : list comp) : bool := list_eqb comp_eqb (csort a) (csort b).

(* the macro: n times AsyncCall + Dispatch of a good reply; returns the last sequence number
   and the number of anomalies *)
Definition burst1 (x : st * Z * Z) : st * Z * Z :=
  let '(s, lastseq, bad) := x in
  let '(s1, o1) := step s (OCall false natural_dl) in
  let '(s2, o2) := step s1 (ODispatch (mkresp (oseq o1) (-2) 0 true)) in
  let good := negb (oseq o1 =? 0) && (ores o2 =? 0) &&
              list_eqb comp_eqb (ocomps o2) [mkcomp (ncalls s) 1 0 (-2)] && negb (has (oseq o1) (pending s)) in
  (s2, oseq o1, if good then bad else bad + 1).
Definition burst (s : st) (n : Z) : st * Z * Z := N.iter (Z.to_N n) burst1 (s, 0, 0).

Definition callbacks (cs : list comp) : Z := Z.of_nat (length (filter (fun c => khow c =? 1) cs)).
Definition not_run (b : obs) : bool := (oa b =? -9) && match oc b with [] => true | _ => false end.
Definition no_comps (b : obs) : bool := match oc b with [] => true | _ => false end.

(* what Dispatch returns: the callback's own error (3) if the completed call's callback fails - the
   harness lets the callbacks of the calls number 3, 8, 13, ... fail - else the model's answer *)
Definition exp_res (x : out) : Z :=
  if existsb (fun c => (khow c =? 1) && (kcid c mod 5 =? 3)) (ocomps x) then 3 else ores x.

(* ---- walk 1: the model ---- *)
Definition cmp_model (o : op) (x : out) (b : obs) : verdict :=
  vjoin (check_that (negb (oa b =? -9) && negb (oa b =? -8)) (VMismatch 4))
 (vjoin (check_that (match o with OCall _ _ => oseq x =? oa b | _ => true end) (VMismatch 1))
 (vjoin (check_that (match o with OCall _ _ => true | ODispatch _ => exp_res x =? ob b | _ => ores x =? ob b end) (VMismatch 2))
        (check_that (comps_eqb (ocomps x) (oc b)) (VMismatch 3)))).

(* the nested ops: executed (in order, right after the op that triggered them: a completion changes
   nothing in the client, all of its effect happened when the context was stripped) iff the
   triggering callback exists *)
Fixpoint nest_model (run : bool) (s : st) (nested : list op) (os : list obs) : st * verdict * list obs :=
  match nested, os with
  | [], _ => (s, VOk, os)
  | o :: r, b :: os' =>
      if run then
        let '(s', x) := step s o in
        let '(s2, v, rest) := nest_model run s' r os' in
        (s2, vjoin (cmp_model o x b) v, rest)
      else
        let '(s2, v, rest) := nest_model run s r os' in
        (s2, vjoin (check_that (not_run b) (VMismatch 4)) v, rest)
  | _ :: _, [] => (s, VBad, [])
  end.

Fixpoint walk_model (fuel : nat) (s : st) (ops : list hop) (os : list obs) : verdict :=
  match fuel with O => VBad | S fuel =>
  match ops, os with
  | [], [] => VOk
  | HPrim o k nested :: ops', b :: os' =>
      let '(s', x) := step s o in
      let '(s2, v, rest) := nest_model (match nested with [] => false | _ => k <=? callbacks (ocomps x) end)
                                       s' nested os' in
      vjoin (cmp_model o x b) (vjoin v (walk_model fuel s2 ops' rest))
  | HBurst n :: ops', b :: os' =>
      let '(s', lastseq, bad) := burst s n in
      vjoin (check_that (lastseq =? oa b) (VMismatch 1))
     (vjoin (check_that (bad =? ob b) (VMismatch 2))
            (walk_model fuel s' ops' os'))
  | _, _ => VBad
  end end.

(* ---- walk 2: the property on the implementation's own outputs ---- *)
Definition memz (x : Z) (l : list Z) : bool := existsb (Z.eqb x) l.
Fixpoint nodupz (l : list Z) : bool :=
  match l with [] => true | x :: r => negb (memz x r) && nodupz r end.

(* one primitive op against the statement; [swept]: sequence numbers whose call was moved to the
   expired list and not issued again.  Returns the next state, the next swept list, the expected
   number of callbacks and the verdict *)
Definition prop_one (s : st) (swept : list Z) (o : op) (b : obs) : st * list Z * Z * verdict :=
  match o with
  | OCall sync dl =>
      if oa b =? 0 then
        (* refused: only when every sequence number is taken; completed at once *)
        let '(s', x) := call_refused s sync dl in
        (s', swept, callbacks (ocomps x),
         vjoin (check_that (65535 <=? Z.of_nat (length (pending s))) (VPropFail 1))
               (check_that (comps_eqb (ocomps x) (oc b)) (VPropFail 3)))
      else
        let '(s', _) := call_with s sync dl (oa b) in
        (s', filter (fun z => negb (z =? oa b)) swept, 0,
         vjoin (check_that ((0 <? oa b) && (oa b <? 65536)) (VPropFail 1))
        (vjoin (check_that (negb (has (oa b) (pending s))) (VPropFail 2))
               (check_that (no_comps b) (VPropFail 7))))
  | ODispatch r =>
      let '(s', x) := step s o in
      let good := (exp_res x =? ob b) && comps_eqb (ocomps x) (oc b) in
      let code := if has (rseq r) (pending s) then 3%N
                  else if memz (rseq r) swept then 6%N else 4%N in
      (s', swept, callbacks (ocomps x), check_that good (VPropFail code))
  | OSweep now =>
      let '(s', x) := step s o in
      (s', swept ++ map fst (filter (overdue now) (pending s)), 0, check_that (no_comps b) (VPropFail 7))
  | OReap =>
      let '(s', x) := step s o in
      (s', swept, callbacks (ocomps x),
       check_that ((ores x =? ob b) && comps_eqb (ocomps x) (oc b)) (VPropFail 5))
  | _ => (s, swept, 0, VBad)     (* the two-phase ops are not issued by the harness *)
  end.

Fixpoint nest_prop (run : bool) (s : st) (swept : list Z) (nested : list op) (os : list obs)
  : st * list Z * verdict * list obs :=
  match nested, os with
  | [], _ => (s, swept, VOk, os)
  | o :: r, b :: os' =>
      if run then
        if oa b =? -9 then (s, swept, VPropFail 7, [])   (* the callback that should have run did not *)
        else
        let '(s', sw', _, v1) := prop_one s swept o b in
        let '(s2, sw2, v, rest) := nest_prop run s' sw' r os' in
        (s2, sw2, vjoin v1 v, rest)
      else
        let '(s2, sw2, v, rest) := nest_prop run s swept r os' in
        (* no callback was due: anything observed here is a completion that should not have happened *)
        (s2, sw2, vjoin (check_that (not_run b) (VPropFail 7)) v, rest)
  | _ :: _, [] => (s, swept, VBad, [])
  end.

Fixpoint walk_prop (fuel : nat) (s : st) (swept : list Z) (ops : list hop) (os : list obs) : verdict :=
  match fuel with O => VBad | S fuel =>
  match ops, os with
  | HPrim o k nested :: ops', b :: os' =>
      if oa b =? -9 then VBad else
      (* the owner thread dead-locked inside this op (goroutine dump: parked in the client's mutex
         which nobody else can hold): the calls it was about to complete are never completed *)
      if oa b =? -8 then VPropFail (match o with OReap => 5 | ODispatch _ => 3 | _ => 7 end)%N else
      let '(s', sw', ncb, v1) := prop_one s swept o b in
      let '(s2, sw2, v, rest) := nest_prop (match nested with [] => false | _ => k <=? ncb end) s' sw' nested os' in
      vjoin v1 (vjoin v (walk_prop fuel s2 sw2 ops' rest))
  | HBurst n :: ops', b :: os' =>
      vjoin (check_that ((ob b =? 0) && ((n =? 0) || negb (oa b =? 0))) (VPropFail 2))
            (walk_prop fuel (mkst (counter s) (pending s) (expired s) (inflight s) (ncalls s + n)) swept ops' os')
  | _, _ => VOk
  end end.

Definition check_history (c0 : Z) (ops os : list sx) : verdict :=
  match map_opt hop_of ops, map_opt obs_of os with
  | Some ops, Some os =>
      let fuel := S (length ops) in
      vjoin (walk_prop fuel (init c0) [] ops os)
     (vjoin (check_that (nodupz (map kcid (flat_map oc os))) (VPropFail 7))
            (walk_model fuel (init c0) ops os))
  | _, _ => VBad
  end.

Definition check (c : sx) : verdict :=
  match c with
  | SList [SList [SInt 7; SInt _]; SList [SInt (-6); SInt k; _]] =>
      (* the client's own reaper goroutine (Go(): 3 s ticker), evaluated on the Go side *)
      if (k =? 0) || (k =? 9) then VOk else if k =? 5 then VPropFail 5 else if k =? 3 then VPropFail 3 else VPropFail 7
  | SList [SList [SInt 8; SInt _; SInt _]; SList [SInt (-7); SInt k; _]] =>
      (* a responder answering blocking Calls the moment their request is queued (the completion may
         come before the caller has reached its receive), evaluated on the Go side; 12 = the caller
         is never released (goroutine dump) *)
      if (k =? 0) || (k =? 9) then VOk else VPropFail 3
  | SList [SList [SInt 6; SInt _; SInt _]; SList [SInt (-5); SInt k; _]] =>
      (* the time-to-live at sub-second resolution (sweeps just before / at / after issue instant + 60 s
         for calls issued at several phases of the wall clock), evaluated on the Go side *)
      if k =? 0 then VOk else if k =? 5 then VPropFail 5 else if k =? 3 then VPropFail 3 else VPropFail 7
  | SList [SList [SInt 3; SInt _; SInt _]; SList [SInt (-4); SInt k; _]] =>
      (* a sweep on its own goroutine racing a late response and a new call that is given the same
         number, evaluated on the Go side: k = 0 ok, else the sentence *)
      if k =? 0 then VOk else if k =? 5 then VPropFail 5 else if k =? 3 then VPropFail 3 else VPropFail 7
  | SList [SList [SInt c0; SList ops; SInt _]; SList os] =>
      (* request queue of another capacity (0: every call waits inside makeCall until its request is
         taken); the model has no queue: same walks *)
      match os with [SInt (-1)] => VOk | _ => check_history c0 ops os end
  | SList [SList [SInt 2; SInt _; SInt _; SInt _]; SList [SInt (-3); SInt k; _]] =>
      (* concurrent callers, evaluated on the Go side: k = 0 ok, 9 inconclusive, else the sentence *)
      if (k =? 0) || (k =? 9) then VOk
      else if k =? 1 then VPropFail 1 else if k =? 2 then VPropFail 2 else if k =? 3 then VPropFail 3
      else if k =? 5 then VPropFail 5 else VPropFail 7
  | SList [_; SList [SInt (-1)]] => VOk    (* inconclusive run: a blocking caller neither returned nor parked *)
  | SList [SList [SInt _]; SList [SInt (-2); SInt k; _]] =>
      (* all 65535 numbers outstanding: evaluated on the Go side (k = which check failed) *)
      (* 11: the refusal was delivered under the client's mutex: the re-entering callback never returns
         (goroutine dump); 9: inconclusive *)
      if (k =? 0) || (k =? 9) then VOk
      else if (k =? 2) || (k =? 8) || (k =? 10) || (k =? 11) || (k =? 12) then VPropFail 1 else VPropFail 2
  | SList [SList [SInt c0; SList ops]; SList os] =>
      match map_opt hop_of ops, map_opt obs_of os with
      | Some ops, Some os =>
          let fuel := S (length ops) in
          vjoin (walk_prop fuel (init c0) [] ops os)
         (vjoin (check_that (nodupz (map kcid (flat_map oc os))) (VPropFail 7))
                (walk_model fuel (init c0) ops os))
      | _, _ => VBad
      end
  | _ => VBad
  end.
