(* C15 — what of qnet/rpc.go and of the clock test it relies on is inside the subset of
   tools/gofunc, regenerated from the Go source on every run (Generated/Rpc.v) and proved equal
   to the corresponding pieces of the hand-written model (Model.v).

   rpc.go itself: every function body touches the map pendingCtx, a channel, an interface value
   (IPacket) or a pointer-typed context, so only the head of RpcClient.nextSeq ("nextSeq#prefix":
   `seq := c.counter`, the value the probe loop starts from) is translated.  The loop itself
   (seq++, skip 0, map lookup) stays tied by the hand-written Model.bump / Model.probe and the
   differential runs.

   The expiry test of the sweep, `now.After(ctx.deadline)` in RpcClient.reapTimeout, is
   time.Time.After of the Go standard library; After and the accessors sec / nsec it calls are
   translated from GOROOT/src/time/time.go.  A time.Time is the pair (wall, ext):
     * both operands carry a monotonic reading (bit 63 of wall; every value obtained from
       time.Now(), hence the ticker's `now` and time.Now().Add(time.Minute)): After compares the
       monotonic readings ext — exactly Model.overdue with the model's integer time = the
       monotonic reading in ns;
     * otherwise After compares (sec, nsec) lexicographically — exactly Model.overdue with the
       integer time sec*10^9 + nsec, for every pair of values whose nsec field is a valid
       nanosecond count (< 10^9, the invariant of time.Time).
   In both cases the comparison is strict: a sweep at exactly the deadline leaves the call alone. *)
From Coq Require Import ZArith List Bool Lia.
From FV Require Import Generated.Consts Generated.Rpc Lib.GoSem C15.Model.
Import ListNotations.
Local Open Scope Z_scope.

(* ---- RpcClient.nextSeq: the probe starts at the counter field ---- *)

Lemma src_nextSeq_start : forall s sync dl,
  exists v, go_RpcClient_nextSeq_prefix (counter s) = Reached v /\
    Model.step s (OCall sync dl) =
      match probe fuel16 v (pending s) with
      | Some seq => call_with s sync dl seq
      | None => call_refused s sync dl
      end.
Proof. intros. exists (counter s). split; reflexivity. Qed.

(* ---- time.Time.After ---- *)

Definition hasMonotonic : Z := 9223372036854775808.   (* 1 << 63 *)

(* both operands carry a monotonic reading: the condition exactly as time.go writes it *)
Definition both_mono (tw uw : Z) : Prop := Z.land (Z.land tw uw) hasMonotonic <> 0.

(* the same in terms of the two bits *)
Lemma land_pow2_63 x : Z.land x hasMonotonic = if Z.testbit x 63 then hasMonotonic else 0.
Proof.
  apply Z.bits_inj'. intros n Hn.
  rewrite Z.land_spec. change hasMonotonic with (2 ^ 63).
  rewrite Z.pow2_bits_eqb by lia.
  destruct (Z.eqb_spec 63 n) as [<-|Hne].
  - rewrite andb_true_r. destruct (Z.testbit x 63) eqn:E.
    + rewrite Z.pow2_bits_eqb by lia. reflexivity.
    + rewrite Z.bits_0. reflexivity.
  - rewrite andb_false_r. destruct (Z.testbit x 63).
    + rewrite Z.pow2_bits_eqb by lia. symmetry. apply Z.eqb_neq. exact Hne.
    + rewrite Z.bits_0. reflexivity.
Qed.

Lemma both_mono_bits tw uw :
  both_mono tw uw <-> Z.testbit tw 63 = true /\ Z.testbit uw 63 = true.
Proof.
  unfold both_mono. rewrite land_pow2_63, Z.land_spec.
  destruct (Z.testbit tw 63), (Z.testbit uw 63); cbn; unfold hasMonotonic; split; intros H;
    try (destruct H; discriminate); try (exfalso; apply H; reflexivity); try (split; reflexivity);
    try discriminate.
Qed.

(* the nanosecond field is a valid nanosecond count (invariant of time.Time) *)
Definition nsec_ok (w : Z) : Prop := go_time_Time_nsec w < 1000000000.

Lemma nsec_range w : 0 <= go_time_Time_nsec w < 1073741824 /\ go_time_Time_nsec w = Z.land w 1073741823.
Proof.
  unfold go_time_Time_nsec.
  change 1073741823 with (Z.ones 30). rewrite Z.land_ones by lia.
  assert (H := Z.mod_pos_bound w (2 ^ 30) ltac:(lia)).
  change (2 ^ 30) with 1073741824 in *.
  rewrite Z.mod_small by lia. lia.
Qed.

(* the model's integer time of a wall-clock value: nanoseconds since year 1 *)
Definition wall_ns (w e : Z) : Z := go_time_Time_sec w e * 1000000000 + go_time_Time_nsec w.

(* case 1: monotonic readings *)
Lemma src_after_monotonic : forall nw ne dw de k i sy,
  both_mono nw dw ->
  go_time_Time_After nw ne dw de = overdue ne (k, mkctx i sy de).
Proof.
  intros nw ne dw de k i sy H. unfold both_mono, hasMonotonic in H.
  unfold go_time_Time_After, overdue. cbn [snd cdl].
  apply Z.eqb_neq in H. rewrite H. cbn [negb].
  rewrite Z.gtb_ltb. reflexivity.
Qed.

(* case 2: wall-clock comparison *)
Lemma src_after_wall : forall nw ne dw de k i sy,
  ~ both_mono nw dw -> nsec_ok nw -> nsec_ok dw ->
  go_time_Time_After nw ne dw de = overdue (wall_ns nw ne) (k, mkctx i sy (wall_ns dw de)).
Proof.
  intros nw ne dw de k i sy H Hn Hd. unfold both_mono, hasMonotonic in H.
  unfold go_time_Time_After, overdue, wall_ns. cbn [snd cdl].
  assert (E : Z.land (Z.land nw dw) 9223372036854775808 =? 0 = true).
  { apply Z.eqb_eq. destruct (Z.eq_dec (Z.land (Z.land nw dw) 9223372036854775808) 0); [assumption | contradiction]. }
  rewrite E. cbn [negb]. cbv zeta.
  unfold nsec_ok in *.
  destruct (nsec_range nw) as [[Hn0 _] _]. destruct (nsec_range dw) as [[Hd0 _] _].
  set (ts := go_time_Time_sec nw ne) in *. set (us := go_time_Time_sec dw de) in *.
  set (tn := go_time_Time_nsec nw) in *. set (un := go_time_Time_nsec dw) in *.
  rewrite !Z.gtb_ltb.
  destruct (Z.ltb_spec us ts); destruct (Z.eqb_spec ts us); destruct (Z.ltb_spec un tn);
    cbn [orb andb]; symmetry; first [apply Z.ltb_lt; lia | apply Z.ltb_ge; lia].
Qed.

(* the test is strict, for every time value: a sweep at exactly the deadline expires nothing *)
Lemma src_after_strict : forall w e, go_time_Time_After w e w e = false.
Proof.
  intros. unfold go_time_Time_After. cbv zeta.
  rewrite !Z.gtb_ltb, !Z.ltb_irrefl.
  destruct (negb _); [reflexivity|]. cbn. rewrite andb_false_r. reflexivity.
Qed.

(* the sweep of the model keeps / expires exactly the entries time.Time.After says, when the
   instants are monotonic readings (wall words nw of `now` and dw of the deadlines carry bit 63) *)
Lemma src_sweep_after : forall s nw ne dw,
  both_mono nw dw ->
  pending (fst (Model.step s (OSweep ne))) =
    filter (fun e => negb (go_time_Time_After nw ne dw (cdl (snd e)))) (pending s) /\
  expired (fst (Model.step s (OSweep ne))) =
    expired s ++ map snd (filter (fun e => go_time_Time_After nw ne dw (cdl (snd e))) (pending s)).
Proof.
  intros s nw ne dw H. cbn [Model.step fst pending expired].
  assert (E : forall e : Z * ctx, go_time_Time_After nw ne dw (cdl (snd e)) = overdue ne e).
  { intros [k [i sy de]]. cbn [snd cdl]. apply src_after_monotonic. exact H. }
  split.
  - apply filter_ext. intros e. rewrite E. reflexivity.
  - f_equal. f_equal. apply filter_ext. intros e. rewrite E. reflexivity.
Qed.
