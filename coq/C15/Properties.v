(* C15 — every RPC is completed exactly once: by its own response or by a timeout. *)
From Coq Require Import ZArith List Bool.
From FV Require Import C15.Model C15.Proofs.
Import ListNotations.
Open Scope Z_scope.

Theorem c15_bump_nonzero : forall c, bump c <> 0.
Proof. exact bump_nonzero. Qed.
Print Assumptions c15_bump_nonzero.
