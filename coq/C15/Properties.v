(* C15 — Every RPC is completed exactly once: by its own response or by a timeout.
   Theorems over ALL histories = lists of the operations Call/AsyncCall, Dispatch, expiry sweep,
   ReapTimeout, and the two-phase forms of the last two: OStrip / OStripReap (the context is taken
   out of the table / the expired list under the mutex) and ORun k (its completion — notify +
   callback — runs later, outside the mutex).  Every access to the client's state is one of these
   atomic steps, so every interleaving of calls from many goroutines, responses in any order incl.
   duplicates and unknown numbers, sweeps at any time, and ANY operation landing while a completion
   is in flight (another dispatcher, the reaper goroutine, a callback calling back into the client)
   is such a list and ALL positions 0 <= c0 < 65536 of the 16-bit
   sequence counter (so also across its wrap).  [s] below is any reachable state.
   This file holds only the property theorems; each is closed by a lemma of Proofs.v. *)
From Coq Require Import ZArith List Bool.
From FV Require Import Generated.Consts C15.Model C15.Proofs C15.Reuse.
Import ListNotations.
Open Scope Z_scope.

Definition reachable (s : st) : Prop := exists c0 ops, u16 c0 /\ s = fst (run (init c0) ops).

Lemma reachable_Inv s : reachable s -> Inv s.
Proof. intros [c0 [ops [H ->]]]. apply reach_Inv. exact H. Qed.

(* "Each outstanding call is tagged with a non-zero sequence number different from that of every
   other outstanding call": a call either gets a number in 1..65535 that no pending call holds
   (and only its own table entry changes), or — only when all 65535 numbers are taken — is refused
   and completed at once with ResourceExhausted *)
Theorem c15_seq_nonzero_unique : forall s sync dl, reachable s ->
  forall s' x, step s (OCall sync dl) = (s', x) ->
  (seqnum (oseq x) /\ ~ In (oseq x) (keys (pending s)) /\
   lookup (oseq x) (pending s') = Some (mkctx (ncalls s) sync dl) /\
   (forall k, k <> oseq x -> lookup k (pending s') = lookup k (pending s)) /\
   ocomps x = [] /\ expired s' = expired s)
  \/
  (oseq x = 0 /\ (forall k, seqnum k -> In k (keys (pending s))) /\
   pending s' = pending s /\ expired s' = expired s /\
   ocomps x = [complete (mkctx (ncalls s) sync dl) (errpkt codes_ResourceExhausted)]).
Proof. intros s sync dl R. apply call_spec. apply reachable_Inv. exact R. Qed.
Print Assumptions c15_seq_nonzero_unique.

(* ... as a fact about every reachable pending table *)
Theorem c15_seq_unique : forall c0 ops, u16 c0 ->
  let s := fst (run (init c0) ops) in
  NoDup (keys (pending s)) /\ (forall k, In k (keys (pending s)) -> seqnum k).
Proof. exact seq_unique. Qed.
Print Assumptions c15_seq_unique.

(* "a response is matched to the call with the same sequence number and completes it exactly
   once ... " : one completion, of that call, with that packet; the entry is gone, others untouched *)
Theorem c15_dispatch_once : forall s r c, reachable s -> lookup (rseq r) (pending s) = Some c ->
  forall s' x, step s (ODispatch r) = (s', x) ->
  ocomps x = [complete c r] /\ ores x = 0 /\
  lookup (rseq r) (pending s') = None /\
  (forall k, k <> rseq r -> lookup k (pending s') = lookup k (pending s)) /\
  expired s' = expired s.
Proof. intros s r c R. apply dispatch_spec. apply reachable_Inv. exact R. Qed.
Print Assumptions c15_dispatch_once.

(* "... a blocking caller is released with that response, an asynchronous callback runs once with
   the decoded reply or with the reply's error code" *)
Theorem c15_completion_content : forall c r,
  (csync c = true -> complete c r = mkcomp (cid c) 0 (rerr r) (rid r)) /\
  (csync c = false -> 0 < rerr r -> complete c r = mkcomp (cid c) 1 (rerr r) (-1)) /\
  (csync c = false -> rerr r <= 0 -> rdec r = true -> complete c r = mkcomp (cid c) 1 0 (rid r)) /\
  (csync c = false -> rerr r <= 0 -> rdec r = false -> complete c r = mkcomp (cid c) 1 codes_InternalError (-1)).
Proof. exact complete_spec. Qed.
Print Assumptions c15_completion_content.

(* "a response matching no outstanding call is reported as an error and completes nothing" *)
Theorem c15_unmatched : forall s r, lookup (rseq r) (pending s) = None ->
  step s (ODispatch r) = (s, mkout 0 1 []).
Proof. exact unmatched_spec. Qed.
Print Assumptions c15_unmatched.

(* "A call left unanswered past its time-to-live is completed exactly once with the
   request-timeout code": the sweep moves exactly the overdue calls to the expired list (and
   completes nothing itself); the next ReapTimeout completes each of them once *)
Theorem c15_timeout_sweep : forall s now, reachable s ->
  forall s' x, step s (OSweep now) = (s', x) ->
  ocomps x = [] /\
  (forall k c, In (k, c) (pending s) -> cdl c < now -> In c (expired s') /\ lookup k (pending s') = None) /\
  (forall k c, In (k, c) (pending s) -> now <= cdl c -> lookup k (pending s') = Some c) /\
  (forall c, In c (expired s) -> In c (expired s')).
Proof. intros s now R. apply sweep_spec. apply reachable_Inv. exact R. Qed.
Print Assumptions c15_timeout_sweep.

Theorem c15_timeout_once : forall s c, reachable s -> In c (expired s) ->
  forall s' x, step s OReap = (s', x) ->
  expired s' = [] /\ pending s' = pending s /\ ores x = Z.of_nat (length (expired s)) /\
  In (complete c (errpkt codes_RequestTimeout)) (ocomps x) /\
  length (filter (fun k => kcid k =? cid c) (ocomps x)) = 1%nat /\
  complete c (errpkt codes_RequestTimeout) = mkcomp (cid c) (if csync c then 0 else 1) codes_RequestTimeout (-1).
Proof.
  intros s c R Hin s' x H. destruct (reap_spec s c (reachable_Inv s R) Hin s' x H) as [A [B [C [D E]]]].
  repeat (split; [assumption|]). apply timeout_complete_spec.
Qed.
Print Assumptions c15_timeout_once.

(* "and a response arriving after that is treated as unmatched" *)
Theorem c15_late_unmatched : forall s now k c r, reachable s ->
  In (k, c) (pending s) -> cdl c < now -> rseq r = k ->
  forall s1 x1, step s (OSweep now) = (s1, x1) ->
  step s1 (ODispatch r) = (s1, mkout 0 1 []).
Proof. intros s now k c r R. apply late_spec. apply reachable_Inv. exact R. Qed.
Print Assumptions c15_late_unmatched.

(* the two-phase forms: what happens under the mutex, and what the completion does later *)
Theorem c15_strip : forall s r, reachable s ->
  forall s' x, step s (OStrip r) = (s', x) ->
  ocomps x = [] /\ expired s' = expired s /\
  match lookup (rseq r) (pending s) with
  | Some c => ores x = 0 /\ inflight s' = inflight s ++ [(c, r)] /\
              lookup (rseq r) (pending s') = None /\
              (forall k, k <> rseq r -> lookup k (pending s') = lookup k (pending s))
  | None => ores x = 1 /\ s' = s
  end.
Proof. intros s r R. apply strip_spec. apply reachable_Inv. exact R. Qed.
Print Assumptions c15_strip.

Theorem c15_strip_reap : forall s s' x, step s OStripReap = (s', x) ->
  ocomps x = [] /\ expired s' = [] /\ pending s' = pending s /\ ores x = Z.of_nat (length (expired s)) /\
  inflight s' = inflight s ++ map (fun c => (c, errpkt codes_RequestTimeout)) (expired s).
Proof. exact strip_reap_spec. Qed.
Print Assumptions c15_strip_reap.

Theorem c15_run : forall s k c r, nth_error (inflight s) k = Some (c, r) ->
  forall s' x, step s (ORun k) = (s', x) ->
  ocomps x = [complete c r] /\ pending s' = pending s /\ expired s' = expired s /\ counter s' = counter s /\
  inflight s' = firstn k (inflight s) ++ skipn (S k) (inflight s).
Proof. exact run_spec. Qed.
Print Assumptions c15_run.

(* the atomic Dispatch is exactly "strip, then run" with nothing in between *)
Theorem c15_dispatch_two_phase : forall s r c, lookup (rseq r) (pending s) = Some c ->
  forall s1 x1 s2 x2,
  step s (OStrip r) = (s1, x1) -> step s1 (ORun (length (inflight s))) = (s2, x2) ->
  step s (ODispatch r) = (s2, mkout 0 0 (ocomps x1 ++ ocomps x2)).
Proof. exact dispatch_two_phase. Qed.
Print Assumptions c15_dispatch_two_phase.

(* EXACTLY once, over every history of coarse and two-phase operations: at any moment the calls
   made so far (0 .. ncalls-1) are, as a multiset, the calls still to be completed (in the table,
   on the expired list, or stripped with the completion still to run) plus the completed ones *)
Theorem c15_exactly_once : forall c0 ops, u16 c0 ->
  Permutation.Permutation
    (live (fst (run (init c0) ops)) ++ map kcid (completions (snd (run (init c0) ops))))
    (ids (ncalls (fst (run (init c0) ops)))).
Proof. exact exactly_once_accounting. Qed.
Print Assumptions c15_exactly_once.

(* ... so once nothing is outstanding every call has been completed exactly once *)
Theorem c15_all_completed_once : forall c0 ops, u16 c0 ->
  let s := fst (run (init c0) ops) in
  pending s = [] -> expired s = [] -> inflight s = [] ->
  Permutation.Permutation (map kcid (completions (snd (run (init c0) ops)))) (ids (ncalls s)).
Proof. exact all_completed_once. Qed.
Print Assumptions c15_all_completed_once.

(* ... the same from the sweep onwards: while the call sits on the expired list, after ReapTimeout
   has completed it, whatever operations (coarse or two-phase) happen in between — as long as no
   newer call has been given the same number ([avoids]) *)
Theorem c15_late_unmatched_general : forall s now k c, reachable s ->
  In (k, c) (pending s) -> cdl c < now ->
  forall ops, avoids k (fst (step s (OSweep now))) ops ->
  forall r, rseq r = k ->
  let s2 := fst (run (fst (step s (OSweep now))) ops) in
  step s2 (ODispatch r) = (s2, mkout 0 1 []) /\ step s2 (OStrip r) = (s2, mkout 0 1 []).
Proof. intros s now k c R. apply late_unmatched_general. apply reachable_Inv. exact R. Qed.
Print Assumptions c15_late_unmatched_general.

(* the limit of it, as a theorem: once a newer call HAS been given the number, a (late) response
   with that number completes the newer call ... *)
Theorem c15_late_hits_reissued : forall s sync dl, reachable s ->
  forall s' x, step s (OCall sync dl) = (s', x) -> oseq x <> 0 ->
  forall r, rseq r = oseq x ->
  ocomps (snd (step s' (ODispatch r))) = [complete (mkctx (ncalls s) sync dl) r].
Proof. intros s sync dl R. apply late_hits_reissued. apply reachable_Inv. exact R. Qed.
Print Assumptions c15_late_hits_reissued.

(* ... and this does happen, but only after the 16-bit counter has gone once round: a history in
   which call 0 (number 1) times out and is completed, 65534 further calls are made and answered,
   and the next call is given number 1 again — the late response to call 0 completes call 65535 *)
Theorem c15_reuse_after_wrap :
  let s := fst (run (init 0) reuse_ops) in
  let outs := snd (run (init 0) reuse_ops) in
  firstn 3 outs = [mkout 1 0 []; mkout 0 0 []; mkout 0 1 [mkcomp 0 1 codes_RequestTimeout (-1)]] /\
  pending s = [] /\ ncalls s = 65535 /\
  forall r, rseq r = 1 ->
    ocomps (snd (step (fst (step s (OCall false 1000000))) (ODispatch r))) =
    [complete (mkctx 65535 false 1000000) r].
Proof. exact reuse_happens. Qed.
Print Assumptions c15_reuse_after_wrap.

(* what must NOT happen: a time-out before the time-to-live is over.  A call is on the expired list
   (the only place ReapTimeout completes from) only if a sweep of this very history ran at an instant
   after the call's deadline *)
Theorem c15_timeout_only_when_overdue : forall c0 ops c,
  In c (expired (fst (run (init c0) ops))) -> swept_overdue ops c.
Proof. exact timeout_only_when_overdue. Qed.
Print Assumptions c15_timeout_only_when_overdue.

(* over any history no call is completed twice *)
Theorem c15_at_most_once : forall c0 ops, u16 c0 ->
  NoDup (map kcid (completions (snd (run (init c0) ops)))).
Proof. exact at_most_once. Qed.
Print Assumptions c15_at_most_once.

(* non-vacuity: the counter stands at 65534; three calls get 65535, 1, 2 (0 is skipped); the first is
   answered, the second times out (sweep at 61000 > 60000) and its late answer is unmatched, the
   third — made with a later deadline — survives the sweep *)
Definition ex_ops : list op :=
  [OCall true 60000; OCall false 60000; OCall false 90000;
   ODispatch (mkresp 65535 7 0 true); OSweep 61000; OReap;
   ODispatch (mkresp 1 8 0 true)].

Example c15_example :
  map oseq (firstn 3 (snd (run (init 65534) ex_ops))) = [65535; 1; 2] /\
  completions (snd (run (init 65534) ex_ops)) = [mkcomp 0 0 0 7; mkcomp 1 1 codes_RequestTimeout (-1)] /\
  map ores (snd (run (init 65534) ex_ops)) = [0; 0; 0; 0; 0; 1; 1] /\
  keys (pending (fst (run (init 65534) ex_ops))) = [2].
Proof. vm_compute. repeat split. Qed.

(* a duplicate of response 7 and a sweep land between the strip and the completion of call 0:
   the duplicate is unmatched, the sweep cannot touch the stripped call, it is completed once *)
Definition ex_ops2 : list op :=
  [OCall false 60000; OStrip (mkresp 1 7 0 true); ODispatch (mkresp 1 70 0 true); OSweep 100000; OReap; ORun 0].
Example c15_example_two_phase :
  completions (snd (run (init 0) ex_ops2)) = [mkcomp 0 1 0 7] /\
  map ores (snd (run (init 0) ex_ops2)) = [0; 0; 1; 0; 0; 0].
Proof. vm_compute. split; reflexivity. Qed.

(* in the example history call 1 (deadline 60000) is on the expired list after the sweep at 61000 *)
Example c15_example_overdue :
  expired (fst (run (init 65534) (firstn 5 ex_ops))) = [mkctx 1 false 60000] /\
  swept_overdue (firstn 5 ex_ops) (mkctx 1 false 60000).
Proof. split; [vm_compute; reflexivity|]. exists 61000. split; [simpl; tauto | reflexivity]. Qed.

Example c15_example_reachable : reachable (fst (run (init 65534) ex_ops)).
Proof. exists 65534, ex_ops. split; [unfold u16; split; [discriminate | reflexivity] | reflexivity]. Qed.

(* ---- source tie (tools/gofunc): Generated/Rpc.v is regenerated from qnet/rpc.go and from
   GOROOT/src/time/time.go on every run; C15/SourceRpc.v proves the model's pieces equal to it.
   rpc.go itself is almost entirely outside the translator's subset (map, channel, interface and
   pointer-typed values in every body): only the head of nextSeq is translated.  The sweep's
   expiry test now.After(ctx.deadline) is time.Time.After, translated with its accessors. ---- *)
From FV Require Lib.GoSem.
From FV Require Import Generated.Rpc C15.SourceRpc.

(* nextSeq starts probing from the counter field: a Call step of the model is the probe from the
   value the translated head of nextSeq reaches *)
Theorem c15_src_nextseq_start : forall s sync dl,
  exists v, go_RpcClient_nextSeq_prefix (counter s) = Lib.GoSem.Reached v /\
    Model.step s (OCall sync dl) =
      match probe fuel16 v (pending s) with
      | Some seq => call_with s sync dl seq
      | None => call_refused s sync dl
      end.
Proof. exact src_nextSeq_start. Qed.
Print Assumptions c15_src_nextseq_start.

(* both instants carry a monotonic reading (t.wall & u.wall & hasMonotonic != 0, i.e. bit 63 of both
   wall words: every value that comes from time.Now(), so the ticker's `now` and the deadline
   time.Now().Add(time.Minute)): time.Time.After(now, deadline) IS the model's `overdue` on the
   monotonic readings *)
Theorem c15_src_after_monotonic : forall nw ne dw de k i sy,
  both_mono nw dw ->
  go_time_Time_After nw ne dw de = overdue ne (k, mkctx i sy de).
Proof. exact src_after_monotonic. Qed.
Print Assumptions c15_src_after_monotonic.

Theorem c15_src_both_mono_bits : forall tw uw,
  both_mono tw uw <-> Z.testbit tw 63 = true /\ Z.testbit uw 63 = true.
Proof. exact both_mono_bits. Qed.
Print Assumptions c15_src_both_mono_bits.

(* otherwise After compares wall-clock (sec, nsec): the model's `overdue` on sec*10^9 + nsec, for all
   values whose nanosecond field is below 10^9 *)
Theorem c15_src_after_wall : forall nw ne dw de k i sy,
  ~ both_mono nw dw -> nsec_ok nw -> nsec_ok dw ->
  go_time_Time_After nw ne dw de = overdue (wall_ns nw ne) (k, mkctx i sy (wall_ns dw de)).
Proof. exact src_after_wall. Qed.
Print Assumptions c15_src_after_wall.

(* strict for every time value: a sweep at exactly the deadline expires nothing *)
Theorem c15_src_after_strict : forall w e, go_time_Time_After w e w e = false.
Proof. exact src_after_strict. Qed.
Print Assumptions c15_src_after_strict.

(* the model's sweep keeps / moves to the expired list exactly the entries time.Time.After selects *)
Theorem c15_src_sweep_after : forall s nw ne dw,
  both_mono nw dw ->
  pending (fst (Model.step s (OSweep ne))) =
    filter (fun e => negb (go_time_Time_After nw ne dw (cdl (snd e)))) (pending s) /\
  expired (fst (Model.step s (OSweep ne))) =
    expired s ++ map snd (filter (fun e => go_time_Time_After nw ne dw (cdl (snd e))) (pending s)).
Proof. exact src_sweep_after. Qed.
Print Assumptions c15_src_sweep_after.

(* a monotonic `now` one nanosecond past / exactly at / before a monotonic deadline; a wall-clock pair
   decided by the nanosecond field *)
Example c15_example_src_after :
  go_time_Time_After 9223372036854775808 60000000001 9223372036854775808 60000000000 = true /\
  go_time_Time_After 9223372036854775808 60000000000 9223372036854775808 60000000000 = false /\
  go_time_Time_After 9223372036854775808 59999999999 9223372036854775808 60000000000 = false /\
  go_time_Time_After 500 63800000000 499 63800000000 = true /\
  go_time_Time_After 499 63800000001 500 63800000001 = false.
Proof. vm_compute. repeat split. Qed.
