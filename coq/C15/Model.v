(* C15 — the RPC client (qnet/rpc.go).  Executable model; nothing is proved in this file.

   Every access to the counter, the pending table and the expired list happens under the one
   mutex `guard` (makeCall, stripRpcContext, stripExpired, reapTimeout), and the completions
   (RpcContext.run) are made by the thread that stripped the context; so each of
   Call/AsyncCall, Dispatch, the expiry sweep and ReapTimeout is one atomic operation and
   "all interleavings of calls from many goroutines, responses and sweeps" = all lists of [op].

   Times are integers (any unit); a call's deadline is fixed when it is made.
   Codes come from the regenerated Consts.v. *)
From Coq Require Import ZArith List Bool.
From FV Require Import Generated.Consts.
Import ListNotations.
Open Scope Z_scope.

Record ctx := mkctx {
  cid : Z;          (* identity of the call (ghost: the n-th call made) *)
  csync : bool;     (* Call (a waiter on `done`) / AsyncCall (a callback) *)
  cdl : Z           (* deadline *)
}.

(* a response packet handed to Dispatch *)
Record resp := mkresp {
  rseq : Z;         (* pkt.Seq() *)
  rid : Z;          (* identity of the packet / of the reply it carries *)
  rerr : Z;         (* pkt.Errno(): the code put there by SetErrno, 0 without the error flag *)
  rdec : bool       (* pkt.Decode() succeeds *)
}.

Inductive op :=
| OCall (sync : bool) (dl : Z)     (* Call / AsyncCall: makeCall with this deadline *)
| ODispatch (r : resp)             (* Dispatch(pkt) *)
| OSweep (now : Z)                 (* reapTimeout(now) *)
| OReap                            (* ReapTimeout() *)
(* the same two in two phases: the context is stripped under the mutex (one atomic step); the
   completion (RpcContext.run: notify + callback) happens later, outside the mutex, on the thread
   that stripped it — so any other operation can land in between (another dispatcher, the reaper
   goroutine's sweep, calls made by the callback itself) *)
| OStrip (r : resp)                (* Dispatch: stripRpcContext only *)
| OStripReap                       (* ReapTimeout: stripExpired only *)
| ORun (k : nat).                  (* the k-th stripped, not yet completed context is completed *)

(* one completion of a call: how = 0 the waiter was released with packet [krid] whose Errno is
   [kcode]; how = 1 the callback ran with code [kcode] and, when the code is 0, the decoded
   reply of packet [krid] (otherwise a nil message, krid = -1) *)
Record comp := mkcomp { kcid : Z; khow : Z; kcode : Z; krid : Z }.

Record st := mkst {
  counter : Z;                     (* uint16 *)
  pending : list (Z * ctx);        (* pendingCtx: seq -> ctx *)
  expired : list ctx;
  inflight : list (ctx * resp);    (* stripped by a Dispatch / ReapTimeout in progress, completion still to run *)
  ncalls : Z                       (* ghost: calls made so far *)
}.

(* what an operation returns / causes *)
Record out := mkout {
  oseq : Z;                        (* OCall: the sequence number put on the request, 0 = call refused *)
  ores : Z;                        (* ODispatch: 0 nil, 1 "rpc context not found"; OReap: n *)
  ocomps : list comp
}.

Definition init (c0 : Z) : st := mkst c0 [] [] [] 0.

Fixpoint lookup (k : Z) (l : list (Z * ctx)) : option ctx :=
  match l with
  | [] => None
  | (k', v) :: r => if k =? k' then Some v else lookup k r
  end.
Fixpoint remove (k : Z) (l : list (Z * ctx)) : list (Z * ctx) :=
  match l with
  | [] => []
  | (k', v) :: r => if k =? k' then remove k r else (k', v) :: remove k r
  end.
Definition has (k : Z) (l : list (Z * ctx)) : bool :=
  match lookup k l with Some _ => true | None => false end.

(* counter++; if counter == 0 { counter++ }   on a uint16 *)
Definition bump (c : Z) : Z :=
  let c1 := (c + 1) mod 65536 in if c1 =? 0 then 1 else c1.

(* advance until a non-zero value absent from the table; at most 65535 probes *)
Fixpoint probe (fuel : nat) (c : Z) (p : list (Z * ctx)) : option Z :=
  match fuel with
  | O => None
  | S f => let c' := bump c in if has c' p then probe f c' p else Some c'
  end.
Definition fuel16 : nat := Z.to_nat 65535.

(* RpcContext.run(pkt) *)
Definition complete (c : ctx) (r : resp) : comp :=
  if csync c then mkcomp (cid c) 0 (rerr r) (rid r)
  else if 0 <? rerr r then mkcomp (cid c) 1 (rerr r) (-1)
  else if rdec r then mkcomp (cid c) 1 0 (rid r)
  else mkcomp (cid c) 1 codes_InternalError (-1).

(* the packet ReapTimeout / a refused makeCall builds: packet.Make() + SetErrno(code) *)
Definition errpkt (code : Z) : resp := mkresp 0 (-1) code false.

(* makeCall once the sequence number is chosen *)
Definition call_with (s : st) (sync : bool) (dl : Z) (seq : Z) : st * out :=
  let c := mkctx (ncalls s) sync dl in
  (mkst seq ((seq, c) :: remove seq (pending s)) (expired s) (inflight s) (ncalls s + 1), mkout seq 0 []).

(* no free sequence number: the call is completed at once with ResourceExhausted *)
Definition call_refused (s : st) (sync : bool) (dl : Z) : st * out :=
  let c := mkctx (ncalls s) sync dl in
  (mkst (counter s) (pending s) (expired s) (inflight s) (ncalls s + 1),
   mkout 0 0 [complete c (errpkt codes_ResourceExhausted)]).

Definition overdue (now : Z) (e : Z * ctx) : bool := cdl (snd e) <? now.   (* now.After(deadline) *)

Definition step (s : st) (o : op) : st * out :=
  match o with
  | OCall sync dl =>
      match probe fuel16 (counter s) (pending s) with
      | Some seq => call_with s sync dl seq
      | None => call_refused s sync dl
      end
  | ODispatch r =>
      match lookup (rseq r) (pending s) with
      | Some c => (mkst (counter s) (remove (rseq r) (pending s)) (expired s) (inflight s) (ncalls s),
                   mkout 0 0 [complete c r])
      | None => (s, mkout 0 1 [])
      end
  | OSweep now =>
      (mkst (counter s) (filter (fun e => negb (overdue now e)) (pending s))
            (expired s ++ map snd (filter (overdue now) (pending s))) (inflight s) (ncalls s),
       mkout 0 0 [])
  | OReap =>
      (mkst (counter s) (pending s) [] (inflight s) (ncalls s),
       mkout 0 (Z.of_nat (length (expired s)))
             (map (fun c => complete c (errpkt codes_RequestTimeout)) (expired s)))
  | OStrip r =>
      match lookup (rseq r) (pending s) with
      | Some c => (mkst (counter s) (remove (rseq r) (pending s)) (expired s) (inflight s ++ [(c, r)]) (ncalls s),
                   mkout 0 0 [])
      | None => (s, mkout 0 1 [])
      end
  | OStripReap =>
      (mkst (counter s) (pending s) []
            (inflight s ++ map (fun c => (c, errpkt codes_RequestTimeout)) (expired s)) (ncalls s),
       mkout 0 (Z.of_nat (length (expired s))) [])
  | ORun k =>
      match nth_error (inflight s) k with
      | Some (c, r) => (mkst (counter s) (pending s) (expired s)
                             (firstn k (inflight s) ++ skipn (S k) (inflight s)) (ncalls s),
                        mkout 0 0 [complete c r])
      | None => (s, mkout 0 1 [])
      end
  end.

Fixpoint run (s : st) (ops : list op) : st * list out :=
  match ops with
  | [] => (s, [])
  | o :: r => let '(s1, x) := step s o in let '(s2, xs) := run s1 r in (s2, x :: xs)
  end.

Definition completions (outs : list out) : list comp := flat_map ocomps outs.
