(* C15 — the limit of "a late response is unmatched" is real: a concrete history in which the
   number of a timed-out call is given to a newer call (the counter goes once round). *)
From Coq Require Import ZArith List Bool Lia.
From FV Require Import Generated.Consts C15.Model C15.Proofs.
Import ListNotations.
Open Scope Z_scope.

(* the limit is real: a concrete history in which the number of a timed-out call is given to a
   newer call — the counter has to go once round, i.e. 65535 further calls *)
Fixpoint ops_rounds (n : nat) (c : Z) : list op :=
  match n with
  | O => []
  | S m => OCall false 1000000 :: ODispatch (mkresp (bump c) 0 0 true) :: ops_rounds m (bump c)
  end.

Lemma fuel16_succ : exists f, fuel16 = S f.
Proof. exists (Z.to_nat 65534). Transparent fuel16. unfold fuel16. Opaque fuel16. lia. Qed.

Lemma probe_empty c : probe fuel16 c [] = Some (bump c).
Proof. destruct fuel16_succ as [f ->]. reflexivity. Qed.

Lemma run_cons_fst s o r : fst (run s (o :: r)) = fst (run (fst (step s o)) r).
Proof. simpl. destruct (step s o) as [s1 x]. simpl. destruct (run s1 r) as [s2 xs]. reflexivity. Qed.

Lemma round_state s c : pending s = [] -> counter s = c ->
  fst (step (fst (step s (OCall false 1000000))) (ODispatch (mkresp (bump c) 0 0 true))) =
  mkst (bump c) [] (expired s) (inflight s) (ncalls s + 1).
Proof.
  intros Hp Hc. cbn [step]. rewrite Hp, Hc, probe_empty. unfold call_with. cbn [fst step pending lookup rseq].
  rewrite Z.eqb_refl. cbn [remove fst counter pending expired inflight ncalls]. rewrite Z.eqb_refl.
  rewrite Hp. reflexivity.
Qed.

Lemma rounds_state n : forall s c, pending s = [] -> counter s = c ->
  let s' := fst (run s (ops_rounds n c)) in
  pending s' = [] /\ counter s' = iter_bump n c /\ expired s' = expired s /\ inflight s' = inflight s /\
  ncalls s' = ncalls s + Z.of_nat n.
Proof.
  induction n as [|n IH]; intros s c Hp Hc; cbn [ops_rounds].
  - simpl. repeat split; try assumption; try reflexivity. lia.
  - cbv zeta. rewrite !run_cons_fst. rewrite (round_state s c Hp Hc).
    set (s1 := mkst (bump c) [] (expired s) (inflight s) (ncalls s + 1)).
    specialize (IH s1 (bump c) eq_refl eq_refl). cbv zeta in IH.
    destruct IH as [A [B [C [D F]]]]. repeat split; try assumption.
    + rewrite B. apply iter_bump_shift.
    + rewrite F. unfold s1. cbn [ncalls]. lia.
Qed.

Lemma iter_bump_closed' i c : (1 <= i)%nat -> u16 c -> iter_bump i c = (c - 1 + Z.of_nat i) mod 65535 + 1.
Proof. intros Hi Hc. destruct i as [|i]; [lia|]. apply iter_bump_closed. exact Hc. Qed.

Definition first3 : list op := [OCall false 1000; OSweep 2000; OReap].

Lemma run_app_pair : forall a b s, run s (a ++ b) =
  (fst (run (fst (run s a)) b), snd (run s a) ++ snd (run (fst (run s a)) b)).
Proof.
  induction a as [|o a IH]; intros b s; simpl.
  - destruct (run s b); reflexivity.
  - destruct (step s o) as [sa x]. rewrite IH. destruct (run sa a) as [sb xs]. simpl.
    destruct (run sb b); reflexivity.
Qed.

(* everything symbolic in the number of rounds n *)
Lemma reuse_general n : iter_bump n 1 = 65535 ->
  let s := fst (run (init 0) (first3 ++ ops_rounds n 1)) in
  let outs := snd (run (init 0) (first3 ++ ops_rounds n 1)) in
  firstn 3 outs = [mkout 1 0 []; mkout 0 0 []; mkout 0 1 [mkcomp 0 1 codes_RequestTimeout (-1)]] /\
  pending s = [] /\ ncalls s = 1 + Z.of_nat n /\
  forall r, rseq r = 1 ->
    ocomps (snd (step (fst (step s (OCall false 1000000))) (ODispatch r))) =
    [complete (mkctx (1 + Z.of_nat n) false 1000000) r].
Proof.
  intros Hb.
  assert (E0 : run (init 0) first3 =
               (mkst 1 [] [] [] 1, [mkout 1 0 []; mkout 0 0 []; mkout 0 1 [mkcomp 0 1 codes_RequestTimeout (-1)]])).
  { unfold first3. cbn [run step init counter pending]. rewrite probe_empty. reflexivity. }
  set (s1 := mkst 1 [] [] [] 1) in *.
  pose proof (rounds_state n s1 1 eq_refl eq_refl) as R.
  cbv zeta. rewrite run_app_pair, E0. cbn [fst snd].
  destruct (run s1 (ops_rounds n 1)) as [s2 xs] eqn:E2. cbn [fst snd] in *.
  destruct R as [A [B [_ [_ F]]]].
  split; [reflexivity|]. split; [exact A|]. split; [rewrite F; reflexivity|].
  intros r Hr.
  assert (Bc : counter s2 = 65535) by (rewrite B; exact Hb).
  assert (Hstep : step s2 (OCall false 1000000) = call_with s2 false 1000000 1).
  { cbn [step]. rewrite A, Bc, probe_empty. reflexivity. }
  rewrite Hstep. unfold call_with. cbn [fst]. cbn [step pending lookup]. rewrite Hr. cbn [Z.eqb Pos.eqb].
  cbn [snd ocomps]. rewrite F. reflexivity.
Qed.

Definition reuse_ops : list op := first3 ++ ops_rounds (Z.to_nat 65534) 1.

Theorem reuse_happens :
  let s := fst (run (init 0) reuse_ops) in
  let outs := snd (run (init 0) reuse_ops) in
  (* call 0 was given number 1, timed out and was completed with RequestTimeout ... *)
  firstn 3 outs = [mkout 1 0 []; mkout 0 0 []; mkout 0 1 [mkcomp 0 1 codes_RequestTimeout (-1)]] /\
  (* ... 65534 further calls later nothing is outstanding, and the next call is given number 1 again;
     the late response to call 0 then completes that call, number 65535 *)
  pending s = [] /\ ncalls s = 65535 /\
  forall r, rseq r = 1 ->
    ocomps (snd (step (fst (step s (OCall false 1000000))) (ODispatch r))) =
    [complete (mkctx 65535 false 1000000) r].
Proof.
  assert (Hb : iter_bump (Z.to_nat 65534) 1 = 65535).
  { rewrite (iter_bump_closed' (Z.to_nat 65534) 1) by (unfold u16; lia). rewrite Z2Nat.id by lia. reflexivity. }
  assert (Hn : 1 + Z.of_nat (Z.to_nat 65534) = 65535) by lia.
  pose proof (reuse_general (Z.to_nat 65534) Hb) as G. cbv zeta in G. rewrite Hn in G.
  unfold reuse_ops. cbv zeta. exact G.
Qed.
