(* C19 — The typed byte buffer reads back exactly what was written.
   Only the property theorems; each closed by an exact lemma, followed by Print Assumptions. *)
From Coq Require Import ZArith List Bool.
From FV Require Import Lib.Wrap Lib.LE C19.Model C19.Proofs.
Import ListNotations.
Open Scope Z_scope.

(* "each write appends exactly the width of its type" *)
Theorem c19_width : forall ws k v b, length (write ws k v b) = (length b + width ws k)%nat.
Proof. exact write_length. Qed.
Print Assumptions c19_width.
