(* C19 — The typed byte buffer reads back exactly what was written.
   Only the property theorems; each closed by an exact lemma, followed by Print Assumptions.
   ws is the platform word size in bytes; every theorem holds for ws = 4 and ws = 8.
   Values are in the range of their Go type (wf); floats are IEEE-754 bit patterns, so
   "bit for bit" includes NaN payloads and the sign of zero. *)
From Coq Require Import ZArith List Bool.
From FV Require Import Lib.Wrap Lib.LE C19.Model C19.Proofs.
Import ListNotations.
Open Scope Z_scope.

(* "each write appends exactly the width of its type" *)
Theorem c19_width : forall ws k v b, length (write ws k v b) = (length b + width ws k)%nat.
Proof. exact write_length. Qed.
Print Assumptions c19_width.

(* "... in little-endian order": the appended bytes are, least significant first, the bytes of
   the value's two's complement at the width of its type (ubits = v mod 2^(8*width)) *)
Theorem c19_little_endian : forall ws k v b, word_size ws -> wf ws k v ->
  write ws k v b = b ++ enc ws k v /\
  length (enc ws k v) = width ws k /\
  forall i, (i < width ws k)%nat -> nth i (enc ws k v) 0 = (ubits ws k v / 256 ^ Z.of_nat i) mod 256.
Proof.
  intros ws k v b Hws Hwf. split; [apply write_app|]. split; [apply enc_length|].
  intros i Hi. exact (enc_nth ws k v i Hws Hwf Hi).
Qed.
Print Assumptions c19_little_endian.

(* after any sequence of writes the buffer is the concatenation of the encodings, in order *)
Theorem c19_layout : forall ws vs b, fst (run ws b (map wop vs)) = b ++ encs ws vs.
Proof. exact writes_bytes. Qed.
Print Assumptions c19_layout.

(* "Any sequence of typed writes followed by the same sequence of typed reads returns the
   written values bit for bit and leaves the buffer empty" — every list of typed values *)
Theorem c19_roundtrip : forall ws vs, word_size ws -> Forall (wf_tv ws) vs ->
  fst (run ws [] (map wop vs ++ map rop vs)) = [] /\
  vals_of (snd (run ws [] (map wop vs ++ map rop vs))) = map (fun x => Some (snd x)) vs.
Proof. exact roundtrip. Qed.
Print Assumptions c19_roundtrip.

(* generalisation to interleaved use: on every operation sequence in which each read / peek
   asks for the kind of the oldest unread value, the buffer produces exactly the outputs
   (values, lengths, Bytes()) of a FIFO queue of typed values *)
Theorem c19_fifo : forall ws, word_size ws -> forall ops q q' xs,
  Forall (wf_tv ws) q -> Forall (wf_op ws) ops -> srun ws q ops = Some (q', xs) ->
  run ws (encs ws q) ops = (encs ws q', xs) /\ Forall (wf_tv ws) q'.
Proof. exact run_refines. Qed.
Print Assumptions c19_fifo.

(* "a peek returns what the next read of that type would return without consuming anything":
   on any buffer holding at least the width of the type *)
Theorem c19_peek : forall ws k b, (width ws k <= length b)%nat ->
  peek ws k b = fst (read ws k b) /\
  fst (step ws b (OPeek k)) = b /\
  snd (read ws k b) = skipn (width ws k) b.
Proof.
  intros ws k b H. destruct (peek_is_read ws k b H) as [H1 H2]. split; [exact H1|]. split; [|exact H2].
  cbn [step]. destruct (peek ws k b); reflexivity.
Qed.
Print Assumptions c19_peek.

(* ... and it is the oldest unread value when that has the type asked for *)
Theorem c19_peek_value : forall ws k v rest, word_size ws -> wf ws k v ->
  peek ws k (enc ws k v ++ rest) = Some v /\ read ws k (enc ws k v ++ rest) = (Some v, rest).
Proof. intros ws k v rest Hws Hwf. split; [apply peek_enc | apply read_enc]; assumption. Qed.
Print Assumptions c19_peek_value.

(* non-vacuity: the hypotheses are met by extreme values of several kinds on both word sizes,
   and the model computes the expected bytes *)
Example c19_example :
  let vs := [(KI16, -2); (KF32, 2143289344 + 1); (KInt, - 2 ^ 31); (KBool, 1); (KU64, 2 ^ 64 - 1)] in
  word_size 4 /\ word_size 8 /\ Forall (wf_tv 4) vs /\ Forall (wf_tv 8) vs /\
  encs 4 vs = [254; 255; 1; 0; 192; 127; 0; 0; 0; 128; 1; 255; 255; 255; 255; 255; 255; 255; 255] /\
  encs 8 vs = [254; 255; 1; 0; 192; 127; 0; 0; 0; 128; 255; 255; 255; 255; 1;
               255; 255; 255; 255; 255; 255; 255; 255] /\
  vals_of (snd (run 8 [] (map wop vs ++ map rop vs))) = map (fun x => Some (snd x)) vs.
Proof.
  cbv zeta. split; [left; reflexivity|]. split; [right; reflexivity|].
  split; [|split].
  - repeat (apply Forall_cons; [unfold wf_tv, wf, in_u, in_s; cbn [fst snd];
            first [right; reflexivity | split; [apply Z.leb_le; vm_compute; reflexivity | apply Z.ltb_lt; vm_compute; reflexivity]]|]).
    apply Forall_nil.
  - repeat (apply Forall_cons; [unfold wf_tv, wf, in_u, in_s; cbn [fst snd];
            first [right; reflexivity | split; [apply Z.leb_le; vm_compute; reflexivity | apply Z.ltb_lt; vm_compute; reflexivity]]|]).
    apply Forall_nil.
  - split; [vm_compute; reflexivity|]. split; vm_compute; reflexivity.
Qed.

(* ------------------------------------------------------------------------------------------
   Tie to the source (C19/Source.v): every integer Write* / Read* / Peek* method of qnet.Buffer
   is regenerated from qnet/buffer.go by tools/gofunc on every run (Generated/QBuffer.v),
   together with encoding/binary's littleEndian.PutUintN / UintN from the standard library's
   source; the embedded bytes.Buffer is the list of its unread bytes (an intrinsic of the
   translator).  At word size 8 the translated methods ARE the model: [go_write], [go_read],
   [go_peek] pick the method of a kind (KF32 / KF64: the method of the bit pattern - the float
   methods themselves convert with math.Float32bits etc. and are outside the subset).  If a
   width, the byte order, a conversion or the empty-buffer behaviour changes in the source,
   these obligations are re-checked. *)
From FV Require Import Generated.QBuffer Lib.GoSem Lib.LE C19.Source.

Theorem c19_src_write : forall k v b, wf 8 k v -> go_write k b v = Lib.GoSem.Ok (write 8 k v b).
Proof. exact src_write. Qed.
Print Assumptions c19_src_write.

Theorem c19_src_read : forall k b, Forall is_byte b ->
  go_read k b = match read 8 k b with (None, _) => Lib.GoSem.Panic | (Some v, b') => Lib.GoSem.Ok (v, b') end.
Proof. exact src_read. Qed.
Print Assumptions c19_src_read.

Theorem c19_src_peek : forall k b, Forall is_byte b ->
  go_peek k b = match peek 8 k b with None => Lib.GoSem.Panic | Some v => Lib.GoSem.Ok v end.
Proof. exact src_peek. Qed.
Print Assumptions c19_src_peek.

(* ------------------------------------------------------------------------------------------
   What must NOT change (no hypothesis on kinds, values or buffers): a write only appends, a read
   only drops a prefix of its width (the remaining unread bytes are untouched, whatever the
   buffer holds), a peek and Bytes() leave the buffer as it is. *)
Theorem c19_frame : forall ws k v b,
  write ws k v b = b ++ enc ws k v /\
  snd (read ws k b) = skipn (width ws k) b /\
  fst (Model.step ws b (OPeek k)) = b /\ fst (Model.step ws b OBytes) = b.
Proof.
  intros ws k v b. split; [apply write_app|]. split; [apply read_suffix|]. split; [apply peek_keeps|reflexivity].
Qed.
Print Assumptions c19_frame.

Example c19_frame_example :
  write 8 KI16 (-2) [7; 9] = [7; 9; 254; 255] /\ snd (read 8 KU8 [7; 9; 254; 255]) = [9; 254; 255] /\
  snd (read 8 KU64 [7; 9]) = [] /\ fst (Model.step 4 [7; 9] (OPeek KU64)) = [7; 9].
Proof. repeat split. Qed.

(* The width / little-endian / read-back sentences stated on the methods regenerated from
   qnet/buffer.go themselves (word size 8): the translated Write<kind> appends exactly the width
   of the kind, in little-endian order, to whatever the buffer holds, and the translated
   Read<kind> / Peek<kind> give the value back from those bytes whatever follows them. *)
Theorem c19_src_width : forall k v b, wf 8 k v ->
  go_write k b v = Lib.GoSem.Ok (b ++ enc 8 k v) /\
  length (enc 8 k v) = width 8 k /\
  forall i, (i < width 8 k)%nat -> nth i (enc 8 k v) 0 = (ubits 8 k v / 256 ^ Z.of_nat i) mod 256.
Proof.
  intros k v b Hwf. rewrite (src_write k v b Hwf), write_app. split; [reflexivity|]. split; [apply enc_length|].
  intros i Hi. exact (enc_nth 8 k v i (or_intror eq_refl) Hwf Hi).
Qed.
Print Assumptions c19_src_width.

Theorem c19_src_value_roundtrip : forall k v rest, wf 8 k v -> Forall is_byte rest ->
  go_read k (enc 8 k v ++ rest) = Lib.GoSem.Ok (v, rest) /\
  go_peek k (enc 8 k v ++ rest) = Lib.GoSem.Ok v.
Proof.
  intros k v rest Hwf Hrest.
  assert (Hb : Forall is_byte (enc 8 k v ++ rest))
    by (apply Forall_app; split; [apply enc_bytes; [right; reflexivity|assumption]|assumption]).
  rewrite (src_read k _ Hb), (src_peek k _ Hb).
  rewrite (read_enc 8 k v rest (or_intror eq_refl) Hwf), (peek_enc 8 k v rest (or_intror eq_refl) Hwf).
  split; reflexivity.
Qed.
Print Assumptions c19_src_value_roundtrip.

Example c19_src_example :
  wf 8 KI32 (-2) /\ go_write KI32 [1] (-2) = Lib.GoSem.Ok [1; 254; 255; 255; 255] /\
  go_read KI32 [254; 255; 255; 255; 5] = Lib.GoSem.Ok (-2, [5]).
Proof.
  split; [unfold wf, in_s; split; [apply Z.leb_le|apply Z.ltb_lt]; vm_compute; reflexivity|].
  split; vm_compute; reflexivity.
Qed.
