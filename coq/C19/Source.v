(* C19 — every integer Write* / Read* / Peek* method of qnet.Buffer, regenerated from
   qnet/buffer.go by tools/gofunc (Generated/QBuffer.v) together with the standard-library
   functions they call (encoding/binary littleEndian.PutUint16/32/64 and Uint16/32/64, from
   GOROOT source), is the model's [write] / [read] / [peek] at word size 8 (the translator's
   word size): how many bytes are appended or consumed, in which byte order, what a short or
   empty buffer gives (zero padding / panic), and the signed / bool views.
   The embedded bytes.Buffer is the list of its unread bytes, its Write / WriteByte / Read /
   ReadByte / Bytes the go_buf_* functions of Lib/GoSem.v (an intrinsic of the translator,
   validated against the real type by bin/validate-gofunc).  WriteFloat32/64, ReadFloat32/64
   and PeekFloat32/64 take or return floats (math.Float32bits ...) and are outside the subset;
   they are WriteUint32/64 etc. of the bit pattern. *)
From Coq Require Import ZArith List Bool Lia.
From FV Require Import Generated.QBuffer Lib.GoSem Lib.Bits Lib.Wrap Lib.LE C19.Model C19.Proofs.
Import ListNotations.
Open Scope Z_scope.

Ltac Zify.zify_post_hook ::= Z.div_mod_to_equations.

Definition bytes (l : list Z) : Prop := Forall is_byte l.

(* ---- encoding/binary.LittleEndian.PutUintN on a zeroed array = le_put *)
Lemma shr_div v k : 0 <= k -> Z.shiftr v k = v / 2 ^ k.
Proof. intros. apply Z.shiftr_div_pow2. assumption. Qed.

(* the skeletons of PutUintN / UintN with the byte values abstract: plain computation *)
Lemma put2 x0 x1 :
  bind (go_index (go_zeros 2) 1) (fun _ => bind (go_update (go_zeros 2) 0 x0) (fun b =>
  bind (go_update b 1 x1) (fun b => Ok b))) = Ok [x0; x1].
Proof. reflexivity. Qed.

Lemma put4 x0 x1 x2 x3 :
  bind (go_index (go_zeros 4) 3) (fun _ => bind (go_update (go_zeros 4) 0 x0) (fun b =>
  bind (go_update b 1 x1) (fun b => bind (go_update b 2 x2) (fun b => bind (go_update b 3 x3) (fun b => Ok b)))))
  = Ok [x0; x1; x2; x3].
Proof. reflexivity. Qed.

Lemma put8 x0 x1 x2 x3 x4 x5 x6 x7 :
  bind (go_index (go_zeros 8) 7) (fun _ => bind (go_update (go_zeros 8) 0 x0) (fun b =>
  bind (go_update b 1 x1) (fun b => bind (go_update b 2 x2) (fun b => bind (go_update b 3 x3) (fun b =>
  bind (go_update b 4 x4) (fun b => bind (go_update b 5 x5) (fun b => bind (go_update b 6 x6) (fun b =>
  bind (go_update b 7 x7) (fun b => Ok b)))))))))
  = Ok [x0; x1; x2; x3; x4; x5; x6; x7].
Proof. reflexivity. Qed.

Lemma put16_src n : go_binary_littleEndian_PutUint16 (go_zeros 2) n = Ok (le_put 2 n).
Proof.
  unfold go_binary_littleEndian_PutUint16. rewrite put2. cbn [le_put]. rewrite shr_div by lia. reflexivity.
Qed.

Lemma put32_src n : go_binary_littleEndian_PutUint32 (go_zeros 4) n = Ok (le_put 4 n).
Proof.
  unfold go_binary_littleEndian_PutUint32. rewrite put4. cbn [le_put]. rewrite !shr_div by lia.
  change (2 ^ 8) with 256. change (2 ^ 16) with (256 * 256). change (2 ^ 24) with (256 * 256 * 256).
  rewrite <- !Z.div_div by lia. reflexivity.
Qed.

Lemma put64_src n : go_binary_littleEndian_PutUint64 (go_zeros 8) n = Ok (le_put 8 n).
Proof.
  unfold go_binary_littleEndian_PutUint64. rewrite put8. cbn [le_put]. rewrite !shr_div by lia.
  change (2 ^ 8) with 256. change (2 ^ 16) with (256 * 256). change (2 ^ 24) with (256 * 256 * 256).
  change (2 ^ 32) with (256 * 256 * 256 * 256). change (2 ^ 40) with (256 * 256 * 256 * 256 * 256).
  change (2 ^ 48) with (256 * 256 * 256 * 256 * 256 * 256).
  change (2 ^ 56) with (256 * 256 * 256 * 256 * 256 * 256 * 256).
  rewrite <- !Z.div_div by lia. reflexivity.
Qed.

(* ---- encoding/binary.LittleEndian.UintN on exactly N/8 bytes = le_get *)
Lemma lor_byte w acc b k : 0 <= k -> k + 8 <= w -> 0 <= acc < 2 ^ k -> is_byte b ->
  Z.lor acc ((Z.shiftl (b mod 2 ^ w) k) mod 2 ^ w) = acc + b * 2 ^ k
  /\ 0 <= acc + b * 2 ^ k < 2 ^ (k + 8).
Proof.
  unfold is_byte. intros Hk Hk8 Ha Hb.
  assert (P : 0 < 2 ^ k) by (apply Z.pow_pos_nonneg; lia).
  assert (E : 2 ^ (k + 8) = 2 ^ k * 256) by (rewrite Z.pow_add_r by lia; reflexivity).
  assert (L : 2 ^ (k + 8) <= 2 ^ w) by (apply Z.pow_le_mono_r; lia).
  set (M := 2 ^ w) in *.
  set (p := 2 ^ k) in *. set (q := 2 ^ (k + 8)) in *.
  assert (B1 : 0 <= b * p) by (apply Z.mul_nonneg_nonneg; lia).
  assert (B2 : b * p <= 255 * p) by (apply Z.mul_le_mono_nonneg_r; lia).
  assert (B : 0 <= b * p < q) by lia.
  rewrite (Z.mod_small b) by lia. rewrite Z.shiftl_mul_pow2 by lia. fold p.
  rewrite (Z.mod_small (b * p)) by lia.
  unfold p at 1. rewrite <- Z.shiftl_mul_pow2 by lia. rewrite Z.lor_comm. rewrite lor_shiftl_add by (fold p; lia).
  fold p. lia.
Qed.

Lemma get16_src x0 x1 : is_byte x0 -> is_byte x1 ->
  go_binary_littleEndian_Uint16 [x0; x1] = Ok (le_get [x0; x1]).
Proof.
  intros H0 H1. unfold is_byte in *.
  change (go_binary_littleEndian_Uint16 [x0; x1])
    with (Ok (Z.lor (x0 mod 65536) ((Z.shiftl (x1 mod 65536) 8) mod 65536))).
  f_equal. rewrite (Z.mod_small x0), (Z.mod_small x1) by lia.
  rewrite Z.shiftl_mul_pow2 by lia. rewrite (Z.mod_small (x1 * 2 ^ 8)) by lia.
  rewrite <- Z.shiftl_mul_pow2 by lia. rewrite Z.lor_comm, lor_shiftl_add by lia. cbn [le_get]. lia.
Qed.

Lemma get32_src x0 x1 x2 x3 : is_byte x0 -> is_byte x1 -> is_byte x2 -> is_byte x3 ->
  go_binary_littleEndian_Uint32 [x0; x1; x2; x3] = Ok (le_get [x0; x1; x2; x3]).
Proof.
  intros H0 H1 H2 H3.
  change (go_binary_littleEndian_Uint32 [x0; x1; x2; x3])
    with (Ok (Z.lor (Z.lor (Z.lor (x0 mod 2 ^ 32) ((Z.shiftl (x1 mod 2 ^ 32) 8) mod 2 ^ 32))
                           ((Z.shiftl (x2 mod 2 ^ 32) 16) mod 2 ^ 32)) ((Z.shiftl (x3 mod 2 ^ 32) 24) mod 2 ^ 32))).
  f_equal. unfold is_byte in H0. rewrite (Z.mod_small x0) by (change (2 ^ 32) with 4294967296; lia).
  destruct (lor_byte 32 x0 x1 8 ltac:(lia) ltac:(lia) ltac:(change (2 ^ 8) with 256; lia) H1) as [E1 R1]. rewrite E1.
  destruct (lor_byte 32 _ x2 16 ltac:(lia) ltac:(lia) R1 H2) as [E2 R2]. rewrite E2.
  destruct (lor_byte 32 _ x3 24 ltac:(lia) ltac:(lia) R2 H3) as [E3 R3]. rewrite E3.
  cbn [le_get]. change (2 ^ 8) with 256. change (2 ^ 16) with 65536. change (2 ^ 24) with 16777216. lia.
Qed.

Lemma get64_src x0 x1 x2 x3 x4 x5 x6 x7 :
  is_byte x0 -> is_byte x1 -> is_byte x2 -> is_byte x3 -> is_byte x4 -> is_byte x5 -> is_byte x6 -> is_byte x7 ->
  go_binary_littleEndian_Uint64 [x0; x1; x2; x3; x4; x5; x6; x7] = Ok (le_get [x0; x1; x2; x3; x4; x5; x6; x7]).
Proof.
  intros H0 H1 H2 H3 H4 H5 H6 H7.
  change (go_binary_littleEndian_Uint64 [x0; x1; x2; x3; x4; x5; x6; x7])
    with (Ok (Z.lor (Z.lor (Z.lor (Z.lor (Z.lor (Z.lor (Z.lor (x0 mod 2 ^ 64)
              ((Z.shiftl (x1 mod 2 ^ 64) 8) mod 2 ^ 64)) ((Z.shiftl (x2 mod 2 ^ 64) 16) mod 2 ^ 64))
              ((Z.shiftl (x3 mod 2 ^ 64) 24) mod 2 ^ 64)) ((Z.shiftl (x4 mod 2 ^ 64) 32) mod 2 ^ 64))
              ((Z.shiftl (x5 mod 2 ^ 64) 40) mod 2 ^ 64)) ((Z.shiftl (x6 mod 2 ^ 64) 48) mod 2 ^ 64))
              ((Z.shiftl (x7 mod 2 ^ 64) 56) mod 2 ^ 64))).
  f_equal. unfold is_byte in H0. rewrite (Z.mod_small x0) by (change (2 ^ 64) with 18446744073709551616; lia).
  destruct (lor_byte 64 x0 x1 8 ltac:(lia) ltac:(lia) ltac:(change (2 ^ 8) with 256; lia) H1) as [E1 R1]. rewrite E1.
  destruct (lor_byte 64 _ x2 16 ltac:(lia) ltac:(lia) R1 H2) as [E2 R2]. rewrite E2.
  destruct (lor_byte 64 _ x3 24 ltac:(lia) ltac:(lia) R2 H3) as [E3 R3]. rewrite E3.
  destruct (lor_byte 64 _ x4 32 ltac:(lia) ltac:(lia) R3 H4) as [E4 R4]. rewrite E4.
  destruct (lor_byte 64 _ x5 40 ltac:(lia) ltac:(lia) R4 H5) as [E5 R5]. rewrite E5.
  destruct (lor_byte 64 _ x6 48 ltac:(lia) ltac:(lia) R5 H6) as [E6 R6]. rewrite E6.
  destruct (lor_byte 64 _ x7 56 ltac:(lia) ltac:(lia) R6 H7) as [E7 R7]. rewrite E7.
  cbn [le_get]. change (2 ^ 8) with 256. change (2 ^ 16) with 65536. change (2 ^ 24) with 16777216.
  change (2 ^ 32) with 4294967296. change (2 ^ 40) with 1099511627776. change (2 ^ 48) with 281474976710656.
  change (2 ^ 56) with 72057594037927936. lia.
Qed.

(* ---- lists of known length *)
Lemma len2 (l : list Z) : length l = 2%nat -> exists a b, l = [a; b].
Proof. destruct l as [|a [|b [|c r]]]; cbn; intros H; try discriminate. eauto. Qed.
Lemma len4 (l : list Z) : length l = 4%nat -> exists a b c d, l = [a; b; c; d].
Proof. destruct l as [|a [|b [|c [|d [|e r]]]]]; cbn; intros H; try discriminate. eauto. Qed.
Lemma len8 (l : list Z) : length l = 8%nat -> exists a b c d e f g h, l = [a; b; c; d; e; f; g; h].
Proof.
  destruct l as [|a [|b [|c [|d [|e [|f [|g [|h [|i r]]]]]]]]]; cbn; intros H; try discriminate.
  do 8 eexists. reflexivity.
Qed.

Lemma get16_len l : bytes l -> length l = 2%nat -> go_binary_littleEndian_Uint16 l = Ok (le_get l).
Proof.
  intros B H. destruct (len2 l H) as (a & b & ->). inversion B as [|? ? Ha B1]; subst. inversion B1; subst.
  apply get16_src; assumption.
Qed.
Lemma get32_len l : bytes l -> length l = 4%nat -> go_binary_littleEndian_Uint32 l = Ok (le_get l).
Proof.
  intros B H. destruct (len4 l H) as (a & b & c & d & ->).
  repeat match goal with H : bytes (_ :: _) |- _ => inversion H; clear H; subst end.
  repeat match goal with H : Forall _ (_ :: _) |- _ => inversion H; clear H; subst end.
  apply get32_src; assumption.
Qed.
Lemma get64_len l : bytes l -> length l = 8%nat -> go_binary_littleEndian_Uint64 l = Ok (le_get l).
Proof.
  intros B H. destruct (len8 l H) as (a & b & c & d & e & f & g & h & ->).
  repeat match goal with H : bytes (_ :: _) |- _ => inversion H; clear H; subst end.
  repeat match goal with H : Forall _ (_ :: _) |- _ => inversion H; clear H; subst end.
  apply get64_src; assumption.
Qed.

(* ---- bytes.Buffer.Read into a zeroed array: min(k, len) bytes, zero padded *)
Lemma le_get_pad l m : le_get (l ++ repeat 0 m) = le_get l.
Proof.
  induction l as [|x l IH]; cbn [app le_get].
  - induction m as [|m IHm]; cbn [repeat le_get]; lia.
  - rewrite IH. reflexivity.
Qed.

Lemma bytes_firstn l : bytes l -> forall n, bytes (firstn n l).
Proof.
  unfold bytes. induction 1 as [|x l Hx _ IH]; intros [|n]; cbn [firstn]; try constructor; try assumption.
  apply IH.
Qed.

Lemma bytes_zeros m : bytes (repeat 0 m).
Proof. apply Forall_forall. intros x Hx. apply repeat_spec in Hx. subst. unfold is_byte. lia. Qed.

Lemma buf_read_zeros eof (k : nat) x r :
  go_buf_read eof (x :: r) (go_zeros (Z.of_nat k)) =
  let n := Nat.min k (length (x :: r)) in
  (Z.of_nat n, 0, skipn n (x :: r), firstn k (x :: r) ++ repeat 0 (k - n)).
Proof.
  unfold go_buf_read, go_copy, go_zeros. rewrite Nat2Z.id, repeat_length. cbv zeta.
  set (n := Nat.min k (length (x :: r))). rewrite Nat2Z.id.
  f_equal. f_equal.
  assert (Hn : (n <= k)%nat) by (subst n; apply Nat.le_min_l).
  assert (E : firstn n (x :: r) = firstn k (x :: r)).
  { subst n. destruct (Nat.le_ge_cases k (length (x :: r))) as [H|H].
    - rewrite Nat.min_l by assumption. reflexivity.
    - rewrite Nat.min_r by assumption. rewrite !firstn_all2 by lia. reflexivity. }
  rewrite E. f_equal.
  replace k with (n + (k - n))%nat at 1 by lia. rewrite repeat_app, skipn_app, repeat_length.
  rewrite skipn_all2 by (rewrite repeat_length; lia). replace (n - n)%nat with 0%nat by lia. reflexivity.
Qed.

Section ReadK.
  Variable k : nat.
  Variable get : list Z -> outcome Z.
  Hypothesis Hget : forall l, bytes l -> length l = k -> get l = Ok (le_get l).
  Hypothesis Hk : (0 < k)%nat.

  Lemma read_k_spec eof b : eof <> 0 -> bytes b ->
    (let '(t1, t2, b', tmp) := go_buf_read eof b (go_zeros (Z.of_nat k)) in
     let '(_, err) := (t1, t2) in
     if negb (err =? 0) then Panic else bind (get tmp) (fun t3 => Ok (t3, b')))
    = match read_raw k b with None => Panic | Some (u, b') => Ok (u, b') end.
  Proof.
    intros He B. destruct b as [|x r].
    - cbn [read_raw]. unfold go_buf_read, go_zeros. rewrite Nat2Z.id.
      destruct k as [|k']; [lia|].
      cbn [repeat]. destruct (Z.eqb_spec eof 0); [contradiction|]. reflexivity.
    - rewrite buf_read_zeros. cbv zeta. cbn [Z.eqb negb read_raw].
      rewrite Hget.
      + cbn [bind]. rewrite le_get_pad.
        destruct (Nat.le_ge_cases k (length (x :: r))) as [H|H].
        * rewrite Nat.min_l by assumption. reflexivity.
        * rewrite Nat.min_r by assumption. rewrite !skipn_all2 by lia. reflexivity.
      + apply Forall_app. split; [apply bytes_firstn; assumption | apply bytes_zeros].
      + rewrite app_length, firstn_length, repeat_length. lia.
  Qed.
End ReadK.

(* ---- the methods by kind (floats: the methods of their bit patterns) *)
Definition bz (x : bool) : Z := if x then 1 else 0.

Definition go_write (k : kind) (b : list Z) (v : Z) : outcome (list Z) :=
  match k with
  | KBool => Ok (go_Buffer_WriteBool b (negb (v =? 0)))
  | KU8 => Ok (go_Buffer_WriteUInt8 b v)
  | KI8 => Ok (go_Buffer_WriteInt8 b v)
  | KU16 => go_Buffer_WriteUint16 b v
  | KI16 => go_Buffer_WriteInt16 b v
  | KU32 | KF32 => go_Buffer_WriteUint32 b v
  | KI32 => go_Buffer_WriteInt32 b v
  | KU64 | KF64 => go_Buffer_WriteUint64 b v
  | KI64 => go_Buffer_WriteInt64 b v
  | KUint => go_Buffer_WriteUint b v
  | KInt => go_Buffer_WriteInt b v
  end.

Definition go_read (k : kind) (b : list Z) : outcome (Z * list Z) :=
  match k with
  | KBool => bind (go_Buffer_ReadBool b) (fun '(x, b') => Ok (bz x, b'))
  | KU8 => go_Buffer_ReadUint8 b
  | KI8 => go_Buffer_ReadInt8 b
  | KU16 => go_Buffer_ReadUint16 b
  | KI16 => go_Buffer_ReadInt16 b
  | KU32 | KF32 => go_Buffer_ReadUint32 b
  | KI32 => go_Buffer_ReadInt32 b
  | KU64 | KF64 => go_Buffer_ReadUint64 b
  | KI64 => go_Buffer_ReadInt64 b
  | KUint => go_Buffer_ReadUint b
  | KInt => go_Buffer_ReadInt b
  end.

Definition go_peek (k : kind) (b : list Z) : outcome Z :=
  match k with
  | KBool => bind (go_Buffer_PeekBool b) (fun x => Ok (bz x))
  | KU8 => go_Buffer_PeekUint8 b
  | KI8 => go_Buffer_PeekInt8 b
  | KU16 => go_Buffer_PeekUint16 b
  | KI16 => go_Buffer_PeekInt16 b
  | KU32 | KF32 => go_Buffer_PeekUint32 b
  | KI32 => go_Buffer_PeekInt32 b
  | KU64 | KF64 => go_Buffer_PeekUint64 b
  | KI64 => go_Buffer_PeekInt64 b
  | KUint => go_Buffer_PeekUint b
  | KInt => go_Buffer_PeekInt b
  end.

(* ---- writes *)
Lemma w16 b n : go_Buffer_WriteUint16 b n = Ok (write_u16 n b).
Proof. unfold go_Buffer_WriteUint16. cbv zeta. rewrite put16_src. reflexivity. Qed.
Lemma w32 b n : go_Buffer_WriteUint32 b n = Ok (write_u32 n b).
Proof. unfold go_Buffer_WriteUint32. cbv zeta. rewrite put32_src. reflexivity. Qed.
Lemma w64 b n : go_Buffer_WriteUint64 b n = Ok (write_u64 n b).
Proof. unfold go_Buffer_WriteUint64. cbv zeta. rewrite put64_src. reflexivity. Qed.

Lemma src_write k v b : wf 8 k v -> go_write k b v = Ok (write 8 k v b).
Proof.
  intros H. destruct k; cbn [go_write write is64 Z.eqb Pos.eqb]; unfold wf, in_u, in_s in H.
  - destruct H as [-> | ->]; reflexivity.
  - unfold go_Buffer_WriteUInt8, write_u8, go_buf_write_byte, wrapu. rewrite Z.mod_small by lia. reflexivity.
  - unfold go_Buffer_WriteInt8, write_u8, go_buf_write_byte, wrapu. change (2 ^ 8) with 256.
    rewrite (Z.mod_small (v mod 256)) by (apply Z.mod_pos_bound; lia). reflexivity.
  - apply w16.
  - unfold go_Buffer_WriteInt16. rewrite w16. reflexivity.
  - apply w32.
  - unfold go_Buffer_WriteInt32. rewrite w32. reflexivity.
  - apply w64.
  - unfold go_Buffer_WriteInt64. rewrite w64. reflexivity.
  - unfold go_Buffer_WriteUint. rewrite w64. reflexivity.
  - unfold go_Buffer_WriteInt, go_Buffer_WriteInt64. rewrite w64. reflexivity.
  - apply w32.
  - apply w64.
Qed.

(* ---- reads *)
Lemma eof_nz : go_err_io_EOF <> 0.
Proof. unfold go_err_io_EOF. lia. Qed.

Definition lift (r : option (Z * list Z)) : outcome (Z * list Z) :=
  match r with None => Panic | Some (u, b') => Ok (u, b') end.

Lemma r8 b : go_Buffer_ReadUint8 b = lift (read_raw 1 b).
Proof.
  unfold go_Buffer_ReadUint8, go_buf_read_byte. destruct b as [|x r]; cbn [read_raw lift].
  - cbv zeta. destruct (Z.eqb_spec go_err_io_EOF 0) as [E|E]; [destruct (eof_nz E)|reflexivity].
  - cbn. f_equal. f_equal. lia.
Qed.
Lemma r16 b : bytes b -> go_Buffer_ReadUint16 b = lift (read_raw 2 b).
Proof. intros B. unfold go_Buffer_ReadUint16. cbv zeta. apply (read_k_spec 2 _ get16_len ltac:(lia) _ b eof_nz B). Qed.
Lemma r32 b : bytes b -> go_Buffer_ReadUint32 b = lift (read_raw 4 b).
Proof. intros B. unfold go_Buffer_ReadUint32. cbv zeta. apply (read_k_spec 4 _ get32_len ltac:(lia) _ b eof_nz B). Qed.
Lemma r64 b : bytes b -> go_Buffer_ReadUint64 b = lift (read_raw 8 b).
Proof. intros B. unfold go_Buffer_ReadUint64. cbv zeta. apply (read_k_spec 8 _ get64_len ltac:(lia) _ b eof_nz B). Qed.

Definition lift_read (r : option Z * list Z) : outcome (Z * list Z) :=
  match r with (None, _) => Panic | (Some v, b') => Ok (v, b') end.

Lemma le_get_u n (l : list Z) : bytes l -> 0 <= le_get (firstn n l) < 256 ^ Z.of_nat n.
Proof.
  intros B. pose proof (le_get_bound (firstn n l) (bytes_firstn l B n)) as H.
  assert (L : (length (firstn n l) <= n)%nat) by (rewrite firstn_length; lia).
  assert (256 ^ Z.of_nat (length (firstn n l)) <= 256 ^ Z.of_nat n) by (apply Z.pow_le_mono_r; lia). lia.
Qed.

Lemma read_raw_some n b u b' : read_raw n b = Some (u, b') -> u = le_get (firstn n b) /\ b' = skipn n b.
Proof. destruct b; cbn [read_raw]; [discriminate|]. intros H. split; congruence. Qed.

Lemma src_read k b : bytes b -> go_read k b = lift_read (read 8 k b).
Proof.
  intros B. unfold read.
  destruct k; cbn [go_read width is64 Z.eqb Pos.eqb view];
    unfold go_Buffer_ReadBool, go_Buffer_ReadInt8, go_Buffer_ReadInt16, go_Buffer_ReadInt32, go_Buffer_ReadInt64,
      go_Buffer_ReadUint, go_Buffer_ReadInt, go_Buffer_ReadInt64;
    rewrite ?r8, ?r16, ?r32, ?r64 by assumption.
  - destruct (read_raw 1 b) as [[u b']|]; cbn [lift bind lift_read]; [|reflexivity].
    unfold wraps, bz. change (2 ^ (8 - 1)) with 128. change (2 ^ 8) with 256.
    destruct ((u + 128) mod 256 - 128 =? 0); reflexivity.
  - destruct (read_raw 1 b) as [[u b']|]; reflexivity.
  - destruct (read_raw 1 b) as [[u b']|]; reflexivity.
  - destruct (read_raw 2 b) as [[u b']|]; reflexivity.
  - destruct (read_raw 2 b) as [[u b']|]; reflexivity.
  - destruct (read_raw 4 b) as [[u b']|]; reflexivity.
  - destruct (read_raw 4 b) as [[u b']|]; reflexivity.
  - destruct (read_raw 8 b) as [[u b']|]; reflexivity.
  - destruct (read_raw 8 b) as [[u b']|]; reflexivity.
  - destruct (read_raw 8 b) as [[u b']|] eqn:E; cbn [lift bind lift_read]; [|reflexivity].
    destruct (read_raw_some 8 b u b' E) as [Eu _].
    pose proof (le_get_u 8 b B) as R. change (256 ^ Z.of_nat 8) with 18446744073709551616 in R.
    rewrite Z.mod_small by lia. reflexivity.
  - destruct (read_raw 8 b) as [[u b']|]; cbn [lift bind lift_read]; [|reflexivity].
    unfold wraps. change (2 ^ (64 - 1)) with 9223372036854775808. change (2 ^ 64) with 18446744073709551616.
    f_equal. f_equal.
    set (w := (u + 9223372036854775808) mod 18446744073709551616 - 9223372036854775808).
    assert (- 9223372036854775808 <= w < 9223372036854775808) by (subst w; lia).
    lia.
  - destruct (read_raw 4 b) as [[u b']|]; reflexivity.
  - destruct (read_raw 8 b) as [[u b']|]; reflexivity.
Qed.

(* ---- peeks *)
Definition lift_peek (r : option Z) : outcome Z := match r with None => Panic | Some v => Ok v end.

Lemma nat_ltb_len (b : list Z) k : (go_len b <? Z.of_nat k) = (length b <? k)%nat.
Proof. unfold go_len. destruct (Z.ltb_spec (Z.of_nat (length b)) (Z.of_nat k)), (Nat.ltb_spec (length b) k); lia || reflexivity. Qed.

Section PeekK.
  Variable k : nat.
  Variable get : list Z -> outcome Z.
  Hypothesis Hget : forall l, bytes l -> length l = k -> get l = Ok (le_get l).

  Lemma peek_k_spec b : bytes b ->
    (if go_len (go_buf_bytes b) <? Z.of_nat k then Panic
     else bind (go_slice (go_buf_bytes b) 0 (Z.of_nat k)) (fun t1 => bind (get t1) (fun t2 => Ok t2)))
    = if (length b <? k)%nat then Panic else Ok (le_get (firstn k b)).
  Proof.
    intros B. unfold go_buf_bytes. rewrite nat_ltb_len.
    destruct (Nat.ltb_spec (length b) k) as [H|H]; [reflexivity|].
    rewrite go_slice_ok by (unfold go_len; lia). cbn [bind].
    rewrite Z.sub_0_r, Nat2Z.id. cbn [Z.to_nat skipn].
    rewrite Hget by (try (apply bytes_firstn; assumption); rewrite firstn_length; lia). reflexivity.
  Qed.
End PeekK.

Lemma p8 b : go_Buffer_PeekUint8 b = if (length b <? 1)%nat then Panic else Ok (le_get (firstn 1 b)).
Proof.
  unfold go_Buffer_PeekUint8, go_buf_bytes. cbv zeta. change 1 with (Z.of_nat 1) at 1. rewrite nat_ltb_len.
  destruct b as [|x r]; [reflexivity|]. cbn. f_equal. lia.
Qed.
Lemma p16 b : bytes b -> go_Buffer_PeekUint16 b = if (length b <? 2)%nat then Panic else Ok (le_get (firstn 2 b)).
Proof. intros B. unfold go_Buffer_PeekUint16. cbv zeta. apply (peek_k_spec 2 _ get16_len b B). Qed.
Lemma p32 b : bytes b -> go_Buffer_PeekUint32 b = if (length b <? 4)%nat then Panic else Ok (le_get (firstn 4 b)).
Proof. intros B. unfold go_Buffer_PeekUint32. cbv zeta. apply (peek_k_spec 4 _ get32_len b B). Qed.
Lemma p64 b : bytes b -> go_Buffer_PeekUint64 b = if (length b <? 8)%nat then Panic else Ok (le_get (firstn 8 b)).
Proof. intros B. unfold go_Buffer_PeekUint64. cbv zeta. apply (peek_k_spec 8 _ get64_len b B). Qed.

Lemma src_peek k b : bytes b -> go_peek k b = lift_peek (peek 8 k b).
Proof.
  intros B. unfold peek.
  destruct k; cbn [go_peek width is64 Z.eqb Pos.eqb view];
    unfold go_Buffer_PeekBool, go_Buffer_PeekInt8, go_Buffer_PeekInt16, go_Buffer_PeekInt32, go_Buffer_PeekInt64,
      go_Buffer_PeekUint, go_Buffer_PeekInt, go_Buffer_PeekInt64;
    rewrite ?p8, ?p16, ?p32, ?p64 by assumption;
    match goal with |- context [(length b <? ?n)%nat] => destruct (length b <? n)%nat end;
    cbn [bind lift_peek]; try reflexivity.
  - unfold wraps, bz. change (2 ^ (8 - 1)) with 128. change (2 ^ 8) with 256.
    destruct ((le_get (firstn 1 b) + 128) mod 256 - 128 =? 0); reflexivity.
  - pose proof (le_get_u 8 b B) as R. change (256 ^ Z.of_nat 8) with 18446744073709551616 in R.
    rewrite Z.mod_small by lia. reflexivity.
  - unfold wraps. change (2 ^ (64 - 1)) with 9223372036854775808. change (2 ^ 64) with 18446744073709551616.
    f_equal.
    set (w := (le_get (firstn 8 b) + 9223372036854775808) mod 18446744073709551616 - 9223372036854775808).
    assert (- 9223372036854775808 <= w < 9223372036854775808) by (subst w; lia).
    lia.
Qed.
