(* C19 — correspondence.  case = ((op ...) (ws (out ...)))
     op  = (0 kind value) write | (1 kind) read | (2 kind) peek | (3) Bytes()
         | (4 #bytes) Write(bytes) of the embedded bytes.Buffer | (5) Reset()
         | (9 seed total) a whole deep-buffer run regenerated and evaluated in Go
     out = (0 len) after a write | (1 value len) read/peek returned | (2 len) it panicked
         | (3 #bytes)
   kind = 0 bool 1 u8 2 i8 3 u16 4 i16 5 u32 6 i32 7 u64 8 i64 9 uint 10 int 11 f32 12 f64.
   `check` (a) runs the model on the ops and compares every output, and (b) evaluates the
   property on the implementation's outputs against a reference written independently of
   the model: a plain FIFO list of the typed values written so far. *)
From Coq Require Import ZArith List Bool.
From FV Require Import Lib.Sx Lib.Wrap Lib.LE C19.Model.
Import ListNotations.
Open Scope Z_scope.

Definition kind_of (z : Z) : option kind :=
  match z with
  | 0 => Some KBool | 1 => Some KU8 | 2 => Some KI8 | 3 => Some KU16 | 4 => Some KI16
  | 5 => Some KU32 | 6 => Some KI32 | 7 => Some KU64 | 8 => Some KI64 | 9 => Some KUint
  | 10 => Some KInt | 11 => Some KF32 | 12 => Some KF64 | _ => None
  end.

Definition kind_code (k : kind) : Z :=
  match k with
  | KBool => 0 | KU8 => 1 | KI8 => 2 | KU16 => 3 | KI16 => 4 | KU32 => 5 | KI32 => 6
  | KU64 => 7 | KI64 => 8 | KUint => 9 | KInt => 10 | KF32 => 11 | KF64 => 12
  end.
Definition kind_eqb (a b : kind) : bool := kind_code a =? kind_code b.

Definition op_of (s : sx) : option op :=
  match s with
  | SList [SInt 0; SInt k; SInt v] => option_map (fun k => OWrite k v) (kind_of k)
  | SList [SInt 1; SInt k] => option_map ORead (kind_of k)
  | SList [SInt 2; SInt k] => option_map OPeek (kind_of k)
  | SList [SInt 3] => Some OBytes
  | SList [SInt 4; SBytes bs] => Some (ORaw (map Z.of_N bs))
  | SList [SInt 5] => Some OReset
  | _ => None
  end.

(* observed outputs, lengths as Z *)
Inductive obs : Type :=
| BLen (len : Z) | BVal (v len : Z) | BPanic (len : Z) | BBytes (b : list Z).

Definition obs_of (s : sx) : option obs :=
  match s with
  | SList [SInt 0; SInt n] => Some (BLen n)
  | SList [SInt 1; SInt v; SInt n] => Some (BVal v n)
  | SList [SInt 2; SInt n] => Some (BPanic n)
  | SList [SInt 3; SBytes b] => Some (BBytes (map Z.of_N b))
  | _ => None
  end.

Definition zlist_eqb := list_eqb Z.eqb.

(* ---- (a) model = implementation ---------------------------------------------------- *)
Definition out_matches (m : out) (o : obs) : verdict :=
  match m, o with
  | RLen n, BLen n' => check_that (Z.of_nat n =? n') (VMismatch 1)
  | RVal v n, BVal v' n' => check_that ((v =? v') && (Z.of_nat n =? n')) (VMismatch 2)
  | RPanic n, BPanic n' => check_that (Z.of_nat n =? n') (VMismatch 3)
  | RBytes b, BBytes b' => check_that (zlist_eqb b b') (VMismatch 4)
  | RVal _ _, BPanic _ | RPanic _, BVal _ _ => VMismatch 3
  | RLen _, BPanic _ => VMismatch 1               (* a write panicked *)
  | _, _ => VBad
  end.

Fixpoint outs_match (ms : list out) (os : list obs) : verdict :=
  match ms, os with
  | [], [] => VOk
  | m :: ms', o :: os' => vjoin (out_matches m o) (outs_match ms' os')
  | _, _ => VBad
  end.

(* ---- (b) the property on the implementation's outputs ------------------------------ *)
(* width table of the statement, restated *)
Definition spec_width (ws : Z) (k : kind) : Z :=
  match k with
  | KBool | KU8 | KI8 => 1
  | KU16 | KI16 => 2
  | KU32 | KI32 | KF32 => 4
  | KU64 | KI64 | KF64 => 8
  | KUint | KInt => ws
  end.

(* little-endian bytes of a typed value: byte i = bits 8i..8i+7 of its two's complement *)
Definition spec_bytes (ws : Z) (k : kind) (v : Z) : list Z :=
  let w := spec_width ws k in
  let tc := v mod 2 ^ (8 * w) in
  map (fun i => (tc / 2 ^ (8 * Z.of_nat i)) mod 256) (seq 0 (Z.to_nat w)).

(* what a typed read of kind k makes of the first bytes of the unread data: the little-endian
   number, reinterpreted by the type (restated here, independently of the model) *)
Definition spec_le (l : list Z) : Z :=
  fold_right (fun b acc => b + 256 * acc) 0 l.
Definition spec_view (ws : Z) (k : kind) (u : Z) : Z :=
  let bits := 8 * spec_width ws k in
  match k with
  | KBool => if u =? 0 then 0 else 1
  | KI8 | KI16 | KI32 | KI64 | KInt => if u <? 2 ^ (bits - 1) then u else u - 2 ^ bits
  | _ => u
  end.

Record pstate : Type := mkP {
  pq : list (kind * Z);      (* written and not yet read back, oldest first *)
  psync : bool;              (* every read so far asked for the kind at the head of pq *)
  plen : Z;                  (* Len() as last reported by the implementation *)
  pv : verdict }.

Definition unread_of (ws : Z) (q : list (kind * Z)) : list Z :=
  concat (map (fun kv => spec_bytes ws (fst kv) (snd kv)) q).

Definition fail (p : pstate) (w : N) : verdict := vjoin (pv p) (VPropFail w).
Definition ok_if (p : pstate) (b : bool) (w : N) : verdict := if b then pv p else fail p w.

Definition pstep (ws : Z) (p : pstate) (o : op) (x : obs) : option pstate :=
  match o, x with
  | OWrite k v, BLen n =>
      Some (mkP (pq p ++ [(k, v)]) (psync p) n (ok_if p (n =? plen p + spec_width ws k) 1))
  | ORead k, BVal v n =>
      match pq p with
      | (k', v') :: q' =>
          if psync p && kind_eqb k k'
          then Some (mkP q' true n (ok_if p ((v =? v') && (n =? plen p - spec_width ws k)) 3))
          else Some (mkP q' false n (pv p))
      | [] => Some (mkP [] false n (pv p))
      end
  | ORead k, BPanic n =>
      match pq p with
      | (k', _) :: q' =>
          if psync p && kind_eqb k k' then Some (mkP q' false n (fail p 3))
          else Some (mkP (pq p) false n (pv p))
      | [] =>
          (* a read of an EMPTY buffer fails and changes nothing (polling for data): the history
             goes on in step with the reference *)
          if psync p then Some (mkP [] true n (ok_if p (n =? 0) 3)) else Some (mkP [] false n (pv p))
      end
  (* a peek of ANY kind at ANY time returns what a read of that kind would return now: the
     decoding of the current unread bytes (when at least the width is there; with less a panic
     is allowed), and consumes nothing *)
  | OPeek k, BVal v n =>
      let w := Z.to_nat (spec_width ws k) in
      let bytes := unread_of ws (pq p) in
      let same := match pq p with
                  | (k', v') :: _ => if kind_eqb k k' then v =? v' else true
                  | [] => true
                  end in
      if psync p
      then Some (mkP (pq p) true n
                     (ok_if p ((n =? plen p) && same &&
                               (if (length bytes <? w)%nat then true
                                else v =? spec_view ws k (spec_le (firstn w bytes)))) 4))
      else Some (mkP (pq p) false n (ok_if p (n =? plen p) 4))
  | OPeek k, BPanic n =>
      let w := Z.to_nat (spec_width ws k) in
      if psync p
      then Some (mkP (pq p) true n (ok_if p ((n =? plen p) && (length (unread_of ws (pq p)) <? w)%nat) 4))
      else Some (mkP (pq p) false n (ok_if p (n =? plen p) 4))
  (* raw bytes written through the embedded bytes.Buffer are that many uint8 values; Reset()
     drops everything unread (and the reference is in step with the buffer again) *)
  | ORaw bs, BLen n =>
      Some (mkP (pq p ++ map (fun x => (KU8, x)) bs) (psync p) n (ok_if p (n =? plen p + Z.of_nat (length bs)) 1))
  | OReset, BLen n => Some (mkP [] true n (ok_if p (n =? 0) 3))
  (* a write never panics on a healthy buffer: it appends its width *)
  | OWrite k v, BPanic n => Some (mkP (pq p) false n (fail p 1))
  | OBytes, BBytes b =>
      if psync p
      then Some (mkP (pq p) true (plen p)
                     (ok_if p (zlist_eqb b (concat (map (fun kv => spec_bytes ws (fst kv) (snd kv)) (pq p)))) 2))
      else Some p
  | _, _ => None
  end.

Fixpoint prun (ws : Z) (p : pstate) (ops : list op) (xs : list obs) : option pstate :=
  match ops, xs with
  | [], [] => Some p
  | o :: ops', x :: xs' => match pstep ws p o x with
                           | Some p' => prun ws p' ops' xs'
                           | None => None
                           end
  | _, _ => None
  end.

Definition prop_verdict (ws : Z) (ops : list op) (xs : list obs) : verdict :=
  match prun ws (mkP [] true 0 VOk) ops xs with
  | Some p =>
      (* "and leaves the buffer empty" *)
      match pq p with
      | [] => if psync p then ok_if p (plen p =? 0) 3 else pv p
      | _ => pv p
      end
  | None => VBad
  end.

Definition check (c : sx) : verdict :=
  match c with
  (* a deep-buffer run evaluated in Go (harness/cmd/c19: deep): (9 seed total) -> (9 code index),
     code 0 ok | 1 width | 3 read-back / not empty | 5 panic *)
  | SList [SList [SList [SInt 9; SInt _; SInt _]]; SList [SInt _; SList [SList [SInt 9; SInt code; SInt _]]]] =>
      if code =? 0 then VOk else if code =? 1 then VPropFail 1 else if code =? 4 then VPropFail 4 else VPropFail 3
  (* histories evaluated in Go against a per-buffer FIFO reference (harness/cmd/c19: phases, multi):
     (12 seed big) one buffer through backlog / complete drain / reuse phases -> (12 code phase);
     (13 seed nbuf steps) nbuf buffers interleaved in one goroutine -> (13 code step);
     code 0 ok | 1 width | 3 read-back | 4 peek | 5 panic *)
  | SList [SList [SList [SInt 12; SInt _; SInt _]]; SList [SInt _; SList [SList [SInt 12; SInt code; SInt _]]]]
  | SList [SList [SList [SInt 13; SInt _; SInt _; SInt _]]; SList [SInt _; SList [SList [SInt 13; SInt code; SInt _]]]] =>
      if code =? 0 then VOk else if code =? 1 then VPropFail 1 else if code =? 4 then VPropFail 4 else VPropFail 3
  (* private buffers on concurrent goroutines, evaluated in Go (harness/cmd/c19: concurrent):
     (11 seed goroutines rounds) -> (11 code 0), code 0 ok | 1 width | 3 read-back | 4 peek | 5 panic *)
  | SList [SList [SList [SInt 11; SInt _; SInt _; SInt _]]; SList [SInt _; SList [SList [SInt 11; SInt code; SInt _]]]] =>
      if code =? 0 then VOk else if code =? 1 then VPropFail 1 else if code =? 4 then VPropFail 4 else VPropFail 3
  (* the exact-length sweep around 2^k evaluated in Go (harness/cmd/c19: boundary): (10 k) -> (10 code L),
     code 0 ok | 1 width | 2 layout | 3 read | 4 peek | 5 panic *)
  | SList [SList [SList [SInt 10; SInt _]]; SList [SInt _; SList [SList [SInt 10; SInt code; SInt _]]]] =>
      if code =? 0 then VOk else if code =? 1 then VPropFail 1 else if code =? 2 then VPropFail 2
      else if code =? 4 then VPropFail 4 else VPropFail 3
  | SList [SList ops; SList [SInt ws; SList outs]] =>
      match map_opt op_of ops, map_opt obs_of outs with
      | Some ops, Some xs =>
          if (ws =? 4) || (ws =? 8) then
            let '(_, ms) := run ws [] ops in
            vjoin (prop_verdict ws ops xs) (outs_match ms xs)
          else VBad
      | _, _ => VBad
      end
  | _ => VBad
  end.
