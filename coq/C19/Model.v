(* C19 — the typed byte buffer (qnet/buffer.go).  Executable model; nothing is proved here.

   The buffer is the list of unread bytes of the embedded bytes.Buffer.  Values are Z in the
   natural range of their Go type (bool 0/1, signed values negative where negative, floats as
   their IEEE-754 bit patterns: math.Float32bits / Float64bits are the identity on patterns).
   `ws` is the platform word size in bytes (4 or 8): is64Bit  <->  ws = 8.

   WriteInt / WriteUint are modelled as the property demands (8 bytes on 64-bit platforms,
   4 on 32-bit ones), i.e. `if is64Bit { 8 bytes } else { 4 bytes }`. *)
From Coq Require Import ZArith List Bool.
From FV Require Import Lib.Wrap Lib.LE.
Import ListNotations.
Open Scope Z_scope.

Inductive kind : Type :=
| KBool | KU8 | KI8 | KU16 | KI16 | KU32 | KI32 | KU64 | KI64 | KUint | KInt | KF32 | KF64.

Definition is64 (ws : Z) : bool := ws =? 8.

(* bytes appended by Write<kind> / consumed by Read<kind> *)
Definition width (ws : Z) (k : kind) : nat :=
  match k with
  | KBool | KU8 | KI8 => 1
  | KU16 | KI16 => 2
  | KU32 | KI32 | KF32 => 4
  | KU64 | KI64 | KF64 => 8
  | KUint | KInt => if is64 ws then 8 else 4
  end%nat.

(* --- writes ------------------------------------------------------------------------- *)
Definition write_u8 (n : Z) (b : list Z) : list Z := b ++ [wrapu 8 n].          (* WriteByte *)
Definition write_u16 (n : Z) (b : list Z) : list Z := b ++ le_put 2 n.          (* PutUint16 + Write *)
Definition write_u32 (n : Z) (b : list Z) : list Z := b ++ le_put 4 n.
Definition write_u64 (n : Z) (b : list Z) : list Z := b ++ le_put 8 n.

Definition write (ws : Z) (k : kind) (v : Z) (b : list Z) : list Z :=
  match k with
  | KBool => write_u8 (if v =? 0 then 0 else 1) b
  | KU8 => write_u8 v b
  | KI8 => write_u8 (wrapu 8 v) b                         (* byte(n) *)
  | KU16 => write_u16 v b
  | KI16 => write_u16 (wrapu 16 v) b                      (* WriteUint16(uint16(n)) *)
  | KU32 => write_u32 v b
  | KI32 => write_u32 (wrapu 32 v) b
  | KU64 => write_u64 v b
  | KI64 => write_u64 (wrapu 64 v) b
  | KUint => if is64 ws then write_u64 (wrapu 64 v) b else write_u32 (wrapu 32 v) b
  | KInt => if is64 ws then write_u64 (wrapu 64 (wraps 64 v)) b      (* WriteInt64(int64(n)) *)
            else write_u32 (wrapu 32 (wraps 32 v)) b                 (* WriteInt32(int32(n)) *)
  | KF32 => write_u32 v b                                 (* Float32bits *)
  | KF64 => write_u64 v b
  end.

(* --- reads -------------------------------------------------------------------------- *)
(* bytes.Buffer.Read(tmp[:n]) into a zeroed array / ReadByte: an empty buffer yields io.EOF
   (the callers panic); otherwise min(n, len) bytes are copied and consumed and NO error is
   returned, so a short buffer silently decodes as if padded with zero bytes. *)
Definition read_raw (n : nat) (b : list Z) : option (Z * list Z) :=
  match b with
  | [] => None
  | _ => Some (le_get (firstn n b), skipn n b)
  end.

(* the typed view of the n raw bytes *)
Definition view (ws : Z) (k : kind) (u : Z) : Z :=
  match k with
  | KBool => if wraps 8 u =? 0 then 0 else 1              (* ReadInt8() != 0 *)
  | KU8 | KU16 | KU32 | KU64 | KF32 | KF64 => u
  | KI8 => wraps 8 u
  | KI16 => wraps 16 u
  | KI32 => wraps 32 u
  | KI64 => wraps 64 u
  | KUint => u                                            (* uint(ReadUint64()) / uint(ReadUint32()) *)
  | KInt => if is64 ws then wraps 64 u else wraps 32 u    (* int(ReadInt64()) / int(ReadInt32()) *)
  end.

(* None = panic *)
Definition read (ws : Z) (k : kind) (b : list Z) : option Z * list Z :=
  match read_raw (width ws k) b with
  | None => (None, b)
  | Some (u, b') => (Some (view ws k u), b')
  end.

(* Peek<kind>: panics (ErrBufferOutOfRange) unless the whole width is available *)
Definition peek (ws : Z) (k : kind) (b : list Z) : option Z :=
  if (length b <? width ws k)%nat then None
  else Some (view ws k (le_get (firstn (width ws k) b))).

(* --- operation sequences ------------------------------------------------------------- *)
Inductive op : Type :=
| OWrite (k : kind) (v : Z)
| ORead (k : kind)
| OPeek (k : kind)
| OBytes                       (* Bytes(): the unread part *)
| OReset                       (* Reset() of the embedded bytes.Buffer: everything unread is dropped *)
| ORaw (bs : list Z).          (* Write(bs) of the embedded bytes.Buffer: raw bytes, appended verbatim *)

Inductive out : Type :=
| RLen (len : nat)             (* Len() after a write *)
| RVal (v : Z) (len : nat)     (* value returned by a read / peek, Len() afterwards *)
| RPanic (len : nat)
| RBytes (b : list Z).

Definition step (ws : Z) (b : list Z) (o : op) : list Z * out :=
  match o with
  | OWrite k v => let b' := write ws k v b in (b', RLen (length b'))
  | ORead k => match read ws k b with
               | (Some v, b') => (b', RVal v (length b'))
               | (None, b') => (b', RPanic (length b'))
               end
  | OPeek k => match peek ws k b with
               | Some v => (b, RVal v (length b))
               | None => (b, RPanic (length b))
               end
  | OBytes => (b, RBytes b)
  | OReset => ([], RLen 0)
  | ORaw bs => (b ++ bs, RLen (length (b ++ bs)))
  end.

Fixpoint run (ws : Z) (b : list Z) (ops : list op) : list Z * list out :=
  match ops with
  | [] => (b, [])
  | o :: r => let '(b', x) := step ws b o in
              let '(b'', xs) := run ws b' r in (b'', x :: xs)
  end.
