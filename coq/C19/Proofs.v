(* C19 — lemmas about the typed byte buffer model. *)
From Coq Require Import ZArith List Bool Lia.
From FV Require Import Lib.Wrap Lib.LE C19.Model.
Import ListNotations.
Open Scope Z_scope.

Definition word_size (ws : Z) : Prop := ws = 4 \/ ws = 8.

(* the bytes one write appends *)
Definition enc (ws : Z) (k : kind) (v : Z) : list Z := write ws k v [].

Lemma write_app ws k v b : write ws k v b = b ++ enc ws k v.
Proof.
  unfold enc. destruct k; cbn [write]; unfold write_u8, write_u16, write_u32, write_u64;
    try destruct (is64 ws); reflexivity.
Qed.

Lemma enc_length ws k v : length (enc ws k v) = width ws k.
Proof.
  unfold enc. destruct k; cbn [write width]; unfold write_u8, write_u16, write_u32, write_u64;
    try destruct (is64 ws); cbn [app]; rewrite ?le_put_length; reflexivity.
Qed.

Lemma write_length ws k v b : length (write ws k v b) = (length b + width ws k)%nat.
Proof. rewrite write_app, app_length, enc_length. reflexivity. Qed.
