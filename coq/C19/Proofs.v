(* C19 — lemmas about the typed byte buffer model. *)
From Coq Require Import ZArith List Bool Lia.
From FV Require Import Lib.Wrap Lib.LE C19.Model.
Import ListNotations.
Open Scope Z_scope.

Definition word_size (ws : Z) : Prop := ws = 4 \/ ws = 8.

(* values in the range of their Go type *)
Definition wf (ws : Z) (k : kind) (v : Z) : Prop :=
  match k with
  | KBool => v = 0 \/ v = 1
  | KU8 => in_u 8 v
  | KI8 => in_s 8 v
  | KU16 => in_u 16 v
  | KI16 => in_s 16 v
  | KU32 | KF32 => in_u 32 v
  | KI32 => in_s 32 v
  | KU64 | KF64 => in_u 64 v
  | KI64 => in_s 64 v
  | KUint => in_u (8 * ws) v
  | KInt => in_s (8 * ws) v
  end.

Definition tv : Type := (kind * Z)%type.
Definition wf_tv (ws : Z) (x : tv) : Prop := wf ws (fst x) (snd x).

(* the bytes one write appends *)
Definition enc (ws : Z) (k : kind) (v : Z) : list Z := write ws k v [].

Lemma write_app ws k v b : write ws k v b = b ++ enc ws k v.
Proof.
  unfold enc. destruct k; cbn [write]; unfold write_u8, write_u16, write_u32, write_u64;
    try destruct (is64 ws); reflexivity.
Qed.

Lemma enc_length ws k v : length (enc ws k v) = width ws k.
Proof.
  unfold enc. destruct k; cbn [write width]; unfold write_u8, write_u16, write_u32, write_u64;
    try destruct (is64 ws); cbn [app]; rewrite ?le_put_length; reflexivity.
Qed.

Lemma write_length ws k v b : length (write ws k v b) = (length b + width ws k)%nat.
Proof. rewrite write_app, app_length, enc_length. reflexivity. Qed.

Lemma width_pos ws k : (0 < width ws k)%nat.
Proof. destruct k; cbn [width]; try destruct (is64 ws); lia. Qed.

(* the unsigned number whose little-endian bytes a write appends: the value's two's complement
   at the width of its type *)
Definition ubits (ws : Z) (k : kind) (v : Z) : Z := v mod 2 ^ (8 * Z.of_nat (width ws k)).

Lemma pow256 n : 256 ^ Z.of_nat n = 2 ^ (8 * Z.of_nat n).
Proof. change 256 with (2 ^ 8). rewrite <- Z.pow_mul_r by lia. reflexivity. Qed.

Lemma wrapu8_le_put v : [wrapu 8 v] = le_put 1 v.
Proof. reflexivity. Qed.

Lemma le_put_wrapu n bits v : bits = 8 * Z.of_nat n -> le_put n (wrapu bits v) = le_put n v.
Proof. intros ->. unfold wrapu. rewrite <- pow256. apply le_put_mod. Qed.

Lemma le_put_ubits ws k v : le_put (width ws k) (ubits ws k v) = le_put (width ws k) v.
Proof. unfold ubits. rewrite <- pow256. apply le_put_mod. Qed.

(* every write appends the little-endian bytes of the value's two's complement *)
Lemma enc_le_put ws k v : word_size ws -> wf ws k v -> enc ws k v = le_put (width ws k) (ubits ws k v).
Proof.
  intros Hws Hwf. rewrite le_put_ubits. unfold enc.
  destruct k; cbn [write width]; unfold write_u8, write_u16, write_u32, write_u64; cbn [app];
    rewrite ?wrapu8_le_put;
    try reflexivity;
    try (rewrite !le_put_wrapu by reflexivity; reflexivity).
  - (* bool *) cbn [wf] in Hwf. destruct Hwf as [-> | ->]; reflexivity.
  - (* uint *) destruct Hws as [-> | ->]; cbn [is64 Z.eqb Pos.eqb]; rewrite le_put_wrapu by reflexivity; reflexivity.
  - (* int *) cbn [wf] in Hwf.
    destruct Hws as [-> | ->]; cbn [is64 Z.eqb Pos.eqb]; rewrite le_put_wrapu by reflexivity;
      rewrite wraps_small by (try lia; exact Hwf); reflexivity.
Qed.

Lemma enc_nth ws k v i : word_size ws -> wf ws k v -> (i < width ws k)%nat ->
  nth i (enc ws k v) 0 = (ubits ws k v / 256 ^ Z.of_nat i) mod 256.
Proof. intros Hws Hwf Hi. rewrite enc_le_put by assumption. apply le_put_nth; assumption. Qed.

(* ---- reading one value back ----------------------------------------------------------- *)
Lemma read_raw_nonempty n b : b <> [] -> read_raw n b = Some (le_get (firstn n b), skipn n b).
Proof. destruct b; [congruence|reflexivity]. Qed.

Lemma read_raw_put n u rest : (0 < n)%nat ->
  read_raw n (le_put n u ++ rest) = Some (u mod 256 ^ Z.of_nat n, rest).
Proof.
  intros Hn. rewrite read_raw_nonempty.
  - rewrite le_get_firstn_app, skipn_le_put_app. reflexivity.
  - destruct n; [lia|]. cbn [le_put app]. discriminate.
Qed.

(* the typed view of the stored bits is the value written *)
Lemma view_ubits ws k v : word_size ws -> wf ws k v ->
  view ws k (ubits ws k v mod 256 ^ Z.of_nat (width ws k)) = v.
Proof.
  intros Hws Hwf. unfold ubits. rewrite pow256.
  rewrite Z.mod_mod by (pose proof (pow2_pos (8 * Z.of_nat (width ws k))); lia).
  destruct k; cbn [wf width view] in *.
  - destruct Hwf as [-> | ->]; reflexivity.
  - apply Z.mod_small. exact Hwf.
  - change (8 * Z.of_nat 1) with 8. apply (wraps_wrapu_small 8); [lia|exact Hwf].
  - apply Z.mod_small. exact Hwf.
  - change (8 * Z.of_nat 2) with 16. apply (wraps_wrapu_small 16); [lia|exact Hwf].
  - apply Z.mod_small. exact Hwf.
  - change (8 * Z.of_nat 4) with 32. apply (wraps_wrapu_small 32); [lia|exact Hwf].
  - apply Z.mod_small. exact Hwf.
  - change (8 * Z.of_nat 8) with 64. apply (wraps_wrapu_small 64); [lia|exact Hwf].
  - destruct Hws as [-> | ->]; cbn [is64 Z.eqb Pos.eqb]; apply Z.mod_small; exact Hwf.
  - destruct Hws as [-> | ->]; cbn [is64 Z.eqb Pos.eqb].
    + change (8 * Z.of_nat 4) with 32. apply (wraps_wrapu_small 32); [lia|exact Hwf].
    + change (8 * Z.of_nat 8) with 64. apply (wraps_wrapu_small 64); [lia|exact Hwf].
  - apply Z.mod_small. exact Hwf.
  - apply Z.mod_small. exact Hwf.
Qed.

Lemma read_enc ws k v rest : word_size ws -> wf ws k v ->
  read ws k (enc ws k v ++ rest) = (Some v, rest).
Proof.
  intros Hws Hwf. unfold read. rewrite enc_le_put by assumption.
  rewrite read_raw_put by apply width_pos. rewrite view_ubits by assumption. reflexivity.
Qed.

Lemma peek_enc ws k v rest : word_size ws -> wf ws k v ->
  peek ws k (enc ws k v ++ rest) = Some v.
Proof.
  intros Hws Hwf. unfold peek. rewrite app_length, enc_length.
  replace (width ws k + length rest <? width ws k)%nat with false by (symmetry; apply Nat.ltb_ge; lia).
  rewrite enc_le_put by assumption. rewrite le_get_firstn_app, view_ubits by assumption. reflexivity.
Qed.

(* peek against the next read, on any buffer *)
Lemma peek_is_read ws k b : (width ws k <= length b)%nat ->
  peek ws k b = fst (read ws k b) /\ snd (read ws k b) = skipn (width ws k) b.
Proof.
  intros Hlen. unfold peek, read.
  replace (length b <? width ws k)%nat with false by (symmetry; apply Nat.ltb_ge; lia).
  rewrite read_raw_nonempty.
  - split; reflexivity.
  - pose proof (width_pos ws k). destruct b; [cbn in Hlen; lia|discriminate].
Qed.

Lemma peek_short ws k b : (length b < width ws k)%nat -> peek ws k b = None.
Proof. intros H. unfold peek. now rewrite (proj2 (Nat.ltb_lt _ _) H). Qed.

Lemma read_empty ws k : read ws k [] = (None, []).
Proof. reflexivity. Qed.

(* ---- sequences -------------------------------------------------------------------------- *)
Definition encs (ws : Z) (q : list tv) : list Z := concat (map (fun x => enc ws (fst x) (snd x)) q).

Lemma encs_app ws a b : encs ws (a ++ b) = encs ws a ++ encs ws b.
Proof. unfold encs. now rewrite map_app, concat_app. Qed.

Lemma encs_cons ws x q : encs ws (x :: q) = enc ws (fst x) (snd x) ++ encs ws q.
Proof. reflexivity. Qed.

Lemma run_app ws b o1 o2 :
  run ws b (o1 ++ o2) =
  let '(b1, x1) := run ws b o1 in let '(b2, x2) := run ws b1 o2 in (b2, x1 ++ x2).
Proof.
  revert b; induction o1 as [|o o1 IH]; intros b; cbn [app run].
  - destruct (run ws b o2); reflexivity.
  - destruct (step ws b o) as [b' x]. rewrite IH.
    destruct (run ws b' o1) as [b1 x1]. destruct (run ws b1 o2) as [b2 x2]. reflexivity.
Qed.

Definition kind_eq_dec (a b : kind) : {a = b} + {a <> b}.
Proof. decide equality. Defined.

(* The reference: a FIFO queue of typed values.  A read or peek is answered only when it asks
   for the kind at the head of the queue (None = outside the contract). *)
Definition sstep (ws : Z) (q : list tv) (o : op) : option (list tv * out) :=
  match o with
  | OWrite k v => Some (q ++ [(k, v)], RLen (length (encs ws (q ++ [(k, v)]))))
  | ORead k => match q with
               | (k', v) :: q' => if kind_eq_dec k k' then Some (q', RVal v (length (encs ws q'))) else None
               | [] => None
               end
  | OPeek k => match q with
               | (k', v) :: _ => if kind_eq_dec k k' then Some (q, RVal v (length (encs ws q))) else None
               | [] => None
               end
  | OBytes => Some (q, RBytes (encs ws q))
  | OReset => Some ([], RLen 0)
  | ORaw bs => let q' := q ++ map (fun x => (KU8, x)) bs in Some (q', RLen (length (encs ws q')))
  end.

Fixpoint srun (ws : Z) (q : list tv) (ops : list op) : option (list tv * list out) :=
  match ops with
  | [] => Some (q, [])
  | o :: r => match sstep ws q o with
              | None => None
              | Some (q', x) => match srun ws q' r with
                                | None => None
                                | Some (q'', xs) => Some (q'', x :: xs)
                                end
              end
  end.

Definition wf_op (ws : Z) (o : op) : Prop :=
  match o with OWrite k v => wf ws k v | ORaw bs => Forall is_byte bs | _ => True end.

(* raw bytes are the same thing as that many uint8 values *)
Lemma encs_raw ws bs : Forall is_byte bs -> encs ws (map (fun x => (KU8, x)) bs) = bs.
Proof.
  induction 1 as [|x l Hx _ IH]; [reflexivity|]. cbn [map]. rewrite encs_cons, IH. cbn [fst snd].
  unfold enc. cbn [write]. unfold write_u8. cbn [app]. f_equal. apply wrapu_small. exact Hx.
Qed.

Lemma wf_raw ws bs : Forall is_byte bs -> Forall (wf_tv ws) (map (fun x => (KU8, x)) bs).
Proof. induction 1; cbn [map]; constructor; [assumption|assumption]. Qed.

Lemma step_refines ws q o q' x : word_size ws -> Forall (wf_tv ws) q -> wf_op ws o ->
  sstep ws q o = Some (q', x) ->
  step ws (encs ws q) o = (encs ws q', x) /\ Forall (wf_tv ws) q'.
Proof.
  intros Hws Hq Ho Hs. destruct o as [k v|k|k| | |bs]; cbn [sstep step] in *.
  - inversion Hs; subst. rewrite write_app. rewrite encs_app. cbn [encs map concat fst snd].
    rewrite app_nil_r. split; [reflexivity|]. apply Forall_app; split; [assumption|]. constructor; [exact Ho|constructor].
  - destruct q as [|[k' v'] q0]; [discriminate|]. destruct (kind_eq_dec k k') as [->|]; [|discriminate].
    inversion Hs; subst. inversion Hq as [|? ? Hx Hq0]; subst. rewrite encs_cons. cbn [fst snd].
    rewrite read_enc by (assumption || exact Hx). split; [reflexivity|assumption].
  - destruct q as [|[k' v'] q0]; [discriminate|]. destruct (kind_eq_dec k k') as [->|]; [|discriminate].
    inversion Hs; subst. inversion Hq as [|? ? Hx Hq0]; subst. rewrite encs_cons. cbn [fst snd].
    rewrite peek_enc by (assumption || exact Hx). split; [reflexivity|assumption].
  - inversion Hs; subst. split; [reflexivity|assumption].
  - inversion Hs; subst. split; [reflexivity|constructor].
  - inversion Hs; subst. rewrite encs_app, (encs_raw ws bs Ho). split; [reflexivity|].
    apply Forall_app; split; [assumption|apply wf_raw; exact Ho].
Qed.

(* refinement: on every operation sequence inside the contract the buffer behaves as the queue *)
Lemma run_refines ws : word_size ws -> forall ops q q' xs,
  Forall (wf_tv ws) q -> Forall (wf_op ws) ops -> srun ws q ops = Some (q', xs) ->
  run ws (encs ws q) ops = (encs ws q', xs) /\ Forall (wf_tv ws) q'.
Proof.
  intros Hws. induction ops as [|o r IH]; intros q q' xs Hq Hops Hs; cbn [srun run] in *.
  - inversion Hs; subst. split; [reflexivity|assumption].
  - inversion Hops as [|? ? Ho Hr]; subst.
    destruct (sstep ws q o) as [[q1 x]|] eqn:E1; [|discriminate].
    destruct (srun ws q1 r) as [[q2 xs2]|] eqn:E2; [|discriminate].
    inversion Hs; subst.
    destruct (step_refines ws q o q1 x Hws Hq Ho E1) as [Hstep Hq1].
    rewrite Hstep. destruct (IH q1 q' xs2 Hq1 Hr E2) as [Hrun Hq']. rewrite Hrun.
    split; [reflexivity|assumption].
Qed.

(* ---- write everything, read everything back ---------------------------------------------- *)
Definition wop (x : tv) : op := OWrite (fst x) (snd x).
Definition rop (x : tv) : op := ORead (fst x).

(* the values returned by reads and peeks, in order (None = panic) *)
Definition vals_of (xs : list out) : list (option Z) :=
  flat_map (fun x => match x with RVal v _ => [Some v] | RPanic _ => [None] | _ => [] end) xs.

Lemma srun_writes ws vs : forall q,
  exists xs, srun ws q (map wop vs) = Some (q ++ vs, xs) /\ vals_of xs = [].
Proof.
  induction vs as [|[k v] vs IH]; intros q; cbn [map srun].
  - exists []. rewrite app_nil_r. split; reflexivity.
  - cbn [wop fst snd sstep]. destruct (IH (q ++ [(k, v)])) as (xs & Hs & Hv). rewrite Hs.
    eexists. rewrite <- app_assoc. split; [reflexivity|]. cbn [vals_of flat_map app]. exact Hv.
Qed.

Lemma srun_reads ws vs : forall rest,
  exists xs, srun ws (vs ++ rest) (map rop vs) = Some (rest, xs) /\ vals_of xs = map (fun x => Some (snd x)) vs.
Proof.
  induction vs as [|[k v] vs IH]; intros rest; cbn [map srun app].
  - exists []. split; reflexivity.
  - cbn [rop fst sstep]. destruct (kind_eq_dec k k) as [_|]; [|congruence].
    destruct (IH rest) as (xs & Hs & Hv). rewrite Hs. eexists. split; [reflexivity|].
    cbn [vals_of flat_map app map snd]. f_equal. exact Hv.
Qed.

Lemma vals_of_app a b : vals_of (a ++ b) = vals_of a ++ vals_of b.
Proof. unfold vals_of. apply flat_map_app. Qed.

Lemma srun_app ws o1 o2 q q1 x1 q2 x2 :
  srun ws q o1 = Some (q1, x1) -> srun ws q1 o2 = Some (q2, x2) ->
  srun ws q (o1 ++ o2) = Some (q2, x1 ++ x2).
Proof.
  revert q q1 x1; induction o1 as [|o o1 IH]; intros q q1 x1 H1 H2; cbn [app srun] in *.
  - inversion H1; subst. exact H2.
  - destruct (sstep ws q o) as [[q' x]|]; [|discriminate].
    destruct (srun ws q' o1) as [[q'' xs]|] eqn:E; [|discriminate]. inversion H1; subst.
    rewrite (IH q' q1 xs E H2). reflexivity.
Qed.

Lemma wf_ops_writes ws vs : Forall (wf_tv ws) vs -> Forall (wf_op ws) (map wop vs).
Proof. induction 1 as [|x l Hx Hl IH]; cbn [map]; constructor; [exact Hx|exact IH]. Qed.

Lemma wf_ops_reads ws (vs : list tv) : Forall (wf_op ws) (map rop vs).
Proof. induction vs; cbn [map]; constructor; [exact I|assumption]. Qed.

Lemma roundtrip ws vs : word_size ws -> Forall (wf_tv ws) vs ->
  fst (run ws [] (map wop vs ++ map rop vs)) = [] /\
  vals_of (snd (run ws [] (map wop vs ++ map rop vs))) = map (fun x => Some (snd x)) vs.
Proof.
  intros Hws Hvs.
  destruct (srun_writes ws vs []) as (x1 & H1 & Hv1). cbn [app] in H1.
  destruct (srun_reads ws vs []) as (x2 & H2 & Hv2). rewrite app_nil_r in H2.
  pose proof (srun_app ws _ _ _ _ _ _ _ H1 H2) as Hs.
  assert (Hops : Forall (wf_op ws) (map wop vs ++ map rop vs))
    by (apply Forall_app; split; [apply wf_ops_writes; assumption|apply wf_ops_reads]).
  destruct (run_refines ws Hws _ [] [] (x1 ++ x2) (Forall_nil _) Hops Hs) as [Hrun _].
  change (encs ws []) with (@nil Z) in Hrun. rewrite Hrun. cbn [fst snd].
  split; [reflexivity|]. rewrite vals_of_app, Hv1, Hv2. reflexivity.
Qed.

(* after the writes the buffer holds the concatenated little-endian encodings *)
Lemma writes_bytes ws vs b : fst (run ws b (map wop vs)) = b ++ encs ws vs.
Proof.
  revert b; induction vs as [|[k v] vs IH]; intros b; cbn [map run].
  - now rewrite app_nil_r.
  - cbn [wop fst snd step]. specialize (IH (write ws k v b)).
    destruct (run ws (write ws k v b) (map wop vs)) as [b' xs]. cbn [fst] in *.
    rewrite IH, write_app, encs_cons, <- app_assoc. reflexivity.
Qed.

(* ---- what must not change ------------------------------------------------------------------- *)
Lemma read_suffix ws k b : snd (read ws k b) = skipn (width ws k) b.
Proof.
  unfold read, read_raw. destruct b as [|x b]; [destruct (width ws k); reflexivity|]. reflexivity.
Qed.

Lemma peek_keeps ws k b : fst (step ws b (OPeek k)) = b.
Proof. cbn [step]. destruct (peek ws k b); reflexivity. Qed.

Lemma enc_bytes ws k v : word_size ws -> wf ws k v -> Forall is_byte (enc ws k v).
Proof. intros Hws Hwf. rewrite enc_le_put by assumption. apply le_put_bytes. Qed.
