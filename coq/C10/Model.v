(* C10 — executable model of collections/treemap (map.go, entry.go, iterator.go).
   Nothing is proved in this file.

   The Go code is the java.util.TreeMap red-black tree: nodes with parent pointers, loops that
   climb.  The model is a structurally recursive transcription that yields *the same tree
   shapes and colours* (validated against the implementation's pre-order dump on every run):

   - [ins] replays Put's descent and fixAfterInsertion's upward loop.  The status returned
     with the rebuilt subtree says where the loop variable x is: [IDone] the loop has
     stopped; [IRed] the subtree's root is x (red); [IRedRed side] the root is x's red parent
     and x is its child on [side].  [fix_ins_left/right] are the loop body seen from the
     grandparent.
   - [del] replays deleteEntry and fixAfterDeletion.  A node with two children receives its
     successor's key and value and the successor's node is unlinked ([del_min]); [unlink] is
     the "replacement" part; the boolean returned with a subtree means "this subtree is one
     black node short and its root is the loop variable x" ([E] plays the phantom leaf);
     [fixL]/[fixR] are the loop body seen from x's parent.
   - neighbour searches descend with the nearest ancestor at which the search turned the
     other way as accumulator: that is the node the code's parent-climbing loop stops at.
   - iterators hold keys instead of node pointers.  A node keeps its key for as long as it is
     in the tree, except the two-children case of deleteEntry, which moves the successor's
     key into the deleted node: that is the case [EntryIterator.Remove] re-targets
     ([it.next = it.lastReturned]), modelled by "next := the successor's key".
     [IterRemove] of the descending iterators does not re-target (DescendingKeyIterator.Remove;
     the descending entry iterator is modelled with the same, intended, behaviour).
   - [Clear] bumps the version (intended behaviour: a live iterator must notice it). *)
From Coq Require Import ZArith List Bool.
From FV Require Import C10.Spec.
Import ListNotations.
Open Scope Z_scope.

Inductive color := R | B.
Inductive tree := E | T (c : color) (l : tree) (k : Z) (v : Z) (r : tree).

Definition col (t : tree) : color := match t with E => B | T c _ _ _ _ => c end.
Definition isR (t : tree) : bool := match col t with R => true | B => false end.
Definition setc (c : color) (t : tree) : tree :=
  match t with E => E | T _ l k v r => T c l k v r end.

(* ------------------------------------------------------------------ insertion *)
Inductive istat := IDone | IRed | IRedRed (xleft : bool).

(* g = grandparent (colour gc, key gk); p = its left child (red) with a red child on side
   xleft; u = uncle *)
Definition fix_ins_left (gc : color) (p : tree) (gk gv : Z) (u : tree) (xleft : bool) : tree * istat :=
  if isR u then (T R (setc B p) gk gv (setc B u), IRed)
  else
    let p' := if xleft then p else
      match p with
      | T pc pl pk pv (T xc xl xk xv xr) => T xc (T pc pl pk pv xl) xk xv xr   (* rotateLeft(p) *)
      | _ => p end in
    match p' with
    | T _ a k1 v1 b => (T B a k1 v1 (T R b gk gv u), IDone)   (* recolour + rotateRight(g) *)
    | E => (T gc p' gk gv u, IDone) end.

Definition fix_ins_right (gc : color) (u : tree) (gk gv : Z) (p : tree) (xleft : bool) : tree * istat :=
  if isR u then (T R (setc B u) gk gv (setc B p), IRed)
  else
    let p' := if xleft then
      match p with
      | T pc (T xc xl xk xv xr) pk pv pr => T xc xl xk xv (T pc xr pk pv pr)   (* rotateRight(p) *)
      | _ => p end else p in
    match p' with
    | T _ a k1 v1 b => (T B (T R u gk gv a) k1 v1 b, IDone)   (* rotateLeft(g) *)
    | E => (T gc u gk gv p', IDone) end.

Fixpoint ins (k v : Z) (t : tree) : tree * istat :=
  match t with
  | E => (T R E k v E, IRed)
  | T c l k' v' r =>
    match k ?= k' with
    | Eq => (T c l k' v r, IDone)
    | Lt => let '(l', st) := ins k v l in
      match st with
      | IDone => (T c l' k' v' r, IDone)
      | IRed => match c with B => (T c l' k' v' r, IDone) | R => (T c l' k' v' r, IRedRed true) end
      | IRedRed xl => fix_ins_left c l' k' v' r xl
      end
    | Gt => let '(r', st) := ins k v r in
      match st with
      | IDone => (T c l k' v' r', IDone)
      | IRed => match c with B => (T c l k' v' r', IDone) | R => (T c l k' v' r', IRedRed false) end
      | IRedRed xl => fix_ins_right c l k' v' r' xl
      end
    end
  end.

Definition put (k v : Z) (t : tree) : tree := setc B (fst (ins k v t)).

(* ------------------------------------------------------------------ deletion *)
(* x (one black short) is the left child l; the sibling r is black *)
Definition fixL_bs (c : color) (l : tree) (k v : Z) (r : tree) : tree * bool :=
  match r with
  | E => (T B l k v E, match c with B => true | R => false end)
  | T sc rl rk rv rr =>
    if negb (isR rl) && negb (isR rr) then
      (T B l k v (T R rl rk rv rr), match c with B => true | R => false end)
    else
      let s := if negb (isR rr) then
                 match rl with
                 | T _ rll rlk rlv rlr => T B rll rlk rlv (T R rlr rk rv rr)   (* rotateRight(sib) *)
                 | E => r end
               else r in
      match s with
      | T _ sl sk sv sr => (T c (T B l k v sl) sk sv (setc B sr), false)      (* rotateLeft(parent) *)
      | E => (T c l k v s, false) end
  end.
Definition fixL (c : color) (l : tree) (k v : Z) (r : tree) : tree * bool :=
  match r with
  | T R rl rk rv rr => let '(inner, _) := fixL_bs R l k v rl in (T B inner rk rv rr, false)
  | _ => fixL_bs c l k v r
  end.

Definition fixR_bs (c : color) (l : tree) (k v : Z) (r : tree) : tree * bool :=
  match l with
  | E => (T B E k v r, match c with B => true | R => false end)
  | T sc ll lk lv lr =>
    if negb (isR lr) && negb (isR ll) then
      (T B (T R ll lk lv lr) k v r, match c with B => true | R => false end)
    else
      let s := if negb (isR ll) then
                 match lr with
                 | T _ lrl lrk lrv lrr => T B (T R ll lk lv lrl) lrk lrv lrr   (* rotateLeft(sib) *)
                 | E => l end
               else l in
      match s with
      | T _ sl sk sv sr => (T c (setc B sl) sk sv (T B sr k v r), false)      (* rotateRight(parent) *)
      | E => (T c s k v r, false) end
  end.
Definition fixR (c : color) (l : tree) (k v : Z) (r : tree) : tree * bool :=
  match l with
  | T R ll lk lv lr => let '(inner, _) := fixR_bs R lr k v r in (T B ll lk lv inner, false)
  | _ => fixR_bs c l k v r
  end.

(* remove a node of colour c whose children l r are not both non-empty *)
Definition unlink (c : color) (l r : tree) : tree * bool :=
  let rep := match l with E => r | _ => l end in
  match rep with
  | E => (E, match c with B => true | R => false end)
  | _ => match c with
         | R => (rep, false)
         | B => if isR rep then (setc B rep, false) else (rep, true)
         end
  end.

Fixpoint del_min (t : tree) : tree * bool * (Z * Z) :=
  match t with
  | E => (E, false, (0, 0))
  | T c E k v r => let '(t', d) := unlink c E r in (t', d, (k, v))
  | T c l k v r => let '(l', d, kv) := del_min l in
      if d then let '(t', d') := fixL c l' k v r in (t', d', kv) else (T c l' k v r, false, kv)
  end.

Fixpoint del (k : Z) (t : tree) : tree * bool * bool :=
  match t with
  | E => (E, false, false)
  | T c l k' v' r =>
    match k ?= k' with
    | Lt => let '(l', d, f) := del k l in
        if d then let '(t', d') := fixL c l' k' v' r in (t', d', f) else (T c l' k' v' r, false, f)
    | Gt => let '(r', d, f) := del k r in
        if d then let '(t', d') := fixR c l k' v' r' in (t', d', f) else (T c l k' v' r', false, f)
    | Eq =>
        match l, r with
        | T _ _ _ _ _, T _ _ _ _ _ =>                       (* copy the successor, delete its node *)
            let '(r', d, (sk, sv)) := del_min r in
            if d then let '(t', d') := fixR c l sk sv r' in (t', d', true) else (T c l sk sv r', false, true)
        | _, _ => let '(t', d) := unlink c l r in (t', d, true)
        end
    end
  end.

Definition remove (k : Z) (t : tree) : tree := let '(t', _, _) := del k t in setc B t'.

(* ------------------------------------------------------------------ queries *)
Fixpoint lookup (k : Z) (t : tree) : option Z :=
  match t with
  | E => None
  | T _ l k' v' r =>
      match k ?= k' with Lt => lookup k l | Gt => lookup k r | Eq => Some v' end
  end.

(* getFirstEntry / getLastEntry *)
Fixpoint min_entry (t : tree) : option kv :=
  match t with
  | E => None
  | T _ E k v _ => Some (k, v)
  | T _ l _ _ _ => min_entry l
  end.
Fixpoint max_entry (t : tree) : option kv :=
  match t with
  | E => None
  | T _ _ k v E => Some (k, v)
  | T _ _ _ _ r => max_entry r
  end.

(* getCeilingEntry / getHigherEntry: [anc] = nearest ancestor at which the descent went left
   (the node the "while ch == parent.right" climb stops at) *)
Fixpoint ceiling_from (k : Z) (t : tree) (anc : option kv) : option kv :=
  match t with
  | E => anc
  | T _ l k' v' r =>
      match k ?= k' with
      | Lt => ceiling_from k l (Some (k', v'))
      | Gt => ceiling_from k r anc
      | Eq => Some (k', v')
      end
  end.
Fixpoint higher_from (k : Z) (t : tree) (anc : option kv) : option kv :=
  match t with
  | E => anc
  | T _ l k' v' r =>
      match k ?= k' with
      | Lt => higher_from k l (Some (k', v'))
      | _ => higher_from k r anc
      end
  end.
(* getFloorEntry / getLowerEntry: [anc] = nearest ancestor at which the descent went right *)
Fixpoint floor_from (k : Z) (t : tree) (anc : option kv) : option kv :=
  match t with
  | E => anc
  | T _ l k' v' r =>
      match k ?= k' with
      | Gt => floor_from k r (Some (k', v'))
      | Lt => floor_from k l anc
      | Eq => Some (k', v')
      end
  end.
Fixpoint lower_from (k : Z) (t : tree) (anc : option kv) : option kv :=
  match t with
  | E => anc
  | T _ l k' v' r =>
      match k ?= k' with
      | Gt => lower_from k r (Some (k', v'))
      | _ => lower_from k l anc
      end
  end.
Definition ceiling (k : Z) (t : tree) := ceiling_from k t None.
Definition higher (k : Z) (t : tree) := higher_from k t None.
Definition floor (k : Z) (t : tree) := floor_from k t None.
Definition lower (k : Z) (t : tree) := lower_from k t None.

Definition m_access (acc k : Z) (t : tree) : option kv :=
  if acc =? 0 then min_entry t else if acc =? 1 then max_entry t
  else if acc =? 2 then floor k t else if acc =? 3 then ceiling k t
  else if acc =? 4 then higher k t else if acc =? 5 then lower k t else None.

(* successor(e) / predecessor(e) of the node holding k (entry.go): leftmost node of the right
   subtree, else the nearest ancestor reached from its left subtree *)
Fixpoint succ_from (k : Z) (t : tree) (anc : option Z) : option Z :=
  match t with
  | E => None
  | T _ l k' _ r =>
      match k ?= k' with
      | Lt => succ_from k l (Some k')
      | Gt => succ_from k r anc
      | Eq => match r with E => anc | _ => okey (min_entry r) end
      end
  end.
Fixpoint pred_from (k : Z) (t : tree) (anc : option Z) : option Z :=
  match t with
  | E => None
  | T _ l k' _ r =>
      match k ?= k' with
      | Gt => pred_from k r (Some k')
      | Lt => pred_from k l anc
      | Eq => match l with E => anc | _ => okey (max_entry l) end
      end
  end.
Definition succ_key (k : Z) (t : tree) := succ_from k t None.
Definition pred_key (k : Z) (t : tree) := pred_from k t None.

(* does the node holding k have two children? *)
Fixpoint two_children (k : Z) (t : tree) : bool :=
  match t with
  | E => false
  | T _ l k' _ r =>
      match k ?= k' with
      | Lt => two_children k l
      | Gt => two_children k r
      | Eq => match l, r with T _ _ _ _ _, T _ _ _ _ _ => true | _, _ => false end
      end
  end.

Fixpoint inorder (t : tree) : list kv :=
  match t with E => [] | T _ l k v r => inorder l ++ (k, v) :: inorder r end.
Fixpoint preorder (t : tree) : list kv :=
  match t with E => [] | T _ l k v r => (k, v) :: preorder l ++ preorder r end.
Fixpoint postorder (t : tree) : list kv :=
  match t with E => [] | T _ l k v r => postorder l ++ postorder r ++ [(k, v)] end.

Fixpoint size (t : tree) : nat :=
  match t with E => O | T _ l _ _ r => S (size l + size r) end.
(* number of nodes on the longest path from the root to a leaf *)
Fixpoint height (t : tree) : nat :=
  match t with E => O | T _ l _ _ r => S (Nat.max (height l) (height r)) end.

(* ------------------------------------------------------------------ the map with iterators *)
Record miter : Type := mk_miter {
  mi_kind : Z;
  mi_next : option Z;       (* key held by the node it.next, None = nil *)
  mi_last : option Z;       (* key held by it.lastReturned *)
  mi_exp : Z                (* expectedVersion *)
}.

Record mstate : Type := mk_mstate {
  m_tree : tree;
  m_size : Z;               (* the size field, maintained as the code does *)
  m_ver : Z;
  m_its : Z -> option miter
}.

Definition minit : mstate := mk_mstate E 0 0 (fun _ => None).

Definition m_with_iter (s : mstate) (slot : Z) (it : miter) : mstate :=
  mk_mstate (m_tree s) (m_size s) (m_ver s) (upd (m_its s) slot it).

(* deleteEntry of the node holding k *)
Definition m_delete (s : mstate) (k : Z) : mstate :=
  mk_mstate (remove k (m_tree s)) (m_size s - 1) (m_ver s + 1) (m_its s).

Definition mstep (s : mstate) (o : op) : mstate * out :=
  let t := m_tree s in
  match o with
  | Put k v =>
      match lookup k t with
      | Some old => (mk_mstate (put k v t) (m_size s) (m_ver s) (m_its s), OVal (Some old))
      | None =>
          (mk_mstate (put k v t) (match t with E => 1 | _ => m_size s + 1 end) (m_ver s + 1) (m_its s),
           OVal None)
      end
  | Remove k =>
      match lookup k t with
      | Some _ => (m_delete s k, OBool true)
      | None => (s, OBool false)
      end
  | Clear => (mk_mstate E 0 (m_ver s + 1) (m_its s), OUnit)
  | Get k => (s, OVal (lookup k t))
  | Contains k => (s, OBool (match lookup k t with Some _ => true | None => false end))
  | GetOrDefault k d => (s, ONum (match lookup k t with Some v => v | None => d end))
  | Size => (s, ONum (m_size s))
  | IsEmpty => (s, OBool (m_size s =? 0))
  | FirstEntry => (s, OEnt (min_entry t))
  | FirstKey => (s, OVal (okey (min_entry t)))
  | LastEntry => (s, OEnt (max_entry t))
  | LastKey => (s, OVal (okey (max_entry t)))
  | FloorEntry k => (s, OEnt (floor k t))
  | FloorKey k => (s, OVal (okey (floor k t)))
  | CeilingEntry k => (s, OEnt (ceiling k t))
  | CeilingKey k => (s, OVal (okey (ceiling k t)))
  | HigherEntry k => (s, OEnt (higher k t))
  | HigherKey k => (s, OVal (okey (higher k t)))
  | LowerEntry k => (s, OEnt (lower k t))
  | Keys => (s, OKeys (map fst (inorder t)))
  | Values => (s, OKeys (map snd (inorder t)))
  | InOrder | Foreach => (s, OEnts (inorder t))
  | PreOrder => (s, OEnts (preorder t))
  | PostOrder => (s, OEnts (postorder t))
  | ForeachRemove i k =>
      let es := inorder t in
      if (0 <=? i) && (i <? Z.of_nat (length es)) then
        match lookup k t with
        | Some _ => (m_delete s k, OEntsP (firstn (S (Z.to_nat i)) es) true)
        | None => (s, OEntsP es false)
        end
      else (s, OEntsP es false)
  | IterNew kind slot =>
      if kind_ok kind then
        let first := if kind_asc kind then min_entry t else max_entry t in
        (m_with_iter s slot (mk_miter kind (okey first) None (m_ver s)), OUnit)
      else (s, OUnit)
  | IterHasNext slot =>
      match m_its s slot with
      | Some it => (s, OBool (match mi_next it with Some _ => true | None => false end))
      | None => (s, OUnit)
      end
  | IterNext slot =>
      match m_its s slot with
      | Some it =>
          match mi_next it with
          | None => (s, OPanic P_NoSuchElement)
          | Some k =>
              if mi_exp it =? m_ver s then
                let nxt := if kind_asc (mi_kind it) then succ_key k t else pred_key k t in
                (m_with_iter s slot (mk_miter (mi_kind it) nxt (Some k) (mi_exp it)),
                 next_out (mi_kind it) k (match lookup k t with Some v => v | None => 0 end))
              else (s, OPanic P_ConcurrentModification)
          end
      | None => (s, OUnit)
      end
  | IterRemove slot =>
      match m_its s slot with
      | Some it =>
          match mi_last it with
          | None => (s, OPanic P_IllegalState)
          | Some k =>
              if mi_exp it =? m_ver s then
                let nxt := if kind_asc (mi_kind it) && two_children k t
                           then succ_key k t          (* it.next = it.lastReturned *)
                           else mi_next it in
                let s' := m_delete s k in
                (m_with_iter s' slot (mk_miter (mi_kind it) nxt None (m_ver s')), OUnit)
              else (s, OPanic P_ConcurrentModification)
          end
      | None => (s, OUnit)
      end
  | Probe => (s, OUnit)
  (* Entry.SetValue writes the node's value field: no descent, no version change.  [put] on a
     present key is exactly that (same shape and colours, value replaced). *)
  | SetValueAt acc k v =>
      match m_access acc k t with
      | Some (k', old) => (mk_mstate (put k' v t) (m_size s) (m_ver s) (m_its s), OVal (Some old))
      | None => (s, OVal None)
      end
  | EntryEquals acc1 k1 acc2 k2 =>
      match m_access acc1 k1 t, m_access acc2 k2 t with
      | Some a, Some b => (s, OBool (kv_same a b))
      | _, _ => (s, OUnit)
      end
  | IterNewAt kind slot acc k =>
      if kind_ok kind then
        (m_with_iter s slot (mk_miter kind (okey (m_access acc k t)) None (m_ver s)), OUnit)
      else (s, OUnit)
  | ForeachPut i k v =>
      let es := inorder t in
      if (0 <=? i) && (i <? Z.of_nat (length es)) then
        let n := S (Z.to_nat i) in
        match lookup k t with
        | Some _ =>
            let t' := put k v t in
            (mk_mstate t' (m_size s) (m_ver s) (m_its s), OEntsP (firstn n es ++ skipn n (inorder t')) false)
        | None =>
            (mk_mstate (put k v t) (match t with E => 1 | _ => m_size s + 1 end) (m_ver s + 1) (m_its s),
             OEntsP (firstn n es) true)
        end
      else (s, OEntsP es false)
  | IterSetValue slot v =>
      match m_its s slot with
      | Some it =>
          match mi_last it with
          | Some k =>
              if (mi_kind it <=? 1) && (mi_exp it =? m_ver s) then
                (mk_mstate (put k v t) (m_size s) (m_ver s) (m_its s),
                 OVal (Some (match lookup k t with Some old => old | None => 0 end)))
              else (s, OUnit)
          | None => (s, OUnit)
          end
      | None => (s, OUnit)
      end
  end.

Fixpoint mrun (s : mstate) (ops : list op) : mstate * list out :=
  match ops with
  | [] => (s, [])
  | o :: r => let '(s1, x) := mstep s o in let '(s2, xs) := mrun s1 r in (s2, x :: xs)
  end.

(* ------------------------------------------------------------------ shape dump (probe) *)
(* pre-order; per node: colour bit (RED = 0, BLACK = 1) + 2*[left child] + 4*[right child],
   key, value *)
Definition node_code (c : color) (l r : tree) : Z :=
  (match c with R => 0 | B => 1 end)
  + (match l with E => 0 | _ => 2 end) + (match r with E => 0 | _ => 4 end).
Fixpoint shape (t : tree) : list Z :=
  match t with
  | E => []
  | T c l k v r => node_code c l r :: k :: v :: shape l ++ shape r
  end.
