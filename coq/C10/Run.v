(* C10 — correspondence: decode a history written by the Go harness, replay it on the tree
   model ([mstep]) and on the reference sorted association list ([sstep]), and compare every
   value the implementation returned with both:
     - implementation vs reference list  -> VPropFail (the property itself, evaluated on the
       implementation's own outputs; pre-/post-order are compared as sorted lists);
     - implementation vs tree model      -> VMismatch (the model no longer describes the code).
   At every [Probe] the implementation's dumped tree (colour, children, key, value in
   pre-order) is rebuilt and must equal the model's tree exactly; on the rebuilt tree the
   property's executable form is evaluated: strictly sorted in-order keys, in-order = the
   reference list, size field = number of nodes, height bound 2^height <= (n+1)^2
   (i.e. height <= 2*log2(n+1)); the red-black rules on the observed tree are checked too.

   case = ((op ...) (observed ...));  op = (code arg ...), see [op_of_sx]. *)
From Coq Require Import ZArith List Bool.
From FV Require Import Lib.Sx C10.Spec C10.Model.
Import ListNotations.
Open Scope Z_scope.

Definition op_of_sx (s : sx) : option op :=
  match s with
  | SList [SInt 1; SInt k; SInt v] => Some (Put k v)
  | SList [SInt 2; SInt k] => Some (Remove k)
  | SList [SInt 3] => Some Clear
  | SList [SInt 4; SInt k] => Some (Get k)
  | SList [SInt 5; SInt k] => Some (Contains k)
  | SList [SInt 6; SInt k; SInt d] => Some (GetOrDefault k d)
  | SList [SInt 7] => Some Size
  | SList [SInt 8] => Some IsEmpty
  | SList [SInt 9] => Some FirstEntry
  | SList [SInt 10] => Some FirstKey
  | SList [SInt 11] => Some LastEntry
  | SList [SInt 12] => Some LastKey
  | SList [SInt 13; SInt k] => Some (FloorEntry k)
  | SList [SInt 14; SInt k] => Some (FloorKey k)
  | SList [SInt 15; SInt k] => Some (CeilingEntry k)
  | SList [SInt 16; SInt k] => Some (CeilingKey k)
  | SList [SInt 17; SInt k] => Some (HigherEntry k)
  | SList [SInt 18; SInt k] => Some (HigherKey k)
  | SList [SInt 19; SInt k] => Some (LowerEntry k)
  | SList [SInt 20] => Some Keys
  | SList [SInt 21] => Some Values
  | SList [SInt 22] => Some InOrder
  | SList [SInt 23] => Some PreOrder
  | SList [SInt 24] => Some PostOrder
  | SList [SInt 25] => Some Foreach
  | SList [SInt 26; SInt i; SInt k] => Some (ForeachRemove i k)
  | SList [SInt 30; SInt kind; SInt slot] => Some (IterNew kind slot)
  | SList [SInt 31; SInt slot] => Some (IterHasNext slot)
  | SList [SInt 32; SInt slot] => Some (IterNext slot)
  | SList [SInt 33; SInt slot] => Some (IterRemove slot)
  | SList [SInt 34; SInt slot; SInt v] => Some (IterSetValue slot v)
  | SList [SInt 35; SInt kind; SInt slot; SInt acc; SInt k] => Some (IterNewAt kind slot acc k)
  | SList [SInt 27; SInt i; SInt k; SInt v] => Some (ForeachPut i k v)
  | SList [SInt 40] => Some Probe
  | SList [SInt 41; SInt acc; SInt k; SInt v] => Some (SetValueAt acc k v)
  | SList [SInt 42; SInt a1; SInt k1; SInt a2; SInt k2] => Some (EntryEquals a1 k1 a2 k2)
  | _ => None
  end.

(* the sentence of the property / the observable an operation belongs to *)
Definition cat (o : op) : N :=
  match o with
  | Put _ _ => 1 | Remove _ => 2 | Clear => 2
  | Get _ | Contains _ | GetOrDefault _ _ => 3
  | Size | IsEmpty => 4
  | FirstEntry | FirstKey | LastEntry | LastKey => 5
  | FloorEntry _ | FloorKey _ | CeilingEntry _ | CeilingKey _
  | HigherEntry _ | HigherKey _ | LowerEntry _ => 6
  | Keys | Values => 7
  | InOrder | Foreach => 8
  | PreOrder | PostOrder => 9
  | IterNew _ _ | IterHasNext _ | IterNext _ | IterNewAt _ _ _ _ => 10
  | IterRemove _ => 11
  | Probe => 12
  | ForeachRemove _ _ | ForeachPut _ _ _ => 14
  | SetValueAt _ _ _ | EntryEquals _ _ _ _ | IterSetValue _ _ => 16
  end%N.

Fixpoint sx_eqb (a b : sx) : bool :=
  match a, b with
  | SInt x, SInt y => Z.eqb x y
  | SBytes x, SBytes y => list_eqb N.eqb x y
  | SList x, SList y =>
      (fix go (x y : list sx) : bool :=
         match x, y with
         | [], [] => true
         | p :: x', q :: y' => sx_eqb p q && go x' y'
         | _, _ => false
         end) x y
  | _, _ => false
  end.

Definition ents_sx (l : list kv) : sx :=
  SList (flat_map (fun e => [SInt (fst e); SInt (snd e)]) l).

Definition out_sx (o : out) : sx :=
  match o with
  | OUnit => SList []
  | OBool b => SInt (if b then 1 else 0)
  | ONum z => SInt z
  | OVal None => SList []
  | OVal (Some v) => SList [SInt v]
  | OEnt None => SList []
  | OEnt (Some (k, v)) => SList [SInt k; SInt v]
  | OKeys l => SList (map SInt l)
  | OEnts l => ents_sx l
  | OEntsP l p => SList [ents_sx l; SInt (if p then 1 else 0)]
  | OPanic c => SList [SList [SInt c]]
  end.

(* The untyped nil is a legal value; it travels as this reserved integer (harness nilCode).
   Put, Entry.SetValue return "the previous value or nil": for exactly these operations the API
   cannot tell "none" from "the value nil", so both are written (). *)
Definition nil_code : Z := -999999999.
Definition enc (o : op) (x : out) : sx :=
  match o, x with
  | (Put _ _ | SetValueAt _ _ _ | IterSetValue _ _), OVal (Some v) =>
      if v =? nil_code then SList [] else out_sx x
  | _, _ => out_sx x
  end.

Fixpoint pairs (l : list Z) : option (list kv) :=
  match l with
  | [] => Some []
  | k :: v :: r => match pairs r with Some p => Some ((k, v) :: p) | None => None end
  | _ => None
  end.

Definition sort_ents (l : list kv) : list kv :=
  fold_left (fun acc e => sl_insert (fst e) (snd e) acc) l [].

Definition kv_eqb (a b : kv) : bool := (fst a =? fst b) && (snd a =? snd b).

(* ---- the observed tree ---- *)
Fixpoint parse_shape (fuel : nat) (l : list Z) : option (tree * list Z) :=
  match fuel with
  | O => None
  | S f =>
      match l with
      | code :: k :: v :: rest =>
          let c := if Z.odd code then B else R in
          match (if Z.testbit code 1 then parse_shape f rest else Some (E, rest)) with
          | Some (lt, rest1) =>
              match (if Z.testbit code 2 then parse_shape f rest1 else Some (E, rest1)) with
              | Some (rt, rest2) => Some (T c lt k v rt, rest2)
              | None => None
              end
          | None => None
          end
      | _ => None
      end
  end.

Definition tree_of_shape (l : list Z) : option tree :=
  match l with
  | [] => Some E
  | _ => match parse_shape (length l) l with
         | Some (t, []) => Some t
         | _ => None
         end
  end.

Definition color_eqb (a b : color) : bool :=
  match a, b with R, R => true | B, B => true | _, _ => false end.
Fixpoint tree_eqb (a b : tree) : bool :=
  match a, b with
  | E, E => true
  | T c1 l1 k1 v1 r1, T c2 l2 k2 v2 r2 =>
      color_eqb c1 c2 && (k1 =? k2) && (v1 =? v2) && tree_eqb l1 l2 && tree_eqb r1 r2
  | _, _ => false
  end.

Fixpoint strictly_sorted (l : list Z) : bool :=
  match l with
  | [] => true
  | x :: r => match r with [] => true | y :: _ => (x <? y) && strictly_sorted r end
  end.
Definition bst_ok (t : tree) : bool := strictly_sorted (map fst (inorder t)).

(* black height if the subtree obeys "no red node has a red child, equal black heights" *)
Fixpoint bh_ok (t : tree) : option nat :=
  match t with
  | E => Some O
  | T c l _ _ r =>
      match bh_ok l, bh_ok r with
      | Some a, Some b =>
          if Nat.eqb a b then
            match c with
            | B => Some (S a)
            | R => if isR l || isR r then None else Some a
            end
          else None
      | _, _ => None
      end
  end.
Definition rb_ok (t : tree) : bool :=
  match bh_ok t with Some _ => negb (isR t) | None => false end.

(* height t <= 2*log2(size t + 1)  <->  2^height <= (size+1)^2 *)
Definition height_ok (t : tree) : bool :=
  2 ^ Z.of_nat (height t) <=? (Z.of_nat (size t) + 1) * (Z.of_nat (size t) + 1).

Definition check_probe (x : sx) (ms : mstate) (ss : sstate) : verdict :=
  match x with
  | SList [SInt sz; SInt parents_ok; sh] =>
      if negb (parents_ok =? 1) then VMismatch 15   (* the dump of a broken structure is truncated *)
      else
      match sx_ints sh with
      | Some ints =>
          match tree_of_shape ints with
          | Some t =>
              vjoin (check_that (bst_ok t && list_eqb kv_eqb (inorder t) (s_list ss)
                                 && (sz =? Z.of_nat (length (s_list ss)))) (VPropFail 12))
             (vjoin (check_that (height_ok t) (VPropFail 13))
             (vjoin (check_that (tree_eqb t (m_tree ms) && (sz =? m_size ms)) (VMismatch 12))
             (vjoin (check_that (rb_ok t) (VMismatch 13))
                    (check_that (parents_ok =? 1) (VMismatch 15)))))
          | None => VBad
          end
      | None => VBad
      end
  | _ => VBad
  end.

Definition check_op (o : op) (x : sx) (ms : mstate) (mo : out) (ss : sstate) (so : out) : verdict :=
  match o with
  | Probe => check_probe x ms ss
  | PreOrder | PostOrder =>
      let p := match sx_ints x with
               | Some ints => match pairs ints with
                              | Some es => list_eqb kv_eqb (sort_ents es) (s_list ss)
                                           && Nat.eqb (length es) (length (s_list ss))
                              | None => false end
               | None => false end in
      vjoin (check_that p (VPropFail (cat o)))
            (check_that (sx_eqb x (out_sx mo)) (VMismatch (cat o)))
  | _ =>
      vjoin (check_that (sx_eqb x (enc o so)) (VPropFail (cat o)))
            (check_that (sx_eqb x (enc o mo)) (VMismatch (cat o)))
  end.

Fixpoint replay (ops : list sx) (obs : list sx) (ms : mstate) (ss : sstate) (acc : verdict) : verdict :=
  match ops, obs with
  | [], [] => acc
  | os :: ops', x :: obs' =>
      match op_of_sx os with
      | Some o =>
          let '(ms', mo) := mstep ms o in
          let '(ss', so) := sstep ss o in
          replay ops' obs' ms' ss' (vjoin acc (check_op o x ms' mo ss' so))
      | None => VBad
      end
  | _, _ => VBad
  end.

Definition check (c : sx) : verdict :=
  match c with
  | SList [SList ops; SList obs] => replay ops obs minit sinit VOk
  | _ => VBad
  end.
