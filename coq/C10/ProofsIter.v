(* C10 — stage 4 (part 1): sorted key lists seen in an iterator's direction, and the
   successor / predecessor walks of the tree. *)
From Coq Require Import ZArith List Bool Lia Arith.
From FV Require Import C10.Spec C10.Model C10.Proofs.
Import ListNotations.
Open Scope Z_scope.

Definition keys (l : list kv) : list Z := map fst l.

(* ------------------------------------------------------------------ a strictly sorted list in a direction *)
Section Dir.
  Variable ltb : Z -> Z -> bool.
  Hypothesis ltb_irrefl : forall x, ltb x x = false.
  Hypothesis ltb_trans : forall x y z, ltb x y = true -> ltb y z = true -> ltb x z = true.

  Lemma ltb_asym x y : ltb x y = true -> ltb y x = false.
  Proof.
    intros H. destruct (ltb y x) eqn:E; [|reflexivity].
    rewrite <- (ltb_irrefl x). symmetry. eapply ltb_trans; eassumption.
  Qed.

  Fixpoint dsorted (dl : list Z) : Prop :=
    match dl with
    | [] => True
    | x :: r => Forall (fun y => ltb x y = true) r /\ dsorted r
    end.

  (* the part of dl from key k on; the first key after k *)
  Definition from (o : option Z) (dl : list Z) : list Z :=
    match o with None => [] | Some k => filter (fun x => negb (ltb x k)) dl end.
  Definition nx (k : Z) (dl : list Z) : option Z := find (fun x => ltb k x) dl.

  Lemma filter_all {A} (f : A -> bool) l : Forall (fun x => f x = true) l -> filter f l = l.
  Proof. induction 1 as [|x l Hx _ IH]; cbn; [reflexivity|]. rewrite Hx, IH. reflexivity. Qed.

  Lemma from_hd dl : dsorted dl -> from (hd_error dl) dl = dl.
  Proof.
    destruct dl as [|x r]; [reflexivity|]. intros [Hx _]. cbn [hd_error from filter].
    rewrite ltb_irrefl. cbn [negb]. f_equal. apply filter_all.
    eapply Forall_impl; [|exact Hx]. cbn. intros y Hy. rewrite (ltb_asym _ _ Hy). reflexivity.
  Qed.

  Lemma from_skip o x r : match o with Some k => ltb x k = true | None => True end ->
    from o (x :: r) = from o r.
  Proof. destruct o as [k|]; [|reflexivity]. intros H. cbn. rewrite H. reflexivity. Qed.

  Lemma nx_in k dl k' : nx k dl = Some k' -> In k' dl.
  Proof. intros H. apply find_some in H. tauto. Qed.
  Lemma nx_after k dl k' : nx k dl = Some k' -> ltb k k' = true.
  Proof. intros H. apply find_some in H. tauto. Qed.

  Lemma from_step k dl : dsorted dl -> In k dl -> from (Some k) dl = k :: from (nx k dl) dl.
  Proof.
    induction dl as [|x r IH]; [contradiction|]. intros [Hx Sr] [->|Hin].
    - pose proof (from_hd (k :: r) (conj Hx Sr)) as F. cbn [hd_error] in F. rewrite F. f_equal.
      unfold nx. cbn [find]. rewrite ltb_irrefl.
      destruct r as [|y r']; [reflexivity|].
      pose proof (Forall_inv Hx) as Hy. cbn in Hy. cbn [find]. rewrite Hy.
      rewrite from_skip by exact Hy. symmetry. apply (from_hd (y :: r')). exact Sr.
    - assert (ltb x k = true) as Hxk by (rewrite Forall_forall in Hx; apply Hx; exact Hin).
      rewrite from_skip by exact Hxk. rewrite IH by assumption. f_equal.
      unfold nx. cbn [find]. rewrite (ltb_asym _ _ Hxk). fold (nx k r).
      symmetry. apply from_skip. destruct (nx k r) as [k'|] eqn:E; [|exact I].
      eapply ltb_trans; [exact Hxk|]. eapply nx_after; exact E.
  Qed.

  Lemma from_some_hd o dl : dsorted dl -> match o with Some k => In k dl | None => True end ->
    hd_error (from o dl) = o.
  Proof.
    destruct o as [k|]; [|reflexivity]. intros S Hin. rewrite from_step by assumption. reflexivity.
  Qed.

  Lemma from_delete lk o dl : match o with Some nk => ltb lk nk = true | None => True end ->
    from o (filter (fun x => negb (x =? lk)) dl) = from o dl.
  Proof.
    destruct o as [nk|]; [|reflexivity]. intros H. unfold from.
    induction dl as [|x r IH]; [reflexivity|]. cbn [filter].
    destruct (Z.eqb_spec x lk) as [->|Hne]; cbn [negb].
    - rewrite H. cbn [negb]. exact IH.
    - cbn [filter]. rewrite IH. reflexivity.
  Qed.

  Lemma dsorted_filter f dl : dsorted dl -> dsorted (filter f dl).
  Proof.
    induction dl as [|x r IH]; [auto|]. intros [Hx Sr]. cbn [filter].
    destruct (f x); [|auto]. split; [|auto].
    rewrite Forall_forall in *. intros y Hy. apply filter_In in Hy. apply Hx. tauto.
  Qed.
End Dir.

Definition gtb (a b : Z) : bool := b <? a.
Lemma ltb_irrefl x : (x <? x) = false. Proof. apply Z.ltb_irrefl. Qed.
Lemma gtb_irrefl x : gtb x x = false. Proof. apply Z.ltb_irrefl. Qed.
Lemma ltb_trans x y z : (x <? y) = true -> (y <? z) = true -> (x <? z) = true.
Proof. rewrite !Z.ltb_lt. lia. Qed.
Lemma gtb_trans x y z : gtb x y = true -> gtb y z = true -> gtb x z = true.
Proof. unfold gtb. rewrite !Z.ltb_lt. lia. Qed.

(* direction of an iterator: its comparison and the key list in its order *)
Definition dir_ltb (asc : bool) : Z -> Z -> bool := if asc then Z.ltb else gtb.
Definition dir_list (asc : bool) (ks : list Z) : list Z := if asc then ks else rev ks.

Lemma dir_irrefl asc x : dir_ltb asc x x = false.
Proof. destruct asc; [apply ltb_irrefl|apply gtb_irrefl]. Qed.
Lemma dir_trans asc x y z : dir_ltb asc x y = true -> dir_ltb asc y z = true -> dir_ltb asc x z = true.
Proof. destruct asc; [apply ltb_trans|apply gtb_trans]. Qed.

(* ------------------------------------------------------------------ key lists of sorted association lists *)
Lemma keys_app a b : keys (a ++ b) = keys a ++ keys b.
Proof. apply map_app. Qed.

Lemma keys_lt_keys k l : keys_lt k l <-> Forall (fun x => x < k) (keys l).
Proof. unfold keys_lt, keys. rewrite Forall_map. tauto. Qed.
Lemma keys_gt_keys k l : keys_gt k l <-> Forall (fun x => k < x) (keys l).
Proof. unfold keys_gt, keys. rewrite Forall_map. tauto. Qed.

Lemma ssorted_dsorted l : ssorted l -> dsorted Z.ltb (keys l).
Proof.
  induction l as [|[k v] l IH]; [auto|]. cbn [ssorted keys map fst dsorted]. intros [G S].
  split; [|auto]. apply keys_gt_keys in G. eapply Forall_impl; [|exact G].
  cbn. intros y Hy. apply Z.ltb_lt. exact Hy.
Qed.

Lemma dsorted_app_iff ltb a x b :
  dsorted ltb (a ++ x :: b) <->
  dsorted ltb a /\ dsorted ltb b /\ Forall (fun y => ltb x y = true) b /\
  Forall (fun y => ltb y x = true /\ Forall (fun z => ltb y z = true) b) a.
Proof.
  induction a as [|y a IH]; cbn [app dsorted].
  - split; [intros [H1 H2]; auto | tauto].
  - rewrite IH, Forall_app, !Forall_cons_iff. tauto.
Qed.

Lemma dsorted_rev dl : dsorted Z.ltb dl -> dsorted gtb (rev dl).
Proof.
  induction dl as [|x r IH]; [auto|]. intros [Hx Sr]. cbn [rev].
  apply dsorted_app_iff. repeat split; auto.
  rewrite Forall_forall in *. intros y Hy. apply in_rev in Hy. split; [|constructor].
  unfold gtb. apply Hx. exact Hy.
Qed.

Lemma dsorted_dir asc l : ssorted l -> dsorted (dir_ltb asc) (dir_list asc (keys l)).
Proof.
  intros H. apply ssorted_dsorted in H. destruct asc; [exact H|]. apply dsorted_rev. exact H.
Qed.

Lemma in_dir asc k ks : In k (dir_list asc ks) <-> In k ks.
Proof. destruct asc; [tauto|]. cbn. symmetry. apply in_rev. Qed.

Lemma in_keys_lookup k l : In k (keys l) <-> sl_lookup k l <> None.
Proof.
  induction l as [|[k' v'] l IH]; cbn; [tauto|].
  destruct (Z.eqb_spec k k') as [->|Hne]; [split; [discriminate|auto]|].
  rewrite <- IH. split; [intros [H|H]; [congruence|exact H] | auto].
Qed.

Lemma keys_delete k l : ssorted l ->
  keys (sl_delete k l) = filter (fun x => negb (x =? k)) (keys l).
Proof.
  induction l as [|[k' v'] l IH]; [reflexivity|]. intros [G S]. cbn [fst] in G.
  cbn [sl_delete keys map fst filter]. apply keys_gt_keys in G.
  destruct (Z.compare_spec k k') as [->|Hlt|Hgt].
  - rewrite Z.eqb_refl. cbn [negb]. symmetry. apply filter_all.
    eapply Forall_impl; [|exact G]. cbn. intros y Hy.
    destruct (Z.eqb_spec y k'); [lia|reflexivity].
  - destruct (Z.eqb_spec k' k); [lia|]. cbn [negb keys map fst]. f_equal. symmetry.
    apply filter_all. eapply Forall_impl; [|exact G]. cbn. intros y Hy.
    destruct (Z.eqb_spec y k); [lia|reflexivity].
  - destruct (Z.eqb_spec k' k); [lia|]. cbn [negb keys map fst]. f_equal. apply IH. exact S.
Qed.

Lemma keys_insert_present k v l : sl_lookup k l <> None -> ssorted l ->
  keys (sl_insert k v l) = keys l.
Proof.
  induction l as [|[k' v'] l IH]; [cbn; congruence|]. intros Hl [G S]. cbn [fst] in G.
  cbn [sl_insert sl_lookup] in *.
  destruct (Z.compare_spec k k') as [->|Hlt|Hgt].
  - reflexivity.
  - destruct (Z.eqb_spec k k'); [lia|]. exfalso. apply Hl. apply sl_lookup_lt.
    eapply keys_gt_trans; [exact G|lia].
  - destruct (Z.eqb_spec k k'); [lia|]. cbn [keys map fst]. f_equal. apply IH; assumption.
Qed.

Lemma length_insert k v l : ssorted l ->
  length (sl_insert k v l) = match sl_lookup k l with Some _ => length l | None => S (length l) end.
Proof.
  induction l as [|[k' v'] l IH]; [reflexivity|]. intros [G S]. cbn [fst] in G.
  cbn [sl_insert sl_lookup].
  destruct (Z.compare_spec k k') as [->|Hlt|Hgt].
  - rewrite Z.eqb_refl. reflexivity.
  - destruct (Z.eqb_spec k k'); [lia|].
    rewrite sl_lookup_lt by (eapply keys_gt_trans; [exact G|lia]). reflexivity.
  - destruct (Z.eqb_spec k k'); [lia|]. cbn [length]. rewrite IH by exact S.
    destruct (sl_lookup k l); reflexivity.
Qed.

Lemma length_delete k l : ssorted l ->
  length l = match sl_lookup k l with Some _ => S (length (sl_delete k l)) | None => length (sl_delete k l) end.
Proof.
  induction l as [|[k' v'] l IH]; [reflexivity|]. intros [G S]. cbn [fst] in G.
  cbn [sl_delete sl_lookup].
  destruct (Z.compare_spec k k') as [->|Hlt|Hgt].
  - rewrite Z.eqb_refl. reflexivity.
  - destruct (Z.eqb_spec k k'); [lia|].
    rewrite sl_lookup_lt by (eapply keys_gt_trans; [exact G|lia]). reflexivity.
  - destruct (Z.eqb_spec k k'); [lia|]. cbn [length]. rewrite (IH S).
    destruct (sl_lookup k l); reflexivity.
Qed.

Lemma lookup_delete k' k l : ssorted l ->
  sl_lookup k' (sl_delete k l) = if k' =? k then None else sl_lookup k' l.
Proof.
  induction l as [|[k0 v0] l IH]; [cbn; destruct (k' =? k); reflexivity|].
  intros [G S]. cbn [fst] in G. cbn [sl_delete].
  destruct (Z.compare_spec k k0) as [->|Hlt|Hgt].
  - cbn [sl_lookup]. destruct (Z.eqb_spec k' k0) as [->|Hne]; [|reflexivity].
    apply sl_lookup_lt. exact G.
  - destruct (Z.eqb_spec k' k) as [->|Hne]; [|reflexivity].
    apply sl_lookup_lt. constructor; [cbn; lia|]. eapply keys_gt_trans; [exact G|lia].
  - cbn [sl_lookup]. rewrite (IH S). destruct (Z.eqb_spec k' k0) as [->|Hne]; [|reflexivity].
    destruct (Z.eqb_spec k0 k); [lia|reflexivity].
Qed.

Lemma ssorted_in_lookup l k v : ssorted l -> In (k, v) l -> sl_lookup k l = Some v.
Proof.
  induction l as [|[k' v'] l IH]; [contradiction|]. intros [G S] [Heq|Hin]; cbn [sl_lookup].
  - injection Heq as -> ->. rewrite Z.eqb_refl. reflexivity.
  - cbn [fst] in G. unfold keys_gt in G. rewrite Forall_forall in G. pose proof (G _ Hin) as Hg.
    cbn in Hg. destruct (Z.eqb_spec k k'); [lia|]. apply IH; assumption.
Qed.

(* ------------------------------------------------------------------ successor / predecessor of the tree *)
Lemma hd_map {A B} (f : A -> B) l : hd_error (map f l) = option_map f (hd_error l).
Proof. destruct l; reflexivity. Qed.

Lemma hd_keys_min t : okey (min_entry t) = hd_error (keys (inorder t)).
Proof. rewrite min_entry_spec. unfold sl_first, okey, keys. destruct (inorder t); reflexivity. Qed.
Lemma hd_rev_keys_max t : okey (max_entry t) = hd_error (rev (keys (inorder t))).
Proof.
  rewrite max_entry_spec. unfold sl_last, okey, keys. rewrite <- map_rev.
  rewrite hd_map. reflexivity.
Qed.

Lemma inorder_nonempty c l k v r : inorder (T c l k v r) <> [].
Proof. cbn. destruct (inorder l); discriminate. Qed.

Lemma find_gt_none k k' ks : Forall (fun x => x < k') ks -> k' <= k -> find (fun x => k <? x) ks = None.
Proof.
  intros H Hk. apply find_none_all. eapply Forall_impl; [|exact H]. cbn. intros x Hx.
  apply Z.ltb_ge. lia.
Qed.
Lemma find_gt_hd k ks : Forall (fun x => k < x) ks -> find (fun x => k <? x) ks = hd_error ks.
Proof.
  destruct ks as [|x r]; [reflexivity|]. intros H. apply Forall_inv in H. cbn.
  destruct (Z.ltb_spec k x); [reflexivity|lia].
Qed.

Lemma succ_from_spec k t anc : bst t -> In k (keys (inorder t)) ->
  succ_from k t anc = match nx Z.ltb k (keys (inorder t)) with Some x => Some x | None => anc end.
Proof.
  revert anc. induction t as [|c l IHl k' v' r IHr]; intros anc; [contradiction|].
  intros (Bl & Br & Ll & Gr) Hin. cbn [succ_from inorder]. unfold nx in *.
  rewrite keys_app. cbn [keys map fst]. fold (keys (inorder r)). rewrite find_app. cbn [find].
  cbn [inorder] in Hin. rewrite keys_app in Hin. cbn [keys map fst] in Hin. fold (keys (inorder r)) in Hin.
  apply keys_lt_keys in Ll. apply keys_gt_keys in Gr.
  destruct (Z.compare_spec k k') as [->|Hlt|Hgt].
  - rewrite (find_gt_none k' k') by (assumption || lia). rewrite Z.ltb_irrefl.
    rewrite find_gt_hd by assumption. rewrite <- hd_keys_min.
    destruct r as [|rc rl rk rv rr]; [reflexivity|].
    rewrite hd_keys_min. pose proof (inorder_nonempty rc rl rk rv rr) as Hne.
    unfold keys. destruct (inorder (T rc rl rk rv rr)); [congruence|reflexivity].
  - assert (In k (keys (inorder l))) as Hl.
    { apply in_app_or in Hin. destruct Hin as [H|[H|H]]; [exact H|lia|].
      rewrite Forall_forall in Gr. apply Gr in H. lia. }
    rewrite IHl by assumption. destruct (find _ (keys (inorder l))); [reflexivity|].
    destruct (Z.ltb_spec k k'); [reflexivity|lia].
  - assert (In k (keys (inorder r))) as Hr.
    { apply in_app_or in Hin. destruct Hin as [H|[H|H]]; [|lia|exact H].
      rewrite Forall_forall in Ll. apply Ll in H. lia. }
    rewrite (find_gt_none k k') by (assumption || lia).
    destruct (Z.ltb_spec k k'); [lia|]. apply IHr; assumption.
Qed.

Lemma find_lt_none k k' ks : Forall (fun x => k' < x) ks -> k <= k' -> find (fun x => gtb k x) ks = None.
Proof.
  intros H Hk. apply find_none_all. eapply Forall_impl; [|exact H]. cbn. intros x Hx.
  unfold gtb. apply Z.ltb_ge. lia.
Qed.
Lemma find_lt_hd k ks : Forall (fun x => x < k) ks -> find (fun x => gtb k x) ks = hd_error ks.
Proof.
  destruct ks as [|x r]; [reflexivity|]. intros H. apply Forall_inv in H. cbn. unfold gtb.
  destruct (Z.ltb_spec x k); [reflexivity|lia].
Qed.
Lemma Forall_rev {A} (P : A -> Prop) l : Forall P l -> Forall P (rev l).
Proof. rewrite !Forall_forall. intros H x Hx. apply H. apply in_rev. exact Hx. Qed.

Lemma hd_rev_some {A} (l : list A) : l <> [] -> exists x, hd_error (rev l) = Some x.
Proof.
  intros H. destruct (rev l) as [|x r] eqn:E; [|exists x; reflexivity].
  apply (f_equal (@rev A)) in E. rewrite rev_involutive in E. cbn in E. contradiction.
Qed.

Lemma pred_from_spec k t anc : bst t -> In k (keys (inorder t)) ->
  pred_from k t anc = match nx gtb k (rev (keys (inorder t))) with Some x => Some x | None => anc end.
Proof.
  revert anc. induction t as [|c l IHl k' v' r IHr]; intros anc; [contradiction|].
  intros (Bl & Br & Ll & Gr) Hin. cbn [pred_from inorder]. unfold nx in *.
  rewrite keys_app. cbn [keys map fst]. fold (keys (inorder r)).
  rewrite rev_app_distr. cbn [rev]. rewrite <- app_assoc. cbn [app]. rewrite find_app. cbn [find].
  cbn [inorder] in Hin. rewrite keys_app in Hin. cbn [keys map fst] in Hin. fold (keys (inorder r)) in Hin.
  apply keys_lt_keys in Ll. apply keys_gt_keys in Gr.
  pose proof (Forall_rev _ _ Ll) as Ll'. pose proof (Forall_rev _ _ Gr) as Gr'.
  destruct (Z.compare_spec k k') as [->|Hlt|Hgt].
  - rewrite (find_lt_none k' k') by (assumption || lia). rewrite gtb_irrefl.
    rewrite find_lt_hd by assumption. rewrite <- hd_rev_keys_max.
    destruct l as [|lc ll lk lv lr]; [reflexivity|].
    rewrite hd_rev_keys_max. pose proof (inorder_nonempty lc ll lk lv lr) as Hne.
    destruct (hd_rev_some (keys (inorder (T lc ll lk lv lr)))) as [x Hx].
    { unfold keys. intros E. apply map_eq_nil in E. exact (Hne E). }
    rewrite Hx. reflexivity.
  - assert (In k (keys (inorder l))) as Hl.
    { apply in_app_or in Hin. destruct Hin as [H|[H|H]]; [exact H|lia|].
      rewrite Forall_forall in Gr. apply Gr in H. lia. }
    rewrite (find_lt_none k k') by (assumption || lia).
    unfold gtb at 1. destruct (Z.ltb_spec k' k); [lia|]. apply IHl; assumption.
  - assert (In k (keys (inorder r))) as Hr.
    { apply in_app_or in Hin. destruct Hin as [H|[H|H]]; [|lia|exact H].
      rewrite Forall_forall in Ll. apply Ll in H. lia. }
    rewrite IHr by assumption. destruct (find _ (rev (keys (inorder r)))); [reflexivity|].
    unfold gtb. destruct (Z.ltb_spec k' k); [reflexivity|lia].
Qed.

Lemma succ_key_spec k t : bst t -> In k (keys (inorder t)) ->
  succ_key k t = nx Z.ltb k (keys (inorder t)).
Proof. intros B H. unfold succ_key. rewrite succ_from_spec by assumption. apply opt_id. Qed.
Lemma pred_key_spec k t : bst t -> In k (keys (inorder t)) ->
  pred_key k t = nx gtb k (rev (keys (inorder t))).
Proof. intros B H. unfold pred_key. rewrite pred_from_spec by assumption. apply opt_id. Qed.
