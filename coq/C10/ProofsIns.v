(* C10 — stage 2: insertion.  [put] inserts into / updates the in-order list exactly as the
   sorted association list does, keeps the search-tree order and the red-black rules. *)
From Coq Require Import ZArith List Bool Lia Arith.
From FV Require Import C10.Spec C10.Model C10.Proofs.
Import ListNotations.
Open Scope Z_scope.

(* ------------------------------------------------------------------ contents *)
Lemma inorder_fix_ins_left gc p gk gv u xl :
  inorder (fst (fix_ins_left gc p gk gv u xl)) = inorder p ++ (gk, gv) :: inorder u.
Proof.
  unfold fix_ins_left. destruct (isR u).
  - cbn. rewrite !inorder_setc. reflexivity.
  - destruct xl.
    + destruct p; cbn; rewrite <- ?app_assoc; reflexivity.
    + destruct p as [|pc pl pk pv [|xc xl xk xv xr]]; cbn; rewrite <- ?app_assoc; cbn;
        rewrite <- ?app_assoc; reflexivity.
Qed.

Lemma inorder_fix_ins_right gc u gk gv p xl :
  inorder (fst (fix_ins_right gc u gk gv p xl)) = inorder u ++ (gk, gv) :: inorder p.
Proof.
  unfold fix_ins_right. destruct (isR u).
  - cbn. rewrite !inorder_setc. reflexivity.
  - destruct xl.
    + destruct p as [|pc [|xc xl xk xv xr] pk pv pr]; cbn; rewrite <- ?app_assoc; cbn;
        rewrite <- ?app_assoc; reflexivity.
    + destruct p; cbn; rewrite <- ?app_assoc; reflexivity.
Qed.

Lemma inorder_ins k v t : bst t -> inorder (fst (ins k v t)) = sl_insert k v (inorder t).
Proof.
  induction t as [|c l IHl k' v' r IHr]; [reflexivity|].
  intros (Bl & Br & Ll & Gr). cbn [ins inorder].
  rewrite sl_insert_split by assumption.
  destruct (k ?= k').
  - reflexivity.
  - specialize (IHl Bl). destruct (ins k v l) as [l' st]. cbn [fst] in IHl.
    destruct st as [| |xl]; [| destruct c |]; cbn [fst inorder]; rewrite ?inorder_fix_ins_left;
      rewrite IHl; reflexivity.
  - specialize (IHr Br). destruct (ins k v r) as [r' st]. cbn [fst] in IHr.
    destruct st as [| |xl]; [| destruct c |]; cbn [fst inorder]; rewrite ?inorder_fix_ins_right;
      rewrite IHr; reflexivity.
Qed.

Lemma inorder_put k v t : bst t -> inorder (put k v t) = sl_insert k v (inorder t).
Proof. intros H. unfold put. rewrite inorder_setc. apply inorder_ins. exact H. Qed.

Lemma keys_gt_insert x k v l : keys_gt x l -> x < k -> keys_gt x (sl_insert k v l).
Proof.
  induction 1 as [|[k' v'] l Hx Hl IH]; intros Hk; cbn [sl_insert].
  - apply keys_gt_cons. cbn. auto with c10.
  - cbn in Hx. destruct (k ?= k'); rewrite ?keys_gt_cons; cbn [fst]; repeat split; auto.
Qed.

Lemma ssorted_insert k v l : ssorted l -> ssorted (sl_insert k v l).
Proof.
  induction l as [|[k' v'] l IH]; cbn [sl_insert ssorted]; [auto with c10|].
  intros [G S]. cbn [fst] in G. destruct (Z.compare_spec k k') as [->|Hlt|Hgt]; cbn [ssorted fst].
  - auto.
  - split; [|auto]. apply keys_gt_cons. cbn [fst]. split; [lia|].
    eapply keys_gt_trans; [exact G|lia].
  - split; [apply keys_gt_insert; assumption | auto].
Qed.

Lemma bst_put k v t : bst t -> bst (put k v t).
Proof.
  intros H. apply bst_sorted. rewrite inorder_put by exact H.
  apply ssorted_insert. apply bst_sorted. exact H.
Qed.

(* ------------------------------------------------------------------ balance *)
(* the shape handed to the grandparent: a red node with one red child (on side xl) *)
Definition redred (n : nat) (xl : bool) (p : tree) : Prop :=
  match p with
  | T R a _ _ b => rb n a /\ rb n b /\ (if xl then col a = R /\ col b = B else col a = B /\ col b = R)
  | _ => False
  end.

(* what [ins] returns for a subtree t with [rb n t] *)
Definition ins_inv (n : nat) (t : tree) (res : tree * istat) : Prop :=
  match snd res with
  | IDone => rb n (fst res) /\ col (fst res) = col t
  | IRed => rb n (fst res) /\ col (fst res) = R /\ col t = B
  | IRedRed xl => col t = R /\ redred n xl (fst res)
  end.

Lemma col_R t : col t = R -> exists l k v r, t = T R l k v r.
Proof. destruct t as [|[] l k v r]; cbn; intros H; try discriminate. eauto. Qed.

Lemma isR_false t : isR t = false -> col t = B.
Proof. unfold isR. destruct (col t); [discriminate|reflexivity]. Qed.
Lemma isR_true t : isR t = true -> col t = R.
Proof. unfold isR. destruct (col t); [reflexivity|discriminate]. Qed.

Lemma rb_blacken n t : rb n t -> col t = R -> rb (S n) (setc B t).
Proof.
  intros H C. apply col_R in C. destruct C as (l & k & v & r & ->). cbn in *. tauto.
Qed.

Lemma fix_ins_left_rb n p gk gv u xl : redred n xl p -> rb n u ->
  ins_inv (S n) (T B p gk gv u) (fix_ins_left B p gk gv u xl).
Proof.
  intros Hp Hu. destruct p as [|[] a pk pv b]; try contradiction.
  destruct Hp as (Ha & Hb & Hc). unfold fix_ins_left, ins_inv.
  destruct (isR u) eqn:Eu.
  - apply isR_true in Eu. cbn [snd fst setc col]. split; [|auto].
    cbn [rb col]. pose proof (rb_blacken _ _ Hu Eu) as Hu'.
    destruct u; cbn in Eu; try discriminate. cbn in *. tauto.
  - apply isR_false in Eu. destruct xl.
    + destruct Hc as [Ca Cb]. cbn [snd fst col rb]. tauto.
    + destruct Hc as [Ca Cb]. apply col_R in Cb. destruct Cb as (xl & xk & xv & xr & ->).
      cbn in Hb. cbn [snd fst col rb]. tauto.
Qed.

Lemma fix_ins_right_rb n p gk gv u xl : redred n xl p -> rb n u ->
  ins_inv (S n) (T B u gk gv p) (fix_ins_right B u gk gv p xl).
Proof.
  intros Hp Hu. destruct p as [|[] a pk pv b]; try contradiction.
  destruct Hp as (Ha & Hb & Hc). unfold fix_ins_right, ins_inv.
  destruct (isR u) eqn:Eu.
  - apply isR_true in Eu. cbn [snd fst setc col]. split; [|auto].
    cbn [rb col]. pose proof (rb_blacken _ _ Hu Eu) as Hu'.
    destruct u; cbn in Eu; try discriminate. cbn in *. tauto.
  - apply isR_false in Eu. destruct xl.
    + destruct Hc as [Ca Cb]. apply col_R in Ca. destruct Ca as (xl & xk & xv & xr & ->).
      cbn in Ha. cbn [snd fst col rb]. tauto.
    + destruct Hc as [Ca Cb]. cbn [snd fst col rb]. tauto.
Qed.

Lemma ins_rb k v t : forall n, rb n t -> ins_inv n t (ins k v t).
Proof.
  induction t as [|c l IHl k' v' r IHr]; intros n H.
  - cbn in H. subst n. cbn. auto.
  - cbn [ins]. destruct (k ?= k').
    + unfold ins_inv. cbn [snd fst col]. split; [|reflexivity]. destruct c; exact H.
    + destruct c; cbn [rb] in H.
      * destruct H as (Cl & Cr & Hl & Hr). specialize (IHl n Hl).
        destruct (ins k v l) as [l' st]. unfold ins_inv in *. cbn [snd fst] in IHl.
        destruct st as [| |xl]; cbn [snd fst col rb redred].
        -- destruct IHl as [H1 H2]. rewrite H2. tauto.
        -- tauto.
        -- destruct IHl as [H1 _]. congruence.
      * destruct n as [|m]; [contradiction|]. destruct H as [Hl Hr]. specialize (IHl m Hl).
        destruct (ins k v l) as [l' st]. unfold ins_inv in IHl. cbn [snd fst] in IHl.
        destruct st as [| |xl].
        -- unfold ins_inv. cbn [snd fst col rb]. tauto.
        -- unfold ins_inv. cbn [snd fst col rb]. tauto.
        -- destruct IHl as [_ H2]. pose proof (fix_ins_left_rb m l' k' v' r xl H2 Hr) as F.
           unfold ins_inv in *. destruct (snd (fix_ins_left B l' k' v' r xl)); cbn [col] in *; tauto.
    + destruct c; cbn [rb] in H.
      * destruct H as (Cl & Cr & Hl & Hr). specialize (IHr n Hr).
        destruct (ins k v r) as [r' st]. unfold ins_inv in *. cbn [snd fst] in IHr.
        destruct st as [| |xl]; cbn [snd fst col rb redred].
        -- destruct IHr as [H1 H2]. rewrite H2. tauto.
        -- tauto.
        -- destruct IHr as [H1 _]. congruence.
      * destruct n as [|m]; [contradiction|]. destruct H as [Hl Hr]. specialize (IHr m Hr).
        destruct (ins k v r) as [r' st]. unfold ins_inv in IHr. cbn [snd fst] in IHr.
        destruct st as [| |xl].
        -- unfold ins_inv. cbn [snd fst col rb]. tauto.
        -- unfold ins_inv. cbn [snd fst col rb]. tauto.
        -- destruct IHr as [_ H2]. pose proof (fix_ins_right_rb m r' k' v' l xl H2 Hl) as F.
           unfold ins_inv in *. destruct (snd (fix_ins_right B l k' v' r' xl)); cbn [col] in *; tauto.
Qed.

Lemma rbtree_put k v t : rbtree t -> rbtree (put k v t).
Proof.
  intros [C [n H]]. pose proof (ins_rb k v t n H) as I. unfold put, ins_inv in *.
  destruct (ins k v t) as [t' st]. cbn [snd fst] in *. destruct st as [| |xl].
  - destruct I as [H1 H2]. rewrite C in H2. split.
    + destruct t'; reflexivity.
    + exists n. destruct t' as [|[] l k0 v0 r]; cbn in *; try discriminate; assumption.
  - destruct I as (H1 & H2 & _). split; [destruct t'; reflexivity|].
    exists (S n). apply rb_blacken; assumption.
  - destruct I as [H1 _]. congruence.
Qed.
