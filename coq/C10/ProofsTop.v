(* C10 — the statements of Properties.v assembled from the stage lemmas. *)
From Coq Require Import ZArith List Bool Lia Arith Permutation.
From FV Require Import C10.Spec C10.Model C10.Proofs C10.ProofsIns C10.ProofsDel C10.ProofsIter
  C10.ProofsRefine C10.ProofsDrive.
Import ListNotations.
Open Scope Z_scope.

(* the reference really is a sorted map *)
Lemma lookup_insert k' k v l : ssorted l ->
  sl_lookup k' (sl_insert k v l) = if k' =? k then Some v else sl_lookup k' l.
Proof.
  induction l as [|[k0 v0] l IH]; intros S.
  - cbn. destruct (k' =? k); reflexivity.
  - destruct S as [G S]. cbn [fst] in G. cbn [sl_insert].
    destruct (Z.compare_spec k k0) as [->|Hlt|Hgt]; cbn [sl_lookup].
    + destruct (k' =? k0); reflexivity.
    + destruct (k' =? k); reflexivity.
    + rewrite (IH S). destruct (Z.eqb_spec k' k0) as [->|Hne]; [|reflexivity].
      destruct (Z.eqb_spec k0 k); [lia|reflexivity].
Qed.

Lemma spec_laws l : ssorted l ->
  (forall k v, ssorted (sl_insert k v l)) /\
  (forall k, ssorted (sl_delete k l)) /\
  (forall k' k v, sl_lookup k' (sl_insert k v l) = if k' =? k then Some v else sl_lookup k' l) /\
  (forall k' k, sl_lookup k' (sl_delete k l) = if k' =? k then None else sl_lookup k' l).
Proof.
  intros S. repeat split; intros.
  - apply ssorted_insert; exact S.
  - apply ssorted_delete; exact S.
  - apply lookup_insert; exact S.
  - apply lookup_delete; exact S.
Qed.

Definition reach (ops : list op) : mstate := fst (mrun minit ops).
Definition sreach (ops : list op) : sstate := fst (srun sinit ops).

Lemma reach_inv ops : Inv (reach ops) (sreach ops).
Proof. apply run_refines. apply inv_init. Qed.

Lemma reach_bst ops : bst (m_tree (reach ops)).
Proof. exact (inv_bst _ _ (reach_inv ops)). Qed.
Lemma reach_rb ops : rbtree (m_tree (reach ops)).
Proof. exact (inv_rb _ _ (reach_inv ops)). Qed.

Lemma op_preserves t k v : bst t /\ rbtree t ->
  (bst (put k v t) /\ rbtree (put k v t)) /\ (bst (remove k t) /\ rbtree (remove k t)).
Proof.
  intros [Hb Hr]. repeat split; try (apply bst_put || apply bst_remove); try assumption;
    try (apply rbtree_put; assumption); apply rbtree_remove; assumption.
Qed.

Lemma refines ops : outs_agree ops (snd (mrun minit ops)) (snd (srun sinit ops)).
Proof. apply run_refines. apply inv_init. Qed.

Lemma reach_contents ops :
  inorder (m_tree (reach ops)) = s_list (sreach ops) /\ ssorted (s_list (sreach ops)) /\
  m_size (reach ops) = Z.of_nat (size (m_tree (reach ops))).
Proof.
  pose proof (reach_inv ops) as I. split; [exact (inv_list _ _ I)|]. split; [exact (inv_sorted _ _ I)|].
  rewrite (inv_size _ _ I), <- (inv_list _ _ I), size_inorder. reflexivity.
Qed.

Lemma queries_any_bst t : bst t ->
  (forall k, lookup k t = sl_lookup k (inorder t)) /\
  min_entry t = sl_first (inorder t) /\ max_entry t = sl_last (inorder t) /\
  (forall k, floor k t = sl_floor k (inorder t)) /\
  (forall k, ceiling k t = sl_ceiling k (inorder t)) /\
  (forall k, higher k t = sl_higher k (inorder t)) /\
  (forall k, lower k t = sl_lower k (inorder t)) /\
  ssorted (inorder t) /\ length (inorder t) = size t /\
  Permutation (preorder t) (inorder t) /\ Permutation (postorder t) (inorder t).
Proof.
  intros H. repeat split; intros;
    auto using lookup_spec, min_entry_spec, max_entry_spec, floor_spec, ceiling_spec, higher_spec,
               lower_spec, size_inorder, preorder_perm, postorder_perm.
  apply bst_sorted. exact H.
Qed.

Lemma reach_height ops :
  Z.of_nat (height (m_tree (reach ops))) <= 2 * Z.log2 (m_size (reach ops) + 1).
Proof.
  destruct (reach_contents ops) as (_ & _ & Hs). rewrite Hs. apply height_log2. apply reach_rb.
Qed.

Lemma reach_iter_remove ops kind slot ds : kind_ok kind = true ->
  let ms := reach ops in
  length ds = length (inorder (m_tree ms)) ->
  let es := dir_entries kind (inorder (m_tree ms)) in
  let it := IterNew kind slot :: drive slot ds ++ [IterHasNext slot] in
  snd (mrun ms it) = OUnit :: drive_outs kind es ds ++ [OBool false] /\
  (forall k, lookup k (m_tree (fst (mrun ms it))) =
             if gone k (removed es ds) then None else lookup k (m_tree ms)) /\
  bst (m_tree (fst (mrun ms it))) /\ rbtree (m_tree (fst (mrun ms it))).
Proof.
  intros Hk ms Hlen. apply (iter_remove_model ms (sreach ops)); [apply reach_inv|exact Hk|exact Hlen].
Qed.

(* a valid iterator only ever points at entries of the map *)
Lemma reach_iter_wellformed ops slot it : m_its (reach ops) slot = Some it ->
  mi_exp it = m_ver (reach ops) ->
  match mi_next it with Some k => lookup k (m_tree (reach ops)) <> None | None => True end /\
  match mi_last it with Some k => lookup k (m_tree (reach ops)) <> None | None => True end.
Proof.
  intros Hit Hexp. pose proof (reach_inv ops) as I. pose proof (inv_its _ _ I slot) as R.
  rewrite Hit in R. unfold iter_rel in R. destruct (s_its (sreach ops) slot) as [si|]; [|contradiction].
  destruct R as (_ & _ & _ & _ & _ & Hv). rewrite (inv_ver _ _ I) in Hexp. specialize (Hv Hexp).
  destruct Hv as (_ & Hn & Hl). split.
  - destruct (mi_next it); [|constructor]. rewrite (inv_lookup _ _ _ I). apply in_keys_lookup. exact Hn.
  - destruct (mi_last it); [|constructor]. rewrite (inv_lookup _ _ _ I). apply in_keys_lookup. tauto.
Qed.
