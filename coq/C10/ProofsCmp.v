(* C10 — the tree operations depend on the comparator only through its sign. *)
From Coq Require Import ZArith List Bool Lia.
From FV Require Import C10.Spec C10.Model C10.ModelCmp.
Import ListNotations.
Open Scope Z_scope.

Definition sign_of_order (cmp : Z -> Z -> Z) : Prop := forall a b, Z.sgn (cmp a b) = Z.sgn (a - b).

Lemma sgn_compare x y : Z.sgn x = Z.sgn y -> (x ?= 0) = (y ?= 0).
Proof. destruct x, y; cbn; congruence. Qed.

Lemma three_compare cmp : sign_of_order cmp -> forall k k', three cmp k k' = (k ?= k').
Proof.
  intros H k k'. unfold three. rewrite (sgn_compare _ _ (H k k')). symmetry. apply Z.compare_sub.
Qed.

Section Same.
  Variable cmp : Z -> Z -> Z.
  Hypothesis Hc : sign_of_order cmp.

  Lemma ins_by_eq k v t : ins_by cmp k v t = ins k v t.
  Proof.
    induction t as [|c l IHl k' v' r IHr]; [reflexivity|].
    cbn [ins_by ins]. rewrite (three_compare cmp Hc), IHl, IHr. reflexivity.
  Qed.
  Lemma del_by_eq k t : del_by cmp k t = del k t.
  Proof.
    induction t as [|c l IHl k' v' r IHr]; [reflexivity|].
    cbn [del_by del]. rewrite (three_compare cmp Hc), IHl, IHr. reflexivity.
  Qed.
  Lemma lookup_by_eq k t : lookup_by cmp k t = lookup k t.
  Proof.
    induction t as [|c l IHl k' v' r IHr]; [reflexivity|].
    cbn [lookup_by lookup]. rewrite (three_compare cmp Hc), IHl, IHr. reflexivity.
  Qed.
  Lemma ceiling_by_eq k t : forall anc, ceiling_by cmp k t anc = ceiling_from k t anc.
  Proof.
    induction t as [|c l IHl k' v' r IHr]; intros anc; [reflexivity|].
    cbn [ceiling_by ceiling_from]. rewrite (three_compare cmp Hc), IHl, IHr. reflexivity.
  Qed.
  Lemma higher_by_eq k t : forall anc, higher_by cmp k t anc = higher_from k t anc.
  Proof.
    induction t as [|c l IHl k' v' r IHr]; intros anc; [reflexivity|].
    cbn [higher_by higher_from]. rewrite (three_compare cmp Hc), IHl, IHr. reflexivity.
  Qed.
  Lemma floor_by_eq k t : forall anc, floor_by cmp k t anc = floor_from k t anc.
  Proof.
    induction t as [|c l IHl k' v' r IHr]; intros anc; [reflexivity|].
    cbn [floor_by floor_from]. rewrite (three_compare cmp Hc), IHl, IHr. reflexivity.
  Qed.
  Lemma lower_by_eq k t : forall anc, lower_by cmp k t anc = lower_from k t anc.
  Proof.
    induction t as [|c l IHl k' v' r IHr]; intros anc; [reflexivity|].
    cbn [lower_by lower_from]. rewrite (three_compare cmp Hc), IHl, IHr. reflexivity.
  Qed.

  Lemma by_eq :
    (forall k v t, put_by cmp k v t = put k v t) /\
    (forall k t, remove_by cmp k t = remove k t) /\
    (forall k t, lookup_by cmp k t = lookup k t) /\
    (forall k t, ceiling_by cmp k t None = ceiling k t) /\
    (forall k t, higher_by cmp k t None = higher k t) /\
    (forall k t, floor_by cmp k t None = floor k t) /\
    (forall k t, lower_by cmp k t None = lower k t).
  Proof.
    repeat split; intros.
    - unfold put_by, put. rewrite ins_by_eq. reflexivity.
    - unfold remove_by, remove. rewrite del_by_eq. reflexivity.
    - apply lookup_by_eq.
    - apply ceiling_by_eq.
    - apply higher_by_eq.
    - apply floor_by_eq.
    - apply lower_by_eq.
  Qed.
End Same.

(* two comparators with the same sign function drive the code identically *)
Lemma same_sign_same_ops cmp1 cmp2 : (forall a b, Z.sgn (cmp1 a b) = Z.sgn (cmp2 a b)) ->
  (forall k v t, put_by cmp1 k v t = put_by cmp2 k v t) /\
  (forall k t, remove_by cmp1 k t = remove_by cmp2 k t) /\
  (forall k t, lookup_by cmp1 k t = lookup_by cmp2 k t) /\
  (forall k t anc, ceiling_by cmp1 k t anc = ceiling_by cmp2 k t anc) /\
  (forall k t anc, higher_by cmp1 k t anc = higher_by cmp2 k t anc) /\
  (forall k t anc, floor_by cmp1 k t anc = floor_by cmp2 k t anc) /\
  (forall k t anc, lower_by cmp1 k t anc = lower_by cmp2 k t anc).
Proof.
  intros H.
  assert (forall k k', three cmp1 k k' = three cmp2 k k') as T
    by (intros; unfold three; apply sgn_compare; apply H).
  assert (forall k v t, ins_by cmp1 k v t = ins_by cmp2 k v t) as I.
  { intros k v t. induction t as [|c l IHl k' v' r IHr]; [reflexivity|].
    cbn [ins_by]. rewrite T, IHl, IHr. reflexivity. }
  assert (forall k t, del_by cmp1 k t = del_by cmp2 k t) as D.
  { intros k t. induction t as [|c l IHl k' v' r IHr]; [reflexivity|].
    cbn [del_by]. rewrite T, IHl, IHr. reflexivity. }
  repeat split; intros.
  - unfold put_by. rewrite I. reflexivity.
  - unfold remove_by. rewrite D. reflexivity.
  - induction t as [|c l IHl k' v' r IHr]; [reflexivity|]. cbn [lookup_by]. rewrite T, IHl, IHr. reflexivity.
  - revert anc. induction t as [|c l IHl k' v' r IHr]; intros anc; [reflexivity|].
    cbn [ceiling_by]. rewrite T, IHl, IHr. reflexivity.
  - revert anc. induction t as [|c l IHl k' v' r IHr]; intros anc; [reflexivity|].
    cbn [higher_by]. rewrite T, IHl, IHr. reflexivity.
  - revert anc. induction t as [|c l IHl k' v' r IHr]; intros anc; [reflexivity|].
    cbn [floor_by]. rewrite T, IHl, IHr. reflexivity.
  - revert anc. induction t as [|c l IHl k' v' r IHr]; intros anc; [reflexivity|].
    cbn [lower_by]. rewrite T, IHl, IHr. reflexivity.
Qed.

Lemma cmp_sign_ok : sign_of_order cmp_sign.
Proof. intros a b. unfold cmp_sign. destruct (Z.compare_spec a b); subst; cbn; lia. Qed.
Lemma cmp_diff_ok : sign_of_order cmp_diff.
Proof. intros a b. reflexivity. Qed.
