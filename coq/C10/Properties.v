(* C10 — The tree map behaves as a sorted map and stays balanced under any op sequence.
   This file holds only the property theorems; each is closed by an exact lemma and followed
   by Print Assumptions. *)
From Coq Require Import ZArith List Bool.
From FV Require Import C10.Spec C10.Model C10.Proofs.
Import ListNotations.
Open Scope Z_scope.

(* "The tree's height never exceeds 2*log2(n+1)".  Stated twice: with the integer (floor)
   logarithm, which is stronger than the real-valued bound, and in the exponential form
   2^height <= (n+1)^2, which is exactly height <= 2*log2(n+1) over the reals. *)
Theorem c10_height : forall t, rbtree t ->
  Z.of_nat (height t) <= 2 * Z.log2 (Z.of_nat (size t) + 1).
Proof. exact height_log2. Qed.
Print Assumptions c10_height.

Theorem c10_height_exact : forall t, rbtree t ->
  (2 ^ height t <= (size t + 1) * (size t + 1))%nat.
Proof. exact height_pow. Qed.
Print Assumptions c10_height_exact.
