(* C10 — The tree map behaves as a sorted map and stays balanced under any op sequence.
   This file holds only the property theorems; each is closed by an exact lemma and followed
   by Print Assumptions.

   Vocabulary (definitions in Spec.v, Model.v, Proofs*.v):
     mstep / mrun      the tree model of map.go + iterator.go: one operation / a sequence
     sstep / srun      the reference: a strictly sorted association list with snapshot iterators
     reach ops         the model state after the operation sequence ops from the empty map
     bst t             search-tree order;   ssorted l   keys strictly increasing (each key once)
     rbtree t          root black, no red node has a red child, equal black heights
     outs_agree        results equal, pre-/post-order equal up to permutation *)
From Coq Require Import ZArith List Bool Permutation.
From FV Require Import C10.Spec C10.Model C10.Proofs C10.ProofsIns C10.ProofsDel C10.ProofsIter
  C10.ProofsRefine C10.ProofsDrive C10.ProofsTop C10.Run C10.ProofsRun C10.ModelCmp C10.ProofsCmp C10.ProofsMore.
Import ListNotations.
Open Scope Z_scope.

(* "After any sequence of insertions, replacements, removals, clears and removals through
   iterators, every query - lookup, size, first/last, floor, ceiling and higher neighbours, key
   and value listings, ascending and descending iteration, traversals - agrees with a sorted
   map holding the same associations": for EVERY operation sequence (all 36 operations of the
   model - including SetValue / Equals on the live entries handed out by the accessors and by
   entry iterators - any keys, any length) the results of the tree model equal the results of the
   reference sorted association list, position by position. *)
Theorem c10_refines_sorted_map : forall ops : list op,
  outs_agree ops (snd (mrun minit ops)) (snd (srun sinit ops)).
Proof. exact refines. Qed.
Print Assumptions c10_refines_sorted_map.

(* "each key present once and in comparator order": the tree's in-order listing IS the
   reference list, which is strictly sorted; the size field counts the nodes. *)
Theorem c10_contents : forall ops : list op,
  inorder (m_tree (reach ops)) = s_list (sreach ops) /\ ssorted (s_list (sreach ops)) /\
  m_size (reach ops) = Z.of_nat (size (m_tree (reach ops))).
Proof. exact reach_contents. Qed.
Print Assumptions c10_contents.

(* the reference is a map: lookups after insert / delete, and it stays sorted *)
Theorem c10_spec_is_sorted_map : forall l, ssorted l ->
  (forall k v, ssorted (sl_insert k v l)) /\
  (forall k, ssorted (sl_delete k l)) /\
  (forall k' k v, sl_lookup k' (sl_insert k v l) = if k' =? k then Some v else sl_lookup k' l) /\
  (forall k' k, sl_lookup k' (sl_delete k l) = if k' =? k then None else sl_lookup k' l).
Proof. exact spec_laws. Qed.
Print Assumptions c10_spec_is_sorted_map.

(* search-tree order and the red-black rules hold after every operation sequence ... *)
Theorem c10_bst : forall ops : list op, bst (m_tree (reach ops)).
Proof. exact reach_bst. Qed.
Print Assumptions c10_bst.

Theorem c10_rb : forall ops : list op, rbtree (m_tree (reach ops)).
Proof. exact reach_rb. Qed.
Print Assumptions c10_rb.

(* ... and are preserved by insertion and deletion from ANY red-black search tree *)
Theorem c10_put_remove_preserve : forall t k v, bst t /\ rbtree t ->
  (bst (put k v t) /\ rbtree (put k v t)) /\ (bst (remove k t) /\ rbtree (remove k t)).
Proof. exact op_preserves. Qed.
Print Assumptions c10_put_remove_preserve.

(* every query, on ANY search tree, is the query on its sorted in-order list *)
Theorem c10_queries_any_search_tree : forall t, bst t ->
  (forall k, lookup k t = sl_lookup k (inorder t)) /\
  min_entry t = sl_first (inorder t) /\ max_entry t = sl_last (inorder t) /\
  (forall k, floor k t = sl_floor k (inorder t)) /\
  (forall k, ceiling k t = sl_ceiling k (inorder t)) /\
  (forall k, higher k t = sl_higher k (inorder t)) /\
  (forall k, lower k t = sl_lower k (inorder t)) /\
  ssorted (inorder t) /\ length (inorder t) = size t /\
  Permutation (preorder t) (inorder t) /\ Permutation (postorder t) (inorder t).
Proof. exact queries_any_bst. Qed.
Print Assumptions c10_queries_any_search_tree.

(* "The tree's height never exceeds 2*log2(n+1)".  Stated with the integer (floor) logarithm,
   which is stronger than the real-valued bound, and in the exponential form
   2^height <= (n+1)^2, which is exactly height <= 2*log2(n+1) over the reals; height counts
   the nodes on the longest root-to-leaf path. *)
Theorem c10_height : forall t, rbtree t ->
  Z.of_nat (height t) <= 2 * Z.log2 (Z.of_nat (size t) + 1).
Proof. exact height_log2. Qed.
Print Assumptions c10_height.

Theorem c10_height_exact : forall t, rbtree t ->
  (2 ^ height t <= (size t + 1) * (size t + 1))%nat.
Proof. exact height_pow. Qed.
Print Assumptions c10_height_exact.

(* the bound for the map after any operation sequence, n = Size() *)
Theorem c10_height_reachable : forall ops : list op,
  Z.of_nat (height (m_tree (reach ops))) <= 2 * Z.log2 (m_size (reach ops) + 1).
Proof. exact reach_height. Qed.
Print Assumptions c10_height_reachable.

(* "iterating while removing through the iterator visits every entry that was present exactly
   once in that iterator's direction": after ANY history, for each of the five iterator kinds,
   any slot and ANY choice ds of which entries to remove (one Next per entry, followed by
   Remove where ds says so): the Next calls return exactly the entries present at creation,
   each once, in the iterator's direction (ascending, or descending for kinds 1 and 3), every
   Remove succeeds, HasNext is false afterwards, the map afterwards holds exactly the entries
   that were not chosen, and it is still a red-black search tree. *)
Theorem c10_iter_remove : forall (ops : list op) (kind slot : Z) (ds : list bool),
  kind_ok kind = true ->
  let ms := reach ops in
  length ds = length (inorder (m_tree ms)) ->
  let es := dir_entries kind (inorder (m_tree ms)) in
  let it := IterNew kind slot :: drive slot ds ++ [IterHasNext slot] in
  snd (mrun ms it) = OUnit :: drive_outs kind es ds ++ [OBool false] /\
  (forall k, lookup k (m_tree (fst (mrun ms it))) =
             if gone k (removed es ds) then None else lookup k (m_tree ms)) /\
  bst (m_tree (fst (mrun ms it))) /\ rbtree (m_tree (fst (mrun ms it))).
Proof. exact reach_iter_remove. Qed.
Print Assumptions c10_iter_remove.

(* an iterator whose expected version is current only refers to entries of the map (no
   operation of a valid iterator reaches a node that has left the tree) *)
Theorem c10_no_undefined : forall (ops : list op) slot it,
  m_its (reach ops) slot = Some it -> mi_exp it = m_ver (reach ops) ->
  match mi_next it with Some k => lookup k (m_tree (reach ops)) <> None | None => True end /\
  match mi_last it with Some k => lookup k (m_tree (reach ops)) <> None | None => True end.
Proof. exact reach_iter_wellformed. Qed.
Print Assumptions c10_no_undefined.

(* What must NOT change.  Reads (every query, listing, traversal, HasNext, Equals) return the
   state they were given - tree, size field, version, every iterator; so does every operation
   that reports a panic (no such element, concurrent modification, illegal state), and a
   Remove / Get / Contains / Foreach-removal of an absent key. *)
Theorem c10_reads_change_nothing : forall ms o, reads_only o = true -> fst (mstep ms o) = ms.
Proof. exact reads_change_nothing. Qed.
Print Assumptions c10_reads_change_nothing.

Theorem c10_panics_change_nothing : forall ms o c,
  snd (mstep ms o) = OPanic c -> fst (mstep ms o) = ms.
Proof. exact panics_change_nothing. Qed.
Print Assumptions c10_panics_change_nothing.

Theorem c10_absent_key_changes_nothing : forall ms k, lookup k (m_tree ms) = None ->
  mstep ms (Remove k) = (ms, OBool false) /\
  (forall i, fst (mstep ms (ForeachRemove i k)) = ms) /\
  mstep ms (Get k) = (ms, OVal None) /\ mstep ms (Contains k) = (ms, OBool false).
Proof. exact absent_change_nothing. Qed.
Print Assumptions c10_absent_key_changes_nothing.

(* a replacement (Put of a present key, after any history) rewrites one value field: same
   shape, same colours, same size, same version, iterators untouched *)
Theorem c10_replace_keeps_shape : forall (ops : list op) k v old,
  lookup k (m_tree (reach ops)) = Some old ->
  fst (mstep (reach ops) (Put k v)) =
  mk_mstate (setv k v (m_tree (reach ops))) (m_size (reach ops)) (m_ver (reach ops)) (m_its (reach ops)).
Proof. exact reach_replace. Qed.
Print Assumptions c10_replace_keeps_shape.

(* Snapshot law over an iterator's whole life.  After ANY history ops1 create an iterator of any
   kind in a slot, then run ANY operations ops2 that do not re-create that slot - queries,
   replacements, its own Next/Remove, other iterators, foreign insertions/removals/Clear (after
   which its Next only panics): the keys its successful Next calls pop ([visited]), followed by
   what it still has pending, are exactly the keys present at creation in the iterator's
   direction.  So nothing is visited twice, nothing is skipped, nothing that was inserted later
   is seen.  (The reference and the tree model return the same results: c10_refines_sorted_map;
   what a popping Next returns: c10_iter_next_output.) *)
Theorem c10_iter_snapshot : forall (ops1 : list op) kind slot (ops2 : list op),
  kind_ok kind = true ->
  forallb (fun o => negb (recreates slot o)) ops2 = true ->
  let s0 := sreach ops1 in
  let s1 := fst (sstep s0 (IterNew kind slot)) in
  exists it', s_its (fst (srun s1 ops2)) slot = Some it' /\
    visited slot s1 ops2 ++ si_pending it' =
    (if kind_asc kind then map fst (s_list s0) else rev (map fst (s_list s0))).
Proof. exact iter_snapshot. Qed.
Print Assumptions c10_iter_snapshot.

Theorem c10_iter_next_output : forall slot s o k, popped slot s o = [k] ->
  exists it v, s_its s slot = Some it /\ snd (sstep s o) = next_out (si_kind it) k v.
Proof. exact popped_output. Qed.
Print Assumptions c10_iter_next_output.

(* "so every operation stays logarithmic": the nodes a search for any key compares with
   (getEntry, Put's and deleteEntry's descent, the neighbour searches walk this path) number at
   most 2*log2(n+1), after any history *)
Theorem c10_search_path_logarithmic : forall (ops : list op) k,
  Z.of_nat (path_len k (m_tree (reach ops))) <= 2 * Z.log2 (m_size (reach ops) + 1).
Proof. exact reach_path_len. Qed.
Print Assumptions c10_search_path_logarithmic.

(* The comparator contract is "negative / zero / positive".  The key-comparing descents of
   the code, transcribed with an arbitrary comparator cmp (ModelCmp.v: Put, getEntry+deleteEntry,
   getEntry, the four neighbour searches), depend on cmp only through its sign: with ANY
   comparator that has the sign of the key order they are the model's operations, and two
   comparators with the same sign function are indistinguishable. *)
Theorem c10_comparator_sign_only : forall cmp : Z -> Z -> Z,
  (forall a b, Z.sgn (cmp a b) = Z.sgn (a - b)) ->
  (forall k v t, put_by cmp k v t = put k v t) /\
  (forall k t, remove_by cmp k t = remove k t) /\
  (forall k t, lookup_by cmp k t = lookup k t) /\
  (forall k t, ceiling_by cmp k t None = ceiling k t) /\
  (forall k t, higher_by cmp k t None = higher k t) /\
  (forall k t, floor_by cmp k t None = floor k t) /\
  (forall k t, lower_by cmp k t None = lower k t).
Proof. exact by_eq. Qed.
Print Assumptions c10_comparator_sign_only.

Theorem c10_same_sign_same_operations : forall cmp1 cmp2 : Z -> Z -> Z,
  (forall a b, Z.sgn (cmp1 a b) = Z.sgn (cmp2 a b)) ->
  (forall k v t, put_by cmp1 k v t = put_by cmp2 k v t) /\
  (forall k t, remove_by cmp1 k t = remove_by cmp2 k t) /\
  (forall k t, lookup_by cmp1 k t = lookup_by cmp2 k t) /\
  (forall k t anc, ceiling_by cmp1 k t anc = ceiling_by cmp2 k t anc) /\
  (forall k t anc, higher_by cmp1 k t anc = higher_by cmp2 k t anc) /\
  (forall k t anc, floor_by cmp1 k t anc = floor_by cmp2 k t anc) /\
  (forall k t anc, lower_by cmp1 k t anc = lower_by cmp2 k t anc).
Proof. exact same_sign_same_ops. Qed.
Print Assumptions c10_same_sign_same_operations.

(* the executable checkers that Run.v evaluates on the implementation's dumped tree mean what
   the theorems above say (red-black rules, search-tree order, the height bound, equality
   with the model's tree), and the probe's dump encoding determines the tree *)
Theorem c10_checkers_sound : forall t,
  (rb_ok t = true <-> rbtree t) /\ (bst_ok t = true <-> bst t) /\
  (height_ok t = true <-> (2 ^ height t <= (size t + 1) * (size t + 1))%nat) /\
  (forall t', tree_eqb t t' = true <-> t = t') /\
  tree_of_shape (shape t) = Some t.
Proof. exact checkers_sound. Qed.
Print Assumptions c10_checkers_sound.

(* ---- non-vacuity: the hypotheses are met by non-trivial states, and the model computes ---- *)
Definition build7 : list op :=
  [Put 1 10; Put 2 20; Put 3 30; Put 4 40; Put 5 50; Put 6 60; Put 7 70].

(* a reachable red-black search tree of seven nodes (the shape the Go code builds for 1..7 in
   sorted order), height 4 <= 2*log2(8) = 6 *)
Example c10_example_tree :
  m_tree (reach build7) =
    T B (T B E 1 10 E) 2 20
        (T R (T B E 3 30 E) 4 40 (T B (T R E 5 50 E) 6 60 (T R E 7 70 E))) /\
  size (m_tree (reach build7)) = 7%nat /\ height (m_tree (reach build7)) = 4%nat.
Proof. vm_compute. repeat split; reflexivity. Qed.

(* the descending entry iterator over keys 1..7 removing the even ones (the history on which
   the unrepaired code visited 7 6 7 5 4 5 3 2 3 1): visits 7 6 5 4 3 2 1, leaves 1 3 5 7 *)
Example c10_example_descending_remove :
  let ds := [false; true; false; true; false; true; false] in
  let r := mrun (reach build7) (IterNew 1 0 :: drive 0 ds ++ [IterHasNext 0; Keys]) in
  snd r = [OUnit; OKeys [7; 70]; OKeys [6; 60]; OUnit; OKeys [5; 50]; OKeys [4; 40]; OUnit;
           OKeys [3; 30]; OKeys [2; 20]; OUnit; OKeys [1; 10]; OBool false; OKeys [1; 3; 5; 7]].
Proof. vm_compute. reflexivity. Qed.

(* snapshot law on a non-trivial life: keys 1..7, ascending entry iterator; a query, a
   replacement of a key still to come, the iterator's own Remove, then a foreign Remove (after
   which Next reports the concurrent modification): visited 1 2 3, pending 4 5 6 7 *)
Example c10_example_snapshot :
  let s1 := fst (sstep (sreach build7) (IterNew 0 0)) in
  let ops2 := [IterNext 0; Get 5; Put 3 99; IterNext 0; IterRemove 0; IterNext 0; Remove 7;
               IterNext 0; IterHasNext 0] in
  forallb (fun o => negb (recreates 0 o)) ops2 = true /\
  visited 0 s1 ops2 = [1; 2; 3] /\
  snd (srun s1 ops2) = [OKeys [1; 10]; OVal (Some 50); OVal (Some 30); OKeys [2; 20]; OUnit;
                        OKeys [3; 99]; OBool true; OPanic P_ConcurrentModification; OBool true].
Proof. vm_compute. repeat split; reflexivity. Qed.

(* a replacement really keeps the shape, and a panic really keeps the state *)
Example c10_example_replace_and_panic :
  lookup 4 (m_tree (reach build7)) = Some 40 /\
  m_tree (fst (mstep (reach build7) (Put 4 44))) =
    T B (T B E 1 10 E) 2 20 (T R (T B E 3 30 E) 4 44 (T B (T R E 5 50 E) 6 60 (T R E 7 70 E))) /\
  snd (mstep (reach (build7 ++ [IterNew 0 0])) (IterRemove 0)) = OPanic P_IllegalState /\
  path_len 7 (m_tree (reach build7)) = 4%nat.
Proof. vm_compute. repeat split; reflexivity. Qed.

(* both comparators of the harness (-1/0/+1 and the key difference) meet the hypothesis *)
Example c10_example_comparators :
  (forall a b, Z.sgn (cmp_sign a b) = Z.sgn (a - b)) /\ (forall a b, Z.sgn (cmp_diff a b) = Z.sgn (a - b)).
Proof. split; [exact cmp_sign_ok|exact cmp_diff_ok]. Qed.

(* Clear invalidates a live iterator: its Remove reports a concurrent modification and the
   size stays 0 (the unrepaired code answered Size() = -1) *)
Example c10_example_clear_live_iterator :
  snd (mrun minit [Put 1 10; Put 2 20; IterNew 0 0; IterNext 0; Clear; IterRemove 0; Size]) =
  [OVal None; OVal None; OUnit; OKeys [1; 10]; OUnit; OPanic P_ConcurrentModification; ONum 0].
Proof. vm_compute. reflexivity. Qed.
