(* C10 — The tree map behaves as a sorted map and stays balanced under any op sequence.
   This file holds only the property theorems; each is closed by an exact lemma and followed
   by Print Assumptions.

   Vocabulary (definitions in Spec.v, Model.v, Proofs*.v):
     mstep / mrun      the tree model of map.go + iterator.go: one operation / a sequence
     sstep / srun      the reference: a strictly sorted association list with snapshot iterators
     reach ops         the model state after the operation sequence ops from the empty map
     bst t             search-tree order;   ssorted l   keys strictly increasing (each key once)
     rbtree t          root black, no red node has a red child, equal black heights
     outs_agree        results equal, pre-/post-order equal up to permutation *)
From Coq Require Import ZArith List Bool Permutation.
From FV Require Import C10.Spec C10.Model C10.Proofs C10.ProofsIns C10.ProofsDel C10.ProofsIter
  C10.ProofsRefine C10.ProofsDrive C10.ProofsTop C10.Run C10.ProofsRun C10.ModelCmp C10.ProofsCmp.
Import ListNotations.
Open Scope Z_scope.

(* "After any sequence of insertions, replacements, removals, clears and removals through
   iterators, every query - lookup, size, first/last, floor, ceiling and higher neighbours, key
   and value listings, ascending and descending iteration, traversals - agrees with a sorted
   map holding the same associations": for EVERY operation sequence (all 34 operations of the
   model - including SetValue / Equals on the live entries handed out by the accessors and by
   entry iterators - any keys, any length) the results of the tree model equal the results of the
   reference sorted association list, position by position. *)
Theorem c10_refines_sorted_map : forall ops : list op,
  outs_agree ops (snd (mrun minit ops)) (snd (srun sinit ops)).
Proof. exact refines. Qed.
Print Assumptions c10_refines_sorted_map.

(* "each key present once and in comparator order": the tree's in-order listing IS the
   reference list, which is strictly sorted; the size field counts the nodes. *)
Theorem c10_contents : forall ops : list op,
  inorder (m_tree (reach ops)) = s_list (sreach ops) /\ ssorted (s_list (sreach ops)) /\
  m_size (reach ops) = Z.of_nat (size (m_tree (reach ops))).
Proof. exact reach_contents. Qed.
Print Assumptions c10_contents.

(* the reference is a map: lookups after insert / delete, and it stays sorted *)
Theorem c10_spec_is_sorted_map : forall l, ssorted l ->
  (forall k v, ssorted (sl_insert k v l)) /\
  (forall k, ssorted (sl_delete k l)) /\
  (forall k' k v, sl_lookup k' (sl_insert k v l) = if k' =? k then Some v else sl_lookup k' l) /\
  (forall k' k, sl_lookup k' (sl_delete k l) = if k' =? k then None else sl_lookup k' l).
Proof. exact spec_laws. Qed.
Print Assumptions c10_spec_is_sorted_map.

(* search-tree order and the red-black rules hold after every operation sequence ... *)
Theorem c10_bst : forall ops : list op, bst (m_tree (reach ops)).
Proof. exact reach_bst. Qed.
Print Assumptions c10_bst.

Theorem c10_rb : forall ops : list op, rbtree (m_tree (reach ops)).
Proof. exact reach_rb. Qed.
Print Assumptions c10_rb.

(* ... and are preserved by insertion and deletion from ANY red-black search tree *)
Theorem c10_put_remove_preserve : forall t k v, bst t /\ rbtree t ->
  (bst (put k v t) /\ rbtree (put k v t)) /\ (bst (remove k t) /\ rbtree (remove k t)).
Proof. exact op_preserves. Qed.
Print Assumptions c10_put_remove_preserve.

(* every query, on ANY search tree, is the query on its sorted in-order list *)
Theorem c10_queries_any_search_tree : forall t, bst t ->
  (forall k, lookup k t = sl_lookup k (inorder t)) /\
  min_entry t = sl_first (inorder t) /\ max_entry t = sl_last (inorder t) /\
  (forall k, floor k t = sl_floor k (inorder t)) /\
  (forall k, ceiling k t = sl_ceiling k (inorder t)) /\
  (forall k, higher k t = sl_higher k (inorder t)) /\
  (forall k, lower k t = sl_lower k (inorder t)) /\
  ssorted (inorder t) /\ length (inorder t) = size t /\
  Permutation (preorder t) (inorder t) /\ Permutation (postorder t) (inorder t).
Proof. exact queries_any_bst. Qed.
Print Assumptions c10_queries_any_search_tree.

(* "The tree's height never exceeds 2*log2(n+1)".  Stated with the integer (floor) logarithm,
   which is stronger than the real-valued bound, and in the exponential form
   2^height <= (n+1)^2, which is exactly height <= 2*log2(n+1) over the reals; height counts
   the nodes on the longest root-to-leaf path. *)
Theorem c10_height : forall t, rbtree t ->
  Z.of_nat (height t) <= 2 * Z.log2 (Z.of_nat (size t) + 1).
Proof. exact height_log2. Qed.
Print Assumptions c10_height.

Theorem c10_height_exact : forall t, rbtree t ->
  (2 ^ height t <= (size t + 1) * (size t + 1))%nat.
Proof. exact height_pow. Qed.
Print Assumptions c10_height_exact.

(* the bound for the map after any operation sequence, n = Size() *)
Theorem c10_height_reachable : forall ops : list op,
  Z.of_nat (height (m_tree (reach ops))) <= 2 * Z.log2 (m_size (reach ops) + 1).
Proof. exact reach_height. Qed.
Print Assumptions c10_height_reachable.

(* "iterating while removing through the iterator visits every entry that was present exactly
   once in that iterator's direction": after ANY history, for each of the five iterator kinds,
   any slot and ANY choice ds of which entries to remove (one Next per entry, followed by
   Remove where ds says so): the Next calls return exactly the entries present at creation,
   each once, in the iterator's direction (ascending, or descending for kinds 1 and 3), every
   Remove succeeds, HasNext is false afterwards, the map afterwards holds exactly the entries
   that were not chosen, and it is still a red-black search tree. *)
Theorem c10_iter_remove : forall (ops : list op) (kind slot : Z) (ds : list bool),
  kind_ok kind = true ->
  let ms := reach ops in
  length ds = length (inorder (m_tree ms)) ->
  let es := dir_entries kind (inorder (m_tree ms)) in
  let it := IterNew kind slot :: drive slot ds ++ [IterHasNext slot] in
  snd (mrun ms it) = OUnit :: drive_outs kind es ds ++ [OBool false] /\
  (forall k, lookup k (m_tree (fst (mrun ms it))) =
             if gone k (removed es ds) then None else lookup k (m_tree ms)) /\
  bst (m_tree (fst (mrun ms it))) /\ rbtree (m_tree (fst (mrun ms it))).
Proof. exact reach_iter_remove. Qed.
Print Assumptions c10_iter_remove.

(* an iterator whose expected version is current only refers to entries of the map (no
   operation of a valid iterator reaches a node that has left the tree) *)
Theorem c10_no_undefined : forall (ops : list op) slot it,
  m_its (reach ops) slot = Some it -> mi_exp it = m_ver (reach ops) ->
  match mi_next it with Some k => lookup k (m_tree (reach ops)) <> None | None => True end /\
  match mi_last it with Some k => lookup k (m_tree (reach ops)) <> None | None => True end.
Proof. exact reach_iter_wellformed. Qed.
Print Assumptions c10_no_undefined.

(* The comparator contract is "negative / zero / positive".  The key-comparing descents of
   the code, transcribed with an arbitrary comparator cmp (ModelCmp.v: Put, getEntry+deleteEntry,
   getEntry, the four neighbour searches), depend on cmp only through its sign: with ANY
   comparator that has the sign of the key order they are the model's operations, and two
   comparators with the same sign function are indistinguishable. *)
Theorem c10_comparator_sign_only : forall cmp : Z -> Z -> Z,
  (forall a b, Z.sgn (cmp a b) = Z.sgn (a - b)) ->
  (forall k v t, put_by cmp k v t = put k v t) /\
  (forall k t, remove_by cmp k t = remove k t) /\
  (forall k t, lookup_by cmp k t = lookup k t) /\
  (forall k t, ceiling_by cmp k t None = ceiling k t) /\
  (forall k t, higher_by cmp k t None = higher k t) /\
  (forall k t, floor_by cmp k t None = floor k t) /\
  (forall k t, lower_by cmp k t None = lower k t).
Proof. exact by_eq. Qed.
Print Assumptions c10_comparator_sign_only.

Theorem c10_same_sign_same_operations : forall cmp1 cmp2 : Z -> Z -> Z,
  (forall a b, Z.sgn (cmp1 a b) = Z.sgn (cmp2 a b)) ->
  (forall k v t, put_by cmp1 k v t = put_by cmp2 k v t) /\
  (forall k t, remove_by cmp1 k t = remove_by cmp2 k t) /\
  (forall k t, lookup_by cmp1 k t = lookup_by cmp2 k t) /\
  (forall k t anc, ceiling_by cmp1 k t anc = ceiling_by cmp2 k t anc) /\
  (forall k t anc, higher_by cmp1 k t anc = higher_by cmp2 k t anc) /\
  (forall k t anc, floor_by cmp1 k t anc = floor_by cmp2 k t anc) /\
  (forall k t anc, lower_by cmp1 k t anc = lower_by cmp2 k t anc).
Proof. exact same_sign_same_ops. Qed.
Print Assumptions c10_same_sign_same_operations.

(* the executable checkers that Run.v evaluates on the implementation's dumped tree mean what
   the theorems above say (red-black rules, search-tree order, the height bound, equality
   with the model's tree), and the probe's dump encoding determines the tree *)
Theorem c10_checkers_sound : forall t,
  (rb_ok t = true <-> rbtree t) /\ (bst_ok t = true <-> bst t) /\
  (height_ok t = true <-> (2 ^ height t <= (size t + 1) * (size t + 1))%nat) /\
  (forall t', tree_eqb t t' = true <-> t = t') /\
  tree_of_shape (shape t) = Some t.
Proof. exact checkers_sound. Qed.
Print Assumptions c10_checkers_sound.

(* ---- non-vacuity: the hypotheses are met by non-trivial states, and the model computes ---- *)
Definition build7 : list op :=
  [Put 1 10; Put 2 20; Put 3 30; Put 4 40; Put 5 50; Put 6 60; Put 7 70].

(* a reachable red-black search tree of seven nodes (the shape the Go code builds for 1..7 in
   sorted order), height 4 <= 2*log2(8) = 6 *)
Example c10_example_tree :
  m_tree (reach build7) =
    T B (T B E 1 10 E) 2 20
        (T R (T B E 3 30 E) 4 40 (T B (T R E 5 50 E) 6 60 (T R E 7 70 E))) /\
  size (m_tree (reach build7)) = 7%nat /\ height (m_tree (reach build7)) = 4%nat.
Proof. vm_compute. repeat split; reflexivity. Qed.

(* the descending entry iterator over keys 1..7 removing the even ones (the history on which
   the unrepaired code visited 7 6 7 5 4 5 3 2 3 1): visits 7 6 5 4 3 2 1, leaves 1 3 5 7 *)
Example c10_example_descending_remove :
  let ds := [false; true; false; true; false; true; false] in
  let r := mrun (reach build7) (IterNew 1 0 :: drive 0 ds ++ [IterHasNext 0; Keys]) in
  snd r = [OUnit; OKeys [7; 70]; OKeys [6; 60]; OUnit; OKeys [5; 50]; OKeys [4; 40]; OUnit;
           OKeys [3; 30]; OKeys [2; 20]; OUnit; OKeys [1; 10]; OBool false; OKeys [1; 3; 5; 7]].
Proof. vm_compute. reflexivity. Qed.

(* both comparators of the harness (-1/0/+1 and the key difference) meet the hypothesis *)
Example c10_example_comparators :
  (forall a b, Z.sgn (cmp_sign a b) = Z.sgn (a - b)) /\ (forall a b, Z.sgn (cmp_diff a b) = Z.sgn (a - b)).
Proof. split; [exact cmp_sign_ok|exact cmp_diff_ok]. Qed.

(* Clear invalidates a live iterator: its Remove reports a concurrent modification and the
   size stays 0 (the unrepaired code answered Size() = -1) *)
Example c10_example_clear_live_iterator :
  snd (mrun minit [Put 1 10; Put 2 20; IterNew 0 0; IterNext 0; Clear; IterRemove 0; Size]) =
  [OVal None; OVal None; OUnit; OKeys [1; 10]; OUnit; OPanic P_ConcurrentModification; ONum 0].
Proof. vm_compute. reflexivity. Qed.
