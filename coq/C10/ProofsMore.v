(* C10 — what must NOT change, replacement keeps the shape, the snapshot law of iterators over
   their whole life, and the logarithmic search path. *)
From Coq Require Import ZArith List Bool Lia Arith.
From FV Require Import C10.Spec C10.Model C10.Proofs C10.ProofsIns C10.ProofsDel C10.ProofsIter
  C10.ProofsRefine C10.ProofsDrive C10.ProofsTop.
Import ListNotations.
Open Scope Z_scope.

(* ------------------------------------------------------------------ reads change nothing *)
Definition reads_only (o : op) : bool :=
  is_query o || match o with IterHasNext _ | EntryEquals _ _ _ _ => true | _ => false end.

Lemma reads_change_nothing ms o : reads_only o = true -> fst (mstep ms o) = ms.
Proof.
  destruct o; cbn; try discriminate; intros _; try reflexivity.
  - destruct (m_its ms slot); reflexivity.
  - destruct (m_access acc1 k1 (m_tree ms)), (m_access acc2 k2 (m_tree ms)); reflexivity.
Qed.

(* an operation that reports a panic (no such element, concurrent modification, illegal state)
   or finds nothing to do leaves tree, size, version and every iterator as they were *)
Lemma panics_change_nothing ms o c : snd (mstep ms o) = OPanic c -> fst (mstep ms o) = ms.
Proof.
  destruct o; cbn [mstep];
    repeat match goal with
           | |- context [match ?x with _ => _ end] => destruct x eqn:?
           | |- context [if ?b then _ else _] => destruct b eqn:?
           end; cbn [fst snd]; intros H; try discriminate H; try reflexivity;
    unfold next_out in H;
    repeat match type of H with context [if ?b then _ else _] => destruct b end; discriminate H.
Qed.

Lemma absent_change_nothing ms k : lookup k (m_tree ms) = None ->
  mstep ms (Remove k) = (ms, OBool false) /\
  (forall i, fst (mstep ms (ForeachRemove i k)) = ms) /\
  mstep ms (Get k) = (ms, OVal None) /\ mstep ms (Contains k) = (ms, OBool false).
Proof.
  intros H. cbn [mstep]. rewrite H. repeat split. intros i.
  destruct ((0 <=? i) && _); reflexivity.
Qed.

(* ------------------------------------------------------------------ replacement keeps the shape *)
Fixpoint setv (k v : Z) (t : tree) : tree :=
  match t with
  | E => E
  | T c l k' v' r =>
      match k ?= k' with
      | Lt => T c (setv k v l) k' v' r
      | Gt => T c l k' v' (setv k v r)
      | Eq => T c l k' v r
      end
  end.

Lemma ins_present k v t : lookup k t <> None -> ins k v t = (setv k v t, IDone).
Proof.
  induction t as [|c l IHl k' v' r IHr]; [cbn; congruence|]. cbn [lookup ins setv].
  destruct (k ?= k'); intros H; [reflexivity | rewrite (IHl H); reflexivity | rewrite (IHr H); reflexivity].
Qed.

Lemma put_present k v t : lookup k t <> None -> col t = B -> put k v t = setv k v t.
Proof.
  intros H C. unfold put. rewrite (ins_present k v t H). cbn [fst].
  destruct t as [|c l k' v' r]; [reflexivity|]. cbn in C. subst c. cbn [setv].
  destruct (k ?= k'); reflexivity.
Qed.

Lemma reach_replace ops k v old : lookup k (m_tree (reach ops)) = Some old ->
  fst (mstep (reach ops) (Put k v)) =
  mk_mstate (setv k v (m_tree (reach ops))) (m_size (reach ops)) (m_ver (reach ops)) (m_its (reach ops)).
Proof.
  intros H. cbn [mstep]. rewrite H. cbn [fst]. rewrite put_present; [reflexivity|congruence|].
  exact (proj1 (reach_rb ops)).
Qed.

(* ------------------------------------------------------------------ snapshot law *)
(* the key a successful IterNext on [slot] pops *)
Definition popped (slot : Z) (s : sstate) (o : op) : list Z :=
  match o with
  | IterNext sl =>
      if sl =? slot then
        match s_its s slot with
        | Some it => match si_pending it with
                     | k :: _ => if si_exp it =? s_ver s then [k] else []
                     | [] => [] end
        | None => []
        end
      else []
  | _ => []
  end.
Fixpoint visited (slot : Z) (s : sstate) (ops : list op) : list Z :=
  match ops with
  | [] => []
  | o :: r => popped slot s o ++ visited slot (fst (sstep s o)) r
  end.
Definition recreates (slot : Z) (o : op) : bool :=
  match o with IterNew _ sl | IterNewAt _ sl _ _ => sl =? slot | _ => false end.

Lemma upd_get {A} (f : Z -> option A) s x y :
  upd f s x y = if y =? s then Some x else f y.
Proof. reflexivity. Qed.

Lemma snapshot_step slot s o it : s_its s slot = Some it -> recreates slot o = false ->
  exists it', s_its (fst (sstep s o)) slot = Some it' /\
              popped slot s o ++ si_pending it' = si_pending it /\ si_kind it' = si_kind it.
Proof.
  intros Hit Hr.
  assert (forall s', s_its s' = s_its s -> popped slot s o = [] ->
          exists it', s_its s' slot = Some it' /\ popped slot s o ++ si_pending it' = si_pending it /\
                      si_kind it' = si_kind it) as Same
    by (intros s' E P; exists it; rewrite E, P; auto).
  destruct o; cbn [recreates] in Hr; cbn [sstep];
    try (repeat match goal with
                | |- context [match ?x with _ => _ end] => destruct x eqn:?
                | |- context [if ?b then _ else _] => destruct b eqn:?
                end; cbn [fst]; apply Same; reflexivity).
  - (* IterNew *) destruct (kind_ok kind); cbn [fst]; [|apply Same; reflexivity].
    exists it. cbn [s_with_iter s_its]. rewrite upd_get. rewrite Z.eqb_sym, Hr. auto.
  - (* IterNext *)
    cbn [popped]. destruct (Z.eqb_spec slot0 slot) as [->|Hne].
    + rewrite Hit. destruct (si_pending it) as [|k rest] eqn:Ep; cbn [fst].
      * exists it. rewrite Ep. auto.
      * destruct (si_exp it =? s_ver s); cbn [fst].
        -- eexists. cbn [s_with_iter s_its]. rewrite upd_get, Z.eqb_refl. split; [reflexivity|].
           cbn [si_pending si_kind]. auto.
        -- exists it. rewrite Ep. auto.
    + destruct (s_its s slot0) as [it0|]; [|cbn [fst]; exists it; auto].
      destruct (si_pending it0); cbn [fst]; [exists it; auto|].
      destruct (si_exp it0 =? s_ver s); cbn [fst]; [|exists it; auto].
      exists it. cbn [s_with_iter s_its]. rewrite upd_get.
      destruct (Z.eqb_spec slot slot0); [congruence|auto].
  - (* IterRemove *)
    destruct (s_its s slot0) as [it0|] eqn:E0; [|cbn [fst]; exists it; auto].
    destruct (si_last it0); cbn [fst]; [|exists it; auto].
    destruct (si_exp it0 =? s_ver s); cbn [fst]; [|exists it; auto].
    cbn [s_with_iter s_with_list s_its]. rewrite upd_get.
    destruct (Z.eqb_spec slot slot0) as [->|Hne]; [|exists it; auto].
    rewrite Hit in E0. injection E0 as <-. eexists. split; [reflexivity|]. cbn. auto.
  - (* IterNewAt *) destruct (kind_ok kind); cbn [fst]; [|apply Same; reflexivity].
    exists it. cbn [s_with_iter s_its]. rewrite upd_get. rewrite Z.eqb_sym, Hr. auto.
Qed.

Lemma snapshot_run slot ops : forall s it, s_its s slot = Some it ->
  forallb (fun o => negb (recreates slot o)) ops = true ->
  exists it', s_its (fst (srun s ops)) slot = Some it' /\
              visited slot s ops ++ si_pending it' = si_pending it /\ si_kind it' = si_kind it.
Proof.
  induction ops as [|o ops IH]; intros s it Hit Hf.
  - exists it. auto.
  - cbn in Hf. apply andb_prop in Hf. destruct Hf as [Ho Hf]. apply negb_true_iff in Ho.
    destruct (snapshot_step slot s o it Hit Ho) as (it1 & H1 & P1 & K1).
    cbn [srun visited]. destruct (sstep s o) as [s1 x] eqn:Es. cbn [fst] in *.
    destruct (IH s1 it1 H1 Hf) as (it2 & H2 & P2 & K2).
    destruct (srun s1 ops) as [s2 xs]. cbn [fst] in *.
    exists it2. split; [exact H2|]. split; [|congruence].
    rewrite <- app_assoc, P2. exact P1.
Qed.

Lemma iter_snapshot ops1 kind slot ops2 : kind_ok kind = true ->
  forallb (fun o => negb (recreates slot o)) ops2 = true ->
  let s0 := sreach ops1 in
  let s1 := fst (sstep s0 (IterNew kind slot)) in
  exists it', s_its (fst (srun s1 ops2)) slot = Some it' /\
    visited slot s1 ops2 ++ si_pending it' =
    (if kind_asc kind then map fst (s_list s0) else rev (map fst (s_list s0))).
Proof.
  intros Hk Hf s0 s1.
  assert (s_its s1 slot = Some (mk_siter kind (if kind_asc kind then map fst (s_list s0) else rev (map fst (s_list s0))) None (s_ver s0))) as Hit
    by (subst s1; cbn [sstep]; rewrite Hk; cbn; rewrite upd_get, Z.eqb_refl; reflexivity).
  destruct (snapshot_run slot ops2 s1 _ Hit Hf) as (it' & H & P & _).
  exists it'. split; [exact H|exact P].
Qed.

(* what a popping Next returns *)
Lemma popped_output slot s o k : popped slot s o = [k] ->
  exists it v, s_its s slot = Some it /\ snd (sstep s o) = next_out (si_kind it) k v.
Proof.
  destruct o; cbn [popped]; try discriminate. destruct (Z.eqb_spec slot0 slot) as [->|]; [|discriminate].
  destruct (s_its s slot) as [it|] eqn:E; [|discriminate].
  destruct (si_pending it) as [|k0 rest] eqn:Ep; [discriminate|].
  destruct (si_exp it =? s_ver s) eqn:Ev; [|discriminate]. intros [= ->].
  exists it. eexists. split; [reflexivity|]. cbn [sstep]. rewrite E, Ep, Ev. reflexivity.
Qed.

(* ------------------------------------------------------------------ logarithmic search path *)
(* the nodes a search for k compares with: getEntry, Put's descent, the deletion's descent and
   the neighbour searches all walk this path *)
Fixpoint path_len (k : Z) (t : tree) : nat :=
  match t with
  | E => O
  | T _ l k' _ r => S (match (k ?= k')%Z with Lt => path_len k l | Gt => path_len k r | Eq => O end)
  end.

Lemma path_len_height k t : (path_len k t <= height t)%nat.
Proof.
  induction t as [|c l IHl k' v' r IHr]; [cbn; lia|]. cbn [path_len height].
  destruct (k ?= k'); lia.
Qed.

Lemma reach_path_len ops k :
  Z.of_nat (path_len k (m_tree (reach ops))) <= 2 * Z.log2 (m_size (reach ops) + 1).
Proof.
  pose proof (reach_height ops). pose proof (path_len_height k (m_tree (reach ops))). lia.
Qed.
