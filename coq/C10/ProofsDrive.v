(* C10 — stage 4 (part 3): iterating with interleaved Remove visits every entry that was
   present when the iterator was created exactly once, in the iterator's direction, and
   removes exactly the chosen entries.  Proved on the specification, transported to the tree
   model through the refinement. *)
From Coq Require Import ZArith List Bool Lia Arith Permutation.
From FV Require Import C10.Spec C10.Model C10.Proofs C10.ProofsIns C10.ProofsDel C10.ProofsIter
  C10.ProofsRefine.
Import ListNotations.
Open Scope Z_scope.

(* one Next per entry; d = true: followed by Remove *)
Fixpoint drive (slot : Z) (ds : list bool) : list op :=
  match ds with
  | [] => []
  | d :: r => IterNext slot :: (if d then [IterRemove slot] else []) ++ drive slot r
  end.
(* the results this must produce when the entries are es (in the iterator's direction) *)
Fixpoint drive_outs (kind : Z) (es : list kv) (ds : list bool) : list out :=
  match es, ds with
  | (k, v) :: es', d :: ds' =>
      next_out kind k v :: (if d then [OUnit] else []) ++ drive_outs kind es' ds'
  | _, _ => []
  end.
Fixpoint removed (es : list kv) (ds : list bool) : list Z :=
  match es, ds with
  | (k, _) :: es', d :: ds' => (if d then [k] else []) ++ removed es' ds'
  | _, _ => []
  end.
Definition gone (k : Z) (ks : list Z) : bool := existsb (Z.eqb k) ks.

Lemma srun_app ss a b :
  srun ss (a ++ b) =
  (fst (srun (fst (srun ss a)) b), snd (srun ss a) ++ snd (srun (fst (srun ss a)) b)).
Proof.
  revert ss. induction a as [|o a IH]; intros ss; cbn [app srun fst snd].
  - destruct (srun ss b); reflexivity.
  - destruct (sstep ss o) as [s1 x]. rewrite IH.
    destruct (srun s1 a) as [s2 xs]. cbn [fst snd]. destruct (srun s2 b); reflexivity.
Qed.

Lemma mrun_app ms a b :
  mrun ms (a ++ b) =
  (fst (mrun (fst (mrun ms a)) b), snd (mrun ms a) ++ snd (mrun (fst (mrun ms a)) b)).
Proof.
  revert ms. induction a as [|o a IH]; intros ms; cbn [app mrun fst snd].
  - destruct (mrun ms b); reflexivity.
  - destruct (mstep ms o) as [s1 x]. rewrite IH.
    destruct (mrun s1 a) as [s2 xs]. cbn [fst snd]. destruct (mrun s2 b); reflexivity.
Qed.

Lemma spec_drive kind slot : forall ds es ss last,
  ssorted (s_list ss) ->
  s_its ss slot = Some (mk_siter kind (map fst es) last (s_ver ss)) ->
  (forall k v, In (k, v) es -> sl_lookup k (s_list ss) = Some v) ->
  NoDup (map fst es) ->
  length ds = length es ->
  snd (srun ss (drive slot ds)) = drive_outs kind es ds /\
  (forall k, sl_lookup k (s_list (fst (srun ss (drive slot ds)))) =
             if gone k (removed es ds) then None else sl_lookup k (s_list ss)) /\
  ssorted (s_list (fst (srun ss (drive slot ds)))) /\
  exists last', s_its (fst (srun ss (drive slot ds))) slot =
                Some (mk_siter kind [] last' (s_ver (fst (srun ss (drive slot ds))))).
Proof.
  induction ds as [|d ds IH]; intros es ss last S Hit Hlk Hnd Hlen.
  - destruct es; [|discriminate]. cbn. repeat split; auto. exists last. exact Hit.
  - destruct es as [|[k v] es]; [discriminate|]. cbn [length] in Hlen. injection Hlen as Hlen.
    cbn [map fst] in Hit, Hnd. inversion Hnd as [|? ? Hnotin Hnd']; subst.
    assert (sl_lookup k (s_list ss) = Some v) as Hkv by (apply Hlk; left; reflexivity).
    cbn [drive]. cbn [srun app sstep]. rewrite Hit. cbn [si_pending si_exp si_kind].
    rewrite Z.eqb_refl, Hkv.
    set (ss1 := s_with_iter ss slot (mk_siter kind (map fst es) (Some k) (s_ver ss))).
    destruct d.
    + (* Next, then Remove *)
      cbn [app srun sstep]. assert (s_its ss1 slot = Some (mk_siter kind (map fst es) (Some k) (s_ver ss))) as Hit1
        by (subst ss1; cbn; unfold upd; rewrite Z.eqb_refl; reflexivity).
      rewrite Hit1. cbn [si_last si_exp si_kind si_pending].
      replace (s_ver ss1) with (s_ver ss) by reflexivity. rewrite Z.eqb_refl.
      replace (s_list ss1) with (s_list ss) by reflexivity.
      set (ss2 := s_with_iter (s_with_list ss1 (sl_delete k (s_list ss)) true) slot
                    (mk_siter kind (map fst es) None (s_ver (s_with_list ss1 (sl_delete k (s_list ss)) true)))).
      specialize (IH es ss2 None).
      destruct IH as (O1 & L1 & S1 & X1).
      * subst ss2. cbn. apply ssorted_delete. exact S.
      * subst ss2. cbn. unfold upd. rewrite Z.eqb_refl. reflexivity.
      * intros k' v' Hin. subst ss2. cbn. rewrite lookup_delete by exact S.
        destruct (Z.eqb_spec k' k) as [->|Hne]; [|apply Hlk; right; exact Hin].
        exfalso. apply Hnotin. apply (in_map fst) in Hin. exact Hin.
      * exact Hnd'.
      * exact Hlen.
      * destruct (srun ss2 (drive slot ds)) as [ss3 outs]. cbn [fst snd] in *.
        repeat split; auto.
        -- cbn [drive_outs app]. rewrite O1. reflexivity.
        -- intros k0. rewrite L1. cbn [removed app gone existsb]. fold (gone k0 (removed es ds)).
           subst ss2. cbn [s_list s_with_iter s_with_list]. rewrite lookup_delete by exact S.
           destruct (k0 =? k); cbn [orb]; destruct (gone k0 (removed es ds)); reflexivity.
    + (* Next only *)
      cbn [app]. specialize (IH es ss1 (Some k)).
      destruct IH as (O1 & L1 & S1 & X1).
      * exact S.
      * subst ss1. cbn. unfold upd. rewrite Z.eqb_refl. reflexivity.
      * intros k' v' Hin. apply Hlk. right. exact Hin.
      * exact Hnd'.
      * exact Hlen.
      * destruct (srun ss1 (drive slot ds)) as [ss3 outs]. cbn [fst snd] in *.
        repeat split; auto. cbn [drive_outs app]. rewrite O1. reflexivity.
Qed.

Lemma ssorted_nodup l : ssorted l -> NoDup (map fst l).
Proof.
  induction l as [|[k v] l IH]; [constructor|]. intros [G S]. cbn [map fst]. constructor; [|auto].
  intros Hin. apply in_map_iff in Hin. destruct Hin as ([k' v'] & Hk & Hin). cbn in Hk. subst k'.
  cbn [fst] in G. unfold keys_gt in G. rewrite Forall_forall in G. specialize (G _ Hin). cbn in G. lia.
Qed.

(* entries in the direction of an iterator kind *)
Definition dir_entries (kind : Z) (l : list kv) : list kv := if kind_asc kind then l else rev l.

Lemma spec_iterate ss kind slot ds : ssorted (s_list ss) -> kind_ok kind = true ->
  length ds = length (s_list ss) ->
  let es := dir_entries kind (s_list ss) in
  let ops := IterNew kind slot :: drive slot ds ++ [IterHasNext slot] in
  snd (srun ss ops) = OUnit :: drive_outs kind es ds ++ [OBool false] /\
  (forall k, sl_lookup k (s_list (fst (srun ss ops))) =
             if gone k (removed es ds) then None else sl_lookup k (s_list ss)).
Proof.
  intros S Hk Hlen es ops. subst ops. cbn [srun sstep]. rewrite Hk.
  set (ss0 := s_with_iter ss slot _).
  assert (map fst es = if kind_asc kind then map fst (s_list ss) else rev (map fst (s_list ss))) as Hes
    by (subst es; unfold dir_entries; destruct (kind_asc kind); [reflexivity|apply map_rev]).
  destruct (spec_drive kind slot ds es ss0 None) as (O1 & L1 & S1 & last' & X1).
  - exact S.
  - subst ss0. cbn. unfold upd. rewrite Z.eqb_refl, Hes. reflexivity.
  - intros k v Hin. apply ssorted_in_lookup; [exact S|]. subst es. unfold dir_entries in Hin.
    destruct (kind_asc kind); [exact Hin|apply in_rev; exact Hin].
  - rewrite Hes. pose proof (ssorted_nodup _ S) as N. destruct (kind_asc kind); [exact N|].
    apply NoDup_rev. exact N.
  - subst es. unfold dir_entries. destruct (kind_asc kind); [|rewrite rev_length]; exact Hlen.
  - rewrite srun_app. cbn [fst snd]. rewrite O1.
    destruct (srun ss0 (drive slot ds)) as [ss1 outs] eqn:E. cbn [fst snd] in *.
    cbn [srun sstep]. rewrite X1. cbn [si_pending fst snd]. split; [reflexivity|].
    intros k. rewrite L1. reflexivity.
Qed.

(* ---- transport to the model ---- *)
Definition no_traversal (o : op) : bool :=
  match o with PreOrder | PostOrder => false | _ => true end.

Lemma outs_agree_eq ops : forall a b, forallb no_traversal ops = true -> outs_agree ops a b -> a = b.
Proof.
  induction ops as [|o ops IH]; intros a b Hf H.
  - destruct a, b; try contradiction. reflexivity.
  - destruct a as [|x a], b as [|y b]; try contradiction. cbn in Hf. apply andb_prop in Hf.
    destruct Hf as [Ho Hf]. destruct H as [H1 H2]. f_equal; [|apply IH; assumption].
    destruct o; try discriminate Ho; exact H1.
Qed.

Lemma drive_no_traversal slot ds : forallb no_traversal (drive slot ds) = true.
Proof. induction ds as [|[] ds IH]; cbn; auto. Qed.

Lemma iter_remove_model ms ss kind slot ds : Inv ms ss -> kind_ok kind = true ->
  length ds = length (inorder (m_tree ms)) ->
  let es := dir_entries kind (inorder (m_tree ms)) in
  let ops := IterNew kind slot :: drive slot ds ++ [IterHasNext slot] in
  snd (mrun ms ops) = OUnit :: drive_outs kind es ds ++ [OBool false] /\
  (forall k, lookup k (m_tree (fst (mrun ms ops))) =
             if gone k (removed es ds) then None else lookup k (m_tree ms)) /\
  bst (m_tree (fst (mrun ms ops))) /\ rbtree (m_tree (fst (mrun ms ops))).
Proof.
  intros I Hk Hlen es ops. pose proof (inv_sorted _ _ I) as S.
  destruct (run_refines ops ms ss I) as [I' A].
  subst es. rewrite (inv_list _ _ I) in *.
  destruct (spec_iterate ss kind slot ds S Hk Hlen) as [O L]. fold ops in O, L.
  apply outs_agree_eq in A.
  2:{ subst ops. cbn [forallb no_traversal]. rewrite forallb_app, drive_no_traversal. reflexivity. }
  split; [|split; [|split]].
  - rewrite A. exact O.
  - intros k. rewrite (inv_lookup _ _ k I'), (inv_lookup _ _ k I). apply L.
  - exact (inv_bst _ _ I').
  - exact (inv_rb _ _ I').
Qed.
