(* C10 — stage 4 (part 2): the map with its iterators refines the sorted association list
   with snapshot iterators, for every operation sequence. *)
From Coq Require Import ZArith List Bool Lia Arith Permutation.
From FV Require Import C10.Spec C10.Model C10.Proofs C10.ProofsIns C10.ProofsDel C10.ProofsIter.
Import ListNotations.
Open Scope Z_scope.

(* a model iterator that is still valid (expectedVersion = version) stands for the snapshot
   iterator whose pending keys are the keys from [next] on, in its direction *)
Definition valid_iter (asc : bool) (ks : list Z) (next last : option Z) (pending : list Z) : Prop :=
  let dl := dir_list asc ks in
  pending = from (dir_ltb asc) next dl /\
  match next with Some nk => In nk ks | None => True end /\
  match last with Some lk => In lk ks /\ next = nx (dir_ltb asc) lk dl | None => True end.

Definition iter_rel (ks : list Z) (ver : Z) (om : option miter) (os : option siter) : Prop :=
  match om, os with
  | None, None => True
  | Some mi, Some si =>
      mi_kind mi = si_kind si /\ mi_last mi = si_last si /\ mi_exp mi = si_exp si /\
      mi_next mi = hd_error (si_pending si) /\ mi_exp mi <= ver /\
      (mi_exp mi = ver ->
       valid_iter (kind_asc (mi_kind mi)) ks (mi_next mi) (mi_last mi) (si_pending si))
  | _, _ => False
  end.

Record Inv (ms : mstate) (ss : sstate) : Prop := mkInv {
  inv_list : inorder (m_tree ms) = s_list ss;
  inv_bst : bst (m_tree ms);
  inv_rb : rbtree (m_tree ms);
  inv_size : m_size ms = Z.of_nat (length (s_list ss));
  inv_ver : m_ver ms = s_ver ss;
  inv_its : forall slot, iter_rel (keys (s_list ss)) (s_ver ss) (m_its ms slot) (s_its ss slot)
}.

Lemma inv_sorted ms ss : Inv ms ss -> ssorted (s_list ss).
Proof. intros I. rewrite <- (inv_list _ _ I). apply bst_sorted. exact (inv_bst _ _ I). Qed.

Lemma inv_lookup ms ss k : Inv ms ss -> lookup k (m_tree ms) = sl_lookup k (s_list ss).
Proof. intros I. rewrite <- (inv_list _ _ I). apply lookup_spec. exact (inv_bst _ _ I). Qed.

Lemma iter_rel_bump ks ks' ver om os : iter_rel ks ver om os -> iter_rel ks' (ver + 1) om os.
Proof.
  unfold iter_rel. destruct om as [mi|], os as [si|]; auto.
  intros (H1 & H2 & H3 & H4 & H5 & _). repeat split; auto; lia.
Qed.

Lemma inv_init : Inv minit sinit.
Proof.
  constructor; cbn; auto.
  split; [reflexivity|]. exists O. reflexivity.
Qed.

Lemma inv_upd ms ss slot mi si : Inv ms ss ->
  iter_rel (keys (s_list ss)) (s_ver ss) (Some mi) (Some si) ->
  Inv (m_with_iter ms slot mi) (s_with_iter ss slot si).
Proof.
  intros I R. destruct I. constructor; cbn; auto.
  intros s. unfold upd. destruct (s =? slot); [exact R|apply inv_its0].
Qed.

(* ------------------------------------------------------------------ structural changes *)
Lemma inv_put_new ms ss k v : Inv ms ss -> sl_lookup k (s_list ss) = None ->
  Inv (mk_mstate (put k v (m_tree ms)) (match m_tree ms with E => 1 | _ => m_size ms + 1 end)
                 (m_ver ms + 1) (m_its ms))
      (s_with_list ss (sl_insert k v (s_list ss)) true).
Proof.
  intros I Hk. pose proof (inv_sorted _ _ I) as S. destruct I. constructor; cbn.
  - rewrite inorder_put by assumption. congruence.
  - apply bst_put. assumption.
  - apply rbtree_put. assumption.
  - rewrite length_insert, Hk by exact S. destruct (m_tree ms) eqn:E.
    + cbn in inv_list0. rewrite <- inv_list0. reflexivity.
    + lia.
  - lia.
  - intros slot. apply iter_rel_bump with (ks := keys (s_list ss)). apply inv_its0.
Qed.

Lemma inv_put_replace ms ss k v : Inv ms ss -> sl_lookup k (s_list ss) <> None ->
  Inv (mk_mstate (put k v (m_tree ms)) (m_size ms) (m_ver ms) (m_its ms))
      (s_with_list ss (sl_insert k v (s_list ss)) false).
Proof.
  intros I Hk. pose proof (inv_sorted _ _ I) as S. destruct I. constructor; cbn.
  - rewrite inorder_put by assumption. congruence.
  - apply bst_put. assumption.
  - apply rbtree_put. assumption.
  - rewrite length_insert by exact S. destruct (sl_lookup k (s_list ss)); [assumption|congruence].
  - assumption.
  - intros slot. rewrite keys_insert_present by assumption. apply inv_its0.
Qed.

Lemma inv_delete ms ss k : Inv ms ss -> sl_lookup k (s_list ss) <> None ->
  Inv (m_delete ms k) (s_with_list ss (sl_delete k (s_list ss)) true).
Proof.
  intros I Hk. pose proof (inv_sorted _ _ I) as S. destruct I. constructor; cbn.
  - rewrite inorder_remove by assumption. congruence.
  - apply bst_remove. assumption.
  - apply rbtree_remove. assumption.
  - pose proof (length_delete k _ S) as L. destruct (sl_lookup k (s_list ss)); [lia|congruence].
  - lia.
  - intros slot. apply iter_rel_bump with (ks := keys (s_list ss)). apply inv_its0.
Qed.

Lemma inv_clear ms ss : Inv ms ss ->
  Inv (mk_mstate E 0 (m_ver ms + 1) (m_its ms)) (s_with_list ss [] true).
Proof.
  intros I. destruct I. constructor; cbn; auto.
  - split; [reflexivity|]. exists O. reflexivity.
  - lia.
  - intros slot. apply iter_rel_bump with (ks := keys (s_list ss)). apply inv_its0.
Qed.

(* ------------------------------------------------------------------ agreement of results *)
Definition out_agree (o : op) (mo so : out) : Prop :=
  match o with
  | PreOrder | PostOrder =>
      match mo, so with OEnts a, OEnts b => Permutation a b | _, _ => False end
  | _ => mo = so
  end.

Definition step_ok (ms : mstate) (ss : sstate) (o : op) : Prop :=
  Inv (fst (mstep ms o)) (fst (sstep ss o)) /\ out_agree o (snd (mstep ms o)) (snd (sstep ss o)).

Lemma step_put ms ss k v : Inv ms ss -> step_ok ms ss (Put k v).
Proof.
  intros I. unfold step_ok. cbn [mstep sstep]. rewrite (inv_lookup _ _ k I).
  destruct (sl_lookup k (s_list ss)) eqn:E; cbn [fst snd out_agree].
  - split; [|reflexivity]. apply inv_put_replace; [exact I|congruence].
  - split; [|reflexivity]. apply inv_put_new; assumption.
Qed.

Lemma step_remove ms ss k : Inv ms ss -> step_ok ms ss (Remove k).
Proof.
  intros I. unfold step_ok. cbn [mstep sstep]. rewrite (inv_lookup _ _ k I).
  destruct (sl_lookup k (s_list ss)) eqn:E; cbn [fst snd out_agree].
  - split; [|reflexivity]. apply inv_delete; [exact I|congruence].
  - split; [exact I|reflexivity].
Qed.

Lemma step_clear ms ss : Inv ms ss -> step_ok ms ss Clear.
Proof. intros I. split; [apply inv_clear; exact I|reflexivity]. Qed.

Lemma step_foreach_remove ms ss i k : Inv ms ss -> step_ok ms ss (ForeachRemove i k).
Proof.
  intros I. unfold step_ok. cbn [mstep sstep]. rewrite (inv_lookup _ _ k I), (inv_list _ _ I).
  destruct ((0 <=? i) && (i <? Z.of_nat (length (s_list ss)))); [|split; [exact I|reflexivity]].
  destruct (sl_lookup k (s_list ss)) eqn:E; cbn [fst snd out_agree].
  - split; [|reflexivity]. apply inv_delete; [exact I|congruence].
  - split; [exact I|reflexivity].
Qed.

(* operations that only read *)
Definition is_query (o : op) : bool :=
  match o with
  | Put _ _ | Remove _ | Clear | ForeachRemove _ _ | IterNew _ _ | IterHasNext _ | IterNext _
  | IterRemove _ | SetValueAt _ _ _ | EntryEquals _ _ _ _ | IterSetValue _ _
  | IterNewAt _ _ _ _ | ForeachPut _ _ _ => false
  | _ => true
  end.

Lemma step_query ms ss o : is_query o = true -> Inv ms ss -> step_ok ms ss o.
Proof.
  intros Q I. pose proof (inv_bst _ _ I) as Bt. pose proof (inv_list _ _ I) as L.
  pose proof (inv_size _ _ I) as Sz.
  destruct o; try discriminate Q; (split; [exact I|]); cbn [mstep sstep snd out_agree];
    rewrite ?(inv_lookup _ _ _ I), ?min_entry_spec, ?max_entry_spec, ?floor_spec, ?ceiling_spec,
            ?higher_spec, ?lower_spec by exact Bt; rewrite ?L; try reflexivity.
  - rewrite Sz. reflexivity.
  - f_equal. rewrite Sz. destruct (s_list ss); reflexivity.
  - rewrite <- L. apply preorder_perm.
  - rewrite <- L. apply postorder_perm.
Qed.

(* ------------------------------------------------------------------ live entries *)
Lemma m_access_spec acc k t : bst t -> m_access acc k t = sl_access acc k (inorder t).
Proof.
  intros H. unfold m_access, sl_access.
  rewrite min_entry_spec, max_entry_spec, floor_spec, ceiling_spec, higher_spec, lower_spec by exact H.
  reflexivity.
Qed.

Lemma hd_in {A} (l : list A) e : hd_error l = Some e -> In e l.
Proof. destruct l; cbn; [discriminate|]. intros [= ->]. left. reflexivity. Qed.

Lemma sl_access_in acc k l e : sl_access acc k l = Some e -> In e l.
Proof.
  unfold sl_access, sl_first, sl_last, sl_floor, sl_ceiling, sl_higher, sl_lower.
  destruct (acc =? 0); [apply hd_in|].
  destruct (acc =? 1); [intros H; apply in_rev; apply hd_in; exact H|].
  destruct (acc =? 2); [intros H; apply find_some in H; apply in_rev; tauto|].
  destruct (acc =? 3); [intros H; apply find_some in H; tauto|].
  destruct (acc =? 4); [intros H; apply find_some in H; tauto|].
  destruct (acc =? 5); [intros H; apply find_some in H; apply in_rev; tauto|discriminate].
Qed.

Lemma inv_access ms ss acc k : Inv ms ss ->
  m_access acc k (m_tree ms) = sl_access acc k (s_list ss).
Proof. intros HI. rewrite <- (inv_list _ _ HI). apply m_access_spec. exact (inv_bst _ _ HI). Qed.

Lemma step_set_value_at ms ss acc k v : Inv ms ss -> step_ok ms ss (SetValueAt acc k v).
Proof.
  intros HI. unfold step_ok. cbn [mstep sstep]. rewrite (inv_access _ _ acc k HI).
  destruct (sl_access acc k (s_list ss)) as [[k' old]|] eqn:Ea; [|split; [exact HI|reflexivity]].
  cbn [fst snd out_agree]. split; [|reflexivity]. apply inv_put_replace; [exact HI|].
  apply sl_access_in in Ea. rewrite (ssorted_in_lookup _ _ _ (inv_sorted _ _ HI) Ea). discriminate.
Qed.

Lemma step_entry_equals ms ss a1 k1 a2 k2 : Inv ms ss -> step_ok ms ss (EntryEquals a1 k1 a2 k2).
Proof.
  intros HI. unfold step_ok. cbn [mstep sstep].
  rewrite (inv_access _ _ a1 k1 HI), (inv_access _ _ a2 k2 HI).
  destruct (sl_access a1 k1 (s_list ss)), (sl_access a2 k2 (s_list ss)); split; try exact HI; reflexivity.
Qed.

Lemma step_iter_set_value ms ss slot v : Inv ms ss -> step_ok ms ss (IterSetValue slot v).
Proof.
  intros HI. unfold step_ok. cbn [mstep sstep]. pose proof (inv_its _ _ HI slot) as R.
  unfold iter_rel in R. destruct (m_its ms slot) as [mi|], (s_its ss slot) as [si|]; try contradiction;
    [|split; [exact HI|reflexivity]].
  destruct R as (Hk & Hl & He & Hn & Hle & Hv). rewrite <- Hl, <- Hk, <- He, <- (inv_ver _ _ HI).
  destruct (mi_last mi) as [lk|] eqn:El; [|split; [exact HI|reflexivity]].
  destruct (mi_kind mi <=? 1); cbn [andb]; [|split; [exact HI|reflexivity]].
  destruct (Z.eqb_spec (mi_exp mi) (m_ver ms)) as [Ev|Ev]; [|split; [exact HI|reflexivity]].
  rewrite (inv_ver _ _ HI) in Ev. specialize (Hv Ev). destruct Hv as (_ & _ & Hlast & _).
  rewrite (inv_lookup _ _ lk HI). cbn [fst snd out_agree]. split; [|reflexivity].
  apply inv_put_replace; [exact HI|]. apply in_keys_lookup. exact Hlast.
Qed.

(* ------------------------------------------------------------------ iterators *)
Lemma first_key_dir (asc : bool) t :
  okey (if asc then min_entry t else max_entry t) = hd_error (dir_list asc (keys (inorder t))).
Proof. destruct asc; [apply hd_keys_min|apply hd_rev_keys_max]. Qed.

Lemma hd_error_in {A} (l : list A) x : hd_error l = Some x -> In x l.
Proof. destruct l; cbn; [discriminate|]. intros [= ->]. auto. Qed.

Lemma step_iter_new ms ss kind slot : Inv ms ss -> step_ok ms ss (IterNew kind slot).
Proof.
  intros I. unfold step_ok. cbn [mstep sstep].
  destruct (kind_ok kind); [|split; [exact I|reflexivity]].
  cbn [fst snd out_agree]. split; [|reflexivity]. apply inv_upd; [exact I|].
  pose proof (dsorted_dir (kind_asc kind) _ (inv_sorted _ _ I)) as S.
  assert (okey (if kind_asc kind then min_entry (m_tree ms) else max_entry (m_tree ms)) =
          hd_error (dir_list (kind_asc kind) (keys (s_list ss)))) as Hd
    by (rewrite first_key_dir, (inv_list _ _ I); reflexivity).
  cbn [iter_rel mi_kind mi_last mi_exp mi_next si_kind si_last si_exp si_pending].
  repeat split.
  - apply (inv_ver _ _ I).
  - rewrite Hd. reflexivity.
  - rewrite (inv_ver _ _ I). lia.
  - rewrite Hd. symmetry.
    apply from_hd; [apply dir_irrefl|apply dir_trans|exact S].
  - rewrite Hd. destruct (hd_error _) eqn:E; [|constructor].
    apply hd_error_in in E. apply (in_dir (kind_asc kind)). exact E.
Qed.

Lemma step_iter_hasnext ms ss slot : Inv ms ss -> step_ok ms ss (IterHasNext slot).
Proof.
  intros I. unfold step_ok. cbn [mstep sstep]. pose proof (inv_its _ _ I slot) as R.
  unfold iter_rel in R. destruct (m_its ms slot) as [mi|], (s_its ss slot) as [si|]; try contradiction.
  - destruct R as (_ & _ & _ & Hn & _). split; [exact I|]. cbn [snd out_agree]. rewrite Hn.
    destruct (si_pending si); reflexivity.
  - split; [exact I|reflexivity].
Qed.

Lemma next_key_dir (asc : bool) k t : bst t -> In k (keys (inorder t)) ->
  (if asc then succ_key k t else pred_key k t) =
  nx (dir_ltb asc) k (dir_list asc (keys (inorder t))).
Proof. intros. destruct asc; [apply succ_key_spec|apply pred_key_spec]; assumption. Qed.

Lemma step_iter_next ms ss slot : Inv ms ss -> step_ok ms ss (IterNext slot).
Proof.
  intros I. unfold step_ok. cbn [mstep sstep]. pose proof (inv_its _ _ I slot) as R.
  unfold iter_rel in R. destruct (m_its ms slot) as [mi|], (s_its ss slot) as [si|]; try contradiction;
    [|split; [exact I|reflexivity]].
  destruct R as (Hk & Hl & He & Hn & Hle & Hv).
  destruct (si_pending si) as [|k rest] eqn:Ep; cbn [hd_error] in Hn; rewrite Hn.
  - split; [exact I|reflexivity].
  - rewrite <- He, (inv_ver _ _ I). destruct (Z.eqb_spec (mi_exp mi) (s_ver ss)) as [Ev|Ev];
      [|split; [exact I|reflexivity]].
    specialize (Hv Ev). rewrite Hn in Hv. destruct Hv as (Hp & Hin & _).
    set (asc := kind_asc (mi_kind mi)) in *.
    pose proof (dsorted_dir asc _ (inv_sorted _ _ I)) as S.
    assert (In k (dir_list asc (keys (s_list ss)))) as Hin' by (apply in_dir; exact Hin).
    rewrite (from_step _ (dir_irrefl asc) (dir_trans asc) _ _ S Hin') in Hp.
    injection Hp as Hrest.
    cbn [fst snd out_agree]. split.
    + apply inv_upd; [exact I|].
      cbn [iter_rel mi_kind mi_last mi_exp mi_next si_kind si_last si_exp si_pending].
      rewrite next_key_dir by (try exact (inv_bst _ _ I); rewrite (inv_list _ _ I); exact Hin).
      rewrite (inv_list _ _ I). fold asc.
      set (n' := nx (dir_ltb asc) k (dir_list asc (keys (s_list ss)))) in *.
      assert (match n' with Some nk => In nk (dir_list asc (keys (s_list ss))) | None => True end) as Hn'.
      { destruct n' as [nk|] eqn:En; [|constructor]. eapply nx_in. exact En. }
      repeat split; auto.
      * rewrite Hrest. symmetry.
        apply from_some_hd; [apply dir_irrefl|apply dir_trans|exact S|exact Hn'].
      * destruct n'; [apply (in_dir asc); exact Hn'|constructor].
    + rewrite (inv_lookup _ _ k I), Hk. reflexivity.
Qed.

Lemma dir_list_delete asc lk l : ssorted l ->
  dir_list asc (keys (sl_delete lk l)) = filter (fun x => negb (x =? lk)) (dir_list asc (keys l)).
Proof.
  intros S. rewrite keys_delete by exact S. destruct asc; [reflexivity|]. cbn.
  induction (keys l) as [|x r IH]; [reflexivity|]. cbn [rev filter].
  rewrite filter_app. cbn [filter]. destruct (negb (x =? lk)); cbn [rev]; rewrite IH;
    [reflexivity|symmetry; apply app_nil_r].
Qed.

Lemma step_iter_remove ms ss slot : Inv ms ss -> step_ok ms ss (IterRemove slot).
Proof.
  intros I. unfold step_ok. cbn [mstep sstep]. pose proof (inv_its _ _ I slot) as R.
  unfold iter_rel in R. destruct (m_its ms slot) as [mi|], (s_its ss slot) as [si|]; try contradiction;
    [|split; [exact I|reflexivity]].
  destruct R as (Hk & Hl & He & Hn & Hle & Hv). rewrite <- Hl.
  destruct (mi_last mi) as [lk|] eqn:El; [|split; [exact I|reflexivity]].
  rewrite <- He, (inv_ver _ _ I). destruct (Z.eqb_spec (mi_exp mi) (s_ver ss)) as [Ev|Ev];
    [|split; [exact I|reflexivity]].
  specialize (Hv Ev). destruct Hv as (Hp & Hin & Hlast & Hnx).
  set (asc := kind_asc (mi_kind mi)) in *.
  pose proof (inv_sorted _ _ I) as Sl. pose proof (dsorted_dir asc _ Sl) as S.
  assert (sl_lookup lk (s_list ss) <> None) as Hpres by (apply in_keys_lookup; exact Hlast).
  (* both branches of the re-targeting give the same key *)
  assert ((if asc && two_children lk (m_tree ms) then succ_key lk (m_tree ms) else mi_next mi)
          = mi_next mi) as Hre.
  { destruct asc eqn:Ea; [|reflexivity]. cbn [andb]. destruct (two_children lk (m_tree ms)); [|reflexivity].
    rewrite Hnx. rewrite <- (inv_list _ _ I) in Hlast |- *.
    apply (next_key_dir true); [exact (inv_bst _ _ I)|exact Hlast]. }
  rewrite Hre. cbn [fst snd out_agree]. split; [|reflexivity].
  apply inv_upd; [apply inv_delete; assumption|].
  cbn [iter_rel mi_kind mi_last mi_exp mi_next si_kind si_last si_exp si_pending m_delete m_ver
       s_with_list s_ver s_list].
  assert (match mi_next mi with Some nk => dir_ltb asc lk nk = true | None => True end) as Hafter.
  { rewrite Hnx. destruct (nx _ _ _) eqn:En; [|constructor]. eapply nx_after. exact En. }
  repeat split; auto; try (rewrite (inv_ver _ _ I); lia).
  - fold asc. rewrite dir_list_delete by exact Sl. rewrite from_delete by exact Hafter. exact Hp.
  - destruct (mi_next mi) as [nk|]; [|constructor].
    apply in_keys_lookup. rewrite lookup_delete by exact Sl.
    destruct (Z.eqb_spec nk lk) as [->|Hne]; [|apply in_keys_lookup; exact Hin].
    rewrite dir_irrefl in Hafter. discriminate.
Qed.

Lemma step_foreach_put ms ss i k v : Inv ms ss -> step_ok ms ss (ForeachPut i k v).
Proof.
  intros HI. unfold step_ok. cbn [mstep sstep]. rewrite (inv_lookup _ _ k HI), (inv_list _ _ HI).
  destruct ((0 <=? i) && (i <? Z.of_nat (length (s_list ss)))); [|split; [exact HI|reflexivity]].
  destruct (sl_lookup k (s_list ss)) eqn:Ek; cbn [fst snd out_agree].
  - split; [apply inv_put_replace; [exact HI|congruence]|].
    rewrite inorder_put by exact (inv_bst _ _ HI). rewrite (inv_list _ _ HI). reflexivity.
  - split; [apply inv_put_new; assumption|reflexivity].
Qed.

Lemma filter_ext_in' {A} (f g : A -> bool) l : (forall x, f x = g x) -> filter f l = filter g l.
Proof. intros H. induction l as [|x l IH]; cbn; [reflexivity|]. rewrite H, IH. reflexivity. Qed.

Lemma step_iter_new_at ms ss kind slot acc k : Inv ms ss -> step_ok ms ss (IterNewAt kind slot acc k).
Proof.
  intros HI. unfold step_ok. cbn [mstep sstep].
  destruct (kind_ok kind); [|split; [exact HI|reflexivity]].
  cbn [fst snd out_agree]. split; [|reflexivity]. apply inv_upd; [exact HI|].
  rewrite (inv_access _ _ acc k HI).
  set (asc := kind_asc kind).
  pose proof (dsorted_dir asc _ (inv_sorted _ _ HI)) as S.
  cbn [iter_rel mi_kind mi_last mi_exp mi_next si_kind si_last si_exp si_pending].
  destruct (sl_access acc k (s_list ss)) as [[k0 v0]|] eqn:Ea.
  - apply sl_access_in in Ea. apply (in_map fst) in Ea. cbn [fst] in Ea. fold (keys (s_list ss)) in Ea.
    assert ((if asc then filter (fun x => k0 <=? x) (map fst (s_list ss))
             else filter (fun x => x <=? k0) (rev (map fst (s_list ss)))) =
            from (dir_ltb asc) (Some k0) (dir_list asc (keys (s_list ss)))) as Hp.
    { unfold from, dir_ltb, dir_list, keys. destruct asc; apply filter_ext_in'; intros x; unfold gtb;
        [rewrite Z.leb_antisym|rewrite Z.leb_antisym]; reflexivity. }
    fold asc. rewrite Hp. cbn [okey option_map fst].
    assert (In k0 (dir_list asc (keys (s_list ss)))) as Hin by (apply in_dir; exact Ea).
    repeat split; auto.
    + apply (inv_ver _ _ HI).
    + symmetry. apply (from_some_hd _ (dir_irrefl asc) (dir_trans asc) (Some k0)); assumption.
    + rewrite (inv_ver _ _ HI). lia.
  - cbn [okey option_map hd_error]. repeat split; auto.
    + apply (inv_ver _ _ HI).
    + rewrite (inv_ver _ _ HI). lia.
Qed.

(* ------------------------------------------------------------------ every operation, every sequence *)
Lemma step_refines ms ss o : Inv ms ss -> step_ok ms ss o.
Proof.
  intros I. destruct o;
    try (apply step_query; [reflexivity|exact I]).
  - apply step_put; exact I.
  - apply step_remove; exact I.
  - apply step_clear; exact I.
  - apply step_foreach_remove; exact I.
  - apply step_iter_new; exact I.
  - apply step_iter_hasnext; exact I.
  - apply step_iter_next; exact I.
  - apply step_iter_remove; exact I.
  - apply step_set_value_at; exact I.
  - apply step_entry_equals; exact I.
  - apply step_iter_set_value; exact I.
  - apply step_iter_new_at; exact I.
  - apply step_foreach_put; exact I.
Qed.

Fixpoint outs_agree (ops : list op) (mo so : list out) : Prop :=
  match ops, mo, so with
  | [], [], [] => True
  | o :: ops', x :: mo', y :: so' => out_agree o x y /\ outs_agree ops' mo' so'
  | _, _, _ => False
  end.

Lemma run_refines ops : forall ms ss, Inv ms ss ->
  Inv (fst (mrun ms ops)) (fst (srun ss ops)) /\
  outs_agree ops (snd (mrun ms ops)) (snd (srun ss ops)).
Proof.
  induction ops as [|o ops IH]; intros ms ss I; [split; [exact I|constructor]|].
  cbn [mrun srun]. destruct (step_refines ms ss o I) as [I1 A1].
  destruct (mstep ms o) as [ms1 x]. destruct (sstep ss o) as [ss1 y]. cbn [fst snd] in *.
  destruct (IH ms1 ss1 I1) as [I2 A2].
  destruct (mrun ms1 ops) as [ms2 xs]. destruct (srun ss1 ops) as [ss2 ys]. cbn [fst snd] in *.
  split; [exact I2|]. split; assumption.
Qed.
