(* C10 — the executable checkers that Run.v applies to the implementation's dumped tree mean
   what the theorems' vocabulary says: rb_ok <-> rbtree, bst_ok <-> bst, height_ok <-> the
   height bound, tree_eqb <-> equality, and the dump encoding determines the tree. *)
From Coq Require Import ZArith List Bool Lia Arith.
From FV Require Import Lib.Sx C10.Spec C10.Model C10.Run C10.Proofs C10.ProofsIns.
Import ListNotations.
Open Scope Z_scope.

Lemma bh_ok_rb t : forall n, bh_ok t = Some n <-> rb n t.
Proof.
  induction t as [|c l IHl k v r IHr]; intros n.
  - cbn. split; [intros [= <-]; reflexivity | intros ->; reflexivity].
  - cbn [bh_ok]. destruct (bh_ok l) as [a|] eqn:El, (bh_ok r) as [b|] eqn:Er.
    + destruct (Nat.eqb_spec a b) as [<-|Hne].
      * pose proof (proj1 (IHl a) eq_refl) as Hl. pose proof (proj1 (IHr a) eq_refl) as Hr.
        destruct c.
        -- destruct (isR l) eqn:Rl, (isR r) eqn:Rr; cbn [orb rb]; split;
             try discriminate; try (intros (Cl & Cr & _);
               (apply isR_true in Rl; congruence) || (apply isR_true in Rr; congruence)).
           ++ intros [= <-]. apply isR_false in Rl. apply isR_false in Rr. tauto.
           ++ intros (_ & _ & Hl' & _). apply IHl in Hl'. congruence.
        -- cbn [rb]. split.
           ++ intros [= <-]. tauto.
           ++ destruct n as [|m]; [contradiction|]. intros [Hl' _]. apply IHl in Hl'. congruence.
      * split; [discriminate|]. intros H.
        assert (exists m, rb m l /\ rb m r) as (m & Hl & Hr)
          by (destruct c; cbn [rb] in H; [exists n; tauto|destruct n as [|m]; [contradiction|exists m; tauto]]).
        apply IHl in Hl. apply IHr in Hr. congruence.
    + split; [discriminate|]. intros H.
      assert (exists m, rb m r) as (m & Hr)
        by (destruct c; cbn [rb] in H; [exists n; tauto|destruct n as [|m]; [contradiction|exists m; tauto]]).
      apply IHr in Hr. congruence.
    + split; [discriminate|]. intros H.
      assert (exists m, rb m l) as (m & Hl)
        by (destruct c; cbn [rb] in H; [exists n; tauto|destruct n as [|m]; [contradiction|exists m; tauto]]).
      apply IHl in Hl. congruence.
    + split; [discriminate|]. intros H.
      assert (exists m, rb m l) as (m & Hl)
        by (destruct c; cbn [rb] in H; [exists n; tauto|destruct n as [|m]; [contradiction|exists m; tauto]]).
      apply IHl in Hl. congruence.
Qed.

Lemma rb_ok_sound t : rb_ok t = true <-> rbtree t.
Proof.
  unfold rb_ok, rbtree. destruct (bh_ok t) as [n|] eqn:E.
  - apply bh_ok_rb in E. split.
    + intros H. apply negb_true_iff in H. apply isR_false in H. eauto.
    + intros [C _]. unfold isR. rewrite C. reflexivity.
  - split; [discriminate|]. intros [_ [n H]]. apply bh_ok_rb in H. congruence.
Qed.

Lemma strictly_sorted_sound l : strictly_sorted (map fst l) = true <-> ssorted l.
Proof.
  induction l as [|[k v] l IH]; [cbn; tauto|].
  cbn [map fst strictly_sorted ssorted]. destruct l as [|[k' v'] l'].
  - cbn. split; [intros _; split; [constructor|exact I] | reflexivity].
  - cbn [map fst] in *. rewrite andb_true_iff, IH, Z.ltb_lt. cbn [ssorted fst].
    rewrite keys_gt_cons. cbn [fst]. split.
    + intros (H1 & G & S). repeat split; auto. eapply keys_gt_trans; [exact G|lia].
    + tauto.
Qed.

Lemma bst_ok_sound t : bst_ok t = true <-> bst t.
Proof. unfold bst_ok. rewrite strictly_sorted_sound. symmetry. apply bst_sorted. Qed.

Lemma height_ok_sound t :
  height_ok t = true <-> (2 ^ height t <= (size t + 1) * (size t + 1))%nat.
Proof.
  unfold height_ok. rewrite Z.leb_le.
  replace 2 with (Z.of_nat 2) by reflexivity. rewrite <- Nat2Z.inj_pow.
  replace (Z.of_nat (size t) + 1) with (Z.of_nat (size t + 1)) by lia.
  rewrite <- Nat2Z.inj_mul. lia.
Qed.

Lemma tree_eqb_sound a : forall b, tree_eqb a b = true <-> a = b.
Proof.
  induction a as [|c1 l1 IHl k1 v1 r1 IHr]; intros [|c2 l2 k2 v2 r2]; cbn [tree_eqb];
    try (split; [discriminate|discriminate]); [tauto|].
  rewrite !andb_true_iff, IHl, IHr, !Z.eqb_eq. split.
  - intros ((((C & ->) & ->) & ->) & ->). destruct c1, c2; try discriminate; reflexivity.
  - intros [= -> -> -> -> ->]. destruct c2; tauto.
Qed.

(* the dump written by the probe determines the tree *)
Lemma shape_length_pos t : t <> E -> (0 < length (shape t))%nat.
Proof. destruct t; [congruence|]. cbn. lia. Qed.

Lemma node_code_bits c l r :
  Z.odd (node_code c l r) = (match c with B => true | R => false end) /\
  Z.testbit (node_code c l r) 1 = (match l with E => false | _ => true end) /\
  Z.testbit (node_code c l r) 2 = (match r with E => false | _ => true end).
Proof. destruct c, l, r; cbn; auto. Qed.

Lemma parse_shape_spec t : t <> E -> forall fuel rest, (size t <= fuel)%nat ->
  parse_shape fuel (shape t ++ rest) = Some (t, rest).
Proof.
  induction t as [|c l IHl k v r IHr]; [congruence|]. intros _ fuel rest Hf.
  destruct fuel as [|f]; [cbn in Hf; lia|]. cbn [size] in Hf. cbn [shape app parse_shape].
  destruct (node_code_bits c l r) as (Hc & Hl & Hr). rewrite Hc, Hl, Hr. rewrite <- app_assoc.
  assert ((if match l with E => false | _ => true end then parse_shape f (shape l ++ shape r ++ rest)
           else Some (E, shape l ++ shape r ++ rest)) = Some (l, shape r ++ rest)) as ->.
  { destruct l as [|lc ll lk lv lr]; [reflexivity|]. apply IHl; [discriminate|lia]. }
  assert ((if match r with E => false | _ => true end then parse_shape f (shape r ++ rest)
           else Some (E, shape r ++ rest)) = Some (r, rest)) as ->.
  { destruct r as [|rc rl rk rv rr]; [reflexivity|]. apply IHr; [discriminate|lia]. }
  destruct c; reflexivity.
Qed.

Lemma shape_length t : length (shape t) = (3 * size t)%nat.
Proof.
  induction t as [|c l IHl k v r IHr]; [reflexivity|]. cbn [shape length size].
  rewrite app_length, IHl, IHr. lia.
Qed.

Lemma tree_of_shape_spec t : tree_of_shape (shape t) = Some t.
Proof.
  destruct t as [|c l k v r] eqn:Et; [reflexivity|]. rewrite <- Et.
  unfold tree_of_shape. assert (t <> E) as Hne by (subst; discriminate).
  pose proof (parse_shape_spec t Hne (length (shape t)) []) as P. rewrite app_nil_r in P.
  rewrite P by (rewrite shape_length; lia).
  destruct (shape t) eqn:Es; [|reflexivity]. subst t. discriminate.
Qed.

Lemma checkers_sound t :
  (rb_ok t = true <-> rbtree t) /\ (bst_ok t = true <-> bst t) /\
  (height_ok t = true <-> (2 ^ height t <= (size t + 1) * (size t + 1))%nat) /\
  (forall t', tree_eqb t t' = true <-> t = t') /\
  tree_of_shape (shape t) = Some t.
Proof.
  split; [apply rb_ok_sound|]. split; [apply bst_ok_sound|]. split; [apply height_ok_sound|].
  split; [intros t'; apply tree_eqb_sound|apply tree_of_shape_spec].
Qed.
