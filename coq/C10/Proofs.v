(* C10 — definitions of the invariants and stage 1: height bound. *)
From Coq Require Import ZArith List Bool Lia Arith.
From FV Require Import C10.Spec C10.Model.
Import ListNotations.
Open Scope Z_scope.

(* ------------------------------------------------------------------ red-black rules *)
(* [rb n t]: no red node has a red child and every path from the root of t to a leaf crosses
   exactly n black nodes *)
Fixpoint rb (n : nat) (t : tree) : Prop :=
  match t with
  | E => n = O
  | T R l _ _ r => col l = B /\ col r = B /\ rb n l /\ rb n r
  | T B l _ _ r => match n with O => False | S m => rb m l /\ rb m r end
  end.
(* the three rules: black root, no red-red, equal black heights *)
Definition rbtree (t : tree) : Prop := col t = B /\ exists n, rb n t.

Lemma rb_size n t : rb n t -> (2 ^ n <= size t + 1)%nat.
Proof.
  revert n. induction t as [|c l IHl k v r IHr]; intros n H.
  - cbn in H. subst. cbn. lia.
  - destruct c; cbn [rb] in H.
    + destruct H as (_ & _ & Hl & Hr). apply IHl in Hl. apply IHr in Hr. cbn [size]. lia.
    + destruct n as [|m]; [contradiction|]. destruct H as [Hl Hr].
      apply IHl in Hl. apply IHr in Hr. cbn [size]. rewrite Nat.pow_succ_r'. lia.
Qed.

Lemma rb_height n t : rb n t -> (height t <= 2 * n + (if isR t then 1 else 0))%nat.
Proof.
  revert n. induction t as [|c l IHl k v r IHr]; intros n H.
  - cbn. lia.
  - destruct c; cbn [rb] in H.
    + destruct H as (Cl & Cr & Hl & Hr). apply IHl in Hl. apply IHr in Hr.
      unfold isR in *. rewrite Cl in Hl. rewrite Cr in Hr. cbn [height col]. lia.
    + destruct n as [|m]; [contradiction|]. destruct H as [Hl Hr].
      apply IHl in Hl. apply IHr in Hr. unfold isR in *. cbn [height col].
      destruct (col l), (col r); lia.
Qed.

Lemma height_pow t : rbtree t -> (2 ^ height t <= (size t + 1) * (size t + 1))%nat.
Proof.
  intros [Hc [n H]]. pose proof (rb_height n t H) as Hh. pose proof (rb_size n t H) as Hs.
  unfold isR in Hh. rewrite Hc in Hh.
  assert (2 ^ height t <= 2 ^ (2 * n))%nat as H1 by (apply Nat.pow_le_mono_r; lia).
  replace (2 * n)%nat with (n + n)%nat in H1 by lia. rewrite Nat.pow_add_r in H1.
  assert (2 ^ n * 2 ^ n <= (size t + 1) * (size t + 1))%nat by (apply Nat.mul_le_mono; assumption).
  lia.
Qed.

Lemma height_log2 t : rbtree t -> Z.of_nat (height t) <= 2 * Z.log2 (Z.of_nat (size t) + 1).
Proof.
  intros [Hc [n H]]. pose proof (rb_height n t H) as Hh. pose proof (rb_size n t H) as Hs.
  unfold isR in Hh. rewrite Hc in Hh.
  assert (Z.of_nat n <= Z.log2 (Z.of_nat (size t) + 1)) as Hn.
  { apply Z.log2_le_pow2; [lia|].
    replace (Z.of_nat (size t) + 1) with (Z.of_nat (size t + 1)) by lia.
    replace 2 with (Z.of_nat 2) by reflexivity. rewrite <- Nat2Z.inj_pow. lia. }
  lia.
Qed.

(* ------------------------------------------------------------------ search-tree order *)
Definition keys_lt (k : Z) (l : list kv) : Prop := Forall (fun e => fst e < k) l.
Definition keys_gt (k : Z) (l : list kv) : Prop := Forall (fun e => k < fst e) l.

Fixpoint bst (t : tree) : Prop :=
  match t with
  | E => True
  | T _ l k _ r => bst l /\ bst r /\ keys_lt k (inorder l) /\ keys_gt k (inorder r)
  end.

(* strictly sorted by key: every key present once and in order *)
Fixpoint ssorted (l : list kv) : Prop :=
  match l with
  | [] => True
  | e :: r => keys_gt (fst e) r /\ ssorted r
  end.

Lemma keys_lt_app k a b : keys_lt k (a ++ b) <-> keys_lt k a /\ keys_lt k b.
Proof. apply Forall_app. Qed.
Lemma keys_gt_app k a b : keys_gt k (a ++ b) <-> keys_gt k a /\ keys_gt k b.
Proof. apply Forall_app. Qed.
Lemma keys_lt_cons k e a : keys_lt k (e :: a) <-> fst e < k /\ keys_lt k a.
Proof. apply Forall_cons_iff. Qed.
Lemma keys_gt_cons k e a : keys_gt k (e :: a) <-> k < fst e /\ keys_gt k a.
Proof. apply Forall_cons_iff. Qed.
Lemma keys_lt_nil k : keys_lt k []. Proof. constructor. Qed.
Lemma keys_gt_nil k : keys_gt k []. Proof. constructor. Qed.
#[export] Hint Resolve keys_lt_nil keys_gt_nil : c10.

Lemma keys_lt_trans k k' l : keys_lt k l -> k <= k' -> keys_lt k' l.
Proof. intros H Hk. eapply Forall_impl; [|exact H]. cbn. intros; lia. Qed.
Lemma keys_gt_trans k k' l : keys_gt k l -> k' <= k -> keys_gt k' l.
Proof. intros H Hk. eapply Forall_impl; [|exact H]. cbn. intros; lia. Qed.

Lemma ssorted_app a e b :
  ssorted (a ++ e :: b) <-> ssorted a /\ ssorted b /\ keys_lt (fst e) a /\ keys_gt (fst e) b.
Proof.
  induction a as [|x a IH]; cbn [app ssorted].
  - split; [intros [H1 H2]; auto with c10 | intros (_ & H2 & _ & H4); auto].
  - rewrite IH, keys_gt_app, keys_gt_cons, keys_lt_cons. split.
    + intros ((G1 & G2 & G3) & S1 & S2 & L & G). repeat split; auto.
    + intros ((G1 & S1) & S2 & (L1 & L) & G). repeat split; auto.
      eapply keys_gt_trans; [exact G|lia].
Qed.

Lemma bst_sorted t : bst t <-> ssorted (inorder t).
Proof.
  induction t as [|c l IHl k v r IHr]; cbn [bst inorder]; [cbn; tauto|].
  rewrite ssorted_app, IHl, IHr. cbn [fst]. tauto.
Qed.

Lemma size_inorder t : length (inorder t) = size t.
Proof.
  induction t as [|c l IHl k v r IHr]; cbn [inorder size length]; [reflexivity|].
  rewrite app_length. cbn [length]. lia.
Qed.

Lemma inorder_setc c t : inorder (setc c t) = inorder t.
Proof. destruct t; reflexivity. Qed.
Lemma bst_setc c t : bst (setc c t) <-> bst t.
Proof. destruct t; cbn; tauto. Qed.

(* ------------------------------------------------------------------ facts about sorted lists *)
Lemma find_app {A} (f : A -> bool) a b :
  find f (a ++ b) = match find f a with Some x => Some x | None => find f b end.
Proof. induction a as [|x a IH]; cbn; [reflexivity|]. destruct (f x); auto. Qed.

Lemma find_none_all {A} (f : A -> bool) l : Forall (fun x => f x = false) l -> find f l = None.
Proof. induction 1 as [|x l Hx _ IH]; cbn; [reflexivity|]. rewrite Hx. exact IH. Qed.

Lemma sl_lookup_app k a b :
  sl_lookup k (a ++ b) = match sl_lookup k a with Some v => Some v | None => sl_lookup k b end.
Proof. induction a as [|[k' v'] a IH]; cbn; [reflexivity|]. destruct (k =? k'); auto. Qed.

Lemma sl_lookup_lt k l : keys_gt k l -> sl_lookup k l = None.
Proof.
  induction 1 as [|[k' v'] l Hx _ IH]; cbn; [reflexivity|]. cbn in Hx.
  destruct (Z.eqb_spec k k'); [lia|exact IH].
Qed.
Lemma sl_lookup_gt k l : keys_lt k l -> sl_lookup k l = None.
Proof.
  induction 1 as [|[k' v'] l Hx _ IH]; cbn; [reflexivity|]. cbn in Hx.
  destruct (Z.eqb_spec k k'); [lia|exact IH].
Qed.

(* the three-way split of a sorted list around a pivot *)
Lemma sl_lookup_split k a k' v' b : keys_lt k' a -> keys_gt k' b ->
  sl_lookup k (a ++ (k', v') :: b) =
  match k ?= k' with Lt => sl_lookup k a | Eq => Some v' | Gt => sl_lookup k b end.
Proof.
  intros La Gb. rewrite sl_lookup_app. cbn [sl_lookup].
  destruct (Z.compare_spec k k') as [->|Hlt|Hgt].
  - rewrite sl_lookup_gt by assumption. rewrite Z.eqb_refl. reflexivity.
  - destruct (Z.eqb_spec k k'); [lia|].
    rewrite (sl_lookup_lt k b) by (eapply keys_gt_trans; [exact Gb|lia]).
    destruct (sl_lookup k a); reflexivity.
  - destruct (Z.eqb_spec k k'); [lia|].
    rewrite (sl_lookup_gt k a) by (eapply keys_lt_trans; [exact La|lia]). reflexivity.
Qed.

Lemma sl_insert_split k v a k' v' b : keys_lt k' a ->
  sl_insert k v (a ++ (k', v') :: b) =
  match k ?= k' with
  | Lt => sl_insert k v a ++ (k', v') :: b
  | Eq => a ++ (k', v) :: b
  | Gt => a ++ (k', v') :: sl_insert k v b
  end.
Proof.
  induction a as [|[ka va] a IH]; intros La.
  - cbn. destruct (Z.compare_spec k k'); subst; reflexivity.
  - apply keys_lt_cons in La. destruct La as [L1 La]. cbn [fst] in L1.
    cbn [app sl_insert]. specialize (IH La).
    destruct (Z.compare_spec k k') as [->|Hlt|Hgt].
    + destruct (Z.compare_spec k' ka); [lia|lia|]. rewrite IH. reflexivity.
    + destruct (Z.compare_spec k ka); try reflexivity. rewrite IH. reflexivity.
    + destruct (Z.compare_spec k ka); [lia|lia|]. rewrite IH. reflexivity.
Qed.

Lemma sl_delete_split k a k' v' b : keys_lt k' a ->
  sl_delete k (a ++ (k', v') :: b) =
  match k ?= k' with
  | Lt => sl_delete k a ++ (k', v') :: b
  | Eq => a ++ b
  | Gt => a ++ (k', v') :: sl_delete k b
  end.
Proof.
  induction a as [|[ka va] a IH]; intros La.
  - cbn. destruct (Z.compare_spec k k'); subst; reflexivity.
  - apply keys_lt_cons in La. destruct La as [L1 La]. cbn [fst] in L1.
    cbn [app sl_delete]. specialize (IH La).
    destruct (Z.compare_spec k k') as [->|Hlt|Hgt].
    + destruct (Z.compare_spec k' ka); [lia|lia|]. rewrite IH. reflexivity.
    + destruct (Z.compare_spec k ka); try reflexivity. rewrite IH. reflexivity.
    + destruct (Z.compare_spec k ka); [lia|lia|]. rewrite IH. reflexivity.
Qed.

Ltac dfind x := match goal with |- context [find ?f x] => destruct (find f x) end.

(* ------------------------------------------------------------------ stage 1: queries on any search tree *)
Lemma lookup_spec k t : bst t -> lookup k t = sl_lookup k (inorder t).
Proof.
  induction t as [|c l IHl k' v' r IHr]; [reflexivity|].
  intros (Bl & Br & Ll & Gr). cbn [lookup inorder].
  rewrite sl_lookup_split by assumption.
  destruct (k ?= k'); auto.
Qed.

Lemma min_entry_spec t : min_entry t = sl_first (inorder t).
Proof.
  induction t as [|c l IHl k v r _]; [reflexivity|]. cbn [min_entry inorder].
  destruct l as [|lc ll lk lv lr]; [reflexivity|]. rewrite IHl. unfold sl_first.
  cbn [inorder]. destruct (inorder ll); reflexivity.
Qed.

Lemma max_entry_spec t : max_entry t = sl_last (inorder t).
Proof.
  induction t as [|c l _ k v r IHr]; [reflexivity|]. cbn [max_entry inorder].
  unfold sl_last in *. rewrite rev_app_distr. cbn [rev]. rewrite <- app_assoc. cbn [app].
  destruct r as [|rc rl rk rv rr].
  - reflexivity.
  - rewrite IHr. cbn [inorder]. rewrite rev_app_distr. cbn [rev]. rewrite <- app_assoc. cbn [app].
    destruct (rev (inorder rr)); reflexivity.
Qed.

Lemma keys_lt_find_ge k k' l : keys_lt k' l -> k' <= k -> find (fun e => k <=? fst e) l = None.
Proof.
  intros H Hk. apply find_none_all. eapply Forall_impl; [|exact H]. cbn. intros e He.
  apply Z.leb_gt. lia.
Qed.
Lemma keys_lt_find_gt k k' l : keys_lt k' l -> k' <= k -> find (fun e => k <? fst e) l = None.
Proof.
  intros H Hk. apply find_none_all. eapply Forall_impl; [|exact H]. cbn. intros e He.
  apply Z.ltb_ge. lia.
Qed.

Lemma ceiling_from_spec k t anc : bst t ->
  ceiling_from k t anc = match sl_ceiling k (inorder t) with Some e => Some e | None => anc end.
Proof.
  revert anc. induction t as [|c l IHl k' v' r IHr]; intros anc; [reflexivity|].
  intros (Bl & Br & Ll & Gr). cbn [ceiling_from inorder]. unfold sl_ceiling in *.
  rewrite find_app. cbn [find fst].
  destruct (Z.compare_spec k k') as [->|Hlt|Hgt].
  - rewrite (keys_lt_find_ge k' k') by (assumption || lia). rewrite Z.leb_refl. reflexivity.
  - rewrite IHl by assumption. dfind (inorder l); [reflexivity|].
    destruct (Z.leb_spec k k'); [reflexivity|lia].
  - rewrite (keys_lt_find_ge k k') by (assumption || lia).
    destruct (Z.leb_spec k k'); [lia|]. apply IHr; assumption.
Qed.

Lemma higher_from_spec k t anc : bst t ->
  higher_from k t anc = match sl_higher k (inorder t) with Some e => Some e | None => anc end.
Proof.
  revert anc. induction t as [|c l IHl k' v' r IHr]; intros anc; [reflexivity|].
  intros (Bl & Br & Ll & Gr). cbn [higher_from inorder]. unfold sl_higher in *.
  rewrite find_app. cbn [find fst].
  destruct (Z.compare_spec k k') as [->|Hlt|Hgt].
  - rewrite (keys_lt_find_gt k' k') by (assumption || lia). rewrite Z.ltb_irrefl. apply IHr; assumption.
  - rewrite IHl by assumption. dfind (inorder l); [reflexivity|].
    destruct (Z.ltb_spec k k'); [reflexivity|lia].
  - rewrite (keys_lt_find_gt k k') by (assumption || lia).
    destruct (Z.ltb_spec k k'); [lia|]. apply IHr; assumption.
Qed.

Lemma keys_gt_rev k l : keys_gt k (rev l) <-> keys_gt k l.
Proof. unfold keys_gt. rewrite !Forall_forall. split; intros H x Hx; apply H; [rewrite <- in_rev|rewrite in_rev]; exact Hx. Qed.

Lemma keys_gt_find_le k k' l : keys_gt k' l -> k <= k' -> find (fun e => fst e <=? k) l = None.
Proof.
  intros H Hk. apply find_none_all. eapply Forall_impl; [|exact H]. cbn. intros e He.
  apply Z.leb_gt. lia.
Qed.
Lemma keys_gt_find_lt k k' l : keys_gt k' l -> k <= k' -> find (fun e => fst e <? k) l = None.
Proof.
  intros H Hk. apply find_none_all. eapply Forall_impl; [|exact H]. cbn. intros e He.
  apply Z.ltb_ge. lia.
Qed.

Lemma rev_inorder_node l k v r :
  rev (inorder l ++ (k, v) :: inorder r) = rev (inorder r) ++ (k, v) :: rev (inorder l).
Proof. rewrite rev_app_distr. cbn [rev]. rewrite <- app_assoc. reflexivity. Qed.

Lemma floor_from_spec k t anc : bst t ->
  floor_from k t anc = match sl_floor k (inorder t) with Some e => Some e | None => anc end.
Proof.
  revert anc. induction t as [|c l IHl k' v' r IHr]; intros anc; [reflexivity|].
  intros (Bl & Br & Ll & Gr). cbn [floor_from inorder]. unfold sl_floor in *.
  rewrite rev_inorder_node, find_app. cbn [find fst].
  apply keys_gt_rev in Gr.
  destruct (Z.compare_spec k k') as [->|Hlt|Hgt].
  - rewrite (keys_gt_find_le k' k') by (assumption || lia). rewrite Z.leb_refl. reflexivity.
  - rewrite (keys_gt_find_le k k') by (assumption || lia).
    destruct (Z.leb_spec k' k); [lia|]. apply IHl; assumption.
  - rewrite IHr by assumption. dfind (rev (inorder r)); [reflexivity|].
    destruct (Z.leb_spec k' k); [reflexivity|lia].
Qed.

Lemma lower_from_spec k t anc : bst t ->
  lower_from k t anc = match sl_lower k (inorder t) with Some e => Some e | None => anc end.
Proof.
  revert anc. induction t as [|c l IHl k' v' r IHr]; intros anc; [reflexivity|].
  intros (Bl & Br & Ll & Gr). cbn [lower_from inorder]. unfold sl_lower in *.
  rewrite rev_inorder_node, find_app. cbn [find fst].
  apply keys_gt_rev in Gr.
  destruct (Z.compare_spec k k') as [->|Hlt|Hgt].
  - rewrite (keys_gt_find_lt k' k') by (assumption || lia). rewrite Z.ltb_irrefl. apply IHl; assumption.
  - rewrite (keys_gt_find_lt k k') by (assumption || lia).
    destruct (Z.ltb_spec k' k); [lia|]. apply IHl; assumption.
  - rewrite IHr by assumption. dfind (rev (inorder r)); [reflexivity|].
    destruct (Z.ltb_spec k' k); [reflexivity|lia].
Qed.

Lemma opt_id {A} (o : option A) : match o with Some e => Some e | None => None end = o.
Proof. destruct o; reflexivity. Qed.

Lemma ceiling_spec k t : bst t -> ceiling k t = sl_ceiling k (inorder t).
Proof. intros H. unfold ceiling. rewrite ceiling_from_spec by assumption. apply opt_id. Qed.
Lemma higher_spec k t : bst t -> higher k t = sl_higher k (inorder t).
Proof. intros H. unfold higher. rewrite higher_from_spec by assumption. apply opt_id. Qed.
Lemma floor_spec k t : bst t -> floor k t = sl_floor k (inorder t).
Proof. intros H. unfold floor. rewrite floor_from_spec by assumption. apply opt_id. Qed.
Lemma lower_spec k t : bst t -> lower k t = sl_lower k (inorder t).
Proof. intros H. unfold lower. rewrite lower_from_spec by assumption. apply opt_id. Qed.

From Coq Require Import Permutation.
Lemma preorder_perm t : Permutation (preorder t) (inorder t).
Proof.
  induction t as [|c l IHl k v r IHr]; cbn [preorder inorder]; [constructor|].
  apply Permutation_cons_app. apply Permutation_app; assumption.
Qed.
Lemma postorder_perm t : Permutation (postorder t) (inorder t).
Proof.
  induction t as [|c l IHl k v r IHr]; cbn [postorder inorder]; [constructor|].
  rewrite app_assoc. rewrite <- Permutation_cons_append.
  apply Permutation_cons_app. apply Permutation_app; assumption.
Qed.
