(* C10 — definitions of the invariants and stage 1: height bound. *)
From Coq Require Import ZArith List Bool Lia Arith.
From FV Require Import C10.Spec C10.Model.
Import ListNotations.
Open Scope Z_scope.

(* ------------------------------------------------------------------ red-black rules *)
(* [rb n t]: no red node has a red child and every path from the root of t to a leaf crosses
   exactly n black nodes *)
Fixpoint rb (n : nat) (t : tree) : Prop :=
  match t with
  | E => n = O
  | T R l _ _ r => col l = B /\ col r = B /\ rb n l /\ rb n r
  | T B l _ _ r => match n with O => False | S m => rb m l /\ rb m r end
  end.
(* the three rules: black root, no red-red, equal black heights *)
Definition rbtree (t : tree) : Prop := col t = B /\ exists n, rb n t.

Lemma rb_size n t : rb n t -> (2 ^ n <= size t + 1)%nat.
Proof.
  revert n. induction t as [|c l IHl k v r IHr]; intros n H.
  - cbn in H. subst. cbn. lia.
  - destruct c; cbn [rb] in H.
    + destruct H as (_ & _ & Hl & Hr). apply IHl in Hl. apply IHr in Hr. cbn [size]. lia.
    + destruct n as [|m]; [contradiction|]. destruct H as [Hl Hr].
      apply IHl in Hl. apply IHr in Hr. cbn [size]. rewrite Nat.pow_succ_r'. lia.
Qed.

Lemma rb_height n t : rb n t -> (height t <= 2 * n + (if isR t then 1 else 0))%nat.
Proof.
  revert n. induction t as [|c l IHl k v r IHr]; intros n H.
  - cbn. lia.
  - destruct c; cbn [rb] in H.
    + destruct H as (Cl & Cr & Hl & Hr). apply IHl in Hl. apply IHr in Hr.
      unfold isR in *. rewrite Cl in Hl. rewrite Cr in Hr. cbn [height col]. lia.
    + destruct n as [|m]; [contradiction|]. destruct H as [Hl Hr].
      apply IHl in Hl. apply IHr in Hr. unfold isR in *. cbn [height col].
      destruct (col l), (col r); lia.
Qed.

Lemma height_pow t : rbtree t -> (2 ^ height t <= (size t + 1) * (size t + 1))%nat.
Proof.
  intros [Hc [n H]]. pose proof (rb_height n t H) as Hh. pose proof (rb_size n t H) as Hs.
  unfold isR in Hh. rewrite Hc in Hh.
  assert (2 ^ height t <= 2 ^ (2 * n))%nat as H1 by (apply Nat.pow_le_mono_r; lia).
  replace (2 * n)%nat with (n + n)%nat in H1 by lia. rewrite Nat.pow_add_r in H1.
  assert (2 ^ n * 2 ^ n <= (size t + 1) * (size t + 1))%nat by (apply Nat.mul_le_mono; assumption).
  lia.
Qed.

Lemma height_log2 t : rbtree t -> Z.of_nat (height t) <= 2 * Z.log2 (Z.of_nat (size t) + 1).
Proof.
  intros [Hc [n H]]. pose proof (rb_height n t H) as Hh. pose proof (rb_size n t H) as Hs.
  unfold isR in Hh. rewrite Hc in Hh.
  assert (Z.of_nat n <= Z.log2 (Z.of_nat (size t) + 1)) as Hn.
  { apply Z.log2_le_pow2; [lia|].
    replace (Z.of_nat (size t) + 1) with (Z.of_nat (size t + 1)) by lia.
    replace 2 with (Z.of_nat 2) by reflexivity. rewrite <- Nat2Z.inj_pow. lia. }
  lia.
Qed.
