(* C10 — the key-comparing descents of map.go transcribed with an arbitrary comparator
   [cmp : Z -> Z -> Z] in place of Z.compare: the code only tests "cmp < 0", "cmp > 0", else.
   Executable, no proofs here; ProofsCmp.v shows that these coincide with Model.v for every
   comparator that has the sign of the key order (so the magnitudes a CompareTo returns are
   irrelevant). *)
From Coq Require Import ZArith List Bool.
From FV Require Import C10.Spec C10.Model.
Import ListNotations.
Open Scope Z_scope.

Section By.
  Variable cmp : Z -> Z -> Z.
  (* "if cmp < 0 {..} else if cmp > 0 {..} else {..}" *)
  Definition three (k k' : Z) : comparison := cmp k k' ?= 0.

  Fixpoint ins_by (k v : Z) (t : tree) : tree * istat :=
    match t with
    | E => (T R E k v E, IRed)
    | T c l k' v' r =>
      match three k k' with
      | Eq => (T c l k' v r, IDone)
      | Lt => let '(l', st) := ins_by k v l in
        match st with
        | IDone => (T c l' k' v' r, IDone)
        | IRed => match c with B => (T c l' k' v' r, IDone) | R => (T c l' k' v' r, IRedRed true) end
        | IRedRed xl => fix_ins_left c l' k' v' r xl
        end
      | Gt => let '(r', st) := ins_by k v r in
        match st with
        | IDone => (T c l k' v' r', IDone)
        | IRed => match c with B => (T c l k' v' r', IDone) | R => (T c l k' v' r', IRedRed false) end
        | IRedRed xl => fix_ins_right c l k' v' r' xl
        end
      end
    end.
  Definition put_by (k v : Z) (t : tree) : tree := setc B (fst (ins_by k v t)).

  Fixpoint del_by (k : Z) (t : tree) : tree * bool * bool :=
    match t with
    | E => (E, false, false)
    | T c l k' v' r =>
      match three k k' with
      | Lt => let '(l', d, f) := del_by k l in
          if d then let '(t', d') := fixL c l' k' v' r in (t', d', f) else (T c l' k' v' r, false, f)
      | Gt => let '(r', d, f) := del_by k r in
          if d then let '(t', d') := fixR c l k' v' r' in (t', d', f) else (T c l k' v' r', false, f)
      | Eq =>
          match l, r with
          | T _ _ _ _ _, T _ _ _ _ _ =>
              let '(r', d, (sk, sv)) := del_min r in
              if d then let '(t', d') := fixR c l sk sv r' in (t', d', true) else (T c l sk sv r', false, true)
          | _, _ => let '(t', d) := unlink c l r in (t', d, true)
          end
      end
    end.
  Definition remove_by (k : Z) (t : tree) : tree := let '(t', _, _) := del_by k t in setc B t'.

  Fixpoint lookup_by (k : Z) (t : tree) : option Z :=
    match t with
    | E => None
    | T _ l k' v' r =>
        match three k k' with Lt => lookup_by k l | Gt => lookup_by k r | Eq => Some v' end
    end.

  Fixpoint ceiling_by (k : Z) (t : tree) (anc : option kv) : option kv :=
    match t with
    | E => anc
    | T _ l k' v' r =>
        match three k k' with
        | Lt => ceiling_by k l (Some (k', v'))
        | Gt => ceiling_by k r anc
        | Eq => Some (k', v')
        end
    end.
  Fixpoint higher_by (k : Z) (t : tree) (anc : option kv) : option kv :=
    match t with
    | E => anc
    | T _ l k' v' r =>
        match three k k' with
        | Lt => higher_by k l (Some (k', v'))
        | _ => higher_by k r anc
        end
    end.
  Fixpoint floor_by (k : Z) (t : tree) (anc : option kv) : option kv :=
    match t with
    | E => anc
    | T _ l k' v' r =>
        match three k k' with
        | Gt => floor_by k r (Some (k', v'))
        | Lt => floor_by k l anc
        | Eq => Some (k', v')
        end
    end.
  Fixpoint lower_by (k : Z) (t : tree) (anc : option kv) : option kv :=
    match t with
    | E => anc
    | T _ l k' v' r =>
        match three k k' with
        | Gt => lower_by k r (Some (k', v'))
        | _ => lower_by k l anc
        end
    end.
End By.

(* the two comparators of the harness *)
Definition cmp_sign (a b : Z) : Z := match a ?= b with Lt => -1 | Eq => 0 | Gt => 1 end.
Definition cmp_diff (a b : Z) : Z := a - b.
