(* C10 — reference specification: the sorted map as a strictly sorted association list.
   Operation and result types shared by the specification and the tree model, and the
   specification's own state machine [sstep].  Nothing is proved in this file; it does not
   mention trees.

   The specification of an iterator is a snapshot: the keys that were present when it was
   created, in the iterator's direction, minus those already returned.  [IterNext] returns the
   head of that list (with the value the map holds for it now), [IterRemove] deletes the key
   returned last; every structural change that does not go through the iterator invalidates it
   (its next [IterNext] / [IterRemove] reports a concurrent modification). *)
From Coq Require Import ZArith List Bool.
Import ListNotations.
Open Scope Z_scope.

Definition kv := (Z * Z)%type.

(* ---- operations and results ---- *)
Inductive op : Type :=
| Put (k v : Z) | Remove (k : Z) | Clear
| Get (k : Z) | Contains (k : Z) | GetOrDefault (k d : Z) | Size | IsEmpty
| FirstEntry | FirstKey | LastEntry | LastKey
| FloorEntry (k : Z) | FloorKey (k : Z) | CeilingEntry (k : Z) | CeilingKey (k : Z)
| HigherEntry (k : Z) | HigherKey (k : Z) | LowerEntry (k : Z)
| Keys | Values | InOrder | PreOrder | PostOrder | Foreach
| ForeachRemove (i k : Z)            (* Foreach whose i-th callback (from 0) calls Remove k *)
| IterNew (kind slot : Z)            (* 0 entry asc, 1 entry desc, 2 key asc, 3 key desc, 4 value asc *)
| IterHasNext (slot : Z) | IterNext (slot : Z) | IterRemove (slot : Z)
| Probe
(* entries handed out by the accessors are live nodes: acc = 0 FirstEntry, 1 LastEntry,
   2 FloorEntry k, 3 CeilingEntry k, 4 HigherEntry k, 5 getLowerEntry k *)
| SetValueAt (acc k v : Z)           (* e := accessor; if e != nil: e.SetValue(v) *)
| EntryEquals (acc1 k1 acc2 k2 : Z)  (* e1.Equals(e2) when both accessors return an entry *)
| IterSetValue (slot v : Z)
(* the exported iterator constructors take the entry to start at: New*Iterator(m, accessor) *)
| IterNewAt (kind slot acc k : Z)
| ForeachPut (i k v : Z).            (* Foreach whose i-th callback (from 0) calls Put k v *)         (* SetValue on the entry the last Next of an entry iterator
                                        returned, provided the map was not modified since *)

(* panic kinds of the iterators *)
Definition P_NoSuchElement : Z := 1.
Definition P_ConcurrentModification : Z := 2.
Definition P_IllegalState : Z := 3.

Inductive out : Type :=
| OUnit
| OBool (b : bool)
| ONum (z : Z)
| OVal (o : option Z)
| OEnt (o : option kv)
| OKeys (l : list Z)
| OEnts (l : list kv)
| OEntsP (l : list kv) (panicked : bool)
| OPanic (code : Z).

(* ---- sorted association lists ---- *)
Fixpoint sl_insert (k v : Z) (l : list kv) : list kv :=
  match l with
  | [] => [(k, v)]
  | (k', v') :: r =>
      match k ?= k' with
      | Lt => (k, v) :: l
      | Eq => (k, v) :: r
      | Gt => (k', v') :: sl_insert k v r
      end
  end.

Fixpoint sl_delete (k : Z) (l : list kv) : list kv :=
  match l with
  | [] => []
  | (k', v') :: r =>
      match k ?= k' with
      | Lt => l
      | Eq => r
      | Gt => (k', v') :: sl_delete k r
      end
  end.

Fixpoint sl_lookup (k : Z) (l : list kv) : option Z :=
  match l with
  | [] => None
  | (k', v') :: r => if k =? k' then Some v' else sl_lookup k r
  end.

Definition sl_first (l : list kv) : option kv := hd_error l.
Definition sl_last (l : list kv) : option kv := hd_error (rev l).
(* least entry with key >= k / > k ; greatest entry with key <= k / < k *)
Definition sl_ceiling (k : Z) (l : list kv) : option kv := find (fun e => k <=? fst e) l.
Definition sl_higher (k : Z) (l : list kv) : option kv := find (fun e => k <? fst e) l.
Definition sl_floor (k : Z) (l : list kv) : option kv := find (fun e => fst e <=? k) (rev l).
Definition sl_lower (k : Z) (l : list kv) : option kv := find (fun e => fst e <? k) (rev l).

Definition okey (o : option kv) : option Z := option_map fst o.

Definition sl_access (acc k : Z) (l : list kv) : option kv :=
  if acc =? 0 then sl_first l else if acc =? 1 then sl_last l
  else if acc =? 2 then sl_floor k l else if acc =? 3 then sl_ceiling k l
  else if acc =? 4 then sl_higher k l else if acc =? 5 then sl_lower k l else None.
Definition kv_same (a b : kv) : bool := (fst a =? fst b) && (snd a =? snd b).

(* ---- iterators ---- *)
Definition kind_ok (kind : Z) : bool := (0 <=? kind) && (kind <=? 4).
Definition kind_asc (kind : Z) : bool := negb ((kind =? 1) || (kind =? 3)).
(* what Next hands out: the entry, the key or the value *)
Definition next_out (kind k v : Z) : out :=
  if (kind =? 0) || (kind =? 1) then OKeys [k; v]
  else if (kind =? 2) || (kind =? 3) then OKeys [k]
  else OKeys [v].

Record siter : Type := mk_siter {
  si_kind : Z;
  si_pending : list Z;        (* keys still to be visited, in the iterator's direction *)
  si_last : option Z;         (* key returned by the last Next, until it is removed *)
  si_exp : Z                  (* the map version this iterator is valid for *)
}.

Definition upd {A} (f : Z -> option A) (s : Z) (x : A) : Z -> option A :=
  fun y => if y =? s then Some x else f y.

Record sstate : Type := mk_sstate {
  s_list : list kv;
  s_ver : Z;
  s_its : Z -> option siter
}.

Definition sinit : sstate := mk_sstate [] 0 (fun _ => None).

Definition s_with_list (s : sstate) (l : list kv) (bump : bool) : sstate :=
  mk_sstate l (if bump then s_ver s + 1 else s_ver s) (s_its s).
Definition s_with_iter (s : sstate) (slot : Z) (it : siter) : sstate :=
  mk_sstate (s_list s) (s_ver s) (upd (s_its s) slot it).

Definition sstep (s : sstate) (o : op) : sstate * out :=
  let l := s_list s in
  match o with
  | Put k v =>
      match sl_lookup k l with
      | Some old => (s_with_list s (sl_insert k v l) false, OVal (Some old))
      | None => (s_with_list s (sl_insert k v l) true, OVal None)
      end
  | Remove k =>
      match sl_lookup k l with
      | Some _ => (s_with_list s (sl_delete k l) true, OBool true)
      | None => (s, OBool false)
      end
  | Clear => (s_with_list s [] true, OUnit)
  | Get k => (s, OVal (sl_lookup k l))
  | Contains k => (s, OBool (match sl_lookup k l with Some _ => true | None => false end))
  | GetOrDefault k d => (s, ONum (match sl_lookup k l with Some v => v | None => d end))
  | Size => (s, ONum (Z.of_nat (length l)))
  | IsEmpty => (s, OBool (match l with [] => true | _ => false end))
  | FirstEntry => (s, OEnt (sl_first l))
  | FirstKey => (s, OVal (okey (sl_first l)))
  | LastEntry => (s, OEnt (sl_last l))
  | LastKey => (s, OVal (okey (sl_last l)))
  | FloorEntry k => (s, OEnt (sl_floor k l))
  | FloorKey k => (s, OVal (okey (sl_floor k l)))
  | CeilingEntry k => (s, OEnt (sl_ceiling k l))
  | CeilingKey k => (s, OVal (okey (sl_ceiling k l)))
  | HigherEntry k => (s, OEnt (sl_higher k l))
  | HigherKey k => (s, OVal (okey (sl_higher k l)))
  | LowerEntry k => (s, OEnt (sl_lower k l))
  | Keys => (s, OKeys (map fst l))
  | Values => (s, OKeys (map snd l))
  | InOrder | Foreach => (s, OEnts l)
  (* the specification fixes pre- and post-order only up to permutation: see [out_agree] *)
  | PreOrder | PostOrder => (s, OEnts l)
  | ForeachRemove i k =>
      if (0 <=? i) && (i <? Z.of_nat (length l)) then
        match sl_lookup k l with
        | Some _ => (s_with_list s (sl_delete k l) true, OEntsP (firstn (S (Z.to_nat i)) l) true)
        | None => (s, OEntsP l false)
        end
      else (s, OEntsP l false)
  | IterNew kind slot =>
      if kind_ok kind then
        let ks := map fst l in
        (s_with_iter s slot (mk_siter kind (if kind_asc kind then ks else rev ks) None (s_ver s)), OUnit)
      else (s, OUnit)
  | IterHasNext slot =>
      match s_its s slot with
      | Some it => (s, OBool (match si_pending it with [] => false | _ => true end))
      | None => (s, OUnit)
      end
  | IterNext slot =>
      match s_its s slot with
      | Some it =>
          match si_pending it with
          | [] => (s, OPanic P_NoSuchElement)
          | k :: rest =>
              if si_exp it =? s_ver s then
                (s_with_iter s slot (mk_siter (si_kind it) rest (Some k) (si_exp it)),
                 next_out (si_kind it) k (match sl_lookup k l with Some v => v | None => 0 end))
              else (s, OPanic P_ConcurrentModification)
          end
      | None => (s, OUnit)
      end
  | IterRemove slot =>
      match s_its s slot with
      | Some it =>
          match si_last it with
          | None => (s, OPanic P_IllegalState)
          | Some k =>
              if si_exp it =? s_ver s then
                let s' := s_with_list s (sl_delete k l) true in
                (s_with_iter s' slot (mk_siter (si_kind it) (si_pending it) None (s_ver s')), OUnit)
              else (s, OPanic P_ConcurrentModification)
          end
      | None => (s, OUnit)
      end
  | Probe => (s, OUnit)
  | SetValueAt acc k v =>
      match sl_access acc k l with
      | Some (k', old) => (s_with_list s (sl_insert k' v l) false, OVal (Some old))
      | None => (s, OVal None)
      end
  | EntryEquals acc1 k1 acc2 k2 =>
      match sl_access acc1 k1 l, sl_access acc2 k2 l with
      | Some a, Some b => (s, OBool (kv_same a b))
      | _, _ => (s, OUnit)
      end
  | IterNewAt kind slot acc k =>
      if kind_ok kind then
        let ks := map fst l in
        let pend := match sl_access acc k l with
                    | Some (k0, _) =>
                        if kind_asc kind then filter (fun x => k0 <=? x) ks
                        else filter (fun x => x <=? k0) (rev ks)
                    | None => []
                    end in
        (s_with_iter s slot (mk_siter kind pend None (s_ver s)), OUnit)
      else (s, OUnit)
  | ForeachPut i k v =>
      if (0 <=? i) && (i <? Z.of_nat (length l)) then
        let n := S (Z.to_nat i) in
        match sl_lookup k l with
        | Some _ =>   (* a replacement is no modification: the walk goes on and sees the new value *)
            let l' := sl_insert k v l in
            (s_with_list s l' false, OEntsP (firstn n l ++ skipn n l') false)
        | None => (s_with_list s (sl_insert k v l) true, OEntsP (firstn n l) true)
        end
      else (s, OEntsP l false)
  | IterSetValue slot v =>
      match s_its s slot with
      | Some it =>
          match si_last it with
          | Some k =>
              if (si_kind it <=? 1) && (si_exp it =? s_ver s) then
                (s_with_list s (sl_insert k v l) false,
                 OVal (Some (match sl_lookup k l with Some old => old | None => 0 end)))
              else (s, OUnit)
          | None => (s, OUnit)
          end
      | None => (s, OUnit)
      end
  end.

Fixpoint srun (s : sstate) (ops : list op) : sstate * list out :=
  match ops with
  | [] => (s, [])
  | o :: r => let '(s1, x) := sstep s o in let '(s2, xs) := srun s1 r in (s2, x :: xs)
  end.
