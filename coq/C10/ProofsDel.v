(* C10 — stage 3: deletion.  [remove] deletes from the in-order list exactly as the sorted
   association list does, keeps the search-tree order and the red-black rules. *)
From Coq Require Import ZArith List Bool Lia Arith.
From FV Require Import C10.Spec C10.Model C10.Proofs C10.ProofsIns.
Import ListNotations.
Open Scope Z_scope.

(* ------------------------------------------------------------------ contents *)
Lemma inorder_fixL_bs c l k v r :
  inorder (fst (fixL_bs c l k v r)) = inorder l ++ (k, v) :: inorder r.
Proof.
  unfold fixL_bs. destruct r as [|sc rl rk rv rr]; [reflexivity|].
  destruct (negb (isR rl) && negb (isR rr)); [reflexivity|].
  destruct (negb (isR rr)).
  - destruct rl as [|c0 rll rlk rlv rlr]; cbn; rewrite ?inorder_setc, <- ?app_assoc; cbn;
      rewrite <- ?app_assoc; reflexivity.
  - cbn. rewrite inorder_setc, <- app_assoc. reflexivity.
Qed.

Lemma inorder_fixL c l k v r :
  inorder (fst (fixL c l k v r)) = inorder l ++ (k, v) :: inorder r.
Proof.
  unfold fixL. destruct r as [|[] rl rk rv rr]; try apply inorder_fixL_bs.
  pose proof (inorder_fixL_bs R l k v rl) as H. destruct (fixL_bs R l k v rl) as [inner d].
  cbn [fst] in *. cbn [inorder]. rewrite H, <- app_assoc. reflexivity.
Qed.

Lemma inorder_fixR_bs c l k v r :
  inorder (fst (fixR_bs c l k v r)) = inorder l ++ (k, v) :: inorder r.
Proof.
  unfold fixR_bs. destruct l as [|sc ll lk lv lr]; [reflexivity|].
  destruct (negb (isR lr) && negb (isR ll)); [reflexivity|].
  destruct (negb (isR ll)).
  - destruct lr as [|c0 lrl lrk lrv lrr]; cbn; rewrite ?inorder_setc, <- ?app_assoc; cbn;
      rewrite <- ?app_assoc; reflexivity.
  - cbn. rewrite inorder_setc, <- app_assoc. reflexivity.
Qed.

Lemma inorder_fixR c l k v r :
  inorder (fst (fixR c l k v r)) = inorder l ++ (k, v) :: inorder r.
Proof.
  unfold fixR. destruct l as [|[] ll lk lv lr]; try apply inorder_fixR_bs.
  pose proof (inorder_fixR_bs R lr k v r) as H. destruct (fixR_bs R lr k v r) as [inner d].
  cbn [fst] in *. cbn [inorder]. rewrite H, <- app_assoc. reflexivity.
Qed.

Lemma inorder_unlink c l r : l = E \/ r = E ->
  inorder (fst (unlink c l r)) = inorder l ++ inorder r.
Proof.
  unfold unlink. intros [-> | ->].
  - destruct r as [|rc rl rk rv rr]; [destruct c; reflexivity|].
    destruct c; [reflexivity|]. destruct (isR _); reflexivity.
  - destruct l as [|lc ll lk lv lr]; [destruct c; reflexivity|]. rewrite app_nil_r.
    destruct c; [reflexivity|]. destruct (isR _); reflexivity.
Qed.

Lemma inorder_del_min t : t <> E ->
  inorder t = snd (del_min t) :: inorder (fst (fst (del_min t))).
Proof.
  induction t as [|c l IHl k v r _]; [congruence|]. intros _.
  destruct l as [|lc ll lk lv lr].
  - cbn [del_min]. pose proof (inorder_unlink c E r (or_introl eq_refl)) as U.
    destruct (unlink c E r) as [t' d]. cbn [fst snd] in *. rewrite U. reflexivity.
  - remember (T lc ll lk lv lr) as l0 eqn:El.
    assert (l0 <> E) as Hne by (subst; discriminate). specialize (IHl Hne).
    assert (del_min (T c l0 k v r) =
            let '(l', d, kv) := del_min l0 in
            if d then let '(t', d') := fixL c l' k v r in (t', d', kv) else (T c l' k v r, false, kv)) as Eq
      by (subst l0; reflexivity).
    rewrite Eq. clear Eq. destruct (del_min l0) as [[l' d] kv]. cbn [fst snd] in IHl.
    cbn [inorder]. rewrite IHl. destruct d.
    + pose proof (inorder_fixL c l' k v r) as F. destruct (fixL c l' k v r) as [t' d'].
      cbn [fst snd] in *. rewrite F. reflexivity.
    + reflexivity.
Qed.

Lemma inorder_del k t : bst t -> inorder (fst (fst (del k t))) = sl_delete k (inorder t).
Proof.
  induction t as [|c l IHl k' v' r IHr]; [reflexivity|].
  intros (Bl & Br & Ll & Gr). cbn [del inorder].
  rewrite sl_delete_split by assumption.
  destruct (k ?= k').
  - destruct l as [|lc ll lk lv lr]; [|destruct r as [|rc rl rk rv rr]].
    + pose proof (inorder_unlink c E r (or_introl eq_refl)) as U.
      destruct (unlink c E r) as [t' d]. exact U.
    + pose proof (inorder_unlink c (T lc ll lk lv lr) E (or_intror eq_refl)) as U.
      destruct (unlink c (T lc ll lk lv lr) E) as [t' d]. exact U.
    + remember (T rc rl rk rv rr) as r0 eqn:Er. remember (T lc ll lk lv lr) as l0 eqn:El.
      assert (r0 <> E) as Hne by (subst; discriminate).
      pose proof (inorder_del_min r0 Hne) as M.
      destruct (del_min r0) as [[r' d] [sk sv]]. cbn [fst snd] in M. rewrite M.
      destruct d.
      * pose proof (inorder_fixR c l0 sk sv r') as F. destruct (fixR c l0 sk sv r') as [t' d'].
        exact F.
      * reflexivity.
  - specialize (IHl Bl). destruct (del k l) as [[l' d] f]. cbn [fst] in IHl. destruct d.
    + pose proof (inorder_fixL c l' k' v' r) as F. destruct (fixL c l' k' v' r) as [t' d'].
      cbn [fst] in *. rewrite F, IHl. reflexivity.
    + cbn [fst inorder]. rewrite IHl. reflexivity.
  - specialize (IHr Br). destruct (del k r) as [[r' d] f]. cbn [fst] in IHr. destruct d.
    + pose proof (inorder_fixR c l k' v' r') as F. destruct (fixR c l k' v' r') as [t' d'].
      cbn [fst] in *. rewrite F, IHr. reflexivity.
    + cbn [fst inorder]. rewrite IHr. reflexivity.
Qed.

Lemma inorder_remove k t : bst t -> inorder (remove k t) = sl_delete k (inorder t).
Proof.
  intros H. unfold remove. pose proof (inorder_del k t H) as D.
  destruct (del k t) as [[t' d] f]. rewrite inorder_setc. exact D.
Qed.

Lemma keys_gt_delete x k l : keys_gt x l -> keys_gt x (sl_delete k l).
Proof.
  induction 1 as [|[k' v'] l Hx Hl IH]; cbn [sl_delete]; [constructor|].
  destruct (k ?= k'); [assumption | constructor; assumption | constructor; assumption].
Qed.

Lemma ssorted_delete k l : ssorted l -> ssorted (sl_delete k l).
Proof.
  induction l as [|[k' v'] l IH]; cbn [sl_delete ssorted]; [auto|].
  intros [G S]. destruct (k ?= k'); cbn [ssorted]; auto using keys_gt_delete.
Qed.

Lemma bst_remove k t : bst t -> bst (remove k t).
Proof.
  intros H. apply bst_sorted. rewrite inorder_remove by exact H.
  apply ssorted_delete. apply bst_sorted. exact H.
Qed.

(* ------------------------------------------------------------------ balance *)
(* black height of a node of colour c over children of black height n *)
Definition bhn (c : color) (n : nat) : nat := match c with R => n | B => S n end.

Lemma rb_node c l k v r n : rb (bhn c n) (T c l k v r) <->
  rb n l /\ rb n r /\ (c = R -> col l = B /\ col r = B).
Proof. destruct c; cbn; intuition congruence. Qed.

(* what deletion returns for a subtree of black height N whose root had colour c:
   d = true: one black short, root black (the loop variable x);  d = false: repaired *)
Definition del_inv (N : nat) (c : color) (t' : tree) (d : bool) : Prop :=
  if d then c = B /\ col t' = B /\ exists m, N = S m /\ rb m t'
  else rb N t' /\ (c = B -> col t' = B).

Lemma rb_black_nonempty n t : rb (S n) t -> col t = B -> exists l k v r, t = T B l k v r.
Proof.
  destruct t as [|[] l k v r]; cbn; intros H C; try discriminate; eauto.
Qed.

Lemma col_setc_B t : col (setc B t) = B.
Proof. destruct t; reflexivity. Qed.

Lemma fixL_bs_rb n c l k v r : rb n l -> col l = B -> rb (S n) r -> col r = B ->
  del_inv (bhn c (S n)) c (fst (fixL_bs c l k v r)) (snd (fixL_bs c l k v r)).
Proof.
  intros Hl Cl Hr Cr. destruct (rb_black_nonempty _ _ Hr Cr) as (rl & rk & rv & rr & ->).
  cbn [rb] in Hr. destruct Hr as [Hrl Hrr]. unfold fixL_bs.
  destruct (isR rl) eqn:Erl, (isR rr) eqn:Err; cbn [negb andb].
  - (* far nephew red *)
    apply isR_true in Err. pose proof (rb_blacken _ _ Hrr Err) as Hb.
    cbn [fst snd del_inv]. split; [|intros ->; reflexivity].
    apply rb_node. cbn [rb col]. rewrite col_setc_B. tauto.
  - (* only the near nephew red: rotate the sibling first *)
    apply isR_true in Erl. apply isR_false in Err.
    apply col_R in Erl. destruct Erl as (rll & rlk & rlv & rlr & ->). cbn [rb] in Hrl.
    cbn [fst snd setc del_inv]. split; [|intros ->; reflexivity].
    apply rb_node. cbn [rb col]. tauto.
  - apply isR_true in Err. pose proof (rb_blacken _ _ Hrr Err) as Hb.
    cbn [fst snd del_inv]. split; [|intros ->; reflexivity].
    apply rb_node. cbn [rb col]. rewrite col_setc_B. tauto.
  - (* both nephews black: recolour, the deficit moves up unless the parent was red *)
    apply isR_false in Erl. apply isR_false in Err. cbn [fst snd].
    destruct c; cbn [del_inv bhn].
    + split; [|discriminate]. cbn [rb col]. tauto.
    + repeat split. exists (S n). split; [reflexivity|]. cbn [rb col]. tauto.
Qed.

Lemma fixL_rb n c l k v r : rb n l -> col l = B -> rb (S n) r -> (c = R -> col r = B) ->
  del_inv (bhn c (S n)) c (fst (fixL c l k v r)) (snd (fixL c l k v r)).
Proof.
  intros Hl Cl Hr Cr. unfold fixL. destruct r as [|[] rl rk rv rr].
  - apply fixL_bs_rb; auto.
  - (* red sibling: rotate, then the black-sibling case one level down with a red parent *)
    destruct c; [specialize (Cr eq_refl); discriminate|].
    cbn [rb] in Hr. destruct Hr as (Crl & Crr & Hrl & Hrr).
    pose proof (fixL_bs_rb n R l k v rl Hl Cl Hrl Crl) as F.
    destruct (fixL_bs R l k v rl) as [inner d]. cbn [fst snd] in *.
    destruct d; cbn [del_inv bhn] in F; [destruct F as [F _]; discriminate|].
    destruct F as [F _]. cbn [del_inv bhn rb col]. tauto.
  - apply fixL_bs_rb; auto.
Qed.

Lemma fixR_bs_rb n c l k v r : rb n r -> col r = B -> rb (S n) l -> col l = B ->
  del_inv (bhn c (S n)) c (fst (fixR_bs c l k v r)) (snd (fixR_bs c l k v r)).
Proof.
  intros Hr Cr Hl Cl. destruct (rb_black_nonempty _ _ Hl Cl) as (ll & lk & lv & lr & ->).
  cbn [rb] in Hl. destruct Hl as [Hll Hlr]. unfold fixR_bs.
  destruct (isR lr) eqn:Elr, (isR ll) eqn:Ell; cbn [negb andb].
  - apply isR_true in Ell. pose proof (rb_blacken _ _ Hll Ell) as Hb.
    cbn [fst snd del_inv]. split; [|intros ->; reflexivity].
    apply rb_node. cbn [rb col]. rewrite col_setc_B. tauto.
  - apply isR_true in Elr. apply isR_false in Ell.
    apply col_R in Elr. destruct Elr as (lrl & lrk & lrv & lrr & ->). cbn [rb] in Hlr.
    cbn [fst snd setc del_inv]. split; [|intros ->; reflexivity].
    apply rb_node. cbn [rb col]. tauto.
  - apply isR_true in Ell. pose proof (rb_blacken _ _ Hll Ell) as Hb.
    cbn [fst snd del_inv]. split; [|intros ->; reflexivity].
    apply rb_node. cbn [rb col]. rewrite col_setc_B. tauto.
  - apply isR_false in Elr. apply isR_false in Ell. cbn [fst snd].
    destruct c; cbn [del_inv bhn].
    + split; [|discriminate]. cbn [rb col]. tauto.
    + repeat split. exists (S n). split; [reflexivity|]. cbn [rb col]. tauto.
Qed.

Lemma fixR_rb n c l k v r : rb n r -> col r = B -> rb (S n) l -> (c = R -> col l = B) ->
  del_inv (bhn c (S n)) c (fst (fixR c l k v r)) (snd (fixR c l k v r)).
Proof.
  intros Hr Cr Hl Cl. unfold fixR. destruct l as [|[] ll lk lv lr].
  - apply fixR_bs_rb; auto.
  - destruct c; [specialize (Cl eq_refl); discriminate|].
    cbn [rb] in Hl. destruct Hl as (Cll & Clr & Hll & Hlr).
    pose proof (fixR_bs_rb n R lr k v r Hr Cr Hlr Clr) as F.
    destruct (fixR_bs R lr k v r) as [inner d]. cbn [fst snd] in *.
    destruct d; cbn [del_inv bhn] in F; [destruct F as [F _]; discriminate|].
    destruct F as [F _]. cbn [del_inv bhn rb col]. tauto.
  - apply fixR_bs_rb; auto.
Qed.

Lemma rb0_black t : rb 0 t -> col t = B -> t = E.
Proof. destruct t as [|[] l k v r]; cbn; intros H C; try discriminate; tauto. Qed.

Lemma rb_E n : rb n E -> n = O.
Proof. cbn. auto. Qed.

(* unlinking a node with at most one child *)
Lemma unlink_rb n c l k v r : rb (bhn c n) (T c l k v r) -> l = E \/ r = E ->
  del_inv (bhn c n) c (fst (unlink c l r)) (snd (unlink c l r)).
Proof.
  intros H Hone. apply rb_node in H. destruct H as (Hl & Hr & Hc).
  assert (n = O) as -> by (destruct Hone as [-> | ->]; [exact (rb_E _ Hl) | exact (rb_E _ Hr)]).
  set (rep := match l with E => r | _ => l end).
  assert (rb 0 rep) as Hrep by (subst rep; destruct l; assumption).
  assert (c = R -> col rep = B) as Crep by (intros Hc'; destruct (Hc Hc'); subst rep; destruct l; assumption).
  unfold unlink. fold rep. destruct rep as [|rc rl rk rv rr] eqn:Erep.
  - destruct c; cbn [fst snd del_inv bhn]; [cbn; auto|]. repeat split. exists O. cbn. auto.
  - destruct c.
    + specialize (Crep eq_refl). apply (rb0_black _ Hrep) in Crep. discriminate.
    + destruct rc; [|cbn in Hrep; contradiction].
      cbn [isR col fst snd setc del_inv bhn]. cbn [rb] in Hrep. cbn [rb col]. tauto.
Qed.

Lemma del_min_rb t : forall N, rb N t -> t <> E ->
  del_inv N (col t) (fst (fst (del_min t))) (snd (fst (del_min t))).
Proof.
  induction t as [|c l IHl k v r _]; intros N H Hne; [congruence|].
  assert (N = bhn c (match c with R => N | B => pred N end)) as EN
    by (destruct c; [reflexivity|]; destruct N; [cbn in H; contradiction|reflexivity]).
  set (n := match c with R => N | B => pred N end) in *. rewrite EN in H |- *. clearbody n. clear EN N.
  cbn [col]. destruct l as [|lc ll lk lv lr].
  - cbn [del_min]. pose proof (unlink_rb n c E k v r H (or_introl eq_refl)) as U.
    destruct (unlink c E r) as [t' d]. exact U.
  - remember (T lc ll lk lv lr) as l0 eqn:El.
    assert (l0 <> E) as Hne0 by (subst; discriminate).
    assert (del_min (T c l0 k v r) =
            let '(l', d, kv) := del_min l0 in
            if d then let '(t', d') := fixL c l' k v r in (t', d', kv) else (T c l' k v r, false, kv)) as Eq
      by (subst l0; reflexivity).
    rewrite Eq. clear Eq. apply rb_node in H. destruct H as (Hl & Hr & Hc).
    specialize (IHl n Hl Hne0). destruct (del_min l0) as [[l' d] kv]. cbn [fst snd] in IHl.
    destruct d; cbn [del_inv] in IHl.
    + destruct IHl as (Cl0 & Cl' & m & -> & Hl').
      pose proof (fixL_rb m c l' k v r Hl' Cl' Hr (fun e => proj2 (Hc e))) as F.
      destruct (fixL c l' k v r) as [t' d']. exact F.
    + destruct IHl as [Hl' Cl']. cbn [fst snd del_inv]. split; [|intros ->; reflexivity].
      apply rb_node. repeat split; auto; destruct (Hc H); auto.
Qed.

Lemma del_rb k t : forall N, rb N t ->
  del_inv N (col t) (fst (fst (del k t))) (snd (fst (del k t))).
Proof.
  induction t as [|c l IHl k' v' r IHr]; intros N H.
  - cbn in H. subst N. cbn. auto.
  - assert (N = bhn c (match c with R => N | B => pred N end)) as EN
      by (destruct c; [reflexivity|]; destruct N; [cbn in H; contradiction|reflexivity]).
    set (n := match c with R => N | B => pred N end) in *. rewrite EN in H |- *. clearbody n. clear EN N.
    pose proof H as H0. apply rb_node in H. destruct H as (Hl & Hr & Hc).
    cbn [del col]. destruct (k ?= k').
    + (* the node itself *)
      destruct l as [|lc ll lk lv lr]; [|destruct r as [|rc rl rk rv rr]].
      * pose proof (unlink_rb n c E k' v' r H0 (or_introl eq_refl)) as U.
        destruct (unlink c E r) as [t' d]. exact U.
      * pose proof (unlink_rb n c _ k' v' E H0 (or_intror eq_refl)) as U.
        destruct (unlink c (T lc ll lk lv lr) E) as [t' d]. exact U.
      * remember (T rc rl rk rv rr) as r0 eqn:Er. remember (T lc ll lk lv lr) as l0 eqn:El.
        assert (r0 <> E) as Hne by (subst; discriminate).
        pose proof (del_min_rb r0 n Hr Hne) as M.
        destruct (del_min r0) as [[r' d] [sk sv]]. cbn [fst snd] in M.
        destruct d; cbn [del_inv] in M.
        -- destruct M as (Cr0 & Cr' & m & -> & Hr').
           pose proof (fixR_rb m c l0 sk sv r' Hr' Cr' Hl (fun e => proj1 (Hc e))) as F.
           destruct (fixR c l0 sk sv r') as [t' d']. exact F.
        -- destruct M as [Hr' Cr']. cbn [fst snd del_inv]. split; [|intros ->; reflexivity].
           apply rb_node. repeat split; auto; destruct (Hc H); auto.
    + specialize (IHl n Hl). destruct (del k l) as [[l' d] f]. cbn [fst snd] in IHl.
      destruct d; cbn [del_inv] in IHl.
      * destruct IHl as (Cl0 & Cl' & m & -> & Hl').
        pose proof (fixL_rb m c l' k' v' r Hl' Cl' Hr (fun e => proj2 (Hc e))) as F.
        destruct (fixL c l' k' v' r) as [t' d']. exact F.
      * destruct IHl as [Hl' Cl']. cbn [fst snd del_inv]. split; [|intros ->; reflexivity].
        apply rb_node. repeat split; auto; destruct (Hc H); auto.
    + specialize (IHr n Hr). destruct (del k r) as [[r' d] f]. cbn [fst snd] in IHr.
      destruct d; cbn [del_inv] in IHr.
      * destruct IHr as (Cr0 & Cr' & m & -> & Hr').
        pose proof (fixR_rb m c l k' v' r' Hr' Cr' Hl (fun e => proj1 (Hc e))) as F.
        destruct (fixR c l k' v' r') as [t' d']. exact F.
      * destruct IHr as [Hr' Cr']. cbn [fst snd del_inv]. split; [|intros ->; reflexivity].
        apply rb_node. repeat split; auto; destruct (Hc H); auto.
Qed.

Lemma rbtree_remove k t : rbtree t -> rbtree (remove k t).
Proof.
  intros [C [n H]]. pose proof (del_rb k t n H) as D. unfold remove.
  destruct (del k t) as [[t' d] f]. cbn [fst snd] in D. rewrite C in D.
  destruct d; cbn [del_inv] in D.
  - destruct D as (_ & C' & m & _ & Hm). split; [apply col_setc_B|].
    exists m. destruct t' as [|[] l k0 v0 r]; cbn in *; try discriminate; assumption.
  - destruct D as [H' C']. specialize (C' eq_refl). split; [apply col_setc_B|].
    exists n. destruct t' as [|[] l k0 v0 r]; cbn in *; try discriminate; assumption.
Qed.
