(* CRC-32 (IEEE 802.3, reflected polynomial 0xEDB88320) as computed by Go's hash/crc32
   with crc32.IEEETable.  The bit-serial register machine [update_spec] is the
   specification; [update] is the byte-table version (Go's simpleUpdate), proved equal to it
   and used for evaluation.  The register step is linear over GF(2) and injective on 32-bit
   states; from these follows that two equally long messages differing in exactly one bit
   never have the same CRC (used by C02). *)
From Coq Require Import Arith NArith List Lia Bool ZifyNat ZifyN.
From FV Require Import Lib.NList.
Import ListNotations.
Open Scope N_scope.

Definition poly : N := 3988292384.   (* 0xEDB88320 *)
Definition mask32 : N := 4294967295. (* 0xFFFFFFFF *)

(* one shift of the reflected register *)
Definition step (c : N) : N :=
  if N.odd c then N.lxor (N.shiftr c 1) poly else N.shiftr c 1.

Definition step8 (c : N) : N := step (step (step (step (step (step (step (step c))))))).

(* feed one byte, then a byte string *)
Definition upd_byte_spec (c b : N) : N := step8 (N.lxor c b).
Definition update_spec (c : N) (bs : list N) : N := fold_left upd_byte_spec bs c.
Definition crc32_spec (bs : list N) : N := N.lxor (update_spec mask32 bs) mask32.

(* the 256-entry table crc32.IEEETable, as a function (binary search on the index) *)
Definition tbl (i : N) : N :=
  match i with
  | 0 => 0 | 1 => 1996959894 | 2 => 3993919788 | 3 => 2567524794
  | 4 => 124634137 | 5 => 1886057615 | 6 => 3915621685 | 7 => 2657392035
  | 8 => 249268274 | 9 => 2044508324 | 10 => 3772115230 | 11 => 2547177864
  | 12 => 162941995 | 13 => 2125561021 | 14 => 3887607047 | 15 => 2428444049
  | 16 => 498536548 | 17 => 1789927666 | 18 => 4089016648 | 19 => 2227061214
  | 20 => 450548861 | 21 => 1843258603 | 22 => 4107580753 | 23 => 2211677639
  | 24 => 325883990 | 25 => 1684777152 | 26 => 4251122042 | 27 => 2321926636
  | 28 => 335633487 | 29 => 1661365465 | 30 => 4195302755 | 31 => 2366115317
  | 32 => 997073096 | 33 => 1281953886 | 34 => 3579855332 | 35 => 2724688242
  | 36 => 1006888145 | 37 => 1258607687 | 38 => 3524101629 | 39 => 2768942443
  | 40 => 901097722 | 41 => 1119000684 | 42 => 3686517206 | 43 => 2898065728
  | 44 => 853044451 | 45 => 1172266101 | 46 => 3705015759 | 47 => 2882616665
  | 48 => 651767980 | 49 => 1373503546 | 50 => 3369554304 | 51 => 3218104598
  | 52 => 565507253 | 53 => 1454621731 | 54 => 3485111705 | 55 => 3099436303
  | 56 => 671266974 | 57 => 1594198024 | 58 => 3322730930 | 59 => 2970347812
  | 60 => 795835527 | 61 => 1483230225 | 62 => 3244367275 | 63 => 3060149565
  | 64 => 1994146192 | 65 => 31158534 | 66 => 2563907772 | 67 => 4023717930
  | 68 => 1907459465 | 69 => 112637215 | 70 => 2680153253 | 71 => 3904427059
  | 72 => 2013776290 | 73 => 251722036 | 74 => 2517215374 | 75 => 3775830040
  | 76 => 2137656763 | 77 => 141376813 | 78 => 2439277719 | 79 => 3865271297
  | 80 => 1802195444 | 81 => 476864866 | 82 => 2238001368 | 83 => 4066508878
  | 84 => 1812370925 | 85 => 453092731 | 86 => 2181625025 | 87 => 4111451223
  | 88 => 1706088902 | 89 => 314042704 | 90 => 2344532202 | 91 => 4240017532
  | 92 => 1658658271 | 93 => 366619977 | 94 => 2362670323 | 95 => 4224994405
  | 96 => 1303535960 | 97 => 984961486 | 98 => 2747007092 | 99 => 3569037538
  | 100 => 1256170817 | 101 => 1037604311 | 102 => 2765210733 | 103 => 3554079995
  | 104 => 1131014506 | 105 => 879679996 | 106 => 2909243462 | 107 => 3663771856
  | 108 => 1141124467 | 109 => 855842277 | 110 => 2852801631 | 111 => 3708648649
  | 112 => 1342533948 | 113 => 654459306 | 114 => 3188396048 | 115 => 3373015174
  | 116 => 1466479909 | 117 => 544179635 | 118 => 3110523913 | 119 => 3462522015
  | 120 => 1591671054 | 121 => 702138776 | 122 => 2966460450 | 123 => 3352799412
  | 124 => 1504918807 | 125 => 783551873 | 126 => 3082640443 | 127 => 3233442989
  | 128 => 3988292384 | 129 => 2596254646 | 130 => 62317068 | 131 => 1957810842
  | 132 => 3939845945 | 133 => 2647816111 | 134 => 81470997 | 135 => 1943803523
  | 136 => 3814918930 | 137 => 2489596804 | 138 => 225274430 | 139 => 2053790376
  | 140 => 3826175755 | 141 => 2466906013 | 142 => 167816743 | 143 => 2097651377
  | 144 => 4027552580 | 145 => 2265490386 | 146 => 503444072 | 147 => 1762050814
  | 148 => 4150417245 | 149 => 2154129355 | 150 => 426522225 | 151 => 1852507879
  | 152 => 4275313526 | 153 => 2312317920 | 154 => 282753626 | 155 => 1742555852
  | 156 => 4189708143 | 157 => 2394877945 | 158 => 397917763 | 159 => 1622183637
  | 160 => 3604390888 | 161 => 2714866558 | 162 => 953729732 | 163 => 1340076626
  | 164 => 3518719985 | 165 => 2797360999 | 166 => 1068828381 | 167 => 1219638859
  | 168 => 3624741850 | 169 => 2936675148 | 170 => 906185462 | 171 => 1090812512
  | 172 => 3747672003 | 173 => 2825379669 | 174 => 829329135 | 175 => 1181335161
  | 176 => 3412177804 | 177 => 3160834842 | 178 => 628085408 | 179 => 1382605366
  | 180 => 3423369109 | 181 => 3138078467 | 182 => 570562233 | 183 => 1426400815
  | 184 => 3317316542 | 185 => 2998733608 | 186 => 733239954 | 187 => 1555261956
  | 188 => 3268935591 | 189 => 3050360625 | 190 => 752459403 | 191 => 1541320221
  | 192 => 2607071920 | 193 => 3965973030 | 194 => 1969922972 | 195 => 40735498
  | 196 => 2617837225 | 197 => 3943577151 | 198 => 1913087877 | 199 => 83908371
  | 200 => 2512341634 | 201 => 3803740692 | 202 => 2075208622 | 203 => 213261112
  | 204 => 2463272603 | 205 => 3855990285 | 206 => 2094854071 | 207 => 198958881
  | 208 => 2262029012 | 209 => 4057260610 | 210 => 1759359992 | 211 => 534414190
  | 212 => 2176718541 | 213 => 4139329115 | 214 => 1873836001 | 215 => 414664567
  | 216 => 2282248934 | 217 => 4279200368 | 218 => 1711684554 | 219 => 285281116
  | 220 => 2405801727 | 221 => 4167216745 | 222 => 1634467795 | 223 => 376229701
  | 224 => 2685067896 | 225 => 3608007406 | 226 => 1308918612 | 227 => 956543938
  | 228 => 2808555105 | 229 => 3495958263 | 230 => 1231636301 | 231 => 1047427035
  | 232 => 2932959818 | 233 => 3654703836 | 234 => 1088359270 | 235 => 936918000
  | 236 => 2847714899 | 237 => 3736837829 | 238 => 1202900863 | 239 => 817233897
  | 240 => 3183342108 | 241 => 3401237130 | 242 => 1404277552 | 243 => 615818150
  | 244 => 3134207493 | 245 => 3453421203 | 246 => 1423857449 | 247 => 601450431
  | 248 => 3009837614 | 249 => 3294710456 | 250 => 1567103746 | 251 => 711928724
  | 252 => 3020668471 | 253 => 3272380065 | 254 => 1510334235 | 255 => 755167117
  | _ => 0
  end.

Definition upd_byte (c b : N) : N :=
  N.lxor (tbl (N.land (N.lxor c b) 255)) (N.shiftr c 8).
Definition update (c : N) (bs : list N) : N := fold_left upd_byte bs c.
Definition crc32 (bs : list N) : N := N.lxor (update mask32 bs) mask32.

(* ---------------------------------------------------------------------------------- *)
(* bit-level helpers *)

Ltac bits k :=
  apply N.bits_inj; intro k;
  repeat first [rewrite N.lxor_spec | rewrite N.shiftr_spec' | rewrite N.land_spec
               | rewrite N.bits_0 ].

Lemma step_even c : N.odd c = false -> step c = N.shiftr c 1.
Proof. unfold step; intros ->; reflexivity. Qed.
Lemma step_odd c : N.odd c = true -> step c = N.lxor (N.shiftr c 1) poly.
Proof. unfold step; intros ->; reflexivity. Qed.

Lemma odd_lxor x y : N.odd (N.lxor x y) = xorb (N.odd x) (N.odd y).
Proof. rewrite <- !N.bit0_odd. apply N.lxor_spec. Qed.

(* the step is linear over GF(2) *)
Lemma step_lxor x y : step (N.lxor x y) = N.lxor (step x) (step y).
Proof.
  unfold step. rewrite odd_lxor, N.shiftr_lxor.
  destruct (N.odd x), (N.odd y); cbn [xorb]; apply N.bits_inj; intro k;
    rewrite ?N.lxor_spec;
    destruct (N.testbit (N.shiftr x 1) k), (N.testbit (N.shiftr y 1) k), (N.testbit poly k);
    reflexivity.
Qed.

Lemma step_0 : step 0 = 0.
Proof. reflexivity. Qed.

Lemma step8_lxor x y : step8 (N.lxor x y) = N.lxor (step8 x) (step8 y).
Proof. unfold step8. now rewrite !step_lxor. Qed.

Lemma step8_0 : step8 0 = 0.
Proof. reflexivity. Qed.

(* eight steps on a multiple of 256 are a plain shift *)
Lemma step_double h : step (2 * h) = h.
Proof.
  rewrite step_even.
  - rewrite N.shiftr_div_pow2. change (2 ^ 1) with 2. rewrite N.mul_comm. apply N.div_mul. lia.
  - rewrite N.odd_mul. reflexivity.
Qed.

Lemma step8_shift h : step8 (256 * h) = h.
Proof.
  unfold step8.
  replace (256 * h) with (2 * (2 * (2 * (2 * (2 * (2 * (2 * (2 * h)))))))) by lia.
  now rewrite !step_double.
Qed.

(* the table is the eight-step image of its index *)
Lemma tbl_spec i : i < 256 -> tbl i = step8 i.
Proof.
  intros H.
  assert (E : forallb (fun j => tbl j =? step8 j) (map N.of_nat (seq 0 256)) = true)
    by (vm_compute; reflexivity).
  rewrite forallb_forall in E.
  apply N.eqb_eq. apply E. apply in_map_iff. exists (N.to_nat i). split; [lia|].
  apply in_seq. lia.
Qed.

(* split a register into its low byte and the rest *)
Lemma split_low8 x : x = N.lxor (N.land x 255) (256 * N.shiftr x 8).
Proof.
  change 255 with (N.ones 8). rewrite N.land_ones, N.shiftr_div_pow2.
  change (2 ^ 8) with 256.
  rewrite <- N.add_nocarry_lxor.
  - rewrite N.add_comm. apply N.div_mod. lia.
  - apply N.bits_inj; intro k. rewrite N.land_spec, N.bits_0.
    destruct (N.lt_ge_cases k 8) as [Hk|Hk].
    + replace (256 * (x / 256)) with ((x / 256) * 2 ^ 8) by (change (2^8) with 256; lia).
      rewrite N.mul_pow2_bits_low by assumption. apply andb_false_r.
    + change 256 with (2 ^ 8) at 1. rewrite N.mod_pow2_bits_high by assumption. reflexivity.
Qed.

Lemma land255_lt x : N.land x 255 < 256.
Proof. change 255 with (N.ones 8). rewrite N.land_ones. apply N.mod_lt. discriminate. Qed.

Lemma shiftr8_lxor_byte c b : b < 256 -> N.shiftr (N.lxor c b) 8 = N.shiftr c 8.
Proof.
  intros Hb. rewrite N.shiftr_lxor.
  replace (N.shiftr b 8) with 0; [apply N.lxor_0_r|].
  rewrite N.shiftr_div_pow2. change (2 ^ 8) with 256. symmetry. apply N.div_small. assumption.
Qed.

(* the table-driven byte update equals eight register steps *)
Lemma upd_byte_eq c b : b < 256 -> upd_byte c b = upd_byte_spec c b.
Proof.
  intros Hb. unfold upd_byte, upd_byte_spec.
  rewrite (split_low8 (N.lxor c b)) at 2.
  rewrite step8_lxor, step8_shift, shiftr8_lxor_byte by assumption.
  rewrite tbl_spec by apply land255_lt. reflexivity.
Qed.

Lemma update_eq c bs : Forall (fun b => b < 256) bs -> update c bs = update_spec c bs.
Proof.
  unfold update, update_spec. revert c.
  induction bs as [|b r IH]; intros c H; [reflexivity|].
  inversion H as [|? ? Hb Hr]; subst. cbn [fold_left].
  rewrite upd_byte_eq by assumption. apply IH; assumption.
Qed.

Theorem crc32_eq bs : Forall (fun b => b < 256) bs -> crc32 bs = crc32_spec bs.
Proof. intros H. unfold crc32, crc32_spec. now rewrite update_eq. Qed.

Lemma update_spec_app c a b : update_spec c (a ++ b) = update_spec (update_spec c a) b.
Proof. unfold update_spec. apply fold_left_app. Qed.
Lemma update_app c a b : update c (a ++ b) = update (update c a) b.
Proof. unfold update. apply fold_left_app. Qed.

(* ---------------------------------------------------------------------------------- *)
(* range of the register *)

Lemma lt_pow2_bits x n : x < 2 ^ n <-> (forall m, n <= m -> N.testbit x m = false).
Proof.
  split.
  - intros H m Hm. destruct (N.eq_dec x 0) as [->|Hx]; [apply N.bits_0|].
    apply N.bits_above_log2. apply N.log2_lt_pow2 in H; lia.
  - intros H. destruct (N.eq_dec x 0) as [->|Hx].
    + apply N.neq_0_lt_0. apply N.pow_nonzero. discriminate.
    + apply N.log2_lt_pow2; [lia|].
      destruct (N.lt_ge_cases (N.log2 x) n) as [Hl|Hl]; [assumption|].
      specialize (H (N.log2 x) Hl). rewrite N.bit_log2 in H by assumption. discriminate.
Qed.

Lemma lxor_lt_pow2 a b n : a < 2 ^ n -> b < 2 ^ n -> N.lxor a b < 2 ^ n.
Proof.
  rewrite !lt_pow2_bits. intros Ha Hb m Hm. rewrite N.lxor_spec, Ha, Hb by assumption. reflexivity.
Qed.

Lemma shiftr_lt_pow2 a n k : a < 2 ^ n -> N.shiftr a k < 2 ^ n.
Proof.
  rewrite !lt_pow2_bits. intros Ha m Hm. rewrite N.shiftr_spec'. apply Ha. lia.
Qed.

Lemma shiftr1_lt a : a < 2 ^ 32 -> N.shiftr a 1 < 2 ^ 31.
Proof.
  rewrite !lt_pow2_bits. intros Ha m Hm. rewrite N.shiftr_spec'. apply Ha. lia.
Qed.

Lemma poly_lt : poly < 2 ^ 32. Proof. reflexivity. Qed.

Lemma step_lt c : c < 2 ^ 32 -> step c < 2 ^ 32.
Proof.
  intros H. unfold step. destruct (N.odd c).
  - apply lxor_lt_pow2; [apply shiftr_lt_pow2; assumption|apply poly_lt].
  - apply shiftr_lt_pow2; assumption.
Qed.

Lemma step8_lt c : c < 2 ^ 32 -> step8 c < 2 ^ 32.
Proof. intros H. unfold step8. repeat apply step_lt. assumption. Qed.

(* the step is injective on 32-bit states: the polynomial's top bit records the bit shifted out *)
Lemma step_zero c : c < 2 ^ 32 -> step c = 0 -> c = 0.
Proof.
  intros Hc Hs. unfold step in Hs. destruct (N.odd c) eqn:Ho.
  - exfalso. apply N.lxor_eq in Hs. pose proof (shiftr1_lt c Hc) as H. rewrite Hs in H.
    revert H. vm_compute. discriminate.
  - assert (Hev : N.even c = true) by (rewrite <- N.negb_odd, Ho; reflexivity).
    apply N.even_spec in Hev. destruct Hev as [k ->].
    rewrite N.shiftr_div_pow2 in Hs. change (2 ^ 1) with 2 in Hs.
    rewrite N.mul_comm, N.div_mul in Hs by discriminate. subst k. reflexivity.
Qed.

Lemma step8_zero c : c < 2 ^ 32 -> step8 c = 0 -> c = 0.
Proof.
  intros Hc H. unfold step8 in H.
  repeat (apply step_zero in H; [|repeat apply step_lt; assumption]). assumption.
Qed.

Lemma step8_inj a b : a < 2 ^ 32 -> b < 2 ^ 32 -> step8 a = step8 b -> a = b.
Proof.
  intros Ha Hb H. apply N.lxor_eq. apply step8_zero; [apply lxor_lt_pow2; assumption|].
  rewrite step8_lxor, H. apply N.lxor_nilpotent.
Qed.

Lemma byte_lt32 b : b < 256 -> b < 2 ^ 32.
Proof. intros H. eapply N.lt_trans; [exact H|reflexivity]. Qed.

Lemma upd_byte_spec_lt c b : c < 2 ^ 32 -> b < 256 -> upd_byte_spec c b < 2 ^ 32.
Proof.
  intros Hc Hb. unfold upd_byte_spec. apply step8_lt. apply lxor_lt_pow2; [assumption|].
  apply byte_lt32; assumption.
Qed.

Lemma update_spec_lt c bs : c < 2 ^ 32 -> Forall (fun b => b < 256) bs -> update_spec c bs < 2 ^ 32.
Proof.
  unfold update_spec. revert c. induction bs as [|b r IH]; intros c Hc H; cbn [fold_left]; [assumption|].
  inversion H as [|? ? Hb Hr]; subst. apply IH; [|assumption]. apply upd_byte_spec_lt; assumption.
Qed.

Lemma upd_byte_spec_inj c c' b : c < 2 ^ 32 -> c' < 2 ^ 32 -> b < 256 ->
  upd_byte_spec c b = upd_byte_spec c' b -> c = c'.
Proof.
  intros Hc Hc' Hb H. unfold upd_byte_spec in H.
  apply step8_inj in H; try (apply lxor_lt_pow2; [assumption|apply byte_lt32; assumption]).
  apply (f_equal (fun x => N.lxor x b)) in H.
  rewrite !N.lxor_assoc, N.lxor_nilpotent, !N.lxor_0_r in H. assumption.
Qed.

Lemma update_spec_inj bs : forall c c', c < 2 ^ 32 -> c' < 2 ^ 32 -> Forall (fun b => b < 256) bs ->
  update_spec c bs = update_spec c' bs -> c = c'.
Proof.
  unfold update_spec. induction bs as [|b r IH]; intros c c' Hc Hc' H E; cbn [fold_left] in E; [assumption|].
  inversion H as [|? ? Hb Hr]; subst.
  apply IH in E; try assumption; try (apply upd_byte_spec_lt; assumption).
  eapply upd_byte_spec_inj; eassumption.
Qed.

(* ---------------------------------------------------------------------------------- *)
(* single-bit errors are always detected *)

(* bit i of a byte string: bit (i mod 8) of byte (i / 8) *)
Definition flip_bit (i : N) (m : list N) : list N :=
  let k := i / 8 in
  takeN k m ++
  match dropN k m with
  | [] => []
  | b :: r => N.lxor b (N.shiftl 1 (i mod 8)) :: r
  end.

Lemma pow2_byte j : j < 8 -> N.shiftl 1 j < 256.
Proof.
  intros H. rewrite N.shiftl_1_l. change 256 with (2 ^ 8). apply N.pow_lt_mono_r; [reflexivity|assumption].
Qed.

Lemma flip_bit_split i m : i < 8 * lenN m ->
  exists pre b post, m = pre ++ b :: post /\ lenN pre = i / 8
                     /\ flip_bit i m = pre ++ N.lxor b (N.shiftl 1 (i mod 8)) :: post.
Proof.
  intros Hi. assert (Hk : i / 8 < lenN m) by (apply N.div_lt_upper_bound; [discriminate|assumption]).
  unfold flip_bit. pose proof (takeN_dropN (i / 8) m) as E.
  destruct (dropN (i / 8) m) as [|b r] eqn:D.
  - exfalso. pose proof (lenN_dropN (i / 8) m) as L. rewrite D in L. cbn in L. lia.
  - exists (takeN (i / 8) m), b, r. split; [symmetry; exact E|]. split; [|reflexivity].
    apply lenN_takeN. lia.
Qed.

Lemma flip_bit_wf i m : Forall (fun b => b < 256) m -> Forall (fun b => b < 256) (flip_bit i m).
Proof.
  intros H. unfold flip_bit. rewrite <- (takeN_dropN (i / 8) m) in H. apply Forall_app in H.
  destruct H as [H1 H2]. apply Forall_app. split; [assumption|].
  destruct (dropN (i / 8) m) as [|b r]; [constructor|].
  inversion H2 as [|? ? Hb Hr]; subst. constructor; [|assumption].
  change 256 with (2 ^ 8). apply lxor_lt_pow2; [assumption|].
  apply pow2_byte. apply N.mod_lt. discriminate.
Qed.

Lemma flip_bit_len i m : lenN (flip_bit i m) = lenN m.
Proof.
  unfold flip_bit. rewrite <- (takeN_dropN (i / 8) m) at 3. rewrite !lenN_app. f_equal.
  destruct (dropN (i / 8) m); [reflexivity|]. rewrite !lenN_cons. reflexivity.
Qed.

Lemma lxor_cancel_l a x y : N.lxor a x = N.lxor a y -> x = y.
Proof.
  intros H. apply (f_equal (N.lxor a)) in H.
  rewrite <- !N.lxor_assoc, N.lxor_nilpotent, !N.lxor_0_l in H. assumption.
Qed.

Lemma update_spec_flip_ne c m i : c < 2 ^ 32 -> Forall (fun b => b < 256) m -> i < 8 * lenN m ->
  update_spec c (flip_bit i m) <> update_spec c m.
Proof.
  intros Hc Hm Hi E.
  destruct (flip_bit_split i m Hi) as (pre & b & post & -> & _ & F). rewrite F in E.
  apply Forall_app in Hm. destruct Hm as [Hpre Hb]. inversion Hb as [|? ? Hb0 Hpost]; subst.
  set (d := N.shiftl 1 (i mod 8)) in *.
  assert (Hd : d < 256) by (apply pow2_byte; apply N.mod_lt; discriminate).
  rewrite !update_spec_app in E. unfold update_spec at 1 3 in E. cbn [fold_left] in E.
  fold (update_spec (upd_byte_spec (update_spec c pre) (N.lxor b d)) post) in E.
  fold (update_spec (upd_byte_spec (update_spec c pre) b) post) in E.
  pose proof (update_spec_lt c pre Hc Hpre) as H1.
  assert (Hbd : N.lxor b d < 256) by (change 256 with (2 ^ 8); apply lxor_lt_pow2; assumption).
  apply update_spec_inj in E; try assumption; try (apply upd_byte_spec_lt; assumption).
  unfold upd_byte_spec in E.
  apply step8_inj in E; try (apply lxor_lt_pow2; [assumption|apply byte_lt32; assumption]).
  apply lxor_cancel_l in E. rewrite <- (N.lxor_0_r b) in E at 2. apply lxor_cancel_l in E.
  unfold d in E. rewrite N.shiftl_1_l in E. revert E. apply N.pow_nonzero. discriminate.
Qed.

Theorem crc32_flip_ne m i : Forall (fun b => b < 256) m -> i < 8 * lenN m ->
  crc32 (flip_bit i m) <> crc32 m.
Proof.
  intros Hm Hi E. unfold crc32 in E.
  rewrite !update_eq in E by (try apply flip_bit_wf; assumption).
  apply (f_equal (fun x => N.lxor x mask32)) in E.
  rewrite !N.lxor_assoc, N.lxor_nilpotent, !N.lxor_0_r in E.
  revert E. apply update_spec_flip_ne; try assumption. reflexivity.
Qed.

(* standard check value: CRC-32("123456789") = 0xCBF43926 *)
Example crc32_check : crc32 [49;50;51;52;53;54;55;56;57] = 3421780262
                   /\ crc32_spec [49;50;51;52;53;54;55;56;57] = 3421780262.
Proof. split; vm_compute; reflexivity. Qed.
