(* Little-endian fixed-width integers over byte lists (bytes are Z in [0,256)):
   encoding/binary.LittleEndian.PutUintN / UintN.
     le_put n v   the n low bytes of v, least significant first  (b[i] = byte(v >> 8i))
     le_get l     sum of l[i] << 8i
   Round trips in both directions, length, byte range and the per-byte formula. *)
From Coq Require Import ZArith List Lia.
Import ListNotations.
Open Scope Z_scope.

Definition is_byte (b : Z) : Prop := 0 <= b < 256.

Fixpoint le_put (n : nat) (v : Z) : list Z :=
  match n with
  | O => []
  | S n' => v mod 256 :: le_put n' (v / 256)
  end.

Fixpoint le_get (l : list Z) : Z :=
  match l with
  | [] => 0
  | b :: r => b + 256 * le_get r
  end.

Lemma le_put_length n v : length (le_put n v) = n.
Proof. revert v; induction n as [|n IH]; intros v; cbn [le_put length]; [reflexivity|]. now rewrite IH. Qed.

Lemma le_put_bytes n v : Forall is_byte (le_put n v).
Proof.
  revert v; induction n as [|n IH]; intros v; cbn [le_put]; constructor; [|apply IH].
  unfold is_byte. apply Z.mod_pos_bound. lia.
Qed.

Lemma pow256_succ n : 256 ^ Z.of_nat (S n) = 256 * 256 ^ Z.of_nat n.
Proof. rewrite Nat2Z.inj_succ, Z.pow_succ_r by lia. reflexivity. Qed.

Lemma pow256_pos n : 0 < 256 ^ Z.of_nat n.
Proof. apply Z.pow_pos_nonneg; lia. Qed.

Lemma le_get_put n v : le_get (le_put n v) = v mod 256 ^ Z.of_nat n.
Proof.
  revert v; induction n as [|n IH]; intros v.
  - cbn [le_put le_get]. change (256 ^ Z.of_nat 0) with 1. now rewrite Z.mod_1_r.
  - cbn [le_put le_get]. rewrite IH, pow256_succ.
    pose proof (pow256_pos n). rewrite Z.rem_mul_r by lia. reflexivity.
Qed.

Lemma le_get_bound l : Forall is_byte l -> 0 <= le_get l < 256 ^ Z.of_nat (length l).
Proof.
  induction 1 as [|b r Hb _ IH]; cbn [le_get length].
  - change (256 ^ Z.of_nat 0) with 1. lia.
  - rewrite pow256_succ. unfold is_byte in Hb. lia.
Qed.

Lemma le_put_get l : Forall is_byte l -> le_put (length l) (le_get l) = l.
Proof.
  induction 1 as [|b r Hb _ IH]; cbn [le_get length le_put]; [reflexivity|].
  unfold is_byte in Hb.
  replace ((b + 256 * le_get r) mod 256) with b by (apply (Zdiv.Zmod_unique _ _ (le_get r)); lia).
  replace ((b + 256 * le_get r) / 256) with (le_get r) by (apply (Zdiv.Zdiv_unique _ _ _ b); lia).
  now rewrite IH.
Qed.

(* only the low 8n bits matter *)
Lemma le_put_mod n v : le_put n (v mod 256 ^ Z.of_nat n) = le_put n v.
Proof.
  revert v; induction n as [|n IH]; intros v; cbn [le_put]; [reflexivity|].
  rewrite pow256_succ. pose proof (pow256_pos n) as Hp. rewrite Z.rem_mul_r by lia.
  set (q := (v / 256) mod 256 ^ Z.of_nat n).
  pose proof (Z.mod_pos_bound v 256 ltac:(lia)) as Hm.
  replace ((v mod 256 + 256 * q) mod 256) with (v mod 256)
    by (apply (Zdiv.Zmod_unique _ _ q); lia).
  replace ((v mod 256 + 256 * q) / 256) with q by (apply (Zdiv.Zdiv_unique _ _ _ (v mod 256)); lia).
  f_equal. unfold q. apply IH.
Qed.

(* byte i of the encoding is bits 8i..8i+7 of the value: b[i] = byte(v >> 8i) *)
Lemma le_put_nth n v i : (i < n)%nat -> nth i (le_put n v) 0 = (v / 256 ^ Z.of_nat i) mod 256.
Proof.
  revert v i; induction n as [|n IH]; intros v i Hi; [lia|].
  destruct i as [|i]; cbn [le_put nth].
  - change (256 ^ Z.of_nat 0) with 1. now rewrite Z.div_1_r.
  - rewrite IH by lia. rewrite pow256_succ. pose proof (pow256_pos i).
    rewrite Z.div_div by lia. reflexivity.
Qed.

Lemma le_put_nth_shift n v i : (i < n)%nat ->
  nth i (le_put n v) 0 = Z.land (Z.shiftr v (8 * Z.of_nat i)) 255.
Proof.
  intros Hi. rewrite le_put_nth by assumption.
  rewrite Z.shiftr_div_pow2 by lia. change 255 with (Z.ones 8). rewrite Z.land_ones by lia.
  change 256 with (2 ^ 8). rewrite <- Z.pow_mul_r by lia. reflexivity.
Qed.

(* decoding a prefix: what a reader sees when an encoding is followed by more data *)
Lemma le_get_firstn_app n v rest : le_get (firstn n (le_put n v ++ rest)) = v mod 256 ^ Z.of_nat n.
Proof.
  rewrite <- (le_put_length n v) at 1. rewrite firstn_app, firstn_all, Nat.sub_diag. cbn [firstn].
  rewrite app_nil_r. apply le_get_put.
Qed.

Lemma skipn_le_put_app n v rest : skipn n (le_put n v ++ rest) = rest.
Proof.
  rewrite <- (le_put_length n v) at 1. rewrite skipn_app, skipn_all, Nat.sub_diag. reflexivity.
Qed.

(* a short list decodes as if padded with zero bytes (reading into a zeroed array) *)
Lemma le_get_app_zeros l k : le_get (l ++ repeat 0 k) = le_get l.
Proof.
  induction l as [|b r IH]; cbn [app le_get].
  - induction k as [|k IHk]; cbn [repeat le_get]; lia.
  - now rewrite IH.
Qed.

Lemma le_get_app a b : le_get (a ++ b) = le_get a + 256 ^ Z.of_nat (length a) * le_get b.
Proof.
  induction a as [|x a IH]; cbn [app le_get length].
  - change (256 ^ Z.of_nat 0) with 1. lia.
  - rewrite IH, pow256_succ. ring.
Qed.
