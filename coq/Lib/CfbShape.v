(* The statement language into which tools/goshape renders the four hand-unrolled CFB
   routines of x/cipher/block.go (encrypt8/16, decrypt8/16).  Only data types here: the file
   Generated/CipherShape.v (rewritten from the Go source on every run) is a value of these
   types; coq/C16/Shape.v gives the statements their meaning and ties them to the model. *)
From Coq Require Import ZArith List.
Import ListNotations.

(* which view of the packet a location is taken from: d / dst or s / src *)
Inductive shmem : Type := MD | MS.

(* d[lo:hi], &d[lo] (hi = None) inside the unrolled loop;  dst[base:], &dst[base] in the tail *)
Inductive shloc : Type :=
| LConst (m : shmem) (lo : Z) (hi : option Z)
| LBase (m : shmem).

(* a key-stream block: `*p` for a pointer p taken from the scratch buffer before the loop
   (resolved to its byte offset in buf), or the slice variable tbl / next *)
Inductive shks : Type := KOff (off : Z) | KTbl | KNext.

Inductive shstmt : Type :=
| SXor (width : Z) (d s : shloc) (k : shks)   (* d.. = s.. ^ k over one block of `width` bytes *)
| SEnc (k : shks) (src : shloc)               (* block.Encrypt(k, src) *)
| SBase (inc : Z)                             (* base += inc *)
| SSwap                                       (* tbl, next = next, tbl *)
| SRem (d s : shloc) (k : shks)               (* xorBytes(d, s, k) *)
| SFall                                       (* fallthrough *)
| SUnknown.                                   (* anything else: no meaning *)

Record shfn : Type := mkshfn {
  sh_tbl : Z * Z;                  (* tbl := buf[lo:hi] *)
  sh_next : option (Z * Z);        (* next := buf[lo:hi] *)
  sh_enc_iv : option shks;         (* block.Encrypt(<tbl>, iv) *)
  sh_ndiv : Z;                     (* n := len(src) / K *)
  sh_loopdiv : Z;                  (* for i := 0; i < n/K; i++ *)
  sh_window_s : Z;                 (* s := src[base:][0:W] *)
  sh_window_d : Z;                 (* d := dst[base:][0:W] *)
  sh_body : list shstmt;           (* the rest of the loop body, in order *)
  sh_switchmod : Z;                (* switch n % K *)
  sh_cases : list (Z * list shstmt);   (* case L: statements, in textual order *)
  sh_extra : Z                     (* number of statements of the function that fit nowhere above *)
}.
