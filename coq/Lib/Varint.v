(* Go's encoding/binary variable-length integers (LEB128 with zig-zag for signed values):
     put_uvarint x   PutUvarint:  for x >= 0x80 { emit byte(x)|0x80; x >>= 7 }; emit byte(x)
     uvarint buf     Uvarint:     returns (value, n); n = 0 buffer too small, n < 0 overflow
     put_varint x    PutVarint:   ux := uint64(x) << 1; if x < 0 { ux = ^ux }; PutUvarint(ux)
     varint buf      Varint:      ux, n := Uvarint(buf); x := int64(ux >> 1); if ux&1 != 0 { x = ^x }
   Bytes are Z in [0,256).  Round trips for every uint64 / int64, length bounds. *)
From Coq Require Import ZArith List Lia Bool.
From FV Require Import Lib.Bits Lib.Wrap Lib.LE.
Import ListNotations.
Open Scope Z_scope.

(* fuel 9 = MaxVarintLen64 - 1 continuation bytes; enough for every x < 2^64 *)
Fixpoint put_uv (fuel : nat) (x : Z) : list Z :=
  match fuel with
  | O => [x]
  | S f => if x <? 128 then [x] else (x mod 128 + 128) :: put_uv f (x / 128)
  end.

Definition put_uvarint (x : Z) : list Z := put_uv 9 x.

(* the loop of Uvarint: i = index of the byte, x = accumulated value, s = 7 * i *)
Fixpoint uvarint_go (buf : list Z) (i : nat) (x s : Z) : Z * Z :=
  match buf with
  | [] => (0, 0)
  | b :: r =>
      if (i =? 10)%nat then (0, - (Z.of_nat i + 1))
      else if b <? 128 then
        if (i =? 9)%nat && (1 <? b) then (0, - (Z.of_nat i + 1))
        else (Z.lor x (wrapu 64 (Z.shiftl b s)), Z.of_nat i + 1)
      else uvarint_go r (S i) (Z.lor x (wrapu 64 (Z.shiftl (Z.land b 127) s))) (s + 7)
  end.

Definition uvarint (buf : list Z) : Z * Z := uvarint_go buf 0 0 0.

Definition not64 (u : Z) : Z := 2 ^ 64 - 1 - u.          (* ^u on uint64 *)

Definition zigzag (x : Z) : Z :=
  let ux := wrapu 64 (Z.shiftl (wrapu 64 x) 1) in
  if x <? 0 then not64 ux else ux.

Definition unzigzag (ux : Z) : Z :=
  let x := wraps 64 (Z.shiftr ux 1) in
  if Z.land ux 1 =? 0 then x else - x - 1.               (* ^x on int64 *)

Definition put_varint (x : Z) : list Z := put_uvarint (zigzag x).
Definition varint (buf : list Z) : Z * Z :=
  let '(ux, n) := uvarint buf in (unzigzag ux, n).

(* ------------------------------------------------------------------------------------ *)

Lemma put_uv_length_pos f x : (1 <= length (put_uv f x))%nat.
Proof. destruct f; cbn [put_uv]; [cbn; lia|]. destruct (x <? 128); cbn [length]; lia. Qed.

Lemma put_uv_length_le f x : (length (put_uv f x) <= S f)%nat.
Proof.
  revert x; induction f as [|f IH]; intros x; cbn [put_uv]; [cbn; lia|].
  destruct (x <? 128); cbn [length]; [lia|]. specialize (IH (x / 128)). lia.
Qed.

Lemma put_uvarint_length x : (1 <= length (put_uvarint x) <= 10)%nat.
Proof. split; [apply put_uv_length_pos | apply (put_uv_length_le 9)]. Qed.

Lemma put_uv_bytes f x : 0 <= x < 2 ^ (7 * Z.of_nat (S f)) -> Forall is_byte (put_uv f x).
Proof.
  revert x; induction f as [|f IH]; intros x Hx.
  - cbn [put_uv]. constructor; [|constructor]. unfold is_byte. change (2 ^ (7 * Z.of_nat 1)) with 128 in Hx. lia.
  - cbn [put_uv]. destruct (x <? 128) eqn:E.
    + apply Z.ltb_lt in E. constructor; [|constructor]. unfold is_byte; lia.
    + constructor.
      * unfold is_byte. pose proof (Z.mod_pos_bound x 128 ltac:(lia)). lia.
      * apply IH. split; [apply Z.div_pos; lia|]. apply Z.div_lt_upper_bound; [lia|].
        replace (7 * Z.of_nat (S (S f))) with (7 + 7 * Z.of_nat (S f)) in Hx by lia.
        rewrite Z.pow_add_r in Hx by lia. change (2 ^ 7) with 128 in Hx. lia.
Qed.

Lemma put_uvarint_bytes x : 0 <= x < 2 ^ 64 -> Forall is_byte (put_uvarint x).
Proof.
  intros H. apply put_uv_bytes.
  assert (2 ^ 64 <= 2 ^ (7 * Z.of_nat 10)) by (apply Z.pow_le_mono_r; lia). lia.
Qed.

(* x | (b << s) is an addition when x < 2^s *)
Lemma lor_low_add x b s : 0 <= s -> 0 <= x < 2 ^ s -> 0 <= b -> Z.lor x (Z.shiftl b s) = x + b * 2 ^ s.
Proof. intros Hs Hx Hb. rewrite Z.lor_comm, lor_shiftl_add by assumption. lia. Qed.

Lemma lor_wrapu_shift x b s : 0 <= s -> 0 <= x < 2 ^ s -> 0 <= b -> x + b * 2 ^ s < 2 ^ 64 ->
  Z.lor x (wrapu 64 (Z.shiftl b s)) = x + b * 2 ^ s.
Proof.
  intros Hs Hx Hb Hlt. assert (0 < 2 ^ s) by (apply Z.pow_pos_nonneg; lia).
  rewrite wrapu_small by (unfold in_u; rewrite Z.shiftl_mul_pow2 by lia; nia).
  apply lor_low_add; assumption.
Qed.

Lemma land_127 b : Z.land b 127 = b mod 128.
Proof. change 127 with (2 ^ 7 - 1). apply land_ones_mod. lia. Qed.

(* the decoding loop undoes the encoding loop, whatever follows in the buffer *)
Lemma uvarint_go_put f : forall y i acc rest,
  (i + f = 9)%nat -> 0 <= acc < 2 ^ (7 * Z.of_nat i) -> 0 <= y ->
  y * 2 ^ (7 * Z.of_nat i) + acc < 2 ^ 64 ->
  uvarint_go (put_uv f y ++ rest) i acc (7 * Z.of_nat i) =
  (acc + y * 2 ^ (7 * Z.of_nat i), Z.of_nat i + Z.of_nat (length (put_uv f y))).
Proof.
  induction f as [|f IH]; intros y i acc rest Hif Hacc Hy Hlt.
  - assert (i = 9%nat) by lia. subst i. cbn [put_uv app uvarint_go length].
    change (9 =? 10)%nat with false. change (9 =? 9)%nat with true. cbv iota.
    change (7 * Z.of_nat 9) with 63 in *.
    assert (Hy1 : y <= 1) by (change (2 ^ 64) with (2 * 2 ^ 63) in Hlt; nia).
    destruct (y <? 128) eqn:E; [|apply Z.ltb_ge in E; lia].
    destruct (1 <? y) eqn:E1; [apply Z.ltb_lt in E1; lia|]. cbn [andb].
    rewrite lor_wrapu_shift by lia. reflexivity.
  - cbn [put_uv]. assert (Hi : (i <= 8)%nat) by lia.
    set (s := 7 * Z.of_nat i) in *. assert (Hs : 0 <= s <= 56) by (unfold s; lia).
    assert (Hps : 0 < 2 ^ s) by (apply Z.pow_pos_nonneg; lia).
    assert (Hs64 : 2 ^ s * 2 ^ (64 - s) = 2 ^ 64) by (rewrite <- Z.pow_add_r by lia; f_equal; lia).
    destruct (y <? 128) eqn:E.
    + apply Z.ltb_lt in E. cbn [app uvarint_go length].
      replace (i =? 10)%nat with false by (symmetry; apply Nat.eqb_neq; lia).
      rewrite (proj2 (Z.ltb_lt y 128) E).
      replace (i =? 9)%nat with false by (symmetry; apply Nat.eqb_neq; lia). cbn [andb].
      rewrite lor_wrapu_shift by lia. reflexivity.
    + apply Z.ltb_ge in E. cbn [app uvarint_go length].
      replace (i =? 10)%nat with false by (symmetry; apply Nat.eqb_neq; lia).
      pose proof (Z.mod_pos_bound y 128 ltac:(lia)) as Hm.
      replace (y mod 128 + 128 <? 128) with false by (symmetry; apply Z.ltb_ge; lia).
      rewrite land_127.
      replace ((y mod 128 + 128) mod 128) with (y mod 128)
        by (rewrite <- Zplus_mod_idemp_r; change (128 mod 128) with 0; rewrite Z.add_0_r, Z.mod_mod; lia).
      rewrite lor_wrapu_shift by (try lia; nia).
      replace (s + 7) with (7 * Z.of_nat (S i)) by (unfold s; lia).
      assert (Hp7 : 2 ^ (7 * Z.of_nat (S i)) = 128 * 2 ^ s).
      { replace (7 * Z.of_nat (S i)) with (7 + s) by (unfold s; lia). rewrite Z.pow_add_r by lia. reflexivity. }
      pose proof (Z.div_mod y 128 ltac:(lia)) as Hdm.
      rewrite IH.
      * f_equal; [rewrite Hp7; nia | lia].
      * lia.
      * rewrite Hp7. nia.
      * apply Z.div_pos; lia.
      * rewrite Hp7. nia.
Qed.

Theorem uvarint_put_uvarint x rest : 0 <= x < 2 ^ 64 ->
  uvarint (put_uvarint x ++ rest) = (x, Z.of_nat (length (put_uvarint x))).
Proof.
  intros Hx. unfold uvarint, put_uvarint.
  pose proof (uvarint_go_put 9 x 0 0 rest) as H. change (7 * Z.of_nat 0) with 0 in H.
  rewrite H; [f_equal; lia | lia | change (2 ^ 0) with 1; lia | lia | change (2 ^ 0) with 1; lia].
Qed.

(* zig-zag *)
Lemma zigzag_nonneg x : 0 <= x < 2 ^ 63 -> zigzag x = 2 * x.
Proof.
  intros H. unfold zigzag. replace (x <? 0) with false by (symmetry; apply Z.ltb_ge; lia).
  rewrite (wrapu_small 64 x) by (unfold in_u; lia). rewrite Z.shiftl_mul_pow2 by lia.
  rewrite wrapu_small by (unfold in_u; lia). lia.
Qed.

Lemma zigzag_neg x : - 2 ^ 63 <= x < 0 -> zigzag x = - 2 * x - 1.
Proof.
  intros H. unfold zigzag, not64. replace (x <? 0) with true by (symmetry; apply Z.ltb_lt; lia).
  assert (Hw : wrapu 64 x = x + 2 ^ 64).
  { unfold wrapu. symmetry. apply (Zdiv.Zmod_unique _ _ (-1)); lia. }
  rewrite Hw, Z.shiftl_mul_pow2 by lia.
  assert (Hw2 : wrapu 64 ((x + 2 ^ 64) * 2 ^ 1) = 2 * x + 2 ^ 64).
  { unfold wrapu. symmetry. apply (Zdiv.Zmod_unique _ _ 1); lia. }
  rewrite Hw2. lia.
Qed.

Lemma zigzag_range x : in_s 64 x -> 0 <= zigzag x < 2 ^ 64.
Proof.
  unfold in_s. change (64 - 1) with 63. intros H. destruct (Z.lt_ge_cases x 0).
  - rewrite zigzag_neg by lia. lia.
  - rewrite zigzag_nonneg by lia. lia.
Qed.

Lemma land_1 u : Z.land u 1 = u mod 2.
Proof. change 1 with (Z.ones 1). rewrite Z.land_ones by lia. reflexivity. Qed.

Lemma unzigzag_zigzag x : in_s 64 x -> unzigzag (zigzag x) = x.
Proof.
  unfold in_s. change (64 - 1) with 63. intros H. unfold unzigzag.
  rewrite land_1.
  rewrite shiftr_div by lia. change (2 ^ 1) with 2.
  destruct (Z.lt_ge_cases x 0).
  - rewrite zigzag_neg by lia.
    replace ((- 2 * x - 1) mod 2) with 1 by (apply (Zdiv.Zmod_unique _ _ (- x - 1)); lia).
    replace ((- 2 * x - 1) / 2) with (- x - 1) by (apply (Zdiv.Zdiv_unique _ _ _ 1); lia).
    change (1 =? 0) with false. cbv iota.
    rewrite wraps_small by (unfold in_s; change (64 - 1) with 63; lia). lia.
  - rewrite zigzag_nonneg by lia.
    replace ((2 * x) mod 2) with 0 by (apply (Zdiv.Zmod_unique _ _ x); lia).
    replace (2 * x / 2) with x by (apply (Zdiv.Zdiv_unique _ _ _ 0); lia).
    change (0 =? 0) with true. cbv iota.
    apply wraps_small; [lia|]. unfold in_s; change (64 - 1) with 63; lia.
Qed.

Theorem varint_put_varint x rest : in_s 64 x ->
  varint (put_varint x ++ rest) = (x, Z.of_nat (length (put_varint x))).
Proof.
  intros H. unfold varint, put_varint.
  rewrite uvarint_put_uvarint by (apply zigzag_range; assumption).
  now rewrite unzigzag_zigzag.
Qed.

Lemma put_varint_length x : (1 <= length (put_varint x) <= 10)%nat.
Proof. apply put_uvarint_length. Qed.

Lemma put_varint_bytes x : in_s 64 x -> Forall is_byte (put_varint x).
Proof. intros H. apply put_uvarint_bytes, zigzag_range, H. Qed.

(* ---- whatever the bytes, the decoders return values of their type -------------------------------- *)
Lemma lor_lt_pow2 a b n : 0 <= n -> 0 <= a < 2 ^ n -> 0 <= b < 2 ^ n -> 0 <= Z.lor a b < 2 ^ n.
Proof.
  intros Hn Ha Hb. split; [apply Z.lor_nonneg; lia|].
  destruct (Z.eq_dec a 0) as [->|Ha0]; [rewrite Z.lor_0_l; lia|].
  destruct (Z.eq_dec b 0) as [->|Hb0]; [rewrite Z.lor_0_r; lia|].
  assert (Hl : 0 < Z.lor a b).
  { assert (0 <= Z.lor a b) by (apply Z.lor_nonneg; lia).
    destruct (Z.eq_dec (Z.lor a b) 0) as [E|]; [|lia]. apply Z.lor_eq_0_l in E. lia. }
  apply Z.log2_lt_pow2; [assumption|]. rewrite Z.log2_lor by lia.
  apply Z.max_lub_lt; apply Z.log2_lt_pow2; lia.
Qed.

Lemma uvarint_go_range buf : forall i x s, 0 <= x < 2 ^ 64 -> 0 <= fst (uvarint_go buf i x s) < 2 ^ 64.
Proof.
  induction buf as [|b r IH]; intros i x s Hx; cbn [uvarint_go]; [cbn; lia|].
  destruct (i =? 10)%nat; [cbn; lia|].
  destruct (b <? 128).
  - destruct ((i =? 9)%nat && (1 <? b)); [cbn; lia|]. cbn [fst].
    apply lor_lt_pow2; [lia|assumption|apply wrapu_range; lia].
  - apply IH. apply lor_lt_pow2; [lia|assumption|apply wrapu_range; lia].
Qed.

Lemma uvarint_range buf : 0 <= fst (uvarint buf) < 2 ^ 64.
Proof. apply uvarint_go_range. lia. Qed.

Lemma unzigzag_range ux : 0 <= ux < 2 ^ 64 -> in_s 64 (unzigzag ux).
Proof.
  intros H. unfold unzigzag. rewrite shiftr_div by lia. change (2 ^ 1) with 2.
  assert (Hq : 0 <= ux / 2 < 2 ^ 63).
  { split; [apply Z.div_pos; lia|]. apply Z.div_lt_upper_bound; lia. }
  rewrite wraps_small by (try lia; unfold in_s; change (64 - 1) with 63; lia).
  unfold in_s. change (64 - 1) with 63. destruct (Z.land ux 1 =? 0); lia.
Qed.

Lemma varint_range buf : in_s 64 (fst (varint buf)).
Proof.
  unfold varint. pose proof (uvarint_range buf) as H. destruct (uvarint buf) as [ux n]. cbn [fst] in *.
  apply unzigzag_range. assumption.
Qed.
