(* Lists indexed by binary naturals: lengths, prefixes and suffixes counted in [N] so that
   models can run on frames of tens of kilobytes without unary numerals, together with the
   lemmas that bring them back to the standard [length]/[firstn]/[skipn]. *)
From Coq Require Import Arith NArith List Lia ZifyNat ZifyN.
Import ListNotations.
Open Scope N_scope.

Section NList.
Context {A : Type}.

Definition lenN (l : list A) : N := N.of_nat (length l).

Fixpoint takeN (n : N) (l : list A) : list A :=
  match l with
  | [] => []
  | x :: r => if n =? 0 then [] else x :: takeN (N.pred n) r
  end.

Fixpoint dropN (n : N) (l : list A) : list A :=
  match l with
  | [] => []
  | x :: r => if n =? 0 then l else dropN (N.pred n) r
  end.

(* buf[off:off+len v] = v  (Go: copy / PutUintNN into a sub-slice); off is a small literal *)
Definition put_at (off : nat) (v : list A) (buf : list A) : list A :=
  firstn off buf ++ v ++ skipn (off + length v) buf.

Lemma takeN_firstn n l : takeN n l = firstn (N.to_nat n) l.
Proof.
  revert n; induction l as [|x r IH]; intros n; cbn [takeN].
  - now rewrite firstn_nil.
  - destruct (N.eqb_spec n 0) as [->|Hn]; [reflexivity|].
    replace (N.to_nat n) with (S (N.to_nat (N.pred n))) by lia.
    cbn [firstn]. now rewrite IH.
Qed.

Lemma dropN_skipn n l : dropN n l = skipn (N.to_nat n) l.
Proof.
  revert n; induction l as [|x r IH]; intros n; cbn [dropN].
  - now rewrite skipn_nil.
  - destruct (N.eqb_spec n 0) as [->|Hn]; [reflexivity|].
    replace (N.to_nat n) with (S (N.to_nat (N.pred n))) by lia.
    cbn [skipn]. now rewrite IH.
Qed.

Lemma lenN_nil : lenN (@nil A) = 0.
Proof. reflexivity. Qed.

Lemma lenN_cons x l : lenN (x :: l) = 1 + lenN l.
Proof. unfold lenN; cbn [length]; lia. Qed.

Lemma lenN_app l1 l2 : lenN (l1 ++ l2) = lenN l1 + lenN l2.
Proof. unfold lenN; rewrite app_length; lia. Qed.

Lemma lenN_0 l : lenN l = 0 -> l = [].
Proof. unfold lenN; destruct l; cbn [length]; [reflexivity|lia]. Qed.

Lemma takeN_dropN n l : takeN n l ++ dropN n l = l.
Proof. rewrite takeN_firstn, dropN_skipn. apply firstn_skipn. Qed.

Lemma takeN_app_exact l1 l2 : takeN (lenN l1) (l1 ++ l2) = l1.
Proof.
  rewrite takeN_firstn. unfold lenN. rewrite Nat2N.id.
  rewrite firstn_app, Nat.sub_diag, firstn_all. cbn [firstn]. apply app_nil_r.
Qed.

Lemma dropN_app_exact l1 l2 : dropN (lenN l1) (l1 ++ l2) = l2.
Proof.
  rewrite dropN_skipn. unfold lenN. rewrite Nat2N.id.
  rewrite skipn_app, Nat.sub_diag, skipn_all. reflexivity.
Qed.

Lemma lenN_takeN n l : n <= lenN l -> lenN (takeN n l) = n.
Proof. intros H. rewrite takeN_firstn. unfold lenN in *. rewrite firstn_length. lia. Qed.

Lemma lenN_takeN_le n l : lenN (takeN n l) <= n.
Proof. rewrite takeN_firstn. unfold lenN. rewrite firstn_length. lia. Qed.

Lemma lenN_dropN n l : lenN (dropN n l) = lenN l - n.
Proof. rewrite dropN_skipn. unfold lenN. rewrite skipn_length. lia. Qed.

Lemma takeN_all n l : lenN l <= n -> takeN n l = l.
Proof. intros H. rewrite takeN_firstn. apply firstn_all2. unfold lenN in H. lia. Qed.

Lemma dropN_all n l : lenN l <= n -> dropN n l = [].
Proof. intros H. rewrite dropN_skipn. apply skipn_all2. unfold lenN in H. lia. Qed.

Lemma takeN_0 l : takeN 0 l = [].
Proof. destruct l; reflexivity. Qed.

Lemma dropN_0 l : dropN 0 l = l.
Proof. destruct l; reflexivity. Qed.

Lemma takeN_app_le n l1 l2 : n <= lenN l1 -> takeN n (l1 ++ l2) = takeN n l1.
Proof.
  intros H. rewrite !takeN_firstn, firstn_app. unfold lenN in H.
  replace (N.to_nat n - length l1)%nat with 0%nat by lia. cbn [firstn]. apply app_nil_r.
Qed.

Lemma dropN_app_le n l1 l2 : n <= lenN l1 -> dropN n (l1 ++ l2) = dropN n l1 ++ l2.
Proof.
  intros H. rewrite !dropN_skipn, skipn_app. unfold lenN in H.
  replace (N.to_nat n - length l1)%nat with 0%nat by lia. reflexivity.
Qed.

Lemma takeN_app_ge n l1 l2 : lenN l1 <= n -> takeN n (l1 ++ l2) = l1 ++ takeN (n - lenN l1) l2.
Proof.
  intros H. rewrite !takeN_firstn, firstn_app. unfold lenN in *.
  rewrite firstn_all2 by lia. f_equal. f_equal. lia.
Qed.

Lemma dropN_app_ge n l1 l2 : lenN l1 <= n -> dropN n (l1 ++ l2) = dropN (n - lenN l1) l2.
Proof.
  intros H. rewrite !dropN_skipn, skipn_app. unfold lenN in *.
  rewrite skipn_all2 by lia. cbn [app]. f_equal. lia.
Qed.

Lemma length_put_at off v buf :
  (off + length v <= length buf)%nat -> length (put_at off v buf) = length buf.
Proof.
  intros H. unfold put_at. rewrite !app_length, firstn_length, skipn_length. lia.
Qed.

End NList.

Lemma lenN_map {A B} (f : A -> B) l : lenN (map f l) = lenN l.
Proof. unfold lenN. now rewrite map_length. Qed.

Lemma lenN_repeat {A} (x : A) n : lenN (repeat x n) = N.of_nat n.
Proof. unfold lenN. now rewrite repeat_length. Qed.
