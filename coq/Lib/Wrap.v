(* Go's fixed-width integer conversions as arithmetic on Z:
     wrapu bits v  =  uintN(v)   (keep the low `bits` bits, read them as unsigned)
     wraps bits v  =  intN(v)    (keep the low `bits` bits, read them as two's complement)
   with the round-trip and range facts the models of the typed buffer (C19) and of packet
   bodies (C07) need. *)
From Coq Require Import ZArith Lia.
Open Scope Z_scope.

Definition wrapu (bits v : Z) : Z := v mod 2 ^ bits.
Definition wraps (bits v : Z) : Z := (v + 2 ^ (bits - 1)) mod 2 ^ bits - 2 ^ (bits - 1).

Definition in_u (bits v : Z) : Prop := 0 <= v < 2 ^ bits.
Definition in_s (bits v : Z) : Prop := - 2 ^ (bits - 1) <= v < 2 ^ (bits - 1).

Lemma pow2_pos k : 0 <= k -> 0 < 2 ^ k.
Proof. intros; apply Z.pow_pos_nonneg; lia. Qed.

Lemma pow2_half bits : 0 < bits -> 2 ^ bits = 2 * 2 ^ (bits - 1).
Proof. intros H. rewrite <- Z.pow_succ_r by lia. f_equal; lia. Qed.

Lemma wrapu_range bits v : 0 <= bits -> in_u bits (wrapu bits v).
Proof. intros H. unfold in_u, wrapu. apply Z.mod_pos_bound. apply pow2_pos; lia. Qed.

Lemma wraps_range bits v : 0 < bits -> in_s bits (wraps bits v).
Proof.
  intros H. unfold in_s, wraps.
  pose proof (Z.mod_pos_bound (v + 2 ^ (bits - 1)) (2 ^ bits) (pow2_pos bits ltac:(lia))).
  rewrite (pow2_half bits H) in *. lia.
Qed.

Lemma wrapu_small bits v : in_u bits v -> wrapu bits v = v.
Proof. unfold in_u, wrapu. intros; apply Z.mod_small; lia. Qed.

Lemma wraps_small bits v : 0 < bits -> in_s bits v -> wraps bits v = v.
Proof.
  unfold in_s, wraps. intros Hb H. rewrite Z.mod_small; [lia|].
  rewrite (pow2_half bits Hb). lia.
Qed.

(* intN(uintN(v)) = intN(v) and uintN(intN(v)) = uintN(v): both keep the same low bits *)
Lemma wraps_wrapu bits v : 0 < bits -> wraps bits (wrapu bits v) = wraps bits v.
Proof.
  intros Hb. unfold wraps, wrapu. f_equal.
  rewrite Zplus_mod_idemp_l. reflexivity.
Qed.

Lemma wrapu_wraps bits v : 0 < bits -> wrapu bits (wraps bits v) = wrapu bits v.
Proof.
  intros Hb. unfold wraps, wrapu.
  rewrite Zminus_mod_idemp_l. f_equal. lia.
Qed.

Lemma wrapu_idem bits v : 0 <= bits -> wrapu bits (wrapu bits v) = wrapu bits v.
Proof. intros. unfold wrapu. apply Z.mod_mod. pose proof (pow2_pos bits); lia. Qed.

(* a signed value survives the trip through its unsigned bit pattern *)
Lemma wraps_wrapu_small bits v : 0 < bits -> in_s bits v -> wraps bits (wrapu bits v) = v.
Proof. intros Hb H. rewrite wraps_wrapu by assumption. apply wraps_small; assumption. Qed.

(* an unsigned value survives the trip through its signed reading *)
Lemma wrapu_wraps_small bits v : 0 < bits -> in_u bits v -> wrapu bits (wraps bits v) = v.
Proof. intros Hb H. rewrite wrapu_wraps by assumption. apply wrapu_small; assumption. Qed.

(* narrowing after widening: uintM(uintN(v)) for M >= N *)
Lemma wrapu_wrapu_le m n v : 0 <= n <= m -> wrapu m (wrapu n v) = wrapu n v.
Proof.
  intros H. apply wrapu_small. pose proof (wrapu_range n v ltac:(lia)) as R. unfold in_u in *.
  assert (2 ^ n <= 2 ^ m) by (apply Z.pow_le_mono_r; lia). lia.
Qed.

(* two values with the same low bits wrap alike *)
Lemma wraps_eq_of_wrapu bits a b : 0 < bits -> wrapu bits a = wrapu bits b -> wraps bits a = wraps bits b.
Proof. intros Hb H. rewrite <- (wraps_wrapu bits a), <- (wraps_wrapu bits b) by assumption. now rewrite H. Qed.
