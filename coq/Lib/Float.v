(* IEEE-754 conversions on bit patterns (no Coq floats): what Go's float64(float32),
   float32(float64) on exactly representable values, float64(int64) and int64(float64) do, as
   executable functions on Z, with the facts C07 needs.

     widen32 b     float64(math.Float32frombits(b))   every 32-bit pattern.  A signalling NaN comes
                   out quiet (top mantissa bit set, payload kept) as CVTSS2SD / FCVT do.
     narrow64 w    float32(math.Float64frombits(w))   ONLY for doubles that are exactly
                   representable in float32 (otherwise the hardware rounds: not modelled).
     i2f v         float64(int64 v): round to nearest, ties to even (exact below 2^53).
     f2i w         int64(math.Float64frombits(w)): truncation; None where Go leaves the result
                   implementation-defined (NaN, infinities, magnitude >= 2^63 except -2^63). *)
From Coq Require Import ZArith Lia Bool.
Open Scope Z_scope.

Ltac Zify.zify_post_hook ::= Z.div_mod_to_equations.

Definition f32_sign (b : Z) : Z := b / 2 ^ 31.
Definition f32_exp (b : Z) : Z := (b / 2 ^ 23) mod 256.
Definition f32_man (b : Z) : Z := b mod 2 ^ 23.
Definition mk32 (s e m : Z) : Z := s * 2 ^ 31 + e * 2 ^ 23 + m.

Definition f64_sign (w : Z) : Z := w / 2 ^ 63.
Definition f64_exp (w : Z) : Z := (w / 2 ^ 52) mod 2048.
Definition f64_man (w : Z) : Z := w mod 2 ^ 52.
Definition mk64 (s e m : Z) : Z := s * 2 ^ 63 + e * 2 ^ 52 + m.

(* set the quiet bit (bit 22) of a float32 NaN mantissa *)
Definition quiet (m : Z) : Z := if m <? 2 ^ 22 then m + 2 ^ 22 else m.

Definition is_snan32 (b : Z) : bool :=
  (f32_exp b =? 255) && negb (f32_man b =? 0) && (f32_man b <? 2 ^ 22).

Definition widen32 (b : Z) : Z :=
  let s := f32_sign b in
  let e := f32_exp b in
  let m := f32_man b in
  if e =? 255 then
    (if m =? 0 then mk64 s 2047 0 else mk64 s 2047 (quiet m * 2 ^ 29))
  else if e =? 0 then
    (if m =? 0 then mk64 s 0 0
     else let k := Z.log2 m in                  (* subnormal: m * 2^-149 = 1.f * 2^(k-149) *)
          mk64 s (k + 874) ((m - 2 ^ k) * 2 ^ (52 - k)))
  else mk64 s (e + 896) (m * 2 ^ 29).

Definition narrow64 (w : Z) : Z :=
  let s := f64_sign w in
  let e := f64_exp w in
  let m := f64_man w in
  if e =? 2047 then mk32 s 255 (m / 2 ^ 29)
  else if e =? 0 then mk32 s 0 0
  else if 897 <=? e then mk32 s (e - 896) (m / 2 ^ 29)
  else let k := e - 874 in mk32 s 0 (2 ^ k + m / 2 ^ (52 - k)).

Definition i2f (v : Z) : Z :=
  if v =? 0 then 0
  else
    let s := if v <? 0 then 1 else 0 in
    let a := Z.abs v in
    let k := Z.log2 a in
    if k <=? 52 then mk64 s (k + 1023) ((a - 2 ^ k) * 2 ^ (52 - k))
    else
      let sh := k - 52 in
      let q := a / 2 ^ sh in
      let r := a mod 2 ^ sh in
      let half := 2 ^ (sh - 1) in
      let q' := if (half <? r) || ((r =? half) && Z.odd q) then q + 1 else q in
      (* q' - 2^52 = 2^52 carries into the exponent field, as it must *)
      s * 2 ^ 63 + (k + 1023) * 2 ^ 52 + (q' - 2 ^ 52).

Definition f2i (w : Z) : option Z :=
  let s := f64_sign w in
  let e := f64_exp w in
  let m := f64_man w in
  if e <? 1023 then Some 0
  else if e <? 1086 then
    let mag := if e <? 1075 then (2 ^ 52 + m) / 2 ^ (1075 - e) else (2 ^ 52 + m) * 2 ^ (e - 1075) in
    Some (if s =? 1 then - mag else mag)
  else if (s =? 1) && (e =? 1086) && (m =? 0) then Some (- 2 ^ 63)
  else None.

(* ------------------------------------------------------------------------------------------ *)

Lemma f32_fields b : 0 <= b < 2 ^ 32 ->
  0 <= f32_sign b <= 1 /\ 0 <= f32_exp b < 256 /\ 0 <= f32_man b < 2 ^ 23 /\
  b = mk32 (f32_sign b) (f32_exp b) (f32_man b).
Proof. unfold f32_sign, f32_exp, f32_man, mk32. intros H. lia. Qed.

Lemma mk32_fields s e m : 0 <= s <= 1 -> 0 <= e < 256 -> 0 <= m < 2 ^ 23 ->
  f32_sign (mk32 s e m) = s /\ f32_exp (mk32 s e m) = e /\ f32_man (mk32 s e m) = m.
Proof. unfold f32_sign, f32_exp, f32_man, mk32. intros Hs He Hm. lia. Qed.

Lemma mk64_fields s e m : 0 <= s <= 1 -> 0 <= e < 2048 -> 0 <= m < 2 ^ 52 ->
  f64_sign (mk64 s e m) = s /\ f64_exp (mk64 s e m) = e /\ f64_man (mk64 s e m) = m.
Proof. unfold f64_sign, f64_exp, f64_man, mk64. intros Hs He Hm. lia. Qed.

Lemma mk64_range s e m : 0 <= s <= 1 -> 0 <= e < 2048 -> 0 <= m < 2 ^ 52 -> 0 <= mk64 s e m < 2 ^ 64.
Proof. unfold mk64. intros. lia. Qed.

(* 2^k * 2^(n-k) = 2^n and the position of the leading bit *)
Lemma pow2_split n k : 0 <= k <= n -> 2 ^ k * 2 ^ (n - k) = 2 ^ n.
Proof. intros H. rewrite <- Z.pow_add_r by lia. f_equal. lia. Qed.

Lemma log2_bounds m n : 0 < m < 2 ^ n -> 0 < n ->
  0 <= Z.log2 m < n /\ 2 ^ Z.log2 m <= m < 2 * 2 ^ Z.log2 m.
Proof.
  intros Hm Hn. pose proof (Z.log2_spec m ltac:(lia)) as [L1 L2].
  rewrite Z.pow_succ_r in L2 by apply Z.log2_nonneg.
  split; [|lia]. split; [apply Z.log2_nonneg|]. apply Z.log2_lt_pow2; lia.
Qed.

(* the normalised mantissa of a number with leading bit k, placed in n fraction bits *)
Lemma norm_mantissa m k n : 0 <= k <= n -> 2 ^ k <= m < 2 * 2 ^ k ->
  0 <= (m - 2 ^ k) * 2 ^ (n - k) < 2 ^ n /\ (m - 2 ^ k) * 2 ^ (n - k) / 2 ^ (n - k) = m - 2 ^ k.
Proof.
  intros Hk Hm. pose proof (pow2_split n k Hk) as Hs.
  assert (Hp : 0 < 2 ^ k) by (apply Z.pow_pos_nonneg; lia).
  assert (Hq : 0 < 2 ^ (n - k)) by (apply Z.pow_pos_nonneg; lia).
  split; [|apply Z.div_mul; lia]. split; [apply Z.mul_nonneg_nonneg; lia|].
  rewrite <- Hs. apply Z.mul_lt_mono_pos_r; lia.
Qed.

Lemma quiet_range m : 0 < m < 2 ^ 23 -> 2 ^ 22 <= quiet m < 2 ^ 23.
Proof. intros H. unfold quiet. destruct (m <? 2 ^ 22) eqn:E; [apply Z.ltb_lt in E|apply Z.ltb_ge in E]; lia. Qed.

Lemma widen32_range b : 0 <= b < 2 ^ 32 -> 0 <= widen32 b < 2 ^ 64.
Proof.
  intros Hb. destruct (f32_fields b Hb) as (Hs & He & Hm & _). unfold widen32.
  destruct (f32_exp b =? 255) eqn:E255.
  - destruct (f32_man b =? 0) eqn:Em; [apply mk64_range; lia|]. apply Z.eqb_neq in Em.
    pose proof (quiet_range (f32_man b) ltac:(lia)). apply mk64_range; lia.
  - apply Z.eqb_neq in E255. destruct (f32_exp b =? 0) eqn:E0.
    + destruct (f32_man b =? 0) eqn:Em; [apply mk64_range; lia|]. apply Z.eqb_neq in Em.
      destruct (log2_bounds (f32_man b) 23 ltac:(lia) ltac:(lia)) as [Hk Hp].
      destruct (norm_mantissa (f32_man b) (Z.log2 (f32_man b)) 52 ltac:(lia) Hp) as [Hr _].
      apply mk64_range; lia.
    + apply Z.eqb_neq in E0. apply mk64_range; lia.
Qed.

(* narrowing the widened value gives the pattern back; a signalling NaN comes back quiet *)
Theorem narrow_widen b : 0 <= b < 2 ^ 32 ->
  narrow64 (widen32 b) = if is_snan32 b then b + 2 ^ 22 else b.
Proof.
  intros Hb. destruct (f32_fields b Hb) as (Hs & He & Hm & Hdec).
  unfold widen32, is_snan32.
  set (s := f32_sign b) in *. set (e := f32_exp b) in *. set (m := f32_man b) in *.
  destruct (e =? 255) eqn:E255.
  - apply Z.eqb_eq in E255. destruct (m =? 0) eqn:Em; cbn [andb negb].
    + apply Z.eqb_eq in Em. unfold narrow64.
      destruct (mk64_fields s 2047 0 Hs ltac:(lia) ltac:(lia)) as (F1 & F2 & F3). rewrite F1, F2, F3.
      change (2047 =? 2047) with true. cbv iota. clear F1 F2 F3. unfold mk32 in *. change (0 / 2 ^ 29) with 0. lia.
    + apply Z.eqb_neq in Em. pose proof (quiet_range m ltac:(lia)) as Hq. unfold narrow64.
      destruct (mk64_fields s 2047 (quiet m * 2 ^ 29) Hs ltac:(lia) ltac:(lia)) as (F1 & F2 & F3).
      rewrite F1, F2, F3. change (2047 =? 2047) with true. cbv iota.
      rewrite Z.div_mul by lia. clear F1 F2 F3 Hq. unfold quiet, mk32 in *.
      destruct (m <? 2 ^ 22); lia.
  - apply Z.eqb_neq in E255. cbn [andb]. destruct (e =? 0) eqn:E0.
    + apply Z.eqb_eq in E0. destruct (m =? 0) eqn:Em.
      * apply Z.eqb_eq in Em. unfold narrow64.
        destruct (mk64_fields s 0 0 Hs ltac:(lia) ltac:(lia)) as (F1 & F2 & F3). rewrite F1, F2, F3.
        change (0 =? 2047) with false. change (0 =? 0) with true. cbv iota.
        clear F1 F2 F3. unfold mk32 in *. lia.
      * apply Z.eqb_neq in Em.
        destruct (log2_bounds m 23 ltac:(lia) ltac:(lia)) as [Hk Hp]. set (k := Z.log2 m) in *.
        destruct (norm_mantissa m k 52 ltac:(lia) Hp) as [Hr Hd]. unfold narrow64.
        destruct (mk64_fields s (k + 874) ((m - 2 ^ k) * 2 ^ (52 - k)) Hs ltac:(lia) Hr) as (F1 & F2 & F3).
        rewrite F1, F2, F3.
        replace (k + 874 =? 2047) with false by (symmetry; apply Z.eqb_neq; lia).
        replace (k + 874 =? 0) with false by (symmetry; apply Z.eqb_neq; lia).
        replace (897 <=? k + 874) with false by (symmetry; apply Z.leb_gt; lia).
        cbv zeta. replace (k + 874 - 874) with k by lia. rewrite Hd.
        clear F1 F2 F3 Hd Hr. unfold mk32 in *. lia.
    + apply Z.eqb_neq in E0. unfold narrow64.
      destruct (mk64_fields s (e + 896) (m * 2 ^ 29) Hs ltac:(lia) ltac:(lia)) as (F1 & F2 & F3).
      rewrite F1, F2, F3.
      replace (e + 896 =? 2047) with false by (symmetry; apply Z.eqb_neq; lia).
      replace (e + 896 =? 0) with false by (symmetry; apply Z.eqb_neq; lia).
      replace (897 <=? e + 896) with true by (symmetry; apply Z.leb_le; lia).
      rewrite Z.div_mul by lia. replace (e + 896 - 896) with e by lia. symmetry. exact Hdec.
Qed.

(* hence widening loses nothing except the signalling mark of a NaN *)
Theorem widen32_injective a b : 0 <= a < 2 ^ 32 -> 0 <= b < 2 ^ 32 ->
  is_snan32 a = false -> is_snan32 b = false -> widen32 a = widen32 b -> a = b.
Proof.
  intros Ha Hb Sa Sb H. pose proof (narrow_widen a Ha) as Na. pose proof (narrow_widen b Hb) as Nb.
  rewrite Sa in Na. rewrite Sb in Nb. congruence.
Qed.

(* int64 -> float64 is exact below 2^53: significand * 2^(exponent - 1075) is |v| *)
Theorem i2f_exact v : v <> 0 -> Z.abs v < 2 ^ 53 ->
  let w := i2f v in
  0 <= w < 2 ^ 64 /\ f64_sign w = (if v <? 0 then 1 else 0) /\ 1023 <= f64_exp w <= 1075 /\
  2 ^ 52 + f64_man w = Z.abs v * 2 ^ (1075 - f64_exp w).
Proof.
  intros Hv Ha. cbv zeta. unfold i2f. replace (v =? 0) with false by (symmetry; apply Z.eqb_neq; lia).
  set (s := if v <? 0 then 1 else 0). assert (Hs : 0 <= s <= 1) by (unfold s; destruct (v <? 0); lia).
  set (a := Z.abs v) in *. assert (Hpos : 0 < a) by (unfold a; lia).
  destruct (log2_bounds a 53 ltac:(lia) ltac:(lia)) as [Hk Hp]. set (k := Z.log2 a) in *.
  replace (k <=? 52) with true by (symmetry; apply Z.leb_le; lia).
  destruct (norm_mantissa a k 52 ltac:(lia) Hp) as [Hr Hd].
  destruct (mk64_fields s (k + 1023) ((a - 2 ^ k) * 2 ^ (52 - k)) Hs ltac:(lia) Hr) as (F1 & F2 & F3).
  rewrite F1, F2, F3. split; [apply mk64_range; lia|]. split; [reflexivity|]. split; [lia|].
  replace (1075 - (k + 1023)) with (52 - k) by lia.
  pose proof (pow2_split 52 k ltac:(lia)) as Hs52. lia.
Qed.

(* ... and converting back truncates to the same integer *)
Theorem f2i_i2f v : Z.abs v < 2 ^ 53 -> f2i (i2f v) = Some v.
Proof.
  intros Ha. destruct (Z.eq_dec v 0) as [->|Hv]; [reflexivity|].
  destruct (i2f_exact v Hv Ha) as (_ & Hsg & He & Hm). cbv zeta in *. unfold f2i.
  set (w := i2f v) in *.
  replace (f64_exp w <? 1023) with false by (symmetry; apply Z.ltb_ge; lia).
  replace (f64_exp w <? 1086) with true by (symmetry; apply Z.ltb_lt; lia).
  assert (Hmag : (if f64_exp w <? 1075 then (2 ^ 52 + f64_man w) / 2 ^ (1075 - f64_exp w)
                  else (2 ^ 52 + f64_man w) * 2 ^ (f64_exp w - 1075)) = Z.abs v).
  { destruct (f64_exp w <? 1075) eqn:E; [apply Z.ltb_lt in E|apply Z.ltb_ge in E].
    - rewrite Hm. apply Z.div_mul. apply Z.pow_nonzero; lia.
    - replace (f64_exp w) with 1075 in * by lia. change (2 ^ (1075 - 1075)) with 1 in *. lia. }
  rewrite Hmag, Hsg. f_equal. destruct (v <? 0) eqn:E; [apply Z.ltb_lt in E|apply Z.ltb_ge in E].
  - change (1 =? 1) with true. cbv iota. lia.
  - change (0 =? 1) with false. cbv iota. lia.
Qed.
