(* Decimal text of 64-bit signed integers over byte strings (lists of character codes):
     format_int z    strconv.FormatInt(z, 10)
     parse_int s     strconv.ParseInt(s, 10, 64); None = any error (syntax or range)
   and the round trip parse_int (format_int z) = Some z for every int64. *)
From Coq Require Import ZArith List Lia Bool.
Import ListNotations.
Open Scope Z_scope.

Definition is_digit (c : Z) : bool := (48 <=? c) && (c <=? 57).

(* digits of n >= 0, most significant first, pushed in front of acc; fuel bounds the count *)
Fixpoint dec_pos (fuel : nat) (n : Z) (acc : list Z) : list Z :=
  match fuel with
  | O => acc
  | S f => let acc' := (48 + n mod 10) :: acc in
           if n <? 10 then acc' else dec_pos f (n / 10) acc'
  end.

(* 20 digits cover every magnitude up to 2^64 *)
Definition format_uint (n : Z) : list Z := dec_pos 20 n [].
Definition format_int (z : Z) : list Z := if z <? 0 then 45 :: format_uint (- z) else format_uint z.

Fixpoint parse_digits (acc : Z) (s : list Z) : option Z :=
  match s with
  | [] => Some acc
  | c :: r => if is_digit c then parse_digits (acc * 10 + (c - 48)) r else None
  end.

(* ParseInt(s, 10, 64): optional sign, at least one digit, digits only (underscores are accepted
   for base 0 only), magnitude below 2^63 (2^63 itself allowed for negative numbers) *)
Definition parse_int (s : list Z) : option Z :=
  let '(neg, ds) := match s with
                    | c :: r => if c =? 45 then (true, r) else if c =? 43 then (false, r) else (false, s)
                    | [] => (false, s)
                    end in
  match ds with
  | [] => None
  | _ => match parse_digits 0 ds with
         | None => None
         | Some m => if neg then (if m <=? 2 ^ 63 then Some (- m) else None)
                     else (if m <? 2 ^ 63 then Some m else None)
         end
  end.

(* ------------------------------------------------------------------------------------ *)

Lemma parse_digits_app a x y :
  parse_digits a (x ++ y) = match parse_digits a x with Some v => parse_digits v y | None => None end.
Proof.
  revert a; induction x as [|c x IH]; intros a; cbn [app parse_digits]; [reflexivity|].
  destruct (is_digit c); [apply IH|reflexivity].
Qed.

Lemma is_digit_code d : 0 <= d < 10 -> is_digit (48 + d) = true.
Proof. intros H. unfold is_digit. apply andb_true_iff; split; apply Z.leb_le; lia. Qed.

(* what dec_pos produces: a non-empty block of digits that parses to n, in front of acc *)
Lemma dec_pos_spec f : forall n acc, 0 <= n < 10 ^ Z.of_nat f -> (0 < f)%nat ->
  exists ds, dec_pos f n acc = ds ++ acc /\ ds <> [] /\ forallb is_digit ds = true /\
             (forall a, parse_digits a ds = Some (a * 10 ^ Z.of_nat (length ds) + n)).
Proof.
  induction f as [|f IH]; intros n acc Hn Hf; [lia|].
  cbn [dec_pos]. pose proof (Z.mod_pos_bound n 10 ltac:(lia)) as Hm.
  destruct (n <? 10) eqn:E.
  - apply Z.ltb_lt in E. exists [48 + n mod 10]. repeat split.
    + discriminate.
    + cbn [forallb]. rewrite is_digit_code by lia. reflexivity.
    + intros a. cbn [parse_digits length]. rewrite is_digit_code by lia.
      rewrite Z.mod_small by lia. f_equal. change (10 ^ Z.of_nat 1) with 10. lia.
  - apply Z.ltb_ge in E.
    assert (Hf' : (0 < f)%nat).
    { destruct f; [|lia]. change (10 ^ Z.of_nat 1) with 10 in Hn. lia. }
    assert (Hq : 0 <= n / 10 < 10 ^ Z.of_nat f).
    { split; [apply Z.div_pos; lia|]. apply Z.div_lt_upper_bound; [lia|].
      rewrite Nat2Z.inj_succ, Z.pow_succ_r in Hn by lia. lia. }
    destruct (IH (n / 10) ((48 + n mod 10) :: acc) Hq Hf') as (ds & Heq & Hne & Hall & Hp).
    exists (ds ++ [48 + n mod 10]). repeat split.
    + rewrite Heq, <- app_assoc. reflexivity.
    + destruct ds; discriminate.
    + rewrite forallb_app, Hall. cbn [forallb]. rewrite is_digit_code by lia. reflexivity.
    + intros a. rewrite parse_digits_app, Hp. cbn [parse_digits]. rewrite is_digit_code by lia.
      f_equal. rewrite app_length. cbn [length]. rewrite Nat.add_1_r, Nat2Z.inj_succ, Z.pow_succ_r by lia.
      pose proof (Z.div_mod n 10 ltac:(lia)). lia.
Qed.

Lemma format_uint_spec n : 0 <= n <= 2 ^ 64 ->
  format_uint n <> [] /\ forallb is_digit (format_uint n) = true /\
  parse_digits 0 (format_uint n) = Some n.
Proof.
  intros H. unfold format_uint.
  assert (Hb : 0 <= n < 10 ^ Z.of_nat 20) by (change (10 ^ Z.of_nat 20) with 100000000000000000000; lia).
  assert (H20 : (0 < 20)%nat) by lia.
  destruct (dec_pos_spec 20 n [] Hb H20) as (ds & Heq & Hne & Hall & Hp).
  rewrite Heq, app_nil_r. repeat split; [assumption|assumption|]. rewrite Hp; f_equal; lia.
Qed.

(* a block of digits does not start with a sign *)
Lemma digits_head ds : ds <> [] -> forallb is_digit ds = true ->
  exists c r, ds = c :: r /\ c <> 45 /\ c <> 43.
Proof.
  destruct ds as [|c r]; [congruence|]. intros _ H. cbn [forallb] in H. apply andb_true_iff in H as [H _].
  unfold is_digit in H. apply andb_true_iff in H as [H1 H2]. apply Z.leb_le in H1. exists c, r.
  repeat split; lia.
Qed.

Theorem parse_format_int z : - 2 ^ 63 <= z < 2 ^ 63 -> parse_int (format_int z) = Some z.
Proof.
  intros H. unfold format_int. destruct (z <? 0) eqn:E.
  - apply Z.ltb_lt in E. destruct (format_uint_spec (- z) ltac:(lia)) as (Hne & Hall & Hp).
    unfold parse_int. change (45 =? 45) with true. cbv iota.
    destruct (format_uint (- z)) as [|c r] eqn:Ef; [congruence|].
    rewrite Hp. replace (- z <=? 2 ^ 63) with true by (symmetry; apply Z.leb_le; lia).
    f_equal. lia.
  - apply Z.ltb_ge in E. destruct (format_uint_spec z ltac:(lia)) as (Hne & Hall & Hp).
    destruct (digits_head _ Hne Hall) as (c & r & Heq & H45 & H43).
    unfold parse_int. rewrite Heq in *.
    replace (c =? 45) with false by (symmetry; apply Z.eqb_neq; assumption).
    replace (c =? 43) with false by (symmetry; apply Z.eqb_neq; assumption).
    rewrite Hp. replace (z <? 2 ^ 63) with true by (symmetry; apply Z.ltb_lt; lia). reflexivity.
Qed.

Lemma format_int_nonempty z : - 2 ^ 63 <= z < 2 ^ 63 -> format_int z <> [].
Proof.
  intros H. unfold format_int. destruct (z <? 0) eqn:E; [discriminate|].
  apply Z.ltb_ge in E. apply (format_uint_spec z). lia.
Qed.
