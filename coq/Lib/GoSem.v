(* Run-time semantics shared by the definitions tools/gofunc generates from Go source
   (coq/Generated/*.v).  Part of the trusted base of every cNN_src_* theorem: it fixes what a
   Go panic, a slice index, a division, a shift count and a `for` loop mean in Gallina.

     outcome A      result of a Go function that can panic or loop:
                      Ok a        it returned a
                      Panic       a run-time panic (index out of range, division by zero,
                                  negative shift count, explicit panic(...))
                      OutOfFuel   a loop ran for more iterations than the fuel given
     go_index l i   l[i] of a slice/string held as list Z
     go_slice_from  l[i:]
     go_quot/go_rem integer / and % (truncated, as in Go); Panic when the divisor is 0
     go_shift_count a signed shift count: Panic when negative
     frag W V       result of a fragment of a function body (Returned k w | Reached v)
     go_loop        `for` with explicit fuel: the loop body is a function from the loop state
                    (the variables the loop assigns) to
                      Next s   go round again with state s
                      Done s   the loop is left (condition false, or break) with state s
                      Ret r    the enclosing function returns r from inside the loop
   Below the definitions: the proof rules used by the Source.v files. *)
From Coq Require Import ZArith List Bool Lia.
Import ListNotations.
Open Scope Z_scope.

Inductive outcome (A : Type) : Type :=
| Ok (a : A)
| Panic
| OutOfFuel.
Arguments Ok {A} a.
Arguments Panic {A}.
Arguments OutOfFuel {A}.

Definition bind {A B : Type} (o : outcome A) (f : A -> outcome B) : outcome B :=
  match o with
  | Ok a => f a
  | Panic => Panic
  | OutOfFuel => OutOfFuel
  end.

Definition go_len (l : list Z) : Z := Z.of_nat (length l).

Definition go_index (l : list Z) (i : Z) : outcome Z :=
  if (0 <=? i) && (i <? go_len l) then Ok (nth (Z.to_nat i) l 0) else Panic.

Definition go_slice_from (l : list Z) (i : Z) : outcome (list Z) :=
  if (0 <=? i) && (i <=? go_len l) then Ok (skipn (Z.to_nat i) l) else Panic.

Definition go_quot (a b : Z) : outcome Z := if b =? 0 then Panic else Ok (Z.quot a b).
Definition go_rem (a b : Z) : outcome Z := if b =? 0 then Panic else Ok (Z.rem a b).
Definition go_shift_count (n : Z) : outcome Z := if n <? 0 then Panic else Ok n.

Inductive step (St R : Type) : Type :=
| Next (s : St)
| Done (s : St)
| Ret (r : R).
Arguments Next {St R} s.
Arguments Done {St R} s.
Arguments Ret {St R} r.

Fixpoint go_loop {St R : Type} (fuel : nat) (body : St -> outcome (step St R)) (s : St)
  : outcome (St + R) :=
  match fuel with
  | O => OutOfFuel
  | S f =>
      match body s with
      | Ok (Next s') => go_loop f body s'
      | Ok (Done s') => Ok (inl s')
      | Ok (Ret r) => Ok (inr r)
      | Panic => Panic
      | OutOfFuel => OutOfFuel
      end
  end.

(* result of a fragment (tools/gofunc "F#prefix": the first statements of a function body) *)
Inductive frag (W V : Type) : Type :=
| Returned (k : Z) (w : W)   (* the k-th return statement of the function was reached; w = the fields assigned so far *)
| Reached (v : V).           (* control reaches the statement after the fragment, with variables v *)
Arguments Returned {W V} k w.
Arguments Reached {W V} v.

(* boolean equality of results (used by the differential validation of the translator) *)
Fixpoint list_eqb (a b : list Z) : bool :=
  match a, b with
  | [], [] => true
  | x :: a', y :: b' => (x =? y) && list_eqb a' b'
  | _, _ => false
  end.

Definition outcome_eqb {A : Type} (eq : A -> A -> bool) (a b : outcome A) : bool :=
  match a, b with
  | Ok x, Ok y => eq x y
  | Panic, Panic => true
  | OutOfFuel, OutOfFuel => true
  | _, _ => false
  end.

Definition prod_eqb {A B : Type} (ea : A -> A -> bool) (eb : B -> B -> bool) (a b : A * B) : bool :=
  ea (fst a) (fst b) && eb (snd a) (snd b).

(* ------------------------------------------------------------------ proof rules *)

Lemma bind_ok {A B} (o : outcome A) (f : A -> outcome B) b :
  bind o f = Ok b -> exists a, o = Ok a /\ f a = Ok b.
Proof. destruct o; cbn; intros H; try discriminate. eauto. Qed.

Lemma go_index_ok l i : 0 <= i < go_len l -> go_index l i = Ok (nth (Z.to_nat i) l 0).
Proof.
  intros H. unfold go_index.
  destruct (Z.leb_spec 0 i); [|lia]. destruct (Z.ltb_spec i (go_len l)); [|lia]. reflexivity.
Qed.

Lemma go_index_panic l i : ~ (0 <= i < go_len l) -> go_index l i = Panic.
Proof.
  intros H. unfold go_index.
  destruct (Z.leb_spec 0 i); destruct (Z.ltb_spec i (go_len l)); cbn; try reflexivity. lia.
Qed.

Lemma go_slice_from_ok l i : 0 <= i <= go_len l -> go_slice_from l i = Ok (skipn (Z.to_nat i) l).
Proof.
  intros H. unfold go_slice_from.
  destruct (Z.leb_spec 0 i); [|lia]. destruct (Z.leb_spec i (go_len l)); [|lia]. reflexivity.
Qed.

Lemma go_quot_ok a b : b <> 0 -> go_quot a b = Ok (Z.quot a b).
Proof. intros H. unfold go_quot. destruct (Z.eqb_spec b 0); [contradiction|reflexivity]. Qed.

Lemma go_rem_ok a b : b <> 0 -> go_rem a b = Ok (Z.rem a b).
Proof. intros H. unfold go_rem. destruct (Z.eqb_spec b 0); [contradiction|reflexivity]. Qed.

Lemma go_shift_count_ok n : 0 <= n -> go_shift_count n = Ok n.
Proof. intros H. unfold go_shift_count. destruct (Z.ltb_spec n 0); [lia|reflexivity]. Qed.

(* one unfolding of the loop *)
Lemma go_loop_S {St R} fuel (body : St -> outcome (step St R)) s :
  go_loop (S fuel) body s =
  match body s with
  | Ok (Next s') => go_loop fuel body s'
  | Ok (Done s') => Ok (inl s')
  | Ok (Ret r) => Ok (inr r)
  | Panic => Panic
  | OutOfFuel => OutOfFuel
  end.
Proof. reflexivity. Qed.

(* more fuel does not change a loop that came to an end (normally, by return or by panic) *)
Lemma go_loop_more_fuel {St R} (body : St -> outcome (step St R)) fuel :
  forall s r, go_loop fuel body s = r -> r <> OutOfFuel ->
  forall fuel', (fuel <= fuel')%nat -> go_loop fuel' body s = r.
Proof.
  induction fuel as [|f IH]; intros s r H Hr fuel' Hle.
  - cbn in H. congruence.
  - destruct fuel' as [|f']; [lia|].
    cbn in H |- *.
    destruct (body s) as [[s'|s'|x]| |]; try assumption.
    apply IH; try assumption. lia.
Qed.

(* total correctness: an invariant I kept by every iteration, a measure m that decreases,
   every exit satisfying Q; with more fuel than the measure the loop ends in Ok *)
Lemma go_loop_rule {St R} (body : St -> outcome (step St R))
      (I : St -> Prop) (m : St -> nat) (Q : St + R -> Prop) :
  (forall s, I s ->
     match body s with
     | Ok (Next s') => I s' /\ (m s' < m s)%nat
     | Ok (Done s') => Q (inl s')
     | Ok (Ret r) => Q (inr r)
     | Panic => False
     | OutOfFuel => False
     end) ->
  forall fuel s, I s -> (m s < fuel)%nat -> exists r, go_loop fuel body s = Ok r /\ Q r.
Proof.
  intros Hstep fuel. induction fuel as [|f IH]; intros s Hi Hm; [lia|].
  cbn. specialize (Hstep s Hi).
  destruct (body s) as [[s'|s'|x]| |]; try contradiction.
  - destruct Hstep as [Hi' Hlt]. apply IH; [assumption|lia].
  - eauto.
  - eauto.
Qed.
