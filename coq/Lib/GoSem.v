(* Run-time semantics shared by the definitions tools/gofunc generates from Go source
   (coq/Generated/*.v).  Part of the trusted base of every cNN_src_* theorem: it fixes what a
   Go panic, a slice index, a division, a shift count and a `for` loop mean in Gallina.

     outcome A      result of a Go function that can panic or loop:
                      Ok a        it returned a
                      Panic       a run-time panic (index out of range, division by zero,
                                  negative shift count, explicit panic(...))
                      OutOfFuel   a loop ran for more iterations than the fuel given
     go_index l i   l[i] of a slice/string held as list Z
     go_slice_from  l[i:]
     go_update l i v  l[i] = v;  go_slice l i j  l[i:j];  go_copy, go_make, go_splice, go_zeros
     go_buf_*       the methods of bytes.Buffer on the list of its unread bytes
     go_quot/go_rem integer / and % (truncated, as in Go); Panic when the divisor is 0
     go_shift_count a signed shift count: Panic when negative
     frag W V       result of a fragment of a function body (Returned k w | Reached v)
     go_loop        `for` with explicit fuel: the loop body is a function from the loop state
                    (the variables the loop assigns) to
                      Next s   go round again with state s
                      Done s   the loop is left (condition false, or break) with state s
                      Ret r    the enclosing function returns r from inside the loop
   Below the definitions: the proof rules used by the Source.v files. *)
From Coq Require Import ZArith List Bool Lia.
Import ListNotations.
Open Scope Z_scope.

Inductive outcome (A : Type) : Type :=
| Ok (a : A)
| Panic
| OutOfFuel.
Arguments Ok {A} a.
Arguments Panic {A}.
Arguments OutOfFuel {A}.

Definition bind {A B : Type} (o : outcome A) (f : A -> outcome B) : outcome B :=
  match o with
  | Ok a => f a
  | Panic => Panic
  | OutOfFuel => OutOfFuel
  end.

Definition go_len (l : list Z) : Z := Z.of_nat (length l).

Definition go_index (l : list Z) (i : Z) : outcome Z :=
  if (0 <=? i) && (i <? go_len l) then Ok (nth (Z.to_nat i) l 0) else Panic.

Definition go_slice_from (l : list Z) (i : Z) : outcome (list Z) :=
  if (0 <=? i) && (i <=? go_len l) then Ok (skipn (Z.to_nat i) l) else Panic.

Definition go_quot (a b : Z) : outcome Z := if b =? 0 then Panic else Ok (Z.quot a b).
Definition go_rem (a b : Z) : outcome Z := if b =? 0 then Panic else Ok (Z.rem a b).
Definition go_shift_count (n : Z) : outcome Z := if n <? 0 then Panic else Ok n.

Inductive step (St R : Type) : Type :=
| Next (s : St)
| Done (s : St)
| Ret (r : R).
Arguments Next {St R} s.
Arguments Done {St R} s.
Arguments Ret {St R} r.

Fixpoint go_loop {St R : Type} (fuel : nat) (body : St -> outcome (step St R)) (s : St)
  : outcome (St + R) :=
  match fuel with
  | O => OutOfFuel
  | S f =>
      match body s with
      | Ok (Next s') => go_loop f body s'
      | Ok (Done s') => Ok (inl s')
      | Ok (Ret r) => Ok (inr r)
      | Panic => Panic
      | OutOfFuel => OutOfFuel
      end
  end.

(* ---- memory: a slice / array is the list of its elements (aliasing is excluded by the
   translator, see the RULES in tools/gofunc/main.go) *)
Definition go_zeros (n : Z) : list Z := repeat 0 (Z.to_nat n).

(* make([]T, n) *)
Definition go_make (n : Z) : outcome (list Z) := if n <? 0 then Panic else Ok (go_zeros n).

Fixpoint list_upd (l : list Z) (k : nat) (v : Z) : list Z :=
  match l, k with
  | [], _ => []
  | _ :: r, O => v :: r
  | y :: r, S k' => y :: list_upd r k' v
  end.

(* s[i] = v *)
Definition go_update (l : list Z) (i v : Z) : outcome (list Z) :=
  if (0 <=? i) && (i <? go_len l) then Ok (list_upd l (Z.to_nat i) v) else Panic.

(* s[i:j]; beyond len s the result would depend on cap s, which a list does not record: Panic *)
Definition go_slice (l : list Z) (i j : Z) : outcome (list Z) :=
  if (0 <=? i) && (i <=? j) && (j <=? go_len l)
  then Ok (firstn (Z.to_nat (j - i)) (skipn (Z.to_nat i) l)) else Panic.

(* the window starting at i of l replaced by w (w has the length of the window) *)
Definition go_splice (l : list Z) (i : Z) (w : list Z) : list Z :=
  firstn (Z.to_nat i) l ++ w ++ skipn (Z.to_nat i + length w) l.

(* copy(dst, src): the new dst and the number of elements copied *)
Definition go_copy (dst src : list Z) : list Z * Z :=
  let n := Nat.min (length dst) (length src) in
  (firstn n src ++ skipn n dst, Z.of_nat n).

(* ---- bytes.Buffer as the list of its unread bytes (documented behaviour of the standard
   library type; results in the order: Go results, new buffer, new contents of p).
   eof = the code of io.EOF. *)
Definition go_buf_write (b p : list Z) : Z * Z * list Z := (go_len p, 0, b ++ p).
Definition go_buf_write_byte (b : list Z) (c : Z) : Z * list Z := (0, b ++ [c]).
Definition go_buf_read (eof : Z) (b p : list Z) : Z * Z * list Z * list Z :=
  match b, p with
  | [], _ :: _ => (0, eof, b, p)
  | _, _ => let '(p', n) := go_copy p b in (n, 0, skipn (Z.to_nat n) b, p')
  end.
Definition go_buf_read_byte (eof : Z) (b : list Z) : Z * Z * list Z :=
  match b with
  | [] => (0, eof, b)
  | c :: r => (c, 0, r)
  end.
Definition go_buf_bytes (b : list Z) : list Z := b.

(* result of a fragment (tools/gofunc "F#prefix": the first statements of a function body) *)
Inductive frag (W V : Type) : Type :=
| Returned (k : Z) (w : W)   (* the k-th return statement of the function was reached; w = the fields assigned so far *)
| Reached (v : V).           (* control reaches the statement after the fragment, with variables v *)
Arguments Returned {W V} k w.
Arguments Reached {W V} v.

(* boolean equality of results (used by the differential validation of the translator) *)
Fixpoint list_eqb (a b : list Z) : bool :=
  match a, b with
  | [], [] => true
  | x :: a', y :: b' => (x =? y) && list_eqb a' b'
  | _, _ => false
  end.

Definition outcome_eqb {A : Type} (eq : A -> A -> bool) (a b : outcome A) : bool :=
  match a, b with
  | Ok x, Ok y => eq x y
  | Panic, Panic => true
  | OutOfFuel, OutOfFuel => true
  | _, _ => false
  end.

Definition prod_eqb {A B : Type} (ea : A -> A -> bool) (eb : B -> B -> bool) (a b : A * B) : bool :=
  ea (fst a) (fst b) && eb (snd a) (snd b).

(* ------------------------------------------------------------------ proof rules *)

Lemma bind_ok {A B} (o : outcome A) (f : A -> outcome B) b :
  bind o f = Ok b -> exists a, o = Ok a /\ f a = Ok b.
Proof. destruct o; cbn; intros H; try discriminate. eauto. Qed.

Lemma go_index_ok l i : 0 <= i < go_len l -> go_index l i = Ok (nth (Z.to_nat i) l 0).
Proof.
  intros H. unfold go_index.
  destruct (Z.leb_spec 0 i); [|lia]. destruct (Z.ltb_spec i (go_len l)); [|lia]. reflexivity.
Qed.

Lemma go_index_panic l i : ~ (0 <= i < go_len l) -> go_index l i = Panic.
Proof.
  intros H. unfold go_index.
  destruct (Z.leb_spec 0 i); destruct (Z.ltb_spec i (go_len l)); cbn; try reflexivity. lia.
Qed.

Lemma go_slice_from_ok l i : 0 <= i <= go_len l -> go_slice_from l i = Ok (skipn (Z.to_nat i) l).
Proof.
  intros H. unfold go_slice_from.
  destruct (Z.leb_spec 0 i); [|lia]. destruct (Z.leb_spec i (go_len l)); [|lia]. reflexivity.
Qed.

Lemma go_quot_ok a b : b <> 0 -> go_quot a b = Ok (Z.quot a b).
Proof. intros H. unfold go_quot. destruct (Z.eqb_spec b 0); [contradiction|reflexivity]. Qed.

Lemma go_rem_ok a b : b <> 0 -> go_rem a b = Ok (Z.rem a b).
Proof. intros H. unfold go_rem. destruct (Z.eqb_spec b 0); [contradiction|reflexivity]. Qed.

Lemma go_shift_count_ok n : 0 <= n -> go_shift_count n = Ok n.
Proof. intros H. unfold go_shift_count. destruct (Z.ltb_spec n 0); [lia|reflexivity]. Qed.

(* one unfolding of the loop *)
Lemma go_loop_S {St R} fuel (body : St -> outcome (step St R)) s :
  go_loop (S fuel) body s =
  match body s with
  | Ok (Next s') => go_loop fuel body s'
  | Ok (Done s') => Ok (inl s')
  | Ok (Ret r) => Ok (inr r)
  | Panic => Panic
  | OutOfFuel => OutOfFuel
  end.
Proof. reflexivity. Qed.

(* more fuel does not change a loop that came to an end (normally, by return or by panic) *)
Lemma go_loop_more_fuel {St R} (body : St -> outcome (step St R)) fuel :
  forall s r, go_loop fuel body s = r -> r <> OutOfFuel ->
  forall fuel', (fuel <= fuel')%nat -> go_loop fuel' body s = r.
Proof.
  induction fuel as [|f IH]; intros s r H Hr fuel' Hle.
  - cbn in H. congruence.
  - destruct fuel' as [|f']; [lia|].
    cbn in H |- *.
    destruct (body s) as [[s'|s'|x]| |]; try assumption.
    apply IH; try assumption. lia.
Qed.

(* total correctness: an invariant I kept by every iteration, a measure m that decreases,
   every exit satisfying Q; with more fuel than the measure the loop ends in Ok *)
Lemma go_loop_rule {St R} (body : St -> outcome (step St R))
      (I : St -> Prop) (m : St -> nat) (Q : St + R -> Prop) :
  (forall s, I s ->
     match body s with
     | Ok (Next s') => I s' /\ (m s' < m s)%nat
     | Ok (Done s') => Q (inl s')
     | Ok (Ret r) => Q (inr r)
     | Panic => False
     | OutOfFuel => False
     end) ->
  forall fuel s, I s -> (m s < fuel)%nat -> exists r, go_loop fuel body s = Ok r /\ Q r.
Proof.
  intros Hstep fuel. induction fuel as [|f IH]; intros s Hi Hm; [lia|].
  cbn. specialize (Hstep s Hi).
  destruct (body s) as [[s'|s'|x]| |]; try contradiction.
  - destruct Hstep as [Hi' Hlt]. apply IH; [assumption|lia].
  - eauto.
  - eauto.
Qed.

(* ---- memory lemmas *)
Lemma list_upd_length l k v : length (list_upd l k v) = length l.
Proof. revert k. induction l as [|x l IH]; intros [|k]; cbn; try reflexivity. f_equal. apply IH. Qed.

Lemma nth_list_upd_same l k v d : (k < length l)%nat -> nth k (list_upd l k v) d = v.
Proof. revert k. induction l as [|x l IH]; intros [|k] H; cbn in *; try lia; try reflexivity. apply IH. lia. Qed.

Lemma nth_list_upd_other l k j v d : j <> k -> nth j (list_upd l k v) d = nth j l d.
Proof.
  revert k j. induction l as [|x l IH]; intros [|k] [|j] H; cbn; try reflexivity; try congruence.
  apply IH. congruence.
Qed.

Lemma go_update_ok l i v : 0 <= i < go_len l -> go_update l i v = Ok (list_upd l (Z.to_nat i) v).
Proof.
  intros H. unfold go_update.
  destruct (Z.leb_spec 0 i); [|lia]. destruct (Z.ltb_spec i (go_len l)); [|lia]. reflexivity.
Qed.

Lemma go_slice_ok l i j : 0 <= i <= j -> j <= go_len l ->
  go_slice l i j = Ok (firstn (Z.to_nat (j - i)) (skipn (Z.to_nat i) l)).
Proof.
  intros H1 H2. unfold go_slice.
  destruct (Z.leb_spec 0 i); [|lia]. destruct (Z.leb_spec i j); [|lia].
  destruct (Z.leb_spec j (go_len l)); [|lia]. reflexivity.
Qed.

Lemma go_make_ok n : 0 <= n -> go_make n = Ok (go_zeros n).
Proof. intros H. unfold go_make. destruct (Z.ltb_spec n 0); [lia|reflexivity]. Qed.

Lemma go_zeros_length n : length (go_zeros n) = Z.to_nat n.
Proof. apply repeat_length. Qed.
