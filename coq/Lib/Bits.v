(* Bit-level facts used to turn shifts / masks / disjoint ors into arithmetic. *)
From Coq Require Import ZArith Lia.
Open Scope Z_scope.

Lemma land_shiftl_small a b k : 0 <= k -> 0 <= b < 2 ^ k -> Z.land (Z.shiftl a k) b = 0.
Proof.
  intros Hk Hb. apply Z.bits_inj'. intros n Hn.
  rewrite Z.land_spec, Z.bits_0.
  destruct (Z.lt_ge_cases n k) as [Hlt|Hge].
  - rewrite Z.shiftl_spec_low by assumption. reflexivity.
  - replace b with (b mod 2 ^ k) by (apply Z.mod_small; assumption).
    rewrite Z.mod_pow2_bits_high by lia. apply Bool.andb_false_r.
Qed.

Lemma lor_shiftl_add a b k : 0 <= k -> 0 <= b < 2 ^ k -> Z.lor (Z.shiftl a k) b = a * 2 ^ k + b.
Proof.
  intros Hk Hb. rewrite <- Z.shiftl_mul_pow2 by assumption.
  rewrite <- Z.lxor_lor by (apply land_shiftl_small; assumption).
  symmetry. apply Z.add_nocarry_lxor. apply land_shiftl_small; assumption.
Qed.

Lemma land_ones_mod a k : 0 <= k -> Z.land a (2 ^ k - 1) = a mod 2 ^ k.
Proof.
  intros Hk. replace (2 ^ k - 1) with (Z.ones k) by (rewrite Z.ones_equiv; lia).
  apply Z.land_ones. assumption.
Qed.

Lemma shiftr_div a k : 0 <= k -> Z.shiftr a k = a / 2 ^ k.
Proof. intros. apply Z.shiftr_div_pow2. assumption. Qed.

(* testing a single bit of a non-negative number below 2^(k+1) *)
Lemma land_pow2_small a k : 0 <= k -> 0 <= a < 2 ^ k -> Z.land a (2 ^ k) = 0.
Proof.
  intros Hk Ha. apply Z.bits_inj'. intros n Hn.
  rewrite Z.land_spec, Z.bits_0, Z.pow2_bits_eqb by assumption.
  destruct (Z.eqb_spec k n) as [->|Hne].
  - replace a with (a mod 2 ^ n) by (apply Z.mod_small; assumption).
    rewrite Z.mod_pow2_bits_high by lia. reflexivity.
  - apply Bool.andb_false_r.
Qed.
