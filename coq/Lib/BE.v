(* Big-endian fixed-width integers as byte lists (encoding/binary.BigEndian PutUintNN /
   UintNN, and the 3-byte variant of codec/v2_header.go).  Bytes are [N]; a byte string is
   well formed when every element is below 256. *)
From Coq Require Import Arith NArith ZArith List Lia ZifyNat ZifyN.
From FV Require Import Lib.NList.
Import ListNotations.
Open Scope N_scope.

Ltac Zify.zify_post_hook ::= Z.div_mod_to_equations.

Definition is_byte (b : N) : Prop := b < 256.
Definition wf_bytes (l : list N) : Prop := Forall is_byte l.

(* PutUintNN(b, v): b[0] = byte(v >> (NN-8)) ... ; byte() keeps the low eight bits *)
Definition be16 (x : N) : list N := [x / 256 mod 256; x mod 256].
Definition be24 (x : N) : list N := [x / 65536 mod 256; x / 256 mod 256; x mod 256].
Definition be32 (x : N) : list N :=
  [x / 16777216 mod 256; x / 65536 mod 256; x / 256 mod 256; x mod 256].

(* UintNN(b): reads the first NN/8 bytes (Go panics on a shorter slice: the callers in the
   models check the length first; here a short list reads as 0) *)
Definition get16 (l : list N) : N :=
  match l with a :: b :: _ => a * 256 + b | _ => 0 end.
Definition get24 (l : list N) : N :=
  match l with a :: b :: c :: _ => (a * 256 + b) * 256 + c | _ => 0 end.
Definition get32 (l : list N) : N :=
  match l with a :: b :: c :: d :: _ => ((a * 256 + b) * 256 + c) * 256 + d | _ => 0 end.

Lemma be16_length x : length (be16 x) = 2%nat. Proof. reflexivity. Qed.
Lemma be24_length x : length (be24 x) = 3%nat. Proof. reflexivity. Qed.
Lemma be32_length x : length (be32 x) = 4%nat. Proof. reflexivity. Qed.
Lemma be16_lenN x : lenN (be16 x) = 2. Proof. reflexivity. Qed.
Lemma be24_lenN x : lenN (be24 x) = 3. Proof. reflexivity. Qed.
Lemma be32_lenN x : lenN (be32 x) = 4. Proof. reflexivity. Qed.

Lemma be16_wf x : wf_bytes (be16 x).
Proof. repeat constructor; unfold is_byte; lia. Qed.
Lemma be24_wf x : wf_bytes (be24 x).
Proof. repeat constructor; unfold is_byte; lia. Qed.
Lemma be32_wf x : wf_bytes (be32 x).
Proof. repeat constructor; unfold is_byte; lia. Qed.

(* get (put x ++ rest) = x for x in range; out of range the low bits survive *)
Lemma get16_be16_mod x r : get16 (be16 x ++ r) = x mod 65536.
Proof. cbn [be16 app get16]. lia. Qed.
Lemma get24_be24_mod x r : get24 (be24 x ++ r) = x mod 16777216.
Proof. cbn [be24 app get24]. lia. Qed.
Lemma get32_be32_mod x r : get32 (be32 x ++ r) = x mod 4294967296.
Proof. cbn [be32 app get32]. lia. Qed.

Lemma get16_be16 x r : x < 65536 -> get16 (be16 x ++ r) = x.
Proof. intros H. rewrite get16_be16_mod. apply N.mod_small; assumption. Qed.
Lemma get24_be24 x r : x < 16777216 -> get24 (be24 x ++ r) = x.
Proof. intros H. rewrite get24_be24_mod. apply N.mod_small; assumption. Qed.
Lemma get32_be32 x r : x < 4294967296 -> get32 (be32 x ++ r) = x.
Proof. intros H. rewrite get32_be32_mod. apply N.mod_small; assumption. Qed.

(* put (get bytes) = bytes for well-formed bytes *)
Lemma be16_get16 a b r : is_byte a -> is_byte b -> be16 (get16 (a :: b :: r)) = [a; b].
Proof. unfold is_byte, be16, get16. intros. f_equal; [|f_equal]; lia. Qed.
Lemma be24_get24 a b c r : is_byte a -> is_byte b -> is_byte c ->
  be24 (get24 (a :: b :: c :: r)) = [a; b; c].
Proof. unfold is_byte, be24, get24. intros. f_equal; [|f_equal; [|f_equal]]; lia. Qed.
Lemma be32_get32 a b c d r : is_byte a -> is_byte b -> is_byte c -> is_byte d ->
  be32 (get32 (a :: b :: c :: d :: r)) = [a; b; c; d].
Proof.
  unfold is_byte, be32, get32. intros. f_equal; [|f_equal; [|f_equal; [|f_equal]]]; lia.
Qed.

(* ranges of what is read *)
Lemma get16_lt l : wf_bytes l -> get16 l < 65536.
Proof.
  destruct l as [|a [|b r]]; cbn [get16]; try lia. intros H.
  inversion H as [|? ? Ha H1]; subst. inversion H1 as [|? ? Hb H2]; subst.
  unfold is_byte in *. lia.
Qed.
Lemma get24_lt l : wf_bytes l -> get24 l < 16777216.
Proof.
  destruct l as [|a [|b [|c r]]]; cbn [get24]; try lia. intros H.
  inversion H as [|? ? Ha H1]; subst. inversion H1 as [|? ? Hb H2]; subst.
  inversion H2 as [|? ? Hc H3]; subst. unfold is_byte in *. lia.
Qed.
Lemma get32_lt l : wf_bytes l -> get32 l < 4294967296.
Proof.
  destruct l as [|a [|b [|c [|d r]]]]; cbn [get32]; try lia. intros H.
  inversion H as [|? ? Ha H1]; subst. inversion H1 as [|? ? Hb H2]; subst.
  inversion H2 as [|? ? Hc H3]; subst. inversion H3 as [|? ? Hd H4]; subst.
  unfold is_byte in *. lia.
Qed.

(* injectivity on the representable range *)
Lemma be16_inj x y : x < 65536 -> y < 65536 -> be16 x = be16 y -> x = y.
Proof.
  intros Hx Hy H. rewrite <- (get16_be16 x [] Hx), <- (get16_be16 y [] Hy). now rewrite H.
Qed.
Lemma be32_inj x y : x < 4294967296 -> y < 4294967296 -> be32 x = be32 y -> x = y.
Proof.
  intros Hx Hy H. rewrite <- (get32_be32 x [] Hx), <- (get32_be32 y [] Hy). now rewrite H.
Qed.

(* a list of 32-bit words, as laid out by the V2 reference list *)
Definition be32s (l : list N) : list N := flat_map be32 l.

Lemma be32s_length l : length (be32s l) = (4 * length l)%nat.
Proof. unfold be32s. induction l as [|x r IH]; cbn [flat_map length]; [reflexivity|].
  rewrite app_length, IH, be32_length. lia. Qed.
Lemma be32s_lenN l : lenN (be32s l) = 4 * lenN l.
Proof. unfold lenN. rewrite be32s_length. lia. Qed.
Lemma be32s_wf l : wf_bytes (be32s l).
Proof. unfold be32s, wf_bytes. induction l as [|x r IH]; cbn [flat_map]; [constructor|].
  apply Forall_app; split; [apply be32_wf|exact IH]. Qed.

(* reading n words back *)
Fixpoint get32s (n : nat) (l : list N) : list N :=
  match n with
  | O => []
  | S n' => get32 l :: get32s n' (skipn 4 l)
  end.

Lemma get32s_be32s l r : Forall (fun x => x < 4294967296) l ->
  get32s (length l) (be32s l ++ r) = l.
Proof.
  induction l as [|x t IH]; intros H; [reflexivity|].
  inversion H as [|? ? Hx Ht]; subst. cbn [length get32s be32s flat_map].
  rewrite <- app_assoc. rewrite get32_be32 by assumption. f_equal.
  cbn [be32 app skipn]. apply IH; assumption.
Qed.

Lemma wf_bytes_app a b : wf_bytes (a ++ b) <-> wf_bytes a /\ wf_bytes b.
Proof. apply Forall_app. Qed.
Lemma wf_bytes_firstn n l : wf_bytes l -> wf_bytes (firstn n l).
Proof. intros H. rewrite <- (firstn_skipn n l) in H. apply Forall_app in H. tauto. Qed.
Lemma wf_bytes_skipn n l : wf_bytes l -> wf_bytes (skipn n l).
Proof. intros H. rewrite <- (firstn_skipn n l) in H. apply Forall_app in H. tauto. Qed.
Lemma wf_bytes_takeN n l : wf_bytes l -> wf_bytes (takeN n l).
Proof. rewrite takeN_firstn. apply wf_bytes_firstn. Qed.
Lemma wf_bytes_dropN n l : wf_bytes l -> wf_bytes (dropN n l).
Proof. rewrite dropN_skipn. apply wf_bytes_skipn. Qed.
