(* S-expressions: the case-file language shared by the Go harness, the in-Coq
   evaluation (path A) and the extracted runner (path B). *)
From Coq Require Import ZArith NArith List.
Import ListNotations.

Inductive sx : Type :=
| SInt (z : Z)
| SBytes (b : list N)
| SList (l : list sx).

(* Verdict of one case.
   VOk            model and implementation agree on the compared observables and the
                  property's executable form holds on the implementation's outputs
   VMismatch w    the model's output differs from the implementation's (observable w)
   VPropFail w    the property's executable form fails on the implementation's outputs
                  (sentence w)
   VBad           the case could not be decoded *)
Inductive verdict : Type :=
| VOk
| VMismatch (what : N)
| VPropFail (what : N)
| VBad.

Definition verdict_code (v : verdict) : N * N :=
  match v with
  | VOk => (0, 0)
  | VMismatch w => (1, w)
  | VPropFail w => (2, w)
  | VBad => (3, 0)
  end%N.

(* property failures take precedence over mismatches *)
Definition vjoin (a b : verdict) : verdict :=
  match a, b with
  | VPropFail w, _ => VPropFail w
  | _, VPropFail w => VPropFail w
  | VBad, _ => VBad
  | _, VBad => VBad
  | VMismatch w, _ => VMismatch w
  | _, VMismatch w => VMismatch w
  | VOk, VOk => VOk
  end.

Fixpoint summarize_from (check : sx -> verdict) (i : N) (cs : list sx) : list (N * (N * N)) :=
  match cs with
  | [] => []
  | c :: r =>
      match check c with
      | VOk => summarize_from check (N.succ i) r
      | v => (i, verdict_code v) :: summarize_from check (N.succ i) r
      end
  end.

Definition summarize (check : sx -> verdict) (cs : list sx) : list (N * (N * N)) :=
  summarize_from check 0%N cs.

(* small decoding helpers *)
Definition sx_int (s : sx) : option Z := match s with SInt z => Some z | _ => None end.
Definition sx_N (s : sx) : option N :=
  match s with SInt z => if Z.leb 0 z then Some (Z.to_N z) else None | _ => None end.
Definition sx_bytes (s : sx) : option (list N) := match s with SBytes b => Some b | _ => None end.
Definition sx_list (s : sx) : option (list sx) := match s with SList l => Some l | _ => None end.
Definition sx_bool (s : sx) : option bool :=
  match s with SInt 0%Z => Some false | SInt 1%Z => Some true | _ => None end.

Fixpoint map_opt {A B} (f : A -> option B) (l : list A) : option (list B) :=
  match l with
  | [] => Some []
  | x :: r => match f x, map_opt f r with
              | Some y, Some ys => Some (y :: ys)
              | _, _ => None
              end
  end.

Definition sx_ints (s : sx) : option (list Z) :=
  match s with SList l => map_opt sx_int l | _ => None end.
Definition sx_Ns (s : sx) : option (list N) :=
  match s with SList l => map_opt sx_N l | _ => None end.

Definition beqb (a b : bool) : bool := Bool.eqb a b.
Fixpoint list_eqb {A} (eq : A -> A -> bool) (a b : list A) : bool :=
  match a, b with
  | [], [] => true
  | x :: a', y :: b' => andb (eq x y) (list_eqb eq a' b')
  | _, _ => false
  end.

Definition check_that (b : bool) (v : verdict) : verdict := if b then VOk else v.
