(* Hexadecimal printing (fmt's %0Nx on unsigned values) and parsing
   (strconv.ParseUint(s, 16, bits)) over byte strings (list of character codes). *)
From Coq Require Import ZArith List Lia Bool.
Import ListNotations.
Open Scope Z_scope.

(* lower-case hex digit of d (0 <= d < 16) as a character code *)
Definition hex_digit (d : Z) : Z := if d <? 10 then 48 + d else 87 + d.

(* value of a character, as strconv accepts them in base 16 *)
Definition hex_val (c : Z) : option Z :=
  if (48 <=? c) && (c <=? 57) then Some (c - 48)
  else if (97 <=? c) && (c <=? 102) then Some (c - 87)
  else if (65 <=? c) && (c <=? 70) then Some (c - 55)
  else None.

Definition is_lower_hex (c : Z) : bool :=
  ((48 <=? c) && (c <=? 57)) || ((97 <=? c) && (c <=? 102)).

(* w digits, most significant first (the w low digits of n) *)
Fixpoint hex_fixed (w : nat) (n : Z) : list Z :=
  match w with
  | O => []
  | S w' => hex_fixed w' (n / 16) ++ [hex_digit (n mod 16)]
  end.

(* fmt %0<w>x of a non-negative value: at least w digits, more if the value needs them.
   Fuel = number of extra digits we are prepared to print (64-bit values: 16). *)
Fixpoint hex_min (fuel w : nat) (n : Z) : list Z :=
  match fuel with
  | O => hex_fixed w n
  | S f => if n <? 16 ^ Z.of_nat w then hex_fixed w n else hex_min f (S w) n
  end.

(* fmt %0<w>x of a signed value: sign, then digits of |n|, zero-padded to width w
   including the sign. *)
Definition hex_signed (w : nat) (n : Z) : list Z :=
  if n <? 0 then 45 :: hex_min 16 (pred w) (- n) else hex_min 16 w n.

Fixpoint parse_hex_acc (acc : Z) (s : list Z) : option Z :=
  match s with
  | [] => Some acc
  | c :: r => match hex_val c with
              | Some d => parse_hex_acc (acc * 16 + d) r
              | None => None
              end
  end.

(* strconv.ParseUint(s, 16, bits): None stands for any error (syntax or range) *)
Definition parse_hex (bits : Z) (s : list Z) : option Z :=
  match s with
  | [] => None
  | _ => match parse_hex_acc 0 s with
         | Some v => if v <? 2 ^ bits then Some v else None
         | None => None
         end
  end.

Lemma hex_val_digit d : 0 <= d < 16 -> hex_val (hex_digit d) = Some d.
Proof.
  intros H. unfold hex_digit, hex_val.
  destruct (d <? 10) eqn:E; [apply Z.ltb_lt in E | apply Z.ltb_ge in E].
  - replace ((48 <=? 48 + d) && (48 + d <=? 57)) with true
      by (symmetry; apply andb_true_iff; split; apply Z.leb_le; lia).
    f_equal; lia.
  - replace ((48 <=? 87 + d) && (87 + d <=? 57)) with false
      by (symmetry; apply andb_false_iff; right; apply Z.leb_gt; lia).
    replace ((97 <=? 87 + d) && (87 + d <=? 102)) with true
      by (symmetry; apply andb_true_iff; split; apply Z.leb_le; lia).
    f_equal; lia.
Qed.

Lemma is_lower_hex_digit d : 0 <= d < 16 -> is_lower_hex (hex_digit d) = true.
Proof.
  intros H. unfold hex_digit, is_lower_hex.
  destruct (d <? 10) eqn:E; [apply Z.ltb_lt in E | apply Z.ltb_ge in E];
    apply orb_true_iff; [left|right]; apply andb_true_iff; split; apply Z.leb_le; lia.
Qed.

Lemma hex_fixed_length w n : length (hex_fixed w n) = w.
Proof.
  revert n; induction w as [|w IH]; intros n; cbn [hex_fixed]; [reflexivity|].
  rewrite app_length, IH. cbn. lia.
Qed.

Lemma hex_fixed_lower w n : forallb is_lower_hex (hex_fixed w n) = true.
Proof.
  revert n; induction w as [|w IH]; intros n; cbn [hex_fixed]; [reflexivity|].
  rewrite forallb_app, IH. cbn [forallb]. rewrite is_lower_hex_digit; [reflexivity|].
  apply Z.mod_pos_bound; lia.
Qed.

Lemma parse_hex_acc_app acc a b :
  parse_hex_acc acc (a ++ b) =
  match parse_hex_acc acc a with Some v => parse_hex_acc v b | None => None end.
Proof.
  revert acc; induction a as [|c a IH]; intros acc; cbn [app parse_hex_acc]; [reflexivity|].
  destruct (hex_val c); [apply IH|reflexivity].
Qed.

Lemma parse_hex_acc_fixed w : forall n acc, 0 <= n ->
  parse_hex_acc acc (hex_fixed w n) = Some (acc * 16 ^ Z.of_nat w + n mod 16 ^ Z.of_nat w).
Proof.
  induction w as [|w IH]; intros n acc Hn.
  - cbn [hex_fixed parse_hex_acc]. change (16 ^ Z.of_nat 0) with 1. rewrite Z.mod_1_r. f_equal; lia.
  - cbn [hex_fixed]. rewrite parse_hex_acc_app, IH by (apply Z.div_pos; lia).
    cbn [parse_hex_acc]. rewrite hex_val_digit by (apply Z.mod_pos_bound; lia).
    f_equal. rewrite Nat2Z.inj_succ, Z.pow_succ_r by lia.
    set (p := 16 ^ Z.of_nat w). assert (Hp : 0 < p) by (apply Z.pow_pos_nonneg; lia).
    rewrite (Z.rem_mul_r n 16 p) by lia.
    ring.
Qed.
