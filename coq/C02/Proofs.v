(* C02 — the decoders on arbitrary input.  ReadHeadBody of both formats is an instance of one
   generic reader; it is characterised by a function of the concatenated stream content, and
   all sentences of the property are proved on that characterisation. *)
From Coq Require Import Arith ZArith NArith List Bool Lia ZifyNat ZifyN ZifyBool.
From FV Require Import Generated.Consts Lib.NList Lib.BE Lib.Crc32 C01.Model C01.ProofsIO C01.ProofsBits.
Import ListNotations.
Open Scope N_scope.

Ltac Zify.zify_post_hook ::= Z.div_mod_to_equations.

(* ---------------------------------------------------------------------------------- *)
(* the generic header+payload reader *)

Section Generic.
Variables (hs mx md : N) (getlen : bytes -> N).

Definition g_read_hb (s : stream) : rhb (bytes * bytes) :=
  match read_full hs s with
  | (Ok h, s1) =>
      let length := getlen h in
      if mx <? length then mkRhb (Err ELength) s1 [] [hs]
      else if length <? hs then mkRhb (Err ELength) s1 [] [hs]
      else
        let n := (length + md - hs) mod md in
        match read_full n s1 with
        | (Ok payload, s2) => mkRhb (Ok (h, payload)) s2 [n] [hs; n]
        | (Err e, s2) => mkRhb (Err e) s2 [n] [hs; n]
        | (Panic, s2) => mkRhb Panic s2 [n] [hs; n]
        end
  | (Err e, s1) => mkRhb (Err e) s1 [] [hs]
  | (Panic, s1) => mkRhb Panic s1 [] [hs]
  end.

(* the same on the concatenated content: (outcome, bytes left, allocations, requests) *)
Definition f_read_hb (d : bytes) : outcome (bytes * bytes) * bytes * list N * list N :=
  if lenN d <? hs then (Err (eof_err d), [], [], [hs])
  else
    let h := takeN hs d in
    let d1 := dropN hs d in
    let length := getlen h in
    if (mx <? length) || (length <? hs) then (Err ELength, d1, [], [hs])
    else
      let n := length - hs in
      if lenN d1 <? n then (Err (eof_err d1), [], [n], [hs; n])
      else (Ok (h, takeN n d1), dropN n d1, [n], [hs; n]).

Hypothesis mx_lt_md : mx < md.

Lemma g_read_hb_flat s :
  let r := g_read_hb s in
  (r_out r, concat (r_rest r), r_allocs r, r_reads r) = f_read_hb (concat s).
Proof.
  unfold g_read_hb, f_read_hb.
  destruct (read_full hs s) as [[h|e|] s1] eqn:R1.
  - apply read_full_ok_inv in R1. destruct R1 as (L1 & -> & C1).
    destruct (N.ltb_spec (lenN (concat s)) hs) as [X|_]; [lia|].
    set (h := takeN hs (concat s)) in *.
    destruct (N.ltb_spec mx (getlen h)) as [Hm|Hm]; cbn [orb]; [cbn [r_out r_rest r_allocs r_reads]; rewrite C1; reflexivity|].
    destruct (N.ltb_spec (getlen h) hs) as [Hh|Hh]; [cbn [r_out r_rest r_allocs r_reads]; rewrite C1; reflexivity|].
    assert (En : (getlen h + md - hs) mod md = getlen h - hs).
    { replace (getlen h + md - hs) with (getlen h - hs + 1 * md) by lia.
      rewrite N.mod_add by lia. apply N.mod_small. lia. }
    rewrite En. set (n := getlen h - hs) in *.
    destruct (read_full n s1) as [[b|e|] s2] eqn:R2.
    + apply read_full_ok_inv in R2. destruct R2 as (L2 & -> & C2). rewrite C1 in *.
      destruct (N.ltb_spec (lenN (dropN hs (concat s))) n) as [X|_]; [lia|].
      cbn [r_out r_rest r_allocs r_reads]. rewrite C2. reflexivity.
    + apply read_full_err_inv in R2. destruct R2 as (L2 & -> & C2). rewrite C1 in *.
      destruct (N.ltb_spec (lenN (dropN hs (concat s))) n) as [_|X]; [|lia].
      cbn [r_out r_rest r_allocs r_reads]. rewrite C2. reflexivity.
    + exfalso. eapply read_full_no_panic; eassumption.
  - apply read_full_err_inv in R1. destruct R1 as (L1 & -> & C1).
    destruct (N.ltb_spec (lenN (concat s)) hs) as [_|X]; [|lia].
    cbn [r_out r_rest r_allocs r_reads]. rewrite C1. reflexivity.
  - exfalso. eapply read_full_no_panic; eassumption.
Qed.

End Generic.

Section GenericBounds.
Variables (hs mx : N) (getlen : bytes -> N).
Hypothesis hs_le_mx : hs <= mx.

(* whatever arrives: never Panic, every buffer and the total requested within the maximum *)
Lemma f_read_hb_bounded d :
  let '(o, rest, al, rd) := f_read_hb hs mx getlen d in
  o <> Panic /\ Forall (fun a => a <= mx) al /\ sumN rd <= mx
  /\ (forall h b, o = Ok (h, b) -> lenN h = hs /\ lenN h + lenN b = getlen h
                                   /\ hs <= getlen h <= mx /\ d = h ++ b ++ rest).
Proof.
  unfold f_read_hb.
  destruct (N.ltb_spec (lenN d) hs) as [H0|H0].
  - repeat split; try discriminate; [constructor|cbn; lia].
  - set (h := takeN hs d). set (d1 := dropN hs d).
    destruct (N.ltb_spec mx (getlen h)) as [Hm|Hm]; cbn [orb].
    + repeat split; try discriminate; [constructor|cbn; lia].
    + destruct (N.ltb_spec (getlen h) hs) as [Hh|Hh].
      * repeat split; try discriminate; [constructor|cbn; lia].
      * destruct (N.ltb_spec (lenN d1) (getlen h - hs)) as [H1|H1].
        -- repeat split; try discriminate; [repeat constructor; lia|cbn; lia].
        -- split; [discriminate|]. split; [repeat constructor; lia|]. split; [cbn; lia|].
           intros h' b' E. injection E as <- <-.
           assert (Lh : lenN h = hs) by (apply lenN_takeN; assumption).
           assert (Lb : lenN (takeN (getlen h - hs) d1) = getlen h - hs) by (apply lenN_takeN; assumption).
           repeat split; try lia.
           unfold h, d1. rewrite takeN_dropN, takeN_dropN. reflexivity.
Qed.

End GenericBounds.

(* the two formats are instances *)
Lemma v1_generic : read_head_body_v1 = g_read_hb hs1 max1 65536 get16.
Proof. reflexivity. Qed.
Lemma v2_generic : read_head_body_v2 = g_read_hb hs2 max2 4294967296 get24.
Proof. reflexivity. Qed.

Definition f_hb_v1 := f_read_hb hs1 max1 get16.
Definition f_hb_v2 := f_read_hb hs2 max2 get24.

Lemma head_body_v1_flat s :
  let r := read_head_body_v1 s in
  (r_out r, concat (r_rest r), r_allocs r, r_reads r) = f_hb_v1 (concat s).
Proof. rewrite v1_generic. apply g_read_hb_flat. reflexivity. Qed.

Lemma head_body_v2_flat s :
  let r := read_head_body_v2 s in
  (r_out r, concat (r_rest r), r_allocs r, r_reads r) = f_hb_v2 (concat s).
Proof. rewrite v2_generic. apply g_read_hb_flat. reflexivity. Qed.

(* ---------------------------------------------------------------------------------- *)
(* UnmarshalPacket never panics on what ReadHeadBody hands it *)

Lemma unmarshal_body_no_panic dec unzip hd b p : unmarshal_body dec unzip hd b p <> Panic.
Proof.
  unfold unmarshal_body.
  repeat match goal with
         | |- context [if ?c then _ else _] => destruct c
         | |- context [match unzip ?x with _ => _ end] => destruct (unzip x)
         end; discriminate.
Qed.

Lemma read_refs_some n : forall b, 4 * N.of_nat n <= lenN b -> exists l, read_refs n b = Some l.
Proof.
  induction n as [|n IH]; intros b H; [exists []; reflexivity|].
  destruct b as [|b0 [|b1 [|b2 [|b3 r]]]];
    try (exfalso; revert H; unfold lenN; cbn [length]; lia).
  destruct (IH r) as [l E]; [revert H; unfold lenN; cbn [length]; lia|].
  cbn [read_refs]. rewrite E. eexists; reflexivity.
Qed.

Lemma unmarshal_v1_no_panic dec unzip hd h b p : lenN h = hs1 -> unmarshal_v1 dec unzip hd h b p <> Panic.
Proof.
  intros Hh. unfold unmarshal_v1. rewrite Hh, N.ltb_irrefl.
  destruct (negb _); [discriminate|]. destruct (_ || _); [|discriminate].
  apply unmarshal_body_no_panic.
Qed.

Lemma unmarshal_v2_no_panic dec unzip hd h b p : lenN h = hs2 -> unmarshal_v2 dec unzip hd h b p <> Panic.
Proof.
  intros Hh. unfold unmarshal_v2. rewrite Hh, N.ltb_irrefl.
  destruct (negb _); [discriminate|].
  destruct (N.ltb_spec 0 (byte_at 5 h)) as [Hr|Hr].
  - destruct (N.ltb_spec (lenN b) (byte_at 5 h * 4)) as [Hl|Hl]; [discriminate|].
    destruct (read_refs_some (N.to_nat (byte_at 5 h)) b) as [l E]; [lia|]. rewrite E.
    destruct (N.ltb_spec (lenN b) (byte_at 5 h * 4)) as [X|_]; [lia|].
    destruct (_ || _); [|discriminate].
    apply unmarshal_body_no_panic.
  - destruct (N.ltb_spec (lenN b) 0) as [X|_]; [lia|].
    destruct (_ || _); [|discriminate]. apply unmarshal_body_no_panic.
Qed.

(* ---------------------------------------------------------------------------------- *)
(* ReadPacket on the concatenated content *)

Definition lift_unmarshal (um : bytes -> bytes -> outcome packet)
           (t : outcome (bytes * bytes) * bytes * list N * list N)
  : outcome packet * bytes * list N * list N :=
  let '(o, rest, al, rd) := t in
  (match o with Ok (h, b) => um h b | Err e => Err e | Panic => Panic end, rest, al, rd).

Definition f_packet_v1 dec unzip hd p0 (d : bytes) :=
  lift_unmarshal (fun h b => unmarshal_v1 dec unzip hd h b p0) (f_hb_v1 d).
Definition f_packet_v2 dec unzip hd p0 (d : bytes) :=
  lift_unmarshal (fun h b => unmarshal_v2 dec unzip hd h b p0) (f_hb_v2 d).

Lemma read_packet_v1_flat dec unzip hd s p0 :
  let r := read_packet_v1 dec unzip hd s p0 in
  (r_out r, concat (r_rest r), r_allocs r, r_reads r) = f_packet_v1 dec unzip hd p0 (concat s).
Proof.
  unfold f_packet_v1. rewrite <- head_body_v1_flat. unfold read_packet_v1, lift_unmarshal.
  destruct (r_out (read_head_body_v1 s)) as [[h b]|e|]; reflexivity.
Qed.

Lemma read_packet_v2_flat dec unzip hd s p0 :
  let r := read_packet_v2 dec unzip hd s p0 in
  (r_out r, concat (r_rest r), r_allocs r, r_reads r) = f_packet_v2 dec unzip hd p0 (concat s).
Proof.
  unfold f_packet_v2. rewrite <- head_body_v2_flat. unfold read_packet_v2, lift_unmarshal.
  destruct (r_out (read_head_body_v2 s)) as [[h b]|e|]; reflexivity.
Qed.

(* ---------------------------------------------------------------------------------- *)
(* totality and bounds *)

Definition bounded_by {A} (mx : N) (r : rhb A) : Prop :=
  r_out r <> Panic /\ Forall (fun a => a <= mx) (r_allocs r) /\ sumN (r_reads r) <= mx.

Lemma hs1_le_max1 : hs1 <= max1. Proof. unfold hs1, max1, codec_V1HeaderSize, codec_V1MaxPayloadBytes. lia. Qed.
Lemma hs2_le_max2 : hs2 <= max2. Proof. unfold hs2, max2, codec_V2HeaderSize, codec_V2MaxPayloadBytes. lia. Qed.

Lemma total_v1 dec unzip hd s p0 : bounded_by max1 (read_packet_v1 dec unzip hd s p0).
Proof.
  pose proof (read_packet_v1_flat dec unzip hd s p0) as F. cbv zeta in F.
  unfold f_packet_v1, f_hb_v1 in F.
  pose proof (f_read_hb_bounded hs1 max1 get16 hs1_le_max1 (concat s)) as B.
  destruct (f_read_hb hs1 max1 get16 (concat s)) as [[[o rest] al] rd].
  destruct B as (B1 & B2 & B3 & B4). unfold lift_unmarshal in F.
  injection F as F1 F2 F3 F4. unfold bounded_by. rewrite F1, F3, F4.
  split; [|split; assumption].
  destruct o as [[h b]|e|]; [|discriminate|contradiction].
  apply unmarshal_v1_no_panic. apply (B4 h b eq_refl).
Qed.

Lemma total_v2 dec unzip hd s p0 : bounded_by max2 (read_packet_v2 dec unzip hd s p0).
Proof.
  pose proof (read_packet_v2_flat dec unzip hd s p0) as F. cbv zeta in F.
  unfold f_packet_v2, f_hb_v2 in F.
  pose proof (f_read_hb_bounded hs2 max2 get24 hs2_le_max2 (concat s)) as B.
  destruct (f_read_hb hs2 max2 get24 (concat s)) as [[[o rest] al] rd].
  destruct B as (B1 & B2 & B3 & B4). unfold lift_unmarshal in F.
  injection F as F1 F2 F3 F4. unfold bounded_by. rewrite F1, F3, F4.
  split; [|split; assumption].
  destruct o as [[h b]|e|]; [|discriminate|contradiction].
  apply unmarshal_v2_no_panic. apply (B4 h b eq_refl).
Qed.

(* the length-prefixed helper on the concatenated content *)
Definition f_len_data (d : bytes) : outcome bytes * bytes * list N * list N :=
  if lenN d <? 2 then (Err (eof_err d), [], [], [2])
  else
    let length := get16 (takeN 2 d) in
    let d1 := dropN 2 d in
    if length <? 2 then (Err ELength, d1, [], [2])
    else
      let n := (length + 65536 - 2) mod 65536 in
      if lenN d1 <? n then (Err (eof_err d1), [], [n], [2; n])
      else (Ok (takeN n d1), dropN n d1, [n], [2; n]).

Lemma read_len_data_flat s :
  let r := read_len_data s in
  (r_out r, concat (r_rest r), r_allocs r, r_reads r) = f_len_data (concat s).
Proof.
  unfold read_len_data, f_len_data.
  destruct (read_full 2 s) as [[h|e|] s1] eqn:R1.
  - apply read_full_ok_inv in R1. destruct R1 as (L1 & -> & C1).
    destruct (N.ltb_spec (lenN (concat s)) 2) as [X|_]; [lia|].
    destruct (get16 (takeN 2 (concat s)) <? 2); [cbn [r_out r_rest r_allocs r_reads]; rewrite C1; reflexivity|].
    set (n := (get16 (takeN 2 (concat s)) + 65536 - 2) mod 65536).
    destruct (read_full n s1) as [[b|e|] s2] eqn:R2.
    + apply read_full_ok_inv in R2. destruct R2 as (L2 & -> & C2). rewrite C1 in *.
      destruct (N.ltb_spec (lenN (dropN 2 (concat s))) n) as [X|_]; [lia|].
      cbn [r_out r_rest r_allocs r_reads]. rewrite C2. reflexivity.
    + apply read_full_err_inv in R2. destruct R2 as (L2 & -> & C2). rewrite C1 in *.
      destruct (N.ltb_spec (lenN (dropN 2 (concat s))) n) as [_|X]; [|lia].
      cbn [r_out r_rest r_allocs r_reads]. rewrite C2. reflexivity.
    + exfalso. eapply read_full_no_panic; eassumption.
  - apply read_full_err_inv in R1. destruct R1 as (L1 & -> & C1).
    destruct (N.ltb_spec (lenN (concat s)) 2) as [_|X]; [|lia].
    cbn [r_out r_rest r_allocs r_reads]. rewrite C1. reflexivity.
  - exfalso. eapply read_full_no_panic; eassumption.
Qed.

Lemma total_lendata s : wf_bytes (concat s) -> bounded_by max_u16 (read_len_data s).
Proof.
  intros W. pose proof (read_len_data_flat s) as F. cbv zeta in F. unfold f_len_data in F.
  unfold bounded_by, max_u16.
  destruct (N.ltb_spec (lenN (concat s)) 2) as [H0|H0].
  - injection F as -> _ -> ->. repeat split; try discriminate; try (repeat constructor; lia); try (cbn; lia).
  - assert (HL : get16 (takeN 2 (concat s)) < 65536) by (apply get16_lt, wf_bytes_takeN; assumption).
    set (L := get16 (takeN 2 (concat s))) in *.
    destruct (N.ltb_spec L 2) as [H1|H1].
    + injection F as -> _ -> ->. repeat split; try discriminate; try (repeat constructor; lia); try (cbn; lia).
    + assert (En : (L + 65536 - 2) mod 65536 = L - 2).
      { replace (L + 65536 - 2) with (L - 2 + 1 * 65536) by lia.
        rewrite N.mod_add by discriminate. apply N.mod_small. lia. }
      rewrite En in F.
      assert (Hall : Forall (fun a => a <= 65535) [L - 2]) by (constructor; [lia|constructor]).
      assert (Hsum : sumN [2; L - 2] <= 65535) by (unfold sumN; cbn [fold_right]; lia).
      destruct (lenN (dropN 2 (concat s)) <? L - 2); injection F as -> _ -> ->;
        (split; [discriminate|split; assumption]).
Qed.

(* ---------------------------------------------------------------------------------- *)
(* small list facts *)

Lemma takeN_takeN {A} a b (l : list A) : a <= b -> takeN a (takeN b l) = takeN a l.
Proof.
  intros H. rewrite !takeN_firstn, firstn_firstn. f_equal. lia.
Qed.

Lemma get16_takeN n l : 2 <= n -> get16 (takeN n l) = get16 l.
Proof.
  intros H. destruct l as [|a [|b r]]; cbn [takeN].
  - reflexivity.
  - destruct (n =? 0); reflexivity.
  - destruct (N.eqb_spec n 0) as [X|_]; [lia|]. destruct (N.eqb_spec (N.pred n) 0) as [X|_]; [lia|].
    reflexivity.
Qed.

Lemma get24_takeN n l : 3 <= n -> get24 (takeN n l) = get24 l.
Proof.
  intros H. destruct l as [|a [|b [|c r]]]; cbn [takeN].
  - reflexivity.
  - destruct (n =? 0); reflexivity.
  - destruct (N.eqb_spec n 0) as [X|_]; [lia|]. destruct (N.pred n =? 0); reflexivity.
  - destruct (N.eqb_spec n 0) as [X|_]; [lia|]. destruct (N.eqb_spec (N.pred n) 0) as [X|_]; [lia|].
    destruct (N.eqb_spec (N.pred (N.pred n)) 0) as [X|_]; [lia|]. reflexivity.
Qed.

Lemma eof_err_cases d : eof_err d = EEOF \/ eof_err d = EUnexpectedEOF.
Proof. destruct d; [left|right]; reflexivity. Qed.

(* ---------------------------------------------------------------------------------- *)
(* a length field below the header size or above the maximum is refused at once *)

Lemma f_read_hb_refuse hs mx getlen d :
  hs <= lenN d -> getlen (takeN hs d) < hs \/ mx < getlen (takeN hs d) ->
  f_read_hb hs mx getlen d = (Err ELength, dropN hs d, [], [hs]).
Proof.
  intros H0 H. unfold f_read_hb.
  destruct (N.ltb_spec (lenN d) hs) as [X|_]; [lia|].
  destruct (N.ltb_spec mx (getlen (takeN hs d))) as [Hm|Hm]; cbn [orb]; [reflexivity|].
  destruct (N.ltb_spec (getlen (takeN hs d)) hs) as [Hh|Hh]; [reflexivity|lia].
Qed.

Definition refused {A} (hs : N) (r : rhb A) (d : bytes) : Prop :=
  r_out r = Err ELength /\ r_allocs r = [] /\ r_reads r = [hs] /\ concat (r_rest r) = dropN hs d.

Lemma refuse_v1 dec unzip hd s p0 :
  hs1 <= lenN (concat s) -> get16 (concat s) < hs1 \/ max1 < get16 (concat s) ->
  refused hs1 (read_packet_v1 dec unzip hd s p0) (concat s).
Proof.
  intros H0 H. pose proof (read_packet_v1_flat dec unzip hd s p0) as F. cbv zeta in F.
  unfold f_packet_v1, f_hb_v1 in F. rewrite f_read_hb_refuse in F; try assumption.
  - cbn [lift_unmarshal] in F. injection F as F1 F2 F3 F4. repeat split; assumption.
  - rewrite get16_takeN by (unfold hs1, codec_V1HeaderSize; lia). assumption.
Qed.

Lemma refuse_v2 dec unzip hd s p0 :
  hs2 <= lenN (concat s) -> get24 (concat s) < hs2 \/ max2 < get24 (concat s) ->
  refused hs2 (read_packet_v2 dec unzip hd s p0) (concat s).
Proof.
  intros H0 H. pose proof (read_packet_v2_flat dec unzip hd s p0) as F. cbv zeta in F.
  unfold f_packet_v2, f_hb_v2 in F. rewrite f_read_hb_refuse in F; try assumption.
  - cbn [lift_unmarshal] in F. injection F as F1 F2 F3 F4. repeat split; assumption.
  - rewrite get24_takeN by (unfold hs2, codec_V2HeaderSize; lia). assumption.
Qed.

Lemma refuse_lendata s :
  2 <= lenN (concat s) -> get16 (concat s) < 2 -> refused 2 (read_len_data s) (concat s).
Proof.
  intros H0 H. pose proof (read_len_data_flat s) as F. cbv zeta in F. unfold f_len_data in F.
  destruct (N.ltb_spec (lenN (concat s)) 2) as [X|_]; [lia|].
  rewrite get16_takeN in F by lia.
  destruct (N.ltb_spec (get16 (concat s)) 2) as [_|X]; [|lia].
  injection F as F1 F2 F3 F4. repeat split; assumption.
Qed.

(* ---------------------------------------------------------------------------------- *)
(* truncation: every proper prefix of an accepted frame ends in EOF / unexpected EOF *)

Definition eof_kind {A} (o : outcome A) : Prop := o = Err EEOF \/ o = Err EUnexpectedEOF.

Lemma f_read_hb_truncate hs mx getlen d h b al rd :
  hs <= mx ->
  f_read_hb hs mx getlen d = (Ok (h, b), [], al, rd) ->
  forall k, k < lenN d ->
  exists e rest al' rd', f_read_hb hs mx getlen (takeN k d) = (Err e, rest, al', rd')
                         /\ (e = EEOF \/ e = EUnexpectedEOF).
Proof.
  intros Hle F k Hk.
  pose proof (f_read_hb_bounded hs mx getlen Hle d) as B. rewrite F in B.
  destruct B as (_ & _ & _ & B). destruct (B h b eq_refl) as (Lh & Lsum & Hrange & Hd).
  rewrite app_nil_r in Hd.
  assert (Ld : lenN d = getlen h) by (rewrite Hd, lenN_app; lia).
  unfold f_read_hb.
  assert (Lk : lenN (takeN k d) = k) by (apply lenN_takeN; lia).
  rewrite Lk.
  destruct (N.ltb_spec k hs) as [H0|H0].
  - do 4 eexists. split; [reflexivity|apply eof_err_cases].
  - rewrite takeN_takeN by assumption.
    assert (Eh : takeN hs d = h) by (rewrite Hd, <- Lh; apply takeN_app_exact).
    rewrite Eh.
    destruct (N.ltb_spec mx (getlen h)) as [X|_]; [lia|].
    destruct (N.ltb_spec (getlen h) hs) as [X|_]; [lia|]. cbn [orb].
    rewrite lenN_dropN, Lk.
    destruct (N.ltb_spec (k - hs) (getlen h - hs)) as [_|X]; [|lia].
    do 4 eexists. split; [reflexivity|apply eof_err_cases].
Qed.

Definition accepted {A} (r : rhb A) : Prop := (exists q, r_out r = Ok q) /\ concat (r_rest r) = [].

Lemma truncation_v1 dec unzip hd frame p0 :
  accepted (read_packet_v1 dec unzip hd [frame] p0) ->
  forall k s p1, k < lenN frame -> concat s = takeN k frame ->
  eof_kind (r_out (read_packet_v1 dec unzip hd s p1)).
Proof.
  intros [[q Hq] Hrest] k s p1 Hk Hs.
  pose proof (read_packet_v1_flat dec unzip hd [frame] p0) as F. cbv zeta in F.
  cbn [concat] in F. rewrite app_nil_r in F. rewrite Hq, Hrest in F.
  unfold f_packet_v1, f_hb_v1 in F.
  destruct (f_read_hb hs1 max1 get16 frame) as [[[o rest] al] rd] eqn:E.
  cbn [lift_unmarshal] in F. injection F as F1 F2 F3 F4. subst rest.
  destruct o as [[h b]|e|]; try discriminate.
  destruct (f_read_hb_truncate _ _ _ _ _ _ _ _ hs1_le_max1 E k Hk) as (e & rest & al' & rd' & T & He).
  pose proof (read_packet_v1_flat dec unzip hd s p1) as G. cbv zeta in G.
  unfold f_packet_v1, f_hb_v1 in G. rewrite Hs, T in G. cbn [lift_unmarshal] in G.
  injection G as G1 _ _ _. unfold eof_kind. rewrite G1. destruct He as [-> | ->]; [left|right]; reflexivity.
Qed.

Lemma truncation_v2 dec unzip hd frame p0 :
  accepted (read_packet_v2 dec unzip hd [frame] p0) ->
  forall k s p1, k < lenN frame -> concat s = takeN k frame ->
  eof_kind (r_out (read_packet_v2 dec unzip hd s p1)).
Proof.
  intros [[q Hq] Hrest] k s p1 Hk Hs.
  pose proof (read_packet_v2_flat dec unzip hd [frame] p0) as F. cbv zeta in F.
  cbn [concat] in F. rewrite app_nil_r in F. rewrite Hq, Hrest in F.
  unfold f_packet_v2, f_hb_v2 in F.
  destruct (f_read_hb hs2 max2 get24 frame) as [[[o rest] al] rd] eqn:E.
  cbn [lift_unmarshal] in F. injection F as F1 F2 F3 F4. subst rest.
  destruct o as [[h b]|e|]; try discriminate.
  destruct (f_read_hb_truncate _ _ _ _ _ _ _ _ hs2_le_max2 E k Hk) as (e & rest & al' & rd' & T & He).
  pose proof (read_packet_v2_flat dec unzip hd s p1) as G. cbv zeta in G.
  unfold f_packet_v2, f_hb_v2 in G. rewrite Hs, T in G. cbn [lift_unmarshal] in G.
  injection G as G1 _ _ _. unfold eof_kind. rewrite G1. destruct He as [-> | ->]; [left|right]; reflexivity.
Qed.

Lemma truncation_lendata frame :
  wf_bytes frame -> accepted (read_len_data [frame]) ->
  forall k s, k < lenN frame -> concat s = takeN k frame -> eof_kind (r_out (read_len_data s)).
Proof.
  intros W [[q Hq] Hrest] k s Hk Hs.
  pose proof (read_len_data_flat [frame]) as F. cbv zeta in F.
  cbn [concat] in F. rewrite app_nil_r in F. rewrite Hq, Hrest in F. unfold f_len_data in F.
  destruct (N.ltb_spec (lenN frame) 2) as [X|H0]; [discriminate|].
  assert (HL : get16 (takeN 2 frame) < 65536) by (apply get16_lt, wf_bytes_takeN; assumption).
  set (L := get16 (takeN 2 frame)) in *.
  destruct (N.ltb_spec L 2) as [X|H1]; [discriminate|].
  assert (En : (L + 65536 - 2) mod 65536 = L - 2).
  { replace (L + 65536 - 2) with (L - 2 + 1 * 65536) by lia.
    rewrite N.mod_add by discriminate. apply N.mod_small. lia. }
  rewrite En in F.
  destruct (N.ltb_spec (lenN (dropN 2 frame)) (L - 2)) as [X|H2]; [discriminate|].
  injection F as _ F2 _ _.
  assert (Ld : lenN frame = L).
  { apply (f_equal lenN) in F2. rewrite !lenN_dropN in F2. rewrite lenN_dropN in H2. cbn in F2. lia. }
  pose proof (read_len_data_flat s) as G. cbv zeta in G. rewrite Hs in G. unfold f_len_data in G.
  assert (Lk : lenN (takeN k frame) = k) by (apply lenN_takeN; lia). rewrite Lk in G.
  unfold eof_kind.
  destruct (N.ltb_spec k 2) as [K0|K0].
  - injection G as -> _ _ _. destruct (eof_err_cases (takeN k frame)) as [-> | ->]; [left|right]; reflexivity.
  - rewrite takeN_takeN in G by assumption. fold L in G.
    destruct (N.ltb_spec L 2) as [X|_]; [lia|]. rewrite En in G.
    rewrite lenN_dropN, Lk in G.
    destruct (N.ltb_spec (k - 2) (L - 2)) as [_|X]; [|lia].
    injection G as -> _ _ _.
    destruct (eof_err_cases (dropN 2 (takeN k frame))) as [-> | ->]; [left|right]; reflexivity.
Qed.

(* ---------------------------------------------------------------------------------- *)
(* a body that does not match its flags is reported as an error *)

Definition is_err {A} (o : outcome A) : Prop := exists e, o = Err e.

Lemma mismatch_encrypted dec unzip b p :
  N.land (p_flag p) fEncrypted <> 0 -> unmarshal_body dec unzip false b p = Err ENeedDecrypt.
Proof.
  intros H. unfold unmarshal_body.
  destruct (N.eqb_spec (N.land (p_flag p) fEncrypted) 0) as [X|_]; [contradiction|]. reflexivity.
Qed.

Lemma mismatch_compressed dec unzip hd b p :
  N.land (p_flag p) fEncrypted = 0 -> N.land (p_flag p) fCompressed <> 0 -> unzip b = None ->
  unmarshal_body dec unzip hd b p = Err EDecompress.
Proof.
  intros H1 H2 H3. unfold unmarshal_body. rewrite H1. cbn [N.eqb negb].
  destruct (N.eqb_spec (N.land (p_flag p) fCompressed) 0) as [X|_]; [contradiction|].
  cbn [negb]. rewrite H3. reflexivity.
Qed.

Lemma mismatch_compressed_encrypted dec unzip b p :
  N.land (p_flag p) fEncrypted <> 0 ->
  N.land (N.ldiff (p_flag p) fEncrypted) fCompressed <> 0 -> unzip (dec b) = None ->
  unmarshal_body dec unzip true b p = Err EDecompress.
Proof.
  intros H1 H2 H3. unfold unmarshal_body.
  destruct (N.eqb_spec (N.land (p_flag p) fEncrypted) 0) as [X|_]; [contradiction|]. cbn [negb].
  destruct (N.eqb_spec (N.land (N.ldiff (p_flag p) fEncrypted) fCompressed) 0) as [X|_]; [contradiction|].
  cbn [negb]. rewrite H3. reflexivity.
Qed.

Lemma mismatch_refcount dec unzip hd h b p :
  lenN b < byte_at 5 h * 4 -> is_err (unmarshal_v2 dec unzip hd h b p) \/ lenN h < hs2.
Proof.
  intros H. unfold unmarshal_v2.
  destruct (N.ltb_spec (lenN h) hs2) as [X|_]; [right; assumption|left].
  destruct (negb _); [eexists; reflexivity|].
  destruct (N.ltb_spec 0 (byte_at 5 h)) as [_|X]; [|lia].
  destruct (N.ltb_spec (lenN b) (byte_at 5 h * 4)) as [_|X]; [|lia].
  eexists; reflexivity.
Qed.

(* lifted to ReadPacket: what ReadHeadBody returned is what UnmarshalPacket judges *)
Lemma read_packet_v1_out dec unzip hd s p0 h b :
  r_out (read_head_body_v1 s) = Ok (h, b) ->
  r_out (read_packet_v1 dec unzip hd s p0) = unmarshal_v1 dec unzip hd h b p0.
Proof. intros H. unfold read_packet_v1. rewrite H. reflexivity. Qed.

Lemma read_packet_v2_out dec unzip hd s p0 h b :
  r_out (read_head_body_v2 s) = Ok (h, b) ->
  r_out (read_packet_v2 dec unzip hd s p0) = unmarshal_v2 dec unzip hd h b p0.
Proof. intros H. unfold read_packet_v2. rewrite H. reflexivity. Qed.

(* frame level, V1: the payload is the body *)
Definition flags_mismatch (dec : bytes -> bytes) (unzip : bytes -> option bytes) (hd : bool)
           (flag : N) (b : bytes) : Prop :=
  (N.land flag fEncrypted <> 0 /\ hd = false)
  \/ (N.land flag fEncrypted = 0 /\ N.land flag fCompressed <> 0 /\ unzip b = None)
  \/ (N.land flag fEncrypted <> 0 /\ hd = true
      /\ N.land (N.ldiff flag fEncrypted) fCompressed <> 0 /\ unzip (dec b) = None).

Lemma unmarshal_body_mismatch dec unzip hd b p :
  flags_mismatch dec unzip hd (p_flag p) b -> is_err (unmarshal_body dec unzip hd b p).
Proof.
  intros [[H1 ->]|[(H1 & H2 & H3)|(H1 & -> & H2 & H3)]].
  - eexists. apply mismatch_encrypted. assumption.
  - eexists. apply mismatch_compressed; assumption.
  - eexists. apply mismatch_compressed_encrypted; assumption.
Qed.

(* a mismatch always involves one of the two marshalling bits *)
Lemma land_marshal_l f : N.land f fEncrypted <> 0 -> N.land f fMarshal <> 0.
Proof.
  intros H E. apply H. change fEncrypted with 2. change fMarshal with 3 in E.
  replace 2 with (N.land 3 2) by reflexivity. rewrite N.land_assoc, E. reflexivity.
Qed.
Lemma land_marshal_r f : N.land f fCompressed <> 0 -> N.land f fMarshal <> 0.
Proof.
  intros H E. apply H. change fCompressed with 1. change fMarshal with 3 in E.
  replace 1 with (N.land 3 1) by reflexivity. rewrite N.land_assoc, E. reflexivity.
Qed.
Lemma flags_mismatch_marshal dec unzip hd f b : flags_mismatch dec unzip hd f b -> N.land f fMarshal <> 0.
Proof.
  intros [[H _]|[(_ & H & _)|(H & _)]];
    [apply land_marshal_l|apply land_marshal_r|apply land_marshal_l]; assumption.
Qed.

Lemma flag_mismatch_v1 dec unzip hd s p0 h b :
  r_out (read_head_body_v1 s) = Ok (h, b) ->
  flags_mismatch dec unzip hd (byte_at 3 h) b ->
  is_err (r_out (read_packet_v1 dec unzip hd s p0)).
Proof.
  intros H M. rewrite (read_packet_v1_out _ _ _ _ _ _ _ H).
  pose proof (head_body_v1_flat s) as F. cbv zeta in F. rewrite H in F.
  pose proof (f_read_hb_bounded hs1 max1 get16 hs1_le_max1 (concat s)) as B.
  unfold f_hb_v1 in F. rewrite <- F in B. destruct B as (_ & _ & _ & B).
  destruct (B h b eq_refl) as (Lh & _).
  unfold unmarshal_v1. rewrite Lh, N.ltb_irrefl.
  destruct (negb _); [eexists; reflexivity|]. cbn [p_flag].
  destruct (N.eqb_spec (N.land (byte_at 3 h) fMarshal) 0) as [X|_];
    [exfalso; revert X; eapply flags_mismatch_marshal; exact M|].
  rewrite orb_true_r.
  apply unmarshal_body_mismatch. exact M.
Qed.

(* V2: the body follows the references *)
Lemma flag_mismatch_v2 dec unzip hd s p0 h b :
  r_out (read_head_body_v2 s) = Ok (h, b) ->
  byte_at 5 h * 4 <= lenN b ->
  flags_mismatch dec unzip hd (byte_at 4 h) (dropN (byte_at 5 h * 4) b) ->
  is_err (r_out (read_packet_v2 dec unzip hd s p0)).
Proof.
  intros H Hb M. rewrite (read_packet_v2_out _ _ _ _ _ _ _ H).
  pose proof (head_body_v2_flat s) as F. cbv zeta in F. rewrite H in F.
  pose proof (f_read_hb_bounded hs2 max2 get24 hs2_le_max2 (concat s)) as B.
  unfold f_hb_v2 in F. rewrite <- F in B. destruct B as (_ & _ & _ & B).
  destruct (B h b eq_refl) as (Lh & _).
  unfold unmarshal_v2. rewrite Lh, N.ltb_irrefl.
  destruct (negb _); [eexists; reflexivity|].
  destruct (N.ltb_spec 0 (byte_at 5 h)) as [Hr|Hr].
  - destruct (N.ltb_spec (lenN b) (byte_at 5 h * 4)) as [X|_]; [lia|].
    destruct (read_refs_some (N.to_nat (byte_at 5 h)) b) as [l E]; [lia|]. rewrite E.
    destruct (N.ltb_spec (lenN b) (byte_at 5 h * 4)) as [X|_]; [lia|].
    unfold set_refers. cbn [p_flag].
    destruct (N.eqb_spec (N.land (byte_at 4 h) fMarshal) 0) as [X|_];
      [exfalso; revert X; eapply flags_mismatch_marshal; exact M|].
    rewrite orb_true_r.
    apply unmarshal_body_mismatch. exact M.
  - assert (E0 : byte_at 5 h = 0) by lia. rewrite E0 in *. cbn [N.mul] in *.
    destruct (N.ltb_spec (lenN b) 0) as [X|_]; [lia|].
    rewrite dropN_0 in *. cbn [p_flag].
    destruct (N.eqb_spec (N.land (byte_at 4 h) fMarshal) 0) as [X|_];
      [exfalso; revert X; eapply flags_mismatch_marshal; exact M|].
    rewrite orb_true_r.
    apply unmarshal_body_mismatch. exact M.
Qed.

Lemma refcount_mismatch_v2 dec unzip hd s p0 h b :
  r_out (read_head_body_v2 s) = Ok (h, b) -> lenN b < byte_at 5 h * 4 ->
  is_err (r_out (read_packet_v2 dec unzip hd s p0)).
Proof.
  intros H Hb. rewrite (read_packet_v2_out _ _ _ _ _ _ _ H).
  pose proof (head_body_v2_flat s) as F. cbv zeta in F. rewrite H in F.
  pose proof (f_read_hb_bounded hs2 max2 get24 hs2_le_max2 (concat s)) as B.
  unfold f_hb_v2 in F. rewrite <- F in B. destruct B as (_ & _ & _ & B).
  destruct (B h b eq_refl) as (Lh & _).
  destruct (mismatch_refcount dec unzip hd h b p0 Hb) as [E|X]; [exact E|lia].
Qed.
