(* C02 — the reader pump: what is delivered is exactly the run of frames that decode before
   the first error, that error closes the connection, nothing behind it is interpreted. *)
From Coq Require Import Arith ZArith NArith List Bool Lia ZifyNat ZifyN ZifyBool.
From FV Require Import Generated.Consts Lib.NList Lib.BE Lib.Crc32 C02.Model C01.ProofsIO C01.ProofsV1 C01.ProofsV2 C01.Proofs C02.Proofs C02.ProofsCrc.
Import ListNotations.
Open Scope N_scope.

Section Pump.
Variable read : stream -> rhb packet.

Lemma read_pump_spec fuel : forall s,
  let '(ds, e, rest) := read_pump read fuel s in
  fst (read_many _ read (length ds) s) = map Ok ds
  /\ match e with
     | Closed err => r_out (read (snd (read_many _ read (length ds) s))) = Err err
                     /\ rest = r_rest (read (snd (read_many _ read (length ds) s)))
     | Crashed => r_out (read (snd (read_many _ read (length ds) s))) = Panic
     | StillReading => length ds = fuel /\ rest = snd (read_many _ read (length ds) s)
     end.
Proof.
  induction fuel as [|f IH]; intros s; cbn [read_pump].
  - cbn. repeat split.
  - destruct (r_out (read s)) as [p|e|] eqn:E.
    + specialize (IH (r_rest (read s))).
      destruct (read_pump read f (r_rest (read s))) as [[ds e] rest].
      destruct IH as [IH1 IH2]. cbn [length]. rewrite read_many_S. cbn [fst snd map].
      rewrite E, IH1. split; [reflexivity|].
      destruct e; [exact IH2|exact IH2|]. destruct IH2 as [-> ->]. split; reflexivity.
    + cbn. split; [reflexivity|split; [exact E|reflexivity]].
    + cbn. split; [reflexivity|exact E].
Qed.

(* every delivered frame consumed at least [hs] bytes: enough fuel always reaches the end *)
Variable hs : N.
Hypothesis hs_pos : 0 < hs.
Hypothesis read_consumes : forall s p, r_out (read s) = Ok p ->
  hs + lenN (concat (r_rest (read s))) <= lenN (concat s).

Lemma read_pump_ends fuel : forall s,
  lenN (concat s) < N.of_nat fuel * hs ->
  snd (fst (read_pump read fuel s)) <> StillReading.
Proof.
  induction fuel as [|f IH]; intros s H; [cbn in H; lia|].
  cbn [read_pump]. destruct (r_out (read s)) as [p|e|] eqn:E; try (cbn; discriminate).
  pose proof (read_consumes s p E) as C.
  specialize (IH (r_rest (read s))).
  destruct (read_pump read f (r_rest (read s))) as [[ds e] rest]. cbn [fst snd] in *.
  apply IH. lia.
Qed.
End Pump.

(* the two formats consume at least a header per delivered frame *)
Lemma read_v1_consumes dec unzip hd s p :
  r_out (read_packet_v1 dec unzip hd s packet0) = Ok p ->
  hs1 + lenN (concat (r_rest (read_packet_v1 dec unzip hd s packet0))) <= lenN (concat s).
Proof.
  intros H. pose proof (read_packet_v1_flat dec unzip hd s packet0) as F. cbv zeta in F.
  unfold f_packet_v1, f_hb_v1 in F.
  pose proof (f_read_hb_bounded hs1 max1 get16 hs1_le_max1 (concat s)) as B.
  destruct (f_read_hb hs1 max1 get16 (concat s)) as [[[o rest] al] rd].
  cbn [lift_unmarshal] in F. injection F as F1 F2 _ _. rewrite H in F1.
  destruct o as [[h b]|e|]; try discriminate.
  destruct B as (_ & _ & _ & B). destruct (B h b eq_refl) as (Lh & _ & _ & Hd).
  rewrite F2, Hd, !lenN_app. lia.
Qed.

Lemma read_v2_consumes dec unzip hd s p :
  r_out (read_packet_v2 dec unzip hd s packet0) = Ok p ->
  hs2 + lenN (concat (r_rest (read_packet_v2 dec unzip hd s packet0))) <= lenN (concat s).
Proof.
  intros H. pose proof (read_packet_v2_flat dec unzip hd s packet0) as F. cbv zeta in F.
  unfold f_packet_v2, f_hb_v2 in F.
  pose proof (f_read_hb_bounded hs2 max2 get24 hs2_le_max2 (concat s)) as B.
  destruct (f_read_hb hs2 max2 get24 (concat s)) as [[[o rest] al] rd].
  cbn [lift_unmarshal] in F. injection F as F1 F2 _ _. rewrite H in F1.
  destruct o as [[h b]|e|]; try discriminate.
  destruct B as (_ & _ & _ & B). destruct (B h b eq_refl) as (Lh & _ & _ & Hd).
  rewrite F2, Hd, !lenN_app. lia.
Qed.

Definition pump_v1 dec unzip hd := read_pump (fun s => read_packet_v1 dec unzip hd s packet0).
Definition pump_v2 dec unzip hd := read_pump (fun s => read_packet_v2 dec unzip hd s packet0).

(* the statement for the connection: with enough fuel for the bytes that arrive the reader ends
   by closing the connection with an error (never crashing, never still running); the frames
   delivered are exactly those that decode, in order, before that error; the error is the
   result of the very next read; the bytes behind it are left uninterpreted *)
Definition conn_closes (read : stream -> rhb packet) (fuel : nat) (s : stream) : Prop :=
  let '(ds, e, rest) := read_pump read fuel s in
  fst (read_many _ read (length ds) s) = map Ok ds
  /\ exists err, e = Closed err
     /\ r_out (read (snd (read_many _ read (length ds) s))) = Err err
     /\ rest = r_rest (read (snd (read_many _ read (length ds) s))).

Lemma conn_closes_v1 dec unzip hd fuel s :
  lenN (concat s) < N.of_nat fuel * hs1 ->
  conn_closes (fun s => read_packet_v1 dec unzip hd s packet0) fuel s.
Proof.
  intros H. unfold conn_closes.
  pose proof (read_pump_spec (fun s => read_packet_v1 dec unzip hd s packet0) fuel s) as S.
  pose proof (read_pump_ends (fun s => read_packet_v1 dec unzip hd s packet0) hs1 eq_refl
                (read_v1_consumes dec unzip hd) fuel s H) as E.
  destruct (read_pump _ fuel s) as [[ds e] rest]. cbn [fst snd] in E.
  destruct S as [S1 S2]. split; [exact S1|].
  destruct e as [err| |]; [exists err; split; [reflexivity|exact S2]| |contradiction].
  exfalso. revert S2. apply total_v1.
Qed.

Lemma conn_closes_v2 dec unzip hd fuel s :
  lenN (concat s) < N.of_nat fuel * hs2 ->
  conn_closes (fun s => read_packet_v2 dec unzip hd s packet0) fuel s.
Proof.
  intros H. unfold conn_closes.
  pose proof (read_pump_spec (fun s => read_packet_v2 dec unzip hd s packet0) fuel s) as S.
  pose proof (read_pump_ends (fun s => read_packet_v2 dec unzip hd s packet0) hs2 eq_refl
                (read_v2_consumes dec unzip hd) fuel s H) as E.
  destruct (read_pump _ fuel s) as [[ds e] rest]. cbn [fst snd] in E.
  destruct S as [S1 S2]. split; [exact S1|].
  destruct e as [err| |]; [exists err; split; [reflexivity|exact S2]| |contradiction].
  exfalso. revert S2. apply total_v2.
Qed.

(* ---------------------------------------------------------------------------------- *)
(* whole streams: good frames, then a damaged one, then anything *)

(* [f] decodes to [q] wherever it stands in a stream, the reader ending exactly behind it *)
Definition decodes_as (read : stream -> rhb packet) (f : bytes) (q : packet) : Prop :=
  forall s rest, concat s = f ++ rest ->
  r_out (read s) = Ok q /\ concat (r_rest (read s)) = rest.

Lemma pump_good_then_bad (read : stream -> rhb packet) frames qs :
  Forall2 (decodes_as read) frames qs ->
  forall fuel s tail err,
  concat s = concat frames ++ tail ->
  (forall s', concat s' = tail -> r_out (read s') = Err err) ->
  (length frames < fuel)%nat ->
  fst (fst (read_pump read fuel s)) = qs /\ snd (fst (read_pump read fuel s)) = Closed err.
Proof.
  induction 1 as [|f q fs qs Hf _ IH]; intros fuel s tail err Hs Hbad Hfuel.
  - destruct fuel as [|fuel]; [cbn in Hfuel; lia|]. cbn [read_pump concat app] in *.
    rewrite (Hbad s Hs). split; reflexivity.
  - destruct fuel as [|fuel]; [cbn in Hfuel; lia|]. cbn [read_pump concat length] in *.
    rewrite <- app_assoc in Hs. destruct (Hf s _ Hs) as [O R]. rewrite O.
    specialize (IH fuel (r_rest (read s)) tail err R Hbad ltac:(lia)).
    destruct (read_pump read fuel (r_rest (read s))) as [[ds e] rest]. cbn [fst snd] in *.
    destruct IH as [-> ->]. split; reflexivity.
Qed.

(* the connection-level form of the checksum sentence: frames that decode, then an accepted
   frame with one bit flipped (outside its length field), then any bytes: the reader delivers
   exactly the packets before the damage and closes the connection with a checksum error; the
   damaged frame and everything behind it is never delivered *)
Lemma stream_flip_v1 dec unzip hd frames qs frame p0 i fuel s tail :
  Forall2 (decodes_as (fun s => read_packet_v1 dec unzip hd s packet0)) frames qs ->
  wf_bytes frame -> accepted (read_packet_v1 dec unzip hd [frame] p0) ->
  16 <= i -> i < 8 * lenN frame ->
  concat s = concat frames ++ flip_bit i frame ++ tail ->
  (length frames < fuel)%nat ->
  pump_v1 dec unzip hd fuel s = (qs, Closed EChecksum, snd (pump_v1 dec unzip hd fuel s)).
Proof.
  intros HF W A Hi1 Hi2 Hs Hfuel. unfold pump_v1.
  destruct (pump_good_then_bad _ frames qs HF fuel s (flip_bit i frame ++ tail) EChecksum Hs) as [E1 E2];
    [|assumption|].
  - intros s' Hs'. apply (crc_flip_tail_v1 dec unzip hd frame p0 i s' packet0 tail W A Hi1 Hi2 Hs').
  - destruct (read_pump _ fuel s) as [[ds e] rest]. cbn [fst snd] in *. subst. reflexivity.
Qed.

Lemma stream_flip_v2 dec unzip hd frames qs frame p0 i fuel s tail :
  Forall2 (decodes_as (fun s => read_packet_v2 dec unzip hd s packet0)) frames qs ->
  wf_bytes frame -> accepted (read_packet_v2 dec unzip hd [frame] p0) ->
  24 <= i -> i < 8 * lenN frame ->
  concat s = concat frames ++ flip_bit i frame ++ tail ->
  (length frames < fuel)%nat ->
  pump_v2 dec unzip hd fuel s = (qs, Closed EChecksum, snd (pump_v2 dec unzip hd fuel s)).
Proof.
  intros HF W A Hi1 Hi2 Hs Hfuel. unfold pump_v2.
  destruct (pump_good_then_bad _ frames qs HF fuel s (flip_bit i frame ++ tail) EChecksum Hs) as [E1 E2];
    [|assumption|].
  - intros s' Hs'. apply (crc_flip_tail_v2 dec unzip hd frame p0 i s' packet0 tail W A Hi1 Hi2 Hs').
  - destruct (read_pump _ fuel s) as [[ds e] rest]. cbn [fst snd] in *. subst. reflexivity.
Qed.

(* what the encoder writes for a sendable packet is such a frame (C01 round trip) *)
Lemma written_decodes_as_v1 enc dec zip unzip : codec_env enc dec zip unzip ->
  forall thr has_c hd p n ws p', (has_c = true -> hd = true) ->
  wf_packet p -> clean_flags p ->
  write_v1 enc zip thr has_c p = mkWres (Some n) ws p' ->
  decodes_as (fun s => read_packet_v1 dec unzip hd s packet0) (concat ws) (decoded_v1 p packet0).
Proof.
  intros [E1 E2 E3 E4] thr has_c hd p n ws p' Himp W Hc Hw s rest Hs.
  destruct (roundtrip_v1 enc dec zip unzip E1 E2 E3 E4 thr has_c hd p n ws p' s rest packet0 Himp W Hc Hw Hs)
    as (R1 & R2 & _). split; assumption.
Qed.

Lemma written_decodes_as_v2 enc dec zip unzip : codec_env enc dec zip unzip ->
  forall thr has_c hd p n ws p', (has_c = true -> hd = true) ->
  wf_packet p -> clean_flags p ->
  write_v2 enc zip thr has_c p = mkWres (Some n) ws p' ->
  decodes_as (fun s => read_packet_v2 dec unzip hd s packet0) (concat ws) (decoded_v2 p packet0).
Proof.
  intros [E1 E2 E3 E4] thr has_c hd p n ws p' Himp W Hc Hw s rest Hs.
  destruct (roundtrip_v2 enc dec zip unzip E1 E2 E3 E4 thr has_c hd p n ws p' s rest packet0 Himp W Hc Hw Hs)
    as (R1 & R2 & _). split; assumption.
Qed.
