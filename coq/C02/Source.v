(* C02 — the decoders' size guards, regenerated from the source by tools/gofunc
   (Generated/CodecHeader.v): codecV1.ReadHeadBody, codecV2.ReadHeadBody and ReadLenData as
   whole functions - io.ReadFull is declared external ("io:ReadFull#externw": what each of
   its calls returned, and what it left in the buffer it was given, are parameters of the
   definitions), the errors are codes (0 = nil, 1 = an error made on the spot by fmt.Errorf) -
   together with V1Header.Len, V2Header.Len and bigEndianGet (the 3-byte length through a
   [4]byte array and copy) and encoding/binary from the standard library's source; and the
   heads of codecV1.WritePacket / codecV2.WritePacket up to their size checks.

   Given a complete header, the translated decoder refuses (returns nil, nil, a fresh error)
   EXACTLY when the model's decoder refuses from the header alone - [refuses_v1], the guard of
   Model.read_head_body_v1: length field above the maximum or below the header size - and
   otherwise hands back the header it read and the payload of the second read (or that read's
   error); the buffer it allocates for the payload has the model's size.  The encoders' heads
   refuse exactly when the model's write_v1 / write_v2 refuse. *)
From Coq Require Import Arith ZArith NArith List Bool Lia ZifyNat ZifyN ZifyBool.
From FV Require Import Generated.Consts Generated.CodecHeader Lib.GoSem Lib.Bits Lib.NList Lib.BE
     C01.Model C01.Source C01.SourceBE.
Import ListNotations.
Local Open Scope Z_scope.

Ltac Zify.zify_post_hook ::= Z.div_mod_to_equations.

(* the model's guards on the length field *)
Definition refuses_v1 (h : bytes) : bool := ((max1 <? get16 h) || (get16 h <? hs1))%N.
Definition refuses_v2 (h : bytes) : bool := ((max2 <? get24 h) || (get24 h <? hs2))%N.
Definition refuses_len (t : bytes) : bool := (get16 t <? 2)%N.

Lemma model_guard_v1 s h s1 : read_full hs1 s = (Model.Ok h, s1) ->
  read_head_body_v1 s =
  if refuses_v1 h then mkRhb (Model.Err ELength) s1 [] [hs1]
  else let n := ((get16 h + 65536 - hs1) mod 65536)%N in
       match read_full n s1 with
       | (Model.Ok payload, s2) => mkRhb (Model.Ok (h, payload)) s2 [n] [hs1; n]
       | (Model.Err e, s2) => mkRhb (Model.Err e) s2 [n] [hs1; n]
       | (Model.Panic, s2) => mkRhb Model.Panic s2 [n] [hs1; n]
       end.
Proof.
  intros E. unfold read_head_body_v1, refuses_v1. rewrite E. cbv zeta.
  destruct (max1 <? get16 h)%N; [reflexivity|]. destruct (get16 h <? hs1)%N; reflexivity.
Qed.

Lemma model_guard_v2 s h s1 : read_full hs2 s = (Model.Ok h, s1) ->
  read_head_body_v2 s =
  if refuses_v2 h then mkRhb (Model.Err ELength) s1 [] [hs2]
  else let n := ((get24 h + 4294967296 - hs2) mod 4294967296)%N in
       match read_full n s1 with
       | (Model.Ok payload, s2) => mkRhb (Model.Ok (h, payload)) s2 [n] [hs2; n]
       | (Model.Err e, s2) => mkRhb (Model.Err e) s2 [n] [hs2; n]
       | (Model.Panic, s2) => mkRhb Model.Panic s2 [n] [hs2; n]
       end.
Proof.
  intros E. unfold read_head_body_v2, refuses_v2. rewrite E. cbv zeta.
  destruct (max2 <? get24 h)%N; [reflexivity|]. destruct (get24 h <? hs2)%N; reflexivity.
Qed.

(* ---- V2Header.Len: the three length bytes through bigEndianGet *)
Lemma src_len_v2 (h : bytes) : wf_bytes h -> (3 <= length h)%nat ->
  go_V2Header_Len (zbytes h) = GoSem.Ok (Z.of_N (get24 h)).
Proof.
  intros Hw Hl. destruct h as [|a [|b [|c r]]]; cbn [length] in Hl; try lia.
  inversion Hw as [|? ? Ha Hw1]; subst. inversion Hw1 as [|? ? Hb Hw2]; subst. inversion Hw2 as [|? ? Hc _]; subst.
  unfold go_V2Header_Len, go_bigEndianGet, zbytes. cbn [map]. cbv zeta.
  rewrite go_slice_ok by (unfold go_len; cbn [length]; lia). cbn [GoSem.bind].
  change (Z.to_nat (3 - 0)) with 3%nat. change (Z.to_nat 0) with 0%nat. cbn [skipn firstn].
  change (go_slice_from (go_zeros 4) 1) with (GoSem.Ok [0; 0; 0]). cbn [GoSem.bind].
  rewrite go_slice_ok by (unfold go_len; cbn [length]; lia). cbn [GoSem.bind].
  change (Z.to_nat (3 - 0)) with 3%nat. change (Z.to_nat 0) with 0%nat. cbn [skipn firstn].
  change (go_copy [0; 0; 0] [Z.of_N a; Z.of_N b; Z.of_N c]) with ([Z.of_N a; Z.of_N b; Z.of_N c], 3).
  cbv iota beta. change (go_splice (go_zeros 4) 1 [Z.of_N a; Z.of_N b; Z.of_N c]) with (zbytes [0%N; a; b; c]).
  rewrite be32_src by (try (constructor; [unfold is_byte; lia|constructor; [assumption|constructor; [assumption|constructor; [assumption|constructor]]]]); cbn [length]; lia).
  cbn [GoSem.bind get32 get24]. f_equal; lia.
Qed.

Lemma nz_if (e : Z) : e <> 0 -> negb (e =? 0) = true.
Proof. intros H. destruct (Z.eqb_spec e 0); [contradiction|reflexivity]. Qed.

(* ---- codecV1.ReadHeadBody *)
Lemma src_read_v1_err n1 e1 w1 n2 e2 w2 : e1 <> 0 ->
  go_codecV1_ReadHeadBody n1 e1 w1 n2 e2 w2 = GoSem.Ok ([], [], e1).
Proof. intros H. unfold go_codecV1_ReadHeadBody. cbv zeta. rewrite nz_if by assumption. reflexivity. Qed.

Lemma src_read_v1 (h : bytes) n1 n2 e2 w2 : wf_bytes h -> lenN h = hs1 ->
  go_codecV1_ReadHeadBody n1 0 (zbytes h) n2 e2 w2 =
  GoSem.Ok (if refuses_v1 h then ([], [], 1)
            else if e2 =? 0 then (zbytes h, w2, 0) else ([], [], e2)).
Proof.
  intros Hw Hl. unfold go_codecV1_ReadHeadBody, refuses_v1. cbv zeta. cbn [Z.eqb negb].
  destruct (src_fields_v1 h Hw ltac:(lia)) as [EL _]. rewrite EL. cbn [GoSem.bind].
  pose proof (get16_lt h Hw) as B.
  change max1 with 61440%N. change hs1 with 14%N.
  destruct (N.ltb_spec 61440 (get16 h)) as [H1|H1].
  - destruct (Z.gtb_spec (Z.of_N (get16 h)) 61440); [reflexivity|lia].
  - destruct (Z.gtb_spec (Z.of_N (get16 h)) 61440); [lia|]. cbn [orb].
    destruct (N.ltb_spec (get16 h) 14) as [H2|H2].
    + destruct (Z.ltb_spec (Z.of_N (get16 h)) 14); [reflexivity|lia].
    + destruct (Z.ltb_spec (Z.of_N (get16 h)) 14); [lia|].
      rewrite go_make_ok by lia. cbn [GoSem.bind].
      destruct (e2 =? 0); reflexivity.
Qed.

(* the buffer ReadHeadBody allocates for the payload has the size the model records *)
Lemma src_alloc_v1 (h : bytes) : wf_bytes h -> refuses_v1 h = false ->
  (Z.of_N (get16 h) - 14) mod 65536 = Z.of_N ((get16 h + 65536 - hs1) mod 65536).
Proof.
  unfold refuses_v1. change max1 with 61440%N. change hs1 with 14%N. intros Hw H.
  pose proof (get16_lt h Hw). apply orb_false_elim in H. destruct H as [H1 H2].
  apply N.ltb_ge in H1. apply N.ltb_ge in H2. lia.
Qed.

(* ---- codecV2.ReadHeadBody *)
Lemma src_read_v2_err n1 e1 w1 n2 e2 w2 : e1 <> 0 ->
  go_codecV2_ReadHeadBody n1 e1 w1 n2 e2 w2 = GoSem.Ok ([], [], e1).
Proof. intros H. unfold go_codecV2_ReadHeadBody. cbv zeta. rewrite nz_if by assumption. reflexivity. Qed.

Lemma src_read_v2 (h : bytes) n1 n2 e2 w2 : wf_bytes h -> lenN h = hs2 ->
  go_codecV2_ReadHeadBody n1 0 (zbytes h) n2 e2 w2 =
  GoSem.Ok (if refuses_v2 h then ([], [], 1)
            else if e2 =? 0 then (zbytes h, w2, 0) else ([], [], e2)).
Proof.
  intros Hw Hl. unfold go_codecV2_ReadHeadBody, refuses_v2. cbv zeta. cbn [Z.eqb negb].
  assert (L : (3 <= length h)%nat) by (unfold lenN, hs2, codec_V2HeaderSize in Hl; lia).
  rewrite (src_len_v2 h Hw L). cbn [GoSem.bind].
  pose proof (get24_lt h Hw) as B.
  change max2 with 8388608%N. change hs2 with 20%N.
  destruct (N.ltb_spec 8388608 (get24 h)) as [H1|H1].
  - destruct (Z.gtb_spec (Z.of_N (get24 h)) 8388608); [reflexivity|lia].
  - destruct (Z.gtb_spec (Z.of_N (get24 h)) 8388608); [lia|]. cbn [orb].
    destruct (N.ltb_spec (get24 h) 20) as [H2|H2].
    + destruct (Z.ltb_spec (Z.of_N (get24 h)) 20); [reflexivity|lia].
    + destruct (Z.ltb_spec (Z.of_N (get24 h)) 20); [lia|].
      rewrite go_make_ok by lia. cbn [GoSem.bind].
      destruct (e2 =? 0); reflexivity.
Qed.

Lemma src_alloc_v2 (h : bytes) : wf_bytes h -> refuses_v2 h = false ->
  (Z.of_N (get24 h) - 20) mod 4294967296 = Z.of_N ((get24 h + 4294967296 - hs2) mod 4294967296).
Proof.
  unfold refuses_v2. change max2 with 8388608%N. change hs2 with 20%N. intros Hw H.
  pose proof (get24_lt h Hw). apply orb_false_elim in H. destruct H as [H1 H2].
  apply N.ltb_ge in H1. apply N.ltb_ge in H2. lia.
Qed.

(* ---- ReadLenData *)
Lemma src_read_len (t : bytes) n1 n2 e2 w2 : wf_bytes t -> length t = 2%nat ->
  go_ReadLenData n1 0 (zbytes t) n2 e2 w2 =
  GoSem.Ok (if refuses_len t then ([], 1) else if e2 =? 0 then (w2, 0) else ([], e2)).
Proof.
  intros Hw Hl. unfold go_ReadLenData, refuses_len. cbv zeta. cbn [Z.eqb negb].
  rewrite be16_src by (try assumption; lia). cbn [GoSem.bind].
  pose proof (get16_lt t Hw) as B.
  destruct (N.ltb_spec (get16 t) 2) as [H2|H2].
  - destruct (Z.ltb_spec (Z.of_N (get16 t)) 2); [reflexivity|lia].
  - destruct (Z.ltb_spec (Z.of_N (get16 t)) 2); [lia|].
    rewrite go_make_ok by lia. cbn [GoSem.bind]. destruct (e2 =? 0); reflexivity.
Qed.

(* ---- the encoders' heads: refused exactly when the model's write_v1 / write_v2 refuse *)
Lemma src_write_guard_v1 thr (body : list Z) : go_len body < 2 ^ 62 ->
  match go_codecV1_WritePacket_prefix thr body 0 with
  | GoSem.Ok (Returned _ _) => (max1 <? hs1 + N.of_nat (length body))%N = true
  | GoSem.Ok (Reached (b, _, nbytes, _, _)) =>
      (max1 <? hs1 + N.of_nat (length body))%N = false /\ b = body /\ nbytes = Z.of_N (hs1 + N.of_nat (length body))
  | _ => False
  end.
Proof.
  intros Hb. unfold go_codecV1_WritePacket_prefix, go_len in *. cbv zeta. cbn [Z.eqb negb].
  change (2 ^ 62) with 4611686018427387904 in Hb. change max1 with 61440%N. change hs1 with 14%N.
  rewrite Z.mod_small by lia.
  destruct (Z.gtb_spec (14 + Z.of_nat (length body) + 9223372036854775808 - 9223372036854775808) 61440).
  - apply N.ltb_lt. lia.
  - cbn [GoSem.bind go_make Z.ltb]. repeat split; [apply N.ltb_ge; lia | lia].
Qed.

Lemma src_write_guard_v2 thr (refs body : list Z) : go_len body < 2 ^ 61 ->
  match go_codecV2_WritePacket_prefix thr refs body 0 with
  | GoSem.Ok (Returned k _) =>
      if k =? 1 then (max_u8 <? N.of_nat (length refs))%N = true
      else (max_u8 <? N.of_nat (length refs))%N = false /\
           (max2 <? hs2 + N.of_nat (length refs) * 4 + N.of_nat (length body))%N = true
  | GoSem.Ok (Reached (_, b, _, nn, nbytes, buf)) =>
      (max_u8 <? N.of_nat (length refs))%N = false /\
      (max2 <? hs2 + N.of_nat (length refs) * 4 + N.of_nat (length body))%N = false /\
      b = body /\ nn = Z.of_N (hs2 + N.of_nat (length refs) * 4) /\
      nbytes = Z.of_N (hs2 + N.of_nat (length refs) * 4 + N.of_nat (length body)) /\ length buf = Z.to_nat nn
  | _ => False
  end.
Proof.
  intros Hb. unfold go_codecV2_WritePacket_prefix, go_len in *. cbv zeta. cbn [Z.eqb negb].
  change (2 ^ 61) with 2305843009213693952 in Hb.
  change max2 with 8388608%N. change hs2 with 20%N. change max_u8 with 255%N.
  destruct (Z.gtb_spec (Z.of_nat (length refs)) 255) as [H1|H1].
  - cbn [Z.eqb Pos.eqb]. apply N.ltb_lt. lia.
  - rewrite (Z.mod_small (Z.of_nat (length refs) * 4 + 9223372036854775808)) by lia.
    rewrite (Z.mod_small (20 + _ + 9223372036854775808)) by lia.
    rewrite (Z.mod_small (_ + Z.of_nat (length body) + 9223372036854775808)) by lia.
    match goal with |- context [if ?c >? 8388608 then _ else _] => destruct (Z.gtb_spec c 8388608) as [H2|H2] end.
    + cbn [Z.eqb Pos.eqb]. split; [apply N.ltb_ge; lia | apply N.ltb_lt; lia].
    + rewrite go_make_ok by lia. cbn [GoSem.bind].
      repeat split; try (apply N.ltb_ge; lia); try lia. rewrite go_zeros_length. reflexivity.
Qed.
