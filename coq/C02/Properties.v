(* C02 — placeholder while the pipeline is brought up; theorems follow. *)
From Coq Require Import ZArith NArith List Bool.
From FV Require Import C01.Model.
