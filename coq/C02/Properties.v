(* C02 — Decoders refuse malformed or corrupted frames: no panic, no oversized allocation.
   This file holds only the property theorems; each is closed by an exact lemma and followed
   by Print Assumptions.  Model: the decode side of C01/Model.v (codec/v1_codec.go,
   v2_codec.go, marshal.go, codec.go), every Go bounds check explicit ([Panic]), every make
   recorded in [r_allocs], every buffer handed to io.ReadFull in [r_reads].

   A stream is ANY list of chunks; [dec], [unzip] are ANY functions (the cipher and zlib enter
   unconstrained); [hd] = a decryptor is installed; [p0] = the packet being filled. *)
From Coq Require Import ZArith NArith List Bool.
From FV Require Import Lib.NList Lib.BE Lib.Crc32 C02.Model C01.ProofsIO C01.Proofs C02.Proofs C02.ProofsCrc C02.ProofsConn.
Import ListNotations.
Open Scope N_scope.

(* "Whatever bytes arrive on a stream, reading a frame ends with either a packet or an error:
   it never panics, and it never allocates or waits for more payload than the format's maximum
   frame size."  bounded_by mx r  =  r_out r <> Panic /\ every allocation <= mx /\ the bytes
   requested from the reader sum to <= mx *)
Theorem c02_total_v1 : forall dec unzip hd s p0,
  bounded_by max1 (read_packet_v1 dec unzip hd s p0).
Proof. exact total_v1. Qed.
Print Assumptions c02_total_v1.

Theorem c02_total_v2 : forall dec unzip hd s p0,
  bounded_by max2 (read_packet_v2 dec unzip hd s p0).
Proof. exact total_v2. Qed.
Print Assumptions c02_total_v2.

Theorem c02_total_lendata : forall s, wf_bytes (concat s) -> bounded_by max_u16 (read_len_data s).
Proof. exact total_lendata. Qed.
Print Assumptions c02_total_lendata.

(* "A frame whose length field is smaller than the fixed header or larger than the maximum is
   refused" — with Err ELength, before any payload buffer is made, only the header consumed *)
Theorem c02_short_long_len_refused_v1 : forall dec unzip hd s p0,
  hs1 <= lenN (concat s) -> get16 (concat s) < hs1 \/ max1 < get16 (concat s) ->
  refused hs1 (read_packet_v1 dec unzip hd s p0) (concat s).
Proof. exact refuse_v1. Qed.
Print Assumptions c02_short_long_len_refused_v1.

Theorem c02_short_long_len_refused_v2 : forall dec unzip hd s p0,
  hs2 <= lenN (concat s) -> get24 (concat s) < hs2 \/ max2 < get24 (concat s) ->
  refused hs2 (read_packet_v2 dec unzip hd s p0) (concat s).
Proof. exact refuse_v2. Qed.
Print Assumptions c02_short_long_len_refused_v2.

Theorem c02_short_len_refused_lendata : forall s,
  2 <= lenN (concat s) -> get16 (concat s) < 2 -> refused 2 (read_len_data s) (concat s).
Proof. exact refuse_lendata. Qed.
Print Assumptions c02_short_len_refused_lendata.

(* "a frame altered in any checksum-covered bit ... is reported as an error": every single-bit
   flip outside the length field of a frame the decoder accepts yields a checksum error
   (CRC-32 is linear over GF(2) and its register step is injective: Lib/Crc32.crc32_flip_ne) *)
Theorem c02_crc_single_bit_v1 : forall dec unzip hd frame p0 i s p1,
  wf_bytes frame -> accepted (read_packet_v1 dec unzip hd [frame] p0) ->
  16 <= i -> i < 8 * lenN frame -> concat s = flip_bit i frame ->
  r_out (read_packet_v1 dec unzip hd s p1) = Err EChecksum.
Proof. exact crc_flip_v1. Qed.
Print Assumptions c02_crc_single_bit_v1.

Theorem c02_crc_single_bit_v2 : forall dec unzip hd frame p0 i s p1,
  wf_bytes frame -> accepted (read_packet_v2 dec unzip hd [frame] p0) ->
  24 <= i -> i < 8 * lenN frame -> concat s = flip_bit i frame ->
  r_out (read_packet_v2 dec unzip hd s p1) = Err EChecksum.
Proof. exact crc_flip_v2. Qed.
Print Assumptions c02_crc_single_bit_v2.

(* a flip INSIDE the length field (also checksum-covered): full statement
     "forall i < 16 (24), the damaged frame decodes to an error"
   holds unless a strictly shorter frame cut out of the same bytes has the CRC-32 of the
   original - a collision between two different byte strings that no theorem can exclude.
   Proved: error, or exactly that collision (the harness flips these bits exhaustively on
   every generated frame and demands an error). *)
Theorem c02_len_flip_partial_v1 : forall dec unzip hd frame p0 i s p1,
  wf_bytes frame -> accepted (read_packet_v1 dec unzip hd [frame] p0) ->
  i < 16 -> concat s = flip_bit i frame ->
  is_err (r_out (read_packet_v1 dec unzip hd s p1))
  \/ exists h' b', r_out (read_head_body_v1 s) = Ok (h', b') /\ crc_collision 10 14 frame h' b'.
Proof. exact len_flip_partial_v1. Qed.
Print Assumptions c02_len_flip_partial_v1.

Theorem c02_len_flip_partial_v2 : forall dec unzip hd frame p0 i s p1,
  wf_bytes frame -> accepted (read_packet_v2 dec unzip hd [frame] p0) ->
  i < 24 -> concat s = flip_bit i frame ->
  is_err (r_out (read_packet_v2 dec unzip hd s p1))
  \/ exists h' b', r_out (read_head_body_v2 s) = Ok (h', b') /\ crc_collision 16 20 frame h' b'.
Proof. exact len_flip_partial_v2. Qed.
Print Assumptions c02_len_flip_partial_v2.

(* "truncated at any offset": every proper prefix of an accepted frame ends in io.EOF or
   io.ErrUnexpectedEOF, however it is chunked *)
Theorem c02_truncation_v1 : forall dec unzip hd frame p0,
  accepted (read_packet_v1 dec unzip hd [frame] p0) ->
  forall k s p1, k < lenN frame -> concat s = takeN k frame ->
  eof_kind (r_out (read_packet_v1 dec unzip hd s p1)).
Proof. exact truncation_v1. Qed.
Print Assumptions c02_truncation_v1.

Theorem c02_truncation_v2 : forall dec unzip hd frame p0,
  accepted (read_packet_v2 dec unzip hd [frame] p0) ->
  forall k s p1, k < lenN frame -> concat s = takeN k frame ->
  eof_kind (r_out (read_packet_v2 dec unzip hd s p1)).
Proof. exact truncation_v2. Qed.
Print Assumptions c02_truncation_v2.

Theorem c02_truncation_lendata : forall frame,
  wf_bytes frame -> accepted (read_len_data [frame]) ->
  forall k s, k < lenN frame -> concat s = takeN k frame -> eof_kind (r_out (read_len_data s)).
Proof. exact truncation_lendata. Qed.
Print Assumptions c02_truncation_lendata.

(* "whose body no longer matches its flags (undecryptable, not decompressible, reference count
   larger than the body) is reported as an error instead of being delivered as a packet" —
   for every body, the empty one included (flags_mismatch: encrypted flag and no decryptor;
   compressed flag and the (decrypted) body is not a zlib stream) *)
Theorem c02_flag_body_mismatch_v1 : forall dec unzip hd s p0 h b,
  r_out (read_head_body_v1 s) = Ok (h, b) ->
  flags_mismatch dec unzip hd (byte_at 3 h) b ->
  is_err (r_out (read_packet_v1 dec unzip hd s p0)).
Proof. exact flag_mismatch_v1. Qed.
Print Assumptions c02_flag_body_mismatch_v1.

Theorem c02_flag_body_mismatch_v2 : forall dec unzip hd s p0 h b,
  r_out (read_head_body_v2 s) = Ok (h, b) ->
  byte_at 5 h * 4 <= lenN b ->
  flags_mismatch dec unzip hd (byte_at 4 h) (dropN (byte_at 5 h * 4) b) ->
  is_err (r_out (read_packet_v2 dec unzip hd s p0)).
Proof. exact flag_mismatch_v2. Qed.
Print Assumptions c02_flag_body_mismatch_v2.

Theorem c02_refcount_mismatch_v2 : forall dec unzip hd s p0 h b,
  r_out (read_head_body_v2 s) = Ok (h, b) -> lenN b < byte_at 5 h * 4 ->
  is_err (r_out (read_packet_v2 dec unzip hd s p0)).
Proof. exact refcount_mismatch_v2. Qed.
Print Assumptions c02_refcount_mismatch_v2.

(* "a decode error force-closes the connection instead of desynchronising the stream"
   (qnet/tcp_conn.go readPump): for every byte stream that arrives on a connection and enough
   iterations for its length, the reader pump ends by closing the connection with an error
   (never panicking, never still reading); the frames it delivered are exactly those that decode,
   in order, before that error; the error is the result of the very next read; the bytes behind
   the bad frame are never interpreted.
     conn_closes read fuel s  :=  let (ds, e, rest) := read_pump read fuel s in
        fst (read_many read |ds| s) = map Ok ds /\ exists err, e = Closed err /\
        r_out (read (snd (read_many read |ds| s))) = Err err /\ rest = what that read left *)
Theorem c02_conn_closes_v1 : forall dec unzip hd fuel s,
  lenN (concat s) < N.of_nat fuel * hs1 ->
  conn_closes (fun s => read_packet_v1 dec unzip hd s packet0) fuel s.
Proof. exact conn_closes_v1. Qed.
Print Assumptions c02_conn_closes_v1.

Theorem c02_conn_closes_v2 : forall dec unzip hd fuel s,
  lenN (concat s) < N.of_nat fuel * hs2 ->
  conn_closes (fun s => read_packet_v2 dec unzip hd s packet0) fuel s.
Proof. exact conn_closes_v2. Qed.
Print Assumptions c02_conn_closes_v2.

(* the checksum sentence over whole streams and on the connection: any number of frames that
   decode (e.g. whatever the encoder wrote: written_decodes_as_v1/_v2), then an accepted frame
   with one bit flipped outside its length field, then ANY bytes — however chunked: the reader
   pump delivers exactly the packets before the damage, closes the connection with a checksum
   error, and neither the damaged frame nor anything behind it is delivered *)
Theorem c02_stream_flip_v1 : forall dec unzip hd frames qs frame p0 i fuel s tail,
  Forall2 (decodes_as (fun s => read_packet_v1 dec unzip hd s packet0)) frames qs ->
  wf_bytes frame -> accepted (read_packet_v1 dec unzip hd [frame] p0) ->
  16 <= i -> i < 8 * lenN frame ->
  concat s = concat frames ++ flip_bit i frame ++ tail ->
  (length frames < fuel)%nat ->
  pump_v1 dec unzip hd fuel s = (qs, Closed EChecksum, snd (pump_v1 dec unzip hd fuel s)).
Proof. exact stream_flip_v1. Qed.
Print Assumptions c02_stream_flip_v1.

Theorem c02_stream_flip_v2 : forall dec unzip hd frames qs frame p0 i fuel s tail,
  Forall2 (decodes_as (fun s => read_packet_v2 dec unzip hd s packet0)) frames qs ->
  wf_bytes frame -> accepted (read_packet_v2 dec unzip hd [frame] p0) ->
  24 <= i -> i < 8 * lenN frame ->
  concat s = concat frames ++ flip_bit i frame ++ tail ->
  (length frames < fuel)%nat ->
  pump_v2 dec unzip hd fuel s = (qs, Closed EChecksum, snd (pump_v2 dec unzip hd fuel s)).
Proof. exact stream_flip_v2. Qed.
Print Assumptions c02_stream_flip_v2.

(* ... and with trailing bytes for a single read: the damaged frame is consumed, what follows stays *)
Theorem c02_crc_single_bit_tail_v1 : forall dec unzip hd frame p0 i s p1 tail,
  wf_bytes frame -> accepted (read_packet_v1 dec unzip hd [frame] p0) ->
  16 <= i -> i < 8 * lenN frame -> concat s = flip_bit i frame ++ tail ->
  r_out (read_packet_v1 dec unzip hd s p1) = Err EChecksum
  /\ concat (r_rest (read_packet_v1 dec unzip hd s p1)) = tail.
Proof. exact crc_flip_tail_v1. Qed.
Print Assumptions c02_crc_single_bit_tail_v1.

Theorem c02_crc_single_bit_tail_v2 : forall dec unzip hd frame p0 i s p1 tail,
  wf_bytes frame -> accepted (read_packet_v2 dec unzip hd [frame] p0) ->
  24 <= i -> i < 8 * lenN frame -> concat s = flip_bit i frame ++ tail ->
  r_out (read_packet_v2 dec unzip hd s p1) = Err EChecksum
  /\ concat (r_rest (read_packet_v2 dec unzip hd s p1)) = tail.
Proof. exact crc_flip_tail_v2. Qed.
Print Assumptions c02_crc_single_bit_tail_v2.

(* ---------------------------------------------------------------------------------- *)
(* non-vacuity: a frame the V1 decoder accepts (14-byte header + "hi", checksum computed by
   the model), the hypotheses of the flip and truncation theorems hold for it, and the model
   computes the refusals *)
Definition ex_frame : bytes :=
  let h10 := [0; 16; 1; 32; 2; 1; 0; 0; 0; 7] in h10 ++ be32 (crc32 (h10 ++ [104; 105])) ++ [104; 105].

Example c02_example :
  wf_bytes ex_frame
  /\ accepted (read_packet_v1 (fun b => b) (fun _ => None) false [ex_frame] packet0)
  /\ r_out (read_packet_v1 (fun b => b) (fun _ => None) false [flip_bit 77 ex_frame] packet0) = Err EChecksum
  /\ r_out (read_packet_v1 (fun b => b) (fun _ => None) false [[0]; [3; 9; 9]; ex_frame] packet0) = Err ELength
  /\ r_out (read_packet_v1 (fun b => b) (fun _ => None) false [takeN 15 ex_frame] packet0) = Err EUnexpectedEOF.
Proof.
  split; [|split; [|split; [|split]]].
  - vm_compute. repeat (apply Forall_cons; [reflexivity|]). apply Forall_nil.
  - split; [eexists; vm_compute; reflexivity|vm_compute; reflexivity].
  - vm_compute. reflexivity.
  - vm_compute. reflexivity.
  - vm_compute. reflexivity.
Qed.

(* the stream theorem computes: two good frames, a third with bit 77 flipped, garbage behind, in
   5-byte chunks: two packets delivered, connection closed with a checksum error *)
Example c02_stream_example :
  let wire := ex_frame ++ ex_frame ++ flip_bit 77 ex_frame ++ [1; 2; 3; 4; 5; 6] in
  let chunks := [firstn 5 wire; firstn 5 (skipn 5 wire); skipn 10 wire] in
  let '(ds, e, _) := pump_v1 (fun b => b) (fun _ => None) false 5 chunks in
  length ds = 2%nat /\ e = Closed EChecksum.
Proof. vm_compute. split; reflexivity. Qed.


(* ---------------------------------------------------------------------------------- *)
(* tie to the source (C02/Source.v): codecV1.ReadHeadBody, codecV2.ReadHeadBody and ReadLenData
   are regenerated WHOLE from the codec package by tools/gofunc on every run (Generated/CodecHeader.v;
   io.ReadFull is external: what each call returned and left in its buffer are parameters;
   error values are codes, 1 = a fresh fmt.Errorf error; V2Header.Len goes through bigEndianGet's
   [4]byte array and copy; encoding/binary comes from the standard library's source), and the
   heads of the two WritePacket up to their size checks.  Given a complete header the
   translated decoder refuses EXACTLY when the model's decoder refuses from the header alone
   ([refuses_v1] etc. are the guards of the model, see the c02_src_model_guard theorems), before the
   payload buffer is made; otherwise it returns the header it read and the payload (or the
   error) of the second read. *)
From FV Require Import Generated.CodecHeader Lib.GoSem C01.Source C02.Source.

Theorem c02_src_model_guard_v1 : forall s h s1, read_full hs1 s = (Model.Ok h, s1) ->
  read_head_body_v1 s =
  if refuses_v1 h then mkRhb (Model.Err ELength) s1 [] [hs1]
  else let n := (get16 h + 65536 - hs1) mod 65536 in
       match read_full n s1 with
       | (Model.Ok payload, s2) => mkRhb (Model.Ok (h, payload)) s2 [n] [hs1; n]
       | (Model.Err e, s2) => mkRhb (Model.Err e) s2 [n] [hs1; n]
       | (Model.Panic, s2) => mkRhb Model.Panic s2 [n] [hs1; n]
       end.
Proof. exact model_guard_v1. Qed.
Print Assumptions c02_src_model_guard_v1.

Theorem c02_src_model_guard_v2 : forall s h s1, read_full hs2 s = (Model.Ok h, s1) ->
  read_head_body_v2 s =
  if refuses_v2 h then mkRhb (Model.Err ELength) s1 [] [hs2]
  else let n := (get24 h + 4294967296 - hs2) mod 4294967296 in
       match read_full n s1 with
       | (Model.Ok payload, s2) => mkRhb (Model.Ok (h, payload)) s2 [n] [hs2; n]
       | (Model.Err e, s2) => mkRhb (Model.Err e) s2 [n] [hs2; n]
       | (Model.Panic, s2) => mkRhb Model.Panic s2 [n] [hs2; n]
       end.
Proof. exact model_guard_v2. Qed.
Print Assumptions c02_src_model_guard_v2.

Theorem c02_src_read_v1 : forall (h : bytes) n1 n2 e2 w2, wf_bytes h -> lenN h = hs1 ->
  go_codecV1_ReadHeadBody n1 0%Z (zbytes h) n2 e2 w2 =
  Lib.GoSem.Ok (if refuses_v1 h then ([], [], 1%Z)
                else if (e2 =? 0)%Z then (zbytes h, w2, 0%Z) else ([], [], e2)).
Proof. exact src_read_v1. Qed.
Print Assumptions c02_src_read_v1.

Theorem c02_src_read_v2 : forall (h : bytes) n1 n2 e2 w2, wf_bytes h -> lenN h = hs2 ->
  go_codecV2_ReadHeadBody n1 0%Z (zbytes h) n2 e2 w2 =
  Lib.GoSem.Ok (if refuses_v2 h then ([], [], 1%Z)
                else if (e2 =? 0)%Z then (zbytes h, w2, 0%Z) else ([], [], e2)).
Proof. exact src_read_v2. Qed.
Print Assumptions c02_src_read_v2.

(* a failed first read is passed on; nothing else happens *)
Theorem c02_src_read_err : forall n1 e1 w1 n2 e2 w2, e1 <> 0%Z ->
  go_codecV1_ReadHeadBody n1 e1 w1 n2 e2 w2 = Lib.GoSem.Ok ([], [], e1) /\
  go_codecV2_ReadHeadBody n1 e1 w1 n2 e2 w2 = Lib.GoSem.Ok ([], [], e1).
Proof. intros n1 e1 w1 n2 e2 w2 H. split; [exact (src_read_v1_err n1 e1 w1 n2 e2 w2 H) | exact (src_read_v2_err n1 e1 w1 n2 e2 w2 H)]. Qed.
Print Assumptions c02_src_read_err.

(* the payload buffer the source allocates has the size the model records in r_allocs *)
Theorem c02_src_alloc : forall h : bytes, wf_bytes h ->
  (refuses_v1 h = false -> ((Z.of_N (get16 h) - 14) mod 65536)%Z = Z.of_N ((get16 h + 65536 - hs1) mod 65536)) /\
  (refuses_v2 h = false -> ((Z.of_N (get24 h) - 20) mod 4294967296)%Z = Z.of_N ((get24 h + 4294967296 - hs2) mod 4294967296)).
Proof. intros h Hw. split; [exact (src_alloc_v1 h Hw) | exact (src_alloc_v2 h Hw)]. Qed.
Print Assumptions c02_src_alloc.

Theorem c02_src_read_len : forall (t : bytes) n1 n2 e2 w2, wf_bytes t -> length t = 2%nat ->
  go_ReadLenData n1 0%Z (zbytes t) n2 e2 w2 =
  Lib.GoSem.Ok (if refuses_len t then ([], 1%Z) else if (e2 =? 0)%Z then (w2, 0%Z) else ([], e2)).
Proof. exact src_read_len. Qed.
Print Assumptions c02_src_read_len.

(* the encoders refuse an oversized frame / too many references where the model's write_v1 /
   write_v2 do (max1 <? hs1 + |body|, max_u8 <? |refs|, max2 <? hs2 + 4|refs| + |body|) *)
Theorem c02_src_write_guard_v1 : forall thr (body : list Z), (go_len body < 2 ^ 62)%Z ->
  match go_codecV1_WritePacket_prefix thr body 0%Z with
  | Lib.GoSem.Ok (Lib.GoSem.Returned _ _) => max1 <? hs1 + N.of_nat (length body) = true
  | Lib.GoSem.Ok (Lib.GoSem.Reached (b, _, nbytes, _, _)) =>
      max1 <? hs1 + N.of_nat (length body) = false /\ b = body /\ nbytes = Z.of_N (hs1 + N.of_nat (length body))
  | _ => False
  end.
Proof. exact src_write_guard_v1. Qed.
Print Assumptions c02_src_write_guard_v1.

Theorem c02_src_write_guard_v2 : forall thr (refs body : list Z), (go_len body < 2 ^ 61)%Z ->
  match go_codecV2_WritePacket_prefix thr refs body 0%Z with
  | Lib.GoSem.Ok (Lib.GoSem.Returned k _) =>
      if (k =? 1)%Z then max_u8 <? N.of_nat (length refs) = true
      else max_u8 <? N.of_nat (length refs) = false /\
           max2 <? hs2 + N.of_nat (length refs) * 4 + N.of_nat (length body) = true
  | Lib.GoSem.Ok (Lib.GoSem.Reached (_, b, _, nn, nbytes, buf)) =>
      max_u8 <? N.of_nat (length refs) = false /\
      max2 <? hs2 + N.of_nat (length refs) * 4 + N.of_nat (length body) = false /\
      b = body /\ nn = Z.of_N (hs2 + N.of_nat (length refs) * 4) /\
      nbytes = Z.of_N (hs2 + N.of_nat (length refs) * 4 + N.of_nat (length body)) /\ length buf = Z.to_nat nn
  | _ => False
  end.
Proof. exact src_write_guard_v2. Qed.
Print Assumptions c02_src_write_guard_v2.
