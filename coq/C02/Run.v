(* C02 — correspondence for the decoders on hostile input: decode a case written by
   harness/cmd/c02, run the model (C01/Model.v, decode side) on the same bytes, compare, and
   evaluate the property's executable form on what the implementation did.

   fmt: 1 = V1, 2 = V2, 3 = length-prefixed helper.
   case (10 fmt cipher keyseed #stream (chunk ...) nreads expect)     arbitrary stream, ReadHeadBody then
        observed ((dec) (unzip) (rres ...))                      UnmarshalPacket as qnet does
          rres = (panicked errkind pkt|#data consumed wanted maxcap retcap allocflag)
   case (11 fmt cipher keyseed #frame mode lo hi)               a valid frame damaged: mode 0 flips
        observed ((dec) (unzip) (panicked errkind) (res ...))    bit i, mode 1 cuts after i bytes,
          res = (panicked errkind consumed wanted maxcap)        for lo <= i < hi   (ReadPacket)
   case (12 fmt #template #tail lo hi)                          the length field set to every
        observed ((dec) (unzip) (res ...))                       value lo <= L < hi   (ReadPacket)
   case (13 fmt #stream)                                        a real TcpConn (reader pump) on a
        observed (nerr errkind (pkt ...) closed timedout late dcount dkind)
          nerr = errors notified, errkind = kind of the first, pkts = frames delivered before it,
          closed = the peer saw the connection closed, late = frames/errors after the first error,
          timedout = 1: the scenario did not finish in time (inconclusive, no verdict)
   case (14 fmt #part1 #part2 pause_ms)                         the same with a 1 s read timeout and a
        observed (nerr errkind (pkt ...) closed timedout late)   pause in the middle of a frame
   case (15 fmt nref total seed flag)                           a complete frame with a valid checksum of
        observed (panicked errkind consumed wanted maxcap nrefs bodylen)   total bytes, sizes only
   In a res, panicked = 2 means that the harness did not run the decoder (memory guard). *)
From Coq Require Import Arith ZArith NArith List Bool.
From FV Require Import Lib.Sx Lib.NList Lib.BE Lib.Crc32 C02.Model C01.RunLib.
Import ListNotations.
Open Scope N_scope.

Definition fmt_hs (fmt : Z) : N := if Z.eqb fmt 1 then hs1 else if Z.eqb fmt 2 then hs2 else 2.
Definition fmt_max (fmt : Z) : N := if Z.eqb fmt 1 then max1 else if Z.eqb fmt 2 then max2 else max_u16.
Definition fmt_lenbytes (fmt : Z) : N := if Z.eqb fmt 2 then 3 else 2.

(* what one decode did, reduced to the observables: kind, consumed, wanted, maxcap, result *)
Record dres : Type := mkDres {
  d_kind : Z; d_consumed : N; d_wanted : N; d_maxcap : N; d_alloc : N;
  d_pkt : option packet; d_data : option bytes; d_rest : stream }.

Definition model_decode (dec : bytes -> bytes) (unzip : bytes -> option bytes) (fmt : Z)
           (has_dec : bool) (total : N) (s : stream) : dres :=
  if Z.eqb fmt 3 then
    let r := read_len_data s in
    mkDres (outcome_code (r_out r)) (total - total_len (r_rest r)) (sumN (r_reads r))
           (maxN (r_reads r)) (sumN (r_allocs r)) None
           (match r_out r with Ok b => Some b | _ => None end) (r_rest r)
  else
    let r := if Z.eqb fmt 1 then read_packet_v1 dec unzip has_dec s packet0
             else read_packet_v2 dec unzip has_dec s packet0 in
    mkDres (outcome_code (r_out r)) (total - total_len (r_rest r)) (sumN (r_reads r))
           (maxN (r_reads r)) (sumN (r_allocs r))
           (match r_out r with Ok p => Some p | _ => None end) None (r_rest r).

(* the bounds every decode must respect, on the implementation's numbers *)
Definition bounded (fmt : Z) (pn : Z) (wanted maxcap : N) : verdict :=
  vall [ check_that (negb (Z.eqb pn 1)) (VPropFail 1);
         check_that (wanted <=? fmt_max fmt) (VPropFail 2);
         check_that (maxcap <=? fmt_max fmt) (VPropFail 3) ].

(* ---------------------------------------------------------------------------------- *)
(* case 10 *)

Fixpoint check_singles (dec : bytes -> bytes) (unzip : bytes -> option bytes) (fmt : Z)
         (has_dec : bool) (total : N) (s : stream) (os : list sx) : verdict :=
  match os with
  | [] => VOk
  | SList [SInt pn; SInt kind; res; SInt consumed; SInt wanted; SInt maxcap; SInt retcap; SInt aflag] :: os' =>
      let m := model_decode dec unzip fmt has_dec total s in
      let same_result :=
        match d_pkt m, d_data m with
        | Some p, _ => match sx_packet res with Some q => packet_eqb p q | None => false end
        | _, Some b => match res with SBytes g => bytes_eqb b g | _ => false end
        | None, None => true
        end in
      let corr :=
        vall [ check_that (Z.eqb (d_kind m) (if Z.eqb pn 0 then kind else (-1)%Z)) (VMismatch 1);
               check_that same_result (VMismatch 2);
               check_that (N.eqb (d_consumed m) (Z.to_N consumed)) (VMismatch 3);
               check_that (N.eqb (d_wanted m) (Z.to_N wanted) && N.eqb (d_maxcap m) (Z.to_N maxcap))
                          (VMismatch 4);
               (* the payload buffer handed back has exactly the capacity the model allocates *)
               check_that (((retcap <? 0)%Z || N.eqb (d_alloc m) (Z.to_N retcap))
                           && negb (Z.eqb aflag 3)) (VMismatch 5) ] in
      let prop :=
        vall [ bounded fmt pn (Z.to_N wanted) (Z.to_N maxcap);
               check_that ((retcap <? 0)%Z || (Z.to_N retcap <=? fmt_max fmt)) (VPropFail 3);
               (* run-time allocation counter over the maximum on two consecutive measurements *)
               check_that (negb (Z.eqb aflag 1)) (VPropFail 4) ] in
      vjoin (vjoin prop corr) (check_singles dec unzip fmt has_dec total (d_rest m) os')
  | _ => VBad
  end.

(* ---------------------------------------------------------------------------------- *)
(* cases 11 and 12: families of decodes, each over its own single-chunk stream *)

Definition set_length (fmt : Z) (l : N) (template : bytes) : bytes :=
  (if Z.eqb fmt 2 then be24 l else be16 l) ++ dropN (fmt_lenbytes fmt) template.

Definition one_chunk (b : bytes) : stream := match b with [] => [] | _ => [b] end.

(* compare one decode of a family; [must_fail]: the property demands an error here;
   [must_refuse]: the property demands that the length field is refused before any payload
   buffer is made *)
Definition check_res (dec : bytes -> bytes) (unzip : bytes -> option bytes) (fmt : Z)
           (has_dec : bool) (data : bytes) (must_fail must_refuse : bool) (o : sx) : verdict :=
  match o with
  | SList [SInt pn; SInt kind; SInt consumed; SInt wanted; SInt maxcap; SInt aflag] =>
      if Z.eqb pn 2 then VOk else
      let m := model_decode dec unzip fmt has_dec (lenN data) (one_chunk data) in
      let corr :=
        vall [ check_that (Z.eqb (d_kind m) (if Z.eqb pn 0 then kind else (-1)%Z)) (VMismatch 1);
               check_that (N.eqb (d_consumed m) (Z.to_N consumed)) (VMismatch 3);
               check_that (N.eqb (d_wanted m) (Z.to_N wanted) && N.eqb (d_maxcap m) (Z.to_N maxcap))
                          (VMismatch 4);
               (* reproduced: much more allocated than the buffers the decoder visibly used *)
               check_that (negb (Z.eqb aflag 3)) (VMismatch 5) ] in
      let prop :=
        vall [ bounded fmt pn (Z.to_N wanted) (Z.to_N maxcap);
               check_that (negb (Z.eqb aflag 1)) (VPropFail 4);
               check_that (negb must_fail || negb (Z.eqb kind 0)) (VPropFail 5);
               check_that (negb must_refuse ||
                           (Z.eqb kind 3 && (Z.to_N maxcap <=? fmt_hs fmt)
                            && (Z.to_N wanted <=? fmt_hs fmt) && negb (Z.eqb aflag 3))) (VPropFail 6) ] in
      vjoin prop corr
  | _ => VBad
  end.

Fixpoint check_family (f : N -> sx -> verdict) (i : N) (os : list sx) : verdict :=
  match os with
  | [] => VOk
  | o :: os' => vjoin (f i o) (check_family f (N.succ i) os')
  end.

Definition check_damaged (fmt cipher : Z) (frame : bytes) (mode : Z) (lo hi : N) (obs : list sx)
  : verdict :=
  match obs with
  | [dec_t; unzip_t; SList [SInt bpn; SInt bkind]; SList rs] =>
      match sx_table dec_t, sx_otable unzip_t with
      | Some td, Some tu =>
          let dec := fun_of_table td in
          let unzip := fun_of_otable tu in
          let has_dec := negb (Z.eqb cipher 0) in
          let mb := model_decode dec unzip fmt has_dec (lenN frame) (one_chunk frame) in
          let valid := Z.eqb bpn 0 && Z.eqb bkind 0 in
          let f := fun i o =>
            let data := if Z.eqb mode 0 then flip_bit i frame else takeN i frame in
            let must_fail :=
              valid && (if Z.eqb mode 0 then i <? 8 * lenN frame else i <? lenN frame) in
            check_res dec unzip fmt has_dec data must_fail false o in
          vall [ check_that (Z.eqb (d_kind mb) (if Z.eqb bpn 0 then bkind else (-1)%Z)) (VMismatch 1);
                 check_that (N.eqb (lenN rs) (hi - lo)) (VMismatch 6);
                 check_family f lo rs ]
      | _, _ => VBad
      end
  | _ => VBad
  end.

Definition check_sweep (fmt : Z) (template tail : bytes) (lo hi : N) (obs : list sx) : verdict :=
  match obs with
  | [dec_t; unzip_t; SList rs] =>
      match sx_table dec_t, sx_otable unzip_t with
      | Some td, Some tu =>
          let dec := fun_of_table td in
          let unzip := fun_of_otable tu in
          let f := fun l o =>
            let data := set_length fmt l template ++ tail in
            let must_refuse := (l <? fmt_hs fmt) || (fmt_max fmt <? l) in
            check_res dec unzip fmt false data false must_refuse o in
          vall [ check_that (N.eqb (lenN rs) (hi - lo)) (VMismatch 6);
                 check_that (fmt_lenbytes fmt <=? lenN template) (VMismatch 6);
                 check_family f lo rs ]
      | _, _ => VBad
      end
  | _ => VBad
  end.

(* ---------------------------------------------------------------------------------- *)
(* case 13: the reader pump of a connection *)

Definition conn_end_code (e : conn_end) : Z :=
  match e with Closed err => rerr_code err | Crashed => (-1)%Z | StillReading => (-2)%Z end.

Fixpoint packets_eqb (a b : list packet) : bool :=
  match a, b with
  | [], [] => true
  | x :: a', y :: b' => packet_eqb x y && packets_eqb a' b'
  | _, _ => false
  end.

Definition check_conn (fmt : Z) (data : bytes) (obs : list sx) : verdict :=
  match obs with
  | [SInt nerr; SInt kind; SList pks; SInt closed; SInt timedout; SInt late; SInt dcount; SInt dkind] =>
      if Z.eqb timedout 1 then VOk else
      match map_opt sx_packet pks with
      | Some got =>
          let read := fun s => if Z.eqb fmt 1
                               then read_packet_v1 (fun b => b) (fun _ => None) false s packet0
                               else read_packet_v2 (fun b => b) (fun _ => None) false s packet0 in
          let fuel := S (S (N.to_nat (lenN data / fmt_hs fmt))) in
          let '(ds, e, _) := read_pump read fuel (one_chunk data) in
          let corr :=
            vall [ check_that (packets_eqb ds got) (VMismatch 7);
                   check_that (Z.eqb (conn_end_code e) kind) (VMismatch 8) ] in
          let prop :=
            (* a decode error (or the end of the stream) closes the connection: exactly one
               error is reported, the peer sees the close, nothing is delivered afterwards *)
            (* dcount / dkind: how many frames the decoder itself (ReadPacket called in a loop on
               the same bytes, no connection) returns before its first error, and that error *)
            vall [ check_that (Z.eqb nerr 1 && Z.eqb kind dkind) (VPropFail 8);
                   check_that (Z.eqb closed 1) (VPropFail 9);
                   check_that (Z.eqb late 0 && Z.eqb (Z.of_nat (length got)) dcount) (VPropFail 10) ] in
          vjoin prop corr
      | None => VBad
      end
  | _ => VBad
  end.

(* case 14: a read deadline fires in the middle of a frame; whatever the timing, only frames the
   peer really sent may be delivered, in order: the delivered packets are a prefix of the
   frames of part1 ++ part2, exactly one error is reported and the connection is closed *)
Fixpoint packets_prefix (a b : list packet) : bool :=
  match a, b with
  | [], _ => true
  | x :: a', y :: b' => packet_eqb x y && packets_prefix a' b'
  | _, [] => false
  end.

Definition check_timeout (fmt : Z) (data : bytes) (obs : list sx) : verdict :=
  match obs with
  | [SInt nerr; SInt _; SList pks; SInt closed; SInt timedout; SInt late] =>
      if Z.eqb timedout 1 then VOk else
      match map_opt sx_packet pks with
      | Some got =>
          let read := fun s => if Z.eqb fmt 1
                               then read_packet_v1 (fun b => b) (fun _ => None) false s packet0
                               else read_packet_v2 (fun b => b) (fun _ => None) false s packet0 in
          let fuel := S (S (N.to_nat (lenN data / fmt_hs fmt))) in
          let '(sent, _, _) := read_pump read fuel (one_chunk data) in
          vall [ check_that (Z.eqb nerr 1) (VPropFail 8);
                 check_that (Z.eqb closed 1) (VPropFail 9);
                 check_that (Z.eqb late 0 && packets_prefix got sent) (VPropFail 10) ]
      | None => VBad
      end
  | _ => VBad
  end.

(* case 15: a complete, well-formed frame (valid checksum) of [total] bytes with [nref]
   references, sizes only.  Closed form of the model (c02_short_long_len_refused, round trip):
   above the maximum it is refused from the header alone whatever the other header fields say;
   within the limits it is delivered, exactly [total] bytes consumed. *)
Definition check_whole (fmt : Z) (nref total : N) (obs : list sx) : verdict :=
  match obs with
  | [SInt pn; SInt kind; SInt consumed; SInt wanted; SInt maxcap; SInt nrefs; SInt bodylen] =>
      let hs := fmt_hs fmt in
      let refs := if Z.eqb fmt 2 then 4 * nref else 0 in
      if fmt_max fmt <? total then
        vjoin (bounded fmt pn (Z.to_N wanted) (Z.to_N maxcap))
              (check_that (Z.eqb kind 3 && (Z.to_N maxcap <=? hs) && (Z.to_N wanted <=? hs)
                           && N.eqb (Z.to_N consumed) hs) (VPropFail 6))
      else
        vjoin (bounded fmt pn (Z.to_N wanted) (Z.to_N maxcap))
              (check_that (Z.eqb kind 0 && N.eqb (Z.to_N consumed) total
                           && N.eqb (Z.to_N wanted) total
                           && (Z.eqb fmt 1 || N.eqb (Z.to_N nrefs) nref)
                           && N.eqb (Z.to_N bodylen) (total - hs - refs)) (VMismatch 1))
  | _ => VBad
  end.

(* case 16: the stream ends in the middle of a frame (sent < announced <= max) whose checksum
   field matches the bytes that did arrive: never a packet, always an end-of-stream error; the
   reader has asked for exactly the announced length and consumed what there was *)
Definition check_short (fmt : Z) (announced sent : N) (obs : list sx) : verdict :=
  match obs with
  | [SInt pn; SInt kind; SInt consumed; SInt wanted; SInt maxcap; SInt _] =>
      vall [ bounded fmt pn (Z.to_N wanted) (Z.to_N maxcap);
             check_that (Z.eqb kind 1 || Z.eqb kind 2) (VPropFail 5);
             check_that (Z.eqb kind (if sent =? fmt_hs fmt then 1 else 2)
                         && N.eqb (Z.to_N consumed) sent && N.eqb (Z.to_N wanted) announced) (VMismatch 1) ]
  | _ => VBad
  end.

Definition check_hostile (fmt cipher : Z) (data : bytes) (chunks : sx) (expect : Z)
           (dec_t unzip_t : sx) (rs : list sx) : verdict :=
  match sx_Ns chunks, sx_table dec_t, sx_otable unzip_t with
  | Some sizes, Some td, Some tu =>
      (* the bounds / no-panic sentences first, then: a frame whose body does not match its
         flags must be reported as an error *)
      vjoin
        (check_singles (fun_of_table td) (fun_of_otable tu) fmt (negb (Z.eqb cipher 0))
                       (lenN data) (chunk sizes data) rs)
        (check_that (Z.eqb expect 0 ||
                     match rs with
                     | SList (SInt _ :: SInt kind :: _) :: _ => negb (Z.eqb kind 0)
                     | _ => false
                     end) (VPropFail 7))
  | _, _, _ => VBad
  end.

Definition check (c : sx) : verdict :=
  match c with
  | SList [SList [SInt 10%Z; SInt fmt; SInt cipher; SInt _; SBytes data; chunks; SInt _; SInt expect];
           SList [dec_t; unzip_t; SList rs; SInt after]] =>
      (* a good frame on a fresh stream must still decode after the hostile one *)
      vjoin (check_hostile fmt cipher data chunks expect dec_t unzip_t rs)
            (check_that (Z.eqb after 1) (VPropFail 5))
  | SList [SList [SInt 10%Z; SInt fmt; SInt cipher; SInt _; SBytes data; chunks; SInt _; SInt expect];
           SList [dec_t; unzip_t; SList rs]] =>
      check_hostile fmt cipher data chunks expect dec_t unzip_t rs
  | SList [SList [SInt 11%Z; SInt fmt; SInt cipher; SInt _; SBytes frame; SInt mode; SInt lo; SInt hi];
           SList obs] =>
      check_damaged fmt cipher frame mode (Z.to_N lo) (Z.to_N hi) obs
  | SList [SList [SInt 12%Z; SInt fmt; SBytes template; SBytes tail; SInt lo; SInt hi]; SList obs] =>
      check_sweep fmt template tail (Z.to_N lo) (Z.to_N hi) obs
  | SList [SList [SInt 16%Z; SInt fmt; SInt _; SInt announced; SInt sent; SInt _]; SList obs] =>
      if (Z.eqb fmt 1 || Z.eqb fmt 2 || Z.eqb fmt 3)
         && (fmt_hs fmt <=? Z.to_N sent) && (Z.to_N sent <? Z.to_N announced) && (Z.to_N announced <=? fmt_max fmt)
      then check_short fmt (Z.to_N announced) (Z.to_N sent) obs else VBad
  | SList [SList [SInt 15%Z; SInt fmt; SInt nref; SInt total; SInt _; SInt _]; SList obs] =>
      if (Z.eqb fmt 1 || Z.eqb fmt 2) && (fmt_hs fmt + (if Z.eqb fmt 2 then 4 * Z.to_N nref else 0) <=? Z.to_N total)
      then check_whole fmt (Z.to_N nref) (Z.to_N total) obs else VBad
  | SList [SList [SInt 14%Z; SInt fmt; SBytes part1; SBytes part2; SInt _]; SList obs] =>
      if Z.eqb fmt 1 || Z.eqb fmt 2 then check_timeout fmt (part1 ++ part2) obs else VBad
  | SList [SList [SInt 13%Z; SInt fmt; SBytes data]; SList obs] =>
      if Z.eqb fmt 1 || Z.eqb fmt 2 then check_conn fmt data obs else VBad
  | _ => VBad
  end.
