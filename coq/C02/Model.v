(* C02 — the model is the decode side of C01/Model.v (read_full over a chunk list,
   read_head_body_v1/v2, unmarshal_v1/v2, unmarshal_body, read_packet_v1/v2, read_len_data),
   with every Go bounds check explicit ([Panic]), every make recorded in [r_allocs] and every
   buffer handed to io.ReadFull in [r_reads].  Nothing is defined or proved here. *)
From FV Require Export C01.Model.
