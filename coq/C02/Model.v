(* C02 — the model is the decode side of C01/Model.v (read_full over a chunk list,
   read_head_body_v1/v2, unmarshal_v1/v2, unmarshal_body, read_packet_v1/v2, read_len_data),
   with every Go bounds check explicit ([Panic]), every make recorded in [r_allocs] and every
   buffer handed to io.ReadFull in [r_reads]; plus the reader pump of a connection reduced to
   what the property speaks about.  Nothing is proved here. *)
From Coq Require Import List.
From FV Require Export C01.Model.
Import ListNotations.

(* qnet/tcp_conn.go readPump / readPacket: frames are read one after the other from the
   connection's byte stream and delivered; the first error ends the loop with ForceClose(err)
   and the reader returns — it never looks for the next frame behind a bad one.
   [read] is one ReadHeadBody+UnmarshalPacket on a fresh packet; fuel bounds the iterations. *)
Inductive conn_end : Type :=
| Closed (e : rerr)     (* ForceClose(e); reader exit *)
| Crashed               (* the decoder panicked *)
| StillReading.         (* fuel exhausted *)

Fixpoint read_pump (read : stream -> rhb packet) (fuel : nat) (s : stream)
  : list packet * conn_end * stream :=
  match fuel with
  | O => ([], StillReading, s)
  | S f =>
      let r := read s in
      match r_out r with
      | Ok p => let '(ds, e, s') := read_pump read f (r_rest r) in (p :: ds, e, s')
      | Err e => ([], Closed e, r_rest r)
      | Panic => ([], Crashed, r_rest r)
      end
  end.
