(* C02 — a valid frame altered in one bit outside the length field is refused with a checksum
   error.  Uses the GF(2) argument of Lib/Crc32.v (crc32_flip_ne). *)
From Coq Require Import Arith ZArith NArith List Bool Lia ZifyNat ZifyN ZifyBool.
From FV Require Import Generated.Consts Lib.NList Lib.BE Lib.Crc32 C01.Model C01.ProofsIO C01.ProofsBits C02.Proofs.
Import ListNotations.
Open Scope N_scope.

Ltac Zify.zify_post_hook ::= Z.div_mod_to_equations.

(* ---------------------------------------------------------------------------------- *)
(* flipping a bit of a concatenation *)

Lemma flip_bit_at pre x post i : lenN pre = i / 8 ->
  flip_bit i (pre ++ x :: post) = pre ++ N.lxor x (N.shiftl 1 (i mod 8)) :: post.
Proof.
  intros H. unfold flip_bit. rewrite <- H, takeN_app_exact, dropN_app_exact. reflexivity.
Qed.

Lemma flip_bit_app_l i a b : i < 8 * lenN a -> flip_bit i (a ++ b) = flip_bit i a ++ b.
Proof.
  intros H. destruct (flip_bit_split i a H) as (pre & x & post & -> & L & ->).
  rewrite <- !app_assoc. cbn [app]. apply flip_bit_at. assumption.
Qed.

Lemma flip_bit_app_r i a b : 8 * lenN a <= i -> i < 8 * lenN (a ++ b) ->
  flip_bit i (a ++ b) = a ++ flip_bit (i - 8 * lenN a) b.
Proof.
  intros H1 H2. rewrite lenN_app in H2.
  set (j := i - 8 * lenN a).
  assert (Ei : i = j + lenN a * 8) by (unfold j; lia).
  assert (Em : i mod 8 = j mod 8) by (rewrite Ei; apply N.mod_add; discriminate).
  assert (Ed : i / 8 = j / 8 + lenN a) by (rewrite Ei; apply N.div_add; discriminate).
  destruct (flip_bit_split j b) as (pre & x & post & -> & L & ->); [unfold j; lia|].
  rewrite app_assoc. rewrite flip_bit_at.
  - rewrite <- app_assoc, Em. reflexivity.
  - rewrite lenN_app, L, Ed. lia.
Qed.

Lemma flip_bit_prefix i m t : i < 8 * lenN m -> 8 * t <= i -> takeN t (flip_bit i m) = takeN t m.
Proof.
  intros H1 H2. destruct (flip_bit_split i m H1) as (pre & x & post & -> & L & ->).
  rewrite !takeN_app_le by lia. reflexivity.
Qed.

Lemma flip_bit_ne i m : i < 8 * lenN m -> flip_bit i m <> m.
Proof.
  intros H. destruct (flip_bit_split i m H) as (pre & x & post & -> & L & ->). intros E.
  apply app_inv_head in E. apply (f_equal (fun l => nth 0 l 0)) in E. cbn [nth] in E.
  rewrite <- (N.lxor_0_r x) in E at 2. apply lxor_cancel_l in E.
  rewrite N.shiftl_1_l in E. revert E. apply N.pow_nonzero. discriminate.
Qed.

(* the stored checksum: a flipped bit changes the value read *)
Lemma get32_inj c c' : lenN c = 4 -> lenN c' = 4 -> wf_bytes c -> wf_bytes c' ->
  get32 c = get32 c' -> c = c'.
Proof.
  intros L L' W W' E.
  destruct c as [|a0 [|a1 [|a2 [|a3 [|? ?]]]]]; try (exfalso; revert L; unfold lenN; cbn [length]; lia).
  destruct c' as [|b0 [|b1 [|b2 [|b3 [|? ?]]]]]; try (exfalso; revert L'; unfold lenN; cbn [length]; lia).
  unfold wf_bytes in W, W'.
  repeat match goal with H : Forall _ (_ :: _) |- _ => inversion H; clear H; subst end.
  rewrite <- (be32_get32 a0 a1 a2 a3 []) by assumption.
  rewrite <- (be32_get32 b0 b1 b2 b3 []) by assumption. rewrite E. reflexivity.
Qed.

Lemma get32_flip_ne c j : lenN c = 4 -> wf_bytes c -> j < 32 -> get32 (flip_bit j c) <> get32 c.
Proof.
  intros L W Hj E. apply (flip_bit_ne j c); [lia|].
  apply get32_inj; try assumption.
  - rewrite flip_bit_len. assumption.
  - apply flip_bit_wf. assumption.
Qed.

(* ---------------------------------------------------------------------------------- *)
(* a frame = covered header part ++ stored checksum ++ payload; one flipped bit anywhere *)

Lemma frame_flip K hk c4 b i :
  lenN hk = K -> lenN c4 = 4 -> wf_bytes (hk ++ c4 ++ b) -> crc32 (hk ++ b) = get32 c4 ->
  i < 8 * lenN (hk ++ c4 ++ b) ->
  exists hk' c4' b',
    flip_bit i (hk ++ c4 ++ b) = hk' ++ c4' ++ b'
    /\ lenN hk' = K /\ lenN c4' = 4 /\ lenN b' = lenN b
    /\ crc32 (hk' ++ b') <> get32 c4'
    /\ (forall t, 8 * t <= i -> t <= K -> takeN t hk' = takeN t hk).
Proof.
  intros LK L4 W Hcrc Hi.
  apply wf_bytes_app in W. destruct W as [Wk W]. apply wf_bytes_app in W. destruct W as [W4 Wb].
  assert (Wkb : wf_bytes (hk ++ b)) by (apply wf_bytes_app; split; assumption).
  rewrite !lenN_app in Hi.
  destruct (N.lt_ge_cases i (8 * K)) as [C1|C1].
  - exists (flip_bit i hk), c4, b. rewrite flip_bit_app_l by lia.
    repeat split; try assumption.
    + rewrite flip_bit_len. assumption.
    + rewrite <- flip_bit_app_l by lia. rewrite <- Hcrc. apply crc32_flip_ne; [assumption|].
      rewrite lenN_app. lia.
    + intros t Ht _. apply flip_bit_prefix; lia.
  - destruct (N.lt_ge_cases i (8 * K + 32)) as [C2|C2].
    + exists hk, (flip_bit (i - 8 * K) c4), b.
      rewrite flip_bit_app_r by (rewrite ?lenN_app; lia). rewrite LK.
      rewrite flip_bit_app_l by lia.
      repeat split; try assumption.
      * rewrite flip_bit_len. assumption.
      * rewrite Hcrc. intros E. symmetry in E. revert E. apply get32_flip_ne; try assumption. lia.
    + exists hk, c4, (flip_bit (i - 8 * K - 32) b).
      rewrite flip_bit_app_r by (rewrite ?lenN_app; lia). rewrite LK.
      rewrite flip_bit_app_r by (rewrite ?lenN_app; lia). rewrite L4.
      replace (i - 8 * K - 8 * 4) with (i - 8 * K - 32) by lia.
      repeat split; try assumption.
      * apply flip_bit_len.
      * replace (i - 8 * K - 32) with (i - 32 - 8 * lenN hk) by lia.
        rewrite <- flip_bit_app_r by (rewrite ?lenN_app; lia).
        rewrite <- Hcrc. apply crc32_flip_ne; [assumption|]. rewrite lenN_app. lia.
Qed.

(* ---------------------------------------------------------------------------------- *)
(* evaluating the generic reader on header ++ payload *)

Lemma f_read_hb_eval_tail hs mx getlen h b tail :
  lenN h = hs -> hs <= getlen h -> getlen h <= mx -> lenN b = getlen h - hs ->
  f_read_hb hs mx getlen (h ++ b ++ tail) = (Ok (h, b), tail, [lenN b], [hs; lenN b]).
Proof.
  intros Lh H1 H2 Lb. unfold f_read_hb. rewrite !lenN_app.
  destruct (N.ltb_spec (lenN h + (lenN b + lenN tail)) hs) as [X|_]; [lia|].
  rewrite <- Lh, takeN_app_exact, dropN_app_exact. rewrite Lh.
  destruct (N.ltb_spec mx (getlen h)) as [X|_]; [lia|].
  destruct (N.ltb_spec (getlen h) hs) as [X|_]; [lia|]. cbn [orb].
  rewrite <- Lb. rewrite lenN_app.
  destruct (N.ltb_spec (lenN b + lenN tail) (lenN b)) as [X|_]; [lia|].
  rewrite takeN_app_exact, dropN_app_exact. reflexivity.
Qed.

Lemma f_read_hb_eval hs mx getlen h b :
  lenN h = hs -> hs <= getlen h -> getlen h <= mx -> lenN b = getlen h - hs ->
  f_read_hb hs mx getlen (h ++ b) = (Ok (h, b), [], [lenN b], [hs; lenN b]).
Proof.
  intros. rewrite <- (app_nil_r b) at 1. apply f_read_hb_eval_tail; assumption.
Qed.

Lemma firstn_exact {A} (a b : list A) n : length a = n -> firstn n (a ++ b) = a.
Proof. intros <-. rewrite firstn_app, Nat.sub_diag, firstn_all. cbn [firstn]. apply app_nil_r. Qed.
Lemma skipn_exact {A} (a b : list A) n : length a = n -> skipn n (a ++ b) = b.
Proof. intros <-. rewrite skipn_app, Nat.sub_diag, skipn_all. reflexivity. Qed.

Lemma length_of_lenN {A} (l : list A) n : lenN l = N.of_nat n -> length l = n.
Proof. unfold lenN. lia. Qed.

(* ---------------------------------------------------------------------------------- *)
Theorem crc_flip_v1 dec unzip hd frame p0 i s p1 :
  wf_bytes frame -> accepted (read_packet_v1 dec unzip hd [frame] p0) ->
  16 <= i -> i < 8 * lenN frame -> concat s = flip_bit i frame ->
  r_out (read_packet_v1 dec unzip hd s p1) = Err EChecksum.
Proof.
  intros W [[q Hq] Hrest] Hi1 Hi2 Hs.
  pose proof (read_packet_v1_flat dec unzip hd [frame] p0) as F. cbv zeta in F.
  cbn [concat] in F. rewrite app_nil_r in F. rewrite Hq, Hrest in F.
  unfold f_packet_v1, f_hb_v1 in F.
  pose proof (f_read_hb_bounded hs1 max1 get16 hs1_le_max1 frame) as B.
  destruct (f_read_hb hs1 max1 get16 frame) as [[[o rest] al] rd] eqn:E.
  cbn [lift_unmarshal] in F. injection F as F1 F2 F3 F4. subst rest.
  destruct o as [[h b]|e|]; try discriminate.
  destruct B as (_ & _ & _ & B). destruct (B h b eq_refl) as (Lh & Lsum & [R1 R2] & Hd).
  rewrite app_nil_r in Hd. clear B.
  (* the checksum held *)
  symmetry in F1. unfold unmarshal_v1 in F1. rewrite Lh, N.ltb_irrefl in F1.
  destruct (calc_checksum_v1 h b =? get32 (skipn 10 h)) eqn:Hc; cbn [negb] in F1; [|discriminate].
  apply N.eqb_eq in Hc. unfold calc_checksum_v1 in Hc.
  assert (Lh' : length h = 14%nat) by (apply length_of_lenN; exact Lh).
  set (hk := firstn 10 h) in *. set (c4 := skipn 10 h) in *.
  assert (Eh : h = hk ++ c4) by (symmetry; apply firstn_skipn).
  assert (Lk : lenN hk = 10) by (unfold lenN, hk; rewrite firstn_length; lia).
  assert (L4 : lenN c4 = 4) by (unfold lenN, c4; rewrite skipn_length; lia).
  rewrite Eh, <- app_assoc in Hd.
  destruct (frame_flip 10 hk c4 b i Lk L4) as (hk' & c4' & b' & Ef & Lk' & L4' & Lb' & Hne & Hpre);
    try (rewrite <- Hd; assumption); try assumption.
  (* the flipped frame: same length field *)
  assert (G : get16 (hk' ++ c4') = get16 h).
  { rewrite <- (get16_takeN 2 (hk' ++ c4')) by lia. rewrite takeN_app_le by lia.
    rewrite Hpre by lia. rewrite <- (takeN_app_le 2 hk c4) by lia. rewrite <- Eh.
    apply get16_takeN. lia. }
  pose proof (read_packet_v1_flat dec unzip hd s p1) as Gf. cbv zeta in Gf.
  rewrite Hs, Hd, Ef in Gf. unfold f_packet_v1, f_hb_v1 in Gf.
  rewrite app_assoc in Gf.
  rewrite f_read_hb_eval in Gf; try (rewrite G; lia); [|rewrite lenN_app; unfold hs1, codec_V1HeaderSize; lia].
  cbn [lift_unmarshal] in Gf. injection Gf as G1 _ _ _. rewrite G1.
  unfold unmarshal_v1. rewrite lenN_app, Lk', L4'.
  destruct (N.ltb_spec (10 + 4) hs1) as [X|_]; [unfold hs1, codec_V1HeaderSize in X; lia|].
  unfold calc_checksum_v1.
  rewrite firstn_exact by (apply length_of_lenN; exact Lk').
  rewrite skipn_exact by (apply length_of_lenN; exact Lk').
  destruct (N.eqb_spec (crc32 (hk' ++ b')) (get32 c4')) as [X|_]; [contradiction|]. reflexivity.
Qed.

Theorem crc_flip_v2 dec unzip hd frame p0 i s p1 :
  wf_bytes frame -> accepted (read_packet_v2 dec unzip hd [frame] p0) ->
  24 <= i -> i < 8 * lenN frame -> concat s = flip_bit i frame ->
  r_out (read_packet_v2 dec unzip hd s p1) = Err EChecksum.
Proof.
  intros W [[q Hq] Hrest] Hi1 Hi2 Hs.
  pose proof (read_packet_v2_flat dec unzip hd [frame] p0) as F. cbv zeta in F.
  cbn [concat] in F. rewrite app_nil_r in F. rewrite Hq, Hrest in F.
  unfold f_packet_v2, f_hb_v2 in F.
  pose proof (f_read_hb_bounded hs2 max2 get24 hs2_le_max2 frame) as B.
  destruct (f_read_hb hs2 max2 get24 frame) as [[[o rest] al] rd] eqn:E.
  cbn [lift_unmarshal] in F. injection F as F1 F2 F3 F4. subst rest.
  destruct o as [[h b]|e|]; try discriminate.
  destruct B as (_ & _ & _ & B). destruct (B h b eq_refl) as (Lh & Lsum & [R1 R2] & Hd).
  rewrite app_nil_r in Hd. clear B.
  symmetry in F1. unfold unmarshal_v2 in F1. rewrite Lh, N.ltb_irrefl in F1.
  destruct (calc_checksum_v2 h [] b =? get32 (skipn 16 h)) eqn:Hc; cbn [negb] in F1; [|discriminate].
  apply N.eqb_eq in Hc. unfold calc_checksum_v2 in Hc. cbn [app] in Hc.
  assert (Lh' : length h = 20%nat) by (apply length_of_lenN; exact Lh).
  set (hk := firstn 16 h) in *. set (c4 := skipn 16 h) in *.
  assert (Eh : h = hk ++ c4) by (symmetry; apply firstn_skipn).
  assert (Lk : lenN hk = 16) by (unfold lenN, hk; rewrite firstn_length; lia).
  assert (L4 : lenN c4 = 4) by (unfold lenN, c4; rewrite skipn_length; lia).
  rewrite Eh, <- app_assoc in Hd.
  destruct (frame_flip 16 hk c4 b i Lk L4) as (hk' & c4' & b' & Ef & Lk' & L4' & Lb' & Hne & Hpre);
    try (rewrite <- Hd; assumption); try assumption.
  assert (G : get24 (hk' ++ c4') = get24 h).
  { rewrite <- (get24_takeN 3 (hk' ++ c4')) by lia. rewrite takeN_app_le by lia.
    rewrite Hpre by lia. rewrite <- (takeN_app_le 3 hk c4) by lia. rewrite <- Eh.
    apply get24_takeN. lia. }
  pose proof (read_packet_v2_flat dec unzip hd s p1) as Gf. cbv zeta in Gf.
  rewrite Hs, Hd, Ef in Gf. unfold f_packet_v2, f_hb_v2 in Gf.
  rewrite app_assoc in Gf.
  rewrite f_read_hb_eval in Gf; try (rewrite G; lia); [|rewrite lenN_app; unfold hs2, codec_V2HeaderSize; lia].
  cbn [lift_unmarshal] in Gf. injection Gf as G1 _ _ _. rewrite G1.
  unfold unmarshal_v2. rewrite lenN_app, Lk', L4'.
  destruct (N.ltb_spec (16 + 4) hs2) as [X|_]; [unfold hs2, codec_V2HeaderSize in X; lia|].
  unfold calc_checksum_v2. cbn [app].
  rewrite firstn_exact by (apply length_of_lenN; exact Lk').
  rewrite skipn_exact by (apply length_of_lenN; exact Lk').
  destruct (N.eqb_spec (crc32 (hk' ++ b')) (get32 c4')) as [X|_]; [contradiction|]. reflexivity.
Qed.

Theorem crc_flip_tail_v1 dec unzip hd frame p0 i s p1 tail :
  wf_bytes frame -> accepted (read_packet_v1 dec unzip hd [frame] p0) ->
  16 <= i -> i < 8 * lenN frame -> concat s = flip_bit i frame ++ tail ->
  r_out (read_packet_v1 dec unzip hd s p1) = Err EChecksum
  /\ concat (r_rest (read_packet_v1 dec unzip hd s p1)) = tail.
Proof.
  intros W [[q Hq] Hrest] Hi1 Hi2 Hs.
  pose proof (read_packet_v1_flat dec unzip hd [frame] p0) as F. cbv zeta in F.
  cbn [concat] in F. rewrite app_nil_r in F. rewrite Hq, Hrest in F.
  unfold f_packet_v1, f_hb_v1 in F.
  pose proof (f_read_hb_bounded hs1 max1 get16 hs1_le_max1 frame) as B.
  destruct (f_read_hb hs1 max1 get16 frame) as [[[o rest] al] rd] eqn:E.
  cbn [lift_unmarshal] in F. injection F as F1 F2 F3 F4. subst rest.
  destruct o as [[h b]|e|]; try discriminate.
  destruct B as (_ & _ & _ & B). destruct (B h b eq_refl) as (Lh & Lsum & [R1 R2] & Hd).
  rewrite app_nil_r in Hd. clear B.
  (* the checksum held *)
  symmetry in F1. unfold unmarshal_v1 in F1. rewrite Lh, N.ltb_irrefl in F1.
  destruct (calc_checksum_v1 h b =? get32 (skipn 10 h)) eqn:Hc; cbn [negb] in F1; [|discriminate].
  apply N.eqb_eq in Hc. unfold calc_checksum_v1 in Hc.
  assert (Lh' : length h = 14%nat) by (apply length_of_lenN; exact Lh).
  set (hk := firstn 10 h) in *. set (c4 := skipn 10 h) in *.
  assert (Eh : h = hk ++ c4) by (symmetry; apply firstn_skipn).
  assert (Lk : lenN hk = 10) by (unfold lenN, hk; rewrite firstn_length; lia).
  assert (L4 : lenN c4 = 4) by (unfold lenN, c4; rewrite skipn_length; lia).
  rewrite Eh, <- app_assoc in Hd.
  destruct (frame_flip 10 hk c4 b i Lk L4) as (hk' & c4' & b' & Ef & Lk' & L4' & Lb' & Hne & Hpre);
    try (rewrite <- Hd; assumption); try assumption.
  (* the flipped frame: same length field *)
  assert (G : get16 (hk' ++ c4') = get16 h).
  { rewrite <- (get16_takeN 2 (hk' ++ c4')) by lia. rewrite takeN_app_le by lia.
    rewrite Hpre by lia. rewrite <- (takeN_app_le 2 hk c4) by lia. rewrite <- Eh.
    apply get16_takeN. lia. }
  pose proof (read_packet_v1_flat dec unzip hd s p1) as Gf. cbv zeta in Gf.
  rewrite Hs, Hd, Ef in Gf. unfold f_packet_v1, f_hb_v1 in Gf.
  rewrite <- !app_assoc in Gf. rewrite (app_assoc hk' c4') in Gf.
  rewrite f_read_hb_eval_tail in Gf; try (rewrite G; lia); [|rewrite lenN_app; unfold hs1, codec_V1HeaderSize; lia].
  cbn [lift_unmarshal] in Gf. injection Gf as G1 G2 _ _. split; [|exact G2]. rewrite G1.
  unfold unmarshal_v1. rewrite lenN_app, Lk', L4'.
  destruct (N.ltb_spec (10 + 4) hs1) as [X|_]; [unfold hs1, codec_V1HeaderSize in X; lia|].
  unfold calc_checksum_v1.
  rewrite firstn_exact by (apply length_of_lenN; exact Lk').
  rewrite skipn_exact by (apply length_of_lenN; exact Lk').
  destruct (N.eqb_spec (crc32 (hk' ++ b')) (get32 c4')) as [X|_]; [contradiction|]. reflexivity.
Qed.

Theorem crc_flip_tail_v2 dec unzip hd frame p0 i s p1 tail :
  wf_bytes frame -> accepted (read_packet_v2 dec unzip hd [frame] p0) ->
  24 <= i -> i < 8 * lenN frame -> concat s = flip_bit i frame ++ tail ->
  r_out (read_packet_v2 dec unzip hd s p1) = Err EChecksum
  /\ concat (r_rest (read_packet_v2 dec unzip hd s p1)) = tail.
Proof.
  intros W [[q Hq] Hrest] Hi1 Hi2 Hs.
  pose proof (read_packet_v2_flat dec unzip hd [frame] p0) as F. cbv zeta in F.
  cbn [concat] in F. rewrite app_nil_r in F. rewrite Hq, Hrest in F.
  unfold f_packet_v2, f_hb_v2 in F.
  pose proof (f_read_hb_bounded hs2 max2 get24 hs2_le_max2 frame) as B.
  destruct (f_read_hb hs2 max2 get24 frame) as [[[o rest] al] rd] eqn:E.
  cbn [lift_unmarshal] in F. injection F as F1 F2 F3 F4. subst rest.
  destruct o as [[h b]|e|]; try discriminate.
  destruct B as (_ & _ & _ & B). destruct (B h b eq_refl) as (Lh & Lsum & [R1 R2] & Hd).
  rewrite app_nil_r in Hd. clear B.
  symmetry in F1. unfold unmarshal_v2 in F1. rewrite Lh, N.ltb_irrefl in F1.
  destruct (calc_checksum_v2 h [] b =? get32 (skipn 16 h)) eqn:Hc; cbn [negb] in F1; [|discriminate].
  apply N.eqb_eq in Hc. unfold calc_checksum_v2 in Hc. cbn [app] in Hc.
  assert (Lh' : length h = 20%nat) by (apply length_of_lenN; exact Lh).
  set (hk := firstn 16 h) in *. set (c4 := skipn 16 h) in *.
  assert (Eh : h = hk ++ c4) by (symmetry; apply firstn_skipn).
  assert (Lk : lenN hk = 16) by (unfold lenN, hk; rewrite firstn_length; lia).
  assert (L4 : lenN c4 = 4) by (unfold lenN, c4; rewrite skipn_length; lia).
  rewrite Eh, <- app_assoc in Hd.
  destruct (frame_flip 16 hk c4 b i Lk L4) as (hk' & c4' & b' & Ef & Lk' & L4' & Lb' & Hne & Hpre);
    try (rewrite <- Hd; assumption); try assumption.
  assert (G : get24 (hk' ++ c4') = get24 h).
  { rewrite <- (get24_takeN 3 (hk' ++ c4')) by lia. rewrite takeN_app_le by lia.
    rewrite Hpre by lia. rewrite <- (takeN_app_le 3 hk c4) by lia. rewrite <- Eh.
    apply get24_takeN. lia. }
  pose proof (read_packet_v2_flat dec unzip hd s p1) as Gf. cbv zeta in Gf.
  rewrite Hs, Hd, Ef in Gf. unfold f_packet_v2, f_hb_v2 in Gf.
  rewrite <- !app_assoc in Gf. rewrite (app_assoc hk' c4') in Gf.
  rewrite f_read_hb_eval_tail in Gf; try (rewrite G; lia); [|rewrite lenN_app; unfold hs2, codec_V2HeaderSize; lia].
  cbn [lift_unmarshal] in Gf. injection Gf as G1 G2 _ _. split; [|exact G2]. rewrite G1.
  unfold unmarshal_v2. rewrite lenN_app, Lk', L4'.
  destruct (N.ltb_spec (16 + 4) hs2) as [X|_]; [unfold hs2, codec_V2HeaderSize in X; lia|].
  unfold calc_checksum_v2. cbn [app].
  rewrite firstn_exact by (apply length_of_lenN; exact Lk').
  rewrite skipn_exact by (apply length_of_lenN; exact Lk').
  destruct (N.eqb_spec (crc32 (hk' ++ b')) (get32 c4')) as [X|_]; [contradiction|]. reflexivity.
Qed.

(* ---------------------------------------------------------------------------------- *)
(* a flip INSIDE the length field: an error, unless a strictly shorter frame cut out of the
   same bytes collides with the original under CRC-32 (cannot be excluded by any theorem) *)

Lemma get16_inj c c' : lenN c = 2 -> lenN c' = 2 -> wf_bytes c -> wf_bytes c' ->
  get16 c = get16 c' -> c = c'.
Proof.
  intros L L' W W' E.
  destruct c as [|a0 [|a1 [|? ?]]]; try (exfalso; revert L; unfold lenN; cbn [length]; lia).
  destruct c' as [|b0 [|b1 [|? ?]]]; try (exfalso; revert L'; unfold lenN; cbn [length]; lia).
  unfold wf_bytes in W, W'.
  repeat match goal with H : Forall _ (_ :: _) |- _ => inversion H; clear H; subst end.
  rewrite <- (be16_get16 a0 a1 []) by assumption.
  rewrite <- (be16_get16 b0 b1 []) by assumption. rewrite E. reflexivity.
Qed.

Lemma get24_inj c c' : lenN c = 3 -> lenN c' = 3 -> wf_bytes c -> wf_bytes c' ->
  get24 c = get24 c' -> c = c'.
Proof.
  intros L L' W W' E.
  destruct c as [|a0 [|a1 [|a2 [|? ?]]]]; try (exfalso; revert L; unfold lenN; cbn [length]; lia).
  destruct c' as [|b0 [|b1 [|b2 [|? ?]]]]; try (exfalso; revert L'; unfold lenN; cbn [length]; lia).
  unfold wf_bytes in W, W'.
  repeat match goal with H : Forall _ (_ :: _) |- _ => inversion H; clear H; subst end.
  rewrite <- (be24_get24 a0 a1 a2 []) by assumption.
  rewrite <- (be24_get24 b0 b1 b2 []) by assumption. rewrite E. reflexivity.
Qed.

(* the length read from a frame whose bit i (inside the first t bytes) was flipped differs *)
Lemma getlen_flip_ne t (getlen : bytes -> N) m i :
  (forall l, getlen (takeN t l) = getlen l) ->
  (forall c c', lenN c = t -> lenN c' = t -> wf_bytes c -> wf_bytes c' -> getlen c = getlen c' -> c = c') ->
  t <= lenN m -> wf_bytes m -> i < 8 * t -> getlen (flip_bit i m) <> getlen m.
Proof.
  intros Htake Hinj Lm W Hi E.
  rewrite <- (Htake (flip_bit i m)), <- (Htake m) in E.
  rewrite <- (takeN_dropN t m) in E at 1.
  rewrite flip_bit_app_l in E by (rewrite lenN_takeN; lia).
  rewrite takeN_app_le in E by (rewrite flip_bit_len, lenN_takeN; lia).
  rewrite takeN_all in E by (rewrite flip_bit_len, lenN_takeN; lia).
  apply Hinj in E.
  - revert E. apply flip_bit_ne. rewrite lenN_takeN; lia.
  - rewrite flip_bit_len. apply lenN_takeN. assumption.
  - apply lenN_takeN. assumption.
  - apply flip_bit_wf. apply wf_bytes_takeN. assumption.
  - apply wf_bytes_takeN. assumption.
Qed.

Definition crc_collision (K hs : nat) (frame h' b' : bytes) : Prop :=
  lenN h' + lenN b' < lenN frame
  /\ firstn K h' <> firstn K frame
  /\ crc32 (firstn K h' ++ b') = crc32 (firstn K frame ++ skipn hs frame).

Theorem len_flip_partial_v1 dec unzip hd frame p0 i s p1 :
  wf_bytes frame -> accepted (read_packet_v1 dec unzip hd [frame] p0) ->
  i < 16 -> concat s = flip_bit i frame ->
  is_err (r_out (read_packet_v1 dec unzip hd s p1))
  \/ exists h' b', r_out (read_head_body_v1 s) = Ok (h', b') /\ crc_collision 10 14 frame h' b'.
Proof.
  intros W [[q Hq] Hrest] Hi Hs.
  pose proof (read_packet_v1_flat dec unzip hd [frame] p0) as F. cbv zeta in F.
  cbn [concat] in F. rewrite app_nil_r in F. rewrite Hq, Hrest in F.
  unfold f_packet_v1, f_hb_v1 in F.
  pose proof (f_read_hb_bounded hs1 max1 get16 hs1_le_max1 frame) as B.
  destruct (f_read_hb hs1 max1 get16 frame) as [[[o rest] al] rd] eqn:E.
  cbn [lift_unmarshal] in F. injection F as F1 F2 F3 F4. subst rest.
  destruct o as [[h b]|e|]; try discriminate.
  destruct B as (_ & _ & _ & B). destruct (B h b eq_refl) as (Lh & Lsum & [R1 R2] & Hd).
  rewrite app_nil_r in Hd. clear B.
  symmetry in F1. unfold unmarshal_v1 in F1. rewrite Lh, N.ltb_irrefl in F1.
  destruct (calc_checksum_v1 h b =? get32 (skipn 10 h)) eqn:Hc; cbn [negb] in F1; [|discriminate].
  apply N.eqb_eq in Hc. unfold calc_checksum_v1 in Hc.
  assert (Lframe : lenN frame = get16 h) by (rewrite Hd, lenN_app; lia).
  assert (Hhs : hs1 = 14) by reflexivity.
  assert (Eh : h = takeN 14 frame) by (rewrite Hd, <- Hhs, <- Lh; symmetry; apply takeN_app_exact).
  assert (Eb : b = skipn 14 frame).
  { rewrite Hd. symmetry. apply skipn_exact. apply length_of_lenN. rewrite Lh. reflexivity. }
  assert (Gh : get16 h = get16 frame) by (rewrite Eh; apply get16_takeN; lia).
  (* the damaged frame *)
  set (f' := flip_bit i frame) in *.
  assert (Lf' : lenN f' = lenN frame) by apply flip_bit_len.
  assert (Gne : get16 f' <> get16 frame).
  { apply (getlen_flip_ne 2); try assumption; try lia.
    - intros l. apply get16_takeN. lia.
    - exact get16_inj. }
  pose proof (read_packet_v1_flat dec unzip hd s p1) as Gf. cbv zeta in Gf. rewrite Hs in Gf.
  pose proof (head_body_v1_flat s) as Hf. cbv zeta in Hf. rewrite Hs in Hf.
  unfold f_packet_v1 in Gf. unfold f_hb_v1 in *.
  pose proof (f_read_hb_bounded hs1 max1 get16 hs1_le_max1 f') as B'.
  destruct (f_read_hb hs1 max1 get16 f') as [[[o' rest'] al'] rd'] eqn:E'.
  cbn [lift_unmarshal] in Gf. injection Gf as G1 _ _ _. injection Hf as H1 _ _ _.
  destruct B' as (Bp & _ & _ & B').
  destruct o' as [[h' b']|e'|]; [|left; eexists; exact G1|contradiction].
  destruct (B' h' b' eq_refl) as (Lh' & Lsum' & [R1' R2'] & Hd').
  rewrite G1. unfold unmarshal_v1. rewrite Lh', N.ltb_irrefl.
  destruct (calc_checksum_v1 h' b' =? get32 (skipn 10 h')) eqn:Hc'; cbn [negb];
    [|left; eexists; reflexivity].
  right. exists h', b'. split; [exact H1|].
  apply N.eqb_eq in Hc'. unfold calc_checksum_v1 in Hc'.
  assert (Eh' : h' = takeN 14 f') by (rewrite Hd', <- Hhs, <- Lh'; symmetry; apply takeN_app_exact).
  assert (Gh' : get16 h' = get16 f') by (rewrite Eh'; apply get16_takeN; lia).
  assert (Lle : lenN h' + lenN b' <= lenN f') by (pose proof (f_equal lenN Hd') as X; rewrite !lenN_app in X; lia).
  (* bytes 2.. of the header are untouched *)
  assert (Ef' : f' = flip_bit i (takeN 10 frame) ++ dropN 10 frame).
  { unfold f'. rewrite <- (takeN_dropN 10 frame) at 1. apply flip_bit_app_l. rewrite lenN_takeN; lia. }
  assert (L10 : lenN (flip_bit i (takeN 10 frame)) = 10) by (rewrite flip_bit_len; apply lenN_takeN; lia).
  assert (L10' : lenN (takeN 10 frame) = 10) by (apply lenN_takeN; lia).
  assert (Hh'2 : h' = flip_bit i (takeN 10 frame) ++ takeN 4 (dropN 10 frame)).
  { rewrite Eh', Ef'. rewrite takeN_app_ge by (rewrite L10; lia). rewrite L10. reflexivity. }
  assert (Hh2 : h = takeN 10 frame ++ takeN 4 (dropN 10 frame)).
  { rewrite Eh. rewrite <- (takeN_dropN 10 frame) at 1.
    rewrite takeN_app_ge by (rewrite L10'; lia). rewrite L10'. reflexivity. }
  assert (Ek' : firstn 10 h' = flip_bit i (takeN 10 frame)).
  { rewrite Hh'2. apply firstn_exact. apply length_of_lenN. exact L10. }
  assert (Es' : skipn 10 h' = skipn 10 h).
  { rewrite Hh'2, Hh2. rewrite !skipn_exact by (apply length_of_lenN; assumption). reflexivity. }
  unfold crc_collision. split; [|split].
  - rewrite Gh' in Lsum'. rewrite Gh in Lframe. lia.
  - rewrite Ek'. rewrite <- takeN_firstn with (n := 10). apply flip_bit_ne. rewrite lenN_takeN; lia.
  - rewrite Hc', Es', <- Hc. rewrite Eh at 1. rewrite takeN_firstn. change (N.to_nat 14) with 14%nat.
    rewrite firstn_firstn. change (Nat.min 10 14) with 10%nat. rewrite Eb. reflexivity.
Qed.

Theorem len_flip_partial_v2 dec unzip hd frame p0 i s p1 :
  wf_bytes frame -> accepted (read_packet_v2 dec unzip hd [frame] p0) ->
  i < 24 -> concat s = flip_bit i frame ->
  is_err (r_out (read_packet_v2 dec unzip hd s p1))
  \/ exists h' b', r_out (read_head_body_v2 s) = Ok (h', b') /\ crc_collision 16 20 frame h' b'.
Proof.
  intros W [[q Hq] Hrest] Hi Hs.
  pose proof (read_packet_v2_flat dec unzip hd [frame] p0) as F. cbv zeta in F.
  cbn [concat] in F. rewrite app_nil_r in F. rewrite Hq, Hrest in F.
  unfold f_packet_v2, f_hb_v2 in F.
  pose proof (f_read_hb_bounded hs2 max2 get24 hs2_le_max2 frame) as B.
  destruct (f_read_hb hs2 max2 get24 frame) as [[[o rest] al] rd] eqn:E.
  cbn [lift_unmarshal] in F. injection F as F1 F2 F3 F4. subst rest.
  destruct o as [[h b]|e|]; try discriminate.
  destruct B as (_ & _ & _ & B). destruct (B h b eq_refl) as (Lh & Lsum & [R1 R2] & Hd).
  rewrite app_nil_r in Hd. clear B.
  symmetry in F1. unfold unmarshal_v2 in F1. rewrite Lh, N.ltb_irrefl in F1.
  destruct (calc_checksum_v2 h [] b =? get32 (skipn 16 h)) eqn:Hc; cbn [negb] in F1; [|discriminate].
  apply N.eqb_eq in Hc. unfold calc_checksum_v2 in Hc. cbn [app] in Hc.
  assert (Lframe : lenN frame = get24 h) by (rewrite Hd, lenN_app; lia).
  assert (Hhs : hs2 = 20) by reflexivity.
  assert (Eh : h = takeN 20 frame) by (rewrite Hd, <- Hhs, <- Lh; symmetry; apply takeN_app_exact).
  assert (Eb : b = skipn 20 frame).
  { rewrite Hd. symmetry. apply skipn_exact. apply length_of_lenN. rewrite Lh. reflexivity. }
  assert (Gh : get24 h = get24 frame) by (rewrite Eh; apply get24_takeN; lia).
  (* the damaged frame *)
  set (f' := flip_bit i frame) in *.
  assert (Lf' : lenN f' = lenN frame) by apply flip_bit_len.
  assert (Gne : get24 f' <> get24 frame).
  { apply (getlen_flip_ne 3); try assumption; try lia.
    - intros l. apply get24_takeN. lia.
    - exact get24_inj. }
  pose proof (read_packet_v2_flat dec unzip hd s p1) as Gf. cbv zeta in Gf. rewrite Hs in Gf.
  pose proof (head_body_v2_flat s) as Hf. cbv zeta in Hf. rewrite Hs in Hf.
  unfold f_packet_v2 in Gf. unfold f_hb_v2 in *.
  pose proof (f_read_hb_bounded hs2 max2 get24 hs2_le_max2 f') as B'.
  destruct (f_read_hb hs2 max2 get24 f') as [[[o' rest'] al'] rd'] eqn:E'.
  cbn [lift_unmarshal] in Gf. injection Gf as G1 _ _ _. injection Hf as H1 _ _ _.
  destruct B' as (Bp & _ & _ & B').
  destruct o' as [[h' b']|e'|]; [|left; eexists; exact G1|contradiction].
  destruct (B' h' b' eq_refl) as (Lh' & Lsum' & [R1' R2'] & Hd').
  rewrite G1. unfold unmarshal_v2. rewrite Lh', N.ltb_irrefl.
  destruct (calc_checksum_v2 h' [] b' =? get32 (skipn 16 h')) eqn:Hc'; cbn [negb];
    [|left; eexists; reflexivity].
  right. exists h', b'. split; [exact H1|].
  apply N.eqb_eq in Hc'. unfold calc_checksum_v2 in Hc'. cbn [app] in Hc'.
  assert (Eh' : h' = takeN 20 f') by (rewrite Hd', <- Hhs, <- Lh'; symmetry; apply takeN_app_exact).
  assert (Gh' : get24 h' = get24 f') by (rewrite Eh'; apply get24_takeN; lia).
  assert (Lle : lenN h' + lenN b' <= lenN f') by (pose proof (f_equal lenN Hd') as X; rewrite !lenN_app in X; lia).
  (* bytes 2.. of the header are untouched *)
  assert (Ef' : f' = flip_bit i (takeN 16 frame) ++ dropN 16 frame).
  { unfold f'. rewrite <- (takeN_dropN 16 frame) at 1. apply flip_bit_app_l. rewrite lenN_takeN; lia. }
  assert (L10 : lenN (flip_bit i (takeN 16 frame)) = 16) by (rewrite flip_bit_len; apply lenN_takeN; lia).
  assert (L10' : lenN (takeN 16 frame) = 16) by (apply lenN_takeN; lia).
  assert (Hh'2 : h' = flip_bit i (takeN 16 frame) ++ takeN 4 (dropN 16 frame)).
  { rewrite Eh', Ef'. rewrite takeN_app_ge by (rewrite L10; lia). rewrite L10. reflexivity. }
  assert (Hh2 : h = takeN 16 frame ++ takeN 4 (dropN 16 frame)).
  { rewrite Eh. rewrite <- (takeN_dropN 16 frame) at 1.
    rewrite takeN_app_ge by (rewrite L10'; lia). rewrite L10'. reflexivity. }
  assert (Ek' : firstn 16 h' = flip_bit i (takeN 16 frame)).
  { rewrite Hh'2. apply firstn_exact. apply length_of_lenN. exact L10. }
  assert (Es' : skipn 16 h' = skipn 16 h).
  { rewrite Hh'2, Hh2. rewrite !skipn_exact by (apply length_of_lenN; assumption). reflexivity. }
  unfold crc_collision. split; [|split].
  - rewrite Gh' in Lsum'. rewrite Gh in Lframe. lia.
  - rewrite Ek'. rewrite <- takeN_firstn with (n := 16). apply flip_bit_ne. rewrite lenN_takeN; lia.
  - rewrite Hc', Es', <- Hc. rewrite Eh at 1. rewrite takeN_firstn. change (N.to_nat 20) with 20%nat.
    rewrite firstn_firstn. change (Nat.min 16 20) with 16%nat. rewrite Eb. reflexivity.
Qed.
