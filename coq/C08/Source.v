(* C08 — the head of SeqIDGen.Next and of NewSeqIDGen, regenerated from x/uuid/seq.go by
   tools/gofunc as fragments (Generated/SeqID.v; the mutex statements are skipped, the field
   lastID that Next assigns comes back with the result), are the model's:
     Next:  next := lastID + 1; rangEnd := (counter + 1) * step; inside the segment
            (next <= rangEnd) the id is handed out at once and stored - otherwise control goes
            on to reload(), the part the model describes with the store's answer;
     NewSeqIDGen:  a step <= 0 is replaced by DefaultSeqStep.
   int64 arithmetic wraps in the translation exactly as in the model (Model.int64). *)
From Coq Require Import ZArith List Bool Lia.
From FV Require Import Generated.Consts Generated.SeqID Lib.GoSem C08.Model.
Open Scope Z_scope.

Lemma int64_wrap v : int64 v = (v + 9223372036854775808) mod 18446744073709551616 - 9223372036854775808.
Proof. reflexivity. Qed.

(* Next after the fast path failed: the store is asked (Model.next's reload branch) *)
Definition next_reload (g : gen) (a : ans) : out * gen :=
  match reload g a with
  | (Some e, g') => (e, g')
  | (None, g') =>
      let n := int64 (g_last g' + 1) in
      (OId n, mkGen (g_step g') (g_counter g') n)
  end.

Lemma src_next g a :
  next g a =
  match go_SeqIDGen_Next_prefix (g_last g) (g_counter g) (g_step g) with
  | Returned _ last' => (OId last', mkGen (g_step g) (g_counter g) last')
  | Reached _ => next_reload g a
  end.
Proof.
  unfold next, needs_reload, go_SeqIDGen_Next_prefix, next_reload. cbv zeta.
  rewrite !int64_wrap.
  match goal with |- context [if (?x <=? ?y) then _ else _] => destruct (x <=? y) end; reflexivity.
Qed.

Lemma src_new_gen step : - 2 ^ 31 <= step < 2 ^ 31 ->
  match go_NewSeqIDGen_prefix step with
  | Reached step' => new_gen step = mkGen step' 0 0
  | Returned _ _ => False
  end.
Proof.
  intros H. unfold go_NewSeqIDGen_prefix, new_gen. change x_uuid_DefaultSeqStep with 2000.
  destruct (step <=? 0); reflexivity.
Qed.
