(* C08 — Segment id generators never repeat an id across generators, restarts, faults.
   This file holds only the property theorems; each is closed by an exact lemma and followed
   by Print Assumptions.

   Vocabulary (C08/Model.v): a history is a list of events [ENew g step | EInit g a |
   ENext g a | ECrash g] over any number of generators g sharing one counter store; [a] is the
   answer the store gives if Storage.Incr is called during the event ([StoreOk c], or an
   error before / after the counter moved) — every theorem quantifies over all of them.
   Since Next runs under the generator's mutex, a history is also every interleaving of the
   calls of any number of goroutines.  [run empty h] is the trace (event, output, store asked?),
   [ids] the ids issued, [lease_cs] the counter values handed out successfully.

   [premise S h] (C08/Proofs.v, a boolean predicate) says: every generator was created with
   the effective step S >= 1; Next is called only on a generator whose Init has succeeded; the
   counter values the store handed out are pairwise distinct; and no int64 overflow
   (c*S and (c+1)*S+1 representable for every counter c handed out). *)
From Coq Require Import ZArith List Bool Sorted.
From FV Require Import Generated.Consts C08.Model C08.Proofs.
Import ListNotations.
Open Scope Z_scope.

(* "all ids issued by any number of generators sharing that store are distinct" — across
   generators, incarnations, segments, for every interleaving and every fault pattern *)
Theorem c08_all_distinct : forall S h,
  premise S h = true -> NoDup (ids (run empty h)).
Proof. exact all_distinct_thm. Qed.
Print Assumptions c08_all_distinct.

(* "... and lie inside the segment it leased": every id obtained by the current incarnation
   of generator g lies in (c*S, (c+1)*S] for a counter c that this incarnation obtained.
   (Histories are prefix-closed — c08_premise_prefix — so this speaks of every incarnation at
   every moment.) *)
Theorem c08_in_segment : forall S h g i,
  premise S h = true -> In i (cur_ids g [] (run empty h)) ->
  exists c, In c (cur_leases g [] (run empty h)) /\ c * S < i <= (c + 1) * S.
Proof. exact in_own_segment_thm. Qed.
Print Assumptions c08_in_segment.

(* "each generator's ids are strictly increasing": whenever the counters an incarnation
   obtained grow (which the adapters' guard enforces, c08_guard_monotone), so do its ids *)
Theorem c08_increasing : forall S h g,
  premise S h = true ->
  StronglySorted Z.lt (cur_leases g [] (run empty h)) ->
  StronglySorted Z.lt (cur_ids g [] (run empty h)).
Proof. exact increasing_thm. Qed.
Print Assumptions c08_increasing.

(* "a generator recreated after a crash never re-issues an id from before the crash": no id
   issued before the crash of g — by g or anybody else — is issued after it *)
Theorem c08_crash_no_reissue : forall S h1 g h2 i,
  premise S (h1 ++ ECrash g :: h2) = true ->
  In i (ids (run empty h1)) ->
  ~ In i (ids (run (final empty h1) (ECrash g :: h2))).
Proof. exact crash_no_reissue_thm. Qed.
Print Assumptions c08_crash_no_reissue.

(* "a failed store call surfaces as an error without consuming or duplicating ids and
   generation resumes correctly once the store recovers": while the segment lasts the store's
   answer is not looked at; when the segment is used up an error answer comes back as the
   error and leaves the generator exactly as it was, and the next successful answer c yields
   the first id of segment c; a failed Init likewise changes nothing.  (That ids stay distinct
   and in-segment through any pattern of failures is part of the theorems above, whose
   histories contain the error answers.) *)
Theorem c08_store_error : forall S g a c,
  1 <= S -> gen_ok S g -> (forall c0, a <> StoreOk c0) -> fits S c ->
  (needs_reload g = false -> forall a', next g a = next g a') /\
  (needs_reload g = true ->
     next g a = (OErrStore, g) /\
     next g (StoreOk c) = (OId (c * S + 1), mkGen S c (c * S + 1))) /\
  init g a = (OErrStore, g).
Proof. exact store_error_thm. Qed.
Print Assumptions c08_store_error.

(* "store adapters refuse a counter that did not grow": fed with any sequence of non-zero raw
   counter values, the values the guard lets through are strictly increasing (everything else
   is answered with ErrIDOutOfRange), and what it lets through is the raw value itself *)
Theorem c08_guard_monotone : forall raws,
  Forall (fun r => r <> 0) raws -> StronglySorted Z.lt (somes (guard_run 0 raws)).
Proof. exact guard_monotone_thm. Qed.
Print Assumptions c08_guard_monotone.

(* together: a generator whose counters are what its adapter's guard lets through (from any
   non-zero raw counter sequence) issues strictly increasing ids *)
Theorem c08_increasing_guarded : forall S h g raws,
  premise S h = true -> Forall (fun r => r <> 0) raws ->
  cur_leases g [] (run empty h) = somes (guard_run 0 raws) ->
  StronglySorted Z.lt (cur_ids g [] (run empty h)).
Proof. exact increasing_guarded_thm. Qed.
Print Assumptions c08_increasing_guarded.

Theorem c08_guard_value : forall last raw,
  fst (guard last raw) = None \/ fst (guard last raw) = Some raw.
Proof. exact guard_value. Qed.
Print Assumptions c08_guard_value.

(* the premise is prefix-closed: the theorems hold at every moment of a history *)
Theorem c08_premise_prefix : forall S h1 h2, premise S (h1 ++ h2) = true -> premise S h1 = true.
Proof. exact premise_app. Qed.
Print Assumptions c08_premise_prefix.

(* non-vacuity: a history with two generators, step 3, segment roll-over, store errors before
   and after the counter moved, a crash and a re-creation meets the premise; the model computes *)
Definition c08_example_history : list event :=
  [ENew 0 3; EInit 0 (StoreOk 7); ENew 1 3; EInit 1 StoreErrBefore; EInit 1 (StoreOk 8);
   ENext 0 StoreErrBefore; ENext 0 StoreErrBefore; ENext 0 StoreErrBefore;
   ENext 0 (StoreErrAfter 9); ENext 0 StoreErrBefore; ENext 0 (StoreOk 10);
   ENext 1 (StoreOk 99); ECrash 0; ENew 0 3; EInit 0 (StoreOk 11); ENext 0 (StoreOk 99);
   ENext 1 (StoreOk 99); ENext 1 (StoreOk 99); ENext 1 (StoreOk 5)]%list.

Example c08_example :
  premise 3 c08_example_history = true /\
  map (fun x => snd (fst x)) (run empty c08_example_history) =
  [ONone; OInitOk; ONone; OErrStore; OInitOk;
   OId 22; OId 23; OId 24; OErrStore; OErrStore; OId 31;
   OId 25; ONone; ONone; OInitOk; OId 34; OId 26; OId 27; OId 16]%list /\
  lease_cs (run empty c08_example_history) = [7; 8; 10; 11; 5]%list /\
  cur_ids 1 [] (run empty c08_example_history) = [25; 26; 27; 16]%list /\
  cur_leases 1 [] (run empty c08_example_history) = [8; 5]%list.
Proof. vm_compute. repeat split; reflexivity. Qed.

(* the guard is switched off while lastId = 0: a raw value 0 is not protected (this is why
   c08_guard_monotone asks for non-zero raw values; redis INCR, etcd revisions and the SQL /
   mongo counters start at 1) *)
Example c08_guard_zero_gap : guard_run 0 [0; 0; -1]%list = [Some 0; Some 0; Some (-1)]%list.
Proof. reflexivity. Qed.

(* ---------------------------------------------------------------------------------------
   what must NOT change, and the premise for the package-level API (C08/Proofs2.v) *)
From FV Require Import C08.Proofs2.

(* "a failed store call surfaces as an error without consuming or duplicating ids" — for EVERY
   history and every starting world, with no premise at all: erase all the events that came
   back with the store's error (failed Init, failed re-lease, before or after the counter
   moved); every remaining event returns exactly what it returned in the full history — same
   ids, same store calls — so the failures consumed nothing and changed nothing. *)
Theorem c08_failed_calls_consume_nothing : forall w h,
  filter not_store_error (run w h) = run w (erase_failed w h) /\
  ids (run w (erase_failed w h)) = ids (run w h).
Proof. intros w h. split; [apply erase_failed_thm | apply failed_calls_consume_nothing]. Qed.
Print Assumptions c08_failed_calls_consume_nothing.

Example c08_example_erase :
  length (erase_failed empty c08_example_history) = 16%nat /\
  ids (run empty (erase_failed empty c08_example_history)) = [22; 23; 24; 31; 25; 34; 26; 27; 16]%list /\
  ids (run empty c08_example_history) = [22; 23; 24; 31; 25; 34; 26; 27; 16]%list.
Proof. vm_compute. repeat split; reflexivity. Qed.

(* The package-level API (api.go): Init(store) creates a generator with the default step and
   publishes it only if its first lease succeeded; NextID() calls the published generator.
   For every sequence of api calls and store answers, two parts of the premise hold by
   construction (one step; never used before a successful Init) and what remains is the store's
   side: the counters it hands out are pairwise distinct — and representable (no int64
   overflow at step 2000).  Then all ids are distinct and lie in segments that were leased. *)
Theorem c08_api_all_distinct : forall l,
  init_answers_fit l ->
  let tr := run empty (api_events 0 None l) in
  NoDup (lease_cs tr) -> Forall (fits D) (lease_cs tr) ->
  NoDup (ids tr) /\
  forall i, In i (ids tr) -> exists c, In c (lease_cs tr) /\ c * D < i <= (c + 1) * D.
Proof. exact api_all_distinct. Qed.
Print Assumptions c08_api_all_distinct.

Theorem c08_api_premise : forall l,
  init_answers_fit l ->
  let tr := run empty (api_events 0 None l) in
  NoDup (lease_cs tr) -> Forall (fits D) (lease_cs tr) ->
  premise D (api_events 0 None l) = true.
Proof. exact api_premise. Qed.
Print Assumptions c08_api_premise.

(* non-vacuity: NextID before any Init (nothing), a failed first Init, a successful one, ids, a
   failed re-Init that must keep the old generator, a successful re-Init *)
Example c08_example_api :
  let l := [ANext StoreErrBefore; AInit StoreErrBefore; AInit (StoreOk 7); ANext StoreErrBefore;
            ANext StoreErrBefore; AInit (StoreErrAfter 9); ANext StoreErrBefore; AInit (StoreOk 12);
            ANext StoreErrBefore]%list in
  ids (run empty (api_events 0 None l)) = [14001; 14002; 14003; 24001]%list /\
  lease_cs (run empty (api_events 0 None l)) = [7; 12]%list /\
  premise D (api_events 0 None l) = true.
Proof. vm_compute. repeat split; reflexivity. Qed.

(* ------------------------------------------------------------------------------------------
   Tie to the source (C08/Source.v): the head of SeqIDGen.Next - the in-segment fast path that
   hands out lastID+1 without asking the store - and NewSeqIDGen's default step are
   regenerated from seq.go by tools/gofunc on every run (Generated/SeqID.v, fragments) and are
   the model's; [next_reload] is the model's remaining branch (the store is asked). *)
From FV Require Import Generated.SeqID Lib.GoSem C08.Source.

Theorem c08_src_next : forall g a,
  next g a =
  match go_SeqIDGen_Next_prefix (g_last g) (g_counter g) (g_step g) with
  | Returned _ last' => (OId last', mkGen (g_step g) (g_counter g) last')
  | Reached _ => next_reload g a
  end.
Proof. exact src_next. Qed.
Print Assumptions c08_src_next.

Theorem c08_src_new_gen : forall step, - 2 ^ 31 <= step < 2 ^ 31 ->
  match go_NewSeqIDGen_prefix step with
  | Reached step' => new_gen step = mkGen step' 0 0
  | Returned _ _ => False
  end.
Proof. exact src_new_gen. Qed.
Print Assumptions c08_src_new_gen.

(* ---------------------------------------------------------------------------------------
   The guard at the source: RedisStore.Incr and EtcdStore.Incr, regenerated from store_redis.go
   and store_etcd.go on every run (Generated/StoreGuards.v, the database round trip external),
   ARE the model's guard — the client's error is passed on with lastId kept; otherwise the
   result is guard's — and once lastId is set the guard refuses exactly the counters that did
   not grow.  (C08/SourceGuards.v; the mysql and mongo Incr are outside the translator's
   subset and are tied by executing them against fakes of their servers.) *)
From FV Require Import Generated.StoreGuards C08.SourceGuards.

Theorem c08_src_redis_incr : forall last cnt err,
  go_RedisStore_Incr last cnt err =
  if negb (err =? 0) then (0, err, last) else guard_as_incr last cnt.
Proof. exact src_redis_incr. Qed.
Print Assumptions c08_src_redis_incr.

Theorem c08_src_etcd_incr : forall last rev err,
  go_EtcdStore_Incr last rev err =
  if negb (err =? 0) then (0, err, last) else guard_as_incr last rev.
Proof. exact src_etcd_incr. Qed.
Print Assumptions c08_src_etcd_incr.

Theorem c08_src_guard_refuses_exactly : forall last cnt,
  last <> 0 ->
  (fst (fst (go_RedisStore_Incr last cnt 0)) = cnt /\ snd (fst (go_RedisStore_Incr last cnt 0)) = 0 /\
   snd (go_RedisStore_Incr last cnt 0) = cnt <-> last < cnt) /\
  (snd (fst (go_RedisStore_Incr last cnt 0)) = go_err_uuid_ErrIDOutOfRange /\
   snd (go_RedisStore_Incr last cnt 0) = last <-> cnt <= last).
Proof. exact src_guard_refuses_exactly. Qed.
Print Assumptions c08_src_guard_refuses_exactly.

Example c08_example_src_guard :
  (go_RedisStore_Incr 5 9 0 = (9, 0, 9)) /\ (go_RedisStore_Incr 5 5 0 = (0, go_err_uuid_ErrIDOutOfRange, 5)) /\
  (go_EtcdStore_Incr 5 3 0 = (0, go_err_uuid_ErrIDOutOfRange, 5)) /\ (go_EtcdStore_Incr 0 (-4) 0 = (-4, 0, -4)) /\
  (go_EtcdStore_Incr 5 9 77 = (0, 77, 5)).
Proof. vm_compute. repeat split; reflexivity. Qed.

(* ---------------------------------------------------------------------------------------
   The WHOLE generator at the source: SeqIDGen.reload, SeqIDGen.Init and the whole of
   SeqIDGen.Next (fast path AND the slow path through reload), regenerated from x/uuid/seq.go
   on every run (Generated/SeqID.v; the store call s.store.Incr() external - its answer
   (counter, error code) is a parameter; fmt.Errorf is the error code 1; the assigned fields
   counter / lastID follow the results), ARE the model's reload / init / next for every
   generator state and every answer of the store, int64 wrap-around included, and Model.step
   on a live generator is the translated method.  (C08/SourceNext.v) *)
From FV Require Import C08.SourceNext.

Theorem c08_src_reload : forall g a cnt err, answers a cnt err ->
  go_SeqIDGen_reload (g_counter g) (g_last g) (g_step g) cnt err =
    (opt_err (fst (reload g a)) err, g_counter (snd (reload g a)), g_last (snd (reload g a))) /\
  g_step (snd (reload g a)) = g_step g.
Proof. exact src_reload. Qed.
Print Assumptions c08_src_reload.

Theorem c08_src_init : forall g a cnt err, answers a cnt err ->
  go_SeqIDGen_Init (g_counter g) (g_last g) (g_step g) cnt err =
    (out_err (fst (init g a)) err, g_counter (snd (init g a)), g_last (snd (init g a))) /\
  g_step (snd (init g a)) = g_step g /\
  (fst (init g a) = OInitOk <->
   fst (fst (go_SeqIDGen_Init (g_counter g) (g_last g) (g_step g) cnt err)) = 0).
Proof. exact src_init. Qed.
Print Assumptions c08_src_init.

Theorem c08_src_next_whole : forall g a cnt err, answers a cnt err ->
  go_SeqIDGen_Next (g_last g) (g_counter g) (g_step g) cnt err =
    (out_val (fst (next g a)), out_err (fst (next g a)) err,
     g_last (snd (next g a)), g_counter (snd (next g a))) /\
  g_step (snd (next g a)) = g_step g.
Proof. exact src_next_whole. Qed.
Print Assumptions c08_src_next_whole.

(* every pair the store can return is covered: ans_of gives its model answer *)
Theorem c08_src_answers_total : forall cnt err, answers (ans_of cnt err) cnt err.
Proof. exact answers_ans_of. Qed.
Print Assumptions c08_src_answers_total.

Theorem c08_src_next_total : forall g cnt err,
  go_SeqIDGen_Next (g_last g) (g_counter g) (g_step g) cnt err =
    (out_val (fst (next g (ans_of cnt err))), out_err (fst (next g (ans_of cnt err))) err,
     g_last (snd (next g (ans_of cnt err))), g_counter (snd (next g (ans_of cnt err)))).
Proof. exact src_next_total. Qed.
Print Assumptions c08_src_next_total.

Theorem c08_src_init_total : forall g cnt err,
  go_SeqIDGen_Init (g_counter g) (g_last g) (g_step g) cnt err =
    (out_err (fst (init g (ans_of cnt err))) err,
     g_counter (snd (init g (ans_of cnt err))), g_last (snd (init g (ans_of cnt err)))).
Proof. exact src_init_total. Qed.
Print Assumptions c08_src_init_total.

(* the store's answer reaches the translated Next only when the model says the store is asked *)
Theorem c08_src_next_store_unused : forall g, needs_reload g = false ->
  forall c1 e1 c2 e2,
  go_SeqIDGen_Next (g_last g) (g_counter g) (g_step g) c1 e1 =
  go_SeqIDGen_Next (g_last g) (g_counter g) (g_step g) c2 e2.
Proof. exact src_next_store_unused. Qed.
Print Assumptions c08_src_next_store_unused.

Theorem c08_src_step_next : forall w i sl a cnt err, w i = Some sl -> answers a cnt err ->
  let '(o, asked, w') := Model.step w (ENext i a) in
  let '(v, e, last', counter') :=
    go_SeqIDGen_Next (g_last (s_gen sl)) (g_counter (s_gen sl)) (g_step (s_gen sl)) cnt err in
  v = out_val o /\ e = out_err o err /\
  w' i = Some (mkSlot (mkGen (g_step (s_gen sl)) counter' last') (s_ready sl)) /\
  asked = needs_reload (s_gen sl).
Proof. exact src_step_next. Qed.
Print Assumptions c08_src_step_next.

Theorem c08_src_step_init : forall w i sl a cnt err, w i = Some sl -> answers a cnt err ->
  let '(o, asked, w') := Model.step w (EInit i a) in
  let '(e, counter', last') :=
    go_SeqIDGen_Init (g_counter (s_gen sl)) (g_last (s_gen sl)) (g_step (s_gen sl)) cnt err in
  e = out_err o err /\ (o = OInitOk <-> e = 0) /\
  w' i = Some (mkSlot (mkGen (g_step (s_gen sl)) counter' last')
                      (match o with OInitOk => true | _ => s_ready sl end)) /\
  asked = true.
Proof. exact src_step_init. Qed.
Print Assumptions c08_src_step_init.

Example c08_example_src_next_whole :
  (go_SeqIDGen_Next 4000 1 2000 7 0 = (14001, 0, 14001, 7)) /\
  (go_SeqIDGen_Next 4000 1 2000 7 55 = (0, 55, 4000, 1)) /\
  (go_SeqIDGen_Next 3999 1 2000 7 55 = (4000, 0, 4000, 1)) /\
  (go_SeqIDGen_Next 4000 1 2000 4611686018427387 0 = (0, 1, 9223372036854774000, 4611686018427387)) /\
  (go_SeqIDGen_Init 0 0 2000 3 0 = (0, 3, 6000)).
Proof. vm_compute. repeat split; reflexivity. Qed.
