(* C08 — Segment id generators never repeat an id across generators, restarts, faults.
   This file holds only the property theorems. *)
From Coq Require Import ZArith List Bool.
From FV Require Import Generated.Consts C08.Model C08.Proofs.
Import ListNotations.
Open Scope Z_scope.

Theorem c08_store_error_step : forall g a,
  needs_reload g = true -> (a = StoreErrBefore \/ exists c, a = StoreErrAfter c) ->
  next g a = (OErrStore, g).
Proof. exact next_store_error. Qed.
Print Assumptions c08_store_error_step.
