(* C08 — segment id generators (x/uuid/seq.go) and the store adapters' guard
   (x/uuid/store_redis.go:59-72 and siblings).  Executable model; nothing is proved here.

   A history is a list of events over any number of generators sharing one counter store.
   The store's answer consumed by a call travels with the event (it is used only if the call
   really reaches Storage.Incr): the theorems quantify over all of them. *)
From Coq Require Import ZArith List Bool.
From FV Require Import Generated.Consts.
Import ListNotations.
Open Scope Z_scope.

(* int64(v): two's complement wrap-around of Go's int64 arithmetic *)
Definition int64 (v : Z) : Z := (v + 2 ^ 63) mod 2 ^ 64 - 2 ^ 63.

(* what Storage.Incr() does when it is called *)
Inductive ans : Type :=
| StoreOk (c : Z)          (* the counter moved to c and c is returned *)
| StoreErrBefore           (* the call failed, the counter did not move *)
| StoreErrAfter (c : Z).   (* the counter moved to c but the call reported an error *)

(* SeqIDGen{step, counter, lastID} *)
Record gen := mkGen { g_step : Z; g_counter : Z; g_last : Z }.

(* NewSeqIDGen(store, step int32) *)
Definition new_gen (step : Z) : gen :=
  mkGen (if step <=? 0 then x_uuid_DefaultSeqStep else step) 0 0.

Inductive out : Type :=
| ONone                    (* New / Crash, or an event on a generator that does not exist *)
| OInitOk                  (* Init returned nil *)
| OId (id : Z)             (* Next returned id, nil *)
| OErrStore                (* the store's error came back *)
| OErrOverflow.            (* "SeqID: integer overflow" *)

(* (s *SeqIDGen) reload(): result (None = nil error) and the state after *)
Definition reload (g : gen) (a : ans) : option out * gen :=
  match a with
  | StoreOk c =>
      let last := int64 (c * g_step g) in
      let range_end := int64 (int64 (c + 1) * g_step g) in
      let g' := mkGen (g_step g) c last in
      if range_end <? last then (Some OErrOverflow, g') else (None, g')
  | _ => (Some OErrStore, g)
  end.

(* (s *SeqIDGen) Init() *)
Definition init (g : gen) (a : ans) : out * gen :=
  match reload g a with
  | (Some e, g') => (e, g')
  | (None, g') => (OInitOk, g')
  end.

(* does Next reach the store? *)
Definition needs_reload (g : gen) : bool :=
  negb (int64 (g_last g + 1) <=? int64 (int64 (g_counter g + 1) * g_step g)).

(* (s *SeqIDGen) Next() *)
Definition next (g : gen) (a : ans) : out * gen :=
  let nxt := int64 (g_last g + 1) in
  if needs_reload g then
    match reload g a with
    | (Some e, g') => (e, g')
    | (None, g') =>
        let n := int64 (g_last g' + 1) in
        (OId n, mkGen (g_step g') (g_counter g') n)
    end
  else (OId nxt, mkGen (g_step g) (g_counter g) nxt).

(* ---- histories ---- *)
Inductive event : Type :=
| ENew (g : nat) (step : Z)     (* NewSeqIDGen *)
| EInit (g : nat) (a : ans)     (* g.Init(), the store answering a *)
| ENext (g : nat) (a : ans)     (* g.Next(), the store answering a if it is asked *)
| ECrash (g : nat).             (* the process dies: the generator's memory is gone *)

(* a slot: the generator object (if alive) and whether an Init of it has succeeded *)
Record slot := mkSlot { s_gen : gen; s_ready : bool }.
Definition world := nat -> option slot.
Definition empty : world := fun _ => None.
Definition upd (w : world) (g : nat) (v : option slot) : world :=
  fun x => if Nat.eqb x g then v else w x.

(* one event: the output, whether Storage.Incr was called, the world after *)
Definition step (w : world) (e : event) : out * bool * world :=
  match e with
  | ENew g s => (ONone, false, upd w g (Some (mkSlot (new_gen s) false)))
  | ECrash g => (ONone, false, upd w g None)
  | EInit g a =>
      match w g with
      | None => (ONone, false, w)
      | Some sl =>
          let '(o, gn) := init (s_gen sl) a in
          (o, true, upd w g (Some (mkSlot gn (match o with OInitOk => true | _ => s_ready sl end))))
      end
  | ENext g a =>
      match w g with
      | None => (ONone, false, w)
      | Some sl =>
          let '(o, gn) := next (s_gen sl) a in
          (o, needs_reload (s_gen sl), upd w g (Some (mkSlot gn (s_ready sl))))
      end
  end.

(* the trace of a history: per event its output and whether the store was asked *)
Fixpoint run (w : world) (h : list event) : list (event * out * bool) :=
  match h with
  | [] => []
  | e :: r => let '(o, asked, w') := step w e in (e, o, asked) :: run w' r
  end.

Fixpoint final (w : world) (h : list event) : world :=
  match h with
  | [] => w
  | e :: r => final (snd (step w e)) r
  end.

Definition ev_gen (e : event) : nat :=
  match e with ENew g _ | EInit g _ | ENext g _ | ECrash g => g end.

(* ids issued, in order, with the generator they were issued by *)
Fixpoint issued (tr : list (event * out * bool)) : list (nat * Z) :=
  match tr with
  | [] => []
  | (e, OId id, _) :: r => (ev_gen e, id) :: issued r
  | _ :: r => issued r
  end.
Definition ids (tr : list (event * out * bool)) : list Z := map snd (issued tr).

(* counter values the store handed out successfully, with the generator that got them *)
Fixpoint leases (tr : list (event * out * bool)) : list (nat * Z) :=
  match tr with
  | [] => []
  | (EInit g (StoreOk c), _, true) :: r => (g, c) :: leases r
  | (ENext g (StoreOk c), _, true) :: r => (g, c) :: leases r
  | _ :: r => leases r
  end.

(* ---- the adapters' guard:  if s.lastId != 0 && s.lastId >= cnt { return 0, ErrIDOutOfRange } ---- *)
Definition guard (last raw : Z) : option Z * Z :=
  if negb (last =? 0) && (last >=? raw) then (None, last) else (Some raw, raw).

(* an adapter's life: raw counter values coming from the database, one per Incr *)
Fixpoint guard_run (last : Z) (raws : list Z) : list (option Z) :=
  match raws with
  | [] => []
  | r :: rest => let '(o, last') := guard last r in o :: guard_run last' rest
  end.
