(* C08 — lemmas about the segment id generator model. *)
From Coq Require Import ZArith List Bool Lia Sorted.
From FV Require Import Generated.Consts C08.Model.
Import ListNotations.
Open Scope Z_scope.

(* ------------------------------------------------------------------------------------ *)
(* one generator                                                                         *)

(* the counter c and its segment (c*S, (c+1)*S] are representable, and so is the successor of
   the segment's last id (Next computes lastID+1 before comparing) *)
Definition fits (S c : Z) : Prop :=
  - 2 ^ 63 <= c * S /\ (c + 1) * S + 1 < 2 ^ 63 /\ - 2 ^ 63 <= c /\ c + 1 < 2 ^ 63.

Definition in_seg (S c i : Z) : Prop := c * S < i <= (c + 1) * S.

Lemma int64_small v : - 2 ^ 63 <= v < 2 ^ 63 -> int64 v = v.
Proof. intros H. unfold int64. rewrite Z.mod_small; lia. Qed.

(* a generator holding counter c: its position lies in the closed segment *)
Definition gen_ok (S : Z) (g : gen) : Prop :=
  g_step g = S /\ fits S (g_counter g) /\
  g_counter g * S <= g_last g <= (g_counter g + 1) * S.

Lemma new_gen_step s : 1 <= g_step (new_gen s).
Proof. unfold new_gen. destruct (s <=? 0) eqn:E; cbn [g_step]; [unfold x_uuid_DefaultSeqStep|]; lia. Qed.

Lemma reload_ok S g c :
  1 <= S -> g_step g = S -> fits S c ->
  reload g (StoreOk c) = (None, mkGen S c (c * S)).
Proof.
  intros HS Hg (F1 & F2 & F3 & F4). unfold reload. rewrite Hg.
  rewrite (int64_small (c + 1)) by lia.
  rewrite (int64_small (c * S)) by lia.
  rewrite (int64_small ((c + 1) * S)) by lia.
  destruct ((c + 1) * S <? c * S) eqn:E; [lia | reflexivity].
Qed.

Lemma reload_err g a : (forall c, a <> StoreOk c) -> reload g a = (Some OErrStore, g).
Proof. intros H. destruct a; try reflexivity. exfalso. apply (H c). reflexivity. Qed.

Lemma init_ok S g c :
  1 <= S -> g_step g = S -> fits S c -> init g (StoreOk c) = (OInitOk, mkGen S c (c * S)).
Proof. intros. unfold init. erewrite reload_ok by eassumption. reflexivity. Qed.

Lemma init_err g a : (forall c, a <> StoreOk c) -> init g a = (OErrStore, g).
Proof. intros H. unfold init. rewrite reload_err by assumption. reflexivity. Qed.

Lemma needs_reload_spec S g :
  1 <= S -> gen_ok S g ->
  needs_reload g = negb (g_last g + 1 <=? (g_counter g + 1) * S).
Proof.
  intros HS (Hg & (F1 & F2 & F3 & F4) & Hl). unfold needs_reload. rewrite Hg.
  rewrite (int64_small (g_counter g + 1)) by lia.
  rewrite (int64_small (g_last g + 1)) by lia.
  rewrite (int64_small ((g_counter g + 1) * S)) by lia. reflexivity.
Qed.

(* inside the segment: the successor, the store is not asked *)
Lemma next_inside S g a :
  1 <= S -> gen_ok S g -> g_last g < (g_counter g + 1) * S ->
  needs_reload g = false /\
  next g a = (OId (g_last g + 1), mkGen S (g_counter g) (g_last g + 1)).
Proof.
  intros HS Hok Hlt. pose proof (needs_reload_spec S g HS Hok) as Hn.
  assert (needs_reload g = false) as Hf by (rewrite Hn; destruct (g_last g + 1 <=? _) eqn:E; [reflexivity | lia]).
  split; [exact Hf|]. unfold next. rewrite Hf.
  destruct Hok as (Hg & (F1 & F2 & F3 & F4) & Hl).
  rewrite (int64_small (g_last g + 1)) by lia. rewrite Hg. reflexivity.
Qed.

(* segment used up: the store is asked; a successful answer opens the new segment *)
Lemma next_reload S g c :
  1 <= S -> gen_ok S g -> g_last g = (g_counter g + 1) * S -> fits S c ->
  needs_reload g = true /\
  next g (StoreOk c) = (OId (c * S + 1), mkGen S c (c * S + 1)).
Proof.
  intros HS Hok Heq Hc. pose proof (needs_reload_spec S g HS Hok) as Hn.
  assert (needs_reload g = true) as Ht by (rewrite Hn; destruct (g_last g + 1 <=? _) eqn:E; [lia | reflexivity]).
  split; [exact Ht|]. unfold next. rewrite Ht.
  destruct Hok as (Hg & _ & _).
  rewrite (reload_ok S g c HS Hg Hc). cbn [g_last g_step g_counter].
  destruct Hc as (F1 & F2 & F3 & F4). rewrite (int64_small (c * S + 1)) by lia. reflexivity.
Qed.

Lemma next_reload_err S g a :
  1 <= S -> gen_ok S g -> g_last g = (g_counter g + 1) * S -> (forall c, a <> StoreOk c) ->
  needs_reload g = true /\ next g a = (OErrStore, g).
Proof.
  intros HS Hok Heq Ha. pose proof (needs_reload_spec S g HS Hok) as Hn.
  assert (needs_reload g = true) as Ht by (rewrite Hn; destruct (g_last g + 1 <=? _) eqn:E; [lia | reflexivity]).
  split; [exact Ht|]. unfold next. rewrite Ht. rewrite reload_err by assumption. reflexivity.
Qed.

(* the store's answer is looked at only when the store is asked *)
Lemma next_ignores_answer g a a' : needs_reload g = false -> next g a = next g a'.
Proof. intros H. unfold next. rewrite H. reflexivity. Qed.

(* a failed store call leaves the generator as it was and surfaces as an error *)
Lemma next_store_error g a :
  needs_reload g = true -> (forall c, a <> StoreOk c) -> next g a = (OErrStore, g).
Proof. intros H Ha. unfold next. rewrite H. rewrite reload_err by assumption. reflexivity. Qed.

(* list facts missing from the 8.16 library *)
Lemma NoDup_app_l {A} (a b : list A) : NoDup (a ++ b) -> NoDup a.
Proof.
  induction a as [|x a IH]; cbn; intros H; [constructor|].
  inversion H as [|? ? Hn Hd]; subst. constructor; [|apply IH; assumption].
  intro Hin. apply Hn. apply in_or_app. left. assumption.
Qed.

Lemma NoDup_app_r {A} (a b : list A) : NoDup (a ++ b) -> NoDup b.
Proof. induction a as [|x a IH]; cbn; intros H; [assumption|]. inversion H; subst. apply IH. assumption. Qed.

Lemma NoDup_app_disjoint {A} (a b : list A) x : NoDup (a ++ b) -> In x a -> ~ In x b.
Proof.
  induction a as [|y a IH]; cbn; intros H Hin; [contradiction|].
  inversion H as [|? ? Hn Hd]; subst. destruct Hin as [->|Hin].
  - intro Hb. apply Hn. apply in_or_app. right. assumption.
  - apply IH; assumption.
Qed.

Lemma NoDup_snoc {A} (l : list A) x : NoDup l -> ~ In x l -> NoDup (l ++ [x]).
Proof.
  induction l as [|y l IH]; cbn; intros H Hn; [repeat constructor; intros []|].
  inversion H as [|? ? Hy Hd]; subst. constructor.
  - intro Hin. apply in_app_or in Hin. destruct Hin as [Hin|[->|[]]]; [contradiction|]. apply Hn. left. reflexivity.
  - apply IH; [assumption|]. intro Hin. apply Hn. right. assumption.
Qed.

(* ------------------------------------------------------------------------------------ *)
(* traces                                                                                *)

Lemma run_app w h1 h2 : run w (h1 ++ h2) = run w h1 ++ run (final w h1) h2.
Proof.
  revert w. induction h1 as [|e h1 IH]; intros w; cbn [app run final]; [reflexivity|].
  destruct (step w e) as [[o asked] w'] eqn:E. cbn [snd]. rewrite IH. reflexivity.
Qed.

Lemma final_app w h1 h2 : final w (h1 ++ h2) = final (final w h1) h2.
Proof. revert w. induction h1 as [|e h1 IH]; intros w; cbn [app final]; [reflexivity | apply IH]. Qed.

Lemma issued_app a b : issued (a ++ b) = issued a ++ issued b.
Proof.
  induction a as [|[[e o] k] a IH]; cbn [app issued]; [reflexivity|].
  destruct o; cbn [app]; rewrite IH; reflexivity.
Qed.

Lemma ids_app a b : ids (a ++ b) = ids a ++ ids b.
Proof. unfold ids. rewrite issued_app, map_app. reflexivity. Qed.

Lemma leases_app a b : leases (a ++ b) = leases a ++ leases b.
Proof.
  induction a as [|[[e o] k] a IH]; cbn [app leases]; [reflexivity|].
  destruct e as [g s|g x|g x|g]; try (rewrite IH; reflexivity);
    destruct x; try (rewrite IH; reflexivity); destruct k; cbn [app]; rewrite IH; reflexivity.
Qed.

Definition lease_cs (tr : list (event * out * bool)) : list Z := map snd (leases tr).

Lemma lease_cs_app a b : lease_cs (a ++ b) = lease_cs a ++ lease_cs b.
Proof. unfold lease_cs. rewrite leases_app, map_app. reflexivity. Qed.

(* ------------------------------------------------------------------------------------ *)
(* the property's premise, as a boolean predicate on histories                           *)

Definition eff_step (s : Z) : Z := g_step (new_gen s).

Definition steps_ok (S : Z) (h : list event) : bool :=
  forallb (fun e => match e with ENew _ s => eff_step s =? S | _ => true end) h.

(* Next is called only on generators whose Init has succeeded *)
Fixpoint ready_use (w : world) (h : list event) : bool :=
  match h with
  | [] => true
  | e :: r =>
      match e with
      | ENext g _ => match w g with Some sl => s_ready sl | None => true end
      | _ => true
      end && ready_use (snd (step w e)) r
  end.

Fixpoint nodupb (l : list Z) : bool :=
  match l with
  | [] => true
  | x :: r => negb (existsb (Z.eqb x) r) && nodupb r
  end.

Definition fitsb (S c : Z) : bool :=
  (- 2 ^ 63 <=? c * S) && ((c + 1) * S + 1 <? 2 ^ 63) && (- 2 ^ 63 <=? c) && (c + 1 <? 2 ^ 63).

(* one step size S >= 1 for all generators of the store; generators are used after a successful
   Init; the store hands out each counter value at most once; no int64 overflow *)
Definition premise (S : Z) (h : list event) : bool :=
  (1 <=? S) && steps_ok S h && ready_use empty h &&
  nodupb (lease_cs (run empty h)) && forallb (fitsb S) (lease_cs (run empty h)).

Lemma nodupb_spec l : nodupb l = true <-> NoDup l.
Proof.
  induction l as [|x l IH]; cbn [nodupb]; [split; [constructor | reflexivity]|].
  rewrite andb_true_iff, negb_true_iff, IH. split.
  - intros [H1 H2]. constructor; [|assumption]. intro Hin.
    assert (existsb (Z.eqb x) l = true) by (apply existsb_exists; exists x; split; [assumption | apply Z.eqb_refl]).
    congruence.
  - intros H. inversion H as [|? ? Hn Hd]; subst. split; [|assumption].
    destruct (existsb (Z.eqb x) l) eqn:E; [|reflexivity].
    apply existsb_exists in E. destruct E as [y [Hy He]]. apply Z.eqb_eq in He. subst y. contradiction.
Qed.

Lemma fitsb_spec S c : fitsb S c = true <-> fits S c.
Proof. unfold fitsb, fits. rewrite !andb_true_iff. lia. Qed.

Lemma ready_use_app w h1 h2 :
  ready_use w (h1 ++ h2) = ready_use w h1 && ready_use (final w h1) h2.
Proof.
  revert w. induction h1 as [|e h1 IH]; intros w; cbn [app ready_use final]; [reflexivity|].
  rewrite IH. rewrite andb_assoc. reflexivity.
Qed.

Lemma premise_prefix S h e : premise S (h ++ [e]) = true -> premise S h = true.
Proof.
  unfold premise. rewrite !andb_true_iff. intros ((((H1 & H2) & H3) & H4) & H5).
  unfold steps_ok in *. rewrite forallb_app in H2. rewrite ready_use_app in H3.
  rewrite run_app, lease_cs_app in H4, H5. rewrite forallb_app in H5.
  apply andb_true_iff in H2, H3, H5.
  apply nodupb_spec in H4. apply NoDup_app_l in H4. apply nodupb_spec in H4.
  tauto.
Qed.

(* ------------------------------------------------------------------------------------ *)
(* the invariant of a store shared by any number of generators                           *)

Lemma seg_disjoint S c c' i : 1 <= S -> in_seg S c i -> in_seg S c' i -> c = c'.
Proof. unfold in_seg. intros HS H1 H2. nia. Qed.

Record Inv (S : Z) (w : world) (I L : list Z) : Prop := mkInv {
  inv_step : forall g sl, w g = Some sl -> g_step (s_gen sl) = S;
  inv_ready : forall g sl, w g = Some sl -> s_ready sl = true ->
      gen_ok S (s_gen sl) /\ In (g_counter (s_gen sl)) L /\
      (forall i, In i I -> in_seg S (g_counter (s_gen sl)) i -> i <= g_last (s_gen sl));
  inv_sep : forall g g' sl sl', g <> g' -> w g = Some sl -> w g' = Some sl' ->
      s_ready sl = true -> s_ready sl' = true -> g_counter (s_gen sl) <> g_counter (s_gen sl');
  inv_seg : forall i, In i I -> exists c, In c L /\ in_seg S c i;
  inv_nodup : NoDup I
}.

Lemma inv_empty S : Inv S empty [] [].
Proof.
  constructor; unfold empty; try discriminate.
  - intros i [].
  - constructor.
Qed.

Lemma upd_same w g v : upd w g v g = v.
Proof. unfold upd. rewrite Nat.eqb_refl. reflexivity. Qed.
Lemma upd_other w g v x : x <> g -> upd w g v x = w x.
Proof. intros H. unfold upd. destruct (Nat.eqb_spec x g); [contradiction | reflexivity]. Qed.

(* replacing a slot by a slot that is not ready (New) or by nothing (crash) *)
Lemma inv_drop S w I L g v :
  Inv S w I L ->
  (forall sl, v = Some sl -> g_step (s_gen sl) = S /\ s_ready sl = false) ->
  Inv S (upd w g v) I L.
Proof.
  intros [Ha Hb Hc Hd He] Hv. constructor; try assumption.
  - intros x sl. destruct (Nat.eq_dec x g) as [->|Hne].
    + rewrite upd_same. intros ->. apply (Hv sl eq_refl).
    + rewrite upd_other by assumption. apply Ha.
  - intros x sl. destruct (Nat.eq_dec x g) as [->|Hne].
    + rewrite upd_same. intros -> Hr. destruct (Hv sl eq_refl) as [_ Hf]. congruence.
    + rewrite upd_other by assumption. apply Hb.
  - intros x y sl sl' Hxy. destruct (Nat.eq_dec x g) as [->|Hx]; destruct (Nat.eq_dec y g) as [->|Hy];
      rewrite ?upd_same, ?upd_other by assumption.
    + contradiction.
    + intros -> _ Hr. destruct (Hv sl eq_refl) as [_ Hf]. congruence.
    + intros _ -> _ Hr. destruct (Hv sl' eq_refl) as [_ Hf]. congruence.
    + apply Hc. assumption.
Qed.

(* a slot rewritten with the same generator state and readiness *)
Lemma inv_same S w I L g sl :
  Inv S w I L -> w g = Some sl -> Inv S (upd w g (Some (mkSlot (s_gen sl) (s_ready sl)))) I L.
Proof.
  intros [Ha Hb Hc Hd He] Hw. constructor; try assumption.
  - intros x s. destruct (Nat.eq_dec x g) as [->|Hne].
    + rewrite upd_same. intros [= <-]. cbn. apply (Ha g sl Hw).
    + rewrite upd_other by assumption. apply Ha.
  - intros x s. destruct (Nat.eq_dec x g) as [->|Hne].
    + rewrite upd_same. intros [= <-]. cbn. apply (Hb g sl Hw).
    + rewrite upd_other by assumption. apply Hb.
  - intros x y s s' Hxy. destruct (Nat.eq_dec x g) as [->|Hx]; destruct (Nat.eq_dec y g) as [->|Hy];
      rewrite ?upd_same, ?upd_other by assumption.
    + contradiction.
    + intros [= <-] Hy'. cbn. apply (Hc g y sl s' Hxy Hw Hy').
    + intros Hx' [= <-]. cbn. apply (Hc x g s sl Hxy Hx' Hw).
    + apply Hc. assumption.
Qed.

(* a generator takes the fresh counter c; if it comes from Next, the first id of the segment
   is issued at once *)
Lemma inv_lease S w I L g sl c (first : bool) :
  1 <= S -> Inv S w I L -> w g = Some sl -> ~ In c L -> fits S c ->
  Inv S (upd w g (Some (mkSlot (mkGen S c (if first then c * S + 1 else c * S)) true)))
        (if first then I ++ [c * S + 1] else I) (L ++ [c]).
Proof.
  intros HS [Ha Hb Hc Hd He] Hw Hfresh Hfit.
  assert (Hnoseg : forall i, In i I -> ~ in_seg S c i).
  { intros i Hi Hseg. destruct (Hd i Hi) as [c0 [Hc0 Hs0]].
    assert (c0 = c) by (eapply seg_disjoint; eassumption). subst. contradiction. }
  assert (Hfirst : in_seg S c (c * S + 1)) by (unfold in_seg; lia).
  constructor.
  - intros x s. destruct (Nat.eq_dec x g) as [->|Hne].
    + rewrite upd_same. intros [= <-]. reflexivity.
    + rewrite upd_other by assumption. apply Ha.
  - intros x s. destruct (Nat.eq_dec x g) as [->|Hne].
    + rewrite upd_same. intros [= <-] _. cbn [s_gen g_counter g_last g_step]. split; [|split].
      * unfold gen_ok, fits in *. cbn [g_counter g_last g_step]. destruct first; repeat split; lia.
      * apply in_or_app. right. left. reflexivity.
      * intros i Hi Hseg. destruct first.
        -- apply in_app_or in Hi. destruct Hi as [Hi|[<-|[]]]; [exfalso; eapply Hnoseg; eassumption | lia].
        -- exfalso; eapply Hnoseg; eassumption.
    + rewrite upd_other by assumption. intros Hx Hr. destruct (Hb x s Hx Hr) as (G1 & G2 & G3).
      split; [assumption|]. split; [apply in_or_app; left; assumption|].
      intros i Hi Hseg. destruct first; [|apply G3; assumption].
      apply in_app_or in Hi. destruct Hi as [Hi|[<-|[]]]; [apply G3; assumption|].
      exfalso. assert (g_counter (s_gen s) = c) by (eapply seg_disjoint; eassumption). subst c. contradiction.
  - intros x y s s' Hxy. destruct (Nat.eq_dec x g) as [->|Hx]; destruct (Nat.eq_dec y g) as [->|Hy];
      rewrite ?upd_same, ?upd_other by assumption.
    + contradiction.
    + intros [= <-] Hy' _ Hr. cbn. destruct (Hb y s' Hy' Hr) as (_ & G2 & _). intros E. apply Hfresh. rewrite E. exact G2.
    + intros Hx' [= <-] Hr _. cbn. destruct (Hb x s Hx' Hr) as (_ & G2 & _). intros E. apply Hfresh. rewrite <- E. exact G2.
    + apply Hc. assumption.
  - intros i Hi. destruct first.
    + apply in_app_or in Hi. destruct Hi as [Hi|[<-|[]]].
      * destruct (Hd i Hi) as [c0 [H1 H2]]. exists c0. split; [apply in_or_app; left|]; assumption.
      * exists c. split; [apply in_or_app; right; left; reflexivity | assumption].
    + destruct (Hd i Hi) as [c0 [H1 H2]]. exists c0. split; [apply in_or_app; left|]; assumption.
  - destruct first; [|assumption].
    apply NoDup_snoc; [assumption|]. intro Hi. eapply Hnoseg; eassumption.
Qed.

(* a generator issues the successor inside its segment *)
Lemma inv_succ S w I L g sl :
  1 <= S -> Inv S w I L -> w g = Some sl -> s_ready sl = true ->
  g_last (s_gen sl) < (g_counter (s_gen sl) + 1) * S ->
  Inv S (upd w g (Some (mkSlot (mkGen S (g_counter (s_gen sl)) (g_last (s_gen sl) + 1)) true)))
        (I ++ [g_last (s_gen sl) + 1]) L.
Proof.
  intros HS [Ha Hb Hc Hd He] Hw Hr Hlt.
  destruct (Hb g sl Hw Hr) as ((K1 & K2 & K3) & K4 & K5).
  set (c := g_counter (s_gen sl)) in *. set (l := g_last (s_gen sl)) in *.
  assert (Hseg : in_seg S c (l + 1)) by (unfold in_seg; lia).
  constructor.
  - intros x s. destruct (Nat.eq_dec x g) as [->|Hne].
    + rewrite upd_same. intros [= <-]. reflexivity.
    + rewrite upd_other by assumption. apply Ha.
  - intros x s. destruct (Nat.eq_dec x g) as [->|Hne].
    + rewrite upd_same. intros [= <-] _. cbn [s_gen g_counter g_last g_step]. split; [|split].
      * unfold gen_ok, fits in *. cbn [g_counter g_last g_step]. repeat split; lia.
      * assumption.
      * intros i Hi Hs. apply in_app_or in Hi. destruct Hi as [Hi|[<-|[]]]; [|lia].
        specialize (K5 i Hi Hs). lia.
    + rewrite upd_other by assumption. intros Hx Hr'. destruct (Hb x s Hx Hr') as (G1 & G2 & G3).
      split; [assumption|]. split; [assumption|].
      intros i Hi Hs. apply in_app_or in Hi. destruct Hi as [Hi|[<-|[]]]; [apply G3; assumption|].
      exfalso. assert (g_counter (s_gen s) = c) by (eapply seg_disjoint; eassumption).
      apply (Hc x g s sl Hne Hx Hw Hr' Hr). assumption.
  - intros x y s s' Hxy. destruct (Nat.eq_dec x g) as [->|Hx]; destruct (Nat.eq_dec y g) as [->|Hy];
      rewrite ?upd_same, ?upd_other by assumption.
    + contradiction.
    + intros [= <-] Hy' _ Hr'. cbn. apply (Hc g y sl s' Hxy Hw Hy' Hr Hr').
    + intros Hx' [= <-] Hr' _. cbn. apply (Hc x g s sl Hxy Hx' Hw Hr' Hr).
    + apply Hc. assumption.
  - intros i Hi. apply in_app_or in Hi. destruct Hi as [Hi|[<-|[]]]; [apply Hd; assumption|].
    exists c. split; assumption.
  - apply NoDup_snoc; [assumption|]. intro Hi. specialize (K5 _ Hi Hseg). lia.
Qed.

(* ------------------------------------------------------------------------------------ *)
(* the invariant holds after every history that meets the premise                        *)

Lemma not_ok_cases a : (exists c, a = StoreOk c) \/ (forall c, a <> StoreOk c).
Proof. destruct a; [left; eexists; reflexivity | right; discriminate | right; discriminate]. Qed.

Lemma leases_false e o : leases [(e, o, false)] = [].
Proof. destruct e as [g s|g a|g a|g]; try reflexivity; destruct a; reflexivity. Qed.

Lemma inv_run S h :
  premise S h = true -> Inv S (final empty h) (ids (run empty h)) (lease_cs (run empty h)).
Proof.
  induction h as [|e h IH] using rev_ind; intros HP; [apply inv_empty|].
  specialize (IH (premise_prefix _ _ _ HP)).
  unfold premise in HP. rewrite !andb_true_iff in HP. destruct HP as ((((H1 & H2) & H3) & H4) & H5).
  apply Z.leb_le in H1.
  unfold steps_ok in H2. rewrite forallb_app in H2. apply andb_true_iff in H2. destruct H2 as [_ H2].
  cbn [forallb] in H2. rewrite andb_true_r in H2.
  rewrite ready_use_app in H3. apply andb_true_iff in H3. destruct H3 as [_ H3].
  cbn [ready_use] in H3. rewrite andb_true_r in H3.
  rewrite run_app, lease_cs_app in H4, H5. apply nodupb_spec in H4.
  rewrite forallb_app in H5. apply andb_true_iff in H5. destruct H5 as [_ H5].
  rewrite final_app, run_app, ids_app, lease_cs_app.
  remember (final empty h) as w eqn:Ew. remember (ids (run empty h)) as I eqn:EI. remember (lease_cs (run empty h)) as L eqn:EL.
  clear Ew EI EL.
  cbn [final run]. destruct e as [g s|g a|g a|g]; cbn [step].
  - (* New *)
    cbn [snd]. unfold ids, lease_cs. cbn. rewrite !app_nil_r.
    apply inv_drop; [assumption|]. intros sl [= <-]. cbn. split; [|reflexivity].
    apply Z.eqb_eq in H2. exact H2.
  - (* Init *)
    destruct (w g) as [sl|] eqn:Hw.
    2:{ cbn [snd]. unfold ids, lease_cs. rewrite leases_false. cbn [issued map]. rewrite !app_nil_r. assumption. }
    pose proof (inv_step _ _ _ _ IH g sl Hw) as Hstep.
    destruct (not_ok_cases a) as [[c ->]|Ha].
    + assert (Hrun : lease_cs (run w [EInit g (StoreOk c)]) = [c]).
      { cbn [run step]. rewrite Hw. destruct (init (s_gen sl) (StoreOk c)). reflexivity. }
      rewrite Hrun in H4, H5. cbn [forallb] in H5. rewrite andb_true_r in H5. apply fitsb_spec in H5.
      apply NoDup_remove_2 in H4. rewrite app_nil_r in H4.
      rewrite (init_ok S _ c H1 Hstep H5).
      cbn [snd]. unfold ids, lease_cs. cbn [issued leases map snd]. rewrite app_nil_r.
      apply (inv_lease S w I L g sl c false H1 IH Hw H4 H5).
    + rewrite (init_err _ _ Ha). cbn [snd]. unfold ids, lease_cs.
      assert (leases [(EInit g a, OErrStore, true)] = []) as -> by (destruct a; try reflexivity; exfalso; eapply Ha; reflexivity).
      cbn [issued map]. rewrite !app_nil_r.
      apply (inv_same S w I L g sl IH Hw).
  - (* Next *)
    destruct (w g) as [sl|] eqn:Hw.
    2:{ cbn [snd]. unfold ids, lease_cs. rewrite leases_false. cbn [issued map]. rewrite !app_nil_r. assumption. }
    destruct (inv_ready _ _ _ _ IH g sl Hw H3) as (Hok & HinL & Hle).
    pose proof Hok as (Hstep & Hfits & Hrange).
    destruct (Z.lt_ge_cases (g_last (s_gen sl)) ((g_counter (s_gen sl) + 1) * S)) as [Hlt|Hge].
    + (* inside the segment *)
      destruct (next_inside S (s_gen sl) a H1 Hok Hlt) as [Hnr Hnext].
      rewrite Hnext, Hnr. cbn [snd]. unfold ids, lease_cs.
      assert (leases [(ENext g a, OId (g_last (s_gen sl) + 1), false)] = []) as -> by (destruct a; reflexivity).
      cbn [issued map snd ev_gen]. rewrite app_nil_r. rewrite H3.
      apply inv_succ; assumption.
    + assert (Heq : g_last (s_gen sl) = (g_counter (s_gen sl) + 1) * S) by lia.
      destruct (not_ok_cases a) as [[c ->]|Ha].
      * destruct (next_reload_err S (s_gen sl) StoreErrBefore H1 Hok Heq ltac:(discriminate)) as [Hnr0 _].
        assert (Hrun : lease_cs (run w [ENext g (StoreOk c)]) = [c]).
        { cbn [run step]. rewrite Hw, Hnr0. destruct (next (s_gen sl) (StoreOk c)). reflexivity. }
        rewrite Hrun in H4, H5. cbn [forallb] in H5. rewrite andb_true_r in H5. apply fitsb_spec in H5.
        apply NoDup_remove_2 in H4. rewrite app_nil_r in H4.
        pose proof H5 as Hfc. pose proof H4 as HnL.
        destruct (next_reload S (s_gen sl) c H1 Hok Heq Hfc) as [Hnr Hnext].
        rewrite Hnext, Hnr. cbn [snd]. unfold ids, lease_cs. cbn [issued leases map snd ev_gen]. rewrite H3.
        apply (inv_lease S w I L g sl c true H1 IH Hw HnL Hfc).
      * destruct (next_reload_err S (s_gen sl) a H1 Hok Heq Ha) as [Hnr Hnext].
        rewrite Hnext, Hnr. cbn [snd]. unfold ids, lease_cs.
        assert (leases [(ENext g a, OErrStore, true)] = []) as -> by (destruct a; try reflexivity; exfalso; eapply Ha; reflexivity).
        cbn [issued map]. rewrite !app_nil_r.
        apply (inv_same S w I L g sl IH Hw).
  - (* Crash *)
    cbn [snd]. unfold ids, lease_cs. cbn. rewrite !app_nil_r.
    apply inv_drop; [assumption|]. intros sl [=].
Qed.

(* ------------------------------------------------------------------------------------ *)
(* consequences for whole histories                                                      *)

Lemma all_distinct_thm S h : premise S h = true -> NoDup (ids (run empty h)).
Proof. intros H. exact (inv_nodup _ _ _ _ (inv_run S h H)). Qed.

Lemma in_some_segment_thm S h i :
  premise S h = true -> In i (ids (run empty h)) ->
  exists c, In c (lease_cs (run empty h)) /\ c * S < i <= (c + 1) * S.
Proof. intros H Hi. exact (inv_seg _ _ _ _ (inv_run S h H) i Hi). Qed.

(* a generator re-created after a crash never re-issues an id from before the crash —
   nor does any other generator *)
Lemma crash_no_reissue_thm S h1 g h2 i :
  premise S (h1 ++ ECrash g :: h2) = true ->
  In i (ids (run empty h1)) ->
  ~ In i (ids (run (final empty h1) (ECrash g :: h2))).
Proof.
  intros H Hi. pose proof (all_distinct_thm S _ H) as Hn.
  rewrite run_app, ids_app in Hn. eapply NoDup_app_disjoint; eassumption.
Qed.

(* ------------------------------------------------------------------------------------ *)
(* one incarnation of one generator: its ids lie in its own segments and increase        *)

Definition resets (g : nat) (e : event) : bool :=
  match e with ENew g' _ | ECrash g' => Nat.eqb g' g | _ => false end.

(* the ids obtained by the current incarnation of g (since its last New / crash) *)
Fixpoint cur_ids (g : nat) (acc : list Z) (tr : list (event * out * bool)) : list Z :=
  match tr with
  | [] => acc
  | (e, o, _) :: r =>
      cur_ids g (if resets g e then []
                 else match o with
                      | OId id => if Nat.eqb (ev_gen e) g then acc ++ [id] else acc
                      | _ => acc
                      end) r
  end.

Definition lease_of (g : nat) (x : event * out * bool) : option Z :=
  match x with
  | (EInit g' (StoreOk c), _, true) | (ENext g' (StoreOk c), _, true) =>
      if Nat.eqb g' g then Some c else None
  | _ => None
  end.

(* the counters obtained by the current incarnation of g *)
Fixpoint cur_leases (g : nat) (acc : list Z) (tr : list (event * out * bool)) : list Z :=
  match tr with
  | [] => acc
  | x :: r =>
      cur_leases g (if resets g (fst (fst x)) then []
                    else match lease_of g x with Some c => acc ++ [c] | None => acc end) r
  end.

Lemma cur_ids_app g acc a b : cur_ids g acc (a ++ b) = cur_ids g (cur_ids g acc a) b.
Proof. revert acc. induction a as [|[[e o] k] a IH]; intros acc; cbn [app cur_ids]; [reflexivity | apply IH]. Qed.

Lemma cur_leases_app g acc a b : cur_leases g acc (a ++ b) = cur_leases g (cur_leases g acc a) b.
Proof. revert acc. induction a as [|x a IH]; intros acc; cbn [app cur_leases]; [reflexivity | apply IH]. Qed.

Lemma sorted_snoc l y : StronglySorted Z.lt l -> (forall x, In x l -> x < y) -> StronglySorted Z.lt (l ++ [y]).
Proof.
  induction l as [|a l IH]; cbn; intros Hs Hy; [repeat constructor|].
  inversion Hs as [|? ? Hs' Hf]; subst. constructor.
  - apply IH; [assumption|]. intros x Hx. apply Hy. right. assumption.
  - apply Forall_app. split; [assumption|]. constructor; [|constructor]. apply Hy. left. reflexivity.
Qed.

Lemma sorted_snoc_inv l y : StronglySorted Z.lt (l ++ [y]) -> StronglySorted Z.lt l /\ forall x, In x l -> x < y.
Proof.
  induction l as [|a l IH]; cbn; intros Hs; [split; [constructor | intros x []]|].
  inversion Hs as [|? ? Hs' Hf]; subst. destruct (IH Hs') as [H1 H2].
  apply Forall_app in Hf. destruct Hf as [Hf1 Hf2]. split.
  - constructor; assumption.
  - intros x [<-|Hx]; [inversion Hf2; assumption | apply H2; assumption].
Qed.

Definition PG (S : Z) (g : nat) (w : world) (Ig Cg : list Z) : Prop :=
  match w g with
  | Some sl =>
      if s_ready sl then
        (exists C0, Cg = C0 ++ [g_counter (s_gen sl)]) /\
        (forall i, In i Ig -> exists c, In c Cg /\ in_seg S c i) /\
        (StronglySorted Z.lt Cg ->
           StronglySorted Z.lt Ig /\ forall i, In i Ig -> i <= g_last (s_gen sl))
      else Ig = [] /\ Cg = []
  | None => Ig = [] /\ Cg = []
  end.

Lemma pg_run S g h :
  premise S h = true ->
  PG S g (final empty h) (cur_ids g [] (run empty h)) (cur_leases g [] (run empty h)).
Proof.
  induction h as [|e h IH] using rev_ind; intros HP.
  { unfold PG, empty. cbn. split; reflexivity. }
  pose proof (premise_prefix _ _ _ HP) as HP'. specialize (IH HP').
  pose proof (inv_run S h HP') as HI.
  unfold premise in HP. rewrite !andb_true_iff in HP. destruct HP as ((((H1 & _) & H3) & _) & H5).
  apply Z.leb_le in H1.
  rewrite ready_use_app in H3. apply andb_true_iff in H3. destruct H3 as [_ H3].
  cbn [ready_use] in H3. rewrite andb_true_r in H3.
  rewrite run_app, lease_cs_app, forallb_app in H5. apply andb_true_iff in H5. destruct H5 as [_ H5].
  rewrite final_app, run_app, cur_ids_app, cur_leases_app.
  remember (final empty h) as w eqn:Ew. remember (cur_ids g [] (run empty h)) as Ig eqn:EI.
  remember (cur_leases g [] (run empty h)) as Cg eqn:EC.
  remember (ids (run empty h)) as I eqn:EI'. remember (lease_cs (run empty h)) as L eqn:EL.
  clear Ew EI EC EI' EL HP' h.
  cbn [final run]. destruct e as [g' s|g' a|g' a|g']; cbn [step].
  - (* New *)
    cbn [snd cur_ids cur_leases resets fst lease_of]. unfold PG in *.
    destruct (Nat.eqb_spec g' g) as [->|Hne].
    + rewrite upd_same. cbn. split; reflexivity.
    + rewrite upd_other by congruence. exact IH.
  - (* Init *)
    destruct (w g') as [sl|] eqn:Hw.
    2:{ cbn [snd cur_ids cur_leases resets fst lease_of ev_gen]. 
        destruct a; exact IH. }
    pose proof (inv_step _ _ _ _ HI g' sl Hw) as Hstep.
    destruct (not_ok_cases a) as [[c ->]|Ha].
    + assert (Hrun : lease_cs (run w [EInit g' (StoreOk c)]) = [c]).
      { cbn [run step]. rewrite Hw. destruct (init (s_gen sl) (StoreOk c)). reflexivity. }
      rewrite Hrun in H5. cbn [forallb] in H5. rewrite andb_true_r in H5. apply fitsb_spec in H5.
      rewrite (init_ok S _ c H1 Hstep H5).
      cbn [snd cur_ids cur_leases resets fst lease_of ev_gen].
      unfold PG in *. destruct (Nat.eqb_spec g' g) as [->|Hne].
      * rewrite upd_same. cbn [s_ready s_gen g_counter g_last]. rewrite Hw in IH.
        split; [exists Cg; reflexivity|].
        destruct (s_ready sl) eqn:Hr.
        -- destruct IH as ([C0 HC0] & Hseg & Hsort).
           destruct (inv_ready _ _ _ _ HI g sl Hw Hr) as ((_ & _ & Hrange) & _ & _).
           split.
           ++ intros i Hi. destruct (Hseg i Hi) as [c0 [Hc0 Hs0]]. exists c0. split; [apply in_or_app; left|]; assumption.
           ++ intros Hs. apply sorted_snoc_inv in Hs. destruct Hs as [Hs Hlt].
              destruct (Hsort Hs) as [Hs' Hle]. split; [assumption|].
              intros i Hi. specialize (Hle i Hi).
              assert (g_counter (s_gen sl) < c) by (apply Hlt; rewrite HC0; apply in_or_app; right; left; reflexivity).
              nia.
        -- destruct IH as [-> ->]. split; [intros i []|]. intros _. split; [constructor | intros i []].
      * rewrite upd_other by congruence. exact IH.
    + rewrite (init_err _ _ Ha). cbn [snd cur_ids cur_leases resets fst ev_gen].
      assert (lease_of g (EInit g' a, OErrStore, true) = None) as -> by (destruct a; try reflexivity; exfalso; eapply Ha; reflexivity).
      unfold PG in *. destruct (Nat.eqb_spec g' g) as [->|Hne].
      * rewrite upd_same. rewrite Hw in IH. cbn [s_ready s_gen]. exact IH.
      * rewrite upd_other by congruence. exact IH.
  - (* Next *)
    destruct (w g') as [sl|] eqn:Hw.
    2:{ cbn [snd cur_ids cur_leases resets fst lease_of ev_gen].
        destruct a; exact IH. }
    destruct (inv_ready _ _ _ _ HI g' sl Hw H3) as (Hok & _ & _).
    pose proof Hok as (Hstep & Hfits & Hrange).
    destruct (Z.lt_ge_cases (g_last (s_gen sl)) ((g_counter (s_gen sl) + 1) * S)) as [Hlt|Hge].
    + destruct (next_inside S (s_gen sl) a H1 Hok Hlt) as [Hnr Hnext].
      rewrite Hnext, Hnr. cbn [snd cur_ids cur_leases resets fst ev_gen].
      assert (lease_of g (ENext g' a, OId (g_last (s_gen sl) + 1), false) = None) as -> by (destruct a; reflexivity).
      unfold PG in *. destruct (Nat.eqb_spec g' g) as [->|Hne].
      * rewrite upd_same. rewrite Hw, H3 in IH. rewrite H3. cbn [s_ready s_gen g_counter g_last].
        destruct IH as (HC0 & Hseg & Hsort). split; [exact HC0|]. split.
        -- intros i Hi. apply in_app_or in Hi. destruct Hi as [Hi|[<-|[]]]; [apply Hseg; assumption|].
           exists (g_counter (s_gen sl)). split.
           ++ destruct HC0 as [C0 ->]. apply in_or_app. right. left. reflexivity.
           ++ unfold in_seg. lia.
        -- intros Hs. destruct (Hsort Hs) as [Hs' Hle]. split.
           ++ apply sorted_snoc; [assumption|]. intros x Hx. specialize (Hle x Hx). lia.
           ++ intros i Hi. apply in_app_or in Hi. destruct Hi as [Hi|[<-|[]]]; [specialize (Hle i Hi)|]; lia.
      * rewrite upd_other by congruence. exact IH.
    + assert (Heq : g_last (s_gen sl) = (g_counter (s_gen sl) + 1) * S) by lia.
      destruct (not_ok_cases a) as [[c ->]|Ha].
      * destruct (next_reload_err S (s_gen sl) StoreErrBefore H1 Hok Heq ltac:(discriminate)) as [Hnr0 _].
        assert (Hrun : lease_cs (run w [ENext g' (StoreOk c)]) = [c]).
        { cbn [run step]. rewrite Hw, Hnr0. destruct (next (s_gen sl) (StoreOk c)). reflexivity. }
        rewrite Hrun in H5. cbn [forallb] in H5. rewrite andb_true_r in H5. apply fitsb_spec in H5.
        destruct (next_reload S (s_gen sl) c H1 Hok Heq H5) as [Hnr Hnext].
        rewrite Hnext, Hnr. cbn [snd cur_ids cur_leases resets fst lease_of ev_gen].
        unfold PG in *. destruct (Nat.eqb_spec g' g) as [->|Hne].
        -- rewrite upd_same. rewrite Hw, H3 in IH. rewrite H3. cbn [s_ready s_gen g_counter g_last].
           destruct IH as ([C0 HC0] & Hseg & Hsort). split; [exists Cg; reflexivity|]. split.
           ++ intros i Hi. apply in_app_or in Hi. destruct Hi as [Hi|[<-|[]]].
              ** destruct (Hseg i Hi) as [c0 [Hc0 Hs0]]. exists c0. split; [apply in_or_app; left|]; assumption.
              ** exists c. split; [apply in_or_app; right; left; reflexivity|]. unfold in_seg. lia.
           ++ intros Hs. apply sorted_snoc_inv in Hs. destruct Hs as [Hs Hltc].
              destruct (Hsort Hs) as [Hs' Hle].
              assert (g_counter (s_gen sl) < c) by (apply Hltc; rewrite HC0; apply in_or_app; right; left; reflexivity).
              split.
              ** apply sorted_snoc; [assumption|]. intros x Hx. specialize (Hle x Hx). nia.
              ** intros i Hi. apply in_app_or in Hi. destruct Hi as [Hi|[<-|[]]]; [specialize (Hle i Hi); nia | lia].
        -- rewrite upd_other by congruence. exact IH.
      * destruct (next_reload_err S (s_gen sl) a H1 Hok Heq Ha) as [Hnr Hnext].
        rewrite Hnext, Hnr. cbn [snd cur_ids cur_leases resets fst ev_gen].
        assert (lease_of g (ENext g' a, OErrStore, true) = None) as -> by (destruct a; try reflexivity; exfalso; eapply Ha; reflexivity).
        unfold PG in *. destruct (Nat.eqb_spec g' g) as [->|Hne].
        -- rewrite upd_same. rewrite Hw in IH. cbn [s_ready s_gen]. exact IH.
        -- rewrite upd_other by congruence. exact IH.
  - (* Crash *)
    cbn [snd cur_ids cur_leases resets fst lease_of]. unfold PG in *.
    destruct (Nat.eqb_spec g' g) as [->|Hne].
    + rewrite upd_same. split; reflexivity.
    + rewrite upd_other by congruence. exact IH.
Qed.

Lemma premise_app S h1 h2 : premise S (h1 ++ h2) = true -> premise S h1 = true.
Proof.
  induction h2 as [|e h2 IH] using rev_ind; [rewrite app_nil_r; auto|].
  rewrite app_assoc. intros H. apply IH. eapply premise_prefix. exact H.
Qed.

Lemma in_own_segment_thm S h g i :
  premise S h = true -> In i (cur_ids g [] (run empty h)) ->
  exists c, In c (cur_leases g [] (run empty h)) /\ c * S < i <= (c + 1) * S.
Proof.
  intros HP Hi. pose proof (pg_run S g h HP) as H. unfold PG in H.
  destruct (final empty h g) as [sl|].
  - destruct (s_ready sl).
    + destruct H as (_ & Hseg & _). exact (Hseg i Hi).
    + destruct H as [H _]. rewrite H in Hi. destruct Hi.
  - destruct H as [H _]. rewrite H in Hi. destruct Hi.
Qed.

Lemma increasing_thm S h g :
  premise S h = true ->
  StronglySorted Z.lt (cur_leases g [] (run empty h)) ->
  StronglySorted Z.lt (cur_ids g [] (run empty h)).
Proof.
  intros HP Hs. pose proof (pg_run S g h HP) as H. unfold PG in H.
  destruct (final empty h g) as [sl|].
  - destruct (s_ready sl).
    + destruct H as (_ & _ & Hsort). exact (proj1 (Hsort Hs)).
    + destruct H as [-> _]. constructor.
  - destruct H as [-> _]. constructor.
Qed.

(* store errors: the error surfaces, nothing is consumed, and the next successful answer
   opens a fresh segment at its first id *)
Lemma store_error_thm S g a c :
  1 <= S -> gen_ok S g -> (forall c0, a <> StoreOk c0) -> fits S c ->
  (needs_reload g = false -> forall a', next g a = next g a') /\
  (needs_reload g = true ->
     next g a = (OErrStore, g) /\
     next g (StoreOk c) = (OId (c * S + 1), mkGen S c (c * S + 1))) /\
  init g a = (OErrStore, g).
Proof.
  intros HS Hok Ha Hc. split; [|split].
  - intros Hn a'. apply next_ignores_answer. assumption.
  - intros Hn. split; [apply next_store_error; assumption|].
    pose proof (needs_reload_spec S g HS Hok) as Hspec. rewrite Hn in Hspec.
    destruct Hok as (Hg & Hf & Hr).
    assert (g_last g = (g_counter g + 1) * S).
    { destruct (g_last g + 1 <=? (g_counter g + 1) * S) eqn:E; [discriminate | lia]. }
    apply (next_reload S g c HS (conj Hg (conj Hf Hr)) H Hc).
  - apply init_err. assumption.
Qed.

(* ------------------------------------------------------------------------------------ *)
(* the adapters' guard                                                                   *)

Fixpoint somes (l : list (option Z)) : list Z :=
  match l with
  | [] => []
  | Some v :: r => v :: somes r
  | None :: r => somes r
  end.

Lemma guard_run_sorted raws : forall last,
  Forall (fun r => r <> 0) raws ->
  StronglySorted Z.lt (somes (guard_run last raws)) /\
  (last <> 0 -> Forall (fun v => last < v) (somes (guard_run last raws))).
Proof.
  induction raws as [|r raws IH]; intros last Hnz; cbn [guard_run somes]; [split; constructor|].
  inversion Hnz as [|? ? Hr Hrest]; subst. unfold guard.
  destruct (negb (last =? 0) && (last >=? r)) eqn:E.
  - cbn [somes]. apply IH. assumption.
  - cbn [somes]. destruct (IH r Hrest) as [IH1 IH2]. specialize (IH2 Hr). split.
    + constructor; assumption.
    + intros Hl. assert (last < r).
      { apply andb_false_iff in E. destruct E as [E|E]; [apply negb_false_iff in E; lia | lia]. }
      constructor; [assumption|]. eapply Forall_impl; [|exact IH2]. cbn. intros; lia.
Qed.

Lemma guard_monotone_thm raws :
  Forall (fun r => r <> 0) raws -> StronglySorted Z.lt (somes (guard_run 0 raws)).
Proof. intros H. exact (proj1 (guard_run_sorted raws 0 H)). Qed.

(* what the guard lets through is the raw value itself *)
Lemma guard_value last raw : fst (guard last raw) = None \/ fst (guard last raw) = Some raw.
Proof. unfold guard. destruct (negb (last =? 0) && (last >=? raw)); [left | right]; reflexivity. Qed.

(* a generator whose counters come through an adapter's guard issues increasing ids *)
Lemma increasing_guarded_thm S h g raws :
  premise S h = true -> Forall (fun r => r <> 0) raws ->
  cur_leases g [] (run empty h) = somes (guard_run 0 raws) ->
  StronglySorted Z.lt (cur_ids g [] (run empty h)).
Proof.
  intros HP Hnz Heq. apply (increasing_thm S h g HP). rewrite Heq. apply guard_monotone_thm. assumption.
Qed.
