(* C08 — lemmas about the segment id generator model. *)
From Coq Require Import ZArith List Bool Lia.
From FV Require Import Generated.Consts C08.Model.
Import ListNotations.
Open Scope Z_scope.

(* a failed store call leaves the generator as it was and surfaces as an error *)
Lemma next_store_error g a :
  needs_reload g = true -> (a = StoreErrBefore \/ exists c, a = StoreErrAfter c) ->
  next g a = (OErrStore, g).
Proof.
  intros H [-> | [c ->]]; unfold next; rewrite H; reflexivity.
Qed.
