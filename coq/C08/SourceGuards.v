(* C08 — the Incr methods of the redis and etcd adapters, regenerated from store_redis.go and
   store_etcd.go by tools/gofunc on every run (Generated/StoreGuards.v; the database round trip
   doIncr is external: what it returns — counter and error — are inputs; the field lastId that
   Incr assigns comes back after the results), are the model's guard:
     the client's error is passed on and lastId is kept;
     a counter that did not grow (lastId <> 0 and lastId >= cnt) is refused with
       ErrIDOutOfRange and lastId is kept;
     otherwise the counter is returned and remembered.
   (MySQLStore.Incr and MongoStore.Incr are outside the translator's subset — context.WithTimeout,
   a struct literal taken by address — and are tied by execution against the fakes only.) *)
From Coq Require Import ZArith List Bool Lia.
From FV Require Import Generated.StoreGuards C08.Model.
Open Scope Z_scope.

Definition guard_as_incr (last cnt : Z) : Z * Z * Z :=
  match guard last cnt with
  | (None, last') => (0, go_err_uuid_ErrIDOutOfRange, last')
  | (Some v, last') => (v, 0, last')
  end.

Lemma src_redis_incr last cnt err :
  go_RedisStore_Incr last cnt err =
  if negb (err =? 0) then (0, err, last) else guard_as_incr last cnt.
Proof.
  unfold go_RedisStore_Incr, guard_as_incr, guard.
  destruct (negb (err =? 0)); [reflexivity|].
  destruct (negb (last =? 0) && (last >=? cnt)); reflexivity.
Qed.

Lemma src_etcd_incr last rev err :
  go_EtcdStore_Incr last rev err =
  if negb (err =? 0) then (0, err, last) else guard_as_incr last rev.
Proof.
  unfold go_EtcdStore_Incr, guard_as_incr, guard.
  destruct (negb (err =? 0)); [reflexivity|].
  destruct (negb (last =? 0) && (last >=? rev)); reflexivity.
Qed.

(* the guard refuses exactly the counters that did not grow (once lastId is set) *)
Lemma src_guard_refuses_exactly last cnt :
  last <> 0 ->
  (fst (fst (go_RedisStore_Incr last cnt 0)) = cnt /\ snd (fst (go_RedisStore_Incr last cnt 0)) = 0 /\
   snd (go_RedisStore_Incr last cnt 0) = cnt <-> last < cnt) /\
  (snd (fst (go_RedisStore_Incr last cnt 0)) = go_err_uuid_ErrIDOutOfRange /\
   snd (go_RedisStore_Incr last cnt 0) = last <-> cnt <= last).
Proof.
  intros Hl. rewrite src_redis_incr. cbn [negb Z.eqb]. unfold guard_as_incr, guard.
  replace (negb (last =? 0)) with true by (destruct (Z.eqb_spec last 0); [contradiction | reflexivity]).
  cbn [andb]. destruct (last >=? cnt) eqn:E; cbn [fst snd]; unfold go_err_uuid_ErrIDOutOfRange; split; split; intros; try lia.
Qed.
