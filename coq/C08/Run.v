(* C08 — correspondence: decode a history written by the Go harness, run the model on it,
   compare with what SeqIDGen returned and with the Storage.Incr calls it made, and evaluate
   the property's executable form on the implementation's own outputs.

   case     = ((events raws) (outs gouts))
   event    = (0 g step) New | (1 g a c) Init | (2 g a c) Next | (4 g a c) MustNext | (3 g) Crash
              a = 0 StoreOk c | 1 StoreErrBefore | 2 StoreErrAfter c   (the scripted store's answer)
   out      = (kind value asked)   kind 0 nothing, 1 Init ok, 2 id, 3 the store's error,
                                   4 "integer overflow" error, 5 anything else, 6 the call
                                   never returned (blocked on the generator's mutex for good);
                                   asked = number of Storage.Incr calls during the event (0, 1; more is a failure)
   raws     = guard scripts ((adapter init c1 c2 ...) ...): raw counter values fed to a real store
              adapter's Incr through a fake of its client, gouts = (((ok value) ...) ...)
   A second case shape carries concurrent scenarios, see check_concurrent. *)
From Coq Require Import ZArith List Bool.
From FV Require Import Generated.Consts Lib.Sx C08.Model.
Import ListNotations.
Open Scope Z_scope.

(* ---- decoding ---- *)
Definition ans_of (a c : Z) : option ans :=
  if a =? 0 then Some (StoreOk c) else if a =? 1 then Some StoreErrBefore
  else if a =? 2 then Some (StoreErrAfter c) else None.

Definition event_of (s : sx) : option event :=
  match s with
  | SList [SInt 0; SInt g; SInt st] => if g <? 0 then None else Some (ENew (Z.to_nat g) st)
  | SList [SInt 1; SInt g; SInt a; SInt c] =>
      if g <? 0 then None else option_map (EInit (Z.to_nat g)) (ans_of a c)
  | SList [SInt 2; SInt g; SInt a; SInt c] =>
      if g <? 0 then None else option_map (ENext (Z.to_nat g)) (ans_of a c)
  (* MustNext = Next whose error arrives as a panic (the harness maps the panic back) *)
  | SList [SInt 4; SInt g; SInt a; SInt c] =>
      if g <? 0 then None else option_map (ENext (Z.to_nat g)) (ans_of a c)
  | SList [SInt 3; SInt g] => if g <? 0 then None else Some (ECrash (Z.to_nat g))
  | _ => None
  end.

Definition obs_of (s : sx) : option (Z * Z * bool) :=
  match s with
  | SList [SInt k; SInt v; SInt a] => Some (k, v, negb (a =? 0))
  | _ => None
  end.

(* the third component of an observed outcome counts the Storage.Incr calls of the operation;
   the anchored code makes at most one per Init / Next / MustNext / NextID: a second one means a
   failed store call was retried behind the caller's back instead of surfacing as the error *)
Definition single_store_call (s : sx) : bool :=
  match s with
  | SList [SInt _; SInt _; SInt a] => a <=? 1
  | _ => true
  end.

Definition gout_of (s : sx) : option (option Z) :=
  match s with
  | SList [SInt ok; SInt v] => Some (if ok =? 0 then None else Some v)
  | _ => None
  end.

(* ---- model against implementation ---- *)
Definition code_of (o : out) : Z * Z :=
  match o with
  | ONone => (0, 0)
  | OInitOk => (1, 0)
  | OId id => (2, id)
  | OErrStore => (3, 0)
  | OErrOverflow => (4, 0)
  end.

Definition corr (h : list event) (obs : list (Z * Z * bool)) : verdict :=
  let tr := run empty h in
  let m := map (fun x => let '(_, o, asked) := x in (code_of o, asked)) tr in
  vjoin (check_that (list_eqb (fun a b => (fst (fst a) =? fst (fst b)) && (snd (fst a) =? snd (fst b)))
                              m (map (fun x => let '(k, v, a) := x in ((k, v), a)) obs))
                    (VMismatch 1))
        (check_that (list_eqb Bool.eqb (map snd m) (map snd obs)) (VMismatch 2)).

Definition opt_eqb (a b : option Z) : bool :=
  match a, b with
  | None, None => true
  | Some x, Some y => x =? y
  | _, _ => false
  end.

(* ---- the property on the implementation's outputs (independent reference) ----
   A reference bookkeeping of segments: per live generator its step, the counter it holds
   (if any) and the last id it got. *)
Record ref_slot := mkRef { r_step : Z; r_lease : option Z; r_lastid : option Z; r_ready : bool }.

Fixpoint lookup (l : list (nat * ref_slot)) (g : nat) : option ref_slot :=
  match l with
  | [] => None
  | (k, v) :: r => if Nat.eqb k g then Some v else lookup r g
  end.
Fixpoint remove (l : list (nat * ref_slot)) (g : nat) : list (nat * ref_slot) :=
  match l with
  | [] => []
  | (k, v) :: r => if Nat.eqb k g then remove r g else (k, v) :: remove r g
  end.
Definition put (l : list (nat * ref_slot)) (g : nat) (v : ref_slot) := (g, v) :: remove l g.

Definition memZ (x : Z) (l : list Z) : bool := existsb (Z.eqb x) l.

Record rst := mkR {
  slots : list (nat * ref_slot);
  all_ids : list Z;          (* every id seen so far *)
  all_leases : list Z;       (* every counter handed out so far *)
  steps : list Z;            (* effective steps of the generators created *)
  hyp : bool;                (* the property's premise holds so far *)
  q1 : bool; q2 : bool; q3 : bool; q5 : bool; q6 : bool }.

Definition eff_step (s : Z) : Z := if s <=? 0 then x_uuid_DefaultSeqStep else s.
Definition fits (c st : Z) : bool := (- 2 ^ 63 <=? c * st) && ((c + 1) * st + 1 <? 2 ^ 63) && (- 2 ^ 63 <=? c) && (c + 1 <? 2 ^ 63).

(* the position from which the generator counts: its last id, or the start of its segment *)
Definition pos_of (sl : ref_slot) : option Z :=
  match r_lastid sl, r_lease sl with
  | Some i, _ => Some i
  | None, Some c => Some (c * r_step sl)
  | None, None => None
  end.

Definition take_lease (st : rst) (g : nat) (sl : ref_slot) (c : Z) (id : option Z) : rst :=
  let fresh := negb (memZ c (all_leases st)) in
  let growing := match r_lease sl with Some c0 => c0 <? c | None => true end in
  mkR (put (slots st) g (mkRef (r_step sl) (Some c) id true))
      (match id with Some i => i :: all_ids st | None => all_ids st end)
      (c :: all_leases st) (steps st)
      (hyp st && fresh && fits c (r_step sl))
      (q1 st && match id with Some i => negb (memZ i (all_ids st)) | None => true end)
      (q2 st && match id with Some i => (c * r_step sl <? i) && (i <=? (c + 1) * r_step sl) | None => true end)
      (q3 st && match id, r_lastid sl with
                | Some i, Some p => if growing then p <? i else true
                | _, _ => true end)
      (q5 st)
      (q6 st && match id with Some i => i =? c * r_step sl + 1 | None => true end).

Definition set_flag (st : rst) (which : Z) (b : bool) : rst :=
  mkR (slots st) (all_ids st) (all_leases st) (steps st) (hyp st)
      (q1 st) (q2 st) (q3 st)
      (if which =? 5 then q5 st && b else q5 st)
      (if which =? 6 then q6 st && b else q6 st).

Definition set_hyp (st : rst) (b : bool) : rst :=
  mkR (slots st) (all_ids st) (all_leases st) (steps st) (hyp st && b)
      (q1 st) (q2 st) (q3 st) (q5 st) (q6 st).

Definition ref_step (st : rst) (eo : event * (Z * Z * bool)) : rst :=
  let '(e, (k, v, asked)) := eo in
  match e with
  | ENew g s =>
      let es := eff_step s in
      let same := match steps st with [] => true | s0 :: _ => s0 =? es end in
      mkR (put (slots st) g (mkRef es None None false)) (all_ids st) (all_leases st)
          (es :: steps st) (hyp st && same) (q1 st) (q2 st) (q3 st) (q5 st) (q6 st)
  | ECrash g =>
      mkR (remove (slots st) g) (all_ids st) (all_leases st) (steps st) (hyp st)
          (q1 st) (q2 st) (q3 st) (q5 st) (q6 st)
  | EInit g a =>
      match lookup (slots st) g with
      | None => st
      | Some sl =>
          match a with
          | StoreOk c =>
              (* a successful store call must make Init succeed *)
              set_flag (take_lease st g sl c None) 5 (asked && (k =? 1))
          | _ => set_flag st 5 (asked && (k =? 3))
          end
      end
  | ENext g a =>
      match lookup (slots st) g with
      | None => st
      | Some sl =>
          if negb (r_ready sl) then set_hyp st false   (* used before a successful Init *)
          else if asked then
            (* a new counter may be leased only when the segment is used up *)
            let used_up := match pos_of sl, r_lease sl with
                           | Some p, Some c => p =? (c + 1) * r_step sl
                           | _, _ => false end in
            let st := set_flag st 6 used_up in
            match a with
            | StoreOk c =>
                if k =? 2 then take_lease st g sl c (Some v)
                else set_flag (take_lease st g sl c None) 5 false
            | _ => set_flag st 5 (k =? 3)     (* the error surfaces, nothing else changes *)
            end
          else
            (* no store call: the next id of the current segment, and never an error *)
            match pos_of sl, r_lease sl with
            | Some p, Some c =>
                if k =? 2 then
                  mkR (put (slots st) g (mkRef (r_step sl) (r_lease sl) (Some v) true))
                      (v :: all_ids st) (all_leases st) (steps st) (hyp st)
                      (q1 st && negb (memZ v (all_ids st)))
                      (q2 st && (c * r_step sl <? v) && (v <=? (c + 1) * r_step sl))
                      (q3 st && (p <? v))
                      (q5 st)
                      (q6 st && (v =? p + 1))
                else set_flag st 5 false
            | _, _ => set_hyp st false
            end
      end
  end.

(* The premise is prefix-closed: a failure counts iff the premise still holds when it
   happens (events after the first premise violation are not judged; failures before it are
   kept — a misbehaving implementation must not be able to hide behind a premise that its
   own later outputs make false). *)
Definition ref_step_guarded (st : rst) (eo : event * (Z * Z * bool)) : rst :=
  let st' := ref_step st eo in
  if hyp st' then st'
  else mkR (slots st') (all_ids st') (all_leases st') (steps st') false
           (q1 st) (q2 st) (q3 st) (q5 st) (q6 st).

(* outcome kind 6: the call never returned (the harness found its goroutine parked on the
   generator's mutex with nobody inside Next).  The model's Init / Next always return, and
   "generation resumes correctly once the store recovers" forbids it under any premise. *)
Definition all_returned (obs : list (Z * Z * bool)) : bool :=
  forallb (fun o => let '(k, _, _) := o in negb (k =? 6)) obs.

Definition prop (h : list event) (obs : list (Z * Z * bool)) : verdict :=
  let st := fold_left ref_step_guarded (combine h obs)
                      (mkR [] [] [] [] true true true true true true) in
  vjoin (check_that (all_returned obs) (VPropFail 8))
 (vjoin (check_that (q1 st) (VPropFail 1))
 (vjoin (check_that (q2 st) (VPropFail 2))
 (vjoin (check_that (q3 st) (VPropFail 3))
 (vjoin (check_that (q5 st) (VPropFail 5))
        (check_that (q6 st) (VPropFail 6)))))).

(* the adapter guard: on non-zero raw counters the accepted values strictly increase *)
Fixpoint increasing_from (last : option Z) (l : list (option Z)) : bool :=
  match l with
  | [] => true
  | None :: r => increasing_from last r
  | Some v :: r => match last with Some p => p <? v | None => true end && increasing_from (Some v) r
  end.

(* a raw value -2^62 in a script says "the client call fails here": the adapter passes the
   error on (no value) and keeps its lastId, so the following counters are judged as before *)
Definition err_raw : Z := - 4611686018427387904.
Fixpoint guard_run_e (last : Z) (raws : list Z) : list (option Z) :=
  match raws with
  | [] => []
  | r :: rest =>
      if r =? err_raw then None :: guard_run_e last rest
      else let '(o, last') := guard last r in o :: guard_run_e last' rest
  end.

(* one guard script: the adapter (0 redis, 1 etcd, 2 mysql, 3 mongo: all four share the model's
   guard), the counter the adapter starts from (what a MySQLStore found in its table; 0
   otherwise), the raw counters, and what the real Incr returned for each *)
Definition guard_checks (init : Z) (raws : list Z) (gouts : list (option Z)) : verdict :=
  vjoin (check_that (if forallb (fun r => negb (r =? 0)) raws
                     then increasing_from (if init =? 0 then None else Some init) gouts else true)
                    (VPropFail 7))
        (check_that (list_eqb opt_eqb (guard_run_e init raws) gouts) (VMismatch 3)).

Definition guard_script (s g : sx) : verdict :=
  match s, g with
  | SList (SInt a :: SInt init :: raws), SList gouts =>
      match map_opt sx_int raws, map_opt gout_of gouts with
      | Some rw, Some go =>
          if (0 <=? a) && (a <=? 3) && Nat.eqb (length rw) (length go) then guard_checks init rw go else VBad
      | _, _ => VBad
      end
  | _, _ => VBad
  end.

Fixpoint guard_scripts (ss gs : list sx) : verdict :=
  match ss, gs with
  | [], [] => VOk
  | s :: sr, g :: gr => vjoin (guard_script s g) (guard_scripts sr gr)
  | _, _ => VBad
  end.

(* a concurrent (9 ...) or gated (7 ...: the harness's store decides when each store call
   returns) scenario: input = the scenario's parameters, observed =
   (events outs) — the history as linearised by the harness (order of the store's tickets and,
   inside a segment, of the ids) with what every call returned.  The model must reproduce the
   observed values call by call, and the property is evaluated on them. *)
Definition check_concurrent (evs outs : list sx) : verdict :=
  match map_opt event_of evs, map_opt obs_of outs with
  | Some h, Some obs =>
      if Nat.eqb (length h) (length obs)
      then vjoin (check_that (forallb single_store_call outs) (VPropFail 5)) (vjoin (prop h obs) (corr h obs))
      else VBad
  | _, _ => VBad
  end.

Definition check (c : sx) : verdict :=
  match c with
  | SList [SList (SInt _ :: _); SList [SList evs; SList outs]] => check_concurrent evs outs
  | SList [SList (SList evs :: SList raws :: _); SList [SList outs; SList gouts]] =>
      (* an optional third input component marks a history driven through the package-level
         API (uuid.Init / uuid.NextID); it is judged like any other *)
      match map_opt event_of evs, map_opt obs_of outs with
      | Some h, Some obs =>
          if Nat.eqb (length h) (length obs) then
            vjoin (check_that (forallb single_store_call outs) (VPropFail 5))
                  (vjoin (prop h obs) (vjoin (guard_scripts raws gouts) (corr h obs)))
          else VBad
      | _, _ => VBad
      end
  | _ => VBad
  end.
