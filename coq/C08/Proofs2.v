(* C08 — further lemmas: a failed store call consumes nothing (for EVERY history, no premise),
   and the package-level API (api.go) discharges two parts of the premise by construction. *)
From Coq Require Import ZArith List Bool Lia Arith.
From FV Require Import Generated.Consts C08.Model C08.Proofs.
Import ListNotations.
Open Scope Z_scope.

(* ------------------------------------------------------------------------------------ *)
(* worlds that agree pointwise run alike                                                 *)

Definition weq (w1 w2 : world) : Prop := forall g, w1 g = w2 g.

Lemma weq_upd w1 w2 g v : weq w1 w2 -> weq (upd w1 g v) (upd w2 g v).
Proof. intros H x. unfold upd. destruct (Nat.eqb x g); [reflexivity | apply H]. Qed.

Lemma step_ext w1 w2 e :
  weq w1 w2 ->
  fst (step w1 e) = fst (step w2 e) /\ weq (snd (step w1 e)) (snd (step w2 e)).
Proof.
  intros H. destruct e as [g s|g a|g a|g]; cbn [step].
  - split; [reflexivity | apply weq_upd; assumption].
  - rewrite <- (H g). destruct (w1 g) as [sl|]; [|split; [reflexivity | assumption]].
    destruct (init (s_gen sl) a) as [o gn]. split; [reflexivity | apply weq_upd; assumption].
  - rewrite <- (H g). destruct (w1 g) as [sl|]; [|split; [reflexivity | assumption]].
    destruct (next (s_gen sl) a) as [o gn]. split; [reflexivity | apply weq_upd; assumption].
  - split; [reflexivity | apply weq_upd; assumption].
Qed.

Lemma run_ext h : forall w1 w2, weq w1 w2 -> run w1 h = run w2 h.
Proof.
  induction h as [|e h IH]; intros w1 w2 H; cbn [run]; [reflexivity|].
  destruct (step_ext w1 w2 e H) as [H1 H2].
  destruct (step w1 e) as [[o1 a1] w1']. destruct (step w2 e) as [[o2 a2] w2'].
  cbn [fst snd] in *. inversion H1; subst. f_equal. apply IH. assumption.
Qed.

(* ------------------------------------------------------------------------------------ *)
(* an event whose outcome is the store's error leaves the world as it was                *)

Lemma init_errstore g a gn : init g a = (OErrStore, gn) -> gn = g.
Proof.
  unfold init, reload. destruct a as [c| |c]; try (intros [= <-]; reflexivity).
  destruct (_ <? _); intros [=].
Qed.

Lemma next_errstore g a gn : next g a = (OErrStore, gn) -> gn = g.
Proof.
  unfold next. destruct (needs_reload g); [|intros [=]].
  unfold reload. destruct a as [c| |c]; try (intros [= <-]; reflexivity).
  destruct (_ <? _); intros [=].
Qed.

Lemma step_errstore w e asked w' : step w e = (OErrStore, asked, w') -> weq w' w.
Proof.
  destruct e as [g s|g a|g a|g]; cbn [step]; try (intros [=]; fail).
  - destruct (w g) as [sl|] eqn:Hw; [|intros [=]].
    destruct (init (s_gen sl) a) as [o gn] eqn:E. intros [= -> _ <-].
    apply init_errstore in E. subst gn. intros x. unfold upd.
    destruct (Nat.eqb_spec x g) as [->|]; [|reflexivity]. rewrite Hw. destruct sl; reflexivity.
  - destruct (w g) as [sl|] eqn:Hw; [|intros [=]].
    destruct (next (s_gen sl) a) as [o gn] eqn:E. intros [= -> _ <-].
    apply next_errstore in E. subst gn. intros x. unfold upd.
    destruct (Nat.eqb_spec x g) as [->|]; [|reflexivity]. rewrite Hw. destruct sl; reflexivity.
Qed.

(* ------------------------------------------------------------------------------------ *)
(* a failed store call consumes nothing: erase every event that came back with the store's
   error — every other event of the history returns exactly what it returned before      *)

Definition not_store_error (x : event * out * bool) : bool :=
  match snd (fst x) with OErrStore => false | _ => true end.

Definition erase_failed (w : world) (h : list event) : list event :=
  map (fun x => fst (fst x)) (filter not_store_error (run w h)).

Lemma erase_failed_thm h : forall w,
  filter not_store_error (run w h) = run w (erase_failed w h).
Proof.
  unfold erase_failed.
  induction h as [|e h IH]; intros w; cbn [run]; [reflexivity|].
  destruct (step w e) as [[o asked] w'] eqn:E. cbn [filter].
  destruct (not_store_error (e, o, asked)) eqn:K.
  - cbn [map fst run]. rewrite E. f_equal. apply IH.
  - assert (o = OErrStore) by (unfold not_store_error in K; cbn in K; destruct o; try discriminate; reflexivity).
    subst o. etransitivity; [apply IH|]. apply run_ext. eapply step_errstore. exact E.
Qed.

Lemma ids_filter tr : ids (filter not_store_error tr) = ids tr.
Proof.
  unfold ids. induction tr as [|[[e o] k] tr IH]; [reflexivity|].
  cbn [filter]. unfold not_store_error at 1. cbn [fst snd].
  destruct o; cbn [issued map]; try (f_equal; exact IH); exact IH.
Qed.

Lemma failed_calls_consume_nothing w h : ids (run w (erase_failed w h)) = ids (run w h).
Proof. rewrite <- erase_failed_thm. apply ids_filter. Qed.

(* ------------------------------------------------------------------------------------ *)
(* the package-level API: Init(store) = NewSeqIDGen(store, DefaultSeqStep) + Init(), published
   only if that Init succeeded; NextID() = Next on the published generator (none yet: it
   panics on the nil generator, no store call, no id).  Every api Init uses a fresh generator
   index k; cur is the index of the published generator.                                  *)

Inductive api_ev : Type := AInit (a : ans) | ANext (a : ans).

Fixpoint api_events (k : nat) (cur : option nat) (l : list api_ev) : list event :=
  match l with
  | [] => []
  | AInit a :: r =>
      ENew k x_uuid_DefaultSeqStep :: EInit k a ::
      api_events (S k) (match a with StoreOk _ => Some k | _ => cur end) r
  | ANext a :: r =>
      match cur with
      | Some g => ENext g a :: api_events k cur r
      | None => api_events k cur r
      end
  end.

Definition D : Z := x_uuid_DefaultSeqStep.

(* every counter an api Init is answered with is representable at the default step *)
Definition init_answers_fit (l : list api_ev) : Prop :=
  Forall (fun e => match e with AInit (StoreOk c) => fits D c | _ => True end) l.

Lemma steps_ok_api l : forall k cur, steps_ok D (api_events k cur l) = true.
Proof.
  induction l as [|[a|a] l IH]; intros k cur; cbn [api_events]; [reflexivity| |].
  - unfold steps_ok in *. cbn [forallb]. rewrite IH.
    unfold eff_step, new_gen, D, x_uuid_DefaultSeqStep. reflexivity.
  - destruct cur; [|apply IH]. unfold steps_ok in *. cbn [forallb]. apply IH.
Qed.

Lemma next_keeps_step g a : g_step (snd (next g a)) = g_step g.
Proof.
  unfold next. destruct (needs_reload g); [|reflexivity].
  unfold reload. destruct a as [c| |c]; try reflexivity.
  destruct (_ <? _); reflexivity.
Qed.

Lemma ready_use_api l : forall k cur w,
  init_answers_fit l ->
  (forall g, cur = Some g -> (g < k)%nat /\ exists sl, w g = Some sl /\ s_ready sl = true) ->
  ready_use w (api_events k cur l) = true.
Proof.
  induction l as [|[a|a] l IH]; intros k cur w Hfit Hcur; cbn [api_events]; [reflexivity| |].
  - inversion Hfit as [|? ? Ha Hl]; subst.
    cbn [ready_use step snd]. rewrite upd_same. cbn [s_gen s_ready].
    assert (HD : 1 <= D) by (unfold D, x_uuid_DefaultSeqStep; lia).
    assert (Hst : g_step (new_gen x_uuid_DefaultSeqStep) = D) by reflexivity.
    destruct (not_ok_cases a) as [[c ->]|Hna].
    + rewrite (init_ok D _ c HD Hst Ha). cbn [snd andb].
      apply IH; [assumption|]. intros g [= <-]. split; [lia|].
      eexists. rewrite upd_same. split; reflexivity.
    + rewrite (init_err _ _ Hna). cbn [snd andb].
      replace (match a with StoreOk _ => Some k | _ => cur end) with cur
        by (destruct a; try reflexivity; exfalso; eapply Hna; reflexivity).
      apply IH; [assumption|]. intros g Hg. destruct (Hcur g Hg) as [Hlt [sl [Hw Hr]]].
      split; [lia|]. exists sl. rewrite !upd_other by lia. split; assumption.
  - inversion Hfit as [|? ? _ Hl]; subst.
    destruct cur as [g|]; [|apply IH; assumption].
    destruct (Hcur g eq_refl) as [Hlt [sl [Hw Hr]]].
    cbn [ready_use step]. rewrite Hw, Hr. cbn [andb].
    destruct (next (s_gen sl) a) as [o gn]. cbn [snd].
    apply IH; [assumption|]. intros g' [= <-]. split; [assumption|].
    eexists. rewrite upd_same. split; reflexivity.
Qed.

(* for histories made through the API the premise reduces to what the store must guarantee:
   the counters it hands out are pairwise distinct (and representable) *)
Lemma api_premise l :
  init_answers_fit l ->
  let tr := run empty (api_events 0 None l) in
  NoDup (lease_cs tr) -> Forall (fits D) (lease_cs tr) ->
  premise D (api_events 0 None l) = true.
Proof.
  intros Hfit tr Hnd Hf. unfold premise. rewrite !andb_true_iff. repeat split.
  - apply steps_ok_api.
  - apply ready_use_api; [assumption|]. intros g [=].
  - apply nodupb_spec. exact Hnd.
  - apply forallb_forall. intros c Hc. apply fitsb_spec. rewrite Forall_forall in Hf. apply Hf. exact Hc.
Qed.

Lemma api_all_distinct l :
  init_answers_fit l ->
  let tr := run empty (api_events 0 None l) in
  NoDup (lease_cs tr) -> Forall (fits D) (lease_cs tr) ->
  NoDup (ids tr) /\
  forall i, In i (ids tr) -> exists c, In c (lease_cs tr) /\ c * D < i <= (c + 1) * D.
Proof.
  intros Hfit tr Hnd Hf. pose proof (api_premise l Hfit Hnd Hf) as HP. split.
  - exact (all_distinct_thm D _ HP).
  - intros i Hi. exact (in_some_segment_thm D _ i HP Hi).
Qed.
