(* C08 — the WHOLE of seq.go's generator at the source: SeqIDGen.reload, SeqIDGen.Init and the
   whole of SeqIDGen.Next (fast path and the slow path through reload), regenerated from
   x/uuid/seq.go by tools/gofunc on every run (Generated/SeqID.v), ARE the model's reload / init /
   next (Model.v) for EVERY generator state and EVERY answer of the store.
   The store call s.store.Incr() is external ("Storage.Incr#extern"): what it returned - the
   pair (counter, error code; 0 = nil) - is a parameter of the translated reload, and reaches
   Init and Next as the parameters x_reload_1_Incr_1_1 / _2 (the answer of the Incr call inside
   their call of reload).  fmt.Errorf is the error code 1 (rule "error is Z").  The fields
   reload / Next assign (counter, lastID) come back after the results; step is never assigned.
   int64 wrap-around is explicit in the translation exactly as in Model.int64.
   The model's answer `a : ans` and the Go-level pair (cnt, err) are related by `answers`:
   StoreOk c is (c, nil); both error answers are (anything, non-nil) - the generator cannot
   tell them apart.  `ans_of` gives the model answer of any pair, so the lemmas cover every pair. *)
From Coq Require Import ZArith List Bool Lia.
From FV Require Import Generated.Consts Generated.SeqID Lib.GoSem C08.Model C08.Source.
Local Open Scope Z_scope.

Definition answers (a : ans) (cnt err : Z) : Prop :=
  match a with
  | StoreOk c => cnt = c /\ err = 0
  | _ => err <> 0
  end.

Definition ans_of (cnt err : Z) : ans := if err =? 0 then StoreOk cnt else StoreErrBefore.

Lemma answers_ans_of cnt err : answers (ans_of cnt err) cnt err.
Proof.
  unfold ans_of. destruct (err =? 0) eqn:E; cbn [answers].
  - apply Z.eqb_eq in E. auto.
  - apply Z.eqb_neq in E. exact E.
Qed.

(* the Go error value of a model outcome: nil = 0, the store's error as it was given,
   fmt.Errorf = 1 *)
Definition out_err (o : out) (err : Z) : Z :=
  match o with
  | OErrStore => err
  | OErrOverflow => 1
  | _ => 0
  end.
Definition opt_err (o : option out) (err : Z) : Z :=
  match o with None => 0 | Some e => out_err e err end.
(* the int64 result of Next: the id, 0 next to an error *)
Definition out_val (o : out) : Z := match o with OId n => n | _ => 0 end.

Lemma neq_eqb_false err : err <> 0 -> (err =? 0) = false.
Proof. intros H. apply Z.eqb_neq. exact H. Qed.

(* reload: error code, then the fields counter and lastID after the call *)
Lemma src_reload g a cnt err : answers a cnt err ->
  go_SeqIDGen_reload (g_counter g) (g_last g) (g_step g) cnt err =
    (opt_err (fst (reload g a)) err, g_counter (snd (reload g a)), g_last (snd (reload g a))) /\
  g_step (snd (reload g a)) = g_step g.
Proof.
  intros H. unfold go_SeqIDGen_reload, reload. cbv zeta.
  destruct a as [c| |c]; cbn [answers] in H; cbv beta iota.
  - destruct H as [-> ->]. rewrite Z.eqb_refl. cbn [negb]. rewrite !int64_wrap.
    match goal with |- context [if (?x <? ?y) then _ else _] => destruct (x <? y) end;
      cbn [fst snd opt_err out_err g_counter g_last g_step]; split; reflexivity.
  - rewrite (neq_eqb_false _ H). cbn [negb fst snd opt_err out_err]. split; reflexivity.
  - rewrite (neq_eqb_false _ H). cbn [negb fst snd opt_err out_err]. split; reflexivity.
Qed.

(* Init: error code (nil = the model's OInitOk), counter, lastID *)
Lemma src_init g a cnt err : answers a cnt err ->
  go_SeqIDGen_Init (g_counter g) (g_last g) (g_step g) cnt err =
    (out_err (fst (init g a)) err, g_counter (snd (init g a)), g_last (snd (init g a))) /\
  g_step (snd (init g a)) = g_step g /\
  (fst (init g a) = OInitOk <-> fst (fst (go_SeqIDGen_Init (g_counter g) (g_last g) (g_step g) cnt err)) = 0).
Proof.
  intros H. unfold go_SeqIDGen_Init, init, go_SeqIDGen_reload, reload. cbv zeta.
  destruct a as [c| |c]; cbn [answers] in H; cbv beta iota.
  - destruct H as [-> ->]. rewrite Z.eqb_refl. cbn [negb]. rewrite !int64_wrap.
    match goal with |- context [if (?x <? ?y) then _ else _] => destruct (x <? y) end;
      cbv beta iota; cbn [fst snd out_err g_counter g_last g_step Z.eqb negb Pos.eqb];
      (split; [reflexivity | split; [reflexivity | split; intros E; try reflexivity; discriminate E]]).
  - rewrite (neq_eqb_false _ H). cbn [negb]. cbv beta iota. rewrite (neq_eqb_false _ H).
    cbn [negb fst snd out_err]. split; [reflexivity | split; [reflexivity | split; intros E; [discriminate E | contradiction]]].
  - rewrite (neq_eqb_false _ H). cbn [negb]. cbv beta iota. rewrite (neq_eqb_false _ H).
    cbn [negb fst snd out_err]. split; [reflexivity | split; [reflexivity | split; intros E; [discriminate E | contradiction]]].
Qed.

(* the whole of Next: (id, error code), then the fields lastID and counter after the call *)
Lemma src_next_whole g a cnt err : answers a cnt err ->
  go_SeqIDGen_Next (g_last g) (g_counter g) (g_step g) cnt err =
    (out_val (fst (next g a)), out_err (fst (next g a)) err,
     g_last (snd (next g a)), g_counter (snd (next g a))) /\
  g_step (snd (next g a)) = g_step g.
Proof.
  intros H. unfold go_SeqIDGen_Next, next, needs_reload, go_SeqIDGen_reload, reload. cbv zeta.
  rewrite !int64_wrap.
  match goal with |- context [if (?x <=? ?y) then _ else _] => destruct (x <=? y) end; cbn [negb].
  - cbn [fst snd out_val out_err g_last g_counter g_step]. split; reflexivity.
  - destruct a as [c| |c]; cbn [answers] in H; cbv beta iota.
    + destruct H as [-> ->]. rewrite Z.eqb_refl. cbn [negb]. rewrite !int64_wrap.
      match goal with |- context [if (?x <? ?y) then _ else _] => destruct (x <? y) end;
        cbv beta iota; cbn [fst snd out_val out_err g_counter g_last g_step Z.eqb negb Pos.eqb];
        rewrite ?int64_wrap; split; reflexivity.
    + rewrite (neq_eqb_false _ H). cbn [negb]. cbv beta iota. rewrite (neq_eqb_false _ H).
      cbn [negb fst snd out_val out_err]. split; reflexivity.
    + rewrite (neq_eqb_false _ H). cbn [negb]. cbv beta iota. rewrite (neq_eqb_false _ H).
      cbn [negb fst snd out_val out_err]. split; reflexivity.
Qed.

(* the store's answer matters to the translated Next exactly when the model says the store is
   asked (Model.step's `asked` flag is needs_reload) *)
Lemma src_next_store_unused g : needs_reload g = false ->
  forall c1 e1 c2 e2,
  go_SeqIDGen_Next (g_last g) (g_counter g) (g_step g) c1 e1 =
  go_SeqIDGen_Next (g_last g) (g_counter g) (g_step g) c2 e2.
Proof.
  unfold needs_reload, go_SeqIDGen_Next. cbv zeta. rewrite !int64_wrap. intros H c1 e1 c2 e2.
  match goal with |- context [if (?x <=? ?y) then _ else _] => destruct (x <=? y) end.
  - reflexivity.
  - discriminate H.
Qed.

(* every pair (counter, error) the store can return, no side condition *)
Lemma src_next_total g cnt err :
  go_SeqIDGen_Next (g_last g) (g_counter g) (g_step g) cnt err =
    (out_val (fst (next g (ans_of cnt err))), out_err (fst (next g (ans_of cnt err))) err,
     g_last (snd (next g (ans_of cnt err))), g_counter (snd (next g (ans_of cnt err)))).
Proof. exact (proj1 (src_next_whole g _ cnt err (answers_ans_of cnt err))). Qed.

Lemma src_init_total g cnt err :
  go_SeqIDGen_Init (g_counter g) (g_last g) (g_step g) cnt err =
    (out_err (fst (init g (ans_of cnt err))) err,
     g_counter (snd (init g (ans_of cnt err))), g_last (snd (init g (ans_of cnt err)))).
Proof. exact (proj1 (src_init g _ cnt err (answers_ans_of cnt err))). Qed.

(* Model.step on a live generator IS the translated methods: an EInit / ENext event leaves the
   slot with exactly the fields the translated Init / Next return, and its output is theirs *)
Lemma src_step_next w i sl a cnt err : w i = Some sl -> answers a cnt err ->
  let '(o, asked, w') := Model.step w (ENext i a) in
  let '(v, e, last', counter') :=
    go_SeqIDGen_Next (g_last (s_gen sl)) (g_counter (s_gen sl)) (g_step (s_gen sl)) cnt err in
  v = out_val o /\ e = out_err o err /\
  w' i = Some (mkSlot (mkGen (g_step (s_gen sl)) counter' last') (s_ready sl)) /\
  asked = needs_reload (s_gen sl).
Proof.
  intros Hw H. cbn [Model.step]. rewrite Hw.
  destruct (src_next_whole (s_gen sl) a cnt err H) as [E S]. rewrite E.
  destruct (next (s_gen sl) a) as [o g'] eqn:N. cbn [fst snd] in *.
  repeat split. unfold upd. rewrite Nat.eqb_refl. destruct g' as [s c l]. cbn [g_step g_counter g_last] in *.
  rewrite S. reflexivity.
Qed.

Lemma src_step_init w i sl a cnt err : w i = Some sl -> answers a cnt err ->
  let '(o, asked, w') := Model.step w (EInit i a) in
  let '(e, counter', last') :=
    go_SeqIDGen_Init (g_counter (s_gen sl)) (g_last (s_gen sl)) (g_step (s_gen sl)) cnt err in
  e = out_err o err /\ (o = OInitOk <-> e = 0) /\
  w' i = Some (mkSlot (mkGen (g_step (s_gen sl)) counter' last')
                      (match o with OInitOk => true | _ => s_ready sl end)) /\
  asked = true.
Proof.
  intros Hw H. cbn [Model.step]. rewrite Hw.
  destruct (src_init (s_gen sl) a cnt err H) as [E [S Z0]]. rewrite E in *.
  destruct (init (s_gen sl) a) as [o g'] eqn:N. cbn [fst snd] in *.
  split; [reflexivity|]. split; [exact Z0|]. split; [|reflexivity].
  unfold upd. rewrite Nat.eqb_refl. destruct g' as [s c l]. cbn [g_step g_counter g_last] in *.
  rewrite S. reflexivity.
Qed.
