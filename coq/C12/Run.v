(* C12 — correspondence: decode a case written by harness/cmd/c12, run the model on the
   same history, compare with what the implementation did (outputs, Len/Cap, head/tail,
   final buffer / block layout), and evaluate the property's executable form — the plain
   list of C12/Spec.v — on the implementation's own outputs.  Case formats: see the header
   of harness/cmd/c12/main.go.  Elements are [option Z] (None = Go's nil). *)
From Coq Require Import ZArith List Bool.
From FV Require Import Lib.Sx C12.Spec C12.Model.
Import ListNotations.
Open Scope Z_scope.

Definition E := option Z.
Definition e_eqb (a b : E) : bool :=
  match a, b with
  | None, None => true
  | Some x, Some y => x =? y
  | _, _ => false
  end.

Definition dec_elem (s : sx) : option E :=
  match s with
  | SInt v => Some (Some v)
  | SList [] => Some None
  | _ => None
  end.

(* ------------------------------------------------------------ deque *)
Definition dec_op (s : sx) : option (op E) :=
  match s with
  | SList [SInt 0; v] => match dec_elem v with Some a => Some (PushBack a) | None => None end
  | SList [SInt 1; v] => match dec_elem v with Some a => Some (PushFront a) | None => None end
  | SList [SInt 2] => Some PopFront
  | SList [SInt 3] => Some PopBack
  | SList [SInt 4] => Some Front
  | SList [SInt 5] => Some Back
  | SList [SInt 6; SInt i] => Some (At i)
  | SList [SInt 7; SInt i; v] => match dec_elem v with Some a => Some (SetAt i a) | None => None end
  | SList [SInt 8] => Some Clear
  | SList [SInt 9; SInt n] => Some (Rotate n)
  | SList [SInt 10; SInt e] => Some (SetMinCap e)
  | _ => None
  end.

(* one observed result: the outcome, then Len, Cap, head, tail after the call *)
Record dres := mkDres { r_out : out E; r_len : Z; r_cap : Z; r_head : Z; r_tail : Z }.

Definition dec_res (s : sx) : option dres :=
  match s with
  | SList [SInt k; v; SInt l; SInt c; SInt h; SInt t] =>
      match k, dec_elem v with
      | 0, _ => Some (mkDres ONone l c h t)
      | 1, Some a => Some (mkDres (OVal a) l c h t)
      | 2, _ => Some (mkDres OPanic l c h t)
      | 3, _ => Some (mkDres OCrash l c h t)
      | _, _ => None
      end
  | _ => None
  end.

Definition out_eqb (a b : out E) : bool :=
  match a, b with
  | ONone, ONone => true
  | OVal x, OVal y => e_eqb x y
  | OPanic, OPanic => true
  | OCrash, OCrash => true
  | _, _ => false
  end.

Definition is_pow2 (c : Z) : bool := (0 <? c) && (Z.land c (c - 1) =? 0).

(* the minimum in force after SetMinCapacity(e) (the property's "configured minimum") *)
Definition min_after (e : Z) : Z :=
  let v := shl1 e in if v >? 16 then v else 16.

(* the capacity sentence on the implementation's own Cap()/Len(), with the minimum currently
   configured [minc] and the capacity before the call [pcap]:
   always: Cap = 0 or a power of two >= 16 and >= Len;
   a call other than SetMinCapacity: allocates at >= minc, never shrinks below minc, keeps
   Cap >= minc once it holds;  SetMinCapacity: Cap unchanged *)
Definition cap_ok (is_set : bool) (minc pcap cap len : Z) : bool :=
  ((cap =? 0) || (is_pow2 cap && (16 <=? cap) && (len <=? cap))) &&
  (if is_set then cap =? pcap
   else ((negb (pcap =? 0)) || (cap =? 0) || (minc <=? cap)) &&
        ((pcap <=? cap) || (minc <=? cap)) &&
        (negb ((pcap =? 0) || (minc <=? pcap)) || (cap =? 0) || (minc <=? cap))).

(* walk the history: spec step vs observation (property codes 1..3) at every call; model
   step vs observation (mismatch codes 1..3) until the first mismatch, which is remembered
   in [first] while the walk goes on looking for a property failure (live = false: the
   model is no longer compared) *)
Fixpoint deque_walk (first : verdict) (live : bool) (d : deque) (l : list E) (minc pcap : Z)
         (ops : list (op E)) (rs : list dres) : verdict * bool * deque :=
  match ops, rs with
  | [], [] => (first, live, d)
  | o :: ops', r :: rs' =>
      let '(l1, so) := spec_step l o in
      let is_set := match o with SetMinCap _ => true | _ => false end in
      let minc1 := match o with SetMinCap e => min_after e | _ => minc end in
      let prop :=
        vjoin (check_that (out_eqb so (r_out r)) (VPropFail (match so with OPanic => 2 | _ => 1 end)))
       (vjoin (check_that (zlen l1 =? r_len r) (VPropFail 1))
              (check_that (cap_ok is_set minc pcap (r_cap r) (r_len r)) (VPropFail 3))) in
      match prop with
      | VOk =>
          if live then
            let '(d1, mo) := step None d o in
            let corr :=
              vjoin (check_that (out_eqb mo (r_out r)) (VMismatch 1))
             (vjoin (check_that ((count d1 =? r_len r) && (cap d1 =? r_cap r)) (VMismatch 2))
                    (check_that ((head d1 =? r_head r) && (tail d1 =? r_tail r)) (VMismatch 3))) in
            match corr with
            | VOk => deque_walk first true d1 l1 minc1 (r_cap r) ops' rs'
            | v => deque_walk v false d1 l1 minc1 (r_cap r) ops' rs'
            end
          else deque_walk first false d l1 minc1 (r_cap r) ops' rs'
      | v => (v, live, d)
      end
  | _, _ => (VBad, live, d)
  end.

Definition check_deque (ctor : list sx) (ops : list sx) (rs : list sx) (minc : Z) (bufv : list sx) : verdict :=
  match map_opt dec_op ops, map_opt dec_res rs, map_opt dec_elem bufv with
  | Some ops, Some rs, Some bufv =>
      let d0 := match ctor with
                | [] => Some zero_deque
                | [SInt c] => new_deque None c 0                     (* NewDeque(c) *)
                | [SInt c; SInt m] => new_deque None c m
                | [SInt c; SInt m; SInt _] => new_deque None c m     (* further arguments are ignored *)
                | [SInt _; SInt _; SInt _; SInt _] => new_deque None 0 0   (* NewDeque() *)
                | _ => None
                end in
      match d0 with
      | None => VBad
      | Some d0 =>
          (* the minimum capacity the property speaks about: the configured one (16 when
             none was configured) *)
          let minc_cfg := if minCap d0 =? 0 then 16 else minCap d0 in
          match deque_walk VOk true d0 [] minc_cfg (cap d0) ops rs with
          | (VOk, true, dn) =>
              vjoin (check_that (list_eqb e_eqb (buf dn) bufv) (VMismatch 4))
                    (check_that (minCap dn =? minc) (VMismatch 5))
          | (v, _, _) => v
          end
      end
  | _, _, _ => VBad
  end.

(* ------------------------------------------------------------ unbounded queues *)
Definition dec_uop (tagged : bool) (s : sx) : option (uop E) :=
  let body := match tagged, s with
              | true, SList (SInt _ :: r) => Some r
              | false, SList r => Some r
              | _, _ => None
              end in
  match body with
  | Some (SInt 0 :: v :: _) => match dec_elem v with Some a => Some (UPush a) | None => None end
  | Some (SInt 1 :: _) => Some UPop
  | Some (SInt 2 :: _) => Some UFront
  | Some (SInt 3 :: _) => Some ULen
  | Some (SInt 4 :: _) => Some UInit
  | _ => None
  end.

Record ures := mkUres { u_out : uout E; u_hp : Z; u_len : Z }.

Definition dec_ures (s : sx) : option ures :=
  match s with
  | SList [SInt k; v; SInt h; SInt l] =>
      match k, v with
      | 0, _ => Some (mkUres UONone h l)
      | 1, _ => match dec_elem v with Some a => Some (mkUres (UOVal a) h l) | None => None end
      | 2, _ => Some (mkUres UOEmpty h l)
      | 3, SInt z => Some (mkUres (UOInt z) h l)
      | 4, _ => Some (mkUres UOCrash h l)
      | _, _ => None
      end
  | _ => None
  end.

Definition uout_eqb (a b : uout E) : bool :=
  match a, b with
  | UONone, UONone => true
  | UOVal x, UOVal y => e_eqb x y
  | UOEmpty, UOEmpty => true
  | UOInt x, UOInt y => x =? y
  | UOCrash, UOCrash => true
  | _, _ => false
  end.

Fixpoint fifo_walk (first : verdict) (live : bool) (mf mi : Z) (q : uq) (l : list E)
         (ops : list (uop E)) (rs : list ures) : verdict * bool * uq :=
  match ops, rs with
  | [], [] => (first, live, q)
  | o :: ops', r :: rs' =>
      let '(l1, so) := fifo_step l o in
      let prop :=
        vjoin (check_that (uout_eqb so (u_out r)) (VPropFail 4))
              (check_that (zlen l1 =? u_len r) (VPropFail 4)) in
      match prop with
      | VOk =>
          if live then
            let '(q1, mo) := ustep None mf mi q o in
            let corr :=
              vjoin (check_that (uout_eqb mo (u_out r)) (VMismatch 6))
                    (check_that ((hp q1 =? u_hp r) && (qlen q1 =? u_len r)) (VMismatch 7)) in
            match corr with
            | VOk => fifo_walk first true mf mi q1 l1 ops' rs'
            | v => fifo_walk v false mf mi q1 l1 ops' rs'
            end
          else fifo_walk first false mf mi q l1 ops' rs'
      | v => (v, live, q)
      end
  | _, _ => (VBad, live, q)
  end.

Definition check_fifo (tagged : bool) (ops sizes rs probe : list sx) : verdict :=
  match map_opt (dec_uop tagged) ops, map_opt dec_ures rs, sizes, probe with
  | Some ops, Some rs, [SInt mf; SInt mi], [bl; SInt h; SInt l; SInt last] =>
      match sx_ints bl with
      | None => VBad
      | Some bl =>
          match fifo_walk VOk true mf mi uq_init [] ops rs with
          | (VOk, true, q) =>
              vjoin (check_that (list_eqb Z.eqb (map zlen (blocks q)) bl) (VMismatch 8))
                    (check_that ((hp q =? h) && (qlen q =? l) && ((lastSz q =? last))) (VMismatch 9))
          | (v, _, _) => v
          end
      end
  | _, _, _, _ => VBad
  end.

(* ------------------------------------------------------------ free-running stress
   P producers enqueue p*2^20+s for s = 0..n-1.  From the theorem (dequeued ++ remaining =
   enqueued in linearisation order, each consumer's results a subsequence of dequeued):
   for every producer p, the sequence numbers a single consumer received from p increase,
   those left in the queue increase and are larger than every one dequeued, and all
   together they are exactly 0..n-1, each once. *)
Definition prod_of (v : Z) : Z := Z.shiftr v 20.
Definition seq_of (v : Z) : Z := Z.land v (2 ^ 20 - 1).

Fixpoint increasing (l : list Z) : bool :=
  match l with
  | a :: ((b :: _) as r) => (a <? b) && increasing r
  | _ => true
  end.

Fixpoint insert_sorted (x : Z) (l : list Z) : list Z :=
  match l with
  | [] => [x]
  | y :: r => if x <=? y then x :: l else y :: insert_sorted x r
  end.
Definition sort (l : list Z) : list Z := fold_right insert_sorted [] l.

(* merge of increasing lists is cheaper than sorting their concatenation *)
Fixpoint merge_fuel (fuel : nat) (a b : list Z) : list Z :=
  match fuel with
  | O => a ++ b
  | S f => match a, b with
           | [], _ => b
           | _, [] => a
           | x :: a', y :: b' => if x <=? y then x :: merge_fuel f a' b else y :: merge_fuel f a b'
           end
  end.
Definition merge (a b : list Z) : list Z := merge_fuel (length a + length b) a b.

Definition zrange (n : Z) : list Z := map Z.of_nat (seq 0 (Z.to_nat n)).

Definition of_prod (p : Z) (l : list Z) : list Z := map seq_of (filter (fun v => prod_of v =? p) l).

Definition check_stress (P n : Z) (consumers : list (list Z)) (rest : list Z) : verdict :=
  let per_p (p : Z) : verdict :=
    let cs := map (of_prod p) consumers in
    let r := of_prod p rest in
    let deq := fold_right merge [] cs in
    vjoin (check_that (forallb increasing cs && increasing r) (VPropFail 6))
          (check_that (list_eqb Z.eqb (deq ++ r) (zrange n)) (VPropFail 5)) in
  let others := filter (fun v => negb ((0 <=? prod_of v) && (prod_of v <? P))) (concat consumers ++ rest) in
  fold_right vjoin (check_that (match others with [] => true | _ => false end) (VPropFail 5))
             (map per_p (zrange P)).

(* a nil element (never enqueued by the stress scenario) decodes to -1, which fails the checks *)
Definition dec_vals (s : sx) : option (list Z) :=
  match s with
  | SList l => map_opt (fun x => match x with SInt v => Some v | SList [] => Some (-1) | _ => None end) l
  | _ => None
  end.

(* ------------------------------------------------------------ dispatch *)
Definition check (c : sx) : verdict :=
  match c with
  | SList [SList [SInt 0; SList ctor; SList ops]; SList [SList rs; SList [SInt minc; SList bufv]]] =>
      check_deque ctor ops rs minc bufv
  | SList [SList [SInt 1; SList ops]; SList [SList sizes; SList rs; SList probe]] =>
      check_fifo false ops sizes rs probe
  | SList [SList [SInt 2; SInt _; SList sched]; SList [SList sizes; SList rs; SList probe]] =>
      check_fifo true sched sizes rs probe
  | SList [SList [SInt 3; SInt P; SInt C; SInt n]; SList [SList consumers; rest; SInt panics]] =>
      (* panics: calls that ended in a run-time panic; -1: the goroutines dead-locked *)
      if negb (panics =? 0) then VPropFail 7
      else
      match map_opt dec_vals consumers, dec_vals rest with
      | Some cs, Some r => check_stress P n cs r
      | _, _ => VBad
      end
  | SList [SList [SInt 4; SInt P; SInt C; SInt n]; SList [SList consumers; rest; SInt panics]] =>
      (* panics: calls that ended in a run-time panic; -1: the goroutines dead-locked *)
      if negb (panics =? 0) then VPropFail 7
      else
      match map_opt dec_vals consumers, dec_vals rest with
      | Some cs, Some r => check_stress P (2 * n) cs r
      | _, _ => VBad
      end
  | _ => VBad
  end.
