(* C12 — the unbounded block queue refines the plain FIFO list, for every block-size
   configuration; consequences for sequential histories and for schedules of the
   mutex-protected variant. *)
From Coq Require Import ZArith List Bool Lia.
From FV Require Import C12.Spec C12.Model C12.ListZ.
Import ListNotations.
Open Scope Z_scope.

Section Queue.
Context {A : Type}.
Variable nilv : A.
Variables maxFirst maxInternal : Z.

Notation uq := (@uq A).

(* invariant: no empty block; the head index points into the head block; the recorded
   length is the number of elements held *)
Definition uwf (q : uq) : Prop :=
  Forall (fun b => b <> []) (blocks q) /\
  match blocks q with
  | [] => hp q = 0
  | b :: _ => 0 <= hp q < zlen b
  end /\
  qlen q = zlen (ucontents q).

Lemma uwf_init : uwf uq_init.
Proof. repeat split; simpl; auto. Qed.

Lemma push_blocks_concat (bs : list (list A)) v s :
  concat (fst (push_blocks bs v s)) = concat bs ++ [v].
Proof.
  induction bs as [|b r IH]; simpl.
  - reflexivity.
  - destruct r as [|b2 r2].
    + destruct (zlen b >=? s); simpl; rewrite ?app_nil_r; reflexivity.
    + destruct (push_blocks (b2 :: r2) v s) as [r' fresh] eqn:E. simpl in *.
      rewrite IH, app_assoc. reflexivity.
Qed.

Lemma push_blocks_nonempty (bs : list (list A)) v s :
  Forall (fun b => b <> []) bs -> Forall (fun b => b <> []) (fst (push_blocks bs v s)).
Proof.
  induction bs as [|b r IH]; intros H; simpl.
  - constructor; [discriminate|constructor].
  - inversion H as [|? ? Hb Hr]; subst.
    destruct r as [|b2 r2].
    + destruct (zlen b >=? s); simpl.
      * constructor; [assumption|]. constructor; [discriminate|constructor].
      * constructor; [|constructor]. destruct b; discriminate.
    + destruct (push_blocks (b2 :: r2) v s) as [r' fresh] eqn:E. simpl in *.
      constructor; [assumption|]. apply IH. assumption.
Qed.

(* the head block keeps its elements as a prefix *)
Lemma push_blocks_head (b : list A) r v s :
  exists b' r', fst (push_blocks (b :: r) v s) = b' :: r' /\ zlen b <= zlen b'.
Proof.
  simpl. destruct r as [|b2 r2].
  - destruct (zlen b >=? s); simpl; eexists; eexists; split; try reflexivity; try lia.
    rewrite zlen_app. pose proof (zlen_nonneg [v]). lia.
  - destruct (push_blocks (b2 :: r2) v s) as [r' fresh]. simpl.
    eexists; eexists; split; [reflexivity|lia].
Qed.

Lemma skipn_app_le {X} (l1 l2 : list X) n : (n <= length l1)%nat -> skipn n (l1 ++ l2) = skipn n l1 ++ l2.
Proof.
  intros H. rewrite skipn_app. replace (n - length l1)%nat with 0%nat by lia. reflexivity.
Qed.

Lemma upush_refines q v :
  uwf q -> uwf (upush maxFirst maxInternal q v) /\
           ucontents (upush maxFirst maxInternal q v) = ucontents q ++ [v].
Proof.
  intros (Hne & Hhp & Hlen). unfold upush.
  destruct (blocks q) as [|b r] eqn:Eb.
  - assert (Hq : qlen q = 0).
    { rewrite Hlen. unfold ucontents. rewrite Eb. simpl. rewrite skipn_nil. reflexivity. }
    unfold uwf, ucontents. simpl. rewrite Eb, Hhp. simpl.
    split; [split; [|split]|].
    + constructor; [discriminate|constructor].
    + unfold zlen. simpl. lia.
    + rewrite Hq. reflexivity.
    + reflexivity.
  - destruct (push_blocks (b :: r) v (lastSz q)) as [bs' fresh] eqn:Ep.
    pose proof (push_blocks_concat (b :: r) v (lastSz q)) as Hc.
    pose proof (push_blocks_nonempty (b :: r) v (lastSz q) Hne) as Hn.
    destruct (push_blocks_head b r v (lastSz q)) as (b' & r' & Hh & Hle).
    rewrite Ep in Hc, Hn, Hh. simpl in Hc, Hn, Hh. subst bs'.
    assert (Hcont : skipn (Z.to_nat (hp q)) (concat (b' :: r')) = ucontents q ++ [v]).
    { rewrite Hc. unfold ucontents. rewrite Eb. apply skipn_app_le.
      simpl. rewrite app_length. unfold zlen in Hhp. lia. }
    simpl in Hcont. unfold uwf, ucontents. simpl.
    split; [split; [|split]|].
    + assumption.
    + lia.
    + rewrite Hcont. rewrite zlen_app, Hlen. reflexivity.
    + exact Hcont.
Qed.

Lemma nth_error_skipn_cons {X} (l : list X) n x :
  nth_error l n = Some x -> skipn n l = x :: skipn (S n) l.
Proof.
  revert n. induction l as [|y l IH]; intros [|n] H; simpl in *; try discriminate.
  - injection H as ->. reflexivity.
  - apply IH. assumption.
Qed.

Lemma skipn_upd_after (l : list A) n v : skipn (S n) (upd l n v) = skipn (S n) l.
Proof.
  revert n. induction l as [|y l IH]; intros [|n]; simpl; auto.
  apply IH.
Qed.

Lemma upop_refines q :
  uwf q ->
  let '(q', o) := upop nilv q in
  uwf q' /\
  match ucontents q with
  | [] => o = UOEmpty /\ ucontents q' = []
  | x :: r => o = UOVal x /\ ucontents q' = r
  end.
Proof.
  intros (Hne & Hhp & Hlen). unfold upop.
  destruct (blocks q) as [|b r] eqn:Eb.
  - unfold ucontents. rewrite Eb. simpl. rewrite skipn_nil. repeat split; auto.
    + rewrite Eb. assumption.
    + rewrite Eb. assumption.
  - destruct (getz_some b (hp q) Hhp) as [v Hv].
    rewrite Hv, (setz_some b (hp q) nilv Hhp).
    assert (Hnth : nth_error b (Z.to_nat (hp q)) = Some v) by (rewrite <- getz_nth by lia; exact Hv).
    assert (Hc : ucontents q = v :: skipn (S (Z.to_nat (hp q))) b ++ concat r).
    { unfold ucontents. rewrite Eb. simpl.
      rewrite skipn_app_le by (unfold zlen in Hhp; lia).
      rewrite (nth_error_skipn_cons _ _ _ Hnth). reflexivity. }
    rewrite Hc. rewrite zlen_upd.
    inversion Hne as [|? ? Hb Hr]; subst.
    destruct (Z.geb_spec (hp q + 1) (zlen b)) as [Hge|Hlt].
    + (* the head block is exhausted *)
      assert (Hs : skipn (S (Z.to_nat (hp q))) b = []).
      { apply skipn_all2. unfold zlen in *. lia. }
      rewrite Hs in Hc. rewrite Hs. cbn [app].
      unfold uwf, ucontents. cbn [blocks hp qlen lastSz].
      change (skipn (Z.to_nat 0) (concat r)) with (concat r).
      split; [split; [|split]|split; reflexivity].
      * assumption.
      * destruct r as [|b2 r2]; [reflexivity|].
        inversion Hr as [|? ? Hb2 _]; subst.
        destruct b2; [congruence|]. rewrite zlen_cons. pose proof (zlen_nonneg b2). lia.
      * rewrite Hlen, Hc. cbn [app]. rewrite zlen_cons. lia.
    + assert (Hcont : skipn (Z.to_nat (hp q + 1)) (concat (upd b (Z.to_nat (hp q)) nilv :: r))
                      = skipn (S (Z.to_nat (hp q))) b ++ concat r).
      { replace (Z.to_nat (hp q + 1)) with (S (Z.to_nat (hp q))) by lia.
        cbn [concat].
        rewrite skipn_app_le by (rewrite upd_length; unfold zlen in *; lia).
        rewrite skipn_upd_after. reflexivity. }
      unfold uwf, ucontents. cbn [blocks hp qlen lastSz].
      split; [split; [|split]|split; [reflexivity|exact Hcont]].
      * constructor; [|assumption]. intros E. apply (f_equal (@length A)) in E.
        rewrite upd_length in E. destruct b; [congruence|discriminate].
      * rewrite zlen_upd. lia.
      * rewrite Hcont. rewrite Hlen, Hc. rewrite zlen_cons. lia.
Qed.

Lemma ufront_refines q :
  uwf q ->
  ufront q = match ucontents q with [] => UOEmpty | x :: _ => UOVal x end.
Proof.
  intros (Hne & Hhp & Hlen). unfold ufront, ucontents.
  destruct (blocks q) as [|b r] eqn:Eb.
  - simpl. rewrite skipn_nil. reflexivity.
  - destruct (getz_some b (hp q) Hhp) as [v Hv]. rewrite Hv.
    assert (Hnth : nth_error b (Z.to_nat (hp q)) = Some v) by (rewrite <- getz_nth by lia; exact Hv).
    simpl. rewrite skipn_app_le by (unfold zlen in Hhp; lia).
    rewrite (nth_error_skipn_cons _ _ _ Hnth). reflexivity.
Qed.

(* one call: same answer as the list, and the abstraction follows *)
Lemma ustep_refines q o :
  uwf q ->
  let '(q', x) := ustep nilv maxFirst maxInternal q o in
  let '(l', y) := fifo_step (ucontents q) o in
  uwf q' /\ x = y /\ ucontents q' = l'.
Proof.
  intros Hwf. destruct o as [a| | | |]; simpl.
  - destruct (upush_refines q a Hwf) as [H1 H2]. auto.
  - pose proof (upop_refines q Hwf) as H.
    destruct (upop nilv q) as [q' o]. destruct H as [H1 H2].
    destruct (ucontents q) as [|x r]; destruct H2 as [-> H3]; auto.
  - rewrite (ufront_refines q Hwf). destruct (ucontents q); auto.
  - destruct Hwf as (H1 & H2 & H3). rewrite H3. repeat split; auto.
  - split; [|split; reflexivity]. unfold uwf, uinit, ucontents. cbn. repeat split; auto.
Qed.

Lemma urun_refines ops : forall q,
  uwf q ->
  let '(q', xs) := urun nilv maxFirst maxInternal q ops in
  let '(l', ys) := fifo_run (ucontents q) ops in
  uwf q' /\ xs = ys /\ ucontents q' = l'.
Proof.
  induction ops as [|o ops IH]; intros q Hwf; simpl.
  - auto.
  - pose proof (ustep_refines q o Hwf) as Hs.
    destruct (ustep nilv maxFirst maxInternal q o) as [q1 x].
    destruct (fifo_step (ucontents q) o) as [l1 y].
    destruct Hs as (Hwf1 & -> & <-).
    specialize (IH q1 Hwf1).
    destruct (urun nilv maxFirst maxInternal q1 ops) as [q2 xs].
    destruct (fifo_run (ucontents q1) ops) as [l2 ys].
    destruct IH as (Hwf2 & -> & <-). auto.
Qed.

(* on the plain list: what was there + what was pushed = what was popped + what is left *)
Lemma fifo_conservation (ops : list (uop A)) : ~ In UInit ops -> forall l0,
  let '(l, outs) := fifo_run l0 ops in
  l0 ++ pushed ops = popped ops outs ++ l.
Proof.
  induction ops as [|o ops IH]; intros Hni l0; simpl.
  - rewrite app_nil_r. reflexivity.
  - assert (Hni' : ~ In UInit ops) by (intros H; apply Hni; right; exact H).
    specialize (IH Hni').
    destruct o as [a| | | |]; simpl.
    + specialize (IH (l0 ++ [a])). destruct (fifo_run (l0 ++ [a]) ops) as [l outs].
      rewrite <- IH, <- app_assoc. reflexivity.
    + destruct l0 as [|x r].
      * specialize (IH []). destruct (fifo_run [] ops) as [l outs]. exact IH.
      * specialize (IH r). destruct (fifo_run r ops) as [l outs]. simpl. rewrite IH. reflexivity.
    + destruct l0 as [|x r].
      * specialize (IH []). destruct (fifo_run [] ops) as [l outs]. exact IH.
      * specialize (IH (x :: r)). destruct (fifo_run (x :: r) ops) as [l outs]. exact IH.
    + specialize (IH l0). destruct (fifo_run l0 ops) as [l outs]. exact IH.
    + exfalso. apply Hni. left. reflexivity.
Qed.

Theorem unbounded_refines_fifo (ops : list (uop A)) :
  let '(q, outs) := urun nilv maxFirst maxInternal uq_init ops in
  let '(l, souts) := fifo_run [] ops in
  outs = souts /\ ucontents q = l /\ qlen q = zlen l.
Proof.
  pose proof (urun_refines ops uq_init uwf_init) as H.
  destruct (urun nilv maxFirst maxInternal uq_init ops) as [q outs].
  change (ucontents uq_init) with (@nil A) in H.
  destruct (fifo_run [] ops) as [l souts].
  destruct H as ((_ & _ & Hl) & -> & <-). auto.
Qed.

Theorem unbounded_exactly_once (ops : list (uop A)) :
  ~ In UInit ops ->
  let '(q, outs) := urun nilv maxFirst maxInternal uq_init ops in
  popped ops outs ++ ucontents q = pushed ops.
Proof.
  intros Hni. pose proof (unbounded_refines_fifo ops) as H.
  pose proof (fifo_conservation ops Hni []) as Hc.
  destruct (urun nilv maxFirst maxInternal uq_init ops) as [q outs].
  destruct (fifo_run [] ops) as [l souts].
  destruct H as (-> & -> & _). simpl in Hc. symmetry. exact Hc.
Qed.

(* no call ever hits a run-time error *)
Lemma fifo_no_crash (ops : list (uop A)) : forall l0, ~ In UOCrash (snd (fifo_run l0 ops)).
Proof.
  induction ops as [|o ops IH]; intros l0; simpl.
  - auto.
  - destruct (fifo_step l0 o) as [l1 y] eqn:E1.
    specialize (IH l1). destruct (fifo_run l1 ops) as [l2 ys]. simpl in *.
    intros [H|H]; [|auto].
    destruct o; simpl in E1; try destruct l0; inversion E1; subst; discriminate.
Qed.

Theorem unbounded_no_crash (ops : list (uop A)) :
  ~ In UOCrash (snd (urun nilv maxFirst maxInternal uq_init ops)).
Proof.
  pose proof (unbounded_refines_fifo ops) as H.
  pose proof (fifo_no_crash ops []) as Hc.
  destruct (urun nilv maxFirst maxInternal uq_init ops) as [q outs].
  destruct (fifo_run [] ops) as [l souts].
  destruct H as (-> & _). exact Hc.
Qed.

(* ---------------------------------------------------------------- schedules *)
(* calls of a schedule made by goroutine p / elements enqueued by a schedule *)
Definition calls_of (p : Z) (sched : list (Z * uop A)) : list (uop A) :=
  map snd (filter (fun ta => fst ta =? p) sched).

(* the concurrent type has no Init method: its schedules consist of Enqueue / Dequeue /
   Peek / Len calls *)
Definition no_init (sched : list (Z * uop A)) : Prop := forall t, ~ In (t, UInit) sched.

Theorem concurrent_conservation (sched : list (Z * uop A)) :
  no_init sched ->
  let '(q, outs) := crun nilv maxFirst maxInternal uq_init sched in
  popped (map snd sched) outs ++ ucontents q = pushed (map snd sched).
Proof.
  intros Hni. unfold crun. apply unbounded_exactly_once.
  intros H. apply in_map_iff in H. destruct H as ([t o] & Ho & Hin). simpl in Ho. subst o.
  exact (Hni t Hin).
Qed.

Lemma pushed_filter (owner : A -> Z) p (sched : list (Z * uop A)) :
  (forall t a, In (t, UPush a) sched -> owner a = t) ->
  filter (fun a => owner a =? p) (pushed (map snd sched)) = pushed (calls_of p sched).
Proof.
  unfold calls_of. induction sched as [|[t o] r IH]; intros Hown; simpl.
  - reflexivity.
  - assert (Hr : forall t a, In (t, UPush a) r -> owner a = t) by (intros; apply Hown; right; assumption).
    specialize (IH Hr).
    destruct o as [a| | | |]; simpl.
    + rewrite (Hown t a (or_introl eq_refl)).
      destruct (t =? p); simpl; rewrite IH; reflexivity.
    + destruct (t =? p); simpl; exact IH.
    + destruct (t =? p); simpl; exact IH.
    + destruct (t =? p); simpl; exact IH.
    + destruct (t =? p); simpl; exact IH.
Qed.

(* each producer's elements come out (and stay queued) in the order that producer
   enqueued them, none missing, none twice *)
Theorem concurrent_producer_order (owner : A -> Z) (sched : list (Z * uop A)) p :
  no_init sched ->
  (forall t a, In (t, UPush a) sched -> owner a = t) ->
  let '(q, outs) := crun nilv maxFirst maxInternal uq_init sched in
  filter (fun a => owner a =? p) (popped (map snd sched) outs)
    ++ filter (fun a => owner a =? p) (ucontents q)
  = pushed (calls_of p sched).
Proof.
  intros Hni Hown. pose proof (concurrent_conservation sched Hni) as H.
  destruct (crun nilv maxFirst maxInternal uq_init sched) as [q outs].
  rewrite <- filter_app, H. apply pushed_filter. assumption.
Qed.

(* ---------------------------------------------------------------- each consumer's view *)
(* l1 is a subsequence of l2 (same relative order, possibly with gaps) *)
Inductive subseq : list A -> list A -> Prop :=
| subseq_nil : forall l, subseq [] l
| subseq_take : forall x l1 l2, subseq l1 l2 -> subseq (x :: l1) (x :: l2)
| subseq_skip : forall x l1 l2, subseq l1 l2 -> subseq l1 (x :: l2).

Lemma subseq_refl l : subseq l l.
Proof. induction l; constructor; assumption. Qed.

Lemma subseq_filter (f : A -> bool) l1 l2 : subseq l1 l2 -> subseq (filter f l1) (filter f l2).
Proof.
  induction 1 as [l|x l1 l2 _ IH|x l1 l2 _ IH]; simpl.
  - constructor.
  - destruct (f x); [constructor|]; assumption.
  - destruct (f x); [apply subseq_skip|]; assumption.
Qed.

Lemma subseq_app_r l1 l2 l3 : subseq l1 l2 -> subseq l1 (l2 ++ l3).
Proof.
  induction 1 as [l|x l1 l2 _ IH|x l1 l2 _ IH]; simpl; constructor; assumption.
Qed.

(* the elements goroutine c received from its own Dequeue calls, in the order it received them *)
Fixpoint received (c : Z) (sched : list (Z * uop A)) (outs : list (uout A)) : list A :=
  match sched, outs with
  | (t, UPop) :: r, UOVal a :: s => if t =? c then a :: received c r s else received c r s
  | _ :: r, _ :: s => received c r s
  | _, _ => []
  end.

Lemma received_subseq c (sched : list (Z * uop A)) : forall outs,
  subseq (received c sched outs) (popped (map snd sched) outs).
Proof.
  induction sched as [|[t o] r IH]; intros outs; simpl.
  - constructor.
  - destruct outs as [|y s]; [destruct o; constructor|].
    destruct o; simpl; try apply IH.
    destruct y; simpl; try apply IH.
    destruct (t =? c); [apply subseq_take|apply subseq_skip]; apply IH.
Qed.

(* what one consumer received from one producer is a subsequence of that producer's Enqueue
   calls: each consumer sees every producer's elements in the order they were enqueued *)
Theorem concurrent_consumer_view (owner : A -> Z) (sched : list (Z * uop A)) p c :
  no_init sched ->
  (forall t a, In (t, UPush a) sched -> owner a = t) ->
  let '(q, outs) := crun nilv maxFirst maxInternal uq_init sched in
  subseq (filter (fun a => owner a =? p) (received c sched outs)) (pushed (calls_of p sched)).
Proof.
  intros Hni Hown. pose proof (concurrent_producer_order owner sched p Hni Hown) as H.
  destruct (crun nilv maxFirst maxInternal uq_init sched) as [q outs].
  rewrite <- H. apply subseq_app_r. apply subseq_filter. apply received_subseq.
Qed.

End Queue.
