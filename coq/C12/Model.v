(* C12 — executable model of collections/queue/{deque,unbounded,unbounded_concurrent}.go.
   Nothing is proved in this file.

   Go's int is modelled as Z (lengths are bounded by memory, far below 2^63); a slot of
   type interface{} is a value of an arbitrary type A with a distinguished [nilv] (Go's
   nil).  Slice indexing / slicing out of range and loops that would not terminate are
   explicit: the operation then yields OCrash (Go: run-time panic / hang).  Explicit
   panic("deque: ...") calls yield OPanic.  minCapacity comes from Generated/Consts.v. *)
From Coq Require Import ZArith List Bool.
From FV Require Import Generated.Consts C12.Spec.
Import ListNotations.
Open Scope Z_scope.

Section Model.
Context {A : Type}.
Variable nilv : A.

Definition bind {X Y} (x : option X) (f : X -> option Y) : option Y :=
  match x with Some v => f v | None => None end.
Notation "x <- e ;; f" := (bind e (fun x => f)) (at level 61, e at next level, right associativity).

(* s[i] ; s[i] = v ; s[a:b] ; copy(dst, src) ; make([]interface{}, n) *)
Definition getz (l : list A) (i : Z) : option A :=
  if (0 <=? i) && (i <? zlen l) then nth_error l (Z.to_nat i) else None.
Definition setz (l : list A) (i : Z) (v : A) : option (list A) :=
  if (0 <=? i) && (i <? zlen l) then Some (upd l (Z.to_nat i) v) else None.
Definition slice (l : list A) (a b : Z) : option (list A) :=
  if (0 <=? a) && (a <=? b) && (b <=? zlen l)
  then Some (firstn (Z.to_nat (b - a)) (skipn (Z.to_nat a) l)) else None.
Definition copy_into (dst src : list A) : list A :=
  let n := Nat.min (length dst) (length src) in firstn n src ++ skipn n dst.
Definition make (n : Z) : option (list A) :=
  if 0 <=? n then Some (repeat nilv (Z.to_nat n)) else None.

(* ------------------------------------------------------------------ deque.go *)
Record deque : Type := mkDeque {
  buf : list A; head : Z; tail : Z; count : Z; minCap : Z }.

Definition cap (d : deque) : Z := zlen (buf d).

(* NewDeque(size ...int): "for minCap < minimum { minCap <<= 1 }" — 64 doublings exhaust
   an int64, so the loop is given that much fuel; None = the loop does not end *)
Fixpoint round_up (fuel : nat) (x target : Z) : option Z :=
  if x <? target then
    match fuel with O => None | S f => round_up f (2 * x) target end
  else Some x.

Definition zero_deque : deque := mkDeque [] 0 0 0 0.

Definition new_deque (capacity minimum : Z) : option deque :=
  m <- round_up 64 collections_queue_minCapacity minimum ;;
  if capacity =? 0 then Some (mkDeque [] 0 0 0 m)
  else
    sz <- round_up 64 m capacity ;;
    b <- make sz ;;
    Some (mkDeque b 0 0 0 m).

(* (i ± 1) & (len(q.buf) - 1) *)
Definition mask (d : deque) (x : Z) : Z := Z.land x (cap d - 1).
Definition next (d : deque) (i : Z) : Z := mask d (i + 1).
Definition prev (d : deque) (i : Z) : Z := mask d (i - 1).

(* resize(): newBuf := make(count<<1); copy the live window; head = 0; tail = count *)
Definition resize (d : deque) : option deque :=
  newBuf <- make (count d * 2) ;;
  if tail d >? head d then
    s <- slice (buf d) (head d) (tail d) ;;
    Some (mkDeque (copy_into newBuf s) 0 (count d) (count d) (minCap d))
  else
    s1 <- slice (buf d) (head d) (cap d) ;;
    s2 <- slice (buf d) 0 (tail d) ;;
    let n := Nat.min (length newBuf) (length s1) in
    let b1 := copy_into newBuf s1 in
    Some (mkDeque (firstn n b1 ++ copy_into (skipn n b1) s2) 0 (count d) (count d) (minCap d)).

Definition grow_if_full (d : deque) : option deque :=
  if negb (count d =? cap d) then Some d
  else if cap d =? 0 then
    let m := if minCap d =? 0 then collections_queue_minCapacity else minCap d in
    b <- make m ;;
    Some (mkDeque b (head d) (tail d) (count d) m)
  else resize d.

Definition shrink_if_excess (d : deque) : option deque :=
  if (cap d >? minCap d) && (count d * 4 =? cap d) then resize d else Some d.

Definition push_back (d : deque) (a : A) : option deque :=
  d1 <- grow_if_full d ;;
  b <- setz (buf d1) (tail d1) a ;;
  Some (mkDeque b (head d1) (next d1 (tail d1)) (count d1 + 1) (minCap d1)).

Definition push_front (d : deque) (a : A) : option deque :=
  d1 <- grow_if_full d ;;
  let h := prev d1 (head d1) in
  b <- setz (buf d1) h a ;;
  Some (mkDeque b h (tail d1) (count d1 + 1) (minCap d1)).

Definition pop_front (d : deque) : option (deque * A) :=
  ret <- getz (buf d) (head d) ;;
  b <- setz (buf d) (head d) nilv ;;
  d2 <- shrink_if_excess (mkDeque b (next d (head d)) (tail d) (count d - 1) (minCap d)) ;;
  Some (d2, ret).

Definition pop_back (d : deque) : option (deque * A) :=
  let t := prev d (tail d) in
  ret <- getz (buf d) t ;;
  b <- setz (buf d) t nilv ;;
  d2 <- shrink_if_excess (mkDeque b (head d) t (count d - 1) (minCap d)) ;;
  Some (d2, ret).

(* Clear(): for h := head; h != tail; h = (h+1) & modBits { buf[h] = nil }.
   fuel = len(buf)+1 iterations; None = index out of range or the loop does not end *)
Fixpoint clear_loop (fuel : nat) (b : list A) (h t modBits : Z) : option (list A) :=
  if h =? t then Some b
  else match fuel with
       | O => None
       | S f => b1 <- setz b h nilv ;; clear_loop f b1 (Z.land (h + 1) modBits) t modBits
       end.

Definition clear (d : deque) : option deque :=
  b <- clear_loop (S (length (buf d))) (buf d) (head d) (tail d) (cap d - 1) ;;
  Some (mkDeque b 0 0 0 (minCap d)).

(* Rotate(n): the two element-moving loops, k iterations each *)
Fixpoint rot_back_to_front (k : nat) (b : list A) (h t modBits : Z) : option (list A * Z * Z) :=
  match k with
  | O => Some (b, h, t)
  | S k' =>
      let h1 := Z.land (h - 1) modBits in
      let t1 := Z.land (t - 1) modBits in
      x <- getz b t1 ;;
      b1 <- setz b h1 x ;;
      b2 <- setz b1 t1 nilv ;;
      rot_back_to_front k' b2 h1 t1 modBits
  end.

Fixpoint rot_front_to_back (k : nat) (b : list A) (h t modBits : Z) : option (list A * Z * Z) :=
  match k with
  | O => Some (b, h, t)
  | S k' =>
      x <- getz b h ;;
      b1 <- setz b t x ;;
      b2 <- setz b1 h nilv ;;
      rot_front_to_back k' b2 (Z.land (h + 1) modBits) (Z.land (t + 1) modBits) modBits
  end.

Definition rotate (d : deque) (n0 : Z) : option deque :=
  if count d <=? 1 then Some d
  else
    let n := Z.rem n0 (count d) in          (* Go's % truncates towards zero *)
    if n =? 0 then Some d
    else
      let modBits := cap d - 1 in
      if head d =? tail d then
        Some (mkDeque (buf d) (Z.land (head d + n) modBits) (Z.land (tail d + n) modBits)
                      (count d) (minCap d))
      else
        r <- (if n <? 0 then rot_back_to_front (Z.to_nat (- n)) (buf d) (head d) (tail d) modBits
              else rot_front_to_back (Z.to_nat n) (buf d) (head d) (tail d) modBits) ;;
        let '(b, h, t) := r in
        Some (mkDeque b h t (count d) (minCap d)).

(* SetMinCapacity(minCapacityExp uint): "if 1<<minCapacityExp > minCapacity { q.minCap = 1 <<
   minCapacityExp } else { q.minCap = minCapacity }".  The shift is done in int (64 bits):
   1<<63 is negative and 1<<e is 0 for e >= 64, so those exponents select minCapacity. *)
Definition shl1 (e : Z) : Z :=
  if (0 <=? e) && (e <? 63) then 2 ^ e else if e =? 63 then - 2 ^ 63 else 0.

Definition set_min_cap (d : deque) (e : Z) : deque :=
  mkDeque (buf d) (head d) (tail d) (count d)
          (if shl1 e >? collections_queue_minCapacity then shl1 e else collections_queue_minCapacity).

Definition crash_or {X} (d : deque) (r : option X) (f : X -> deque * out A) : deque * out A :=
  match r with Some x => f x | None => (d, OCrash) end.

Definition step (d : deque) (o : op A) : deque * out A :=
  match o with
  | PushBack a => crash_or d (push_back d a) (fun d' => (d', ONone))
  | PushFront a => crash_or d (push_front d a) (fun d' => (d', ONone))
  | PopFront => if count d <=? 0 then (d, OPanic)
                else crash_or d (pop_front d) (fun r => (fst r, OVal (snd r)))
  | PopBack => if count d <=? 0 then (d, OPanic)
               else crash_or d (pop_back d) (fun r => (fst r, OVal (snd r)))
  | Front => if count d <=? 0 then (d, OPanic)
             else crash_or d (getz (buf d) (head d)) (fun x => (d, OVal x))
  | Back => if count d <=? 0 then (d, OPanic)
            else crash_or d (getz (buf d) (prev d (tail d))) (fun x => (d, OVal x))
  | At i => if (i <? 0) || (i >=? count d) then (d, OPanic)
            else crash_or d (getz (buf d) (mask d (head d + i))) (fun x => (d, OVal x))
  | SetAt i a => if (i <? 0) || (i >=? count d) then (d, OPanic)
                 else crash_or d (setz (buf d) (mask d (head d + i)) a)
                        (fun b => (mkDeque b (head d) (tail d) (count d) (minCap d), ONone))
  | Clear => crash_or d (clear d) (fun d' => (d', ONone))
  | Rotate n => crash_or d (rotate d n) (fun d' => (d', ONone))
  | SetMinCap e => (set_min_cap d e, ONone)
  end.

Fixpoint run (d : deque) (ops : list (op A)) : deque * list (out A) :=
  match ops with
  | [] => (d, [])
  | o :: r => let '(d1, x) := step d o in
              let '(d2, xs) := run d1 r in (d2, x :: xs)
  end.

(* what the deque holds, front to back: buf[(head+i) & (cap-1)] for i < count *)
Definition contents (d : deque) : list A :=
  map (fun i => match getz (buf d) (mask d (head d + Z.of_nat i)) with Some x => x | None => nilv end)
      (seq 0 (Z.to_nat (count d))).

(* ------------------------------------------------------------------ unbounded.go *)
(* the linked blocks from q.head on (q.head == nil <-> no block; q.tail = the last one) *)
Record uq : Type := mkUq { blocks : list (list A); hp : Z; qlen : Z; lastSz : Z }.

Definition uq_init : uq := mkUq [] 0 0 0.

(* Push on a non-empty chain: a new block when len(tail.val) >= lastSliceSize *)
Fixpoint push_blocks (bs : list (list A)) (v : A) (lastSize : Z) : list (list A) * bool :=
  match bs with
  | [] => ([[v]], true)
  | [b] => if zlen b >=? lastSize then ([b; [v]], true) else ([b ++ [v]], false)
  | b :: r => let '(r', fresh) := push_blocks r v lastSize in (b :: r', fresh)
  end.

Section Sizes.
(* maxFirstSliceSize, maxInternalSliceSize (package variables, read through the probe);
   firstSliceSize is only the initial capacity of the first block, it does not influence
   behaviour *)
Variables maxFirst maxInternal : Z.

Definition upush (q : uq) (v : A) : uq :=
  match blocks q with
  | [] => mkUq [[v]] (hp q) (qlen q + 1) maxFirst
  | bs => let '(bs', fresh) := push_blocks bs v (lastSz q) in
          mkUq bs' (hp q) (qlen q + 1) (if fresh then maxInternal else lastSz q)
  end.

Definition upop (q : uq) : uq * uout A :=
  match blocks q with
  | [] => (q, UOEmpty)
  | b :: r =>
      match getz b (hp q), setz b (hp q) nilv with
      | Some v, Some b' =>
          let hp' := hp q + 1 in
          if hp' >=? zlen b' then (mkUq r 0 (qlen q - 1) (lastSz q), UOVal v)
          else (mkUq (b' :: r) hp' (qlen q - 1) (lastSz q), UOVal v)
      | _, _ => (q, UOCrash)
      end
  end.

Definition ufront (q : uq) : uout A :=
  match blocks q with
  | [] => UOEmpty
  | b :: _ => match getz b (hp q) with Some v => UOVal v | None => UOCrash end
  end.

(* Init(): head = nil; tail = nil; hp = 0; len = 0 (lastSliceSize is left alone) *)
Definition uinit (q : uq) : uq := mkUq [] 0 0 (lastSz q).

Definition ustep (q : uq) (o : uop A) : uq * uout A :=
  match o with
  | UPush a => (upush q a, UONone)
  | UPop => upop q
  | UFront => (q, ufront q)
  | ULen => (q, UOInt (qlen q))
  | UInit => (uinit q, UONone)
  end.

Fixpoint urun (q : uq) (ops : list (uop A)) : uq * list (uout A) :=
  match ops with
  | [] => (q, [])
  | o :: r => let '(q1, x) := ustep q o in
              let '(q2, xs) := urun q1 r in (q2, x :: xs)
  end.

(* what the queue holds, front first *)
Definition ucontents (q : uq) : list A := skipn (Z.to_nat (hp q)) (concat (blocks q)).

(* ------------------------------------------------------------------ unbounded_concurrent.go
   Every method takes the mutex for its whole body, so a schedule of the goroutines is a
   list of (goroutine, call) pairs executed one after the other on the inner queue:
   Enqueue = Push, Dequeue = Pop, Peek = Front, Len = Len. *)
Definition crun (q : uq) (sched : list (Z * uop A)) : uq * list (uout A) :=
  urun q (map snd sched).

End Sizes.
End Model.
