(* C12 — the mutex made explicit.  unbounded_concurrent.go: every method is
       q.guard.Lock() (RLock for Len); <one call on the inner queue>; q.guard.Unlock()
   Here each call is three scheduler-visible steps (acquire, body, release) of a goroutine,
   the RWMutex is a state (free / one writer / some readers), an acquire step that cannot be
   granted leaves the goroutine where it is, and a schedule is ANY list of goroutine ids.
   Theorem: whatever the schedule, (a) mutual exclusion holds, and (b) the queue and the results
   are those of the atomic schedule [crun] whose calls are the bodies in the order they ran —
   so the theorems about atomic schedules (c12_concurrent ...) cover every fine-grained
   interleaving; the linearisation point of a call is its body step. *)
From Coq Require Import ZArith List Bool Lia.
From FV Require Import C12.Spec C12.Model.
Import ListNotations.
Open Scope Z_scope.

Section Fine.
Context {A : Type}.
Variable nilv : A.
Variables maxFirst maxInternal : Z.

Inductive lockst : Type := Free | Writer (t : nat) | Readers (ts : list nat).

(* pc: 0 = not holding, 1 = holding, body not run, 2 = holding, body run *)
Record thread : Type := mkT { prog : list (uop A); pc : nat }.

Record fstate : Type := mkF {
  fq : @uq A; flock : lockst; fthreads : list thread;
  ftrace : list (Z * uop A);      (* bodies run so far, oldest first: (goroutine, call) *)
  fouts : list (uout A)           (* their results, in the same order *)
}.

Definition is_read (o : uop A) : bool := match o with ULen => true | _ => false end.

Definition acquire (l : lockst) (t : nat) (o : uop A) : option lockst :=
  if is_read o then
    match l with Free => Some (Readers [t]) | Readers ts => Some (Readers (t :: ts)) | Writer _ => None end
  else match l with Free => Some (Writer t) | _ => None end.

Definition release (l : lockst) (t : nat) : lockst :=
  match l with
  | Writer _ => Free
  | Readers ts => match filter (fun u => negb (Nat.eqb u t)) ts with [] => Free | r => Readers r end
  | Free => Free
  end.

Fixpoint set_nth {X} (l : list X) (n : nat) (v : X) : list X :=
  match l, n with
  | [], _ => []
  | _ :: r, O => v :: r
  | x :: r, S n' => x :: set_nth r n' v
  end.

(* one step of goroutine t (a goroutine that has finished, or whose acquire cannot be granted,
   does not move) *)
Definition fstep (s : fstate) (t : nat) : fstate :=
  match nth_error (fthreads s) t with
  | None => s
  | Some th =>
      match prog th with
      | [] => s
      | o :: rest =>
          match pc th with
          | O => match acquire (flock s) t o with
                 | Some l' => mkF (fq s) l' (set_nth (fthreads s) t (mkT (prog th) 1)) (ftrace s) (fouts s)
                 | None => s
                 end
          | S O =>
              let '(q', x) := ustep nilv maxFirst maxInternal (fq s) o in
              mkF q' (flock s) (set_nth (fthreads s) t (mkT (prog th) 2))
                  (ftrace s ++ [(Z.of_nat t, o)]) (fouts s ++ [x])
          | _ => mkF (fq s) (release (flock s) t) (set_nth (fthreads s) t (mkT rest 0)) (ftrace s) (fouts s)
          end
      end
  end.

Definition frun (s : fstate) (sched : list nat) : fstate := fold_left fstep sched s.

Definition finit (progs : list (list (uop A))) : fstate :=
  mkF uq_init Free (map (fun p => mkT p 0) progs) [] [].

(* (b) the queue and the results are those of the atomic schedule made of the bodies *)
Definition atomic_ok (s : fstate) : Prop :=
  crun nilv maxFirst maxInternal uq_init (ftrace s) = (fq s, fouts s).

Lemma urun_app q ops1 ops2 :
  urun nilv maxFirst maxInternal q (ops1 ++ ops2) =
  let '(q1, x1) := urun nilv maxFirst maxInternal q ops1 in
  let '(q2, x2) := urun nilv maxFirst maxInternal q1 ops2 in (q2, x1 ++ x2).
Proof.
  revert q. induction ops1 as [|o r IH]; intros q; simpl.
  - destruct (urun nilv maxFirst maxInternal q ops2). reflexivity.
  - destruct (ustep nilv maxFirst maxInternal q o) as [q1 x]. rewrite IH.
    destruct (urun nilv maxFirst maxInternal q1 r) as [q2 xs].
    destruct (urun nilv maxFirst maxInternal q2 ops2). reflexivity.
Qed.

Lemma fstep_atomic s t : atomic_ok s -> atomic_ok (fstep s t).
Proof.
  unfold atomic_ok, fstep. intros H.
  destruct (nth_error (fthreads s) t) as [th|]; [|exact H].
  destruct (prog th) as [|o rest]; [exact H|].
  destruct (pc th) as [|[|n]].
  - destruct (acquire (flock s) t o); exact H.
  - destruct (ustep nilv maxFirst maxInternal (fq s) o) as [q' x] eqn:E. cbn [ftrace fq fouts].
    unfold crun in *. rewrite map_app, urun_app, H. simpl. rewrite E. reflexivity.
  - exact H.
Qed.

Theorem fine_is_atomic progs sched : atomic_ok (frun (finit progs) sched).
Proof.
  unfold frun. assert (H0 : atomic_ok (finit progs)) by reflexivity.
  revert H0. generalize (finit progs). induction sched as [|t r IH]; intros s H; simpl; [exact H|].
  apply IH. apply fstep_atomic. exact H.
Qed.

(* (a) mutual exclusion: the lock state lists exactly the goroutines inside a critical section;
   a writer is alone, readers are inside Len only *)
Definition holding (th : thread) : bool := negb (Nat.eqb (pc th) 0).

Definition lock_ok (s : fstate) : Prop :=
  match flock s with
  | Free => forall t th, nth_error (fthreads s) t = Some th -> holding th = false
  | Writer w => forall t th, nth_error (fthreads s) t = Some th -> holding th = true -> t = w
  | Readers ts => forall t th, nth_error (fthreads s) t = Some th -> holding th = true ->
                    In t ts /\ exists o r, prog th = o :: r /\ is_read o = true
  end.

Lemma nth_error_set_nth {X} (l : list X) n m v :
  nth_error (set_nth l n v) m = if Nat.eqb m n then (if Nat.ltb n (length l) then Some v else None) else nth_error l m.
Proof.
  revert n m. induction l as [|x l IH]; intros n m.
  - simpl. destruct n, m; simpl; try reflexivity. destruct (Nat.eqb m n); reflexivity.
  - destruct n as [|n], m as [|m]; simpl; try reflexivity.
    rewrite IH. destruct (Nat.eqb m n); [|reflexivity].
    change (S n <? S (length l))%nat with (n <? length l)%nat. reflexivity.
Qed.

Lemma fstep_lock s t : lock_ok s -> lock_ok (fstep s t).
Proof.
  unfold fstep. intros H.
  destruct (nth_error (fthreads s) t) as [th|] eqn:Et; [|exact H].
  assert (Hlt : (t < length (fthreads s))%nat) by (apply nth_error_Some; congruence).
  destruct (prog th) as [|o rest] eqn:Ep; [exact H|].
  destruct (pc th) as [|[|n]] eqn:Epc.
  - (* acquire *)
    unfold acquire. destruct (is_read o) eqn:Er.
    + destruct (flock s) as [|w|ts] eqn:El; [| exact H |].
      * unfold lock_ok in *. rewrite El in H. cbn [flock fthreads]. intros u thu Hu Hh.
        rewrite nth_error_set_nth in Hu. destruct (Nat.eqb_spec u t) as [->|Hne].
        -- destruct (Nat.ltb_spec t (length (fthreads s))); [|lia]. injection Hu as <-.
           split; [left; reflexivity|]. exists o, rest. auto.
        -- rewrite (H u thu Hu) in Hh. discriminate.
      * unfold lock_ok in *. rewrite El in H. cbn [flock fthreads]. intros u thu Hu Hh.
        rewrite nth_error_set_nth in Hu. destruct (Nat.eqb_spec u t) as [->|Hne].
        -- destruct (Nat.ltb_spec t (length (fthreads s))); [|lia]. injection Hu as <-.
           split; [left; reflexivity|]. exists o, rest. auto.
        -- destruct (H u thu Hu Hh) as [Hin Hrd]. split; [right; exact Hin|exact Hrd].
    + destruct (flock s) as [|w|ts] eqn:El; [| exact H | exact H].
      unfold lock_ok in *. rewrite El in H. cbn [flock fthreads]. intros u thu Hu Hh.
      rewrite nth_error_set_nth in Hu. destruct (Nat.eqb_spec u t) as [->|Hne]; [reflexivity|].
      rewrite (H u thu Hu) in Hh. discriminate.
  - (* body: pc 1 -> 2, the lock does not change *)
    destruct (ustep nilv maxFirst maxInternal (fq s) o) as [q' x].
    unfold lock_ok in *. cbn [flock fthreads].
    destruct (flock s) as [|w|ts] eqn:El.
    + exfalso. specialize (H t th Et). unfold holding in H. rewrite Epc in H. discriminate.
    + intros u thu Hu Hh. rewrite nth_error_set_nth in Hu. destruct (Nat.eqb_spec u t) as [->|Hne].
      * apply (H t th Et). unfold holding. rewrite Epc. reflexivity.
      * exact (H u thu Hu Hh).
    + intros u thu Hu Hh. rewrite nth_error_set_nth in Hu. destruct (Nat.eqb_spec u t) as [->|Hne].
      * destruct (Nat.ltb_spec t (length (fthreads s))); [|lia]. injection Hu as <-.
        assert (Hth : holding th = true) by (unfold holding; rewrite Epc; reflexivity).
        destruct (H t th Et Hth) as [Hin (o0 & r0 & Hp & Hr)]. rewrite Ep in Hp. injection Hp as <- <-.
        split; [exact Hin|]. exists o, rest. auto.
      * exact (H u thu Hu Hh).
  - (* release *)
    assert (Hth : holding th = true) by (unfold holding; rewrite Epc; reflexivity).
    unfold lock_ok in *. cbn [flock fthreads]. unfold release.
    destruct (flock s) as [|w|ts] eqn:El.
    + specialize (H t th Et). congruence.
    + intros u thu Hu. rewrite nth_error_set_nth in Hu. destruct (Nat.eqb_spec u t) as [->|Hne].
      * destruct (Nat.ltb_spec t (length (fthreads s))); [|lia]. injection Hu as <-. reflexivity.
      * destruct (holding thu) eqn:Hh; [|reflexivity]. exfalso.
        pose proof (H u thu Hu Hh). pose proof (H t th Et Hth). lia.
    + assert (Hkeep : forall u thu, nth_error (set_nth (fthreads s) t (mkT rest 0)) u = Some thu -> holding thu = true ->
                        u <> t /\ In u ts /\ exists o' r', prog thu = o' :: r' /\ is_read o' = true).
      { intros u thu Hu Hh. rewrite nth_error_set_nth in Hu. destruct (Nat.eqb_spec u t) as [->|Hne].
        - destruct (Nat.ltb_spec t (length (fthreads s))); [|lia]. injection Hu as <-. discriminate Hh.
        - destruct (H u thu Hu Hh) as [Hin Hrd]. auto. }
      destruct (filter (fun u => negb (Nat.eqb u t)) ts) as [|r0 rs] eqn:Ef.
      * intros u thu Hu. destruct (holding thu) eqn:Hh; [|reflexivity]. exfalso.
        destruct (Hkeep u thu Hu Hh) as (Hne & Hin & _).
        assert (Hf : In u (filter (fun u => negb (Nat.eqb u t)) ts)).
        { apply filter_In. split; [exact Hin|]. destruct (Nat.eqb_spec u t); [contradiction|reflexivity]. }
        rewrite Ef in Hf. destruct Hf.
      * intros u thu Hu Hh. destruct (Hkeep u thu Hu Hh) as (Hne & Hin & Hrd). split; [|exact Hrd].
        rewrite <- Ef. apply filter_In. split; [exact Hin|]. destruct (Nat.eqb_spec u t); [contradiction|reflexivity].
Qed.

Theorem fine_mutual_exclusion progs sched : lock_ok (frun (finit progs) sched).
Proof.
  unfold frun. assert (H0 : lock_ok (finit progs)).
  { unfold lock_ok, finit. cbn [flock fthreads]. intros t th Ht.
    apply nth_error_In in Ht. apply in_map_iff in Ht. destruct Ht as (p & <- & _). reflexivity. }
  revert H0. generalize (finit progs). induction sched as [|t r IH]; intros s H; simpl; [exact H|].
  apply IH. apply fstep_lock. exact H.
Qed.

(* (c) program order: the bodies goroutine t has run, followed by the calls it still has to
   make, are its program *)
Definition pending (th : thread) : list (uop A) := if Nat.eqb (pc th) 2 then tl (prog th) else prog th.

Definition calls_by (t : nat) (tr : list (Z * uop A)) : list (uop A) :=
  map snd (filter (fun x => fst x =? Z.of_nat t) tr).

Definition order_ok (progs : list (list (uop A))) (s : fstate) : Prop :=
  (forall th, In th (fthreads s) -> (pc th <= 2)%nat) /\
  forall t th p, nth_error (fthreads s) t = Some th -> nth_error progs t = Some p ->
                 calls_by t (ftrace s) ++ pending th = p.

Lemma set_nth_in {X} (l : list X) n v x : In x (set_nth l n v) -> x = v \/ In x l.
Proof.
  revert n. induction l as [|y l IH]; intros [|n]; simpl; auto.
  - intros [H|H]; auto.
  - intros [H|H]; auto. destruct (IH n H); auto.
Qed.

Lemma fstep_order progs s t : order_ok progs s -> order_ok progs (fstep s t).
Proof.
  unfold fstep. intros [Hpc H].
  destruct (nth_error (fthreads s) t) as [th|] eqn:Et; [|split; assumption].
  assert (Hlt : (t < length (fthreads s))%nat) by (apply nth_error_Some; congruence).
  destruct (prog th) as [|o rest] eqn:Ep; [split; assumption|].
  destruct (pc th) as [|[|n]] eqn:Epc.
  - destruct (acquire (flock s) t o); [|split; assumption]. split; cbn [fthreads ftrace].
    + intros th' Hin. apply set_nth_in in Hin. destruct Hin as [->|Hin]; [simpl; lia|auto].
    + intros u thu p Hu Hp. rewrite nth_error_set_nth in Hu. destruct (Nat.eqb_spec u t) as [->|Hne]; [|eauto].
      destruct (Nat.ltb_spec t (length (fthreads s))); [|lia]. injection Hu as <-.
      rewrite <- (H t th p Et Hp). unfold pending. cbn [pc prog]. rewrite Epc, Ep. reflexivity.
  - destruct (ustep nilv maxFirst maxInternal (fq s) o) as [q' x]. split; cbn [fthreads ftrace].
    + intros th' Hin. apply set_nth_in in Hin. destruct Hin as [->|Hin]; [simpl; lia|auto].
    + intros u thu p Hu Hp. unfold calls_by. rewrite filter_app, map_app. cbn [filter fst].
      rewrite nth_error_set_nth in Hu. destruct (Nat.eqb_spec u t) as [->|Hne].
      * destruct (Nat.ltb_spec t (length (fthreads s))); [|lia]. injection Hu as <-.
        rewrite Z.eqb_refl. cbn [map snd]. rewrite <- (H t th p Et Hp). unfold pending, calls_by. cbn [pc prog].
        rewrite Epc, Ep. cbn [Nat.eqb tl]. rewrite <- app_assoc. reflexivity.
      * destruct (Z.eqb_spec (Z.of_nat t) (Z.of_nat u)); [lia|]. cbn [map]. rewrite app_nil_r. eauto.
  - assert (Hn : n = 0%nat) by (specialize (Hpc th (nth_error_In _ _ Et)); lia). subst n.
    split; cbn [fthreads ftrace].
    + intros th' Hin. apply set_nth_in in Hin. destruct Hin as [->|Hin]; [simpl; lia|auto].
    + intros u thu p Hu Hp. rewrite nth_error_set_nth in Hu. destruct (Nat.eqb_spec u t) as [->|Hne]; [|eauto].
      destruct (Nat.ltb_spec t (length (fthreads s))); [|lia]. injection Hu as <-.
      rewrite <- (H t th p Et Hp). unfold pending. cbn [pc prog]. rewrite Epc, Ep. reflexivity.
Qed.

Theorem fine_program_order progs sched : order_ok progs (frun (finit progs) sched).
Proof.
  unfold frun. assert (H0 : order_ok progs (finit progs)).
  { unfold order_ok, finit. cbn [fthreads ftrace]. split.
    - intros th Hin. apply in_map_iff in Hin. destruct Hin as (p & <- & _). simpl. lia.
    - intros t th p Ht Hp. rewrite nth_error_map, Hp in Ht. injection Ht as <-. reflexivity. }
  revert H0. generalize (finit progs). induction sched as [|t r IH]; intros s H; simpl; [exact H|].
  apply IH. apply fstep_order. exact H.
Qed.

End Fine.
