(* C12 — the lemmas live in ListZ.v (lists indexed by Z), DequeProofs.v (ring buffer ->
   plain list, capacity invariant) and QueueProofs.v (block queue -> FIFO list, schedules
   of the mutex-protected queue); this file gathers them for Properties.v. *)
From FV Require Export C12.ListZ C12.DequeProofs C12.QueueProofs C12.Concurrent.
