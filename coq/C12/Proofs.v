From Coq Require Import ZArith List Bool Lia.
From FV Require Import Generated.Consts C12.Spec C12.Model.
Import ListNotations.
Open Scope Z_scope.
