(* C12 — the ring-index helpers regenerated from collections/queue/deque.go by tools/gofunc
   (Generated/Deque.v: Deque.prev, Deque.next, Deque.Len, Deque.Cap, UnboundedQueue.Len; int
   arithmetic wrapped to 64 bit, len(q.buf) as the parameter n_q_buf) coincide with the
   hand-written model's prev / next / count / cap / qlen on every deque whose indices stay inside int64
   (the model works in Z; a slice length always is below 2^63), and on a power-of-two buffer
   they are the modular successor / predecessor the ring buffer relies on. *)
From Coq Require Import ZArith List Bool Lia.
From FV Require Import Generated.Consts Generated.Deque Lib.Bits C12.Spec C12.Model.
Open Scope Z_scope.

Ltac Zify.zify_post_hook ::= Z.div_mod_to_equations.

Lemma wrap64 x : - 9223372036854775808 <= x < 9223372036854775808 ->
  (x + 9223372036854775808) mod 18446744073709551616 - 9223372036854775808 = x.
Proof. intros H. lia. Qed.

Lemma cap_range {A} (d : @deque A) : 0 <= cap d.
Proof. unfold cap, zlen. lia. Qed.

Lemma src_next {A} (d : @deque A) i : cap d < 2 ^ 63 -> - 2 ^ 63 <= i < 2 ^ 63 - 1 ->
  go_Deque_next (cap d) i = next d i.
Proof.
  intros Hc Hi. pose proof (cap_range d). change (2 ^ 63) with 9223372036854775808 in *.
  unfold go_Deque_next, next, mask. rewrite !wrap64 by lia. reflexivity.
Qed.

Lemma src_prev {A} (d : @deque A) i : cap d < 2 ^ 63 -> - 2 ^ 63 < i < 2 ^ 63 ->
  go_Deque_prev (cap d) i = prev d i.
Proof.
  intros Hc Hi. pose proof (cap_range d). change (2 ^ 63) with 9223372036854775808 in *.
  unfold go_Deque_prev, prev, mask. rewrite !wrap64 by lia. reflexivity.
Qed.

Lemma src_len_cap {A} (d : @deque A) :
  go_Deque_Len (count d) = count d /\ go_Deque_Cap (cap d) = cap d.
Proof. split; reflexivity. Qed.

Lemma src_uq_len {A} (q : @uq A) : go_UnboundedQueue_Len (qlen q) = qlen q.
Proof. reflexivity. Qed.

(* on a buffer of 2^k slots the translated helpers step round the ring *)
Lemma src_next_mod k i : 0 <= k < 63 -> 0 <= i < 2 ^ k ->
  go_Deque_next (2 ^ k) i = (i + 1) mod 2 ^ k.
Proof.
  intros Hk Hi.
  assert (Hp : 2 ^ k < 2 ^ 63) by (apply Z.pow_lt_mono_r; lia).
  change (2 ^ 63) with 9223372036854775808 in Hp.
  unfold go_Deque_next. rewrite !wrap64 by lia. apply land_ones_mod. lia.
Qed.

Lemma src_prev_mod k i : 0 <= k < 63 -> 0 <= i < 2 ^ k ->
  go_Deque_prev (2 ^ k) i = (i - 1) mod 2 ^ k.
Proof.
  intros Hk Hi.
  assert (Hp : 2 ^ k < 2 ^ 63) by (apply Z.pow_lt_mono_r; lia).
  change (2 ^ 63) with 9223372036854775808 in Hp.
  unfold go_Deque_prev. rewrite !wrap64 by lia. apply land_ones_mod. lia.
Qed.

(* next and prev undo each other on the ring *)
Lemma src_prev_next k i : 0 <= k < 63 -> 0 <= i < 2 ^ k ->
  go_Deque_prev (2 ^ k) (go_Deque_next (2 ^ k) i) = i /\
  go_Deque_next (2 ^ k) (go_Deque_prev (2 ^ k) i) = i.
Proof.
  intros Hk Hi.
  assert (Hpos : 0 < 2 ^ k) by (apply Z.pow_pos_nonneg; lia).
  split.
  - rewrite src_next_mod by assumption.
    rewrite src_prev_mod by (try assumption; apply Z.mod_pos_bound; assumption).
    rewrite Zminus_mod_idemp_l. replace (i + 1 - 1) with i by lia. apply Z.mod_small. assumption.
  - rewrite src_prev_mod by assumption.
    rewrite src_next_mod by (try assumption; apply Z.mod_pos_bound; assumption).
    rewrite Zplus_mod_idemp_l. replace (i - 1 + 1) with i by lia. apply Z.mod_small. assumption.
Qed.

(* the statements Properties.v exports *)
Lemma src_is_model (A : Type) (d : @deque A) i :
  cap d < 2 ^ 63 -> - 2 ^ 63 < i < 2 ^ 63 - 1 ->
  go_Deque_next (cap d) i = next d i /\ go_Deque_prev (cap d) i = prev d i /\
  go_Deque_Len (count d) = count d /\ go_Deque_Cap (cap d) = cap d.
Proof.
  intros Hc Hi. split; [apply src_next; lia|]. split; [apply src_prev; lia|]. exact (src_len_cap d).
Qed.

Lemma src_ring_step k i : 0 <= k < 63 -> 0 <= i < 2 ^ k ->
  go_Deque_next (2 ^ k) i = (i + 1) mod 2 ^ k /\ go_Deque_prev (2 ^ k) i = (i - 1) mod 2 ^ k /\
  go_Deque_prev (2 ^ k) (go_Deque_next (2 ^ k) i) = i /\
  go_Deque_next (2 ^ k) (go_Deque_prev (2 ^ k) i) = i.
Proof.
  intros Hk Hi. split; [exact (src_next_mod k i Hk Hi)|]. split; [exact (src_prev_mod k i Hk Hi)|].
  exact (src_prev_next k i Hk Hi).
Qed.

(* ------------------------------------------------------------------ memory
   The translated source works on lists of tokens (interface{} values are Z, nil = 0): the
   model is taken at A := Z, nilv := 0, and its getz / setz are go_index / go_update. *)
From FV Require Import Lib.GoSem.

Lemma upd_list_upd (l : list Z) k v : upd l k v = list_upd l k v.
Proof. reflexivity. Qed.   (* the same fixpoint *)

Lemma getz_index (l : list Z) i :
  go_index l i = match getz l i with Some x => Ok x | None => Panic end.
Proof.
  unfold go_index, getz, go_len, zlen.
  destruct ((0 <=? i) && (i <? Z.of_nat (length l))) eqn:E; [|reflexivity].
  apply andb_prop in E. destruct E as [E1 E2]. apply Z.leb_le in E1. apply Z.ltb_lt in E2.
  rewrite (nth_error_nth' l 0) by lia. reflexivity.
Qed.

Lemma setz_update (l : list Z) i v :
  go_update l i v = match setz l i v with Some l' => Ok l' | None => Panic end.
Proof.
  unfold go_update, setz, go_len, zlen.
  destruct ((0 <=? i) && (i <? Z.of_nat (length l))); reflexivity.
Qed.

Lemma setz_length (l : list Z) i v l' : setz l i v = Some l' -> zlen l' = zlen l.
Proof.
  unfold setz. destruct ((0 <=? i) && (i <? zlen l)); [|discriminate]. intros H. injection H as <-.
  unfold zlen. f_equal. exact (list_upd_length l (Z.to_nat i) v).
Qed.

(* ------------------------------------------------------------------ Rotate
   All of Deque.Rotate (Generated/Deque.v, translated whole: the early returns,
   n %= q.count, modBits, the full-buffer fast path, and the two element-moving loops with
   their writes to q.buf, q.head, q.tail) is the model's rotate: whatever return statement is
   reached, the deque then has the head, tail and buffer the translated source assigned; the
   source panics (index out of range) exactly when the model crashes. *)

Definition small62 (x : Z) : Prop := - 2 ^ 62 < x < 2 ^ 62.

Section RotateLoops.
  Variable m : Z.                      (* modBits *)
  Hypothesis Hm : 0 <= m < 2 ^ 62.

  Lemma land_m_range x : 0 <= Z.land x m <= m.
  Proof.
    split; [apply Z.land_nonneg; right; lia|].
    assert (H0 : Z.ldiff (Z.ldiff m x) m = 0).
    { apply Z.bits_inj'. intros n Hn. rewrite !Z.ldiff_spec, Z.bits_0.
      destruct (Z.testbit m n), (Z.testbit x n); reflexivity. }
    pose proof (Z.sub_nocarry_ldiff m (Z.ldiff m x) H0) as Hs.
    assert (Hl : Z.ldiff m (Z.ldiff m x) = Z.land x m).
    { apply Z.bits_inj'. intros n Hn. rewrite Z.land_spec, !Z.ldiff_spec.
      destruct (Z.testbit m n), (Z.testbit x n); reflexivity. }
    assert (Hp : 0 <= Z.ldiff m x) by (apply Z.ldiff_nonneg; left; lia).
    lia.
  Qed.

  Lemma loop1_spec : forall k fuel h t b, (k < fuel)%nat -> small62 h -> small62 t -> Z.of_nat k < 2 ^ 62 ->
    go_Deque_Rotate_loop1 fuel m (- Z.of_nat k, h, t, b) =
    match rot_back_to_front 0 k b h t m with
    | Some (b', h', t') => Ok (inl (0, h', t', b'))
    | None => Panic
    end.
  Proof.
    unfold go_Deque_Rotate_loop1, small62.
    change (2 ^ 62) with 4611686018427387904 in *.
    induction k as [|k IH]; intros fuel h t b Hf Hh Ht Hk; (destruct fuel as [|fuel]; [lia|]).
    - rewrite go_loop_S. cbn. reflexivity.
    - rewrite go_loop_S. unfold go_Deque_Rotate_loop1_body at 1.
      destruct (Z.ltb_spec (- Z.of_nat (S k)) 0); [|lia].
      rewrite (wrap64 (h - 1)), (wrap64 (t - 1)) by lia.
      cbn [rot_back_to_front]. unfold Model.bind.
      pose proof (land_m_range (h - 1)). pose proof (land_m_range (t - 1)).
      rewrite getz_index. destruct (getz b (Z.land (t - 1) m)) as [x|]; [|reflexivity]. cbn [GoSem.bind].
      rewrite setz_update. destruct (setz b (Z.land (h - 1) m) x) as [b1|]; [|reflexivity]. cbn [GoSem.bind].
      rewrite setz_update. destruct (setz b1 (Z.land (t - 1) m) 0) as [b2|]; [|reflexivity]. cbn [GoSem.bind].
      rewrite (wrap64 (- Z.of_nat (S k) + 1)) by lia.
      replace (- Z.of_nat (S k) + 1) with (- Z.of_nat k) by lia.
      apply IH; lia.
  Qed.

  Lemma loop2_spec : forall k fuel h t b, (k < fuel)%nat -> small62 h -> small62 t -> Z.of_nat k < 2 ^ 62 ->
    go_Deque_Rotate_loop2 fuel m (Z.of_nat k, h, t, b) =
    match rot_front_to_back 0 k b h t m with
    | Some (b', h', t') => Ok (inl (0, h', t', b'))
    | None => Panic
    end.
  Proof.
    unfold go_Deque_Rotate_loop2, small62.
    change (2 ^ 62) with 4611686018427387904 in *.
    induction k as [|k IH]; intros fuel h t b Hf Hh Ht Hk; (destruct fuel as [|fuel]; [lia|]).
    - rewrite go_loop_S. cbn. reflexivity.
    - rewrite go_loop_S. unfold go_Deque_Rotate_loop2_body at 1.
      destruct (Z.gtb_spec (Z.of_nat (S k)) 0); [|lia].
      cbn [rot_front_to_back]. unfold Model.bind.
      rewrite getz_index. destruct (getz b h) as [x|]; [|reflexivity]. cbn [GoSem.bind].
      rewrite setz_update. destruct (setz b t x) as [b1|]; [|reflexivity]. cbn [GoSem.bind].
      rewrite setz_update. destruct (setz b1 h 0) as [b2|]; [|reflexivity]. cbn [GoSem.bind].
      rewrite (wrap64 (h + 1)), (wrap64 (t + 1)), (wrap64 (Z.of_nat (S k) - 1)) by lia.
      replace (Z.of_nat (S k) - 1) with (Z.of_nat k) by lia.
      pose proof (land_m_range (h + 1)). pose proof (land_m_range (t + 1)).
      apply IH; lia.
  Qed.
End RotateLoops.

Lemma src_rotate (d : @deque Z) n0 fuel :
  0 < cap d < 2 ^ 62 -> small62 (count d) -> - 2 ^ 63 <= n0 < 2 ^ 63 ->
  small62 (head d) -> small62 (tail d) -> (Z.to_nat (Z.abs (count d)) < fuel)%nat ->
  match go_Deque_Rotate fuel (head d) (tail d) (buf d) (count d) n0 with
  | Ok (h, t, b) => rotate 0 d n0 = Some (mkDeque b h t (count d) (minCap d))
  | Panic => rotate 0 d n0 = None
  | OutOfFuel => False
  end.
Proof.
  unfold small62. intros Hc Hn H0 Hh Ht Hf.
  change (2 ^ 63) with 9223372036854775808 in *. change (2 ^ 62) with 4611686018427387904 in *.
  unfold rotate, go_Deque_Rotate. cbv zeta.
  destruct (Z.leb_spec (count d) 1) as [|Hgt]; [destruct d; reflexivity|].
  rewrite go_rem_ok by lia. cbn [GoSem.bind].
  assert (Hr : Z.abs (Z.rem n0 (count d)) < count d).
  { pose proof (Z.rem_bound_abs n0 (count d) ltac:(lia)). lia. }
  rewrite (wrap64 (Z.rem n0 (count d))) by lia.
  destruct (Z.rem n0 (count d) =? 0) eqn:E0; [destruct d; reflexivity|].
  unfold go_len. fold (zlen (buf d)). fold (cap d).
  rewrite (wrap64 (cap d - 1)) by lia.
  destruct (head d =? tail d).
  - rewrite (wrap64 (head d + Z.rem n0 (count d))), (wrap64 (tail d + Z.rem n0 (count d))) by lia.
    reflexivity.
  - assert (Hm : 0 <= cap d - 1 < 4611686018427387904) by lia.
    destruct (Z.ltb_spec (Z.rem n0 (count d)) 0) as [Hneg|Hpos]; unfold Model.bind.
    + pose proof (loop1_spec (cap d - 1) Hm (Z.to_nat (- Z.rem n0 (count d))) fuel (head d) (tail d) (buf d)) as L.
      replace (- Z.of_nat (Z.to_nat (- Z.rem n0 (count d)))) with (Z.rem n0 (count d)) in L by lia.
      rewrite L by (unfold small62; lia).
      destruct (rot_back_to_front 0 _ _ _ _ _) as [[[b h] t]|]; reflexivity.
    + pose proof (loop2_spec (cap d - 1) Hm (Z.to_nat (Z.rem n0 (count d))) fuel (head d) (tail d) (buf d)) as L.
      replace (Z.of_nat (Z.to_nat (Z.rem n0 (count d)))) with (Z.rem n0 (count d)) in L by lia.
      rewrite L by (unfold small62; lia).
      destruct (rot_front_to_back 0 _ _ _ _ _) as [[[b h] t]|]; reflexivity.
Qed.

(* ------------------------------------------------------------------ push / pop / grow / shrink
   Deque.resize, growIfFull, shrinkIfExcess, PushBack, PushFront, PopFront, PopBack, translated
   whole (Generated/Deque.v: make, copy, the slices of q.buf and the writes to q.buf, q.head,
   q.tail, q.count, q.minCap), are the model's functions at A := Z, nilv := 0: the source
   panics (index / slice out of range, negative make, the explicit panics of the empty deque)
   exactly when the model says None (OCrash / OPanic), and otherwise leaves the fields of the
   model's deque. *)

Definition small61 (x : Z) : Prop := - 2 ^ 61 < x < 2 ^ 61.

Definition lift_d {X} (f : @deque Z -> X) (r : option (@deque Z)) : outcome X :=
  match r with Some d => Ok (f d) | None => Panic end.

Lemma make_src n : go_make n = match make 0 n with Some l => Ok l | None => Panic end.
Proof.
  unfold go_make, make, go_zeros. destruct (Z.ltb_spec n 0), (Z.leb_spec 0 n); try lia; reflexivity.
Qed.

Lemma slice_src (l : list Z) a b : go_slice l a b = match slice l a b with Some s => Ok s | None => Panic end.
Proof. unfold go_slice, slice, go_len, zlen. destruct ((0 <=? a) && (a <=? b) && (b <=? Z.of_nat (length l))); reflexivity. Qed.

Lemma slice_from_src (l : list Z) a :
  go_slice_from l a = match slice l a (zlen l) with Some s => Ok s | None => Panic end.
Proof.
  unfold go_slice_from, slice, go_len, zlen.
  destruct (Z.leb_spec 0 a); cbn [andb]; [|reflexivity].
  destruct (Z.leb_spec a (Z.of_nat (length l))); cbn [andb]; [|reflexivity].
  rewrite Z.leb_refl. f_equal. rewrite firstn_all2; [reflexivity|]. rewrite skipn_length. lia.
Qed.

Lemma copy_src (dst src : list Z) : go_copy dst src = (copy_into dst src, Z.of_nat (Nat.min (length dst) (length src))).
Proof. reflexivity. Qed.

Lemma copy_into_length (dst src : list Z) : length (copy_into dst src) = length dst.
Proof. unfold copy_into. rewrite app_length, firstn_length, skipn_length. lia. Qed.

Lemma src_resize (d : @deque Z) : small61 (count d) ->
  go_Deque_resize (head d) (tail d) (buf d) (count d) = lift_d (fun d' => (head d', tail d', buf d')) (resize 0 d).
Proof.
  unfold small61. change (2 ^ 61) with 2305843009213693952. intros Hc.
  unfold go_Deque_resize, resize. cbv zeta.
  rewrite Z.shiftl_mul_pow2 by lia. change (2 ^ 1) with 2. rewrite (wrap64 (count d * 2)) by lia.
  rewrite make_src. unfold Model.bind. destruct (make 0 (count d * 2)) as [nb|]; [|reflexivity]. cbn [bind].
  destruct (tail d >? head d).
  - rewrite slice_src. destruct (slice (buf d) (head d) (tail d)) as [s|]; [|reflexivity]. cbn [bind].
    rewrite copy_src. reflexivity.
  - rewrite slice_from_src. fold (cap d). destruct (slice (buf d) (head d) (cap d)) as [s1|]; [|reflexivity]. cbn [bind].
    rewrite copy_src. cbv zeta.
    assert (Hmin : 0 <= Z.of_nat (Nat.min (length nb) (length s1)) <= go_len (copy_into nb s1)).
    { unfold go_len. rewrite copy_into_length. split; [lia|]. apply inj_le. apply Nat.le_min_l. }
    rewrite go_slice_from_ok by exact Hmin.
    cbn [bind]. rewrite Nat2Z.id.
    rewrite slice_src. destruct (slice (buf d) 0 (tail d)) as [s2|]; [|reflexivity]. cbn [bind].
    rewrite copy_src. cbn [lift_d head tail buf].
    unfold go_splice. rewrite Nat2Z.id. rewrite copy_into_length, skipn_length.
    set (m := Nat.min (length nb) (length s1)). assert (Hm : (m <= length nb)%nat) by apply Nat.le_min_l.
    replace (skipn (m + (length (copy_into nb s1) - m)) (copy_into nb s1)) with (@nil Z)
      by (symmetry; apply skipn_all2; rewrite copy_into_length; clearbody m; clear - Hm; lia).
    rewrite app_nil_r. reflexivity.
Qed.

Lemma cap_len (d : @deque Z) : go_len (buf d) = cap d.
Proof. reflexivity. Qed.

Lemma resize_keeps (d d' : @deque Z) : resize 0 d = Some d' -> count d' = count d /\ minCap d' = minCap d.
Proof.
  unfold resize, Model.bind. destruct (make 0 (count d * 2)) as [nb|]; [|discriminate].
  destruct (tail d >? head d).
  - destruct (slice (buf d) (head d) (tail d)); [|discriminate]. intros H. injection H as <-. split; reflexivity.
  - destruct (slice (buf d) (head d) (cap d)); [|discriminate].
    destruct (slice (buf d) 0 (tail d)); [|discriminate]. intros H. injection H as <-. split; reflexivity.
Qed.

Lemma src_grow (d : @deque Z) : small61 (count d) ->
  go_Deque_growIfFull (minCap d) (buf d) (head d) (tail d) (count d) =
  lift_d (fun d' => (minCap d', buf d', head d', tail d')) (grow_if_full 0 d).
Proof.
  intros Hc. unfold go_Deque_growIfFull, grow_if_full. rewrite !cap_len. cbv zeta.
  destruct (count d =? cap d); cbn [negb]; [|destruct d; reflexivity].
  destruct (cap d =? 0).
  - change collections_queue_minCapacity with 16.
    rewrite make_src. unfold Model.bind.
    destruct (make 0 (if minCap d =? 0 then 16 else minCap d)) as [b|]; reflexivity.
  - rewrite src_resize by assumption. destruct (resize 0 d) as [d'|] eqn:E; [|reflexivity].
    cbn [lift_d bind]. destruct (resize_keeps d d' E) as [_ ->]. reflexivity.
Qed.

Lemma grow_keeps (d d1 : @deque Z) : grow_if_full 0 d = Some d1 -> count d1 = count d.
Proof.
  unfold grow_if_full, Model.bind. destruct (negb (count d =? cap d)); [intros H; injection H as <-; reflexivity|].
  destruct (cap d =? 0).
  - destruct (make 0 _); [|discriminate]. intros H. injection H as <-. reflexivity.
  - intros H. apply (resize_keeps d d1 H).
Qed.

Lemma src_shrink (d : @deque Z) : small61 (count d) ->
  go_Deque_shrinkIfExcess (head d) (tail d) (buf d) (minCap d) (count d) =
  lift_d (fun d' => (head d', tail d', buf d')) (shrink_if_excess 0 d).
Proof.
  unfold small61. change (2 ^ 61) with 2305843009213693952. intros Hc.
  unfold go_Deque_shrinkIfExcess, shrink_if_excess. rewrite !cap_len.
  rewrite Z.shiftl_mul_pow2 by lia. change (2 ^ 2) with 4. rewrite (wrap64 (count d * 4)) by lia.
  destruct ((cap d >? minCap d) && (count d * 4 =? cap d)).
  - rewrite src_resize by (unfold small61; change (2 ^ 61) with 2305843009213693952; lia).
    destruct (resize 0 d) as [d'|]; reflexivity.
  - destruct d; reflexivity.
Qed.

Lemma shrink_keeps (d d2 : @deque Z) : shrink_if_excess 0 d = Some d2 -> count d2 = count d /\ minCap d2 = minCap d.
Proof.
  unfold shrink_if_excess. destruct ((cap d >? minCap d) && (count d * 4 =? cap d)).
  - apply resize_keeps.
  - intros H. injection H as <-. split; reflexivity.
Qed.

(* PushBack / PushFront: the fields afterwards, in the order the translation returns them *)
Definition push_fields (d : @deque Z) := (minCap d, buf d, head d, tail d, count d).

Lemma next_src (d : @deque Z) i : cap d < 2 ^ 62 -> small61 i -> go_Deque_next (go_len (buf d)) i = next d i.
Proof.
  unfold small61. intros Hc Hi. rewrite cap_len. apply src_next; change (2 ^ 63) with 9223372036854775808;
    change (2 ^ 62) with 4611686018427387904 in *; change (2 ^ 61) with 2305843009213693952 in *; lia.
Qed.

Lemma prev_src (d : @deque Z) i : cap d < 2 ^ 62 -> small61 i -> go_Deque_prev (go_len (buf d)) i = prev d i.
Proof.
  unfold small61. intros Hc Hi. rewrite cap_len. apply src_prev; change (2 ^ 63) with 9223372036854775808;
    change (2 ^ 62) with 4611686018427387904 in *; change (2 ^ 61) with 2305843009213693952 in *; lia.
Qed.

Lemma make_len n l : make 0 n = Some l -> zlen l = Z.max 0 n.
Proof.
  unfold make. destruct (Z.leb_spec 0 n) as [Hn|Hn]; [|discriminate]. intros E. injection E as <-.
  unfold zlen. rewrite repeat_length. lia.
Qed.

Lemma resize_cap (d d' : @deque Z) : resize 0 d = Some d' -> cap d' = Z.max 0 (count d * 2).
Proof.
  unfold resize, Model.bind. destruct (make 0 (count d * 2)) as [nb|] eqn:M; [|discriminate].
  pose proof (make_len _ _ M) as L. unfold zlen in L.
  destruct (tail d >? head d).
  - destruct (slice (buf d) (head d) (tail d)); [|discriminate]. intros H. injection H as <-.
    unfold cap, zlen. cbn [buf]. rewrite copy_into_length. exact L.
  - destruct (slice (buf d) (head d) (cap d)) as [s1|]; [|discriminate].
    destruct (slice (buf d) 0 (tail d)) as [s2|]; [|discriminate]. intros H. injection H as <-.
    unfold cap, zlen. cbn [buf]. rewrite app_length, firstn_length, !copy_into_length, skipn_length, copy_into_length.
    pose proof (Nat.le_min_l (length nb) (length s1)) as Hmin. lia.
Qed.

Lemma grow_cap (d d1 : @deque Z) : grow_if_full 0 d = Some d1 ->
  cap d < 2 ^ 62 -> minCap d < 2 ^ 62 -> small61 (count d) -> cap d1 < 2 ^ 62.
Proof.
  unfold small61. change (2 ^ 62) with 4611686018427387904. change (2 ^ 61) with 2305843009213693952.
  intros G Hc Hm Hn. unfold grow_if_full, Model.bind in G.
  destruct (negb (count d =? cap d)); [injection G as <-; assumption|].
  destruct (cap d =? 0).
  - destruct (make 0 _) as [b|] eqn:M; [|discriminate]. injection G as <-.
    unfold cap. cbn [buf]. rewrite (make_len _ _ M). change collections_queue_minCapacity with 16.
    destruct (minCap d =? 0); lia.
  - rewrite (resize_cap d d1 G). lia.
Qed.

Lemma src_push_back (d : @deque Z) a :
  cap d < 2 ^ 62 -> minCap d < 2 ^ 62 -> small61 (count d) -> small61 (tail d) ->
  go_Deque_PushBack (minCap d) (buf d) (head d) (tail d) (count d) a = lift_d push_fields (push_back 0 d a).
Proof.
  intros Hc Hm Hn Ht. unfold go_Deque_PushBack, push_back, Model.bind.
  rewrite src_grow by assumption.
  destruct (grow_if_full 0 d) as [d1|] eqn:G; [|reflexivity]. cbn [lift_d bind].
  rewrite setz_update. destruct (setz (buf d1) (tail d1) a) as [b|] eqn:S; [|reflexivity]. cbn [bind lift_d push_fields].
  pose proof (grow_cap d d1 G Hc Hm Hn) as Hc1. pose proof (grow_keeps d d1 G) as Hk.
  assert (R : 0 <= tail d1 < cap d1).
  { unfold setz in S. destruct ((0 <=? tail d1) && (tail d1 <? zlen (buf d1))) eqn:E; [|discriminate].
    apply andb_prop in E. destruct E as [E1 E2]. apply Z.leb_le in E1. apply Z.ltb_lt in E2. unfold cap. lia. }
  unfold go_len. fold (zlen b). rewrite (setz_length _ _ _ _ S). fold (cap d1).
  change (2 ^ 62) with 4611686018427387904 in *. unfold small61 in *. change (2 ^ 61) with 2305843009213693952 in *.
  rewrite (src_next d1 (tail d1)) by (change (2 ^ 63) with 9223372036854775808; lia).
  rewrite (wrap64 (count d + 1)) by lia. rewrite Hk. reflexivity.
Qed.

Lemma src_push_front (d : @deque Z) a :
  cap d < 2 ^ 62 -> minCap d < 2 ^ 62 -> small61 (count d) -> small61 (head d) ->
  go_Deque_PushFront (minCap d) (buf d) (head d) (tail d) (count d) a = lift_d push_fields (push_front 0 d a).
Proof.
  intros Hc Hm Hn Hh. unfold go_Deque_PushFront, push_front, Model.bind.
  rewrite src_grow by assumption.
  destruct (grow_if_full 0 d) as [d1|] eqn:G; [|reflexivity]. cbn [lift_d bind]. cbv zeta.
  pose proof (grow_cap d d1 G Hc Hm Hn) as Hc1. pose proof (grow_keeps d d1 G) as Hk.
  assert (Hh1 : small61 (head d1)).
  { unfold grow_if_full, Model.bind in G. destruct (negb (count d =? cap d)); [injection G as <-; assumption|].
    destruct (cap d =? 0).
    - destruct (make 0 _); [|discriminate]. injection G as <-. assumption.
    - unfold resize, Model.bind in G. destruct (make 0 _); [|discriminate].
      destruct (tail d >? head d).
      + destruct (slice _ _ _); [|discriminate]. injection G as <-. unfold small61. cbn. lia.
      + destruct (slice _ _ _); [|discriminate]. destruct (slice _ _ _); [|discriminate]. injection G as <-. unfold small61. cbn. lia. }
  change (2 ^ 62) with 4611686018427387904 in *. unfold small61 in *. change (2 ^ 61) with 2305843009213693952 in *.
  rewrite cap_len. rewrite (src_prev d1 (head d1)) by (change (2 ^ 63) with 9223372036854775808; lia).
  rewrite setz_update. destruct (setz (buf d1) (prev d1 (head d1)) a) as [b|]; [|reflexivity]. cbn [bind lift_d push_fields].
  rewrite (wrap64 (count d + 1)) by lia. rewrite Hk. reflexivity.
Qed.

(* PopFront / PopBack: the element, then the fields in the order the translation returns them;
   the explicit panic of the empty deque is the model's step (count <= 0: OPanic) *)
Lemma src_pop_front (d : @deque Z) :
  cap d < 2 ^ 62 -> small61 (count d) -> small61 (head d) -> 0 < count d ->
  go_Deque_PopFront (buf d) (head d) (count d) (tail d) (minCap d) =
  match pop_front 0 d with
  | Some (d2, ret) => Ok (ret, buf d2, head d2, count d2, tail d2)
  | None => Panic
  end.
Proof.
  intros Hc Hn Hh Hpos. unfold go_Deque_PopFront, pop_front, Model.bind.
  destruct (Z.leb_spec (count d) 0); [lia|].
  rewrite getz_index. destruct (getz (buf d) (head d)) as [ret|]; [|reflexivity]. cbn [bind].
  rewrite setz_update. destruct (setz (buf d) (head d) 0) as [b|] eqn:S; [|reflexivity]. cbn [bind].
  unfold go_len. fold (zlen b). rewrite (setz_length _ _ _ _ S). fold (cap d).
  change (2 ^ 62) with 4611686018427387904 in *. unfold small61 in *. change (2 ^ 61) with 2305843009213693952 in *.
  rewrite (src_next d (head d)) by (change (2 ^ 63) with 9223372036854775808; lia).
  rewrite (wrap64 (count d - 1)) by lia.
  set (d' := mkDeque b (next d (head d)) (tail d) (count d - 1) (minCap d)).
  change (go_Deque_shrinkIfExcess (next d (head d)) (tail d) b (minCap d) (count d - 1))
    with (go_Deque_shrinkIfExcess (head d') (tail d') (buf d') (minCap d') (count d')).
  rewrite src_shrink by (unfold small61, d'; cbn [count]; change (2 ^ 61) with 2305843009213693952; lia).
  destruct (shrink_if_excess 0 d') as [d2|] eqn:E; [|reflexivity]. cbn [lift_d bind].
  destruct (shrink_keeps d' d2 E) as [-> _]. reflexivity.
Qed.

Lemma src_pop_back (d : @deque Z) :
  cap d < 2 ^ 62 -> small61 (count d) -> small61 (tail d) -> 0 < count d ->
  go_Deque_PopBack (tail d) (buf d) (count d) (head d) (minCap d) =
  match pop_back 0 d with
  | Some (d2, ret) => Ok (ret, tail d2, buf d2, count d2, head d2)
  | None => Panic
  end.
Proof.
  intros Hc Hn Ht Hpos. unfold go_Deque_PopBack, pop_back, Model.bind. cbv zeta.
  destruct (Z.leb_spec (count d) 0); [lia|].
  change (2 ^ 62) with 4611686018427387904 in *. unfold small61 in *. change (2 ^ 61) with 2305843009213693952 in *.
  rewrite cap_len. rewrite (src_prev d (tail d)) by (change (2 ^ 63) with 9223372036854775808; lia).
  rewrite getz_index. destruct (getz (buf d) (prev d (tail d))) as [ret|]; [|reflexivity]. cbn [bind].
  rewrite setz_update. destruct (setz (buf d) (prev d (tail d)) 0) as [b|] eqn:S; [|reflexivity]. cbn [bind].
  rewrite (wrap64 (count d - 1)) by lia.
  set (d' := mkDeque b (head d) (prev d (tail d)) (count d - 1) (minCap d)).
  change (go_Deque_shrinkIfExcess (head d) (prev d (tail d)) b (minCap d) (count d - 1))
    with (go_Deque_shrinkIfExcess (head d') (tail d') (buf d') (minCap d') (count d')).
  rewrite src_shrink by (unfold small61, d'; cbn [count]; change (2 ^ 61) with 2305843009213693952; lia).
  destruct (shrink_if_excess 0 d') as [d2|] eqn:E; [|reflexivity]. cbn [lift_d bind].
  destruct (shrink_keeps d' d2 E) as [-> _]. reflexivity.
Qed.

(* ------------------------------------------------------------------ the other calls, and step
   Front, Back, At, Set, Clear (its loop), SetMinCapacity; then every operation of the model's
   [step] at once *)
Lemma src_shl1 e : 0 <= e ->
  (Z.shiftl 1 (Z.min e 64) + 9223372036854775808) mod 18446744073709551616 - 9223372036854775808 = shl1 e.
Proof.
  intros He. unfold shl1. rewrite Z.shiftl_1_l.
  destruct (Z.ltb_spec e 63) as [Hlt|Hge].
  - replace (0 <=? e) with true by (symmetry; apply Z.leb_le; lia). cbn [andb].
    rewrite Z.min_l by lia.
    assert (0 < 2 ^ e) by (apply Z.pow_pos_nonneg; lia).
    assert (2 ^ e < 2 ^ 63) by (apply Z.pow_lt_mono_r; lia).
    change (2 ^ 63) with 9223372036854775808 in *. apply wrap64. lia.
  - rewrite andb_false_r. destruct (Z.eqb_spec e 63) as [->|Hne]; [reflexivity|].
    rewrite Z.min_r by lia. reflexivity.
Qed.

Lemma src_set_min_cap (d : @deque Z) e : 0 <= e ->
  go_Deque_SetMinCapacity (minCap d) e = minCap (set_min_cap d e).
Proof.
  intros He. unfold go_Deque_SetMinCapacity, set_min_cap. cbv zeta. cbn [minCap].
  rewrite src_shl1 by assumption. reflexivity.
Qed.

Lemma clear_loop_spec m t : 0 <= m < 2 ^ 62 -> forall f h b, small62 h ->
  match go_Deque_Clear_loop1 (S f) t m (h, b) with
  | Ok (inl (h', b')) => h' = t /\ clear_loop 0 f b h t m = Some b'
  | Ok (inr _) => False
  | Panic => clear_loop 0 f b h t m = None
  | OutOfFuel => clear_loop 0 f b h t m = None
  end.
Proof.
  intros Hm. unfold small62. change (2 ^ 62) with 4611686018427387904 in *.
  change (2 ^ 61) with 2305843009213693952 in *.
  unfold go_Deque_Clear_loop1.
  induction f as [|f IH]; intros h b Hh; rewrite go_loop_S; unfold go_Deque_Clear_loop1_body at 1.
  - cbn [clear_loop]. destruct (Z.eqb_spec h t) as [->|Hne]; cbn [negb]; [split; reflexivity|].
    rewrite setz_update. destruct (setz b h 0); reflexivity.
  - cbn [clear_loop]. destruct (Z.eqb_spec h t) as [->|Hne]; cbn [negb]; [split; reflexivity|].
    rewrite setz_update. unfold Model.bind. destruct (setz b h 0) as [b1|]; [|reflexivity]. cbn [bind].
    rewrite (wrap64 (h + 1)) by lia.
    pose proof (land_m_range m Hm (h + 1)).
    apply IH. lia.
Qed.

(* one call on the deque [d], made with the translated methods on d's fields; the fields the
   source assigned are put back in the place the translation returns them.  Clear runs its
   loop for at most len(q.buf)+1 iterations (as the model does), Rotate for |count| *)
Definition go_step (d : @deque Z) (o : op Z) : outcome (@deque Z * out Z) :=
  match o with
  | PushBack a =>
      bind (go_Deque_PushBack (minCap d) (buf d) (head d) (tail d) (count d) a)
           (fun '(m, b, h, t, c) => Ok (mkDeque b h t c m, ONone))
  | PushFront a =>
      bind (go_Deque_PushFront (minCap d) (buf d) (head d) (tail d) (count d) a)
           (fun '(m, b, h, t, c) => Ok (mkDeque b h t c m, ONone))
  | PopFront =>
      bind (go_Deque_PopFront (buf d) (head d) (count d) (tail d) (minCap d))
           (fun '(v, b, h, c, t) => Ok (mkDeque b h t c (minCap d), OVal v))
  | PopBack =>
      bind (go_Deque_PopBack (tail d) (buf d) (count d) (head d) (minCap d))
           (fun '(v, t, b, c, h) => Ok (mkDeque b h t c (minCap d), OVal v))
  | Front => bind (go_Deque_Front (count d) (buf d) (head d)) (fun v => Ok (d, OVal v))
  | Back => bind (go_Deque_Back (count d) (buf d) (tail d)) (fun v => Ok (d, OVal v))
  | At i => bind (go_Deque_At (count d) (buf d) (head d) i) (fun v => Ok (d, OVal v))
  | SetAt i a =>
      bind (go_Deque_Set (buf d) (count d) (head d) i a)
           (fun b => Ok (mkDeque b (head d) (tail d) (count d) (minCap d), ONone))
  | Clear =>
      bind (go_Deque_Clear (S (S (length (buf d)))) (buf d) (head d) (tail d) (count d))
           (fun '(b, h, t, c) => Ok (mkDeque b h t c (minCap d), ONone))
  | Rotate n =>
      bind (go_Deque_Rotate (S (Z.to_nat (Z.abs (count d)))) (head d) (tail d) (buf d) (count d) n)
           (fun '(h, t, b) => Ok (mkDeque b h t (count d) (minCap d), ONone))
  | SetMinCap e =>
      Ok (mkDeque (buf d) (head d) (tail d) (count d) (go_Deque_SetMinCapacity (minCap d) e), ONone)
  end.

(* the arguments are Go values of their types (int, uint); Rotate's tie is for an allocated buffer *)
Definition arg_ok (d : @deque Z) (o : op Z) : Prop :=
  match o with
  | At i | SetAt i _ => - 2 ^ 63 <= i < 2 ^ 63
  | Rotate n => - 2 ^ 63 <= n < 2 ^ 63 /\ 0 < cap d
  | SetMinCap e => 0 <= e
  | _ => True
  end.

Lemma eta_deque (d : @deque Z) : mkDeque (buf d) (head d) (tail d) (count d) (minCap d) = d.
Proof. destruct d; reflexivity. Qed.

Lemma src_step (d : @deque Z) (o : op Z) :
  cap d < 2 ^ 62 -> minCap d < 2 ^ 62 -> small61 (count d) -> small61 (head d) -> small61 (tail d) ->
  arg_ok d o ->
  match go_step d o with
  | Ok r => Model.step 0 d o = r
  | Panic => Model.step 0 d o = (d, OPanic) \/ Model.step 0 d o = (d, OCrash)
  | OutOfFuel => Model.step 0 d o = (d, OCrash)
  end.
Proof.
  intros Hc Hm Hn Hh Ht Ha.
  destruct o as [a|a| | | | |i|i a| |n|e]; unfold go_step, Model.step, crash_or.
  - rewrite src_push_back by assumption.
    destruct (push_back 0 d a) as [d'|]; cbn; [rewrite eta_deque; reflexivity|right; reflexivity].
  - rewrite src_push_front by assumption.
    destruct (push_front 0 d a) as [d'|]; cbn; [rewrite eta_deque; reflexivity|right; reflexivity].
  - destruct (Z.leb_spec (count d) 0) as [Hle|Hgt].
    + unfold go_Deque_PopFront. replace (count d <=? 0) with true by (symmetry; apply Z.leb_le; lia).
      left; reflexivity.
    + rewrite src_pop_front by assumption.
      pose proof (fun d' d2 H => proj2 (shrink_keeps d' d2 H)) as K.
      destruct (pop_front 0 d) as [[d2 v]|] eqn:E; cbn; [|right; reflexivity].
      replace (minCap d) with (minCap d2); [rewrite eta_deque; reflexivity|].
      revert E. unfold pop_front, Model.bind. destruct (getz _ _); [|discriminate].
      destruct (setz _ _ _); [|discriminate].
      destruct (shrink_if_excess 0 _) as [d3|] eqn:S3; [|discriminate].
      intros E. injection E as <- _. exact (K _ _ S3).
  - destruct (Z.leb_spec (count d) 0) as [Hle|Hgt].
    + unfold go_Deque_PopBack. replace (count d <=? 0) with true by (symmetry; apply Z.leb_le; lia).
      left; reflexivity.
    + rewrite src_pop_back by assumption.
      pose proof (fun d' d2 H => proj2 (shrink_keeps d' d2 H)) as K.
      destruct (pop_back 0 d) as [[d2 v]|] eqn:E; cbn; [|right; reflexivity].
      replace (minCap d) with (minCap d2); [rewrite eta_deque; reflexivity|].
      revert E. unfold pop_back, Model.bind. cbv zeta. destruct (getz _ _); [|discriminate].
      destruct (setz _ _ _); [|discriminate].
      destruct (shrink_if_excess 0 _) as [d3|] eqn:S3; [|discriminate].
      intros E. injection E as <- _. exact (K _ _ S3).
  - unfold go_Deque_Front. destruct (count d <=? 0); [left; reflexivity|].
    rewrite getz_index. destruct (getz (buf d) (head d)); cbn; [reflexivity|right; reflexivity].
  - unfold go_Deque_Back. destruct (count d <=? 0); [left; reflexivity|].
    unfold small61 in *. change (2 ^ 62) with 4611686018427387904 in *. change (2 ^ 61) with 2305843009213693952 in *.
    rewrite cap_len, (src_prev d (tail d)) by (change (2 ^ 63) with 9223372036854775808; lia).
    rewrite getz_index. destruct (getz (buf d) (prev d (tail d))); cbn; [reflexivity|right; reflexivity].
  - unfold go_Deque_At. destruct ((i <? 0) || (i >=? count d)) eqn:G; [left; reflexivity|].
    apply orb_false_elim in G. destruct G as [G1 G2]. apply Z.ltb_ge in G1. rewrite Z.geb_leb in G2. apply Z.leb_gt in G2.
    pose proof (cap_range d).
    unfold small61 in *. change (2 ^ 62) with 4611686018427387904 in *. change (2 ^ 61) with 2305843009213693952 in *.
    rewrite cap_len, (wrap64 (head d + i)), (wrap64 (cap d - 1)) by lia. fold (mask d (head d + i)).
    rewrite getz_index. destruct (getz (buf d) (mask d (head d + i))); cbn; [reflexivity|right; reflexivity].
  - unfold go_Deque_Set. destruct ((i <? 0) || (i >=? count d)) eqn:G; [left; reflexivity|].
    apply orb_false_elim in G. destruct G as [G1 G2]. apply Z.ltb_ge in G1. rewrite Z.geb_leb in G2. apply Z.leb_gt in G2.
    pose proof (cap_range d).
    unfold small61 in *. change (2 ^ 62) with 4611686018427387904 in *. change (2 ^ 61) with 2305843009213693952 in *.
    rewrite cap_len, (wrap64 (head d + i)), (wrap64 (cap d - 1)) by lia. fold (mask d (head d + i)).
    rewrite setz_update. destruct (setz (buf d) (mask d (head d + i)) a); cbn; [reflexivity|right; reflexivity].
  - unfold go_Deque_Clear, clear. cbv zeta.
    pose proof (cap_range d).
    unfold small61 in *. change (2 ^ 62) with 4611686018427387904 in *. change (2 ^ 61) with 2305843009213693952 in *.
    rewrite cap_len, (wrap64 (cap d - 1)) by lia.
    destruct (Z.eq_dec (cap d) 0) as [C0|C0].
    + (* no buffer: modBits = -1, and the first write, if any, is out of range *)
      assert (B : buf d = nil).
      { destruct d as [[|x b] ? ? ? ?]; [reflexivity|]. unfold cap, zlen in C0. cbn in C0. lia. }
      rewrite B. cbn [length]. unfold go_Deque_Clear_loop1. rewrite go_loop_S.
      unfold go_Deque_Clear_loop1_body. cbn [clear_loop]. rewrite setz_update.
      assert (N : setz (@nil Z) (head d) 0 = None).
      { unfold setz, zlen. cbn [length]. destruct (Z.leb_spec 0 (head d)), (Z.ltb_spec (head d) (Z.of_nat 0));
          cbn; try reflexivity; lia. }
      rewrite N. destruct (head d =? tail d); cbn; [reflexivity|right; reflexivity].
    + assert (Hmm : 0 <= cap d - 1 < 2 ^ 62) by (change (2 ^ 62) with 4611686018427387904; lia).
      pose proof (clear_loop_spec (cap d - 1) (tail d) Hmm (S (length (buf d))) (head d) (buf d)) as L.
      destruct (go_Deque_Clear_loop1 _ _ _ _) as [[[h' b']|x]| |].
      * destruct L as [_ ->]; [unfold small62; change (2 ^ 62) with 4611686018427387904; lia|]. reflexivity.
      * exfalso. apply L. unfold small62; change (2 ^ 62) with 4611686018427387904; lia.
      * rewrite L by (unfold small62; change (2 ^ 62) with 4611686018427387904; lia). right; reflexivity.
      * rewrite L by (unfold small62; change (2 ^ 62) with 4611686018427387904; lia). reflexivity.
  - destruct Ha as [Hn0 Hcap].
    unfold small61 in *. change (2 ^ 61) with 2305843009213693952 in *.
    pose proof (src_rotate d n (S (Z.to_nat (Z.abs (count d))))) as R.
    unfold small62 in R. change (2 ^ 62) with 4611686018427387904 in *.
    specialize (R ltac:(lia) ltac:(lia) Hn0 ltac:(lia) ltac:(lia) ltac:(lia)).
    destruct (go_Deque_Rotate _ _ _ _ _ _) as [[[h t] b]| |]; cbn [bind].
    + rewrite R. reflexivity.
    + rewrite R. right; reflexivity.
    + contradiction.
  - rewrite src_set_min_cap by exact Ha. reflexivity.
Qed.
