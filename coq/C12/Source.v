(* C12 — the ring-index helpers regenerated from collections/queue/deque.go by tools/gofunc
   (Generated/Deque.v: Deque.prev, Deque.next, Deque.Len, Deque.Cap, UnboundedQueue.Len; int
   arithmetic wrapped to 64 bit, len(q.buf) as the parameter n_q_buf) coincide with the
   hand-written model's prev / next / count / cap / qlen on every deque whose indices stay inside int64
   (the model works in Z; a slice length always is below 2^63), and on a power-of-two buffer
   they are the modular successor / predecessor the ring buffer relies on. *)
From Coq Require Import ZArith List Bool Lia.
From FV Require Import Generated.Consts Generated.Deque Lib.Bits C12.Spec C12.Model.
Open Scope Z_scope.

Ltac Zify.zify_post_hook ::= Z.div_mod_to_equations.

Lemma wrap64 x : - 9223372036854775808 <= x < 9223372036854775808 ->
  (x + 9223372036854775808) mod 18446744073709551616 - 9223372036854775808 = x.
Proof. intros H. lia. Qed.

Lemma cap_range {A} (d : @deque A) : 0 <= cap d.
Proof. unfold cap, zlen. lia. Qed.

Lemma src_next {A} (d : @deque A) i : cap d < 2 ^ 63 -> - 2 ^ 63 <= i < 2 ^ 63 - 1 ->
  go_Deque_next (cap d) i = next d i.
Proof.
  intros Hc Hi. pose proof (cap_range d). change (2 ^ 63) with 9223372036854775808 in *.
  unfold go_Deque_next, next, mask. rewrite !wrap64 by lia. reflexivity.
Qed.

Lemma src_prev {A} (d : @deque A) i : cap d < 2 ^ 63 -> - 2 ^ 63 < i < 2 ^ 63 ->
  go_Deque_prev (cap d) i = prev d i.
Proof.
  intros Hc Hi. pose proof (cap_range d). change (2 ^ 63) with 9223372036854775808 in *.
  unfold go_Deque_prev, prev, mask. rewrite !wrap64 by lia. reflexivity.
Qed.

Lemma src_len_cap {A} (d : @deque A) :
  go_Deque_Len (count d) = count d /\ go_Deque_Cap (cap d) = cap d.
Proof. split; reflexivity. Qed.

Lemma src_uq_len {A} (q : @uq A) : go_UnboundedQueue_Len (qlen q) = qlen q.
Proof. reflexivity. Qed.

(* on a buffer of 2^k slots the translated helpers step round the ring *)
Lemma src_next_mod k i : 0 <= k < 63 -> 0 <= i < 2 ^ k ->
  go_Deque_next (2 ^ k) i = (i + 1) mod 2 ^ k.
Proof.
  intros Hk Hi.
  assert (Hp : 2 ^ k < 2 ^ 63) by (apply Z.pow_lt_mono_r; lia).
  change (2 ^ 63) with 9223372036854775808 in Hp.
  unfold go_Deque_next. rewrite !wrap64 by lia. apply land_ones_mod. lia.
Qed.

Lemma src_prev_mod k i : 0 <= k < 63 -> 0 <= i < 2 ^ k ->
  go_Deque_prev (2 ^ k) i = (i - 1) mod 2 ^ k.
Proof.
  intros Hk Hi.
  assert (Hp : 2 ^ k < 2 ^ 63) by (apply Z.pow_lt_mono_r; lia).
  change (2 ^ 63) with 9223372036854775808 in Hp.
  unfold go_Deque_prev. rewrite !wrap64 by lia. apply land_ones_mod. lia.
Qed.

(* next and prev undo each other on the ring *)
Lemma src_prev_next k i : 0 <= k < 63 -> 0 <= i < 2 ^ k ->
  go_Deque_prev (2 ^ k) (go_Deque_next (2 ^ k) i) = i /\
  go_Deque_next (2 ^ k) (go_Deque_prev (2 ^ k) i) = i.
Proof.
  intros Hk Hi.
  assert (Hpos : 0 < 2 ^ k) by (apply Z.pow_pos_nonneg; lia).
  split.
  - rewrite src_next_mod by assumption.
    rewrite src_prev_mod by (try assumption; apply Z.mod_pos_bound; assumption).
    rewrite Zminus_mod_idemp_l. replace (i + 1 - 1) with i by lia. apply Z.mod_small. assumption.
  - rewrite src_prev_mod by assumption.
    rewrite src_next_mod by (try assumption; apply Z.mod_pos_bound; assumption).
    rewrite Zplus_mod_idemp_l. replace (i - 1 + 1) with i by lia. apply Z.mod_small. assumption.
Qed.

(* the statements Properties.v exports *)
Lemma src_is_model (A : Type) (d : @deque A) i :
  cap d < 2 ^ 63 -> - 2 ^ 63 < i < 2 ^ 63 - 1 ->
  go_Deque_next (cap d) i = next d i /\ go_Deque_prev (cap d) i = prev d i /\
  go_Deque_Len (count d) = count d /\ go_Deque_Cap (cap d) = cap d.
Proof.
  intros Hc Hi. split; [apply src_next; lia|]. split; [apply src_prev; lia|]. exact (src_len_cap d).
Qed.

Lemma src_ring_step k i : 0 <= k < 63 -> 0 <= i < 2 ^ k ->
  go_Deque_next (2 ^ k) i = (i + 1) mod 2 ^ k /\ go_Deque_prev (2 ^ k) i = (i - 1) mod 2 ^ k /\
  go_Deque_prev (2 ^ k) (go_Deque_next (2 ^ k) i) = i /\
  go_Deque_next (2 ^ k) (go_Deque_prev (2 ^ k) i) = i.
Proof.
  intros Hk Hi. split; [exact (src_next_mod k i Hk Hi)|]. split; [exact (src_prev_mod k i Hk Hi)|].
  exact (src_prev_next k i Hk Hi).
Qed.

(* ------------------------------------------------------------------ memory
   The translated source works on lists of tokens (interface{} values are Z, nil = 0): the
   model is taken at A := Z, nilv := 0, and its getz / setz are go_index / go_update. *)
From FV Require Import Lib.GoSem.

Lemma upd_list_upd (l : list Z) k v : upd l k v = list_upd l k v.
Proof. reflexivity. Qed.   (* the same fixpoint *)

Lemma getz_index (l : list Z) i :
  go_index l i = match getz l i with Some x => Ok x | None => Panic end.
Proof.
  unfold go_index, getz, go_len, zlen.
  destruct ((0 <=? i) && (i <? Z.of_nat (length l))) eqn:E; [|reflexivity].
  apply andb_prop in E. destruct E as [E1 E2]. apply Z.leb_le in E1. apply Z.ltb_lt in E2.
  rewrite (nth_error_nth' l 0) by lia. reflexivity.
Qed.

Lemma setz_update (l : list Z) i v :
  go_update l i v = match setz l i v with Some l' => Ok l' | None => Panic end.
Proof.
  unfold go_update, setz, go_len, zlen.
  destruct ((0 <=? i) && (i <? Z.of_nat (length l))); reflexivity.
Qed.

Lemma setz_length (l : list Z) i v l' : setz l i v = Some l' -> zlen l' = zlen l.
Proof.
  unfold setz. destruct ((0 <=? i) && (i <? zlen l)); [|discriminate]. intros H. injection H as <-.
  unfold zlen. f_equal. exact (list_upd_length l (Z.to_nat i) v).
Qed.

(* ------------------------------------------------------------------ Rotate
   All of Deque.Rotate (Generated/Deque.v, "Deque.Rotate#prefix": the early returns,
   n %= q.count, modBits, the full-buffer fast path, and the two element-moving loops with
   their writes to q.buf, q.head, q.tail) is the model's rotate: whatever return statement is
   reached, the deque then has the head, tail and buffer the translated source assigned; the
   source panics (index out of range) exactly when the model crashes. *)

Definition rot_state (r : frag (Z * Z * list Z) (Z * Z * Z * Z * list Z)) : Z * Z * list Z :=
  match r with
  | Returned _ w => w
  | Reached (_, _, h, t, b) => (h, t, b)
  end.

Definition small62 (x : Z) : Prop := - 2 ^ 62 < x < 2 ^ 62.

Section RotateLoops.
  Variable m : Z.                      (* modBits *)
  Hypothesis Hm : 0 <= m < 2 ^ 62.

  Lemma land_m_range x : 0 <= Z.land x m <= m.
  Proof.
    split; [apply Z.land_nonneg; right; lia|].
    assert (H0 : Z.ldiff (Z.ldiff m x) m = 0).
    { apply Z.bits_inj'. intros n Hn. rewrite !Z.ldiff_spec, Z.bits_0.
      destruct (Z.testbit m n), (Z.testbit x n); reflexivity. }
    pose proof (Z.sub_nocarry_ldiff m (Z.ldiff m x) H0) as Hs.
    assert (Hl : Z.ldiff m (Z.ldiff m x) = Z.land x m).
    { apply Z.bits_inj'. intros n Hn. rewrite Z.land_spec, !Z.ldiff_spec.
      destruct (Z.testbit m n), (Z.testbit x n); reflexivity. }
    assert (Hp : 0 <= Z.ldiff m x) by (apply Z.ldiff_nonneg; left; lia).
    lia.
  Qed.

  Lemma loop1_spec : forall k fuel h t b, (k < fuel)%nat -> small62 h -> small62 t -> Z.of_nat k < 2 ^ 62 ->
    go_Deque_Rotate_prefix_loop1 fuel m (- Z.of_nat k, h, t, b) =
    match rot_back_to_front 0 k b h t m with
    | Some (b', h', t') => Ok (inl (0, h', t', b'))
    | None => Panic
    end.
  Proof.
    unfold go_Deque_Rotate_prefix_loop1, small62.
    change (2 ^ 62) with 4611686018427387904 in *.
    induction k as [|k IH]; intros fuel h t b Hf Hh Ht Hk; (destruct fuel as [|fuel]; [lia|]).
    - rewrite go_loop_S. cbn. reflexivity.
    - rewrite go_loop_S. unfold go_Deque_Rotate_prefix_loop1_body at 1.
      destruct (Z.ltb_spec (- Z.of_nat (S k)) 0); [|lia].
      rewrite (wrap64 (h - 1)), (wrap64 (t - 1)) by lia.
      cbn [rot_back_to_front]. unfold Model.bind.
      pose proof (land_m_range (h - 1)). pose proof (land_m_range (t - 1)).
      rewrite getz_index. destruct (getz b (Z.land (t - 1) m)) as [x|]; [|reflexivity]. cbn [GoSem.bind].
      rewrite setz_update. destruct (setz b (Z.land (h - 1) m) x) as [b1|]; [|reflexivity]. cbn [GoSem.bind].
      rewrite setz_update. destruct (setz b1 (Z.land (t - 1) m) 0) as [b2|]; [|reflexivity]. cbn [GoSem.bind].
      rewrite (wrap64 (- Z.of_nat (S k) + 1)) by lia.
      replace (- Z.of_nat (S k) + 1) with (- Z.of_nat k) by lia.
      apply IH; lia.
  Qed.

  Lemma loop2_spec : forall k fuel h t b, (k < fuel)%nat -> small62 h -> small62 t -> Z.of_nat k < 2 ^ 62 ->
    go_Deque_Rotate_prefix_loop2 fuel m (Z.of_nat k, h, t, b) =
    match rot_front_to_back 0 k b h t m with
    | Some (b', h', t') => Ok (inl (0, h', t', b'))
    | None => Panic
    end.
  Proof.
    unfold go_Deque_Rotate_prefix_loop2, small62.
    change (2 ^ 62) with 4611686018427387904 in *.
    induction k as [|k IH]; intros fuel h t b Hf Hh Ht Hk; (destruct fuel as [|fuel]; [lia|]).
    - rewrite go_loop_S. cbn. reflexivity.
    - rewrite go_loop_S. unfold go_Deque_Rotate_prefix_loop2_body at 1.
      destruct (Z.gtb_spec (Z.of_nat (S k)) 0); [|lia].
      cbn [rot_front_to_back]. unfold Model.bind.
      rewrite getz_index. destruct (getz b h) as [x|]; [|reflexivity]. cbn [GoSem.bind].
      rewrite setz_update. destruct (setz b t x) as [b1|]; [|reflexivity]. cbn [GoSem.bind].
      rewrite setz_update. destruct (setz b1 h 0) as [b2|]; [|reflexivity]. cbn [GoSem.bind].
      rewrite (wrap64 (h + 1)), (wrap64 (t + 1)), (wrap64 (Z.of_nat (S k) - 1)) by lia.
      replace (Z.of_nat (S k) - 1) with (Z.of_nat k) by lia.
      pose proof (land_m_range (h + 1)). pose proof (land_m_range (t + 1)).
      apply IH; lia.
  Qed.
End RotateLoops.

Lemma src_rotate (d : @deque Z) n0 fuel :
  0 < cap d < 2 ^ 62 -> small62 (count d) -> - 2 ^ 63 <= n0 < 2 ^ 63 ->
  small62 (head d) -> small62 (tail d) -> (Z.to_nat (Z.abs (count d)) < fuel)%nat ->
  match go_Deque_Rotate_prefix fuel (head d) (tail d) (buf d) (count d) n0 with
  | Ok r => let '(h, t, b) := rot_state r in rotate 0 d n0 = Some (mkDeque b h t (count d) (minCap d))
  | Panic => rotate 0 d n0 = None
  | OutOfFuel => False
  end.
Proof.
  unfold small62. intros Hc Hn H0 Hh Ht Hf.
  change (2 ^ 63) with 9223372036854775808 in *. change (2 ^ 62) with 4611686018427387904 in *.
  unfold rotate, go_Deque_Rotate_prefix. cbv zeta.
  destruct (Z.leb_spec (count d) 1) as [|Hgt]; [destruct d; reflexivity|].
  rewrite go_rem_ok by lia. cbn [GoSem.bind].
  assert (Hr : Z.abs (Z.rem n0 (count d)) < count d).
  { pose proof (Z.rem_bound_abs n0 (count d) ltac:(lia)). lia. }
  rewrite (wrap64 (Z.rem n0 (count d))) by lia.
  destruct (Z.rem n0 (count d) =? 0) eqn:E0; [destruct d; reflexivity|].
  unfold go_len. fold (zlen (buf d)). fold (cap d).
  rewrite (wrap64 (cap d - 1)) by lia.
  destruct (head d =? tail d).
  - rewrite (wrap64 (head d + Z.rem n0 (count d))), (wrap64 (tail d + Z.rem n0 (count d))) by lia.
    reflexivity.
  - assert (Hm : 0 <= cap d - 1 < 4611686018427387904) by lia.
    destruct (Z.ltb_spec (Z.rem n0 (count d)) 0) as [Hneg|Hpos]; unfold Model.bind.
    + pose proof (loop1_spec (cap d - 1) Hm (Z.to_nat (- Z.rem n0 (count d))) fuel (head d) (tail d) (buf d)) as L.
      replace (- Z.of_nat (Z.to_nat (- Z.rem n0 (count d)))) with (Z.rem n0 (count d)) in L by lia.
      rewrite L by (unfold small62; lia).
      destruct (rot_back_to_front 0 _ _ _ _ _) as [[[b h] t]|]; reflexivity.
    + pose proof (loop2_spec (cap d - 1) Hm (Z.to_nat (Z.rem n0 (count d))) fuel (head d) (tail d) (buf d)) as L.
      replace (Z.of_nat (Z.to_nat (Z.rem n0 (count d)))) with (Z.rem n0 (count d)) in L by lia.
      rewrite L by (unfold small62; lia).
      destruct (rot_front_to_back 0 _ _ _ _ _) as [[[b h] t]|]; reflexivity.
Qed.
