(* C12 — the ring-index helpers regenerated from collections/queue/deque.go by tools/gofunc
   (Generated/Deque.v: Deque.prev, Deque.next, Deque.Len, Deque.Cap, UnboundedQueue.Len; int
   arithmetic wrapped to 64 bit, len(q.buf) as the parameter n_q_buf) coincide with the
   hand-written model's prev / next / count / cap / qlen on every deque whose indices stay inside int64
   (the model works in Z; a slice length always is below 2^63), and on a power-of-two buffer
   they are the modular successor / predecessor the ring buffer relies on. *)
From Coq Require Import ZArith List Bool Lia.
From FV Require Import Generated.Consts Generated.Deque Lib.Bits C12.Spec C12.Model.
Open Scope Z_scope.

Ltac Zify.zify_post_hook ::= Z.div_mod_to_equations.

Lemma wrap64 x : - 9223372036854775808 <= x < 9223372036854775808 ->
  (x + 9223372036854775808) mod 18446744073709551616 - 9223372036854775808 = x.
Proof. intros H. lia. Qed.

Lemma cap_range {A} (d : @deque A) : 0 <= cap d.
Proof. unfold cap, zlen. lia. Qed.

Lemma src_next {A} (d : @deque A) i : cap d < 2 ^ 63 -> - 2 ^ 63 <= i < 2 ^ 63 - 1 ->
  go_Deque_next (cap d) i = next d i.
Proof.
  intros Hc Hi. pose proof (cap_range d). change (2 ^ 63) with 9223372036854775808 in *.
  unfold go_Deque_next, next, mask. rewrite !wrap64 by lia. reflexivity.
Qed.

Lemma src_prev {A} (d : @deque A) i : cap d < 2 ^ 63 -> - 2 ^ 63 < i < 2 ^ 63 ->
  go_Deque_prev (cap d) i = prev d i.
Proof.
  intros Hc Hi. pose proof (cap_range d). change (2 ^ 63) with 9223372036854775808 in *.
  unfold go_Deque_prev, prev, mask. rewrite !wrap64 by lia. reflexivity.
Qed.

Lemma src_len_cap {A} (d : @deque A) :
  go_Deque_Len (count d) = count d /\ go_Deque_Cap (cap d) = cap d.
Proof. split; reflexivity. Qed.

Lemma src_uq_len {A} (q : @uq A) : go_UnboundedQueue_Len (qlen q) = qlen q.
Proof. reflexivity. Qed.

(* on a buffer of 2^k slots the translated helpers step round the ring *)
Lemma src_next_mod k i : 0 <= k < 63 -> 0 <= i < 2 ^ k ->
  go_Deque_next (2 ^ k) i = (i + 1) mod 2 ^ k.
Proof.
  intros Hk Hi.
  assert (Hp : 2 ^ k < 2 ^ 63) by (apply Z.pow_lt_mono_r; lia).
  change (2 ^ 63) with 9223372036854775808 in Hp.
  unfold go_Deque_next. rewrite !wrap64 by lia. apply land_ones_mod. lia.
Qed.

Lemma src_prev_mod k i : 0 <= k < 63 -> 0 <= i < 2 ^ k ->
  go_Deque_prev (2 ^ k) i = (i - 1) mod 2 ^ k.
Proof.
  intros Hk Hi.
  assert (Hp : 2 ^ k < 2 ^ 63) by (apply Z.pow_lt_mono_r; lia).
  change (2 ^ 63) with 9223372036854775808 in Hp.
  unfold go_Deque_prev. rewrite !wrap64 by lia. apply land_ones_mod. lia.
Qed.

(* next and prev undo each other on the ring *)
Lemma src_prev_next k i : 0 <= k < 63 -> 0 <= i < 2 ^ k ->
  go_Deque_prev (2 ^ k) (go_Deque_next (2 ^ k) i) = i /\
  go_Deque_next (2 ^ k) (go_Deque_prev (2 ^ k) i) = i.
Proof.
  intros Hk Hi.
  assert (Hpos : 0 < 2 ^ k) by (apply Z.pow_pos_nonneg; lia).
  split.
  - rewrite src_next_mod by assumption.
    rewrite src_prev_mod by (try assumption; apply Z.mod_pos_bound; assumption).
    rewrite Zminus_mod_idemp_l. replace (i + 1 - 1) with i by lia. apply Z.mod_small. assumption.
  - rewrite src_prev_mod by assumption.
    rewrite src_next_mod by (try assumption; apply Z.mod_pos_bound; assumption).
    rewrite Zplus_mod_idemp_l. replace (i - 1 + 1) with i by lia. apply Z.mod_small. assumption.
Qed.

(* the statements Properties.v exports *)
Lemma src_is_model (A : Type) (d : @deque A) i :
  cap d < 2 ^ 63 -> - 2 ^ 63 < i < 2 ^ 63 - 1 ->
  go_Deque_next (cap d) i = next d i /\ go_Deque_prev (cap d) i = prev d i /\
  go_Deque_Len (count d) = count d /\ go_Deque_Cap (cap d) = cap d.
Proof.
  intros Hc Hi. split; [apply src_next; lia|]. split; [apply src_prev; lia|]. exact (src_len_cap d).
Qed.

Lemma src_ring_step k i : 0 <= k < 63 -> 0 <= i < 2 ^ k ->
  go_Deque_next (2 ^ k) i = (i + 1) mod 2 ^ k /\ go_Deque_prev (2 ^ k) i = (i - 1) mod 2 ^ k /\
  go_Deque_prev (2 ^ k) (go_Deque_next (2 ^ k) i) = i /\
  go_Deque_next (2 ^ k) (go_Deque_prev (2 ^ k) i) = i.
Proof.
  intros Hk Hi. split; [exact (src_next_mod k i Hk Hi)|]. split; [exact (src_prev_mod k i Hk Hi)|].
  exact (src_prev_next k i Hk Hi).
Qed.

(* ------------------------------------------------------------------ Rotate
   The head of Deque.Rotate (Generated/Deque.v, fragment "Deque.Rotate#prefix": the early
   returns, n %= q.count, modBits := len(q.buf) - 1 and the full-buffer fast path that only
   moves head and tail) is the head of the model's rotate: the model is "run the translated
   fragment; if it returned, the deque has the head and tail it assigned; otherwise move the
   elements with the n and modBits it hands on". *)
From FV Require Import Lib.GoSem.

Section Rotate.
  Context {A : Type}.
  Variable nilv : A.

  (* the element-moving loops of the model's rotate, once n and modBits are known *)
  Definition rotate_moves (d : @deque A) (n modBits : Z) : option (@deque A) :=
    match (if n <? 0 then rot_back_to_front nilv (Z.to_nat (- n)) (buf d) (head d) (tail d) modBits
           else rot_front_to_back nilv (Z.to_nat n) (buf d) (head d) (tail d) modBits) with
    | Some (b, h, t) => Some (mkDeque b h t (count d) (minCap d))
    | None => None
    end.

  Lemma src_rotate (d : @deque A) n0 :
    cap d < 2 ^ 63 -> - 2 ^ 62 < count d < 2 ^ 62 -> - 2 ^ 63 <= n0 < 2 ^ 63 ->
    - 2 ^ 62 < head d < 2 ^ 62 -> - 2 ^ 62 < tail d < 2 ^ 62 ->
    rotate nilv d n0 =
    match go_Deque_Rotate_prefix (head d) (tail d) (count d) (cap d) n0 with
    | Ok (Returned _ (h, t)) => Some (mkDeque (buf d) h t (count d) (minCap d))
    | Ok (Reached (n, modBits, _, _)) => rotate_moves d n modBits
    | Panic | OutOfFuel => None
    end.
  Proof.
    intros Hc Hn H0 Hh Ht. pose proof (cap_range d).
    change (2 ^ 63) with 9223372036854775808 in *. change (2 ^ 62) with 4611686018427387904 in *.
    unfold rotate, go_Deque_Rotate_prefix, rotate_moves. cbv zeta.
    destruct (Z.leb_spec (count d) 1) as [|Hgt]; [destruct d; reflexivity|].
    rewrite go_rem_ok by lia. cbn [GoSem.bind].
    assert (Hr : - 4611686018427387904 < Z.rem n0 (count d) < 4611686018427387904).
    { pose proof (Z.rem_bound_abs n0 (count d) ltac:(lia)). lia. }
    rewrite (wrap64 (Z.rem n0 (count d))) by lia.
    destruct (Z.rem n0 (count d) =? 0); [destruct d; reflexivity|].
    rewrite (wrap64 (cap d - 1)) by lia.
    destruct (head d =? tail d).
    - rewrite (wrap64 (head d + Z.rem n0 (count d))), (wrap64 (tail d + Z.rem n0 (count d))) by lia.
      reflexivity.
    - destruct (Z.rem n0 (count d) <? 0).
      + destruct (rot_back_to_front nilv _ _ _ _ _) as [[[b h] t]|]; reflexivity.
      + destruct (rot_front_to_back nilv _ _ _ _ _) as [[[b h] t]|]; reflexivity.
  Qed.
End Rotate.
