(* C12 — the ring-buffer deque refines the plain list (C12/Spec.v) for every operation
   sequence, and its capacity stays 0 or a power of two >= minCap and >= the length. *)
From Coq Require Import ZArith List Bool Lia.
From FV Require Import Generated.Consts Lib.Bits C12.Spec C12.Model C12.ListZ.
Import ListNotations.
Open Scope Z_scope.

Definition pow2 (c : Z) : Prop := exists k, 0 <= k /\ c = 2 ^ k.

Lemma pow2_pos c : pow2 c -> 0 < c.
Proof. intros (k & Hk & ->). apply Z.pow_pos_nonneg; lia. Qed.

Lemma pow2_double c : pow2 c -> pow2 (2 * c).
Proof.
  intros (k & Hk & ->). exists (k + 1). split; [lia|].
  rewrite Z.pow_add_r by lia. lia.
Qed.

Lemma pow2_half c : pow2 c -> 2 <= c -> exists h, pow2 h /\ c = 2 * h.
Proof.
  intros (k & Hk & ->) H2.
  assert (k <> 0) by (intros ->; simpl in H2; lia).
  exists (2 ^ (k - 1)). split.
  - exists (k - 1). split; [lia|reflexivity].
  - replace k with (1 + (k - 1)) at 1 by lia. rewrite Z.pow_add_r by lia. reflexivity.
Qed.

(* two powers of two: the larger one is at least twice the smaller one *)
Lemma pow2_gt_double c m : pow2 c -> pow2 m -> m < c -> 2 * m <= c.
Proof.
  intros (k & Hk & ->) (j & Hj & ->) Hlt.
  apply Z.pow_lt_mono_r_iff in Hlt; [|lia|lia].
  replace (2 * 2 ^ j) with (2 ^ (j + 1)) by (rewrite Z.pow_add_r by lia; lia).
  apply Z.pow_le_mono_r; lia.
Qed.

Lemma pow2_min_capacity : pow2 collections_queue_minCapacity.
Proof. exists 4. split; [lia|reflexivity]. Qed.

Lemma land_mask_mod c x : pow2 c -> Z.land x (c - 1) = x mod c.
Proof. intros (k & Hk & ->). apply land_ones_mod. assumption. Qed.

Section Deque.
Context {A : Type}.
Variable nilv : A.

Notation deque := (@deque A).
Notation step := (@step A nilv).
Notation run := (@run A nilv).

(* ---------------------------------------------------------------- invariant, abstraction *)
Definition wf (d : deque) : Prop :=
  0 <= count d <= cap d /\
  ((minCap d = 0 /\ cap d = 0) \/ (pow2 (minCap d) /\ collections_queue_minCapacity <= minCap d)) /\
  (cap d = 0 -> head d = 0 /\ tail d = 0) /\
  (0 < cap d -> pow2 (cap d) /\ collections_queue_minCapacity <= cap d /\ 0 <= head d < cap d /\
                tail d = (head d + count d) mod cap d).

(* l is what the deque holds: l[i] = buf[(head + i) mod cap] for i < count *)
Definition R (d : deque) (l : list A) : Prop :=
  zlen l = count d /\
  forall i, 0 <= i < count d -> getz l i = getz (buf d) ((head d + i) mod cap d).

Lemma R_unique d l1 l2 : R d l1 -> R d l2 -> l1 = l2.
Proof.
  intros [H1 P1] [H2 P2]. apply list_ext; [lia|].
  intros i Hi. rewrite P1, P2 by lia. reflexivity.
Qed.

Lemma mask_mod d x : wf d -> 0 < cap d -> mask d x = x mod cap d.
Proof. intros (_ & _ & _ & H) Hc. destruct (H Hc) as (Hp & _). apply land_mask_mod. assumption. Qed.

Lemma wf_zero : wf zero_deque.
Proof.
  unfold wf, zero_deque, cap; simpl.
  split; [unfold zlen; simpl; lia|]. split; [left; split; reflexivity|].
  split; [intros _; split; reflexivity|]. unfold zlen; simpl; lia.
Qed.

Lemma R_zero : R zero_deque [].
Proof. split; [reflexivity|]. simpl. intros; lia. Qed.

(* a buffer that starts with l, head = 0 *)
Lemma R_prefix (l junk : list A) t m :
  R (mkDeque (l ++ junk) 0 t (zlen l) m) l.
Proof.
  split; [reflexivity|]. cbn [buf head count cap]. intros i Hi.
  unfold cap; cbn [buf]. rewrite zlen_app. pose proof (zlen_nonneg junk).
  rewrite Z.mod_small by lia. rewrite getz_app by lia.
  destruct (Z.ltb_spec (0 + i) (zlen l)); [reflexivity|lia].
Qed.

(* ---------------------------------------------------------------- resize *)
Lemma copy_into_short (dst src : list A) :
  (length src <= length dst)%nat -> copy_into dst src = src ++ skipn (length src) dst.
Proof.
  intros H. unfold copy_into. rewrite Nat.min_r by assumption.
  rewrite firstn_all. reflexivity.
Qed.

Lemma make_some n : 0 <= n -> make nilv n = Some (repeat nilv (Z.to_nat n)).
Proof. intros H. unfold make. destruct (Z.leb_spec 0 n); [reflexivity|lia]. Qed.

Lemma slice_some (l : list A) a b : 0 <= a <= b -> b <= zlen l ->
  slice l a b = Some (firstn (Z.to_nat (b - a)) (skipn (Z.to_nat a) l)).
Proof.
  intros H1 H2. unfold slice.
  destruct (Z.leb_spec 0 a); [|lia]. destruct (Z.leb_spec a b); [|lia].
  destruct (Z.leb_spec b (zlen l)); [|lia]. reflexivity.
Qed.

(* the live window, unwrapped, is the abstract list *)
Lemma window_flat d l : wf d -> R d l -> head d + count d <= cap d ->
  firstn (Z.to_nat (count d)) (skipn (Z.to_nat (head d)) (buf d)) = l.
Proof.
  intros Hwf [Hlen Hp] Hfit.
  destruct Hwf as (Hc & _ & Hz & Hpos).
  destruct (Z.eq_dec (cap d) 0) as [E0|Hne].
  - assert (count d = 0) by lia. rewrite H. simpl.
    symmetry. apply zlen_0_nil. lia.
  - assert (Hcap : 0 < cap d) by (unfold cap in *; pose proof (zlen_nonneg (buf d)); lia).
    destruct (Hpos Hcap) as (_ & _ & Hh & _).
    apply list_ext.
    + unfold zlen. rewrite firstn_length, skipn_length. unfold cap, zlen in *. lia.
    + intros i Hi.
      assert (Hi' : 0 <= i < count d).
      { unfold zlen in Hi. rewrite firstn_length, skipn_length in Hi. unfold cap, zlen in *. lia. }
      rewrite getz_firstn by lia. destruct (Z.ltb_spec i (count d)); [|lia].
      rewrite getz_skipn by lia. rewrite Hp by lia.
      rewrite Z.mod_small by lia. f_equal; lia.
Qed.

Lemma window_wrapped d l : wf d -> R d l -> cap d <= head d + count d -> 0 < cap d ->
  skipn (Z.to_nat (head d)) (buf d) ++ firstn (Z.to_nat (head d + count d - cap d)) (buf d) = l.
Proof.
  intros Hwf [Hlen Hp] Hwrap Hcap.
  destruct Hwf as (Hc & _ & Hz & Hpos).
  destruct (Hpos Hcap) as (_ & _ & Hh & _).
  assert (Hl1 : zlen (skipn (Z.to_nat (head d)) (buf d)) = cap d - head d).
  { unfold zlen. rewrite skipn_length. unfold cap, zlen in *. lia. }
  assert (Hl2 : zlen (firstn (Z.to_nat (head d + count d - cap d)) (buf d)) = head d + count d - cap d).
  { unfold zlen. rewrite firstn_length. unfold cap, zlen in *. lia. }
  apply list_ext.
  - rewrite zlen_app, Hl1, Hl2. lia.
  - intros i Hi. rewrite zlen_app, Hl1, Hl2 in Hi.
    rewrite getz_app by lia. rewrite Hl1. rewrite Hp by lia.
    destruct (Z.ltb_spec i (cap d - head d)).
    + rewrite getz_skipn by lia. rewrite Z.mod_small by lia. f_equal; lia.
    + rewrite getz_firstn by lia.
      destruct (Z.ltb_spec (i - (cap d - head d)) (head d + count d - cap d)); [|lia].
      f_equal; mod3 (cap d); lia.
Qed.

Lemma skipn_repeat_z (n k : Z) : 0 <= k <= n ->
  skipn (Z.to_nat k) (repeat nilv (Z.to_nat n)) = repeat nilv (Z.to_nat (n - k)).
Proof. intros H. rewrite skipn_repeat. f_equal; lia. Qed.

Lemma resize_spec d l : wf d -> R d l -> 0 < count d ->
  resize nilv d = Some (mkDeque (l ++ repeat nilv (Z.to_nat (count d))) 0 (count d) (count d) (minCap d)).
Proof.
  intros Hwf HR Hcnt.
  pose proof Hwf as (Hc & _ & Hz & Hpos).
  assert (Hcap : 0 < cap d) by lia.
  destruct (Hpos Hcap) as (_ & _ & Hh & Ht).
  destruct HR as [Hlen Hp]. pose proof (conj Hlen Hp : R d l) as HR.
  unfold resize. rewrite make_some by lia. cbn [bind].
  destruct (Z.gtb_spec (tail d) (head d)) as [Hgt|Hle].
  - (* contiguous *)
    assert (Hfit : head d + count d <= cap d).
    { rewrite Ht in Hgt. mod3 (cap d). lia. }
    assert (Htl : tail d = head d + count d).
    { rewrite Ht. mod3 (cap d). lia. }
    rewrite slice_some by (unfold cap in *; lia). cbn [bind].
    replace (tail d - head d) with (count d) by lia.
    rewrite (window_flat d l Hwf HR Hfit).
    rewrite copy_into_short by (rewrite repeat_length; unfold zlen in Hlen; lia).
    replace (length l) with (Z.to_nat (count d)) by (unfold zlen in Hlen; lia).
    rewrite skipn_repeat_z by lia.
    replace (count d * 2 - count d) with (count d) by lia. reflexivity.
  - (* wrapped or full *)
    assert (Hwrap : cap d <= head d + count d).
    { rewrite Ht in Hle. mod3 (cap d). lia. }
    assert (Htl : tail d = head d + count d - cap d).
    { rewrite Ht. mod3 (cap d). lia. }
    rewrite slice_some by (unfold cap in *; lia). cbn [bind].
    rewrite slice_some by (unfold cap in *; lia). cbn [bind].
    pose proof (window_wrapped d l Hwf HR Hwrap Hcap) as Hw.
    replace (Z.to_nat (cap d - head d)) with (length (skipn (Z.to_nat (head d)) (buf d)))
      by (rewrite skipn_length; unfold cap, zlen in *; lia).
    rewrite firstn_all.
    set (s1 := skipn (Z.to_nat (head d)) (buf d)) in *.
    replace (Z.to_nat 0) with 0%nat by reflexivity. cbn [skipn].
    replace (tail d - 0) with (head d + count d - cap d) by lia.
    set (s2 := firstn (Z.to_nat (head d + count d - cap d)) (buf d)) in *.
    assert (Hl1 : length s1 = Z.to_nat (cap d - head d)).
    { unfold s1. rewrite skipn_length. unfold cap, zlen in *. lia. }
    assert (Hl2 : length s2 = Z.to_nat (head d + count d - cap d)).
    { unfold s2. rewrite firstn_length. unfold cap, zlen in *. lia. }
    rewrite repeat_length.
    rewrite Nat.min_r by lia.
    rewrite copy_into_short by (rewrite repeat_length; lia).
    rewrite firstn_app, firstn_all, Nat.sub_diag. cbn [firstn]. rewrite app_nil_r.
    rewrite skipn_app, skipn_all, Nat.sub_diag. cbn [skipn app].
    rewrite Hl1. rewrite skipn_repeat_z by lia.
    rewrite copy_into_short by (rewrite repeat_length; lia).
    rewrite Hl2. rewrite skipn_repeat_z by lia.
    rewrite app_assoc, Hw.
    replace (count d * 2 - (cap d - head d) - (head d + count d - cap d)) with (count d) by lia.
    reflexivity.
Qed.

Lemma wf_resized d l : wf d -> zlen l = count d -> 0 < count d ->
  pow2 (2 * count d) -> collections_queue_minCapacity <= 2 * count d ->
  wf (mkDeque (l ++ repeat nilv (Z.to_nat (count d))) 0 (count d) (count d) (minCap d)).
Proof.
  intros (Hc & Hm & _ & _) Hlen Hcnt Hp2 Hmc.
  assert (Hcap : zlen (l ++ repeat nilv (Z.to_nat (count d))) = 2 * count d).
  { rewrite zlen_app, zlen_repeat. lia. }
  unfold wf, cap. cbn [buf head tail count minCap]. rewrite Hcap.
  split; [lia|]. split.
  - destruct Hm as [[Hm0 Hc0]|Hm]; [lia|right; assumption].
  - split; [lia|]. intros _. split; [assumption|]. split; [assumption|]. split; [lia|].
    rewrite Z.mod_small; lia.
Qed.

Lemma R_resized d l : R d l ->
  R (mkDeque (l ++ repeat nilv (Z.to_nat (count d))) 0 (count d) (count d) (minCap d)) l.
Proof. intros [Hlen _]. rewrite <- Hlen at 3. apply R_prefix. Qed.

(* ---------------------------------------------------------------- grow / shrink *)
Lemma grow_spec d l : wf d -> R d l ->
  exists d', grow_if_full nilv d = Some d' /\ wf d' /\ R d' l /\ count d' < cap d'.
Proof.
  intros Hwf HR. pose proof Hwf as (Hc & Hm & Hz & Hpos). pose proof HR as [Hlen Hp].
  unfold grow_if_full.
  destruct (Z.eqb_spec (count d) (cap d)) as [Hfull|Hnf]; cbn [negb].
  2:{ exists d. split; [reflexivity|]. split; [assumption|]. split; [assumption|]. lia. }
  destruct (Z.eqb_spec (cap d) 0) as [Hc0|Hcn].
  - (* first allocation *)
    destruct (Hz Hc0) as [Hh Ht].
    set (m := if minCap d =? 0 then collections_queue_minCapacity else minCap d).
    assert (Hm' : pow2 m /\ collections_queue_minCapacity <= m).
    { unfold m. destruct (Z.eqb_spec (minCap d) 0).
      - split; [apply pow2_min_capacity|lia].
      - destruct Hm as [[? ?]|?]; [lia|assumption]. }
    destruct Hm' as [Hmp Hmge]. pose proof (pow2_pos m Hmp) as Hmpos.
    rewrite make_some by lia. cbn [bind].
    eexists. split; [reflexivity|].
    unfold wf, R, cap. cbn [buf head tail count minCap]. rewrite zlen_repeat, Z2Nat.id by lia.
    rewrite Hh, Ht. replace (count d) with 0 by lia.
    split; [|split; [split; [lia|intros; lia]|lia]].
    split; [lia|]. split; [right; split; assumption|]. split; [lia|]. intros _.
    split; [assumption|]. split; [lia|]. split; [lia|].
    rewrite Z.mod_0_l by lia. reflexivity.
  - (* double *)
    assert (Hcap : 0 < cap d) by lia.
    destruct (Hpos Hcap) as (Hp2 & Hmc & Hh & Ht).
    rewrite (resize_spec d l Hwf HR) by lia.
    eexists. split; [reflexivity|]. split; [|split].
    + apply wf_resized; auto; try lia. rewrite Hfull. apply pow2_double. assumption.
    + apply R_resized. assumption.
    + unfold cap. cbn [buf count]. rewrite zlen_app, zlen_repeat. lia.
Qed.

Lemma shrink_spec d l : wf d -> R d l ->
  exists d', shrink_if_excess nilv d = Some d' /\ wf d' /\ R d' l.
Proof.
  intros Hwf HR. pose proof Hwf as (Hc & Hm & Hz & Hpos). pose proof HR as [Hlen Hp].
  unfold shrink_if_excess.
  destruct (Z.gtb_spec (cap d) (minCap d)) as [Hgt|Hle]; cbn [andb].
  2:{ exists d. auto. }
  destruct (Z.eqb_spec (count d * 4) (cap d)) as [Hq|Hnq].
  2:{ exists d. auto. }
  assert (Hmin : pow2 (minCap d) /\ collections_queue_minCapacity <= minCap d).
  { destruct Hm as [[? ?]|?]; [lia|assumption]. }
  destruct Hmin as [Hmp Hmge]. unfold collections_queue_minCapacity in Hmge.
  assert (Hcap : 0 < cap d) by lia.
  destruct (Hpos Hcap) as (Hp2 & Hmc & Hh & Ht).
  rewrite (resize_spec d l Hwf HR) by lia.
  eexists. split; [reflexivity|]. split.
  - pose proof (pow2_gt_double _ _ Hp2 Hmp ltac:(lia)) as Hd.
    apply wf_resized; auto; try lia.
    destruct (pow2_half _ Hp2 ltac:(lia)) as (h & Hh2 & Hhe).
    replace (2 * count d) with h by lia. assumption.
  - apply R_resized. assumption.
Qed.

(* ---------------------------------------------------------------- pushes and pops *)
Ltac capsimpl := unfold cap in *; cbn [buf head tail count minCap] in *; rewrite ?zlen_upd in *; fold (cap) in *.

Lemma push_back_spec d l a : wf d -> R d l ->
  exists d', push_back nilv d a = Some d' /\ wf d' /\ R d' (l ++ [a]).
Proof.
  intros Hwf HR. unfold push_back.
  destruct (grow_spec d l Hwf HR) as (d1 & -> & Hwf1 & HR1 & Hroom). cbn [bind].
  pose proof Hwf1 as (Hc & Hm & Hz & Hpos). pose proof HR1 as [Hlen Hp].
  assert (Hcap : 0 < cap d1) by lia.
  destruct (Hpos Hcap) as (Hp2 & Hmc & Hh & Ht).
  assert (Htr : 0 <= tail d1 < cap d1) by (rewrite Ht; apply Z.mod_pos_bound; lia).
  rewrite setz_some by (unfold cap in *; lia). cbn [bind].
  eexists. split; [reflexivity|].
  unfold next. rewrite (mask_mod d1 _ Hwf1 Hcap).
  split.
  - unfold wf, cap. cbn [buf head tail count minCap]. rewrite zlen_upd. fold (cap d1).
    split; [lia|]. split; [assumption|]. split; [lia|]. intros _.
    split; [assumption|]. split; [assumption|]. split; [assumption|].
    rewrite Ht. mod3 (cap d1). lia.
  - unfold R, cap. cbn [buf head tail count minCap]. rewrite zlen_upd. fold (cap d1).
    split; [rewrite zlen_app, zlen_cons, zlen_nil; lia|].
    intros i Hi.
    assert (Hidx : 0 <= (head d1 + i) mod cap d1 < cap d1) by (apply Z.mod_pos_bound; lia).
    rewrite getz_upd by (unfold cap in *; lia). rewrite getz_app by lia.
    destruct (Z.ltb_spec i (zlen l)) as [Hil|Hil].
    + rewrite Hp by lia.
      destruct (Z.eqb_spec ((head d1 + i) mod cap d1) (tail d1)) as [E|E]; [|reflexivity].
      exfalso. rewrite Ht in E. mod3 (cap d1). lia.
    + replace (i - zlen l) with 0 by lia. cbn.
      destruct (Z.eqb_spec ((head d1 + i) mod cap d1) (tail d1)) as [E|E]; [reflexivity|].
      exfalso. apply E. rewrite Ht. f_equal; lia.
Qed.

Lemma push_front_spec d l a : wf d -> R d l ->
  exists d', push_front nilv d a = Some d' /\ wf d' /\ R d' (a :: l).
Proof.
  intros Hwf HR. unfold push_front.
  destruct (grow_spec d l Hwf HR) as (d1 & -> & Hwf1 & HR1 & Hroom). cbn [bind].
  pose proof Hwf1 as (Hc & Hm & Hz & Hpos). pose proof HR1 as [Hlen Hp].
  assert (Hcap : 0 < cap d1) by lia.
  destruct (Hpos Hcap) as (Hp2 & Hmc & Hh & Ht).
  unfold prev. rewrite (mask_mod d1 _ Hwf1 Hcap).
  assert (Hhr : 0 <= (head d1 - 1) mod cap d1 < cap d1) by (apply Z.mod_pos_bound; lia).
  rewrite setz_some by (unfold cap in *; lia). cbn [bind].
  eexists. split; [reflexivity|].
  split.
  - unfold wf, cap. cbn [buf head tail count minCap]. rewrite zlen_upd. fold (cap d1).
    split; [lia|]. split; [assumption|]. split; [lia|]. intros _.
    split; [assumption|]. split; [assumption|]. split; [assumption|].
    rewrite Ht. mod3 (cap d1). lia.
  - unfold R, cap. cbn [buf head tail count minCap]. rewrite zlen_upd. fold (cap d1).
    split; [rewrite zlen_cons; lia|].
    intros i Hi.
    assert (Hidx : 0 <= ((head d1 - 1) mod cap d1 + i) mod cap d1 < cap d1) by (apply Z.mod_pos_bound; lia).
    rewrite getz_upd by (unfold cap in *; lia). rewrite getz_cons by lia.
    destruct (Z.eqb_spec i 0) as [->|Hi0].
    + rewrite Z.add_0_r, Z.mod_mod by lia. rewrite Z.eqb_refl. reflexivity.
    + rewrite Hp by lia.
      destruct (Z.eqb_spec (((head d1 - 1) mod cap d1 + i) mod cap d1) ((head d1 - 1) mod cap d1)) as [E|E].
      * exfalso. mod3 (cap d1). lia.
      * f_equal; mod3 (cap d1); lia.
Qed.

Lemma pop_front_spec d x r : wf d -> R d (x :: r) ->
  exists d', pop_front nilv d = Some (d', x) /\ wf d' /\ R d' r.
Proof.
  intros Hwf HR. unfold pop_front.
  pose proof Hwf as (Hc & Hm & Hz & Hpos). pose proof HR as [Hlen Hp].
  rewrite zlen_cons in Hlen. pose proof (zlen_nonneg r) as Hrn.
  assert (Hcap : 0 < cap d) by lia.
  destruct (Hpos Hcap) as (Hp2 & Hmc & Hh & Ht).
  assert (H0 := Hp 0 ltac:(lia)). rewrite Z.add_0_r, Z.mod_small in H0 by lia.
  cbn in H0. rewrite <- H0. cbn [bind].
  rewrite setz_some by (unfold cap in *; lia). cbn [bind].
  unfold next. rewrite (mask_mod d _ Hwf Hcap).
  set (d1 := mkDeque (upd (buf d) (Z.to_nat (head d)) nilv) ((head d + 1) mod cap d) (tail d) (count d - 1) (minCap d)).
  assert (Hwf1 : wf d1).
  { unfold wf, d1, cap. cbn [buf head tail count minCap]. rewrite zlen_upd. fold (cap d).
    split; [lia|]. split; [assumption|]. split; [lia|]. intros _.
    split; [assumption|]. split; [assumption|]. split; [apply Z.mod_pos_bound; lia|].
    rewrite Ht. mod3 (cap d). lia. }
  assert (HR1 : R d1 r).
  { unfold R, d1, cap. cbn [buf head tail count minCap]. rewrite zlen_upd. fold (cap d).
    split; [lia|]. intros i Hi.
    assert (Hidx : 0 <= ((head d + 1) mod cap d + i) mod cap d < cap d) by (apply Z.mod_pos_bound; lia).
    rewrite getz_upd by (unfold cap in *; lia).
    assert (Hn := Hp (i + 1) ltac:(lia)). rewrite getz_cons in Hn by lia.
    destruct (Z.eqb_spec (i + 1) 0); [lia|]. replace (i + 1 - 1) with i in Hn by lia.
    rewrite Hn.
    destruct (Z.eqb_spec (((head d + 1) mod cap d + i) mod cap d) (head d)) as [E|E].
    - exfalso. mod3 (cap d). lia.
    - f_equal; mod3 (cap d); lia. }
  destruct (shrink_spec d1 r Hwf1 HR1) as (d2 & -> & Hwf2 & HR2). cbn [bind].
  exists d2. auto.
Qed.

Lemma pop_back_spec d x r : wf d -> R d (r ++ [x]) ->
  exists d', pop_back nilv d = Some (d', x) /\ wf d' /\ R d' r.
Proof.
  intros Hwf HR. unfold pop_back.
  pose proof Hwf as (Hc & Hm & Hz & Hpos). pose proof HR as [Hlen Hp].
  rewrite zlen_app, zlen_cons, zlen_nil in Hlen. pose proof (zlen_nonneg r) as Hrn.
  assert (Hcap : 0 < cap d) by lia.
  destruct (Hpos Hcap) as (Hp2 & Hmc & Hh & Ht).
  unfold prev. rewrite (mask_mod d _ Hwf Hcap).
  assert (Htr : 0 <= (tail d - 1) mod cap d < cap d) by (apply Z.mod_pos_bound; lia).
  assert (Hte : (tail d - 1) mod cap d = (head d + (count d - 1)) mod cap d).
  { rewrite Ht. mod3 (cap d). lia. }
  assert (H0 := Hp (count d - 1) ltac:(lia)). rewrite getz_app in H0 by lia.
  destruct (Z.ltb_spec (count d - 1) (zlen r)); [lia|].
  replace (count d - 1 - zlen r) with 0 in H0 by lia. cbn in H0.
  rewrite Hte, <- H0. cbn [bind]. rewrite <- Hte.
  rewrite setz_some by (unfold cap in *; lia). cbn [bind].
  set (d1 := mkDeque (upd (buf d) (Z.to_nat ((tail d - 1) mod cap d)) nilv) (head d) ((tail d - 1) mod cap d) (count d - 1) (minCap d)).
  assert (Hwf1 : wf d1).
  { unfold wf, d1, cap. cbn [buf head tail count minCap]. rewrite zlen_upd. fold (cap d).
    split; [lia|]. split; [assumption|]. split; [lia|]. intros _.
    split; [assumption|]. split; [assumption|]. split; [assumption|]. exact Hte. }
  assert (HR1 : R d1 r).
  { unfold R, d1, cap. cbn [buf head tail count minCap]. rewrite zlen_upd. fold (cap d).
    split; [lia|]. intros i Hi.
    assert (Hidx : 0 <= (head d + i) mod cap d < cap d) by (apply Z.mod_pos_bound; lia).
    rewrite getz_upd by (unfold cap in *; lia).
    assert (Hn := Hp i ltac:(lia)). rewrite getz_app in Hn by lia.
    destruct (Z.ltb_spec i (zlen r)); [|lia].
    rewrite Hn.
    destruct (Z.eqb_spec ((head d + i) mod cap d) ((tail d - 1) mod cap d)) as [E|E]; [|reflexivity].
    exfalso. rewrite Hte in E. mod3 (cap d). lia. }
  destruct (shrink_spec d1 r Hwf1 HR1) as (d2 & -> & Hwf2 & HR2). cbn [bind].
  exists d2. auto.
Qed.

(* ---------------------------------------------------------------- reads and writes *)
Lemma R_nonempty_cap d l : wf d -> R d l -> 0 < count d ->
  0 < cap d /\ pow2 (cap d) /\ 0 <= head d < cap d /\ tail d = (head d + count d) mod cap d.
Proof.
  intros (Hc & Hm & Hz & Hpos) _ Hcnt. assert (Hcap : 0 < cap d) by lia.
  destruct (Hpos Hcap) as (Hp2 & Hmc & Hh & Ht). auto.
Qed.

Lemma at_spec d l i : wf d -> R d l -> 0 <= i < count d ->
  getz (buf d) (mask d (head d + i)) = nth_error l (Z.to_nat i).
Proof.
  intros Hwf HR Hi. destruct (R_nonempty_cap d l Hwf HR ltac:(lia)) as (Hcap & _).
  rewrite (mask_mod d _ Hwf Hcap). destruct HR as [Hlen Hp].
  rewrite <- Hp by lia. apply getz_nth. lia.
Qed.

Lemma set_spec d l i a : wf d -> R d l -> 0 <= i < count d ->
  exists b, setz (buf d) (mask d (head d + i)) a = Some b /\
            wf (mkDeque b (head d) (tail d) (count d) (minCap d)) /\
            R (mkDeque b (head d) (tail d) (count d) (minCap d)) (upd l (Z.to_nat i) a).
Proof.
  intros Hwf HR Hi. destruct (R_nonempty_cap d l Hwf HR ltac:(lia)) as (Hcap & Hp2 & Hh & Ht).
  rewrite (mask_mod d _ Hwf Hcap).
  assert (Hidx : 0 <= (head d + i) mod cap d < cap d) by (apply Z.mod_pos_bound; lia).
  rewrite setz_some by (unfold cap in *; lia).
  eexists. split; [reflexivity|]. split.
  - destruct Hwf as (Hc & Hm & Hz & Hpos).
    unfold wf, cap. cbn [buf head tail count minCap]. rewrite zlen_upd. fold (cap d). auto.
  - destruct HR as [Hlen Hp].
    unfold R, cap. cbn [buf head tail count minCap]. rewrite zlen_upd. fold (cap d).
    split; [assumption|]. intros j Hj. rewrite ?zlen_upd. fold (cap d).
    assert (Hjdx : 0 <= (head d + j) mod cap d < cap d) by (apply Z.mod_pos_bound; lia).
    rewrite !getz_upd by (unfold cap, zlen in *; lia).
    destruct (Z.eqb_spec j i) as [->|Hne].
    + rewrite Z.eqb_refl. reflexivity.
    + rewrite Hp by lia.
      destruct (Z.eqb_spec ((head d + j) mod cap d) ((head d + i) mod cap d)) as [E|E]; [|reflexivity].
      exfalso. destruct Hwf as (Hc & _). mod3 (cap d). lia.
Qed.

(* ---------------------------------------------------------------- Clear *)
Lemma clear_loop_ok c : pow2 c -> forall fuel (b : list A) h t,
  zlen b = c -> 0 <= h < c -> 0 <= t < c -> (t - h) mod c < Z.of_nat fuel ->
  exists b', clear_loop nilv fuel b h t (c - 1) = Some b' /\ zlen b' = c.
Proof.
  intros Hp2. pose proof (pow2_pos c Hp2) as Hc.
  induction fuel as [|f IH]; intros b h t Hb Hh Ht Hfuel.
  - pose proof (Z.mod_pos_bound (t - h) c Hc). lia.
  - cbn [clear_loop]. destruct (Z.eqb_spec h t) as [E|E].
    + exists b. auto.
    + rewrite setz_some by lia. cbn [bind].
      rewrite land_mask_mod by assumption.
      apply IH.
      * rewrite zlen_upd. assumption.
      * apply Z.mod_pos_bound. lia.
      * assumption.
      * mod3 c. lia.
Qed.

Lemma clear_spec d l : wf d -> R d l ->
  exists d', clear nilv d = Some d' /\ wf d' /\ R d' [].
Proof.
  intros Hwf HR. pose proof Hwf as (Hc & Hm & Hz & Hpos). unfold clear.
  destruct (Z.eq_dec (cap d) 0) as [E0|Hne].
  - destruct (Hz E0) as [Hh Ht]. rewrite Hh, Ht. cbn [clear_loop Z.eqb bind].
    eexists. split; [reflexivity|]. split.
    + unfold wf, cap. cbn [buf head tail count minCap]. fold (cap d).
      split; [lia|]. split; [assumption|]. split; [auto|]. intros H; lia.
    + split; [reflexivity|]. cbn [count]. intros; lia.
  - assert (Hcap : 0 < cap d) by (unfold cap in *; pose proof (zlen_nonneg (buf d)); lia).
    destruct (Hpos Hcap) as (Hp2 & Hmc & Hh & Ht).
    assert (Htr : 0 <= tail d < cap d) by (rewrite Ht; apply Z.mod_pos_bound; lia).
    destruct (clear_loop_ok (cap d) Hp2 (S (length (buf d))) (buf d) (head d) (tail d))
      as (b' & Hb' & Hlen'); auto.
    { pose proof (Z.mod_pos_bound (tail d - head d) (cap d) Hcap). unfold cap, zlen in *. lia. }
    rewrite Hb'. cbn [bind].
    eexists. split; [reflexivity|]. split.
    + unfold wf, cap. cbn [buf head tail count minCap]. rewrite Hlen'.
      split; [lia|]. split; [assumption|]. split; [auto|]. intros _.
      split; [assumption|]. split; [assumption|]. split; [lia|].
      rewrite Z.mod_0_l by lia. reflexivity.
    + split; [reflexivity|]. cbn [count]. intros; lia.
Qed.

(* ---------------------------------------------------------------- Rotate: on lists *)
Definition rot1 (l : list A) : list A := match l with [] => [] | x :: r => r ++ [x] end.
Definition rotr1 (l : list A) : list A := match rev l with [] => [] | x :: r => x :: rev r end.

(* l' is l rotated by n: l'[i] = l[(i + n) mod len] *)
Definition rotated (n : Z) (l l' : list A) : Prop :=
  zlen l' = zlen l /\ forall i, 0 <= i < zlen l -> getz l' i = getz l ((i + n) mod zlen l).

Lemma rotated_unique n l l1 l2 : rotated n l l1 -> rotated n l l2 -> l1 = l2.
Proof.
  intros [H1 P1] [H2 P2]. apply list_ext; [lia|].
  intros i Hi. rewrite P1, P2 by lia. reflexivity.
Qed.

Lemma rotated_cong n m l l' : 0 < zlen l -> (exists q, n = m + q * zlen l) -> rotated m l l' -> rotated n l l'.
Proof.
  intros Hl (q & ->) [H1 P1]. split; [assumption|]. intros i Hi. rewrite P1 by assumption.
  f_equal. rewrite Z.add_assoc. rewrite Z_mod_plus_full. reflexivity.
Qed.

Lemma rotated_rot1 l : rotated 1 l (rot1 l).
Proof.
  destruct l as [|x r]; [split; [reflexivity|intros; rewrite zlen_nil in *; lia]|].
  pose proof (zlen_nonneg r) as Hr.
  split; cbn [rot1].
  - rewrite zlen_app, !zlen_cons, zlen_nil. lia.
  - rewrite zlen_cons. intros i Hi. rewrite getz_app by lia.
    destruct (Z.ltb_spec i (zlen r)).
    + rewrite Z.mod_small by lia. rewrite getz_cons by lia.
      destruct (Z.eqb_spec (i + 1) 0); [lia|]. f_equal; lia.
    + replace (i + 1) with (zlen r + 1) by lia. rewrite Z.mod_same by lia.
      replace (i - zlen r) with 0 by lia. reflexivity.
Qed.

Lemma rotated_rotr1 l : rotated (-1) l (rotr1 l).
Proof.
  unfold rotr1. destruct (rev l) as [|x r] eqn:E.
  - assert (l = []) as -> by (rewrite <- (rev_involutive l), E; reflexivity).
    split; [reflexivity|intros; rewrite zlen_nil in *; lia].
  - apply rev_cons_inv in E. subst l. set (r' := rev r). pose proof (zlen_nonneg r') as Hr.
    assert (Hlen : zlen (r' ++ [x]) = zlen r' + 1) by (rewrite zlen_app; reflexivity).
    split.
    + rewrite Hlen, zlen_cons. reflexivity.
    + rewrite Hlen. intros i Hi. rewrite getz_cons by lia.
      destruct (Z.eqb_spec i 0) as [->|Hi0].
      * replace (0 + -1) with (-1) by lia.
        assert (Hm : -1 mod (zlen r' + 1) = zlen r').
        { symmetry. apply Z.mod_unique_pos with (q := -1); lia. }
        rewrite Hm. rewrite getz_app by lia.
        destruct (Z.ltb_spec (zlen r') (zlen r')); [lia|]. rewrite Z.sub_diag. reflexivity.
      * rewrite Z.mod_small by lia. rewrite getz_app by lia.
        destruct (Z.ltb_spec (i + -1) (zlen r')); [|lia]. f_equal; lia.
Qed.

Lemma rotated_compose n m l l1 l2 : rotated n l l1 -> rotated m l1 l2 -> rotated (n + m) l l2.
Proof.
  intros [H1 P1] [H2 P2]. split; [lia|]. intros i Hi.
  rewrite P2 by lia. rewrite H1. rewrite P1 by (apply Z.mod_pos_bound; lia).
  f_equal. rewrite Zplus_mod_idemp_l. f_equal; lia.
Qed.

Lemma rotated_0 l : rotated 0 l l.
Proof.
  split; [reflexivity|]. intros i Hi. rewrite Z.add_0_r, Z.mod_small by lia. reflexivity.
Qed.

Lemma rotated_rotl n l : rotated n l (rotl n l).
Proof.
  destruct l as [|x r] eqn:El; [split; [reflexivity|intros; rewrite zlen_nil in *; lia]|].
  rewrite <- El. assert (Hl : 0 < zlen l) by (subst l; rewrite zlen_cons; pose proof (zlen_nonneg r); lia).
  assert (Hrot : rotl n l = skipn (Z.to_nat (n mod zlen l)) l ++ firstn (Z.to_nat (n mod zlen l)) l).
  { subst l. reflexivity. }
  rewrite Hrot. clear Hrot El x r.
  pose proof (Z.mod_pos_bound n (zlen l) Hl) as Hk. set (k := n mod zlen l) in *.
  assert (Hl1 : zlen (skipn (Z.to_nat k) l) = zlen l - k).
  { unfold zlen. rewrite skipn_length. unfold zlen in *. lia. }
  assert (Hl2 : zlen (firstn (Z.to_nat k) l) = k).
  { unfold zlen. rewrite firstn_length. unfold zlen in *. lia. }
  split.
  - rewrite zlen_app, Hl1, Hl2. lia.
  - intros i Hi. rewrite getz_app by lia. rewrite Hl1.
    replace ((i + n) mod zlen l) with ((i + k) mod zlen l) by (unfold k; apply Zplus_mod_idemp_r).
    destruct (Z.ltb_spec i (zlen l - k)).
    + rewrite getz_skipn by lia. rewrite Z.mod_small by lia. reflexivity.
    + rewrite getz_firstn by lia. destruct (Z.ltb_spec (i - (zlen l - k)) k); [|lia].
      f_equal; mod3 (zlen l); lia.
Qed.

(* ---------------------------------------------------------------- Rotate: the loops *)
Lemma rot_ftb_spec k : forall d l, wf d -> R d l -> 0 < count d < cap d ->
  exists b h t, rot_front_to_back nilv k (buf d) (head d) (tail d) (cap d - 1) = Some (b, h, t) /\
    wf (mkDeque b h t (count d) (minCap d)) /\
    exists l', R (mkDeque b h t (count d) (minCap d)) l' /\ rotated (Z.of_nat k) l l'.
Proof.
  induction k as [|k IH]; intros d l Hwf HR Hcnt.
  - cbn [rot_front_to_back]. exists (buf d), (head d), (tail d). split; [reflexivity|].
    destruct d as [b0 h0 t0 c0 m0]; cbn [buf head tail count minCap] in *. split; [assumption|].
    exists l. split; [assumption|apply rotated_0].
  - cbn [rot_front_to_back].
    destruct (R_nonempty_cap d l Hwf HR ltac:(lia)) as (Hcap & Hp2 & Hh & Ht).
    pose proof Hwf as (Hc & Hm & Hz & Hpos). pose proof HR as [Hlen Hp].
    assert (Htr : 0 <= tail d < cap d) by (rewrite Ht; apply Z.mod_pos_bound; lia).
    assert (Hne : head d <> tail d) by (rewrite Ht; mod3 (cap d); lia).
    destruct (getz_some (buf d) (head d)) as [x Hx]; [unfold cap in *; lia|].
    rewrite Hx. cbn [bind].
    rewrite setz_some by (unfold cap in *; lia). cbn [bind].
    rewrite setz_some by (rewrite ?zlen_upd; unfold cap in *; lia). cbn [bind].
    rewrite !land_mask_mod by assumption.
    set (b2 := upd (upd (buf d) (Z.to_nat (tail d)) x) (Z.to_nat (head d)) nilv).
    set (d1 := mkDeque b2 ((head d + 1) mod cap d) ((tail d + 1) mod cap d) (count d) (minCap d)).
    assert (Hcap1 : cap d1 = cap d) by (unfold d1, b2, cap; cbn [buf]; rewrite !zlen_upd; reflexivity).
    assert (Hwf1 : wf d1).
    { unfold wf. rewrite Hcap1. unfold d1. cbn [buf head tail count minCap].
      split; [lia|]. split; [assumption|]. split; [lia|]. intros _.
      split; [assumption|]. split; [lia|]. split; [apply Z.mod_pos_bound; lia|].
      rewrite Ht. mod3 (cap d). lia. }
    assert (HR1 : R d1 (rot1 l)).
    { destruct l as [|y r]; [rewrite zlen_nil in Hlen; lia|].
      rewrite zlen_cons in Hlen. pose proof (zlen_nonneg r) as Hrn.
      assert (H0 := Hp 0 ltac:(lia)). rewrite Z.add_0_r, Z.mod_small in H0 by lia.
      cbn in H0. rewrite Hx in H0. injection H0 as <-.
      unfold R. rewrite Hcap1. unfold d1, rot1. cbn [buf head tail count minCap].
      split; [rewrite zlen_app, zlen_cons, zlen_nil; lia|]. intros i Hi.
      assert (Hidx : 0 <= ((head d + 1) mod cap d + i) mod cap d < cap d) by (apply Z.mod_pos_bound; lia).
      unfold b2. rewrite getz_upd by (rewrite ?zlen_upd; unfold cap in *; lia).
      rewrite getz_upd by (unfold cap in *; lia). rewrite getz_app by lia.
      destruct (Z.eqb_spec (((head d + 1) mod cap d + i) mod cap d) (head d)) as [E|E].
      { exfalso. mod3 (cap d). lia. }
      destruct (Z.ltb_spec i (zlen r)) as [Hil|Hil].
      - assert (Hn := Hp (i + 1) ltac:(lia)). rewrite getz_cons in Hn by lia.
        destruct (Z.eqb_spec (i + 1) 0); [lia|]. replace (i + 1 - 1) with i in Hn by lia.
        rewrite Hn.
        destruct (Z.eqb_spec (((head d + 1) mod cap d + i) mod cap d) (tail d)) as [E2|E2].
        + exfalso. rewrite Ht in E2. mod3 (cap d). lia.
        + f_equal; mod3 (cap d); lia.
      - replace (i - zlen r) with 0 by lia. cbn.
        destruct (Z.eqb_spec (((head d + 1) mod cap d + i) mod cap d) (tail d)) as [E2|E2]; [reflexivity|].
        exfalso. apply E2. rewrite Ht. mod3 (cap d). lia. }
    destruct (IH d1 (rot1 l) Hwf1 HR1) as (b & h & t & Hloop & Hwf' & l' & HR' & Hrot).
    { rewrite Hcap1. unfold d1. cbn [count]. lia. }
    rewrite Hcap1 in Hloop. unfold d1 in Hloop, Hwf', HR'. cbn [buf head tail count minCap] in Hloop, Hwf', HR'.
    exists b, h, t. split; [exact Hloop|]. split; [exact Hwf'|].
    exists l'. split; [exact HR'|].
    replace (Z.of_nat (S k)) with (1 + Z.of_nat k) by lia.
    eapply rotated_compose; [apply rotated_rot1|exact Hrot].
Qed.

Lemma rot_btf_spec k : forall d l, wf d -> R d l -> 0 < count d < cap d ->
  exists b h t, rot_back_to_front nilv k (buf d) (head d) (tail d) (cap d - 1) = Some (b, h, t) /\
    wf (mkDeque b h t (count d) (minCap d)) /\
    exists l', R (mkDeque b h t (count d) (minCap d)) l' /\ rotated (- Z.of_nat k) l l'.
Proof.
  induction k as [|k IH]; intros d l Hwf HR Hcnt.
  - cbn [rot_back_to_front]. exists (buf d), (head d), (tail d). split; [reflexivity|].
    destruct d as [b0 h0 t0 c0 m0]; cbn [buf head tail count minCap] in *. split; [assumption|].
    exists l. split; [assumption|apply rotated_0].
  - cbn [rot_back_to_front].
    destruct (R_nonempty_cap d l Hwf HR ltac:(lia)) as (Hcap & Hp2 & Hh & Ht).
    pose proof Hwf as (Hc & Hm & Hz & Hpos). pose proof HR as [Hlen Hp].
    assert (Htr : 0 <= tail d < cap d) by (rewrite Ht; apply Z.mod_pos_bound; lia).
    rewrite !land_mask_mod by assumption.
    assert (Hh1 : 0 <= (head d - 1) mod cap d < cap d) by (apply Z.mod_pos_bound; lia).
    assert (Ht1 : 0 <= (tail d - 1) mod cap d < cap d) by (apply Z.mod_pos_bound; lia).
    assert (Hte : (tail d - 1) mod cap d = (head d + (count d - 1)) mod cap d).
    { rewrite Ht. mod3 (cap d). lia. }
    assert (Hne : (head d - 1) mod cap d <> (tail d - 1) mod cap d) by (rewrite Ht; mod3 (cap d); lia).
    destruct (getz_some (buf d) ((tail d - 1) mod cap d)) as [x Hx]; [unfold cap in *; lia|].
    rewrite Hx. cbn [bind].
    rewrite setz_some by (unfold cap in *; lia). cbn [bind].
    rewrite setz_some by (rewrite ?zlen_upd; unfold cap in *; lia). cbn [bind].
    set (b2 := upd (upd (buf d) (Z.to_nat ((head d - 1) mod cap d)) x) (Z.to_nat ((tail d - 1) mod cap d)) nilv).
    set (d1 := mkDeque b2 ((head d - 1) mod cap d) ((tail d - 1) mod cap d) (count d) (minCap d)).
    assert (Hcap1 : cap d1 = cap d) by (unfold d1, b2, cap; cbn [buf]; rewrite !zlen_upd; reflexivity).
    assert (Hwf1 : wf d1).
    { unfold wf. rewrite Hcap1. unfold d1. cbn [buf head tail count minCap].
      split; [lia|]. split; [assumption|]. split; [lia|]. intros _.
      split; [assumption|]. split; [lia|]. split; [assumption|].
      rewrite Ht. mod3 (cap d). lia. }
    assert (HR1 : R d1 (rotr1 l)).
    { unfold rotr1. destruct (rev l) as [|y r0] eqn:El.
      { assert (l = []) as -> by (rewrite <- (rev_involutive l), El; reflexivity).
        rewrite zlen_nil in Hlen. lia. }
      apply rev_cons_inv in El. subst l. set (r := rev r0) in *.
      assert (Hlr : zlen (r ++ [y]) = zlen r + 1) by (rewrite zlen_app; reflexivity).
      rewrite Hlr in Hlen. pose proof (zlen_nonneg r) as Hrn.
      assert (H0 := Hp (count d - 1) ltac:(lia)). rewrite getz_app in H0 by lia.
      destruct (Z.ltb_spec (count d - 1) (zlen r)); [lia|].
      replace (count d - 1 - zlen r) with 0 in H0 by lia. cbn in H0.
      rewrite <- Hte, Hx in H0. injection H0 as <-.
      unfold R. rewrite Hcap1. unfold d1. cbn [buf head tail count minCap].
      split; [rewrite zlen_cons; lia|]. intros i Hi.
      assert (Hidx : 0 <= ((head d - 1) mod cap d + i) mod cap d < cap d) by (apply Z.mod_pos_bound; lia).
      unfold b2. rewrite getz_upd by (rewrite ?zlen_upd; unfold cap in *; lia).
      rewrite getz_upd by (unfold cap in *; lia). rewrite getz_cons by lia.
      destruct (Z.eqb_spec (((head d - 1) mod cap d + i) mod cap d) ((tail d - 1) mod cap d)) as [E|E].
      { exfalso. rewrite Hte in E. mod3 (cap d). lia. }
      destruct (Z.eqb_spec i 0) as [->|Hi0].
      - rewrite Z.add_0_r, Z.mod_mod by lia. rewrite Z.eqb_refl. reflexivity.
      - assert (Hn := Hp (i - 1) ltac:(lia)). rewrite getz_app in Hn by lia.
        destruct (Z.ltb_spec (i - 1) (zlen r)); [|lia].
        rewrite Hn.
        destruct (Z.eqb_spec (((head d - 1) mod cap d + i) mod cap d) ((head d - 1) mod cap d)) as [E2|E2].
        + exfalso. mod3 (cap d). lia.
        + f_equal; mod3 (cap d); lia. }
    destruct (IH d1 (rotr1 l) Hwf1 HR1) as (b & h & t & Hloop & Hwf' & l' & HR' & Hrot).
    { rewrite Hcap1. unfold d1. cbn [count]. lia. }
    rewrite Hcap1 in Hloop. unfold d1 in Hloop, Hwf', HR'. cbn [buf head tail count minCap] in Hloop, Hwf', HR'.
    exists b, h, t. split; [exact Hloop|]. split; [exact Hwf'|].
    exists l'. split; [exact HR'|].
    replace (- Z.of_nat (S k)) with (-1 + - Z.of_nat k) by lia.
    eapply rotated_compose; [apply rotated_rotr1|exact Hrot].
Qed.

Lemma rem_decomp n c : 0 < c -> exists q, n = Z.rem n c + q * c /\ - c < Z.rem n c < c.
Proof.
  intros Hc. exists (Z.quot n c).
  pose proof (Z.quot_rem' n c). pose proof (Z.rem_bound_abs n c ltac:(lia)). lia.
Qed.

Lemma rotate_spec d l n : wf d -> R d l ->
  exists d', rotate nilv d n = Some d' /\ wf d' /\ R d' (rotl n l).
Proof.
  intros Hwf HR. unfold rotate. pose proof HR as [Hlen Hp].
  destruct (Z.leb_spec (count d) 1) as [Hsmall|Hbig].
  { exists d. split; [reflexivity|]. split; [assumption|].
    replace (rotl n l) with l; [assumption|].
    apply (rotated_unique n l); [|apply rotated_rotl].
    split; [reflexivity|]. intros i Hi.
    assert (zlen l = 1) as -> by lia. rewrite Z.mod_1_r. f_equal; lia. }
  destruct (rem_decomp n (count d) ltac:(lia)) as (q & Hq & Hr).
  set (r := Z.rem n (count d)) in *.
  destruct (Z.eqb_spec r 0) as [Hr0|Hrn].
  { exists d. split; [reflexivity|]. split; [assumption|].
    replace (rotl n l) with l; [assumption|].
    apply (rotated_unique n l); [|apply rotated_rotl].
    apply (rotated_cong n 0); [lia|exists q; lia|apply rotated_0]. }
  destruct (R_nonempty_cap d l Hwf HR ltac:(lia)) as (Hcap & Hp2 & Hh & Ht).
  pose proof Hwf as (Hc & Hm & Hz & Hpos).
  assert (Hcong : forall l', rotated r l l' -> l' = rotl n l).
  { intros l' Hl'. apply (rotated_unique n l); [|apply rotated_rotl].
    apply (rotated_cong n r); [lia|exists q; lia|assumption]. }
  destruct (Z.eqb_spec (head d) (tail d)) as [Hfull|Hnf].
  - (* full: only the indexes move *)
    assert (Hcc : count d = cap d) by (rewrite Ht in Hfull; mod3 (cap d); lia).
    rewrite !land_mask_mod by assumption.
    eexists. split; [reflexivity|]. split.
    + unfold wf, cap. cbn [buf head tail count minCap]. fold (cap d).
      split; [lia|]. split; [assumption|]. split; [lia|]. intros _.
      split; [assumption|]. split; [lia|]. split; [apply Z.mod_pos_bound; lia|].
      rewrite <- Hfull. rewrite Hcc. mod3 (cap d). lia.
    + pose proof (rotated_rotl n l) as [Hl1 Hp1].
      unfold R, cap. cbn [buf head tail count minCap]. fold (cap d).
      split; [lia|]. intros i Hi.
      rewrite Hp1 by lia.
      replace ((i + n) mod zlen l) with ((i + r) mod cap d).
      2:{ rewrite Hlen, Hcc. rewrite Hq. rewrite Z.add_assoc, Hcc. rewrite Z_mod_plus_full. reflexivity. }
      rewrite Hp by (rewrite Hcc; apply Z.mod_pos_bound; lia).
      f_equal. mod3 (cap d). lia.
  - assert (Hroom : 0 < count d < cap d).
    { split; [lia|]. destruct (Z.eq_dec (count d) (cap d)) as [E|E]; [|lia].
      exfalso. apply Hnf. rewrite Ht, E. mod3 (cap d). lia. }
    destruct (Z.ltb_spec r 0) as [Hneg|Hposr].
    + destruct (rot_btf_spec (Z.to_nat (- r)) d l Hwf HR Hroom) as (b & h & t & -> & Hwf' & l' & HR' & Hrot).
      cbn [bind]. eexists. split; [reflexivity|]. split; [exact Hwf'|].
      rewrite Z2Nat.id in Hrot by lia. rewrite Z.opp_involutive in Hrot.
      rewrite <- (Hcong l' Hrot). exact HR'.
    + destruct (rot_ftb_spec (Z.to_nat r) d l Hwf HR Hroom) as (b & h & t & -> & Hwf' & l' & HR' & Hrot).
      cbn [bind]. eexists. split; [reflexivity|]. split; [exact Hwf'|].
      rewrite Z2Nat.id in Hrot by lia.
      rewrite <- (Hcong l' Hrot). exact HR'.
Qed.

(* ---------------------------------------------------------------- SetMinCapacity *)
Lemma shl1_cases e : shl1 e > collections_queue_minCapacity -> pow2 (shl1 e).
Proof.
  unfold shl1, collections_queue_minCapacity.
  destruct (Z.leb_spec 0 e); destruct (Z.ltb_spec e 63); cbn [andb].
  - intros _. exists e. split; [lia|reflexivity].
  - destruct (Z.eqb_spec e 63); [|lia]. intros Hgt. exfalso. assert (0 < 2 ^ 63) by (apply Z.pow_pos_nonneg; lia). lia.
  - destruct (Z.eqb_spec e 63); lia.
  - destruct (Z.eqb_spec e 63); lia.
Qed.

Lemma set_min_cap_spec d l e : wf d -> R d l -> wf (set_min_cap d e) /\ R (set_min_cap d e) l.
Proof.
  intros (Hc & Hm & Hz & Hpos) HR. split; [|exact HR].
  unfold wf, set_min_cap, cap. cbn [buf head tail count minCap]. fold (cap d).
  split; [exact Hc|]. split; [|split; [exact Hz|exact Hpos]].
  right. destruct (Z.gtb_spec (shl1 e) collections_queue_minCapacity).
  - split; [apply shl1_cases; lia|lia].
  - split; [apply pow2_min_capacity|lia].
Qed.

(* ---------------------------------------------------------------- one call *)
Lemma step_refines d l o : wf d -> R d l ->
  let '(d', x) := step d o in
  let '(l', y) := spec_step l o in
  wf d' /\ R d' l' /\ x = y.
Proof.
  intros Hwf HR. pose proof HR as [Hlen Hp].
  destruct o as [a|a| | | | |i|i a| |n|e]; cbn [step spec_step].
  - destruct (push_back_spec d l a Hwf HR) as (d' & -> & Hw1 & Hr2). cbn. auto.
  - destruct (push_front_spec d l a Hwf HR) as (d' & -> & Hw1 & Hr2). cbn. auto.
  - destruct l as [|x r].
    + rewrite zlen_nil in Hlen. destruct (Z.leb_spec (count d) 0); [auto|lia].
    + rewrite zlen_cons in Hlen. pose proof (zlen_nonneg r).
      destruct (Z.leb_spec (count d) 0); [lia|].
      destruct (pop_front_spec d x r Hwf HR) as (d' & -> & Hw1 & Hr2). cbn. auto.
  - destruct (rev l) as [|x r0] eqn:El.
    + assert (l = []) as -> by (rewrite <- (rev_involutive l), El; reflexivity).
      rewrite zlen_nil in Hlen. destruct (Z.leb_spec (count d) 0); [auto|lia].
    + apply rev_cons_inv in El. subst l.
      assert (Hl : zlen (rev r0 ++ [x]) = zlen (rev r0) + 1) by (rewrite zlen_app; reflexivity).
      pose proof (zlen_nonneg (rev r0)).
      destruct (Z.leb_spec (count d) 0); [lia|].
      destruct (pop_back_spec d x (rev r0) Hwf HR) as (d' & -> & Hw1 & Hr2). cbn. auto.
  - destruct l as [|x r].
    + rewrite zlen_nil in Hlen. destruct (Z.leb_spec (count d) 0); [auto|lia].
    + rewrite zlen_cons in Hlen. pose proof (zlen_nonneg r).
      destruct (Z.leb_spec (count d) 0); [lia|].
      destruct (R_nonempty_cap d _ Hwf HR ltac:(lia)) as (Hcap & Hp2 & Hh & Ht).
      assert (Hz0 := Hp 0 ltac:(lia)). rewrite Z.add_0_r, Z.mod_small in Hz0 by lia.
      cbn in Hz0. rewrite <- Hz0. cbn. auto.
  - destruct (rev l) as [|x r0] eqn:El.
    + assert (l = []) as -> by (rewrite <- (rev_involutive l), El; reflexivity).
      rewrite zlen_nil in Hlen. destruct (Z.leb_spec (count d) 0); [auto|lia].
    + apply rev_cons_inv in El.
      assert (Hl : zlen l = zlen (rev r0) + 1) by (subst l; rewrite zlen_app; reflexivity).
      pose proof (zlen_nonneg (rev r0)).
      destruct (Z.leb_spec (count d) 0); [lia|].
      destruct (R_nonempty_cap d _ Hwf HR ltac:(lia)) as (Hcap & Hp2 & Hh & Ht).
      unfold prev. rewrite (mask_mod d _ Hwf Hcap).
      assert (Hte : (tail d - 1) mod cap d = (head d + (count d - 1)) mod cap d).
      { destruct Hwf as (Hc & _). rewrite Ht. mod3 (cap d). lia. }
      assert (Hz0 := Hp (count d - 1) ltac:(lia)). subst l. rewrite getz_app in Hz0 by lia.
      destruct (Z.ltb_spec (count d - 1) (zlen (rev r0))); [lia|].
      replace (count d - 1 - zlen (rev r0)) with 0 in Hz0 by lia. cbn in Hz0.
      rewrite Hte, <- Hz0. cbn. auto.
  - unfold in_range. rewrite Hlen.
    destruct (Z.ltb_spec i 0); cbn [orb andb].
    { destruct (Z.leb_spec 0 i); [lia|]. cbn. auto. }
    destruct (Z.leb_spec 0 i); [|lia]. cbn [andb].
    destruct (Z.geb_spec i (count d)); destruct (Z.ltb_spec i (count d)); try lia; [auto|].
    rewrite (at_spec d l i Hwf HR) by lia.
    destruct (nth_error l (Z.to_nat i)) eqn:En; cbn; [auto|].
    apply nth_error_None in En. unfold zlen in Hlen. lia.
  - unfold in_range. rewrite Hlen.
    destruct (Z.ltb_spec i 0); cbn [orb andb].
    { destruct (Z.leb_spec 0 i); [lia|]. cbn. auto. }
    destruct (Z.leb_spec 0 i); [|lia]. cbn [andb].
    destruct (Z.geb_spec i (count d)); destruct (Z.ltb_spec i (count d)); try lia; [auto|].
    destruct (set_spec d l i a Hwf HR ltac:(lia)) as (b & -> & Hw1 & Hr2). cbn. auto.
  - destruct (clear_spec d l Hwf HR) as (d' & -> & Hw1 & Hr2). cbn. auto.
  - destruct (rotate_spec d l n Hwf HR) as (d' & -> & Hw1 & Hr2). cbn. auto.
  - destruct (set_min_cap_spec d l e Hwf HR) as [Hw1 Hr2]. auto.
Qed.

Lemma run_refines ops : forall d l, wf d -> R d l ->
  let '(d', xs) := run d ops in
  let '(l', ys) := spec_run l ops in
  wf d' /\ R d' l' /\ xs = ys.
Proof.
  induction ops as [|o ops IH]; intros d l Hwf HR; cbn [Model.run spec_run].
  - auto.
  - pose proof (step_refines d l o Hwf HR) as Hs.
    destruct (step d o) as [d1 x]. destruct (spec_step l o) as [l1 y].
    destruct Hs as (Hwf1 & HR1 & ->).
    specialize (IH d1 l1 Hwf1 HR1).
    destruct (run d1 ops) as [d2 xs]. destruct (spec_run l1 ops) as [l2 ys].
    destruct IH as (Hwf2 & HR2 & ->). auto.
Qed.

(* the executable [contents] is the abstraction *)
Lemma R_contents d l : wf d -> R d l -> contents nilv d = l.
Proof.
  intros Hwf [Hlen Hp]. symmetry. apply list_ext.
  - unfold contents, zlen. rewrite map_length, seq_length. unfold zlen in Hlen. lia.
  - intros i Hi. rewrite (getz_nth (contents nilv d)) by lia. unfold contents.
    rewrite nth_error_map.
    rewrite (nth_error_nth' _ 0%nat) by (rewrite seq_length; unfold zlen in *; lia).
    rewrite seq_nth by (unfold zlen in *; lia).
    cbn [option_map plus]. rewrite Z2Nat.id by lia.
    destruct (Z.eq_dec (cap d) 0) as [E|E].
    { destruct Hwf as (Hc & _). lia. }
    assert (Hcap : 0 < cap d) by (unfold cap in *; pose proof (zlen_nonneg (buf d)); lia).
    rewrite (mask_mod d _ Hwf Hcap). rewrite <- Hp by lia.
    destruct (getz_some l i Hi) as [x ->]. reflexivity.
Qed.

(* ---------------------------------------------------------------- constructors *)
Lemma round_up_spec fuel : forall x target, pow2 x -> target <= x * 2 ^ Z.of_nat fuel ->
  exists y, round_up fuel x target = Some y /\ pow2 y /\ x <= y /\ target <= y.
Proof.
  induction fuel as [|f IH]; intros x target Hx Hb.
  - cbn [round_up]. destruct (Z.ltb_spec x target).
    + change (2 ^ Z.of_nat 0) with 1 in Hb. lia.
    + exists x. repeat split; auto; lia.
  - cbn [round_up]. destruct (Z.ltb_spec x target).
    + destruct (IH (2 * x) target (pow2_double x Hx)) as (y & Hy & Hp & Hle & Ht).
      { rewrite Nat2Z.inj_succ, Z.pow_succ_r in Hb by lia. lia. }
      exists y. pose proof (pow2_pos x Hx). repeat split; auto; lia.
    + exists x. repeat split; auto; lia.
Qed.

Lemma new_deque_ok capacity minimum : capacity <= 2 ^ 62 -> minimum <= 2 ^ 62 ->
  exists d, new_deque nilv capacity minimum = Some d /\ wf d /\ R d [] /\
            pow2 (minCap d) /\ collections_queue_minCapacity <= minCap d /\ minimum <= minCap d /\
            (cap d = 0 \/ (if minCap d =? 0 then collections_queue_minCapacity else minCap d) <= cap d).
Proof.
  intros Hc Hm. unfold new_deque.
  assert (H64 : 2 ^ 62 <= 2 ^ Z.of_nat 64) by (vm_compute; discriminate).
  destruct (round_up_spec 64 collections_queue_minCapacity minimum pow2_min_capacity)
    as (m & -> & Hmp & Hmge & Hmm).
  { unfold collections_queue_minCapacity. lia. }
  cbn [bind]. pose proof (pow2_pos m Hmp) as Hmpos.
  destruct (Z.eqb_spec capacity 0).
  - eexists. split; [reflexivity|].
    split; [|split; [split; [reflexivity|cbn [count]; intros; lia]|repeat split; auto; left; reflexivity]].
    unfold wf, cap. cbn [buf head tail count minCap]. change (zlen (@nil A)) with 0.
    split; [lia|]. split; [right; auto|]. split; [auto|]. intros; lia.
  - destruct (round_up_spec 64 m capacity Hmp) as (sz & -> & Hsp & Hsge & Hsc).
    { nia. }
    cbn [bind]. pose proof (pow2_pos sz Hsp) as Hspos.
    rewrite make_some by lia. cbn [bind].
    eexists. split; [reflexivity|].
    split; [|split; [split; [reflexivity|cbn [count]; intros; lia]|repeat split; auto; right; unfold cap; cbn [buf minCap]; rewrite zlen_repeat, Z2Nat.id by lia; destruct (Z.eqb_spec m 0); lia]].
    unfold wf, cap. cbn [buf head tail count minCap]. rewrite zlen_repeat, Z2Nat.id by lia.
    split; [lia|]. split; [right; auto|]. split; [lia|]. intros _.
    split; [assumption|]. split; [lia|]. split; [lia|].
    rewrite Z.mod_0_l by lia. reflexivity.
Qed.

(* ---------------------------------------------------------------- the configured minimum *)
(* the minimum capacity in force: minCap, or minCapacity while the zero value has not
   allocated yet *)
Definition cfg (d : deque) : Z := if minCap d =? 0 then collections_queue_minCapacity else minCap d.

Ltac unbind :=
  repeat match goal with
  | H : bind ?x _ = Some _ |- _ => destruct x eqn:?; cbn [bind] in H; [|discriminate H]
  | H : Some _ = Some _ |- _ => injection H as H
  | H : (if ?c then _ else _) = Some _ |- _ => destruct c eqn:?
  | H : None = Some _ |- _ => discriminate H
  end.

(* how a call may change the capacity: an unallocated deque stays so or is allocated at the
   minimum; an allocated one keeps its minimum and its capacity grows, or shrinks to no less
   than the minimum *)
Definition capstep (d d' : deque) : Prop :=
  cfg d' = cfg d /\
  (cap d = 0 -> cap d' = 0 \/ cfg d' <= cap d') /\
  (0 < cap d -> cap d <= cap d' \/ cfg d' <= cap d').

Lemma capstep_same d d' : cap d' = cap d -> minCap d' = minCap d -> capstep d d'.
Proof.
  intros E1 E2. split; [unfold cfg; rewrite E2; reflexivity|]. split; intros H; left; lia.
Qed.

Lemma copy_into_length (dst src : list A) : length (copy_into dst src) = length dst.
Proof.
  unfold copy_into. rewrite app_length, firstn_length, skipn_length. lia.
Qed.

Lemma make_length n b : make nilv n = Some b -> zlen b = n.
Proof.
  unfold make. destruct (Z.leb_spec 0 n); [|discriminate]. intros Hm. injection Hm as <-.
  rewrite zlen_repeat. lia.
Qed.

Lemma resize_cap d d' : resize nilv d = Some d' -> cap d' = count d * 2 /\ minCap d' = minCap d.
Proof.
  unfold resize. intros H. destruct (make nilv (count d * 2)) as [nb|] eqn:Em; cbn [bind] in H; [|discriminate].
  apply make_length in Em. unfold zlen in Em.
  destruct (tail d >? head d).
  - unbind. subst d'. unfold cap, zlen. cbn [buf minCap]. rewrite copy_into_length. auto.
  - unbind. subst d'. unfold cap, zlen. cbn [buf minCap].
    rewrite app_length, firstn_length, !copy_into_length, skipn_length, copy_into_length. split; [lia|reflexivity].
Qed.

Lemma setz_length (l l' : list A) i v : setz l i v = Some l' -> zlen l' = zlen l.
Proof.
  unfold setz. destruct ((0 <=? i) && (i <? zlen l)); [|discriminate].
  intros H. injection H as <-. apply zlen_upd.
Qed.

Lemma grow_cap d d1 : wf d -> grow_if_full nilv d = Some d1 -> capstep d d1.
Proof.
  intros (Hc & Hm & Hz & Hpos) H. unfold grow_if_full in H.
  destruct (Z.eqb_spec (count d) (cap d)) as [Hfull|Hnf]; cbn [negb] in H.
  2:{ injection H as <-. apply capstep_same; reflexivity. }
  destruct (Z.eqb_spec (cap d) 0) as [Hc0|Hcn].
  - set (m := if minCap d =? 0 then collections_queue_minCapacity else minCap d) in *.
    destruct (make nilv m) as [b|] eqn:Em; cbn [bind] in H; [|discriminate].
    injection H as <-. apply make_length in Em.
    assert (Ecfg : cfg (mkDeque b (head d) (tail d) (count d) m) = cfg d).
    { unfold cfg, m. cbn [minCap]. unfold collections_queue_minCapacity.
      destruct (Z.eqb_spec (minCap d) 0) as [E|E]; [reflexivity|].
      destruct (Z.eqb_spec (minCap d) 0); [contradiction|reflexivity]. }
    split; [exact Ecfg|]. split; [|lia]. intros _. right. rewrite Ecfg.
    unfold cap. cbn [buf]. rewrite Em. unfold cfg, m. lia.
  - destruct (resize_cap _ _ H) as [E1 E2]. assert (Hcap : 0 < cap d) by lia.
    split; [unfold cfg; rewrite E2; reflexivity|]. split; [lia|]. intros _. left. lia.
Qed.

Lemma shrink_cap d d2 : 0 < cap d -> pow2 (cap d) -> pow2 (minCap d) ->
  shrink_if_excess nilv d = Some d2 -> capstep d d2.
Proof.
  intros Hcap Hp2 Hpm H. unfold shrink_if_excess in H.
  destruct (Z.gtb_spec (cap d) (minCap d)) as [Hgt|Hle]; cbn [andb] in H.
  2:{ injection H as <-. apply capstep_same; reflexivity. }
  destruct (Z.eqb_spec (count d * 4) (cap d)) as [Hq|Hnq].
  2:{ injection H as <-. apply capstep_same; reflexivity. }
  destruct (resize_cap _ _ H) as [E1 E2].
  pose proof (pow2_gt_double _ _ Hp2 Hpm ltac:(lia)) as Hd.
  split; [unfold cfg; rewrite E2; reflexivity|]. split; [lia|]. intros _. right. unfold cfg. rewrite E2.
  pose proof (pow2_pos _ Hpm). destruct (Z.eqb_spec (minCap d) 0); lia.
Qed.

Lemma clear_loop_length fuel : forall (b b' : list A) h t m,
  clear_loop nilv fuel b h t m = Some b' -> zlen b' = zlen b.
Proof.
  induction fuel as [|f IH]; intros b b' h t m H; cbn [clear_loop] in H.
  - destruct (h =? t); [injection H as <-; reflexivity|discriminate].
  - destruct (h =? t); [injection H as <-; reflexivity|].
    destruct (setz b h nilv) as [b1|] eqn:E; cbn [bind] in H; [|discriminate].
    rewrite (IH _ _ _ _ _ H). apply (setz_length _ _ _ _ E).
Qed.

Lemma rot_btf_length k : forall (b b' : list A) h t m h' t',
  rot_back_to_front nilv k b h t m = Some (b', h', t') -> zlen b' = zlen b.
Proof.
  induction k as [|k IH]; intros b b' h t m h' t' H; cbn [rot_back_to_front] in H.
  - injection H as <- _ _. reflexivity.
  - unbind. match goal with Hr : rot_back_to_front _ _ _ _ _ _ = _ |- _ => rewrite (IH _ _ _ _ _ _ _ Hr) end.
    repeat match goal with Hs : setz _ _ _ = Some _ |- _ => rewrite (setz_length _ _ _ _ Hs); clear Hs end.
    reflexivity.
Qed.

Lemma rot_ftb_length k : forall (b b' : list A) h t m h' t',
  rot_front_to_back nilv k b h t m = Some (b', h', t') -> zlen b' = zlen b.
Proof.
  induction k as [|k IH]; intros b b' h t m h' t' H; cbn [rot_front_to_back] in H.
  - injection H as <- _ _. reflexivity.
  - unbind. match goal with Hr : rot_front_to_back _ _ _ _ _ _ = _ |- _ => rewrite (IH _ _ _ _ _ _ _ Hr) end.
    repeat match goal with Hs : setz _ _ _ = Some _ |- _ => rewrite (setz_length _ _ _ _ Hs); clear Hs end.
    reflexivity.
Qed.

(* every call other than SetMinCapacity *)
Lemma step_capstep d o : wf d -> (forall e, o <> SetMinCap e) -> capstep d (fst (step d o)).
Proof.
  intros Hwf Hns. pose proof Hwf as (Hc & Hm & Hz & Hpos).
  assert (Hrefl : capstep d d) by (apply capstep_same; reflexivity).
  destruct o as [a|a| | | | |i|i a| |n|e]; cbn [step].
  - unfold crash_or. destruct (push_back nilv d a) as [d'|] eqn:E; [|exact Hrefl]. cbn [fst].
    unfold push_back in E. unbind. subst d'.
    match goal with Hg : grow_if_full _ _ = Some ?d1, Hs : setz _ _ _ = Some _ |- _ =>
      destruct (grow_cap _ _ Hwf Hg) as (G0 & G1 & G2); pose proof (setz_length _ _ _ _ Hs) as Hl end.
    unfold capstep, cfg, cap in *. cbn [buf minCap] in *. rewrite Hl. auto.
  - unfold crash_or. destruct (push_front nilv d a) as [d'|] eqn:E; [|exact Hrefl]. cbn [fst].
    unfold push_front in E. unbind. subst d'.
    match goal with Hg : grow_if_full _ _ = Some ?d1, Hs : setz _ _ _ = Some _ |- _ =>
      destruct (grow_cap _ _ Hwf Hg) as (G0 & G1 & G2); pose proof (setz_length _ _ _ _ Hs) as Hl end.
    unfold capstep, cfg, cap in *. cbn [buf minCap] in *. rewrite Hl. auto.
  - destruct (Z.leb_spec (count d) 0); [exact Hrefl|].
    unfold crash_or. destruct (pop_front nilv d) as [[d' x]|] eqn:E; [|exact Hrefl]. cbn [fst].
    unfold pop_front in E. unbind. subst d'.
    assert (Hcap : 0 < cap d) by lia. destruct (Hpos Hcap) as (Hp2 & _).
    match goal with Hg : shrink_if_excess _ ?dm = Some _, Hs : setz _ _ _ = Some _ |- _ =>
      pose proof (setz_length _ _ _ _ Hs) as Hl;
      assert (Ecm : cap dm = cap d) by (unfold cap; cbn [buf]; exact Hl);
      pose proof (shrink_cap dm _ ltac:(rewrite Ecm; exact Hcap) ltac:(rewrite Ecm; exact Hp2)
                    ltac:(cbn [minCap]; destruct Hm as [[? ?]|[? _]]; [lia|assumption]) Hg) as (S0 & S1 & S2) end.
    split; [exact S0|]. split; [lia|]. intros _. rewrite Ecm in S2. exact (S2 Hcap).
  - destruct (Z.leb_spec (count d) 0); [exact Hrefl|].
    unfold crash_or. destruct (pop_back nilv d) as [[d' x]|] eqn:E; [|exact Hrefl]. cbn [fst].
    unfold pop_back in E. unbind. subst d'.
    assert (Hcap : 0 < cap d) by lia. destruct (Hpos Hcap) as (Hp2 & _).
    match goal with Hg : shrink_if_excess _ ?dm = Some _, Hs : setz _ _ _ = Some _ |- _ =>
      pose proof (setz_length _ _ _ _ Hs) as Hl;
      assert (Ecm : cap dm = cap d) by (unfold cap; cbn [buf]; exact Hl);
      pose proof (shrink_cap dm _ ltac:(rewrite Ecm; exact Hcap) ltac:(rewrite Ecm; exact Hp2)
                    ltac:(cbn [minCap]; destruct Hm as [[? ?]|[? _]]; [lia|assumption]) Hg) as (S0 & S1 & S2) end.
    split; [exact S0|]. split; [lia|]. intros _. rewrite Ecm in S2. exact (S2 Hcap).
  - destruct (count d <=? 0); [exact Hrefl|]. unfold crash_or. destruct (getz _ _); exact Hrefl.
  - destruct (count d <=? 0); [exact Hrefl|]. unfold crash_or. destruct (getz _ _); exact Hrefl.
  - destruct ((i <? 0) || (i >=? count d)); [exact Hrefl|]. unfold crash_or. destruct (getz _ _); exact Hrefl.
  - destruct ((i <? 0) || (i >=? count d)); [exact Hrefl|]. unfold crash_or.
    destruct (setz _ _ _) as [b|] eqn:E; [|exact Hrefl]. cbn [fst].
    apply capstep_same; [unfold cap; cbn [buf]; apply (setz_length _ _ _ _ E)|reflexivity].
  - unfold crash_or. destruct (clear nilv d) as [d'|] eqn:E; [|exact Hrefl]. cbn [fst].
    unfold clear in E. unbind. subst d'.
    match goal with Hl : clear_loop _ _ _ _ _ _ = Some _ |- _ => apply clear_loop_length in Hl;
      apply capstep_same; [unfold cap; cbn [buf]; exact Hl|reflexivity] end.
  - unfold crash_or. destruct (rotate nilv d n) as [d'|] eqn:E; [|exact Hrefl]. cbn [fst].
    unfold rotate in E.
    destruct (count d <=? 1); [injection E as <-; exact Hrefl|].
    destruct (Z.rem n (count d) =? 0); [injection E as <-; exact Hrefl|].
    destruct (head d =? tail d); [injection E as <-; apply capstep_same; reflexivity|].
    unbind; destruct p as [[b h] t]; injection E as <-;
      (apply capstep_same; [unfold cap; cbn [buf]|reflexivity]);
      match goal with
      | Hr : rot_back_to_front _ _ _ _ _ _ = _ |- _ => exact (rot_btf_length _ _ _ _ _ _ _ _ Hr)
      | Hr : rot_front_to_back _ _ _ _ _ _ = _ |- _ => exact (rot_ftb_length _ _ _ _ _ _ _ _ Hr)
      end.
  - exfalso. apply (Hns e). reflexivity.
Qed.

(* upper bounds: a call adds at most one element, and the capacity afterwards is the old
   one, the minimum in force, or twice the old length *)
Definition upstep (d d' : deque) : Prop :=
  count d' <= count d + 1 /\ cap d' <= Z.max (cap d) (Z.max (cfg d') (2 * count d)).

Lemma upstep_same d d' : cap d' = cap d -> count d' <= count d + 1 -> upstep d d'.
Proof. intros E1 E2. split; [exact E2|lia]. Qed.

Lemma resize_count d d' : resize nilv d = Some d' -> count d' = count d.
Proof. unfold resize. intros H. unbind; subst d'; reflexivity. Qed.

Lemma grow_upper d d1 : wf d -> grow_if_full nilv d = Some d1 ->
  count d1 = count d /\ cap d1 <= Z.max (cap d) (Z.max (cfg d1) (2 * count d)).
Proof.
  intros (Hc & Hm & Hz & Hpos) H. unfold grow_if_full in H.
  destruct (Z.eqb_spec (count d) (cap d)) as [Hfull|Hnf]; cbn [negb] in H.
  2:{ injection H as <-. split; [reflexivity|lia]. }
  destruct (Z.eqb_spec (cap d) 0) as [Hc0|Hcn].
  - set (m := if minCap d =? 0 then collections_queue_minCapacity else minCap d) in *.
    destruct (make nilv m) as [b|] eqn:Em; cbn [bind] in H; [|discriminate].
    injection H as <-. apply make_length in Em. cbn [count]. split; [reflexivity|].
    unfold cap, cfg. cbn [buf minCap]. rewrite Em.
    assert (m <> 0).
    { unfold m, collections_queue_minCapacity. destruct (Z.eqb_spec (minCap d) 0); lia. }
    destruct (Z.eqb_spec m 0); lia.
  - destruct (resize_cap _ _ H) as [E1 _]. rewrite (resize_count _ _ H). split; [reflexivity|lia].
Qed.

Lemma shrink_upper d d2 : shrink_if_excess nilv d = Some d2 ->
  count d2 = count d /\ cap d2 <= Z.max (cap d) (2 * count d).
Proof.
  unfold shrink_if_excess. intros H.
  destruct ((cap d >? minCap d) && (count d * 4 =? cap d)).
  - destruct (resize_cap _ _ H) as [E1 _]. rewrite (resize_count _ _ H). split; [reflexivity|lia].
  - injection H as <-. split; [reflexivity|lia].
Qed.

Lemma step_upper d o : wf d -> upstep d (fst (step d o)).
Proof.
  intros Hwf. pose proof Hwf as (Hc & Hm & Hz & Hpos).
  assert (Hrefl : upstep d d) by (apply upstep_same; [reflexivity|lia]).
  destruct o as [a|a| | | | |i|i a| |n|e]; cbn [step].
  - unfold crash_or. destruct (push_back nilv d a) as [d'|] eqn:E; [|exact Hrefl]. cbn [fst].
    unfold push_back in E. unbind. subst d'.
    match goal with Hg : grow_if_full _ _ = Some ?d1, Hs : setz _ _ _ = Some _ |- _ =>
      destruct (grow_upper _ _ Hwf Hg) as (G0 & G1); pose proof (setz_length _ _ _ _ Hs) as Hl end.
    unfold upstep, cfg, cap in *. cbn [buf minCap count] in *. rewrite Hl. split; lia.
  - unfold crash_or. destruct (push_front nilv d a) as [d'|] eqn:E; [|exact Hrefl]. cbn [fst].
    unfold push_front in E. unbind. subst d'.
    match goal with Hg : grow_if_full _ _ = Some ?d1, Hs : setz _ _ _ = Some _ |- _ =>
      destruct (grow_upper _ _ Hwf Hg) as (G0 & G1); pose proof (setz_length _ _ _ _ Hs) as Hl end.
    unfold upstep, cfg, cap in *. cbn [buf minCap count] in *. rewrite Hl. split; lia.
  - destruct (Z.leb_spec (count d) 0); [exact Hrefl|].
    unfold crash_or. destruct (pop_front nilv d) as [[d' x]|] eqn:E; [|exact Hrefl]. cbn [fst].
    unfold pop_front in E. unbind. subst d'.
    match goal with Hg : shrink_if_excess _ ?dm = Some _, Hs : setz _ _ _ = Some _ |- _ =>
      pose proof (setz_length _ _ _ _ Hs) as Hl;
      destruct (shrink_upper dm _ Hg) as [S0 S1] end.
    unfold upstep, cap in *. cbn [buf count] in *. rewrite Hl in S1. split; lia.
  - destruct (Z.leb_spec (count d) 0); [exact Hrefl|].
    unfold crash_or. destruct (pop_back nilv d) as [[d' x]|] eqn:E; [|exact Hrefl]. cbn [fst].
    unfold pop_back in E. unbind. subst d'.
    match goal with Hg : shrink_if_excess _ ?dm = Some _, Hs : setz _ _ _ = Some _ |- _ =>
      pose proof (setz_length _ _ _ _ Hs) as Hl;
      destruct (shrink_upper dm _ Hg) as [S0 S1] end.
    unfold upstep, cap in *. cbn [buf count] in *. rewrite Hl in S1. split; lia.
  - destruct (count d <=? 0); [exact Hrefl|]. unfold crash_or. destruct (getz _ _); exact Hrefl.
  - destruct (count d <=? 0); [exact Hrefl|]. unfold crash_or. destruct (getz _ _); exact Hrefl.
  - destruct ((i <? 0) || (i >=? count d)); [exact Hrefl|]. unfold crash_or. destruct (getz _ _); exact Hrefl.
  - destruct ((i <? 0) || (i >=? count d)); [exact Hrefl|]. unfold crash_or.
    destruct (setz _ _ _) as [b|] eqn:E; [|exact Hrefl]. cbn [fst].
    apply upstep_same; [unfold cap; cbn [buf]; apply (setz_length _ _ _ _ E)|cbn [count]; lia].
  - unfold crash_or. destruct (clear nilv d) as [d'|] eqn:E; [|exact Hrefl]. cbn [fst].
    unfold clear in E. unbind. subst d'.
    match goal with Hl : clear_loop _ _ _ _ _ _ = Some _ |- _ => apply clear_loop_length in Hl;
      apply upstep_same; [unfold cap; cbn [buf]; exact Hl|cbn [count]; lia] end.
  - unfold crash_or. destruct (rotate nilv d n) as [d'|] eqn:E; [|exact Hrefl]. cbn [fst].
    unfold rotate in E.
    destruct (count d <=? 1); [injection E as <-; exact Hrefl|].
    destruct (Z.rem n (count d) =? 0); [injection E as <-; exact Hrefl|].
    destruct (head d =? tail d); [injection E as <-; apply upstep_same; [reflexivity|cbn [count]; lia]|].
    unbind; destruct p as [[b h] t]; injection E as <-;
      (apply upstep_same; [unfold cap; cbn [buf]|cbn [count]; lia]);
      match goal with
      | Hr : rot_back_to_front _ _ _ _ _ _ = _ |- _ => exact (rot_btf_length _ _ _ _ _ _ _ _ Hr)
      | Hr : rot_front_to_back _ _ _ _ _ _ = _ |- _ => exact (rot_ftb_length _ _ _ _ _ _ _ _ Hr)
      end.
  - cbn [fst]. apply upstep_same; [reflexivity|cbn [set_min_cap count]; lia].
Qed.

(* SetMinCapacity itself changes nothing but the minimum *)
Lemma set_min_cap_cap d e :
  cap (set_min_cap d e) = cap d /\ count (set_min_cap d e) = count d /\
  pow2 (cfg (set_min_cap d e)) /\ collections_queue_minCapacity <= cfg (set_min_cap d e).
Proof.
  split; [reflexivity|]. split; [reflexivity|]. unfold cfg, set_min_cap. cbn [minCap].
  destruct (Z.gtb_spec (shl1 e) collections_queue_minCapacity) as [Hgt|Hle].
  - pose proof (shl1_cases e ltac:(lia)) as Hp. unfold collections_queue_minCapacity in *.
    destruct (Z.eqb_spec (shl1 e) 0); [lia|]. split; [exact Hp|lia].
  - unfold collections_queue_minCapacity. simpl. split; [exists 4; split; [lia|reflexivity]|lia].
Qed.

(* the capacity is at least the minimum in force (or nothing is allocated yet) *)
Definition above (d : deque) : Prop := cap d = 0 \/ cfg d <= cap d.

Lemma capstep_above d d' : capstep d d' -> above d -> above d'.
Proof.
  intros (C0 & C1 & C2) [H0|Hab].
  - exact (C1 H0).
  - destruct (Z.eq_dec (cap d) 0) as [E|E]; [exact (C1 E)|].
    assert (Hcap : 0 < cap d) by (unfold cap in *; pose proof (zlen_nonneg (buf d)); lia).
    destruct (C2 Hcap) as [Hge|Hge]; right; [rewrite C0; lia|exact Hge].
Qed.

Definition no_set_min (ops : list (op A)) : Prop := forall e, ~ In (SetMinCap e) ops.

Lemma run_above ops : forall d l, wf d -> R d l -> no_set_min ops -> above d ->
  above (fst (run d ops)) /\ cfg (fst (run d ops)) = cfg d.
Proof.
  induction ops as [|o ops IH]; intros d l Hwf HR Hns Hab; cbn [Model.run].
  - auto.
  - pose proof (step_refines d l o Hwf HR) as Hs.
    assert (Hno : forall e, o <> SetMinCap e) by (intros e E; apply (Hns e); left; exact E).
    pose proof (step_capstep d o Hwf Hno) as Hcs.
    destruct (step d o) as [d1 x]. destruct (spec_step l o) as [l1 y]. cbn [fst] in Hcs.
    destruct Hs as (Hwf1 & HR1 & _).
    destruct (IH d1 l1 Hwf1 HR1 ltac:(intros e H; apply (Hns e); right; exact H)
                 (capstep_above d d1 Hcs Hab)) as [I1 I2].
    destruct (run d1 ops) as [d2 xs]. cbn [fst] in *. split; [exact I1|].
    rewrite I2. exact (proj1 Hcs).
Qed.

(* ---------------------------------------------------------------- the theorems *)
Theorem deque_refines_list d0 ops : wf d0 -> R d0 [] ->
  let '(d, outs) := run d0 ops in
  let '(l, souts) := spec_run [] ops in
  outs = souts /\ contents nilv d = l /\ count d = zlen l.
Proof.
  intros Hwf HR. pose proof (run_refines ops d0 [] Hwf HR) as H.
  destruct (run d0 ops) as [d outs]. destruct (spec_run [] ops) as [l souts].
  destruct H as (Hwf' & HR' & ->). split; [reflexivity|]. split.
  - apply R_contents; assumption.
  - destruct HR' as [Hl _]. lia.
Qed.

(* every history, SetMinCapacity included: the capacity is 0 or a power of two, at least
   minCapacity and at least the length; the minimum in force is a power of two >= minCapacity *)
Theorem deque_capacity d0 ops : wf d0 -> R d0 [] ->
  let d := fst (run d0 ops) in
  (cap d = 0 \/ (pow2 (cap d) /\ collections_queue_minCapacity <= cap d /\ count d <= cap d)) /\
  pow2 (cfg d) /\ collections_queue_minCapacity <= cfg d.
Proof.
  intros Hwf HR. pose proof (run_refines ops d0 [] Hwf HR) as H.
  destruct (run d0 ops) as [d outs]. destruct (spec_run [] ops) as [l souts].
  destruct H as ((Hc & Hm & Hz & Hpos) & _ & _). cbn [fst].
  split.
  - destruct (Z.eq_dec (cap d) 0) as [E|E]; [left; assumption|right].
    assert (Hcap : 0 < cap d) by (unfold cap in *; pose proof (zlen_nonneg (buf d)); lia).
    destruct (Hpos Hcap) as (Hp2 & Hmc & _). split; [assumption|]. split; [assumption|lia].
  - unfold cfg. destruct (Z.eqb_spec (minCap d) 0).
    + split; [apply pow2_min_capacity|lia].
    + destruct Hm as [[? _]|?]; [lia|assumption].
Qed.

(* the configured minimum.  A call other than SetMinCapacity keeps the minimum in force; it
   allocates at that minimum, never shrinks below it, and keeps "capacity >= minimum" once it
   holds.  SetMinCapacity changes only the minimum: the capacity is NOT adjusted at once, so
   right after raising the minimum above the current capacity the deque is below it until it
   has grown there (it cannot shrink meanwhile). *)
Theorem deque_minimum_step d0 ops o : wf d0 -> R d0 [] ->
  let d := fst (run d0 ops) in
  let d' := fst (step d o) in
  ((forall e, o <> SetMinCap e) ->
     cfg d' = cfg d /\
     (cap d = 0 -> cap d' = 0 \/ cfg d' <= cap d') /\
     (cap d' < cap d -> cfg d' <= cap d') /\
     (above d -> above d')) /\
  (forall e, o = SetMinCap e -> cap d' = cap d /\ count d' = count d /\ contents nilv d' = contents nilv d).
Proof.
  intros Hwf HR. pose proof (run_refines ops d0 [] Hwf HR) as H.
  destruct (run d0 ops) as [d outs]. destruct (spec_run [] ops) as [l souts].
  destruct H as (Hwfd & HRd & _). cbn [fst]. split.
  - intros Hno. pose proof (step_capstep d o Hwfd Hno) as Hcs. pose proof Hcs as (C0 & C1 & C2).
    split; [exact C0|]. split; [exact C1|]. split; [|apply capstep_above; exact Hcs].
    intros Hlt. destruct (Z.eq_dec (cap d) 0) as [E|E].
    + pose proof (zlen_nonneg (buf (fst (step d o)))). unfold cap in *. lia.
    + assert (Hcap : 0 < cap d) by (unfold cap in *; pose proof (zlen_nonneg (buf d)); lia).
      destruct (C2 Hcap); [lia|assumption].
  - intros e ->. cbn [step fst]. repeat split.
Qed.

(* histories without SetMinCapacity: the capacity is never below the configured minimum *)
Theorem deque_capacity_configured d0 ops : wf d0 -> R d0 [] -> above d0 -> no_set_min ops ->
  let d := fst (run d0 ops) in
  cap d = 0 \/ cfg d0 <= cap d.
Proof.
  intros Hwf HR Hab Hns. destruct (run_above ops d0 [] Hwf HR Hns Hab) as [[H|H] E]; [left; exact H|].
  right. rewrite <- E. exact H.
Qed.

(* no call of any history hits a run-time error (index out of range, endless loop) *)
Lemma spec_no_crash ops : forall (l : list A), ~ In OCrash (snd (spec_run l ops)).
Proof.
  induction ops as [|o ops IH]; intros l; cbn [spec_run].
  - cbn. auto.
  - destruct (spec_step l o) as [l1 y] eqn:E1. specialize (IH l1).
    destruct (spec_run l1 ops) as [l2 ys]. cbn [snd] in *. intros [H|H]; [|auto]. subst y.
    destruct o; cbn [spec_step] in E1;
      repeat match type of E1 with
             | context [match ?x with _ => _ end] => destruct x
             | context [if ?x then _ else _] => destruct x
             end; inversion E1.
Qed.

Theorem deque_no_crash d0 ops : wf d0 -> R d0 [] -> ~ In OCrash (snd (run d0 ops)).
Proof.
  intros Hwf HR. pose proof (deque_refines_list d0 ops Hwf HR) as H.
  pose proof (spec_no_crash ops []) as Hs.
  destruct (run d0 ops) as [d outs]. destruct (spec_run [] ops) as [l souts].
  destruct H as (-> & _). exact Hs.
Qed.

End Deque.
