(* C12 — lemmas about lists indexed by Z (getz / setz / upd / firstn / skipn / rev) and
   about x mod c for x within one period of [0, c). *)
From Coq Require Import ZArith List Bool Lia.
From FV Require Import C12.Spec C12.Model.
Import ListNotations.
Open Scope Z_scope.

Lemma mod_3cases c x : 0 < c -> - c <= x < 2 * c ->
  (x < 0 /\ x mod c = x + c) \/ (0 <= x < c /\ x mod c = x) \/ (c <= x /\ x mod c = x - c).
Proof.
  intros Hc Hx.
  destruct (Z_lt_dec x 0) as [Hn|Hn].
  - left. split; [assumption|]. symmetry. apply Z.mod_unique_pos with (q := -1); lia.
  - destruct (Z_lt_dec x c) as [Hs|Hs].
    + right; left. split; [lia|]. apply Z.mod_small; lia.
    + right; right. split; [lia|]. symmetry. apply Z.mod_unique_pos with (q := 1); lia.
Qed.

(* replace every [x mod c] whose argument is mod-free and within one period by a fresh
   variable constrained by the three cases; finish with lia *)
Ltac mod3 c :=
  repeat match goal with
  | |- context [?x mod c] =>
      lazymatch x with context [_ mod _] => fail | _ => idtac end;
      let H := fresh "Hmod" in let m := fresh "m" in let Heq := fresh "Heqmod" in
      assert (H : - c <= x < 2 * c) by lia;
      apply (mod_3cases c x) in H; [|lia];
      remember (x mod c) as m eqn:Heq in *; clear Heq
  | Hh : context [?x mod c] |- _ =>
      lazymatch x with context [_ mod _] => fail | _ => idtac end;
      let H := fresh "Hmod" in let m := fresh "m" in let Heq := fresh "Heqmod" in
      assert (H : - c <= x < 2 * c) by lia;
      apply (mod_3cases c x) in H; [|lia];
      remember (x mod c) as m eqn:Heq in *; clear Heq
  end.

Section ZLen.
Context {X : Type}.
Lemma zlen_nonneg (l : list X) : 0 <= zlen l.
Proof. unfold zlen. lia. Qed.

Lemma zlen_nil : zlen (@nil X) = 0.
Proof. reflexivity. Qed.

Lemma zlen_cons (x : X) l : zlen (x :: l) = zlen l + 1.
Proof. unfold zlen. simpl length. lia. Qed.

Lemma zlen_app (l1 l2 : list X) : zlen (l1 ++ l2) = zlen l1 + zlen l2.
Proof. unfold zlen. rewrite app_length. lia. Qed.

Lemma zlen_repeat (x : X) n : zlen (repeat x n) = Z.of_nat n.
Proof. unfold zlen. rewrite repeat_length. reflexivity. Qed.

Lemma zlen_rev (l : list X) : zlen (rev l) = zlen l.
Proof. unfold zlen. rewrite rev_length. reflexivity. Qed.

Lemma zlen_0_nil (l : list X) : zlen l = 0 -> l = [].
Proof. destruct l; [reflexivity|]. rewrite zlen_cons. pose proof (zlen_nonneg l). lia. Qed.

End ZLen.

Section ListZ.
Context {A : Type}.
Implicit Types l : list A.

Lemma upd_length l n v : length (upd l n v) = length l.
Proof. revert n. induction l as [|x l IH]; intros [|n]; simpl; auto. Qed.

Lemma zlen_upd l n v : zlen (upd l n v) = zlen l.
Proof. unfold zlen. rewrite upd_length. reflexivity. Qed.

Lemma nth_error_upd l n m v :
  nth_error (upd l n v) m = if Nat.eqb m n then (if Nat.ltb n (length l) then Some v else None) else nth_error l m.
Proof.
  revert n m. induction l as [|x l IH]; intros n m.
  - simpl. destruct n, m; simpl; try reflexivity. destruct (Nat.eqb m n); reflexivity.
  - destruct n as [|n], m as [|m]; simpl; try reflexivity.
    rewrite IH. destruct (Nat.eqb m n); [|reflexivity].
    change (S n <? S (length l))%nat with (n <? length l)%nat. reflexivity.
Qed.

(* getz on non-negative indexes is nth_error *)
Lemma getz_nth l i : 0 <= i -> getz l i = nth_error l (Z.to_nat i).
Proof.
  intros Hi. unfold getz.
  destruct (Z.leb_spec 0 i); [|lia].
  destruct (Z.ltb_spec i (zlen l)); simpl; [reflexivity|].
  symmetry. apply nth_error_None. unfold zlen in *. lia.
Qed.

Lemma getz_neg l i : i < 0 -> getz l i = None.
Proof. intros. unfold getz. destruct (Z.leb_spec 0 i); [lia|reflexivity]. Qed.

Lemma getz_oob l i : zlen l <= i -> getz l i = None.
Proof.
  intros. unfold getz. destruct (Z.ltb_spec i (zlen l)); [lia|]. rewrite andb_false_r. reflexivity.
Qed.

Lemma getz_some l i : 0 <= i < zlen l -> exists x, getz l i = Some x.
Proof.
  intros Hi. rewrite getz_nth by lia.
  destruct (nth_error l (Z.to_nat i)) eqn:E; [eauto|].
  apply nth_error_None in E. unfold zlen in *. lia.
Qed.

Lemma getz_in_range l i x : getz l i = Some x -> 0 <= i < zlen l.
Proof.
  unfold getz. destruct (Z.leb_spec 0 i); destruct (Z.ltb_spec i (zlen l)); simpl; try discriminate. lia.
Qed.

Lemma setz_some l i v : 0 <= i < zlen l -> setz l i v = Some (upd l (Z.to_nat i) v).
Proof.
  intros Hi. unfold setz.
  destruct (Z.leb_spec 0 i); [|lia]. destruct (Z.ltb_spec i (zlen l)); [|lia]. reflexivity.
Qed.

Lemma getz_upd l j v i : 0 <= j < zlen l -> 0 <= i ->
  getz (upd l (Z.to_nat j) v) i = if i =? j then Some v else getz l i.
Proof.
  intros Hj Hi. rewrite !getz_nth by lia. rewrite nth_error_upd.
  destruct (Z.eqb_spec i j) as [->|Hne].
  - rewrite Nat.eqb_refl. destruct (Nat.ltb_spec (Z.to_nat j) (length l)); [reflexivity|].
    unfold zlen in Hj. lia.
  - destruct (Nat.eqb_spec (Z.to_nat i) (Z.to_nat j)); [lia|reflexivity].
Qed.

Lemma getz_cons x l i : 0 <= i -> getz (x :: l) i = if i =? 0 then Some x else getz l (i - 1).
Proof.
  intros Hi. destruct (Z.eqb_spec i 0) as [->|Hne].
  - reflexivity.
  - rewrite !getz_nth by lia. replace (Z.to_nat i) with (S (Z.to_nat (i - 1))) by lia. reflexivity.
Qed.

Lemma getz_app l1 l2 i : 0 <= i ->
  getz (l1 ++ l2) i = if i <? zlen l1 then getz l1 i else getz l2 (i - zlen l1).
Proof.
  intros Hi. destruct (Z.ltb_spec i (zlen l1)).
  - rewrite !getz_nth by lia. apply nth_error_app1. unfold zlen in *. lia.
  - rewrite !getz_nth by lia. rewrite nth_error_app2 by (unfold zlen in *; lia).
    f_equal. unfold zlen. lia.
Qed.

Lemma getz_repeat (x : A) n i : 0 <= i < Z.of_nat n -> getz (repeat x n) i = Some x.
Proof.
  intros Hi. rewrite getz_nth by lia.
  apply nth_error_repeat. lia.
Qed.

Lemma getz_skipn l n i : 0 <= i -> 0 <= n -> getz (skipn (Z.to_nat n) l) i = getz l (i + n).
Proof.
  intros Hi Hn. rewrite !getz_nth by lia.
  replace (Z.to_nat (i + n)) with (Z.to_nat n + Z.to_nat i)%nat by lia.
  generalize (Z.to_nat n) as k. intros k. revert l. induction k as [|k IH]; intros l.
  - reflexivity.
  - destruct l as [|x l]; simpl.
    + destruct (Z.to_nat i); reflexivity.
    + apply IH.
Qed.

Lemma getz_firstn l n i : 0 <= i -> 0 <= n ->
  getz (firstn (Z.to_nat n) l) i = if i <? n then getz l i else None.
Proof.
  intros Hi Hn. destruct (Z.ltb_spec i n).
  - rewrite !getz_nth by lia.
    rewrite <- (firstn_skipn (Z.to_nat n) l) at 2.
    destruct (Nat.lt_ge_cases (Z.to_nat i) (length (firstn (Z.to_nat n) l))) as [Hl|Hl].
    + rewrite nth_error_app1 by assumption. reflexivity.
    + rewrite firstn_length in Hl.
      assert (Hll : (length l <= Z.to_nat i)%nat) by lia.
      assert (E1 : nth_error (firstn (Z.to_nat n) l) (Z.to_nat i) = None).
      { apply nth_error_None. rewrite firstn_length. lia. }
      rewrite E1. symmetry. apply nth_error_None.
      rewrite app_length, firstn_length, skipn_length. lia.
  - apply getz_oob. unfold zlen. rewrite firstn_length. lia.
Qed.

Lemma rev_cons_inv {X} (l r : list X) (x : X) : rev l = x :: r -> l = rev r ++ [x].
Proof. intros H. rewrite <- (rev_involutive l), H. reflexivity. Qed.

Lemma list_ext l1 l2 :
  zlen l1 = zlen l2 -> (forall i, 0 <= i < zlen l1 -> getz l1 i = getz l2 i) -> l1 = l2.
Proof.
  revert l2. induction l1 as [|x l1 IH]; intros l2 Hlen Hp.
  - symmetry. apply zlen_0_nil. rewrite <- Hlen. reflexivity.
  - destruct l2 as [|y l2].
    + rewrite zlen_cons, zlen_nil in Hlen. pose proof (zlen_nonneg l1). lia.
    + rewrite !zlen_cons in Hlen.
      pose proof (zlen_nonneg l1) as Hl1.
      assert (H0 := Hp 0). rewrite zlen_cons in H0. specialize (H0 ltac:(lia)).
      rewrite !getz_cons in H0 by lia. simpl in H0. injection H0 as ->.
      f_equal. apply IH; [lia|].
      intros i Hi. specialize (Hp (i + 1)). rewrite zlen_cons in Hp. specialize (Hp ltac:(lia)).
      rewrite !getz_cons in Hp by lia.
      destruct (Z.eqb_spec (i + 1) 0); [lia|].
      replace (i + 1 - 1) with i in Hp by lia. exact Hp.
Qed.

Lemma skipn_repeat (x : A) n k : skipn k (repeat x n) = repeat x (n - k).
Proof.
  revert k. induction n as [|n IH]; intros [|k]; simpl; auto.
Qed.

Lemma firstn_all2' l n : (length l <= n)%nat -> firstn n l = l.
Proof. apply firstn_all2. Qed.

End ListZ.
