(* C12 — Deque and FIFO queues hold exactly what a plain list would.
   Only the property theorems: each is closed by an exact lemma and followed by Print
   Assumptions.  A is the element type, nilv Go's nil; the plain-list reference is
   C12/Spec.v (spec_step / fifo_step). *)
From Coq Require Import ZArith List Bool.
From FV Require Import Generated.Consts C12.Spec C12.Model C12.Proofs.
Import ListNotations.
Open Scope Z_scope.

(* "Any sequence of pushes and pops at either end, indexed reads and writes, rotations and
   clears leaves the deque holding exactly the elements a plain list would hold, in the same
   order; reads of an empty deque or out-of-range indices are refused by panic rather than
   answered with stale data":
   for every operation sequence on a deque that starts empty and well-formed (the zero value
   and every NewDeque(c, m) are, see c12_initial_deques), every call returns what the plain
   list returns — OPanic exactly where the list operation is undefined — and at the end the
   ring buffer holds the list's elements in the list's order, Len() being its length. *)
Theorem c12_deque_refines_list :
  forall (A : Type) (nilv : A) (d0 : deque) (ops : list (op A)),
    wf d0 -> R d0 [] ->
    let '(d, outs) := run nilv d0 ops in
    let '(l, souts) := spec_run [] ops in
    outs = souts /\ contents nilv d = l /\ count d = zlen l.
Proof. exact @deque_refines_list. Qed.
Print Assumptions c12_deque_refines_list.

(* ... and no call of any history ends in a Go run-time error (slice index out of range) or
   fails to terminate: panics are only the explicit refusals above *)
Theorem c12_deque_no_runtime_error :
  forall (A : Type) (nilv : A) (d0 : deque) (ops : list (op A)),
    wf d0 -> R d0 [] -> ~ In OCrash (snd (run nilv d0 ops)).
Proof. exact @deque_no_crash. Qed.
Print Assumptions c12_deque_no_runtime_error.

(* "the capacity stays a power of two no smaller than the configured minimum and no smaller
   than the length".  The minimum is configured by NewDeque and, on a live deque, by
   SetMinCapacity(e), which is an operation of the histories (SetMinCap e).
   (a) every history: the capacity is 0 (nothing allocated yet) or a power of two, at least
   minCapacity and at least the length; the minimum in force cfg (minCap, or minCapacity for a
   zero value that has not allocated) is a power of two >= minCapacity *)
Theorem c12_cap :
  forall (A : Type) (nilv : A) (d0 : deque) (ops : list (op A)),
    wf d0 -> R d0 [] ->
    let d := fst (run nilv d0 ops) in
    (cap d = 0 \/ (pow2 (cap d) /\ collections_queue_minCapacity <= cap d /\ count d <= cap d)) /\
    pow2 (cfg d) /\ collections_queue_minCapacity <= cfg d.
Proof. exact @deque_capacity. Qed.
Print Assumptions c12_cap.

(* (b) what the code guarantees about the minimum, after any history and for any next call:
   a call other than SetMinCapacity keeps the minimum in force, allocates at no less than it,
   never shrinks below it, and keeps "capacity >= minimum" (above) once it holds;
   SetMinCapacity changes nothing but the minimum — capacity, length and contents stay, so
   right after raising the minimum above the current capacity the deque is below it, and it
   can only grow (not shrink) until it is at or above it again *)
Theorem c12_minimum_step :
  forall (A : Type) (nilv : A) (d0 : deque) (ops : list (op A)) (o : op A),
    wf d0 -> R d0 [] ->
    let d := fst (run nilv d0 ops) in
    let d' := fst (step nilv d o) in
    ((forall e, o <> SetMinCap e) ->
       cfg d' = cfg d /\
       (cap d = 0 -> cap d' = 0 \/ cfg d' <= cap d') /\
       (cap d' < cap d -> cfg d' <= cap d') /\
       (above d -> above d')) /\
    (forall e, o = SetMinCap e ->
       cap d' = cap d /\ count d' = count d /\ contents nilv d' = contents nilv d).
Proof. exact @deque_minimum_step. Qed.
Print Assumptions c12_minimum_step.

(* (c) hence, for histories that do not call SetMinCapacity, the capacity is never below the
   minimum configured at construction *)
Theorem c12_cap_configured :
  forall (A : Type) (nilv : A) (d0 : deque) (ops : list (op A)),
    wf d0 -> R d0 [] -> above d0 -> no_set_min ops ->
    let d := fst (run nilv d0 ops) in
    cap d = 0 \/ cfg d0 <= cap d.
Proof. exact @deque_capacity_configured. Qed.
Print Assumptions c12_cap_configured.

(* "on zero-value and sized deques": the zero value and NewDeque(capacity, minimum) for all
   arguments up to 2^62 (beyond, Go's int overflows in the rounding loop) start empty and
   well-formed, with minCap a power of two >= minCapacity and >= minimum, and with capacity 0 or
   >= that minimum *)
Theorem c12_initial_deques :
  forall (A : Type) (nilv : A),
    (wf (@zero_deque A) /\ R (@zero_deque A) [] /\ above (@zero_deque A)) /\
    forall capacity minimum, capacity <= 2 ^ 62 -> minimum <= 2 ^ 62 ->
      exists d, new_deque nilv capacity minimum = Some d /\ wf d /\ R d [] /\
                pow2 (minCap d) /\ collections_queue_minCapacity <= minCap d /\ minimum <= minCap d /\
                above d.
Proof.
  intros A nilv. split; [split; [exact wf_zero | split; [exact R_zero|left; reflexivity]]|exact (new_deque_ok nilv)].
Qed.
Print Assumptions c12_initial_deques.

(* "The unbounded FIFO queues return every pushed element exactly once in push order":
   for every history and every block-size configuration the queue answers like the plain
   FIFO list (Init() included: it empties both) and holds the list's elements in order ... *)
Theorem c12_unbounded_fifo :
  forall (A : Type) (nilv : A) (maxFirst maxInternal : Z) (ops : list (uop A)),
    let '(q, outs) := urun nilv maxFirst maxInternal uq_init ops in
    let '(l, souts) := fifo_run [] ops in
    outs = souts /\ ucontents q = l /\ qlen q = zlen l.
Proof. exact @unbounded_refines_fifo. Qed.
Print Assumptions c12_unbounded_fifo.

(* ... hence the elements popped so far followed by those still queued are exactly the
   elements pushed, in push order (nothing lost, duplicated or reordered), and no call
   hits a run-time error *)
Theorem c12_unbounded_exactly_once :
  forall (A : Type) (nilv : A) (maxFirst maxInternal : Z) (ops : list (uop A)),
    ~ In UInit ops ->       (* Init() discards what is queued; histories without it *)
    let '(q, outs) := urun nilv maxFirst maxInternal uq_init ops in
    popped ops outs ++ ucontents q = pushed ops.
Proof. exact @unbounded_exactly_once. Qed.
Print Assumptions c12_unbounded_exactly_once.

Theorem c12_unbounded_no_runtime_error :
  forall (A : Type) (nilv : A) (maxFirst maxInternal : Z) (ops : list (uop A)),
    ~ In UOCrash (snd (urun nilv maxFirst maxInternal uq_init ops)).
Proof. exact @unbounded_no_crash. Qed.
Print Assumptions c12_unbounded_no_runtime_error.

(* "the concurrent variant loses or duplicates nothing ... under parallel producers and
   consumers": every method holds the mutex for its whole body, so a schedule is a list of
   (goroutine, call); for ALL such lists, dequeued ++ remaining = enqueued, in linearisation
   order *)
Theorem c12_concurrent :
  forall (A : Type) (nilv : A) (maxFirst maxInternal : Z) (sched : list (Z * uop A)),
    no_init sched ->        (* the concurrent type has no Init method *)
    let '(q, outs) := crun nilv maxFirst maxInternal uq_init sched in
    popped (map snd sched) outs ++ ucontents q = pushed (map snd sched).
Proof. exact @concurrent_conservation. Qed.
Print Assumptions c12_concurrent.

(* "... and preserves each producer's order": if owner tells which goroutine enqueued an
   element, then for every producer p the elements of p dequeued so far, followed by those
   of p still queued, are exactly p's Enqueue calls in p's program order *)
Theorem c12_concurrent_producer_order :
  forall (A : Type) (nilv : A) (maxFirst maxInternal : Z) (owner : A -> Z)
         (sched : list (Z * uop A)) (p : Z),
    no_init sched ->
    (forall t a, In (t, UPush a) sched -> owner a = t) ->
    let '(q, outs) := crun nilv maxFirst maxInternal uq_init sched in
    filter (fun a => owner a =? p) (popped (map snd sched) outs)
      ++ filter (fun a => owner a =? p) (ucontents q)
    = pushed (calls_of p sched).
Proof. exact @concurrent_producer_order. Qed.
Print Assumptions c12_concurrent_producer_order.

(* ... also as seen by each consumer: what consumer c received from producer p is a
   subsequence of p's Enqueue calls, in p's program order *)
Theorem c12_concurrent_consumer_view :
  forall (A : Type) (nilv : A) (maxFirst maxInternal : Z) (owner : A -> Z)
         (sched : list (Z * uop A)) (p c : Z),
    no_init sched ->
    (forall t a, In (t, UPush a) sched -> owner a = t) ->
    let '(q, outs) := crun nilv maxFirst maxInternal uq_init sched in
    subseq (filter (fun a => owner a =? p) (received c sched outs)) (pushed (calls_of p sched)).
Proof. exact @concurrent_consumer_view. Qed.
Print Assumptions c12_concurrent_consumer_view.

(* "all schedules", with the mutex explicit (C12/Concurrent.v).  Every method of the concurrent
   queue is Lock (RLock for Len); one call on the inner queue; Unlock.  Each call is three
   scheduler-visible steps of its goroutine (acquire, body, release), the RWMutex is a state,
   an acquire that cannot be granted leaves the goroutine where it is, and a schedule is ANY list
   of goroutine ids, for ANY programs.  Whatever the schedule: the queue and the results are
   those of the ATOMIC schedule made of the bodies in the order they ran (so c12_concurrent,
   c12_concurrent_producer_order and c12_concurrent_consumer_view apply to it: the
   linearisation point of a call is its body step); mutual exclusion holds (a writer is alone in
   its critical section, readers are inside Len only); and every goroutine's bodies follow its
   program order. *)
Theorem c12_fine_grained_is_atomic :
  forall (A : Type) (nilv : A) (maxFirst maxInternal : Z) (progs : list (list (uop A))) (sched : list nat),
    let s := frun nilv maxFirst maxInternal (finit progs) sched in
    crun nilv maxFirst maxInternal uq_init (ftrace s) = (fq s, fouts s) /\
    lock_ok s /\ order_ok progs s.
Proof.
  intros A nilv mf mi progs sched. split; [apply fine_is_atomic|].
  split; [apply fine_mutual_exclusion|apply fine_program_order].
Qed.
Print Assumptions c12_fine_grained_is_atomic.

Example c12_example_fine_grained :
  let progs := [[UPush 1; UPush 2; ULen]; [UPop; UPop]; [ULen; UPush 3]] in
  let s := frun 0 16 128 (finit progs)
             [0; 2; 1; 0; 0; 2; 2; 1; 1; 2; 1; 0; 2; 0; 2; 1; 0; 1; 0; 1; 0; 0; 0; 2]%nat in
  (* goroutine 2's Len had to wait for goroutine 0's Push; goroutine 0 is inside Len at the end *)
  ftrace s = [(0, UPush 1); (2, ULen); (1, UPop); (0, UPush 2)] /\
  fouts s = [UONone; UOInt 1; UOVal 1; UONone] /\ flock s = Readers [0%nat].
Proof. vm_compute. repeat split; reflexivity. Qed.

(* non-vacuity: a sized deque meets the hypotheses; a history that grows, wraps, rotates,
   shrinks and reads out of range computes, and agrees with the list *)
Example c12_example_init :
  exists d, new_deque 0 5 33 = Some d /\ wf d /\ R d [] /\ cap d = 64 /\ minCap d = 64.
Proof.
  destruct (new_deque_ok 0 5 33) as (d & E & Hw & Hr & _); try (vm_compute; discriminate).
  exists d. split; [exact E|]. split; [exact Hw|]. split; [exact Hr|].
  assert (E2 : new_deque 0 5 33 = Some (mkDeque (repeat 0 64) 0 0 0 64)) by reflexivity.
  rewrite E in E2. injection E2 as ->. split; reflexivity.
Qed.

Example c12_example_run :
  let ops := map PushBack [1;2;3;4;5;6;7;8;9;10;11;12;13;14;15;16;17]
             ++ [Rotate (-3); PopFront; PushFront 99; At 17; At 0; SetAt 1 7; Back]
             ++ repeat PopBack 13 ++ [Front; Clear; PopFront] in
  snd (run 0 zero_deque ops) = snd (spec_run [] ops) /\
  nth 20 (snd (run 0 zero_deque ops)) ONone = OPanic /\
  cap (fst (run 0 zero_deque ops)) = 16.
Proof. vm_compute. repeat split; reflexivity. Qed.

Example c12_example_queue :
  let ops := [UPush 7; UPush 8; UPop; UInit; UFront] ++
             map UPush [1;2;3;4;5;6;7;8;9;10;11;12;13;14;15;16;17;18] ++ [UPop; UPop; ULen; UFront] in
  snd (urun 0 16 128 uq_init ops) = snd (fifo_run [] ops) /\
  map (@length Z) (blocks (fst (urun 0 16 128 uq_init ops))) = [16; 2]%nat.
Proof. vm_compute. split; reflexivity. Qed.

(* ------------------------------------------------------------------------------------------
   The same facts stated about the definitions tools/gofunc regenerates from deque.go /
   unbounded.go on every run (Generated/Deque.v; lemmas in C12/Source.v): if prev, next, Len or
   Cap change in the source, these are the obligations that are re-checked. *)
From FV Require Import Generated.Deque C12.Source.

(* the model's ring-index helpers are the translated source *)
Theorem c12_src_is_model : forall (A : Type) (d : @deque A) i,
  cap d < 2 ^ 63 -> - 2 ^ 63 < i < 2 ^ 63 - 1 ->
  go_Deque_next (cap d) i = next d i /\ go_Deque_prev (cap d) i = prev d i /\
  go_Deque_Len (count d) = count d /\ go_Deque_Cap (cap d) = cap d.
Proof. exact src_is_model. Qed.
Print Assumptions c12_src_is_model.

Theorem c12_src_queue_len : forall (A : Type) (q : @uq A), go_UnboundedQueue_Len (qlen q) = qlen q.
Proof. exact @src_uq_len. Qed.
Print Assumptions c12_src_queue_len.

(* on a buffer of 2^k slots the source's next / prev are the successor / predecessor modulo
   the capacity, and undo each other *)
Theorem c12_src_ring_step : forall k i, 0 <= k < 63 -> 0 <= i < 2 ^ k ->
  go_Deque_next (2 ^ k) i = (i + 1) mod 2 ^ k /\ go_Deque_prev (2 ^ k) i = (i - 1) mod 2 ^ k /\
  go_Deque_prev (2 ^ k) (go_Deque_next (2 ^ k) i) = i /\
  go_Deque_next (2 ^ k) (go_Deque_prev (2 ^ k) i) = i.
Proof. exact src_ring_step. Qed.
Print Assumptions c12_src_ring_step.

(* ALL of Rotate - the early returns, n %= q.count, modBits, the full-buffer fast path and the
   two element-moving loops with their writes to q.buf, q.head, q.tail - is the translated
   source's, translated whole (interface{} values are tokens: the model at A := Z, nilv := 0):
   the deque then has the head, tail and buffer the source assigned; the source panics exactly when the model crashes; it needs at most |count|
   iterations *)
Theorem c12_src_rotate : forall (d : @deque Z) n0 fuel,
  0 < cap d < 2 ^ 62 -> - 2 ^ 62 < count d < 2 ^ 62 -> - 2 ^ 63 <= n0 < 2 ^ 63 ->
  - 2 ^ 62 < head d < 2 ^ 62 -> - 2 ^ 62 < tail d < 2 ^ 62 -> (Z.to_nat (Z.abs (count d)) < fuel)%nat ->
  match go_Deque_Rotate fuel (head d) (tail d) (buf d) (count d) n0 with
  | Lib.GoSem.Ok (h, t, b) => rotate 0 d n0 = Some (mkDeque b h t (count d) (minCap d))
  | Lib.GoSem.Panic => rotate 0 d n0 = None
  | Lib.GoSem.OutOfFuel => False
  end.
Proof. exact src_rotate. Qed.
Print Assumptions c12_src_rotate.

(* resize, growIfFull, shrinkIfExcess translated whole (make, copy, the slices of q.buf, the
   writes to q.buf / q.head / q.tail / q.minCap) are the model's functions on token elements:
   the fields they leave are the model's, and they panic exactly when the model says None *)
Theorem c12_src_grow_shrink : forall (d : @deque Z), - 2 ^ 61 < count d < 2 ^ 61 ->
  go_Deque_resize (head d) (tail d) (buf d) (count d) =
    lift_d (fun d' => (head d', tail d', buf d')) (resize 0 d) /\
  go_Deque_growIfFull (minCap d) (buf d) (head d) (tail d) (count d) =
    lift_d (fun d' => (minCap d', buf d', head d', tail d')) (grow_if_full 0 d) /\
  go_Deque_shrinkIfExcess (head d) (tail d) (buf d) (minCap d) (count d) =
    lift_d (fun d' => (head d', tail d', buf d')) (shrink_if_excess 0 d).
Proof. intros d H. exact (conj (src_resize d H) (conj (src_grow d H) (src_shrink d H))). Qed.
Print Assumptions c12_src_grow_shrink.

(* PushBack / PushFront / PopFront / PopBack translated whole, with the calls of growIfFull,
   shrinkIfExcess, next, prev and the ring-buffer writes *)
Theorem c12_src_push : forall (d : @deque Z) a,
  cap d < 2 ^ 62 -> minCap d < 2 ^ 62 -> - 2 ^ 61 < count d < 2 ^ 61 ->
  - 2 ^ 61 < head d < 2 ^ 61 -> - 2 ^ 61 < tail d < 2 ^ 61 ->
  go_Deque_PushBack (minCap d) (buf d) (head d) (tail d) (count d) a = lift_d push_fields (push_back 0 d a) /\
  go_Deque_PushFront (minCap d) (buf d) (head d) (tail d) (count d) a = lift_d push_fields (push_front 0 d a).
Proof. intros d a Hc Hm Hn Hh Ht. exact (conj (src_push_back d a Hc Hm Hn Ht) (src_push_front d a Hc Hm Hn Hh)). Qed.
Print Assumptions c12_src_push.

Theorem c12_src_pop : forall (d : @deque Z),
  cap d < 2 ^ 62 -> - 2 ^ 61 < count d < 2 ^ 61 -> 0 < count d ->
  - 2 ^ 61 < head d < 2 ^ 61 -> - 2 ^ 61 < tail d < 2 ^ 61 ->
  go_Deque_PopFront (buf d) (head d) (count d) (tail d) (minCap d) =
    match pop_front 0 d with
    | Some (d2, ret) => Lib.GoSem.Ok (ret, buf d2, head d2, count d2, tail d2)
    | None => Lib.GoSem.Panic
    end /\
  go_Deque_PopBack (tail d) (buf d) (count d) (head d) (minCap d) =
    match pop_back 0 d with
    | Some (d2, ret) => Lib.GoSem.Ok (ret, tail d2, buf d2, count d2, head d2)
    | None => Lib.GoSem.Panic
    end.
Proof. intros d Hc Hn Hp Hh Ht. exact (conj (src_pop_front d Hc Hn Hh Hp) (src_pop_back d Hc Hn Ht Hp)). Qed.
Print Assumptions c12_src_pop.

(* EVERY call of the model's [step] - PushBack, PushFront, PopFront, PopBack, Front, Back, At,
   Set, Clear (its loop, at most len(q.buf)+1 iterations as in the model), Rotate,
   SetMinCapacity - is the translated method run on the deque's fields ([go_step]): the same
   deque afterwards, the same value returned, and a Go panic (explicit or run-time) or a loop
   that does not end exactly where the model says OPanic / OCrash.  Hypotheses: sizes and
   indices below 2^61 (no int overflow in count<<1, count<<2, head+i), arguments of their Go
   types, Rotate on an allocated buffer *)
Theorem c12_src_step : forall (d : @deque Z) (o : op Z),
  cap d < 2 ^ 62 -> minCap d < 2 ^ 62 -> - 2 ^ 61 < count d < 2 ^ 61 ->
  - 2 ^ 61 < head d < 2 ^ 61 -> - 2 ^ 61 < tail d < 2 ^ 61 -> arg_ok d o ->
  match go_step d o with
  | Lib.GoSem.Ok r => Model.step 0 d o = r
  | Lib.GoSem.Panic => Model.step 0 d o = (d, OPanic) \/ Model.step 0 d o = (d, OCrash)
  | Lib.GoSem.OutOfFuel => Model.step 0 d o = (d, OCrash)
  end.
Proof. exact src_step. Qed.
Print Assumptions c12_src_step.

(* ---------------------------------------------------------------------------------------------
   Histories made directly with the regenerated methods (C12/SourceHistory.v, on top of
   c12_src_step).  [go_run] threads a deque through the translated PushBack / PushFront /
   PopFront / PopBack / Front / Back / At / Set / Clear / Rotate / SetMinCapacity (a call that
   panics is recovered and leaves the deque as it was).  For every history of at most 2^58 calls
   on a deque that starts empty and well-formed with capacity and minimum <= 2^59, index
   arguments that are Go ints, exponents <= 59 and Rotate only on an allocated buffer: the
   translated calls do what the model does, return what the plain list returns (panic exactly
   where the list operation is undefined) and leave the list's elements in the list's order.
   Fuel (Clear: len+2 iterations, Rotate: |count|+1) never runs out. *)
From FV Require Import C12.SourceHistory.

Theorem c12_src_history : forall (d0 : @deque Z) (ops : list (op Z)),
  wf d0 -> R d0 [] -> cap d0 <= 2 ^ 59 -> cfg d0 <= 2 ^ 59 ->
  Forall arg_small ops -> rot_ok (0 <? cap d0) ops -> Z.of_nat (length ops) <= 2 ^ 58 ->
  go_run d0 ops = run 0 d0 ops /\
  snd (go_run d0 ops) = snd (spec_run [] ops) /\
  contents 0 (fst (go_run d0 ops)) = fst (spec_run [] ops).
Proof. exact src_history. Qed.
Print Assumptions c12_src_history.

(* "leaves the deque holding exactly the elements a plain list would hold" includes every
   reallocation: growIfFull and shrinkIfExcess keep the contents and the length *)
Theorem c12_resize_keeps_contents : forall (A : Type) (nilv : A) (d : @deque A) (l : list A),
  wf d -> R d l ->
  (exists d', grow_if_full nilv d = Some d' /\ wf d' /\ contents nilv d' = l /\ count d' = count d) /\
  (exists d', shrink_if_excess nilv d = Some d' /\ wf d' /\ contents nilv d' = l /\ count d' = count d).
Proof. exact @resize_keeps_contents. Qed.
Print Assumptions c12_resize_keeps_contents.

(* non-vacuity: a history of translated calls that allocates, fills to capacity, grows, wraps,
   rotates, raises the minimum, reads out of range and drains meets the hypotheses and computes *)
Example c12_example_src_history :
  let ops := map PushBack [1;2;3;4;5;6;7;8;9;10;11;12;13;14;15;16]
             ++ [SetMinCap 6; PushFront 17; Rotate (-3); At 17; At 0; PopFront; SetAt 1 7; Back; Clear; PopBack] in
  Forall arg_small ops /\ rot_ok false ops /\
  snd (go_run zero_deque ops) = snd (spec_run [] ops) /\
  cap (fst (go_run zero_deque ops)) = 32 /\ nth 19 (snd (go_run zero_deque ops)) ONone = OPanic.
Proof.
  split; [repeat (apply Forall_cons; [simpl; try exact I; repeat split; easy|]); apply Forall_nil|]. split; [simpl; tauto|]. vm_compute. repeat split; reflexivity.
Qed.
