From Coq Require Import ZArith List Bool.
From FV Require Import C12.Spec C12.Model C12.Proofs.
Import ListNotations.
Open Scope Z_scope.
